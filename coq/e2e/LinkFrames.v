(* Pool-model groundwork for e2e/Link.v (the link M-POOL -> M-E2E): how one operation of
   pool/Model.v changes the flags (share, open, ready) of the connection records, and which
   hand-off / hand-back events it can emit.  Only pool/Model.v is consulted here; no e2e notion.

   Summary proved at the end ([step_sum]), for s' = step cfg s o:
     (1) every existing connection keeps its share flag, [c_open] never goes back to true, and
         [c_ready] goes from false to true only by the environment op [ConnReady c];
     (2) after [ConnClose c] / [Upgrade r] the connection concerned is not open;
     (3) every [EHand r c ..] emitted in the step leaves a non-shared c not ready, and every
         [ERdy c true] emitted in the step finds a non-shared c open and ready. *)
From HD Require Import common.Base http.Model pool.Model pool.Spec pool.Frames pool.FramesC06.
From HD Require pool.FramesC02.
From HD Require Import pool.ProofsC06.
Local Open Scope list_scope.

Definition cfl (cn : conn) : bool * bool * bool := (c_share cn, c_open cn, c_ready cn).
Definition cflags (s : state) : list (bool * bool * bool) := map cfl (conns s).

Definition shf (fl : list (bool * bool * bool)) (c : nat) : bool :=
  match nth_error fl c with Some (sh, _, _) => sh | None => false end.
Definition popen (fl : list (bool * bool * bool)) (c : nat) : bool :=
  match nth_error fl c with Some (_, op, _) => op | None => false end.
Definition pready (fl : list (bool * bool * bool)) (c : nat) : bool :=
  match nth_error fl c with Some (_, _, rd) => rd | None => false end.

Lemma nth_cflags s c : nth_error (cflags s) c = option_map cfl (get_conn s c).
Proof. unfold cflags, get_conn. rewrite nth_error_map. reflexivity. Qed.
Lemma share_of_shf s c : share_of s c = shf (cflags s) c.
Proof. unfold share_of, shf. rewrite nth_cflags. destruct (get_conn s c); reflexivity. Qed.

(* events that are neither a hand-off nor a successful hand-back *)
Definition nohr (e : ev) : Prop :=
  match e with EHand _ _ _ _ _ _ => False | ERdy _ true => False | _ => True end.
Definition noh (e : ev) : Prop := match e with EHand _ _ _ _ _ _ => False | _ => True end.

(* what the link needs to know about an emitted event, relative to the flags at the end of the op *)
Definition evok (fl : list (bool * bool * bool)) (e : ev) : Prop :=
  match e with
  | EHand _ c _ _ _ _ => match nth_error fl c with Some (sh, _, rd) => sh = false -> rd = false | None => True end
  | ERdy c true => match nth_error fl c with Some (sh, op, rd) => sh = false -> op = true /\ rd = true | None => False end
  | _ => True
  end.

Lemma nohr_noh e : nohr e -> noh e. Proof. destruct e; cbn; auto. Qed.
Lemma nohr_evok fl e : nohr e -> evok fl e.
Proof. destruct e as [| | | | | | |c [|]]; cbn; auto; contradiction. Qed.
Lemma evok_app fl l e : noh e -> evok fl e -> evok (fl ++ l) e.
Proof.
  destruct e as [| | | | | | |c [|]]; cbn; auto; try contradiction. intros _.
  destruct (nth_error fl c) as [[[sh op] rd]|] eqn:E; [|contradiction].
  rewrite (nth_error_app_some _ l _ _ E). auto.
Qed.

(* ---------------------------------------------------------------- Q: flags untouched, quiet events *)
Definition outs (P : ev -> Prop) (s s' : state) : Prop := exists es, out s' = es ++ out s /\ Forall P es.
Definition Q (s s' : state) : Prop := cflags s' = cflags s /\ outs nohr s s'.

Lemma outs_refl P s : outs P s s. Proof. exists []. split; [reflexivity|constructor]. Qed.
Lemma outs_trans P s1 s2 s3 : outs P s1 s2 -> outs P s2 s3 -> outs P s1 s3.
Proof.
  intros (e1 & H1 & F1) (e2 & H2 & F2). exists (e2 ++ e1). split; [rewrite H2, H1, app_assoc; reflexivity|].
  apply Forall_app. auto.
Qed.
Lemma outs_weak (P P' : ev -> Prop) s s' : (forall e, P e -> P' e) -> outs P s s' -> outs P' s s'.
Proof. intros H (es & E & F). exists es. split; [exact E|]. eapply Forall_impl; eauto. Qed.

Lemma Q_refl s : Q s s. Proof. split; [reflexivity|apply outs_refl]. Qed.
Lemma Q_trans s1 s2 s3 : Q s1 s2 -> Q s2 s3 -> Q s1 s3.
Proof. intros [A1 B1] [A2 B2]. split; [congruence|eapply outs_trans; eauto]. Qed.
Lemma Q_same s s' : conns s' = conns s -> out s' = out s -> Q s s'.
Proof. intros Hc Ho. split; [unfold cflags; rewrite Hc; reflexivity|]. exists []. split; [exact Ho|constructor]. Qed.
Lemma Q_emit e s : nohr e -> Q s (emit e s).
Proof. intros He. split; [reflexivity|]. exists [e]. split; [reflexivity|constructor; [exact He|constructor]]. Qed.
Lemma Q_upd_conn c f s : (forall cn, cfl (f cn) = cfl cn) -> Q s (upd_conn c f s).
Proof.
  intros Hf. split; [|exists []; split; [reflexivity|constructor]]. unfold cflags, upd_conn. cbn [conns set_conns].
  apply map_upd_nth. intros x _. apply Hf.
Qed.

Ltac qs := apply Q_same; reflexivity.
Ltac qt := eapply Q_trans.

Lemma Q_set_req r v s : Q s (set_req r v s). Proof. qs. Qed.
Lemma Q_upd_dial r f s : Q s (upd_dial r f s). Proof. qs. Qed.
Lemma Q_wake_req r s : Q s (wake_req r s). Proof. qs. Qed.
Lemma Q_unwake_req r s : Q s (unwake_req r s). Proof. qs. Qed.
Lemma Q_spawn tk s : Q s (spawn tk s). Proof. qs. Qed.
Lemma Q_finish_task t s : Q s (finish_task t s). Proof. qs. Qed.
Lemma Q_set_now v s : Q s (set_now v s). Proof. qs. Qed.
Lemma Q_set_woken v s : Q s (set_woken v s). Proof. qs. Qed.
Lemma Q_set_runq v s : Q s (set_runq v s). Proof. qs. Qed.
Lemma Q_upd_tok t f s : Q s (upd_tok t f s). Proof. destruct t; [apply Q_refl|qs]. Qed.
Lemma Q_wake_task t s : Q s (wake_task t s).
Proof. unfold wake_task. destruct (existsb _ _); [apply Q_refl|qs]. Qed.
Lemma Q_wake_poller p r s : Q s (wake_poller p r s).
Proof. destruct p as [[|t]|]; cbn; [apply Q_wake_req|apply Q_wake_task|apply Q_refl]. Qed.
Lemma Q_wake_tasks l : forall s, Q s (wake_tasks l s).
Proof. induction l as [|t l IH]; intros s; cbn; [apply Q_refl|]. qt; [apply Q_wake_task|apply IH]. Qed.
Lemma Q_clone_conn c s : Q s (clone_conn c s).
Proof. apply Q_upd_conn. reflexivity. Qed.
Lemma Q_drop_conn c s : Q s (drop_conn c s).
Proof.
  unfold drop_conn. destruct (get_conn s c) as [cn|]; [|apply Q_refl].
  assert (H : Q s (upd_conn c (c_set_refs (pred (c_refs cn))) s)) by (apply Q_upd_conn; reflexivity).
  destruct (Nat.eqb _ 0); [|exact H]. qt; [exact H|apply Q_emit; exact I].
Qed.
Lemma Q_drain_conn_waiters c s : Q s (drain_conn_waiters c s).
Proof.
  unfold drain_conn_waiters. destruct (get_conn s c); [|apply Q_refl].
  qt; [apply (Q_upd_conn c (c_set_waiters [])); reflexivity|apply Q_wake_tasks].
Qed.
Lemma Q_drop_all l : forall s, Q s (drop_all l s).
Proof. induction l as [|[c a] l IH]; intros s; cbn; [apply Q_refl|]. qt; [apply Q_drop_conn|apply IH]. Qed.
Lemma Q_pooled_drop p s : Q s (pooled_drop p s).
Proof. destruct p as [c t]. unfold pooled_drop. destruct (share_of s c); [apply Q_drop_conn|apply Q_spawn]. Qed.
Lemma Q_deliver w p s : Q s (deliver w p s).
Proof.
  unfold deliver. destruct (get_req s w) as [[|ck| | |]|]; try apply Q_refl.
  destruct (k_rxpolled ck); [qt; [apply Q_set_req|apply Q_wake_req]|apply Q_set_req].
Qed.

Lemma Q_walk_waiters t c sh ws : forall s, Q s (snd (walk_waiters t c sh ws s)).
Proof.
  induction ws as [|[w b] ws IH]; intros s; cbn [walk_waiters]; [apply Q_refl|].
  destruct (rx_live s w); [destruct sh|]; cbn [snd].
  - qt; [|apply IH]. qt; [apply Q_clone_conn|apply Q_deliver].
  - apply Q_deliver.
  - apply IH.
Qed.

Lemma Q_pool_push n t c s : Q s (pool_push n t c s).
Proof.
  unfold pool_push.
  set (s1 := if share_of s c then upd_tok t (set_marker None) s else s).
  assert (Q1 : Q s s1) by (unfold s1; destruct (share_of s c); [apply Q_upd_tok|apply Q_refl]).
  pose proof (Q_walk_waiters t c (share_of s1 c) (p_waiting (get_tok s1 t)) s1) as Q2.
  destruct (walk_waiters t c (share_of s1 c) (p_waiting (get_tok s1 t)) s1) as [[rest moved] s2]. cbn [snd] in Q2.
  assert (Q3 : Q s (upd_tok t (set_waiting rest) s2)) by (qt; [exact Q1|qt; [exact Q2|apply Q_upd_tok]]).
  destruct moved; [exact Q3|]. destruct (Nat.ltb _ n); (qt; [exact Q3|]); [apply Q_upd_tok|apply Q_drop_conn].
Qed.

Lemma Q_drop_sender w s : Q s (drop_sender w s).
Proof.
  unfold drop_sender. destruct (get_req s w) as [[|ck| | |]|]; try apply Q_refl.
  destruct (k_waiter ck); try apply Q_refl;
    (destruct (k_rxpolled ck); [qt; [apply Q_set_req|apply Q_wake_req]|apply Q_set_req]).
Qed.

Lemma Q_release_pending ws : forall s, Q s (snd (release_pending ws s)).
Proof.
  induction ws as [|[w b] ws IH]; intros s; cbn [release_pending]; [apply Q_refl|]. destruct b.
  - qt; [apply Q_drop_sender|apply IH].
  - specialize (IH s). destruct (release_pending ws s). exact IH.
Qed.

Lemma Q_pool_cancel t rid s : Q s (pool_cancel t rid s).
Proof.
  unfold pool_cancel. destruct (p_marker (get_tok s t)) as [o|]; [|apply Q_refl].
  destruct (Nat.eqb o rid); [|apply Q_refl].
  set (s1 := upd_tok t (set_marker None) s).
  pose proof (Q_release_pending (p_waiting (get_tok s1 t)) s1) as Q2.
  destruct (release_pending (p_waiting (get_tok s1 t)) s1) as [rest s2]. cbn [snd] in Q2.
  qt; [apply (Q_upd_tok t (set_marker None) s)|]. qt; [exact Q2|apply Q_upd_tok].
Qed.

Lemma Q_pop_loop thr rl : forall s, Q s (snd (pop_loop thr rl s)).
Proof.
  induction rl as [|[c a] rl IH]; intros s; cbn [pop_loop]; [apply Q_refl|].
  destruct (match thr with Some y => (a <? y)%N | None => false end); cbn [snd].
  - qt; [apply Q_drop_conn|apply Q_drop_all].
  - destruct (is_open s c); cbn [snd]; [apply Q_refl|]. qt; [apply Q_drop_conn|apply IH].
Qed.

Lemma Q_pool_pop to t s : Q s (snd (pool_pop to t s)).
Proof.
  unfold pool_pop.
  pose proof (Q_pop_loop (expiry_threshold to (now s)) (rev (p_idle (get_tok s t))) s) as H.
  destruct (pop_loop _ _ s) as [[r rest] s1]. cbn [snd] in *. qt; [exact H|apply Q_upd_tok].
Qed.

Lemma Q_key_insert k s : Q s (snd (key_insert k s)).
Proof. unfold key_insert. destruct (find_key k (keys s) 1); cbn [snd]; [apply Q_refl|qs]. Qed.

Lemma Q_register cfg t c s : Q s (snd (register cfg t c s)).
Proof.
  unfold register. destruct (g_pool cfg && negb (Nat.eqb t 0)); [|apply Q_refl].
  destruct (share_of s c); cbn [snd]; [|apply Q_refl].
  destruct (is_open s c); [|apply Q_refl]. qt; [apply Q_clone_conn|apply Q_pool_push].
Qed.

Lemma Q_rx_drop ck s : Q s (snd (rx_drop ck s)).
Proof.
  unfold rx_drop. destruct (k_waiter ck); destruct (k_slot ck); cbn [snd]; try apply Q_refl; apply Q_pooled_drop.
Qed.

Lemma Q_checkout_drop cfg rid ck s : Q s (checkout_drop cfg rid ck s).
Proof.
  unfold checkout_drop.
  set (s1 := match k_conn ck with
             | Some c => if is_open s c && (g_pool cfg && negb (Nat.eqb (k_token ck) 0))
                         then pool_push (g_max_idle cfg) (k_token ck) c s else drop_conn c s
             | None => s end).
  assert (Q1 : Q s s1).
  { unfold s1. destruct (k_conn ck) as [c|]; [|apply Q_refl].
    destruct (is_open s c && _); [apply Q_pool_push|apply Q_drop_conn]. }
  set (dl := match k_inner ck with IDelayDrop => _ | _ => false end).
  match goal with |- Q s (let '(_, _) := rx_drop ck ?X in _) => set (s2 := X) end.
  assert (Q2 : Q s1 s2).
  { unfold s2. destruct dl; [apply Q_spawn|]. destruct (_ && k_owner ck); [apply Q_pool_cancel|apply Q_refl]. }
  pose proof (Q_rx_drop ck s2) as Q3. destruct (rx_drop ck s2) as [ck' s3]. cbn [snd] in Q3.
  assert (Q4 : Q s s3) by (qt; [exact Q1|qt; [exact Q2|exact Q3]]).
  destruct (k_inner ck); try exact Q4; try (qt; [exact Q4|apply Q_upd_dial]).
  destruct dl; [exact Q4|qt; [exact Q4|apply Q_upd_dial]].
Qed.

Lemma Q_hold_release r p s : Q s (hold_release r p s).
Proof.
  unfold hold_release. qt; [|apply Q_pooled_drop]. qt; [|apply Q_emit; exact I].
  apply (Q_upd_conn (fst p) (fun cn => c_set_holders (pred (c_holders cn)) cn)). reflexivity.
Qed.

(* ---------------------------------------------------------------- Fr: connections may be created *)
Definition grows (s s' : state) : Prop := exists l, cflags s' = cflags s ++ l.
Definition Fr (s s' : state) : Prop := grows s s' /\ outs nohr s s'.

Lemma grows_refl s : grows s s. Proof. exists []. rewrite app_nil_r. reflexivity. Qed.
Lemma grows_trans s1 s2 s3 : grows s1 s2 -> grows s2 s3 -> grows s1 s3.
Proof. intros [l1 H1] [l2 H2]. exists (l1 ++ l2). rewrite H2, H1, app_assoc. reflexivity. Qed.
Lemma Q_Fr s s' : Q s s' -> Fr s s'.
Proof. intros [A B]. split; [exists []; rewrite app_nil_r; exact A|exact B]. Qed.
Lemma Fr_refl s : Fr s s. Proof. apply Q_Fr, Q_refl. Qed.
Lemma Fr_trans s1 s2 s3 : Fr s1 s2 -> Fr s2 s3 -> Fr s1 s3.
Proof. intros [A1 B1] [A2 B2]. split; [eapply grows_trans; eauto|eapply outs_trans; eauto]. Qed.

Lemma Fr_connector_poll rid by_ s : Fr s (snd (connector_poll rid by_ s)).
Proof.
  unfold connector_poll. destruct (get_dial s rid) as [d|]; [|apply Fr_refl].
  destruct (d_stage d) as [| |[alpn| |]|]; cbn [snd]; try apply Fr_refl.
  - apply Q_Fr. qt; [|apply Q_upd_dial]. apply Q_emit; exact I.
  - apply Q_Fr. apply Q_upd_dial.
  - eapply Fr_trans; [|apply Q_Fr, Q_upd_dial]. split.
    + eexists. unfold cflags. cbn [conns emit set_out set_conns]. rewrite map_app. reflexivity.
    + exists [ENew (List.length (conns s)) (match d_proto d with H2 => true | H1 => alpn end) rid].
      split; [reflexivity|constructor; [exact I|constructor]].
  - apply Q_Fr, Q_upd_dial.
  - apply Q_Fr, Q_upd_dial.
Qed.

Lemma Fr_checkout_poll cfg rid ck s : Fr s (snd (checkout_poll cfg rid ck s)).
Proof.
  unfold checkout_poll. destruct (waiter_poll ck) as [w ck1]. destruct w; cbn [snd]; try apply Fr_refl.
  destruct (k_inner ck1); cbn [snd]; try apply Fr_refl.
  - destruct (k_conn ck1) as [c|]; cbn [snd]; [|apply Fr_refl].
    pose proof (Q_rx_drop (k_set_conn None ck1) s) as Q1. destruct (rx_drop (k_set_conn None ck1) s) as [ck2 s2]. cbn [snd] in Q1.
    pose proof (Q_register cfg (k_token ck2) c (set_req rid (RCheckout ck2) s2)) as Q2.
    destruct (register cfg (k_token ck2) c (set_req rid (RCheckout ck2) s2)) as [p s3]. cbn [snd] in *.
    apply Q_Fr. qt; [exact Q1|]. qt; [apply Q_set_req|exact Q2].
  - pose proof (Fr_connector_poll rid ByReq s) as F1. destruct (connector_poll rid ByReq s) as [r s1]. cbn [snd] in F1.
    destruct r as [|res]; cbn [snd]; [exact F1|].
    pose proof (Q_rx_drop ck1 s1) as Q1. destruct (rx_drop ck1 s1) as [ck2 s2]. cbn [snd] in Q1.
    destruct res as [c|e]; cbn [snd].
    + match goal with |- Fr s (snd (let '(_, _) := register ?a ?b ?c ?d in _)) =>
        pose proof (Q_register a b c d) as Q2; destruct (register a b c d) as [p s3] end. cbn [snd] in *.
      eapply Fr_trans; [exact F1|]. apply Q_Fr. qt; [exact Q1|]. qt; [apply Q_set_req|exact Q2].
    + eapply Fr_trans; [exact F1|]. apply Q_Fr. qt; [exact Q1|apply Q_set_req].
  - pose proof (Fr_connector_poll rid ByReq s) as F1. destruct (connector_poll rid ByReq s) as [r s1]. cbn [snd] in F1.
    destruct r as [|res]; cbn [snd]; [exact F1|].
    pose proof (Q_rx_drop ck1 s1) as Q1. destruct (rx_drop ck1 s1) as [ck2 s2]. cbn [snd] in Q1.
    destruct res as [c|e]; cbn [snd].
    + match goal with |- Fr s (snd (let '(_, _) := register ?a ?b ?c ?d in _)) =>
        pose proof (Q_register a b c d) as Q2; destruct (register a b c d) as [p s3] end. cbn [snd] in *.
      eapply Fr_trans; [exact F1|]. apply Q_Fr. qt; [exact Q1|]. qt; [apply Q_set_req|exact Q2].
    + eapply Fr_trans; [exact F1|]. apply Q_Fr. qt; [exact Q1|apply Q_set_req].
  - pose proof (Fr_connector_poll rid ByReq s) as F1. destruct (connector_poll rid ByReq s) as [r s1]. cbn [snd] in F1.
    destruct r as [|res]; cbn [snd]; [exact F1|].
    pose proof (Q_rx_drop ck1 s1) as Q1. destruct (rx_drop ck1 s1) as [ck2 s2]. cbn [snd] in Q1.
    destruct res as [c|e]; cbn [snd].
    + match goal with |- Fr s (snd (let '(_, _) := register ?a ?b ?c ?d in _)) =>
        pose proof (Q_register a b c d) as Q2; destruct (register a b c d) as [p s3] end. cbn [snd] in *.
      eapply Fr_trans; [exact F1|]. apply Q_Fr. qt; [exact Q1|]. qt; [apply Q_set_req|exact Q2].
    + eapply Fr_trans; [exact F1|]. apply Q_Fr. qt; [exact Q1|apply Q_set_req].
Qed.

(* ---------------------------------------------------------------- operations that leave the flags alone *)
Lemma Q_add_req q d s : Q s (set_dials (dials s ++ [d]) (set_reqs (reqs s ++ [q]) s)).
Proof. qs. Qed.

Lemma Q_do_issue cfg u p s : Q s (do_issue cfg u p s).
Proof.
  unfold do_issue. set (s0 := set_woken (woken s ++ [false]) s).
  assert (Q0 : Q s s0) by apply Q_set_woken.
  destruct (nth u (g_uris cfg) None) as [k|]; [|qt; [exact Q0|apply Q_add_req]].
  destruct (negb (g_pool cfg)); [qt; [exact Q0|apply Q_add_req]|].
  pose proof (Q_key_insert k s0) as Q1. destruct (key_insert k s0) as [t s1]. cbn [snd] in Q1.
  pose proof (Q_pool_pop (g_timeout cfg) t s1) as Q2. destruct (pool_pop (g_timeout cfg) t s1) as [found s2]. cbn [snd] in Q2.
  assert (Q3 : Q s s2) by (qt; [exact Q0|qt; [exact Q1|exact Q2]]).
  destruct found as [c|]; [qt; [exact Q3|apply Q_add_req]|].
  assert (Q4 : forall f, Q s (upd_tok t f s2)) by (intros f; qt; [exact Q3|apply Q_upd_tok]).
  destruct (match p_marker (get_tok s2 t) with Some _ => true | None => false end); [qt; [apply Q4|apply Q_add_req]|].
  destruct p; (qt; [|apply Q_add_req]); [apply Q4|qt; [apply Q4|apply Q_upd_tok]].
Qed.

Lemma Q_do_cancel cfg r s : Q s (do_cancel cfg r s).
Proof.
  unfold do_cancel. destruct (get_req s r) as [[|ck|p f pl| |]|]; try apply Q_unwake_req; try apply Q_refl.
  - qt; [apply Q_set_req|apply Q_unwake_req].
  - qt; [apply Q_set_req|]. qt; [apply Q_checkout_drop|apply Q_unwake_req].
  - qt; [apply Q_set_req|]. qt; [apply Q_hold_release|apply Q_unwake_req].
Qed.

Lemma Q_do_finish r s : Q s (do_finish r s).
Proof.
  unfold do_finish. destruct (get_req s r) as [[|ck|p f pl| |]|]; try apply Q_refl.
  destruct pl; [qt; [apply Q_set_req|apply Q_wake_req]|apply Q_set_req].
Qed.

Lemma Q_do_dial_done r x s : Q s (do_dial_done r x s).
Proof.
  unfold do_dial_done. destruct (get_dial s r) as [d|]; [|apply Q_refl].
  destruct (d_stage d); try apply Q_refl. qt; [apply Q_upd_dial|apply Q_wake_poller].
Qed.

(* ---------------------------------------------------------------- B: hand-back events allowed *)
Definition B (s s' : state) : Prop :=
  grows s s' /\ exists es, out s' = es ++ out s /\ Forall noh es /\ Forall (evok (cflags s')) es.

Lemma Fr_B s s' : Fr s s' -> B s s'.
Proof.
  intros [A (es & E & F)]. split; [exact A|]. exists es. split; [exact E|]. split.
  - eapply Forall_impl; [|exact F]. apply nohr_noh.
  - eapply Forall_impl; [|exact F]. intros e. apply nohr_evok.
Qed.
Lemma B_refl s : B s s. Proof. apply Fr_B, Fr_refl. Qed.
Lemma B_trans s1 s2 s3 : B s1 s2 -> B s2 s3 -> B s1 s3.
Proof.
  intros [A1 (e1 & E1 & N1 & K1)] [A2 (e2 & E2 & N2 & K2)]. split; [eapply grows_trans; eauto|].
  exists (e2 ++ e1). split; [rewrite E2, E1, app_assoc; reflexivity|]. split; [apply Forall_app; auto|].
  apply Forall_app. split; [exact K2|]. destruct A2 as [l Hl]. rewrite Hl.
  rewrite Forall_forall in *. intros e He. apply evok_app; auto.
Qed.

Lemma B_run_task cfg tid s : B s (run_task cfg tid s).
Proof.
  unfold run_task. destruct (nth tid (tasks s) None) as [[c t|rid t own]|]; [| |apply B_refl].
  - destruct (get_conn s c) as [cn|] eqn:Ec; [|apply Fr_B, Q_Fr, Q_finish_task].
    assert (Hfin : forall s1, Q s1 (if is_open (finish_task tid s1) c && negb (Nat.eqb t 0) && g_pool cfg
                then pool_push (g_max_idle cfg) t c (finish_task tid s1) else drop_conn c (finish_task tid s1))).
    { intros s1. qt; [apply Q_finish_task|]. destruct (_ && g_pool cfg); [apply Q_pool_push|apply Q_drop_conn]. }
    destruct (negb (c_open cn)) eqn:Eo.
    + apply Fr_B, Q_Fr. qt; [apply (Q_emit (ERdy c false)); exact I|apply Hfin].
    + destruct (c_share cn || c_ready cn) eqn:Er.
      * match goal with |- B s ?X => assert (Hq : Q (emit (ERdy c true) s) X) by apply Hfin; set (sF := X) in * end.
        destruct Hq as [Hf (es & Ho & Hn)].
        split; [exists []; rewrite app_nil_r; exact Hf|].
        exists (es ++ [ERdy c true]). split; [rewrite Ho, <- app_assoc; reflexivity|]. split.
        -- apply Forall_app. split; [eapply Forall_impl; [|exact Hn]; apply nohr_noh|constructor; [exact I|constructor]].
        -- apply Forall_app. split; [eapply Forall_impl; [|exact Hn]; intros e; apply nohr_evok|].
           constructor; [|constructor]. cbn [evok]. rewrite Hf.
           change (cflags (emit (ERdy c true) s)) with (cflags s). rewrite nth_cflags, Ec. cbn.
           intros Hs. rewrite Hs in Er. cbn in Er. apply negb_false_iff in Eo. auto.
      * apply Fr_B, Q_Fr. apply (Q_upd_conn c (fun cn0 => c_set_waiters (c_waiters cn0 ++ [tid]) cn0)). reflexivity.
  - apply Fr_B.
    pose proof (Fr_connector_poll rid (ByTask tid) s) as F1. destruct (connector_poll rid (ByTask tid) s) as [r s1]. cbn [snd] in F1.
    destruct r as [|[c|e]]; [exact F1| |].
    + pose proof (Q_register cfg t c s1) as Q2. destruct (register cfg t c s1) as [p s2]. cbn [snd] in Q2.
      eapply Fr_trans; [exact F1|]. apply Q_Fr. qt; [exact Q2|].
      qt; [|apply Q_pooled_drop]. qt; [|apply Q_finish_task].
      destruct (_ && own); [apply Q_pool_cancel|apply Q_refl].
    + eapply Fr_trans; [exact F1|]. apply Q_Fr. qt; [|apply Q_finish_task].
      destruct (_ && own); [apply Q_pool_cancel|apply Q_refl].
Qed.

Lemma B_bg_loop cfg fuel : forall s, B s (bg_loop cfg fuel s).
Proof.
  induction fuel as [|f IH]; intros s; cbn [bg_loop]; [apply B_refl|].
  destruct (runq s) as [|tid rest]; [apply B_refl|].
  eapply B_trans; [|apply IH]. eapply B_trans; [apply Fr_B, Q_Fr, (Q_set_runq rest s)|apply B_run_task].
Qed.

(* ---------------------------------------------------------------- Wk: open / ready only ever drop *)
Definition Wk (x : option nat) (fl fl' : list (bool * bool * bool)) : Prop :=
  forall c sh op rd, nth_error fl c = Some (sh, op, rd) ->
    exists op' rd', nth_error fl' c = Some (sh, op', rd') /\ (op' = true -> op = true)
                    /\ (rd' = true -> rd = true \/ x = Some c).

Lemma Wk_refl x fl : Wk x fl fl.
Proof. intros c sh op rd H. exists op, rd. auto. Qed.
Lemma Wk_app x fl l : Wk x fl (fl ++ l).
Proof. intros c sh op rd H. exists op, rd. split; [apply nth_error_app_some; exact H|auto]. Qed.
Lemma Wk_trans x fl1 fl2 fl3 : Wk None fl1 fl2 -> Wk x fl2 fl3 -> Wk x fl1 fl3.
Proof.
  intros H1 H2 c sh op rd H. destruct (H1 c sh op rd H) as (op1 & rd1 & E1 & O1 & R1).
  destruct (H2 c sh op1 rd1 E1) as (op2 & rd2 & E2 & O2 & R2). exists op2, rd2. split; [exact E2|]. split; [auto|].
  intros Hr. destruct (R2 Hr) as [Hr1|Hx]; [|auto]. destruct (R1 Hr1) as [?|?]; [auto|discriminate].
Qed.
Lemma Wk_trans' x fl1 fl2 fl3 : Wk x fl1 fl2 -> Wk None fl2 fl3 -> Wk x fl1 fl3.
Proof.
  intros H1 H2 c sh op rd H. destruct (H1 c sh op rd H) as (op1 & rd1 & E1 & O1 & R1).
  destruct (H2 c sh op1 rd1 E1) as (op2 & rd2 & E2 & O2 & R2). exists op2, rd2. split; [exact E2|]. split; [auto|].
  intros Hr. destruct (R2 Hr) as [Hr1|Hx]; [auto|discriminate].
Qed.
Lemma Wk_eq x fl fl' : fl' = fl -> Wk x fl fl'. Proof. intros ->. apply Wk_refl. Qed.
Lemma Wk_grows x s s' : grows s s' -> Wk x (cflags s) (cflags s').
Proof. intros [l ->]. apply Wk_app. Qed.

Lemma nth_map_upd {A B} (h : A -> B) (g : A -> A) l c c0 :
  nth_error (map h (upd_nth c g l)) c0
  = if Nat.eqb c c0 then option_map (fun a => h (g a)) (nth_error l c0) else nth_error (map h l) c0.
Proof.
  rewrite !nth_error_map. destruct (Nat.eqb c c0) eqn:E.
  - apply Nat.eqb_eq in E. subst c0. destruct (nth_error l c) as [a|] eqn:Ea.
    + rewrite (FramesC02.nth_error_upd_nth_eq g l c a Ea). reflexivity.
    + rewrite (FramesC02.upd_nth_none g l c Ea), Ea. reflexivity.
  - apply Nat.eqb_neq in E. rewrite FramesC02.nth_error_upd_nth_neq by exact E. reflexivity.
Qed.

Lemma Wk_upd x c g s :
  (forall cn, c_share (g cn) = c_share cn /\ (c_open (g cn) = true -> c_open cn = true)
              /\ (c_ready (g cn) = true -> c_ready cn = true \/ x = Some c)) ->
  Wk x (cflags s) (cflags (upd_conn c g s)).
Proof.
  intros Hg c0 sh op rd H. unfold cflags, upd_conn in *. cbn [conns set_conns]. rewrite nth_map_upd.
  destruct (Nat.eqb c c0) eqn:E; [|exists op, rd; auto].
  apply Nat.eqb_eq in E. subst c0. rewrite nth_error_map in H. destruct (nth_error (conns s) c) as [cn|]; [|discriminate].
  cbn in H. inversion H; subst. destruct (Hg cn) as (G1 & G2 & G3). cbn [option_map]. unfold cfl. rewrite G1.
  exists (c_open (g cn)), (c_ready (g cn)). auto.
Qed.

(* ---------------------------------------------------------------- one operation *)
Definition P (x : option nat) (s s' : state) : Prop :=
  Wk x (cflags s) (cflags s') /\ exists es, out s' = es ++ out s /\ Forall (evok (cflags s')) es.

Lemma B_P x s s' : B s s' -> P x s s'.
Proof. intros [A (es & E & _ & K)]. split; [apply Wk_grows; exact A|eauto]. Qed.
Lemma Q_P x s s' : Q s s' -> P x s s'.
Proof. intros H. apply B_P, Fr_B, Q_Fr, H. Qed.

Lemma P_hand s s1 sT r c a b d h g :
  Fr s s1 -> Q (upd_conn c g (emit (EHand r c a b d h) s1)) sT ->
  (forall cn, c_share (g cn) = c_share cn /\ c_open (g cn) = c_open cn /\ (c_ready (g cn) = true -> c_ready cn = true)) ->
  (forall cn, get_conn s1 c = Some cn -> c_share cn = false -> c_ready (g cn) = false) ->
  P None s sT.
Proof.
  intros [G1 (es1 & E1 & N1)] [Hf (es2 & E2 & N2)] Hg Hr.
  set (s3 := upd_conn c g (emit (EHand r c a b d h) s1)) in *.
  assert (W3 : Wk None (cflags s1) (cflags s3)).
  { apply (Wk_upd None c g (emit (EHand r c a b d h) s1)). intros cn. destruct (Hg cn) as (A1 & A2 & A3).
    split; [exact A1|]. split; [rewrite A2; auto|auto]. }
  split.
  - rewrite Hf. eapply Wk_trans; [apply Wk_grows; exact G1|exact W3].
  - exists (es2 ++ EHand r c a b d h :: es1). split.
    + rewrite E2. unfold s3. cbn [out upd_conn set_conns emit set_out]. rewrite E1, <- app_assoc. reflexivity.
    + apply Forall_app. split; [eapply Forall_impl; [|exact N2]; intros e; apply nohr_evok|].
      constructor; [|eapply Forall_impl; [|exact N1]; intros e; apply nohr_evok].
      cbn [evok]. rewrite Hf. unfold s3, cflags, upd_conn. cbn [conns set_conns emit set_out]. rewrite nth_map_upd, Nat.eqb_refl.
      destruct (nth_error (conns s1) c) as [cn|] eqn:Ec; cbn [option_map]; [|exact I].
      unfold cfl. destruct (Hg cn) as (A1 & _). rewrite A1. intros Hs. apply (Hr cn Ec Hs).
Qed.

Lemma P_do_poll cfg r s : P None s (do_poll cfg r s).
Proof.
  unfold do_poll. destruct (get_req s r) as [[|ck|p fin pl| |]|]; try apply Q_P, Q_refl.
  - apply Q_P. qt; [apply Q_unwake_req|]. qt; [|apply Q_set_req]. apply Q_emit; exact I.
  - pose proof (Fr_checkout_poll cfg r ck (unwake_req r s)) as F1.
    destruct (checkout_poll cfg r ck (unwake_req r s)) as [[res ck1] s1]. cbn [snd] in F1.
    assert (F0 : Fr s s1) by (eapply Fr_trans; [apply Q_Fr, Q_unwake_req|exact F1]).
    destruct res as [|[p|e]].
    + apply B_P, Fr_B. eapply Fr_trans; [exact F0|]. apply Q_Fr. qt; [apply Q_set_req|apply Q_emit; exact I].
    + destruct (get_conn s1 (fst p)) as [cn|] eqn:Ec.
      * eapply (P_hand s s1 _ r (fst p) _ _ _ _ _ F0).
        -- qt; [apply Q_set_req|]. qt; [apply Q_checkout_drop|apply Q_emit; exact I].
        -- intros cn0. destruct (c_share cn); cbn; auto. repeat split; auto. discriminate.
        -- intros cn0 E0 Hs. rewrite Ec in E0. inversion E0; subst cn0. rewrite Hs. reflexivity.
      * eapply (P_hand s s1 _ r (fst p) _ _ _ _ _ F0).
        -- qt; [apply Q_set_req|]. qt; [apply Q_checkout_drop|apply Q_emit; exact I].
        -- intros cn0. cbn. repeat split; auto. discriminate.
        -- intros cn0 E0 Hs. reflexivity.
    + apply B_P, Fr_B. eapply Fr_trans; [exact F0|]. apply Q_Fr.
      qt; [apply Q_set_req|]. qt; [apply Q_checkout_drop|apply Q_emit; exact I].
  - apply Q_P. qt; [apply Q_unwake_req|]. destruct fin.
    + qt; [apply Q_set_req|]. qt; [apply Q_hold_release|apply Q_emit; exact I].
    + qt; [apply Q_set_req|apply Q_emit; exact I].
Qed.

Definition rdy_of (o : op) : option nat := match o with ConnReady c => Some c | _ => None end.
Definition closes (s : state) (o : op) (fl' : list (bool * bool * bool)) : Prop :=
  match o with
  | ConnClose c => popen fl' c = false
  | Upgrade r => forall p f pl, get_req s r = Some (RHolding p f pl) -> popen fl' (fst p) = false
  | _ => True
  end.

Lemma P_close x c s :
  P x s (drain_conn_waiters c (upd_conn c (c_set_open false) s))
  /\ popen (cflags (drain_conn_waiters c (upd_conn c (c_set_open false) s))) c = false.
Proof.
  destruct (Q_drain_conn_waiters c (upd_conn c (c_set_open false) s)) as [Hf Ho]. split.
  - split; [rewrite Hf; apply Wk_upd; intros cn; cbn; repeat split; auto; discriminate|].
    destruct Ho as (es & E & F). exists es. split; [exact E|]. eapply Forall_impl; [|exact F]. intros e; apply nohr_evok.
  - rewrite Hf. unfold popen, cflags, upd_conn. cbn [conns set_conns]. rewrite nth_map_upd, Nat.eqb_refl.
    destruct (nth_error (conns s) c); reflexivity.
Qed.

Lemma popen_none s c : get_conn s c = None -> popen (cflags s) c = false.
Proof. intros H. unfold popen. rewrite nth_cflags, H. reflexivity. Qed.

Theorem step_sum cfg s o :
  Wk (rdy_of o) (cflags s) (cflags (step cfg s o)) /\ closes s o (cflags (step cfg s o))
  /\ Forall (evok (cflags (step cfg s o))) (out (step cfg s o)).
Proof.
  assert (Hfin : forall s', P (rdy_of o) (set_out [] s) s' ->
            Wk (rdy_of o) (cflags s) (cflags s') /\ Forall (evok (cflags s')) (out s')).
  { intros s' [W (es & E & F)]. split; [exact W|]. rewrite E. cbn [out set_out]. rewrite app_nil_r. exact F. }
  assert (Hq : forall s', Q (set_out [] s) s' -> closes s o (cflags s') ->
            Wk (rdy_of o) (cflags s) (cflags s') /\ closes s o (cflags s') /\ Forall (evok (cflags s')) (out s')).
  { intros s' H Hc. destruct (Hfin s' (Q_P _ _ _ H)). auto. }
  unfold step. set (s0 := set_out [] s) in *.
  destruct o as [u p|r|r|r|r|r x|c|c| |dt]; cbn [rdy_of closes] in *.
  - apply Hq; [apply Q_do_issue|exact I].
  - destruct (Hfin _ (P_do_poll cfg r s0)). auto.
  - apply Hq; [apply Q_do_cancel|exact I].
  - apply Hq; [apply Q_do_finish|exact I].
  - unfold do_upgrade. change (get_req s0 r) with (get_req s r).
    destruct (get_req s r) as [[|ck|p f pl| |]|] eqn:Er;
      try (apply Hq; [apply Q_refl|intros; discriminate]).
    destruct (P_close None (fst p) s0) as [HP Hc]. destruct (Hfin _ HP) as [A C].
    split; [exact A|]. split; [|exact C]. intros p' f' pl' E. inversion E; subst. exact Hc.
  - apply Hq; [apply Q_do_dial_done|exact I].
  - unfold do_conn_ready. destruct (get_conn s0 c) as [cn|]; [|apply Hq; [apply Q_refl|exact I]].
    destruct (Q_drain_conn_waiters c (upd_conn c (c_set_ready true) s0)) as [Hf Ho].
    assert (HP : P (Some c) s0 (drain_conn_waiters c (upd_conn c (c_set_ready true) s0))).
    { split; [rewrite Hf; apply Wk_upd; intros cn0; cbn; auto|].
      destruct Ho as (es & E & F). exists es. split; [exact E|]. eapply Forall_impl; [|exact F]. intros e; apply nohr_evok. }
    destruct (Hfin _ HP). auto.
  - unfold do_conn_close. destruct (get_conn s0 c) as [cn|] eqn:Ec.
    + destruct (P_close None c s0) as [HP Hc]. destruct (Hfin _ HP). auto.
    + apply Hq; [apply Q_refl|]. apply popen_none. exact Ec.
  - unfold do_bg. destruct (Hfin _ (B_P None _ _ (B_bg_loop cfg (2 * List.length (runq s0) + 1) s0))). auto.
  - apply Hq; [apply Q_set_now|exact I].
Qed.


(* ================================================================ the tracker of pool/Spec.v *)
(* the two fields of the tracker's connection records that the C02 check reads *)
Definition cvw (ci : cinfo) : bool * bool := (ci_share ci, ci_rel_ready ci).
Definition cview (m : mst) : list (bool * bool) := map cvw (m_conns m).

Lemma cview_ci_upd f c m : (forall x, cvw (f x) = cvw x) -> cview (ci_upd f c m) = cview m.
Proof. intros Hf. unfold cview, ci_upd. cbn [m_conns set_m_conns]. apply map_upd_nth. intros x _. apply Hf. Qed.

Lemma cview_track_op cfg m o ob : cview (track_op cfg m o ob) = cview m.
Proof.
  destruct o; cbn [track_op]; try reflexivity.
  - destruct (nth_error (m_reqs m) r) as [x|]; [|reflexivity].
    assert (Hb : forall c, cview (match nth_error (m_conns m) c with
                                  | Some y => if ci_share y then m else ci_upd (set_ci_back (m_i m)) c m
                                  | None => m end) = cview m).
    { intros c. destruct (nth_error (m_conns m) c) as [y|]; [|reflexivity].
      destruct (ci_share y); [reflexivity|]. apply cview_ci_upd. reflexivity. }
    destruct (ri_stat x); try reflexivity;
      match goal with |- cview (ri_upd _ _ ?M) = _ => change (cview M = cview m) end;
      try reflexivity; destruct (ri_popx x); try reflexivity; apply Hb.
  - destruct (holder_conn m r); [|reflexivity]. apply cview_ci_upd. reflexivity.
  - apply cview_ci_upd. reflexivity.
Qed.

Definition set_rr (v : bool) (x : bool * bool) : bool * bool := (fst x, v).

Lemma cview_ci_upd_rr f c m v : (forall x, cvw (f x) = set_rr v (cvw x)) ->
  cview (ci_upd f c m) = upd_nth c (set_rr v) (cview m).
Proof.
  intros Hf. unfold cview, ci_upd. cbn [m_conns set_m_conns]. generalize (m_conns m). intros l. revert c.
  induction l as [|x l IH]; intros [|c]; cbn [upd_nth map]; try reflexivity; [rewrite Hf; reflexivity|rewrite IH; reflexivity].
Qed.

Lemma cview_track_ev m e :
  cview (track_ev m e) =
  match e with
  | ENew _ sh _ => cview m ++ [(sh, true)]
  | EHand _ c _ _ _ _ => upd_nth c (set_rr false) (cview m)
  | ERdy c true => upd_nth c (set_rr true) (cview m)
  | _ => cview m
  end.
Proof.
  destruct e as [r k|c sh r|r c a b d h|r|r x|r c|c|c [|]]; cbn [track_ev]; try reflexivity.
  - unfold cview. cbn [m_conns set_m_conns ri_upd set_m_reqs]. rewrite map_app. reflexivity.
  - rewrite (cview_ci_upd_rr _ c _ false) by reflexivity. reflexivity.
  - destruct x as [|[| | |]]; reflexivity.
  - apply cview_ci_upd. reflexivity.
  - apply cview_ci_upd. reflexivity.
  - apply (cview_ci_upd_rr _ c _ true). reflexivity.
Qed.

Lemma cview_offers ob : forall l m, cview (fold_left (track_offer ob) l m) = cview m.
Proof.
  induction l as [|e l IH]; intros m; cbn [fold_left]; [reflexivity|]. rewrite IH.
  destruct e as [| | | | | | |c [|]]; try reflexivity. cbn [track_offer].
  destruct (nth_error (m_conns m) c); [|reflexivity]. apply cview_ci_upd. reflexivity.
Qed.
Lemma cview_idle_stamp prev sn : forall m, cview (track_idle_stamp prev m sn) = cview m.
Proof.
  unfold track_idle_stamp. generalize (sn_idle sn). induction l as [|c l IH]; intros m; cbn [fold_left]; [reflexivity|].
  rewrite IH. destruct (mem c _); [reflexivity|]. apply cview_ci_upd. reflexivity.
Qed.
Lemma cview_idle_stamps prev : forall l m, cview (fold_left (track_idle_stamp prev) l m) = cview m.
Proof. induction l as [|sn l IH]; intros m; cbn [fold_left]; [reflexivity|]. rewrite IH. apply cview_idle_stamp. Qed.

Lemma cview_track cfg m o ob :
  cview (track cfg m o ob) = cview (fold_left track_ev (o_events ob) (track_op cfg m o ob)).
Proof.
  unfold track.
  match goal with |- cview (set_m_prev _ (set_m_i _ ?X)) = _ => change (cview X = cview (fold_left track_ev (o_events ob) (track_op cfg m o ob))) end.
  rewrite cview_idle_stamps, cview_offers. reflexivity.
Qed.

(* ---------------------------------------------------------------- the tracker's tables only grow *)
Definition msh (m : mst) : list bool := map fst (cview m).
Definition ext (m m' : mst) : Prop :=
  (exists l1 l2, mkeys m' = (fst (mkeys m) ++ l1, snd (mkeys m) ++ l2)) /\ (exists l, msh m' = msh m ++ l).

Lemma ext_refl m : ext m m.
Proof. split; [exists [], []; rewrite !app_nil_r; destruct (mkeys m); reflexivity|exists []; rewrite app_nil_r; reflexivity]. Qed.
Lemma ext_trans m1 m2 m3 : ext m1 m2 -> ext m2 m3 -> ext m1 m3.
Proof.
  intros [(a1 & b1 & K1) (l1 & S1)] [(a2 & b2 & K2) (l2 & S2)]. split.
  - exists (a1 ++ a2), (b1 ++ b2). rewrite K2, K1. cbn [fst snd]. rewrite !app_assoc. reflexivity.
  - exists (l1 ++ l2). rewrite S2, S1, app_assoc. reflexivity.
Qed.
Lemma ext_eq m m' : mkeys m' = mkeys m -> cview m' = cview m -> ext m m'.
Proof.
  intros K V. split; [exists [], []; rewrite K, !app_nil_r; destruct (mkeys m); reflexivity|].
  exists []. unfold msh. rewrite V, app_nil_r. reflexivity.
Qed.

Lemma msh_upd c v l : map fst (upd_nth c (set_rr v) l) = map (@fst bool bool) l.
Proof. apply map_upd_nth. reflexivity. Qed.

Lemma ext_track_ev m e : ext m (track_ev m e).
Proof.
  destruct e as [r k|c sh r|r c a b d h|r|r x|r c|c|c okb].
  2:{ split; [exists [], [r]; rewrite mkeys_track_new; cbn [mkeys fst snd]; rewrite app_nil_r; reflexivity|].
      exists [sh]. unfold msh. rewrite cview_track_ev, map_app. reflexivity. }
  all: split; [exists [], []; rewrite mkeys_track_ev by exact I; rewrite !app_nil_r; destruct (mkeys m); reflexivity|].
  all: exists []; unfold msh; rewrite cview_track_ev, app_nil_r; try reflexivity.
  - apply msh_upd.
  - destruct okb; [apply msh_upd|reflexivity].
Qed.

Lemma ext_fold es : forall m, ext m (fold_left track_ev es m).
Proof.
  induction es as [|e es IH]; intros m; cbn [fold_left]; [apply ext_refl|].
  eapply ext_trans; [apply ext_track_ev|apply IH].
Qed.

Lemma ext_track_op cfg m o ob : ext m (track_op cfg m o ob).
Proof.
  destruct o as [u p|r|r|r|r|r x|c|c| |dt];
    try (apply ext_eq; [apply mkeys_track_op; exact I|apply cview_track_op]).
  split; [exists [nth u (g_uris cfg) None], []; rewrite mkeys_track_op_issue; cbn [mkeys fst snd]; rewrite app_nil_r; reflexivity|].
  exists []. unfold msh. rewrite cview_track_op, app_nil_r. reflexivity.
Qed.

Lemma mkeys_track cfg m o ob :
  mkeys (track cfg m o ob) = mkeys (fold_left track_ev (o_events ob) (track_op cfg m o ob)).
Proof.
  unfold track.
  match goal with |- mkeys (set_m_prev _ (set_m_i _ ?X)) = _ => change (mkeys X = mkeys (fold_left track_ev (o_events ob) (track_op cfg m o ob))) end.
  rewrite mkeys_idle_stamps, mkeys_track_offer. reflexivity.
Qed.

Lemma ext_track cfg m o ob : ext m (track cfg m o ob).
Proof.
  eapply ext_trans; [apply (ext_track_op cfg m o ob)|]. eapply ext_trans; [apply (ext_fold (o_events ob))|].
  apply ext_eq; [apply mkeys_track|apply cview_track].
Qed.

Lemma ext_final cfg : forall ops obs m, ext m (final_mst cfg m ops obs).
Proof.
  induction ops as [|o ops IH]; intros obs m; cbn [final_mst]; [apply ext_refl|].
  destruct obs as [|ob obs]; [apply ext_refl|]. eapply ext_trans; [apply ext_track|apply IH].
Qed.

Lemma ext_req_key m m' r k : ext m m' -> req_key m r = Some k -> req_key m' r = Some k.
Proof.
  intros [(l1 & l2 & K) _]. rewrite !req_key_map. unfold mkeys in K. inversion K as [[K1 K2]]. cbn [fst snd] in *.
  rewrite K1. unfold rkl. destruct (nth_error (map ri_key (m_reqs m)) r) as [o|] eqn:E; [|discriminate].
  rewrite (nth_error_app_some _ l1 _ _ E). auto.
Qed.
Lemma ext_conn_key m m' c k : ext m m' -> conn_key m c = Some k -> conn_key m' c = Some k.
Proof.
  intros HX. pose proof HX as [(l1 & l2 & K) _]. rewrite !conn_key_map. unfold mkeys in K. inversion K as [[K1 K2]]. cbn [fst snd] in *.
  unfold okl. rewrite K2. destruct (nth_error (map ci_origin (m_conns m)) c) as [o|] eqn:E; [|discriminate].
  rewrite (nth_error_app_some _ l2 _ _ E). rewrite <- !req_key_map. apply ext_req_key. exact HX.
Qed.
Lemma ext_msh m m' c sh : ext m m' -> nth_error (msh m) c = Some sh -> nth_error (msh m') c = Some sh.
Proof. intros [_ (l & ->)]. apply nth_error_app_some. Qed.
Lemma msh_length m : List.length (msh m) = List.length (m_conns m).
Proof. unfold msh, cview. rewrite !map_length. reflexivity. Qed.
Lemma ext_length m m' : ext m m' -> List.length (m_conns m) <= List.length (m_conns m').
Proof. intros [_ (l & E)]. rewrite <- !msh_length, E, app_length. lia. Qed.
