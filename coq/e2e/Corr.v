(* Correspondence for C01.  A case is the configuration (requests as sent, connections with the
   protocol and server the implementation was observed to use for them) and a schedule built by
   the driver from the implementation's record (which connection carried which request, which
   requests the caller cancelled, which of those the server had already been given).  The model
   runs that schedule -- after checking that it satisfies the pool hypotheses [sched_ok], which
   on this data includes same-origin: the connection a request was seen on belongs to the server
   its URI names -- and its per-request observation (request handled, outcome) is compared with
   the implementation's.  The spec monitor [mon_C01] is run on the implementation's triples. *)
From HD Require Import common.Base http.Model http.Spec e2e.Model e2e.Spec.
Local Open Scope string_scope.

Record case := mkCase { k_cfg : cfg; k_sched : list event }.

Record robs := mkRobs {
  ro_saw : option (wreq * bool);
  ro_out : ioutcome;
  ro_cancelled : bool
}.

Inductive obs :=
| OBad                                               (* unparsable / panic *)
| ORun (rs : list robs) (stray : N) (dups : N).      (* per request in case order; handled requests
                                                        nobody sent; requests handled twice *)

Fixpoint nodup_b (l : list N) : bool :=
  match l with [] => true | x :: t => negb (existsb (N.eqb x) t) && nodup_b t end.

Definition case_wf (k : case) : bool :=
  forallb e2e_req_ok (g_reqs (k_cfg k))
  && nodup_b (map q_id (g_reqs (k_cfg k)))
  && nodup_b (map fst (g_conns (k_cfg k)))
  && sched_ok echo_handler (k_cfg k) (k_sched k).

Definition model_obs (k : case) : obs :=
  if case_wf k then
    let st := run_state echo_handler (k_cfg k) (k_sched k) in
    ORun (map (fun q =>
            let r := q_id q in
            mkRobs (option_map (fun w => (w, true)) (saw_of st r))
                   (match outcome_of st r with ODone p => IOk p | OCancelled => ICancelled | _ => IErr end)
                   (match outcome_of st r with OCancelled => true | _ => false end))
          (g_reqs (k_cfg k))) 0 0
  else OBad.

Definition head_eqb (a b : wreq) : bool :=
  String.eqb (w_method a) (w_method b) && hver_eqb (w_version a) (w_version b)
  && String.eqb (w_path a) (w_path b) && ostr_eqb (w_query a) (w_query b)
  && list_eqb hdr_eqb (w_headers a) (w_headers b).

Definition robs_eqb (m i : robs) : bool :=
  match ro_saw m, ro_saw i with
  | None, None => true
  | Some (w, _), Some (w', true) => wreq_eqb w w'
  | Some (w, _), Some (w', false) => head_eqb w w'     (* upload cut short by the caller's cancel *)
  | _, _ => false
  end
  && match ro_out m, ro_out i with
     | IOk p, IOk p' => resp_eqb p p'
     | ICancelled, ICancelled => true
     | IErr, IErr => true     (* model: the request was never given a connection (no EStart in the schedule);
                                 implementation: the call failed and no server was ever given the request *)
     | _, _ => false
     end
  && Bool.eqb (ro_cancelled m) (ro_cancelled i).

Definition obs_eqb (m i : obs) : bool :=
  match m, i with
  | ORun rs s d, ORun rs' s' d' => list_eqb robs_eqb rs rs' && N.eqb s s' && N.eqb d d'
  | _, _ => false
  end.

Fixpoint triples (qs : list ereq) (rs : list robs) : option (list triple) :=
  match qs, rs with
  | [], [] => Some []
  | q :: qs', r :: rs' =>
      match triples qs' rs' with
      | Some t => Some (mkTriple q (ro_cancelled r) false (ro_saw r) (ro_out r) :: t)
      | None => None
      end
  | _, _ => None
  end.

(* the harness's servers never break a connection: t_broken = false throughout *)
Definition mon (k : case) (o : obs) : bool :=
  match o with
  | OBad => false
  | ORun rs stray _ =>
      match triples (g_reqs (k_cfg k)) rs with
      | Some ts => mon_C01 echo_handler ts && N.eqb stray 0   (* a handled request nobody sent carries nothing a caller sent *)
      | None => false
      end
  end.

Definition check_all (cs : list (case * obs)) : list N * list N :=
  (falses (map (fun co => obs_eqb (model_obs (fst co)) (snd co)) cs),
   falses (map (fun co => mon (fst co) (snd co)) cs)).
