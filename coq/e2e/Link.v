(* LINK  M-POOL -> M-E2E: the hypothesis [sched_ok] of the C01 theorems (e2e/Proofs.v, props/C01.v)
   is DISCHARGED from the proved pool monitors (pool/ProofsC02.v: mon_C02 / invariant [I];
   pool/ProofsC06.v: mon_C06_holds), for every history of the pool model.

   A combined history ([list hstep]) interleaves operations of the pool model (pool/Model.v [op]:
   issue / poll / cancel / finish / upgrade / dial outcome / connection ready / connection closed /
   background run / tick) with wire-level steps of the end-to-end model ([WHandle c s]: the server
   handles a request on connection c, [WDeliver c s]: a response is delivered on c).

   Static data tying the two worlds together:
     pc      : the pool configuration; its URI table [g_uris pc] names the origins.  Origin of a key
               (scheme, authority) = index of the first table entry that is [key_eqb]-equal to it
               ([kidx]; injective on the table's keys modulo [key_eqb]: [kidx_inj])
     ua      : the client's default User-Agent
     payload : pool request id -> (HTTP request record, body) the caller sends
   From these and the OBSERVED events of the pool run the e2e configuration [link_cfg] is built:
     pool request r  = e2e request [N.of_nat r], origin = origin of the key of its [Issue u _]
     pool connection c = e2e connection [N.of_nat c]; protocol PH2 iff its [ENew c share r0] had
               share = true, else PH1; origin = origin of the key of the request r0 whose dial
               created it
   (both are read off the tracker of pool/Spec.v, which consumes only ops and events).

   The induced e2e schedule [sched_of]:  [EHand r c ..] |-> [EStart r c];  for a non-shared c
   [ERdy c true] (hand-back task saw it ready) |-> [ERelease c];  [Cancel r] of a live request |->
   [ECancel r];  [ConnClose c] of an existing connection and [Upgrade r] of a holder of c |->
   [EBreak c];  wire steps are passed through in place.

   ORACLE (environment) condition [o1_ok], decidable, the ONLY hypothesis of the theorem:
     O1  the environment op [ConnReady c] for a non-shared connection c occurs only when, in the
         e2e state reached so far, c's exchange queue is empty  ("a non-multiplexed connection
         reports ready only after its exchange is over": hyper's behaviour, proved by neither model).
   No condition on [Finish], [DialDone], [ConnClose], [Upgrade], [Tick], [Bg] or the wire steps is
   needed.

   THEOREM [pool_discharges_sched_ok]: o1_ok h = true -> sched_ok (link_cfg h) (sched_of h) = true.
   COROLLARY [c01_matched_for_pool_histories].  Pool-model facts used: e2e/LinkFrames.v [step_sum]. *)
From HD Require Import common.Base pool.Model pool.Spec pool.FramesC02 pool.ProofsC02 pool.FramesC06 pool.ProofsC06 e2e.LinkFrames.
From HD Require http.Model e2e.Model e2e.Proofs.
From Coq Require Import String.
Local Open Scope list_scope.
Module H := HD.http.Model.
Module E := HD.e2e.Model.
Module EP := HD.e2e.Proofs.

(* ---------------------------------------------------------------- combined histories *)
Inductive wire := WHandle (c : E.cid) (s : E.sid) | WDeliver (c : E.cid) (s : E.sid).
Inductive hstep := HOp (o : op) | HWire (w : wire).

Definition wire_ev (w : wire) : E.event :=
  match w with WHandle c s => E.EHandle c s | WDeliver c s => E.EDeliver c s end.

Fixpoint pool_ops (h : list hstep) : list op :=
  match h with [] => [] | HOp o :: t => o :: pool_ops t | HWire _ :: t => pool_ops t end.

(* ---------------------------------------------------------------- origins *)
Fixpoint kidx (tab : list (option key)) (k : key) : nat :=
  match tab with
  | [] => 0
  | Some k' :: t => if key_eqb k k' then 0 else S (kidx t k)
  | None :: t => S (kidx t k)
  end.
Definition oidx (tab : list (option key)) (k : option key) : N :=
  match k with Some k' => N.of_nat (kidx tab k') | None => N.of_nat (List.length tab) end.

Lemma kidx_eqv tab k1 k2 : key_eqb k1 k2 = true -> kidx tab k1 = kidx tab k2.
Proof.
  intros H. induction tab as [|[k|] t IH]; cbn [kidx]; auto. rewrite (key_eqb_congr k1 k2 k H), IH. reflexivity.
Qed.
Lemma oidx_same tab a b : same_key a b = true -> oidx tab a = oidx tab b.
Proof. destruct a as [ka|], b as [kb|]; cbn [same_key oidx]; try discriminate. intros H. rewrite (kidx_eqv tab ka kb H). reflexivity. Qed.

(* different origins of the table get different indices *)
Lemma kidx_inj tab k1 k2 : In (Some k1) tab -> In (Some k2) tab -> kidx tab k1 = kidx tab k2 -> key_eqb k1 k2 = true.
Proof.
  induction tab as [|[k|] t IH]; cbn [kidx In]; intros H1 H2 E; [contradiction| |].
  - destruct (key_eqb k1 k) eqn:E1, (key_eqb k2 k) eqn:E2; try discriminate.
    + eapply key_eqb_trans; [exact E1|]. rewrite key_eqb_sym. exact E2.
    + destruct H1 as [H1|H1]; [inversion H1; subst; rewrite key_eqb_refl in E1; discriminate|].
      destruct H2 as [H2|H2]; [inversion H2; subst; rewrite key_eqb_refl in E2; discriminate|].
      apply IH; auto.
  - destruct H1 as [H1|H1]; [discriminate|]. destruct H2 as [H2|H2]; [discriminate|]. apply IH; auto.
Qed.

Fixpoint mapi {A B} (f : nat -> A -> B) (i : nat) (l : list A) : list B :=
  match l with [] => [] | x :: t => f i x :: mapi f (S i) t end.

Lemma find_mapi {A B} (f : nat -> A -> B) (kf : B -> N) :
  (forall j a, kf (f j a) = N.of_nat j) ->
  forall l i n, i <= n ->
    find (fun x => N.eqb (kf x) (N.of_nat n)) (mapi f i l) = option_map (f n) (nth_error l (n - i)).
Proof.
  intros Hk. induction l as [|a l IH]; intros i n Hle; cbn [mapi find].
  - destruct (n - i); reflexivity.
  - rewrite Hk. destruct (N.eqb (N.of_nat i) (N.of_nat n)) eqn:E.
    + apply N.eqb_eq in E. apply Nat2N.inj in E. subst. rewrite Nat.sub_diag. reflexivity.
    + assert (i <> n) by (intros ->; rewrite N.eqb_refl in E; discriminate).
      rewrite IH by lia. replace (n - i) with (S (n - S i)) by lia. reflexivity.
Qed.

(* ---------------------------------------------------------------- the e2e configuration of a pool run *)
Section Static.
Variable pc : config.
Variable ua : string.
Variable payload : nat -> H.req * E.body.

Definition link_cfg_of (m : mst) : E.cfg :=
  E.mkCfg ua
    (mapi (fun r ri => E.mkEreq (N.of_nat r) (oidx (g_uris pc) (ri_key ri)) (fst (payload r)) (snd (payload r))) 0 (m_reqs m))
    (mapi (fun c ci => (N.of_nat c, (if ci_share ci then H.PH2 else H.PH1, oidx (g_uris pc) (conn_key m c)))) 0 (m_conns m)).

Definition link_cfg (h : list hstep) : E.cfg :=
  link_cfg_of (final_mst pc m0 (pool_ops h) (trace pc (pool_ops h))).

(* ---------------------------------------------------------------- the induced schedule *)
Definition tr_op (s : state) (o : op) : list E.event :=
  match o with
  | Cancel r => match get_req s r with
                | Some RError | Some (RCheckout _) | Some (RHolding _ _ _) => [E.ECancel (N.of_nat r)]
                | _ => []
                end
  | ConnClose c => match get_conn s c with Some _ => [E.EBreak (N.of_nat c)] | None => [] end
  | Upgrade r => match get_req s r with
                 | Some (RHolding p _ _) => match get_conn s (fst p) with Some _ => [E.EBreak (N.of_nat (fst p))] | None => [] end
                 | _ => []
                 end
  | _ => []
  end.

(* [s']: the pool state after the operation that emitted the event *)
Definition tr_ev (s' : state) (e : ev) : list E.event :=
  match e with
  | EHand r c _ _ _ _ => [E.EStart (N.of_nat r) (N.of_nat c)]
  | ERdy c true => if share_of s' c then [] else [E.ERelease (N.of_nat c)]
  | _ => []
  end.

Definition evs_of_op (s : state) (o : op) : list E.event :=
  let s' := step pc s o in tr_op s o ++ flat_map (tr_ev s') (o_events (observe s')).

Fixpoint sched_from (s : state) (h : list hstep) : list E.event :=
  match h with
  | [] => []
  | HOp o :: t => evs_of_op s o ++ sched_from (step pc s o) t
  | HWire w :: t => wire_ev w :: sched_from s t
  end.
Definition sched_of (h : list hstep) : list E.event := sched_from init h.

(* ---------------------------------------------------------------- the oracle condition O1 *)
Variable handler : N -> E.wreq -> E.resp.

Definition o1_step (st : E.state) (s : state) (o : op) : bool :=
  match o with
  | ConnReady c => share_of s c || E.is_nil (E.c_q (E.st_conn st (N.of_nat c)))
  | _ => true
  end.

Fixpoint o1_from (g : E.cfg) (s : state) (st : E.state) (h : list hstep) : bool :=
  match h with
  | [] => true
  | HOp o :: t => o1_step st s o && o1_from g (step pc s o) (E.run_from handler g st (evs_of_op s o)) t
  | HWire w :: t => o1_from g s (E.step handler g st (wire_ev w)) t
  end.

Definition o1_ok (h : list hstep) : bool := o1_from (link_cfg h) init (E.init (link_cfg h)) h.

End Static.

(* ================================================================ effect of e2e steps on one connection *)
Section Effects.
Variable handler : N -> E.wreq -> E.resp.
Variable g : E.cfg.
Notation estep := (E.step handler g).

Lemma upd_eq {A} (f : N -> A) k v x : E.upd f k v x = if N.eqb x k then v else f x.
Proof. reflexivity. Qed.

Lemma e_start_other st r c c0 : c0 <> c -> E.st_conn (estep st (E.EStart r c)) c0 = E.st_conn st c0.
Proof.
  intros Hn. cbn [E.step]. destruct (E.st_stat st r); try reflexivity. destruct (E.req_of g r); [|reflexivity].
  destruct (E.c_dead (E.st_conn st c)); [reflexivity|]. destruct (E.wire_request _ _ _); cbn [E.st_conn]; [|reflexivity].
  apply EP.upd_other. exact Hn.
Qed.
Lemma e_start_dead st r c :
  E.c_dead (E.st_conn (estep st (E.EStart r c)) c) = true -> E.st_conn (estep st (E.EStart r c)) c = E.st_conn st c.
Proof.
  cbn [E.step]. destruct (E.st_stat st r); try reflexivity. destruct (E.req_of g r); [|reflexivity].
  destruct (E.c_dead (E.st_conn st c)); [reflexivity|]. destruct (E.wire_request _ _ _); cbn [E.st_conn]; [|reflexivity].
  rewrite EP.upd_same. cbn. discriminate.
Qed.

Lemma handle_q_nil o f : E.handle_q handler o f [] = (None, []). Proof. reflexivity. Qed.

Lemma e_wire st w c0 :
  let k := E.st_conn st c0 in let k' := E.st_conn (estep st (wire_ev w)) c0 in
  E.c_holder k' = E.c_holder k /\ E.c_dead k' = E.c_dead k /\ (E.c_q k = [] -> E.c_q k' = [])
  /\ (E.c_dead k = true -> E.c_q k' = E.c_q k).
Proof.
  destruct w as [c s|c s]; cbn [wire_ev E.step].
  - destruct (E.c_dead (E.st_conn st c)) eqn:Ed; [cbn; auto|].
    destruct (E.handle_q handler (E.origin_of g c) (E.sel (E.proto_of g c) s) (E.c_q (E.st_conn st c))) as [[[r w]|] q'] eqn:Eh; [|cbn; auto].
    cbn [E.st_conn]. rewrite upd_eq. destruct (N.eqb c0 c) eqn:E0; [|cbn; auto].
    apply N.eqb_eq in E0. subst c0. cbn [E.c_holder E.c_dead E.c_q]. rewrite Ed. repeat split; auto; try discriminate.
    intros Hq. rewrite Hq in Eh. cbn in Eh. discriminate.
  - destruct (E.c_dead (E.st_conn st c)) eqn:Ed; [cbn; auto|].
    destruct (E.take_resp (E.proto_of g c) s (E.c_q (E.st_conn st c))) as [[[m x]|] q'] eqn:Eh; [|cbn; auto].
    assert (Hc : forall st1 k1, E.st_conn st1 = E.upd (E.st_conn st) c k1 ->
              E.c_holder k1 = E.c_holder (E.st_conn st c) -> E.c_dead k1 = false -> E.c_q k1 = q' ->
              E.c_holder (E.st_conn st1 c0) = E.c_holder (E.st_conn st c0) /\ E.c_dead (E.st_conn st1 c0) = E.c_dead (E.st_conn st c0)
              /\ (E.c_q (E.st_conn st c0) = [] -> E.c_q (E.st_conn st1 c0) = [])
              /\ (E.c_dead (E.st_conn st c0) = true -> E.c_q (E.st_conn st1 c0) = E.c_q (E.st_conn st c0))).
    { intros st1 k1 -> H1 H2 H3. rewrite upd_eq. destruct (N.eqb c0 c) eqn:E0; [|auto].
      apply N.eqb_eq in E0. subst c0. rewrite H1, H2, H3, Ed. repeat split; auto; try discriminate.
      intros Hq. rewrite Hq in Eh. destruct (E.proto_of g c); cbn in Eh; discriminate. }
    cbv zeta. destruct (E.recipient _ _ _) as [r'|]; [destruct (E.is_running _)|]; eapply Hc; reflexivity.
Qed.

Lemma e_cancel st r c0 :
  let k := E.st_conn st c0 in let k' := E.st_conn (estep st (E.ECancel r)) c0 in
  E.c_holder k' = E.c_holder k /\ E.c_q k' = E.c_q k
  /\ (E.c_dead k' = true -> E.c_dead k = true \/ exists s, E.st_stat st r = E.SRunning c0 s).
Proof.
  cbn [E.step]. destruct (E.st_stat st r) as [|c s|c p| |] eqn:Es; cbn [E.st_conn]; auto.
  rewrite upd_eq. destruct (N.eqb c0 c) eqn:E0; [|auto]. apply N.eqb_eq in E0. subst c0.
  destruct (E.proto_of g c); cbn; eauto.
Qed.

Lemma e_release st c c0 :
  let k := E.st_conn st c0 in let k' := E.st_conn (estep st (E.ERelease c)) c0 in
  E.c_q k' = E.c_q k /\ E.c_dead k' = E.c_dead k /\ (E.c_holder k = None -> E.c_holder k' = None)
  /\ (c0 <> c -> E.c_holder k' = E.c_holder k) /\ (c0 = c -> E.c_dead k = false -> E.c_holder k' = None).
Proof.
  cbn [E.step]. destruct (E.c_dead (E.st_conn st c)) eqn:Ed; [repeat split; auto; intros -> H; congruence|].
  cbn [E.st_conn]. rewrite upd_eq. destruct (N.eqb c0 c) eqn:E0.
  - apply N.eqb_eq in E0. subst c0. cbn. rewrite Ed. repeat split; auto. congruence.
  - apply N.eqb_neq in E0. repeat split; auto. congruence.
Qed.

Lemma e_break st c c0 :
  let k := E.st_conn st c0 in let k' := E.st_conn (estep st (E.EBreak c)) c0 in
  E.c_holder k' = E.c_holder k /\ E.c_q k' = E.c_q k /\ (E.c_dead k' = true -> E.c_dead k = true \/ c0 = c).
Proof.
  cbn [E.step E.st_conn]. rewrite upd_eq. destruct (N.eqb c0 c) eqn:E0; [|auto].
  apply N.eqb_eq in E0. subst c0. cbn. auto.
Qed.

End Effects.

(* ================================================================ the simulation invariant *)
Definition Agree (tab : list (option key)) (g : E.cfg) (mF : mst) : Prop :=
  (forall c sh, nth_error (msh mF) c = Some sh ->
     E.conn_of g (N.of_nat c) = Some (if sh then H.PH2 else H.PH1, oidx tab (conn_key mF c)))
  /\ (forall r q, E.req_of g (N.of_nat r) = Some q -> E.q_origin q = oidx tab (req_key mF r)).

Lemma nth_msh m c : nth_error (msh m) c = option_map ci_share (nth_error (m_conns m) c).
Proof. unfold msh, cview. rewrite !nth_error_map. destruct (nth_error (m_conns m) c); reflexivity. Qed.
Lemma nth_cview m c : nth_error (cview m) c = option_map cvw (nth_error (m_conns m) c).
Proof. unfold cview. rewrite nth_error_map. reflexivity. Qed.

Lemma Agree_link pc ua payload m : Agree (g_uris pc) (link_cfg_of pc ua payload m) m.
Proof.
  split.
  - intros c sh Hc. rewrite nth_msh in Hc. destruct (nth_error (m_conns m) c) as [ci|] eqn:Ec; [|discriminate].
    cbn in Hc. inversion Hc; subst sh. unfold E.conn_of, link_cfg_of. cbn [E.g_conns].
    rewrite (find_mapi _ (fun x : E.cid * (H.proto * N) => fst x)) by (reflexivity || lia).
    rewrite Nat.sub_0_r, Ec. reflexivity.
  - intros r q Hq. unfold E.req_of, link_cfg_of in Hq. cbn [E.g_reqs] in Hq.
    rewrite (find_mapi _ E.q_id) in Hq by (reflexivity || lia). rewrite Nat.sub_0_r in Hq.
    unfold req_key. destruct (nth_error (m_reqs m) r) as [ri|]; [|discriminate]. cbn in Hq. inversion Hq. reflexivity.
Qed.

(* tracker entries are backed by connection records with the same share flag *)
Definition AL (fl : list (bool * bool * bool)) (m : mst) : Prop :=
  forall c sh, nth_error (msh m) c = Some sh -> exists op rd, nth_error fl c = Some (sh, op, rd).

Lemma AL_I m s : I None [] m s -> AL (cflags s) m.
Proof.
  intros HI c sh Hc. rewrite nth_msh in Hc. destruct (nth_error (m_conns m) c) as [ci|] eqn:Ec; [|discriminate].
  cbn in Hc. inversion Hc; subst sh. rewrite nth_cflags.
  assert (Hlt : c < List.length (conns s)) by (rewrite <- (I_len _ _ _ _ HI); apply nth_error_Some; congruence).
  unfold get_conn. destruct (nth_error (conns s) c) as [cn|] eqn:En; [|apply nth_error_None in En; lia].
  cbn. unfold cfl. rewrite (I_share _ _ _ _ HI c ci cn Ec En). eauto.
Qed.
Lemma AL_ext fl m m' : ext m m' -> AL fl m' -> AL fl m.
Proof. intros HX H c sh Hc. apply H. eapply ext_msh; eauto. Qed.

Section Core.
Variable pc : config.
Variable handler : N -> E.wreq -> E.resp.
Variable g : E.cfg.
Variable mF : mst.
Hypothesis HA : Agree (g_uris pc) g mF.
Notation estep := (E.step handler g).
Notation erun := (E.run_from handler g).
Notation eok := (E.sched_ok_from handler g).
Notation ec st c := (E.st_conn st (N.of_nat c)).

Record J (fl : list (bool * bool * bool)) (cv : list (bool * bool)) (st : E.state) : Prop := mkJ {
  J_inv : EP.Inv handler g st;
  J_a : forall c, nth_error cv c = Some (false, true) -> E.c_holder (ec st c) = None;
  J_b : forall c rr, nth_error cv c = Some (false, rr) -> E.c_dead (ec st c) = true ->
          popen fl c = false \/ E.c_q (ec st c) <> [];
  J_c : forall c rr, nth_error cv c = Some (false, rr) -> E.c_q (ec st c) <> [] -> pready fl c = false;
  J_d : forall c, List.length cv <= c ->
          E.c_q (ec st c) = [] /\ E.c_holder (ec st c) = None
          /\ (E.c_dead (ec st c) = true -> E.conn_of g (N.of_nat c) = None)
}.

Definition trf (fl : list (bool * bool * bool)) (e : ev) : list E.event :=
  match e with
  | EHand r c _ _ _ _ => [E.EStart (N.of_nat r) (N.of_nat c)]
  | ERdy c true => if shf fl c then [] else [E.ERelease (N.of_nat c)]
  | _ => []
  end.
Lemma tr_ev_trf s' e : tr_ev s' e = trf (cflags s') e.
Proof. destruct e as [| | | | | | |c [|]]; cbn; try reflexivity. rewrite share_of_shf. reflexivity. Qed.

Lemma of_nat_neq a b : a <> b -> N.of_nat a <> N.of_nat b.
Proof. intros H E. apply Nat2N.inj in E. auto. Qed.

Lemma eok_one st e : E.pool_ok g st e = true -> eok st [e] = true.
Proof. intros H. cbn [E.sched_ok_from]. rewrite H. reflexivity. Qed.

Lemma cv_msh m c sh rr : nth_error (cview m) c = Some (sh, rr) -> nth_error (msh m) c = Some sh.
Proof. unfold msh. rewrite nth_error_map. intros ->. reflexivity. Qed.

Lemma proto_agree m c sh : ext m mF -> nth_error (msh m) c = Some sh ->
  E.proto_of g (N.of_nat c) = (if sh then H.PH2 else H.PH1) /\ E.origin_of g (N.of_nat c) = oidx (g_uris pc) (conn_key mF c).
Proof.
  intros HX Hc. pose proof (proj1 HA c sh (ext_msh _ _ _ _ HX Hc)) as Hg.
  unfold E.proto_of, E.origin_of. rewrite Hg. auto.
Qed.

(* ---------------------------------------------------------------- a hand-off *)
Lemma J_hand fl m st r c a b d h :
  J fl (cview m) st ->
  chk_ev_C02 m (EHand r c a b d h) = true -> chk_ev_C06 m (EHand r c a b d h) = true ->
  evok fl (EHand r c a b d h) -> AL fl m -> ext m mF ->
  E.pool_ok g st (E.EStart (N.of_nat r) (N.of_nat c)) = true
  /\ J fl (upd_nth c (set_rr false) (cview m)) (estep st (E.EStart (N.of_nat r) (N.of_nat c))).
Proof.
  intros HJ H2 H6 Hev HAL HX. cbn [chk_ev_C02 chk_ev_C06 evok] in *.
  destruct (nth_error (m_conns m) c) as [x|] eqn:Ec; [|discriminate].
  assert (Hcv : nth_error (cview m) c = Some (ci_share x, ci_rel_ready x)) by (rewrite nth_cview, Ec; reflexivity).
  destruct (proto_agree m c _ HX (cv_msh _ _ _ _ Hcv)) as [Hp Ho].
  assert (Hok : E.pool_ok g st (E.EStart (N.of_nat r) (N.of_nat c)) = true).
  { cbn [E.pool_ok]. apply andb_true_iff. split.
    - destruct (E.req_of g (N.of_nat r)) as [q|] eqn:Eq; [|reflexivity].
      rewrite Ho, (proj2 HA r q Eq). apply N.eqb_eq. apply oidx_same.
      destruct (same_key_some_l _ _ H6) as [k1 E1]. destruct (same_key_some_r _ _ H6) as [k2 E2].
      rewrite (ext_conn_key _ _ _ _ HX E1), (ext_req_key _ _ _ _ HX E2). rewrite E1, E2 in H6. exact H6.
    - rewrite Hp. destruct (ci_share x) eqn:Es; [reflexivity|].
      apply andb_true_iff in H2. destruct H2 as [H2 _]. apply andb_true_iff in H2. destruct H2 as [_ Hrr].
      rewrite Hrr in Hcv. rewrite (J_a _ _ _ HJ c Hcv). reflexivity. }
  split; [exact Hok|].
  assert (Hoth : forall c0, c0 <> c -> ec (estep st (E.EStart (N.of_nat r) (N.of_nat c))) c0 = ec st c0)
    by (intros c0 Hn; apply e_start_other; apply of_nat_neq; exact Hn).
  constructor.
  - apply EP.inv_step; [apply (J_inv _ _ _ HJ)|exact Hok].
  - intros c0 H0. apply FramesC02.nth_error_upd_nth_inv in H0. destruct H0 as [(-> & q & _ & Hq)|(Hn & H0)].
    + destruct q; cbn in Hq. inversion Hq.
    + rewrite Hoth by auto. apply (J_a _ _ _ HJ c0 H0).
  - intros c0 rr H0 Hd. apply FramesC02.nth_error_upd_nth_inv in H0. destruct H0 as [(<- & q & Hq0 & Hq)|(Hn & H0)].
    + pose proof (e_start_dead handler g st _ _ Hd) as He. rewrite He in *. destruct q as [sh0 rr0]. cbn in Hq. inversion Hq; subst.
      apply (J_b _ _ _ HJ c rr0 Hq0 Hd).
    + rewrite Hoth in * by auto. apply (J_b _ _ _ HJ c0 rr H0 Hd).
  - intros c0 rr H0 Hq1. apply FramesC02.nth_error_upd_nth_inv in H0. destruct H0 as [(<- & q & Hq0 & Hq)|(Hn & H0)].
    + destruct q as [sh0 rr0]. cbn in Hq. inversion Hq; subst sh0 rr.
      destruct (HAL c false (cv_msh _ _ _ _ Hq0)) as (op & rd & Hfl). rewrite Hfl in Hev.
      unfold pready. rewrite Hfl. auto.
    + rewrite Hoth in * by auto. apply (J_c _ _ _ HJ c0 rr H0 Hq1).
  - intros c0 Hlen. rewrite FramesC02.upd_nth_length in Hlen. rewrite Hoth; [apply (J_d _ _ _ HJ c0 Hlen)|].
    assert (c < List.length (cview m)) by (apply nth_error_Some; congruence). lia.
Qed.

(* ---------------------------------------------------------------- a hand-back *)
Lemma J_rdy fl m st c :
  J fl (cview m) st -> evok fl (ERdy c true) -> AL fl m ->
  eok st (trf fl (ERdy c true)) = true
  /\ J fl (upd_nth c (set_rr true) (cview m)) (erun st (trf fl (ERdy c true))).
Proof.
  intros HJ Hev HAL. cbn [trf evok] in *.
  assert (Hsh : forall sh0 rr0, nth_error (cview m) c = Some (sh0, rr0) -> shf fl c = sh0).
  { intros sh0 rr0 H0. destruct (HAL c sh0 (cv_msh _ _ _ _ H0)) as (op & rd & Hfl). unfold shf. rewrite Hfl. reflexivity. }
  destruct (shf fl c) eqn:Es.
  - split; [reflexivity|]. cbn [E.run_from fold_left]. constructor.
    + apply (J_inv _ _ _ HJ).
    + intros c0 H0. apply FramesC02.nth_error_upd_nth_inv in H0. destruct H0 as [(<- & [sh0 rr0] & Hq0 & Hq)|(Hn & H0)].
      * cbn in Hq. inversion Hq; subst sh0. discriminate (Hsh _ _ Hq0).
      * apply (J_a _ _ _ HJ c0 H0).
    + intros c0 rr H0. apply FramesC02.nth_error_upd_nth_inv in H0. destruct H0 as [(<- & [sh0 rr0] & Hq0 & Hq)|(Hn & H0)].
      * cbn in Hq. inversion Hq; subst sh0. discriminate (Hsh _ _ Hq0).
      * apply (J_b _ _ _ HJ c0 rr H0).
    + intros c0 rr H0. apply FramesC02.nth_error_upd_nth_inv in H0. destruct H0 as [(<- & [sh0 rr0] & Hq0 & Hq)|(Hn & H0)].
      * cbn in Hq. inversion Hq; subst sh0. discriminate (Hsh _ _ Hq0).
      * apply (J_c _ _ _ HJ c0 rr H0).
    + intros c0 Hlen. rewrite FramesC02.upd_nth_length in Hlen. apply (J_d _ _ _ HJ c0 Hlen).
  - destruct (nth_error fl c) as [[[sh op] rd]|] eqn:Efl; [|contradiction].
    assert (sh = false) by (unfold shf in Es; rewrite Efl in Es; exact Es). subst sh.
    destruct (Hev eq_refl) as [-> ->].
    assert (Hop : popen fl c = true) by (unfold popen; rewrite Efl; reflexivity).
    assert (Hrd : pready fl c = true) by (unfold pready; rewrite Efl; reflexivity).
    assert (Hq : E.c_q (ec st c) = []).
    { destruct (nth_error (cview m) c) as [[sh0 rr0]|] eqn:E0.
      - assert (Hs0 : false = sh0) by (apply (Hsh sh0 rr0); reflexivity). subst sh0.
        destruct (E.c_q (ec st c)) eqn:Eq; [reflexivity|].
        assert (Hne : E.c_q (ec st c) <> []) by (rewrite Eq; discriminate).
        rewrite (J_c _ _ _ HJ c rr0 E0 Hne) in Hrd. discriminate.
      - apply (J_d _ _ _ HJ c). apply nth_error_None. exact E0. }
    assert (Hok : E.pool_ok g st (E.ERelease (N.of_nat c)) = true).
    { cbn [E.pool_ok]. rewrite Hq. destruct (E.proto_of g (N.of_nat c)); reflexivity. }
    split; [apply eok_one; exact Hok|]. cbn [E.run_from fold_left].
    pose proof (fun c0 => e_release handler g st (N.of_nat c) (N.of_nat c0)) as HR. cbv zeta in HR.
    constructor.
    + apply EP.inv_step; [apply (J_inv _ _ _ HJ)|exact Hok].
    + intros c0 H0. destruct (HR c0) as (R1 & R2 & R3 & R4 & R5).
      apply FramesC02.nth_error_upd_nth_inv in H0. destruct H0 as [(<- & [sh0 rr0] & Hq0 & Hq1)|(Hn & H0)].
      * cbn in Hq1. inversion Hq1; subst sh0. apply R5; [reflexivity|].
        destruct (E.c_dead (ec st c)) eqn:Ed; [|reflexivity].
        destruct (J_b _ _ _ HJ c rr0 Hq0 Ed) as [Hb|Hb]; [rewrite Hb in Hop; discriminate|contradiction].
      * rewrite R4 by (apply of_nat_neq; auto). apply (J_a _ _ _ HJ c0 H0).
    + intros c0 rr H0. destruct (HR c0) as (R1 & R2 & _). rewrite R1, R2.
      apply FramesC02.nth_error_upd_nth_inv in H0. destruct H0 as [(<- & [sh0 rr0] & Hq0 & Hq1)|(Hn & H0)].
      * cbn in Hq1. inversion Hq1; subst sh0. apply (J_b _ _ _ HJ c rr0 Hq0).
      * apply (J_b _ _ _ HJ c0 rr H0).
    + intros c0 rr H0. destruct (HR c0) as (R1 & R2 & _). rewrite R1.
      apply FramesC02.nth_error_upd_nth_inv in H0. destruct H0 as [(<- & [sh0 rr0] & Hq0 & Hq1)|(Hn & H0)].
      * cbn in Hq1. inversion Hq1; subst sh0. apply (J_c _ _ _ HJ c rr0 Hq0).
      * apply (J_c _ _ _ HJ c0 rr H0).
    + intros c0 Hlen. rewrite FramesC02.upd_nth_length in Hlen. destruct (HR c0) as (R1 & R2 & R3 & _).
      destruct (J_d _ _ _ HJ c0 Hlen) as (D1 & D2 & D3). rewrite R1, R2. auto.
Qed.

(* ---------------------------------------------------------------- a new connection *)
Lemma J_new fl m st sh :
  J fl (cview m) st -> (exists sh', nth_error (msh mF) (List.length (cview m)) = Some sh') ->
  J fl (cview m ++ [(sh, true)]) st.
Proof.
  intros HJ [sh' HF].
  assert (Hg : E.conn_of g (N.of_nat (List.length (cview m))) <> None) by (rewrite (proj1 HA _ _ HF); discriminate).
  destruct (J_d _ _ _ HJ (List.length (cview m)) (le_n _)) as (D1 & D2 & D3).
  constructor.
  - apply (J_inv _ _ _ HJ).
  - intros c0 H0. apply nth_error_app_inv in H0. destruct H0 as [H0|[-> _]]; [apply (J_a _ _ _ HJ c0 H0)|exact D2].
  - intros c0 rr H0 Hd. apply nth_error_app_inv in H0. destruct H0 as [H0|[-> _]]; [apply (J_b _ _ _ HJ c0 rr H0 Hd)|].
    exfalso. apply Hg. apply D3. exact Hd.
  - intros c0 rr H0 Hq. apply nth_error_app_inv in H0. destruct H0 as [H0|[-> _]]; [apply (J_c _ _ _ HJ c0 rr H0 Hq)|].
    contradiction.
  - intros c0 Hlen. rewrite app_length in Hlen. cbn in Hlen. apply (J_d _ _ _ HJ c0). lia.
Qed.

(* ---------------------------------------------------------------- one event, a list of events *)
Lemma ev_link fl m st e :
  J fl (cview m) st -> chk_ev_C02 m e = true -> chk_ev_C06 m e = true -> evok fl e ->
  AL fl (track_ev m e) -> ext (track_ev m e) mF ->
  eok st (trf fl e) = true /\ J fl (cview (track_ev m e)) (erun st (trf fl e)).
Proof.
  intros HJ H2 H6 Hev HAL HX. rewrite cview_track_ev.
  assert (HAL0 : AL fl m) by (eapply AL_ext; [apply ext_track_ev|exact HAL]).
  assert (HX0 : ext m mF) by (eapply ext_trans; [apply ext_track_ev|exact HX]).
  destruct e as [r k|c sh r|r c a b d h|r|r x|r c|c|c [|]]; try (split; [reflexivity|exact HJ]).
  - split; [reflexivity|]. cbn [trf E.run_from fold_left]. apply J_new; [exact HJ|]. exists sh.
    eapply ext_msh; [exact HX|]. unfold msh. rewrite cview_track_ev, map_app, nth_error_app2 by (rewrite map_length; lia).
    rewrite map_length, Nat.sub_diag. reflexivity.
  - destruct (J_hand fl m st r c a b d h HJ H2 H6 Hev HAL0 HX0) as [Hok HJ'].
    split; [apply eok_one; exact Hok|exact HJ'].
  - apply J_rdy; assumption.
Qed.

Lemma erun_app st a b : erun st (a ++ b) = erun (erun st a) b.
Proof. apply fold_left_app. Qed.
Lemma eok_app st a b : eok st (a ++ b) = eok st a && eok (erun st a) b.
Proof.
  revert st. induction a as [|e a IH]; intros st; cbn [app E.sched_ok_from E.run_from fold_left]; [reflexivity|].
  rewrite IH, andb_assoc. reflexivity.
Qed.

Lemma evs_link fl : forall es m st,
  J fl (cview m) st -> evs_ok chk_ev_C02 m es = true -> evs_ok chk_ev_C06 m es = true -> Forall (evok fl) es ->
  AL fl (fold_left track_ev es m) -> ext (fold_left track_ev es m) mF ->
  eok st (flat_map (trf fl) es) = true /\ J fl (cview (fold_left track_ev es m)) (erun st (flat_map (trf fl) es)).
Proof.
  induction es as [|e es IH]; intros m st HJ H2 H6 Hev HAL HX; cbn [flat_map fold_left evs_ok] in *; [split; [reflexivity|exact HJ]|].
  apply andb_true_iff in H2. destruct H2 as [H2 H2']. apply andb_true_iff in H6. destruct H6 as [H6 H6'].
  inversion Hev as [|? ? Hev1 Hev2]; subst.
  destruct (ev_link fl m st e HJ H2 H6 Hev1) as [Hok HJ1].
  - eapply AL_ext; [apply ext_fold|exact HAL].
  - eapply ext_trans; [apply ext_fold|exact HX].
  - destruct (IH _ _ HJ1 H2' H6' Hev2 HAL HX) as [Hok2 HJ2].
    rewrite eok_app, erun_app, Hok, Hok2. split; [reflexivity|exact HJ2].
Qed.

(* ---------------------------------------------------------------- the operation itself *)
Lemma J_move x fl fl' m st :
  J fl (cview m) st -> AL fl m -> Wk x fl fl' ->
  (forall c rr, x = Some c -> nth_error (cview m) c = Some (false, rr) -> E.c_q (ec st c) = []) ->
  J fl' (cview m) st.
Proof.
  intros HJ HAL HW Hx. constructor; try apply HJ.
  - intros c rr H0 Hd. destruct (J_b _ _ _ HJ c rr H0 Hd) as [Hb|Hb]; [left|right; exact Hb].
    destruct (HAL c false (cv_msh _ _ _ _ H0)) as (op & rd & Hfl). unfold popen in *. rewrite Hfl in Hb. subst op.
    destruct (HW c _ _ _ Hfl) as (op' & rd' & Hfl' & Ho & _). rewrite Hfl'. destruct op'; [discriminate (Ho eq_refl)|reflexivity].
  - intros c rr H0 Hq. pose proof (J_c _ _ _ HJ c rr H0 Hq) as Hc.
    destruct (HAL c false (cv_msh _ _ _ _ H0)) as (op & rd & Hfl). unfold pready in *. rewrite Hfl in Hc. subst rd.
    destruct (HW c _ _ _ Hfl) as (op' & rd' & Hfl' & _ & Hr). rewrite Hfl'. destruct rd'; [|reflexivity].
    destruct (Hr eq_refl) as [Hr'|Hr']; [discriminate|]. elim Hq. apply (Hx c rr Hr' H0).
Qed.

Lemma J_break fl m st c :
  J fl (cview m) st -> popen fl c = false -> c < List.length (cview m) ->
  J fl (cview m) (estep st (E.EBreak (N.of_nat c))).
Proof.
  intros HJ Hop Hlt. pose proof (fun c0 => e_break handler g st (N.of_nat c) (N.of_nat c0)) as HB. cbv zeta in HB.
  constructor.
  - apply EP.inv_step; [apply (J_inv _ _ _ HJ)|reflexivity].
  - intros c0 H0. destruct (HB c0) as (B1 & B2 & B3). rewrite B1. apply (J_a _ _ _ HJ c0 H0).
  - intros c0 rr H0 Hd. destruct (HB c0) as (B1 & B2 & B3). rewrite B2. destruct (B3 Hd) as [Hd0|He].
    + apply (J_b _ _ _ HJ c0 rr H0 Hd0).
    + apply Nat2N.inj in He. subst c0. left. exact Hop.
  - intros c0 rr H0. destruct (HB c0) as (B1 & B2 & B3). rewrite B2. apply (J_c _ _ _ HJ c0 rr H0).
  - intros c0 Hlen. destruct (HB c0) as (B1 & B2 & B3). destruct (J_d _ _ _ HJ c0 Hlen) as (D1 & D2 & D3).
    rewrite B1, B2. split; [exact D1|]. split; [exact D2|]. intros Hd. destruct (B3 Hd) as [Hd0|He]; [auto|].
    apply Nat2N.inj in He. lia.
Qed.

Lemma J_cancel fl cv st r : J fl cv st -> J fl cv (estep st (E.ECancel r)).
Proof.
  intros HJ. pose proof (fun c0 => e_cancel handler g st r (N.of_nat c0)) as HC. cbv zeta in HC.
  assert (Hrun : forall c0 s, E.st_stat st r = E.SRunning (N.of_nat c0) s -> E.c_dead (ec st c0) = false -> E.c_q (ec st c0) <> []).
  { intros c0 s Hs Hd Hq. destruct (EP.inv_run _ _ _ (J_inv _ _ _ HJ) _ _ _ Hs Hd) as [Hin _]. rewrite Hq in Hin. exact Hin. }
  constructor.
  - apply EP.inv_step; [apply (J_inv _ _ _ HJ)|reflexivity].
  - intros c0 H0. destruct (HC c0) as (C1 & C2 & C3). rewrite C1. apply (J_a _ _ _ HJ c0 H0).
  - intros c0 rr H0 Hd. destruct (HC c0) as (C1 & C2 & C3). rewrite C2. destruct (E.c_dead (ec st c0)) eqn:Ed.
    + apply (J_b _ _ _ HJ c0 rr H0 Ed).
    + destruct (C3 Hd) as [?|[s Hs]]; [discriminate|]. right. apply (Hrun c0 s Hs Ed).
  - intros c0 rr H0. destruct (HC c0) as (C1 & C2 & C3). rewrite C2. apply (J_c _ _ _ HJ c0 rr H0).
  - intros c0 Hlen. destruct (HC c0) as (C1 & C2 & C3). destruct (J_d _ _ _ HJ c0 Hlen) as (D1 & D2 & D3).
    rewrite C1, C2. split; [exact D1|]. split; [exact D2|]. intros Hd. destruct (E.c_dead (ec st c0)) eqn:Ed; [auto|].
    destruct (C3 Hd) as [?|[s Hs]]; [discriminate|]. elim (Hrun c0 s Hs Ed). exact D1.
Qed.

Lemma AL_msh fl m m' : msh m' = msh m -> AL fl m -> AL fl m'.
Proof. intros E H c sh Hc. apply H. rewrite <- E. exact Hc. Qed.

Lemma cview_length m : List.length (cview m) = List.length (m_conns m).
Proof. unfold cview. apply map_length. Qed.

Lemma op_start s m st o :
  I None [] m s -> J (cflags (step pc s o)) (cview m) st -> closes s o (cflags (step pc s o)) ->
  eok st (tr_op s o) = true /\ J (cflags (step pc s o)) (cview m) (erun st (tr_op s o)).
Proof.
  intros HI HJ Hcl.
  assert (Hlt : forall c cn, get_conn s c = Some cn -> c < List.length (cview m)).
  { intros c cn Hc. rewrite cview_length, (I_len _ _ _ _ HI). apply nth_error_Some. unfold get_conn in Hc. congruence. }
  destruct o as [u p|r|r|r|r|r x|c|c| |dt]; cbn [tr_op closes] in *; try (split; [reflexivity|exact HJ]).
  - destruct (get_req s r) as [[|ck|p f pl| |]|]; try (split; [reflexivity|exact HJ]);
      (split; [reflexivity|apply J_cancel; exact HJ]).
  - destruct (get_req s r) as [[|ck|p f pl| |]|] eqn:Er; try (split; [reflexivity|exact HJ]).
    destruct (get_conn s (fst p)) as [cn|] eqn:Ec; [|split; [reflexivity|exact HJ]].
    split; [reflexivity|]. apply J_break; [exact HJ|eapply Hcl; reflexivity|eapply Hlt; eauto].
  - destruct (get_conn s c) as [cn|] eqn:Ec; [|split; [reflexivity|exact HJ]].
    split; [reflexivity|]. apply J_break; [exact HJ|exact Hcl|eapply Hlt; eauto].
Qed.

Lemma op_link s m st o :
  I None [] m s -> J (cflags s) (cview m) st -> o1_step st s o = true ->
  chk_C06 pc m o (observe (step pc s o)) = true ->
  ext (track pc m o (observe (step pc s o))) mF ->
  eok st (evs_of_op pc s o) = true
  /\ J (cflags (step pc s o)) (cview (track pc m o (observe (step pc s o)))) (erun st (evs_of_op pc s o))
  /\ I None [] (track pc m o (observe (step pc s o))) (step pc s o).
Proof.
  intros HI HJ Ho1 H6 HX. set (s' := step pc s o) in *. set (ob := observe s') in *.
  destruct (step_ok pc m s o HI) as [H2 HI']. fold s' in H2, HI'. fold ob in H2, HI'.
  destruct (step_sum pc s o) as (HW & Hcl & Hev). fold s' in HW, Hcl, Hev.
  pose proof (AL_I _ _ HI) as HAL. pose proof (AL_I _ _ HI') as HAL'.
  assert (HJ1 : J (cflags s') (cview m) st).
  { apply (J_move (rdy_of o) (cflags s)); auto. intros c rr Hx Hc. destruct o; cbn [rdy_of] in Hx; try discriminate.
    inversion Hx; subst c0. cbn [o1_step] in Ho1.
    destruct (HAL c false (cv_msh _ _ _ _ Hc)) as (op & rd & Hfl).
    rewrite share_of_shf in Ho1. unfold shf in Ho1. rewrite Hfl in Ho1. cbn [orb] in Ho1.
    destruct (E.c_q (ec st c)); [reflexivity|discriminate]. }
  destruct (op_start s m st o HI HJ1 Hcl) as [Hok0 HJ0]. fold s' in HJ0.
  rewrite <- (cview_track_op pc m o ob) in HJ0.
  destruct (evs_link (cflags s') (o_events ob) (track_op pc m o ob) _ HJ0) as [Hok1 HJ2].
  - exact H2.
  - exact H6.
  - unfold ob. cbn [o_events observe]. apply Forall_rev. exact Hev.
  - eapply AL_msh; [|exact HAL']. unfold msh. rewrite cview_track. reflexivity.
  - eapply ext_trans; [|exact HX]. apply ext_eq; [apply mkeys_track|apply cview_track].
  - assert (Hfm : flat_map (tr_ev s') (o_events ob) = flat_map (trf (cflags s')) (o_events ob))
      by (apply flat_map_ext; intros e; apply tr_ev_trf).
    unfold evs_of_op. fold s'. fold ob. rewrite Hfm, eok_app, erun_app, Hok0, Hok1, cview_track.
    split; [reflexivity|]. split; [exact HJ2|exact HI'].
Qed.

(* ---------------------------------------------------------------- wire steps, whole histories *)
Lemma J_wire fl cv st w : J fl cv st -> J fl cv (estep st (wire_ev w)).
Proof.
  intros HJ. pose proof (fun c0 => e_wire handler g st w (N.of_nat c0)) as HWr. cbv zeta in HWr.
  constructor.
  - apply EP.inv_step; [apply (J_inv _ _ _ HJ)|destruct w; reflexivity].
  - intros c0 H0. destruct (HWr c0) as (W1 & W2 & W3 & W4). rewrite W1. apply (J_a _ _ _ HJ c0 H0).
  - intros c0 rr H0 Hd. destruct (HWr c0) as (W1 & W2 & W3 & W4). rewrite W2 in Hd. rewrite (W4 Hd).
    apply (J_b _ _ _ HJ c0 rr H0 Hd).
  - intros c0 rr H0 Hq. destruct (HWr c0) as (W1 & W2 & W3 & W4). apply (J_c _ _ _ HJ c0 rr H0).
    intros Hq0. apply Hq. apply W3. exact Hq0.
  - intros c0 Hlen. destruct (HWr c0) as (W1 & W2 & W3 & W4). destruct (J_d _ _ _ HJ c0 Hlen) as (D1 & D2 & D3).
    rewrite W1, W2. auto.
Qed.

Lemma J_init : J (cflags init) (cview m0) (E.init g).
Proof.
  constructor.
  - apply EP.inv_init.
  - intros [|c] H; discriminate H.
  - intros [|c] rr H; discriminate H.
  - intros [|c] rr H; discriminate H.
  - intros c _. cbn. split; [reflexivity|]. split; [reflexivity|]. destruct (E.conn_of g (N.of_nat c)); [discriminate|reflexivity].
Qed.

Lemma hist_link : forall h s m st,
  I None [] m s -> J (cflags s) (cview m) st ->
  mon_steps chk_C06 pc m (pool_ops h) (trace_from pc s (pool_ops h)) = true ->
  final_mst pc m (pool_ops h) (trace_from pc s (pool_ops h)) = mF ->
  o1_from pc handler g s st h = true ->
  eok st (sched_from pc s h) = true.
Proof.
  induction h as [|[o|w] t IH]; intros s m st HI HJ H6 HF Ho1; cbn [sched_from pool_ops o1_from] in *; [reflexivity| |].
  - cbn [trace_from mon_steps final_mst] in H6, HF.
    apply andb_true_iff in H6. destruct H6 as [H6 H6']. apply andb_true_iff in Ho1. destruct Ho1 as [Ho1 Ho1'].
    assert (HX : ext (track pc m o (observe (step pc s o))) mF) by (rewrite <- HF; apply ext_final).
    destruct (op_link s m st o HI HJ Ho1 H6 HX) as (Hok & HJ' & HI').
    rewrite eok_app, Hok. cbn [andb]. apply (IH _ _ _ HI' HJ' H6' HF Ho1').
  - cbn [E.sched_ok_from]. assert (Hp : E.pool_ok g st (wire_ev w) = true) by (destruct w; reflexivity).
    rewrite Hp. cbn [andb]. apply (IH _ _ _ HI (J_wire _ _ _ w HJ) H6 HF Ho1).
Qed.

End Core.

(* ================================================================ the theorem *)
Theorem pool_discharges_sched_ok :
  forall (pc : config) (ua : string) (payload : nat -> H.req * E.body) (handler : N -> E.wreq -> E.resp)
         (h : list hstep),
    o1_ok pc ua payload handler h = true ->
    E.sched_ok handler (link_cfg pc ua payload h) (sched_of pc h) = true.
Proof.
  intros pc ua payload handler h Ho1. unfold E.sched_ok, sched_of, o1_ok, link_cfg in *.
  set (mF := final_mst pc m0 (pool_ops h) (trace pc (pool_ops h))) in *.
  apply (hist_link pc handler (link_cfg_of pc ua payload mF) mF (Agree_link pc ua payload mF) h init m0).
  - apply I_init.
  - apply J_init.
  - apply (mon_C06_holds pc (pool_ops h)).
  - reflexivity.
  - exact Ho1.
Qed.

Corollary c01_matched_for_pool_histories :
  forall pc ua payload handler h r p,
    o1_ok pc ua payload handler h = true ->
    In (r, E.ODone p) (E.run handler (link_cfg pc ua payload h) (sched_of pc h)) ->
    let g := link_cfg pc ua payload h in
    exists q c w, E.req_of g r = Some q /\ E.wire_request (E.g_ua g) (E.proto_of g c) q = Some w
                  /\ E.origin_of g c = E.q_origin q /\ p = handler (E.q_origin q) w.
Proof.
  intros pc ua payload handler h r p Ho1 Hin g.
  exact (EP.matched handler g (sched_of pc h) r p (pool_discharges_sched_ok pc ua payload handler h Ho1) Hin).
Qed.

Corollary c01_server_saw_for_pool_histories :
  forall pc ua payload handler h c r w,
    o1_ok pc ua payload handler h = true ->
    let g := link_cfg pc ua payload h in
    In (c, r, w) (E.st_log (E.run_state handler g (sched_of pc h))) ->
    exists q, E.req_of g r = Some q /\ E.wire_request (E.g_ua g) (E.proto_of g c) q = Some w
              /\ E.origin_of g c = E.q_origin q.
Proof.
  intros pc ua payload handler h c r w Ho1 g Hin.
  exact (EP.server_saw handler g (sched_of pc h) c r w (pool_discharges_sched_ok pc ua payload handler h Ho1) Hin).
Qed.

Print Assumptions pool_discharges_sched_ok.
Print Assumptions c01_matched_for_pool_histories.
