(* Executable specification (monitor) for C01, written from the property text, over observables
   only: for every request of a run the recorded triple
       (request the caller sent, request the server handler was given, response the caller received).
   It judges the implementation's triples as recorded by harness/src/bin/e2e.rs.

   C01: "Every response a caller receives is the one the server produced for that caller's own
   request, with status, headers and the complete body unaltered, and every request the server
   handles carries the method, path, query, headers and complete body the caller sent. [...]  A
   request that is not cancelled and whose connection the peer does not break completes
   successfully."

   Documented rewriting that is allowed (and only allowed, not demanded: demanding it is C13):
   Host inserted on HTTP/1 when the caller gave none; User-Agent inserted when the caller gave none;
   Host and the connection-specific headers may be missing on HTTP/2; the version is the
   connection's (HTTP/1.1 or HTTP/2), whatever the caller asked for. *)
From HD Require Import common.Base http.Model http.Spec e2e.Model.
Local Open Scope string_scope.

Definition body_eqb (a b : body) : bool := list_eqb N.eqb a b.

Definition wreq_eqb (a b : wreq) : bool :=
  String.eqb (w_method a) (w_method b) && hver_eqb (w_version a) (w_version b)
  && String.eqb (w_path a) (w_path b) && ostr_eqb (w_query a) (w_query b)
  && list_eqb hdr_eqb (w_headers a) (w_headers b) && body_eqb (w_body a) (w_body b).

Definition resp_eqb (a b : resp) : bool :=
  N.eqb (p_status a) (p_status b) && list_eqb hdr_eqb (p_headers a) (p_headers b)
  && wreq_eqb (p_echo a) (p_echo b).

(* the protocol of the connection a handled request arrived on, read off the version it carries;
   anything but HTTP/1.1 and HTTP/2 is not a connection version *)
Definition class_of (w : wreq) : option proto :=
  match w_version w with V11 => Some PH1 | V2 => Some PH2 | _ => None end.

(* header names whose presence the rewriting may change *)
Definition ign (p : proto) : list string :=
  match p with PH1 => ["user-agent"; "host"] | PH2 => "user-agent" :: h2_illegal end.

(* the request the server handled carries the caller's method, path, query and headers *)
Definition head_ok (q : ereq) (w : wreq) : bool :=
  let r := q_req q in
  match class_of w with
  | None => false
  | Some p =>
      String.eqb (w_method w) (r_method r)
      && String.eqb (w_path w) (if String.eqb (u_path (r_uri r)) "" then "/" else u_path (r_uri r))
      && ostr_eqb (w_query w) (u_query (r_uri r))
      && list_eqb hdr_eqb (without (ign p) (w_headers w)) (without (ign p) (r_headers r))
      && (* Host: the caller's own value(s) win; otherwise exactly one value naming the URI's host *)
         match p with
         | PH1 =>
             match values_of "host" (r_headers r), u_host (r_uri r) with
             | [], Some h => match values_of "host" (w_headers w) with
                             | [v] => host_ok (r_uri r) h v
                             | _ => false
                             end
             | given, _ => list_eqb String.eqb (values_of "host" (w_headers w)) given
             end
         | PH2 => true
         end
      && (* User-Agent: the caller's own value(s) win *)
         match values_of "user-agent" (r_headers r) with
         | [] => true
         | given => list_eqb String.eqb (values_of "user-agent" (w_headers w)) given
         end
  end.

(* the requests the end-to-end property speaks about: an absolute URI (scheme and authority) the
   http crate accepts, any method but CONNECT (a tunnel is not a request/response exchange) *)
Definition e2e_req_ok (q : ereq) : bool :=
  let r := q_req q in
  uri_wf_b (r_uri r) && negb (String.eqb (r_method r) "CONNECT")
  && match u_scheme (r_uri r), u_auth (r_uri r) with Some _, Some _ => true | _, _ => false end.

Inductive ioutcome :=
| IOk (p : resp)      (* complete response received *)
| IErr                (* the client call returned an error / the body broke off *)
| ICancelled          (* the caller dropped the request before it completed *)
| IHang.              (* nothing after a generous timeout *)

Record triple := mkTriple {
  t_req : ereq;                      (* what the caller sent *)
  t_cancelled : bool;                (* the caller cancelled it *)
  t_broken : bool;                   (* the peer broke its connection *)
  t_saw : option (wreq * bool);      (* what the server handler was given; body seen to its end? *)
  t_out : ioutcome
}.

Section WithHandler.
Variable handler : N -> wreq -> resp.

Definition mon_triple (t : triple) : bool :=
  let q := t_req t in
  (* every request the server handles carries what the caller sent; the body only counts once
     the server has read it to its end (a cancelled upload is cut short by the caller) *)
  match t_saw t with
  | Some (w, complete) => head_ok q w && (negb complete || body_eqb (w_body w) (q_body q))
  | None => true
  end
  &&
  match t_out t with
  | IOk p =>
      (* the response is the one the server produced for the caller's own request: the handler's
         answer to the request it was given under this caller's id, at this caller's origin *)
      match t_saw t with
      | Some (w, true) => resp_eqb p (handler (q_origin q) w)
      | _ => false
      end
  | ICancelled => t_cancelled t
  | IErr | IHang => t_cancelled t || t_broken t
  end
  && (* a request that is not cancelled and whose connection is not broken completes *)
  (t_cancelled t || t_broken t || match t_out t with IOk _ => true | _ => false end).

Definition mon_C01 (ts : list triple) : bool := forallb mon_triple ts.
End WithHandler.
