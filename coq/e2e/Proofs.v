(* Proofs for M-E2E (C01): invariant of the abstract connections under the pool hypotheses,
   matching, request preservation (from the M-HTTP lemmas), completion. *)
From HD Require Import common.Base http.Model http.Spec http.Proofs e2e.Model e2e.Spec.
Local Open Scope string_scope.

(* ------------------------------------------------------------------ small facts *)
Lemma upd_same {A} (f : N -> A) k v : upd f k v k = v.
Proof. unfold upd. rewrite N.eqb_refl. reflexivity. Qed.

Lemma upd_other {A} (f : N -> A) k v x : x <> k -> upd f k v x = f x.
Proof. intros H. unfold upd. destruct (N.eqb_spec x k); [contradiction|reflexivity]. Qed.

Lemma lookup_cons s s0 r0 l :
  lookup s ((s0, r0) :: l) = if N.eqb s0 s then Some r0 else lookup s l.
Proof. unfold lookup. cbn [find fst]. destruct (N.eqb s0 s); reflexivity. Qed.

Lemma lookup_remove_self s l : lookup s (remove_sid s l) = None.
Proof.
  unfold lookup, remove_sid. induction l as [|[a b] t IH]; cbn [filter find fst]; [reflexivity|].
  destruct (N.eqb_spec a s) as [E|E]; cbn [negb]; [exact IH|].
  cbn [find fst]. destruct (N.eqb_spec a s); [contradiction|exact IH].
Qed.

Lemma lookup_remove_neq s s' l : s <> s' -> lookup s (remove_sid s' l) = lookup s l.
Proof.
  intros Hn. unfold lookup, remove_sid. induction l as [|[a b] t IH]; cbn [filter find fst]; [reflexivity|].
  destruct (N.eqb_spec a s'); cbn [negb].
  - destruct (N.eqb_spec a s); [subst; contradiction|exact IH].
  - cbn [find fst]. destruct (N.eqb a s); [reflexivity|exact IH].
Qed.

Lemma lookup_remove_some s s' l r : lookup s (remove_sid s' l) = Some r -> lookup s l = Some r.
Proof.
  destruct (N.eq_dec s s') as [->|Hn].
  - rewrite lookup_remove_self. discriminate.
  - rewrite lookup_remove_neq by assumption. auto.
Qed.

Definition tags (q : list msg) : list (sid * rid) := map (fun m => (m_sid m, m_tag m)) q.

Lemma tags_in q s t : In (s, t) (tags q) <-> exists m, In m q /\ m_sid m = s /\ m_tag m = t.
Proof.
  unfold tags. rewrite in_map_iff. split.
  - intros [m [E H]]. inversion E. eauto.
  - intros [m [H [A B]]]. exists m. subst. auto.
Qed.

Lemma tags_app q1 q2 : tags (q1 ++ q2) = (tags q1 ++ tags q2)%list.
Proof. unfold tags. apply map_app. Qed.

Section Proofs.
Variable handler : N -> wreq -> resp.
Variable g : cfg.

Notation step := (step handler g).
Notation run_from := (run_from handler g).
Notation run_state := (run_state handler g).
Notation init := (init g).
Notation pool_ok := (pool_ok g).
Notation sched_ok_from := (sched_ok_from handler g).
Notation sched_ok := (sched_ok handler g).
Notation handle_q := (handle_q handler).

(* ------------------------------------------------------------------ queue operations *)
Lemma handle_q_tags o f q : tags (snd (handle_q o f q)) = tags q.
Proof.
  induction q as [|m t IH]; cbn [handle_q]; [reflexivity|].
  destruct (m_pay m) eqn:Ep.
  - destruct (f m).
    + reflexivity.
    + destruct (handle_q o f t) as [r t'] eqn:E. cbn [snd] in *. cbn [tags map]. f_equal. exact IH.
  - destruct (handle_q o f t) as [r t'] eqn:E. cbn [snd] in *. cbn [tags map]. f_equal. exact IH.
Qed.

Lemma handle_q_none o f q q' : handle_q o f q = (None, q') -> q' = q.
Proof.
  revert q'. induction q as [|m t IH]; cbn [handle_q]; intros q' H.
  - inversion H. reflexivity.
  - destruct (m_pay m) eqn:Ep.
    + destruct (f m); [discriminate|].
      destruct (handle_q o f t) as [r t'] eqn:E. inversion H. subst. f_equal. apply IH. reflexivity.
    + destruct (handle_q o f t) as [r t'] eqn:E. inversion H. subst. f_equal. apply IH. reflexivity.
Qed.

(* what was handled is a pending request of the queue; every message of the new queue is an old
   one or the answer to the handled one *)
Lemma handle_q_some o f q r w q' :
  handle_q o f q = (Some (r, w), q') ->
  (exists m, In m q /\ m_tag m = r /\ m_pay m = PReq w) /\
  (forall m', In m' q' -> In m' q \/ (m_tag m' = r /\ m_pay m' = PResp (handler o w))).
Proof.
  revert q'. induction q as [|m t IH]; cbn [handle_q]; intros q' H; [discriminate|].
  destruct (m_pay m) eqn:Ep.
  - destruct (f m) eqn:Ef.
    + inversion H. subst. split.
      * exists m. split; [left; reflexivity|auto].
      * intros m' [E|Hin]; [right; subst; cbn; auto|left; right; exact Hin].
    + destruct (handle_q o f t) as [r0 t'] eqn:E. inversion H. subst.
      destruct (IH t' eq_refl) as [[m0 [A B]] C]. split.
      * exists m0. split; [right; exact A|exact B].
      * intros m' [E'|Hin]; [left; left; exact E'|].
        destruct (C m' Hin) as [D|D]; [left; right; exact D|right; exact D].
  - destruct (handle_q o f t) as [r0 t'] eqn:E. inversion H. subst.
    destruct (IH t' eq_refl) as [[m0 [A B]] C]. split.
    + exists m0. split; [right; exact A|exact B].
    + intros m' [E'|Hin]; [left; left; exact E'|].
      destruct (C m' Hin) as [D|D]; [left; right; exact D|right; exact D].
Qed.

Lemma take_resp_some p s q m x q' :
  take_resp p s q = (Some (m, x), q') ->
  In m q /\ m_pay m = PResp x /\ (forall m', In m' q' -> In m' q) /\
  (forall m', In m' q -> m' = m \/ In m' q') /\ (p = PH2 -> m_sid m = s).
Proof.
  revert q'. induction q as [|m0 t IH]; cbn [take_resp]; intros q' H; [discriminate|].
  destruct p.
  - destruct (m_pay m0) eqn:Ep; [discriminate|]. inversion H. subst.
    repeat split; auto.
    + left; reflexivity.
    + intros m' Hin. right. exact Hin.
    + intros m' [E|Hin]; [left; auto|right; exact Hin].
    + discriminate.
  - destruct (m_pay m0) eqn:Ep.
    + destruct (take_resp PH2 s t) as [r0 t'] eqn:E. inversion H. subst.
      destruct (IH t' eq_refl) as (A & B & C & D & F). repeat split; auto.
      * right; exact A.
      * intros m' [E'|Hin]; [left; exact E'|right; apply C; exact Hin].
      * intros m' [E'|Hin]; [right; left; exact E'|].
        destruct (D m' Hin) as [G|G]; [left; exact G|right; right; exact G].
    + destruct (N.eqb_spec (m_sid m0) s).
      * inversion H. subst. repeat split; auto.
        -- left; reflexivity.
        -- intros m' Hin. right. exact Hin.
        -- intros m' [E'|Hin]; [left; auto|right; exact Hin].
      * destruct (take_resp PH2 s t) as [r0 t'] eqn:E. inversion H. subst.
        destruct (IH t' eq_refl) as (A & B & C & D & F). repeat split; auto.
        -- right; exact A.
        -- intros m' [E'|Hin]; [left; exact E'|right; apply C; exact Hin].
        -- intros m' [E'|Hin]; [right; left; exact E'|].
           destruct (D m' Hin) as [G|G]; [left; exact G|right; right; exact G].
Qed.

(* ------------------------------------------------------------------ the invariant *)
Definition good_req (c : cid) (r : rid) (w : wreq) : Prop :=
  exists q, req_of g r = Some q /\ wire_request (g_ua g) (proto_of g c) q = Some w
            /\ origin_of g c = q_origin q.

Definition good_resp (c : cid) (r : rid) (p : resp) : Prop :=
  exists q w, req_of g r = Some q /\ wire_request (g_ua g) (proto_of g c) q = Some w
              /\ origin_of g c = q_origin q /\ p = handler (q_origin q) w.

Definition good_msg (c : cid) (m : msg) : Prop :=
  match m_pay m with PReq w => good_req c (m_tag m) w | PResp p => good_resp c (m_tag m) p end.

Record conn_inv (c : cid) (k : conn) : Prop := {
  (* HTTP/1: everything in flight was written by the current holder *)
  ci_h1 : proto_of g c = PH1 -> forall s t, In (s, t) (tags (c_q k)) -> c_holder k = Some t;
  (* HTTP/2: the owner registered for a stream is the one who wrote on it *)
  ci_h2 : proto_of g c = PH2 -> forall s t r', In (s, t) (tags (c_q k)) ->
          lookup s (c_streams k) = Some r' -> r' = t;
  ci_fresh : forall s t, In (s, t) (tags (c_q k)) -> (s < c_next k)%N;
  ci_fresh_st : forall s r, lookup s (c_streams k) = Some r -> (s < c_next k)%N;
  ci_msg : forall m, In m (c_q k) -> good_msg c m
}.

Definition run_inv (c : cid) (k : conn) (r : rid) (s : sid) : Prop :=
  c_dead k = false ->
  In (s, r) (tags (c_q k)) /\ (proto_of g c = PH2 -> lookup s (c_streams k) = Some r).

Record Inv (st : state) : Prop := {
  inv_conn : forall c, conn_inv c (st_conn st c);
  inv_done : forall r c p, st_stat st r = SDone c p -> good_resp c r p;
  inv_log : forall c r w, In (c, r, w) (st_log st) -> good_req c r w;
  inv_run : forall r c s, st_stat st r = SRunning c s -> run_inv c (st_conn st c) r s
}.

Lemma inv_init : Inv init.
Proof.
  constructor; cbn.
  - intros c. constructor; cbn; intros; try contradiction; try discriminate.
  - discriminate.
  - intros c r w [].
  - discriminate.
Qed.

(* the holder / stream owner of a running request on a live connection is that request *)
Lemma running_recipient st r c s :
  Inv st -> st_stat st r = SRunning c s -> c_dead (st_conn st c) = false ->
  forall m, In m (c_q (st_conn st c)) -> m_sid m = s -> m_tag m = r ->
  recipient (proto_of g c) (st_conn st c) (m_sid m) = Some r.
Proof.
  intros I Hr Hd m Hin Hs Ht. unfold recipient.
  destruct (inv_run _ I _ _ _ Hr Hd) as [Hin' Hl].
  destruct (proto_of g c) eqn:Ep.
  - apply (ci_h1 _ _ (inv_conn _ I c) Ep s). exact Hin'.
  - rewrite Hs. apply Hl. reflexivity.
Qed.

(* a message that is delivered goes to the request that wrote it, if it goes to anybody *)
Lemma recipient_is_writer st c m r' :
  Inv st -> In m (c_q (st_conn st c)) ->
  recipient (proto_of g c) (st_conn st c) (m_sid m) = Some r' -> r' = m_tag m.
Proof.
  intros I Hin Hrec. unfold recipient in Hrec.
  assert (Ht : In (m_sid m, m_tag m) (tags (c_q (st_conn st c)))) by (apply tags_in; eauto).
  destruct (proto_of g c) eqn:Ep.
  - rewrite (ci_h1 _ _ (inv_conn _ I c) Ep _ _ Ht) in Hrec. inversion Hrec. reflexivity.
  - apply (ci_h2 _ _ (inv_conn _ I c) Ep _ _ _ Ht Hrec).
Qed.

Ltac conn_cases c c0 :=
  destruct (N.eq_dec c0 c) as [->|?Hne]; [rewrite ?upd_same|rewrite ?upd_other by assumption].

(* ------------------------------------------------------------------ preservation *)
Lemma inv_step st e : Inv st -> pool_ok st e = true -> Inv (step st e).
Proof.
  intros I Hok. destruct e as [r c|c s|c s|r|c|c]; cbn [Model.step].
  - (* EStart *)
    destruct (st_stat st r) eqn:Es; try exact I.
    destruct (req_of g r) as [q|] eqn:Eq; [|exact I].
    destruct (c_dead (st_conn st c)) eqn:Ed; [exact I|].
    destruct (wire_request (g_ua g) (proto_of g c) q) as [w|] eqn:Ew.
    + cbn [Model.pool_ok] in Hok. rewrite Eq in Hok. apply andb_true_iff in Hok. destruct Hok as [Horig Hexcl].
      apply N.eqb_eq in Horig.
      pose proof (inv_conn _ I c) as K.
      set (k := st_conn st c) in *.
      constructor; cbn [st_conn st_stat st_log].
      * intros c0. conn_cases c c0; [|apply (inv_conn _ I)].
        constructor; cbn [c_q c_holder c_next c_streams c_dead].
        -- intros Ep s t Hin. rewrite Ep in Hexcl. rewrite tags_app in Hin. apply in_app_or in Hin.
           destruct Hin as [Hin|Hin].
           ++ destruct (c_holder k) eqn:Eh; [discriminate|].
              rewrite (ci_h1 _ _ K Ep _ _ Hin) in Eh. discriminate.
           ++ cbn in Hin. destruct Hin as [E|[]]. inversion E. reflexivity.
        -- intros Ep s t r' Hin Hl. rewrite tags_app in Hin. apply in_app_or in Hin.
           rewrite lookup_cons in Hl. destruct Hin as [Hin|Hin].
           ++ pose proof (ci_fresh _ _ K _ _ Hin) as Hlt.
              destruct (N.eqb_spec (c_next k) s); [lia|].
              apply (ci_h2 _ _ K Ep _ _ _ Hin Hl).
           ++ cbn in Hin. destruct Hin as [E|[]]. inversion E. subst. rewrite N.eqb_refl in Hl.
              inversion Hl. reflexivity.
        -- intros s t Hin. rewrite tags_app in Hin. apply in_app_or in Hin. destruct Hin as [Hin|Hin].
           ++ pose proof (ci_fresh _ _ K _ _ Hin). lia.
           ++ cbn in Hin. destruct Hin as [E|[]]. inversion E. lia.
        -- intros s r0 Hl. rewrite lookup_cons in Hl. destruct (N.eqb_spec (c_next k) s); [lia|].
           pose proof (ci_fresh_st _ _ K _ _ Hl). lia.
        -- intros m Hin. apply in_app_or in Hin. destruct Hin as [Hin|Hin]; [apply (ci_msg _ _ K _ Hin)|].
           cbn in Hin. destruct Hin as [E|[]]. subst m. unfold good_msg. cbn. exists q. auto.
      * intros r0 c0 p Hd. destruct (N.eq_dec r0 r) as [->|Hn].
        -- rewrite upd_same in Hd. discriminate.
        -- rewrite upd_other in Hd by assumption. apply (inv_done _ I _ _ _ Hd).
      * apply (inv_log _ I).
      * intros r0 c0 s0 Hr. destruct (N.eq_dec r0 r) as [->|Hn].
        -- rewrite upd_same in Hr. inversion Hr. subst c0 s0. rewrite upd_same. intros _.
           cbn [c_q c_streams]. split.
           ++ rewrite tags_app. apply in_or_app. right. left. reflexivity.
           ++ intros _. rewrite lookup_cons, N.eqb_refl. reflexivity.
        -- rewrite upd_other in Hr by assumption. pose proof (inv_run _ I _ _ _ Hr) as R.
           conn_cases c c0; [|exact R].
           intros _. fold k in R. destruct (R Ed) as [Hin Hl]. cbn [c_q c_streams]. split.
           ++ rewrite tags_app. apply in_or_app. left. exact Hin.
           ++ intros Ep. rewrite lookup_cons. pose proof (ci_fresh _ _ K _ _ Hin).
              destruct (N.eqb_spec (c_next k) s0); [lia|]. apply Hl. exact Ep.
    + (* rejected by the checks *)
      constructor; cbn [st_conn st_stat st_log].
      * apply (inv_conn _ I).
      * intros r0 c0 p Hd. destruct (N.eq_dec r0 r) as [->|Hn].
        -- rewrite upd_same in Hd. discriminate.
        -- rewrite upd_other in Hd by assumption. apply (inv_done _ I _ _ _ Hd).
      * apply (inv_log _ I).
      * intros r0 c0 s0 Hr. destruct (N.eq_dec r0 r) as [->|Hn].
        -- rewrite upd_same in Hr. discriminate.
        -- rewrite upd_other in Hr by assumption. apply (inv_run _ I _ _ _ Hr).
  - (* EHandle *)
    destruct (c_dead (st_conn st c)) eqn:Ed; [exact I|].
    destruct (handle_q (origin_of g c) (sel (proto_of g c) s) (c_q (st_conn st c))) as [[[r w]|] q'] eqn:Eh; [|exact I].
    pose proof (inv_conn _ I c) as K.
    pose proof (handle_q_tags (origin_of g c) (sel (proto_of g c) s) (c_q (st_conn st c))) as Ht.
    rewrite Eh in Ht. cbn [snd] in Ht.
    destruct (handle_q_some _ _ _ _ _ _ Eh) as [[m0 [Hm0 [Htag Hpay]]] Hnew].
    assert (Hgood : good_req c r w).
    { pose proof (ci_msg _ _ K _ Hm0) as G. unfold good_msg in G. rewrite Hpay, Htag in G. exact G. }
    set (k := st_conn st c) in *.
    constructor; cbn [st_conn st_stat st_log].
    + intros c0. conn_cases c c0; [|apply (inv_conn _ I)].
      constructor; cbn [c_q c_holder c_next c_streams]; rewrite ?Ht.
      * apply (ci_h1 _ _ K).
      * apply (ci_h2 _ _ K).
      * apply (ci_fresh _ _ K).
      * apply (ci_fresh_st _ _ K).
      * intros m Hin. destruct (Hnew m Hin) as [Hold|[A B]]; [apply (ci_msg _ _ K _ Hold)|].
        unfold good_msg. rewrite B, A. destruct Hgood as [q [Q1 [Q2 Q3]]].
        exists q, w. rewrite Q3. auto.
    + apply (inv_done _ I).
    + intros c0 r0 w0 Hin. apply in_app_or in Hin. destruct Hin as [Hin|Hin]; [apply (inv_log _ I _ _ _ Hin)|].
      cbn in Hin. destruct Hin as [E|[]]. inversion E. subst. exact Hgood.
    + intros r0 c0 s0 Hr. pose proof (inv_run _ I _ _ _ Hr) as R.
      conn_cases c c0; [|exact R].
      intros _. cbn [c_q c_streams]. rewrite Ht. apply R. exact Ed.
  - (* EDeliver *)
    destruct (c_dead (st_conn st c)) eqn:Ed; [exact I|].
    destruct (take_resp (proto_of g c) s (c_q (st_conn st c))) as [[[m x]|] q'] eqn:Et; [|exact I].
    pose proof (inv_conn _ I c) as K.
    destruct (take_resp_some _ _ _ _ _ _ Et) as (Hm & Hpay & Hsub & Hsplit & Hsid).
    assert (Htsub : forall s0 t0, In (s0, t0) (tags q') -> In (s0, t0) (tags (c_q (st_conn st c)))).
    { intros s0 t0 Hin. apply tags_in in Hin. destruct Hin as [m' [A B]]. apply tags_in. exists m'. split; [apply Hsub; exact A|exact B]. }
    set (k := st_conn st c) in *.
    assert (Kc : conn_inv c (mkConn false (c_holder k) (c_next k) (remove_sid (m_sid m) (c_streams k)) q')).
    { constructor; cbn [c_q c_holder c_next c_streams].
      - intros Ep s0 t0 Hin. apply (ci_h1 _ _ K Ep s0). apply Htsub. exact Hin.
      - intros Ep s0 t0 r' Hin Hl. apply lookup_remove_some in Hl. apply (ci_h2 _ _ K Ep _ _ _ (Htsub _ _ Hin) Hl).
      - intros s0 t0 Hin. apply (ci_fresh _ _ K _ _ (Htsub _ _ Hin)).
      - intros s0 r0 Hl. apply lookup_remove_some in Hl. apply (ci_fresh_st _ _ K _ _ Hl).
      - intros m' Hin. apply (ci_msg _ _ K). apply Hsub. exact Hin. }
    (* the requests still running on c keep their exchange, unless they are the recipient *)
    assert (Hkeep : forall r0 s0, st_stat st r0 = SRunning c s0 ->
              recipient (proto_of g c) k (m_sid m) <> Some r0 ->
              run_inv c (mkConn false (c_holder k) (c_next k) (remove_sid (m_sid m) (c_streams k)) q') r0 s0).
    { intros r0 s0 Hr Hnot _. destruct (inv_run _ I _ _ _ Hr Ed) as [Hin Hl]. fold k in Hin, Hl.
      cbn [c_q c_streams].
      apply tags_in in Hin. destruct Hin as [m0 [A [B C]]].
      assert (Hm0 : m0 <> m).
      { intros ->. apply Hnot. apply (running_recipient st r0 c s0 I Hr Ed m Hm B C). }
      split.
      - apply tags_in. exists m0. destruct (Hsplit m0 A) as [E|E]; [contradiction|auto].
      - intros Ep. rewrite lookup_remove_neq; [apply Hl; exact Ep|].
        intros E. apply Hnot. unfold recipient. rewrite Ep, <- E. apply Hl. exact Ep. }
    destruct (recipient (proto_of g c) k (m_sid m)) as [r'|] eqn:Erec.
    + destruct (is_running (st_stat st r')) eqn:Erun.
      * (* delivered to r' *)
        assert (Hw : r' = m_tag m) by (apply (recipient_is_writer st c m r' I Hm Erec)).
        constructor; cbn [st_conn st_stat st_log].
        -- intros c0. conn_cases c c0; [exact Kc|apply (inv_conn _ I)].
        -- intros r0 c0 p Hd. destruct (N.eq_dec r0 r') as [->|Hn].
           ++ rewrite upd_same in Hd. inversion Hd. subst c0 p.
              pose proof (ci_msg _ _ K _ Hm) as G. unfold good_msg in G. rewrite Hpay in G. rewrite Hw. exact G.
           ++ rewrite upd_other in Hd by assumption. apply (inv_done _ I _ _ _ Hd).
        -- apply (inv_log _ I).
        -- intros r0 c0 s0 Hr. destruct (N.eq_dec r0 r') as [->|Hn].
           ++ rewrite upd_same in Hr. discriminate.
           ++ rewrite upd_other in Hr by assumption. conn_cases c c0; [|apply (inv_run _ I _ _ _ Hr)].
              apply Hkeep; [exact Hr|]. intros E. inversion E. congruence.
      * constructor; cbn [st_conn st_stat st_log].
        -- intros c0. conn_cases c c0; [exact Kc|apply (inv_conn _ I)].
        -- apply (inv_done _ I).
        -- apply (inv_log _ I).
        -- intros r0 c0 s0 Hr. conn_cases c c0; [|apply (inv_run _ I _ _ _ Hr)].
           apply Hkeep; [exact Hr|]. intros E. inversion E. subst r'. rewrite Hr in Erun. discriminate.
    + constructor; cbn [st_conn st_stat st_log].
      * intros c0. conn_cases c c0; [exact Kc|apply (inv_conn _ I)].
      * apply (inv_done _ I).
      * apply (inv_log _ I).
      * intros r0 c0 s0 Hr. conn_cases c c0; [|apply (inv_run _ I _ _ _ Hr)].
        apply Hkeep; [exact Hr|discriminate].
  - (* ECancel *)
    destruct (st_stat st r) as [|c s|c p| |] eqn:Es; try exact I.
    + constructor; cbn [st_conn st_stat st_log].
      * apply (inv_conn _ I).
      * intros r0 c0 p Hd. destruct (N.eq_dec r0 r) as [->|Hn].
        -- rewrite upd_same in Hd. discriminate.
        -- rewrite upd_other in Hd by assumption. apply (inv_done _ I _ _ _ Hd).
      * apply (inv_log _ I).
      * intros r0 c0 s0 Hr. destruct (N.eq_dec r0 r) as [->|Hn].
        -- rewrite upd_same in Hr. discriminate.
        -- rewrite upd_other in Hr by assumption. apply (inv_run _ I _ _ _ Hr).
    + pose proof (inv_conn _ I c) as K. set (k := st_conn st c) in *.
      constructor; cbn [st_conn st_stat st_log].
      * intros c0. conn_cases c c0; [|apply (inv_conn _ I)].
        destruct (proto_of g c) eqn:Ep.
        -- constructor; cbn [c_q c_holder c_next c_streams];
             [exact (ci_h1 _ _ K)|exact (ci_h2 _ _ K)|exact (ci_fresh _ _ K)|exact (ci_fresh_st _ _ K)|exact (ci_msg _ _ K)].
        -- constructor; cbn [c_q c_holder c_next c_streams];
             [exact (ci_h1 _ _ K)| |exact (ci_fresh _ _ K)| |exact (ci_msg _ _ K)].
           ++ intros _ s0 t0 r' Hin Hl. apply lookup_remove_some in Hl. apply (ci_h2 _ _ K Ep _ _ _ Hin Hl).
           ++ intros s0 r0 Hl. apply lookup_remove_some in Hl. apply (ci_fresh_st _ _ K _ _ Hl).
      * intros r0 c0 p Hd. destruct (N.eq_dec r0 r) as [->|Hn].
        -- rewrite upd_same in Hd. discriminate.
        -- rewrite upd_other in Hd by assumption. apply (inv_done _ I _ _ _ Hd).
      * apply (inv_log _ I).
      * intros r0 c0 s0 Hr. destruct (N.eq_dec r0 r) as [->|Hn].
        -- rewrite upd_same in Hr. discriminate.
        -- rewrite upd_other in Hr by assumption. pose proof (inv_run _ I _ _ _ Hr) as R.
           conn_cases c c0; [|exact R].
           fold k in R. destruct (proto_of g c) eqn:Ep.
           ++ intros Hd. cbn in Hd. discriminate.
           ++ intros Hd. cbn [c_dead] in Hd. destruct (R Hd) as [Hin Hl]. cbn [c_q c_streams]. split; [exact Hin|].
              intros _. specialize (Hl Ep). rewrite lookup_remove_neq; [exact Hl|].
              intros E. subst s0. destruct (inv_run _ I _ _ _ Es Hd) as [_ Hl']. fold k in Hl'.
              rewrite (Hl' Ep) in Hl. inversion Hl. congruence.
  - (* ERelease *)
    destruct (c_dead (st_conn st c)) eqn:Ed; [exact I|].
    pose proof (inv_conn _ I c) as K. set (k := st_conn st c) in *.
    cbn [Model.pool_ok] in Hok.
    constructor; cbn [st_conn st_stat st_log].
    + intros c0. conn_cases c c0; [|apply (inv_conn _ I)].
      constructor; cbn [c_q c_holder c_next c_streams];
        [|exact (ci_h2 _ _ K)|exact (ci_fresh _ _ K)|exact (ci_fresh_st _ _ K)|exact (ci_msg _ _ K)].
      intros Ep s0 t0 Hin. rewrite Ep in Hok. fold k in Hok. destruct (c_q k); [destruct Hin|discriminate].
    + apply (inv_done _ I).
    + apply (inv_log _ I).
    + intros r0 c0 s0 Hr. pose proof (inv_run _ I _ _ _ Hr) as R. conn_cases c c0; [|exact R].
      intros _. cbn [c_q c_streams]. apply R. exact Ed.
  - (* EBreak *)
    pose proof (inv_conn _ I c) as K. set (k := st_conn st c) in *.
    constructor; cbn [st_conn st_stat st_log].
    + intros c0. conn_cases c c0; [|apply (inv_conn _ I)].
      constructor; cbn [c_q c_holder c_next c_streams];
        [exact (ci_h1 _ _ K)|exact (ci_h2 _ _ K)|exact (ci_fresh _ _ K)|exact (ci_fresh_st _ _ K)|exact (ci_msg _ _ K)].
    + apply (inv_done _ I).
    + apply (inv_log _ I).
    + intros r0 c0 s0 Hr. pose proof (inv_run _ I _ _ _ Hr) as R. conn_cases c c0; [|exact R].
      intros Hd. cbn in Hd. discriminate.
Qed.

Lemma inv_run_from st evs : Inv st -> sched_ok_from st evs = true -> Inv (run_from st evs).
Proof.
  revert st. induction evs as [|e t IH]; intros st I H; cbn [Model.run_from fold_left]; [exact I|].
  cbn [Model.sched_ok_from] in H. apply andb_true_iff in H. destruct H as [H1 H2].
  apply IH; [apply inv_step; assumption|exact H2].
Qed.

Theorem inv_reachable evs : sched_ok evs = true -> Inv (run_state evs).
Proof. intros H. apply inv_run_from; [apply inv_init|exact H]. Qed.


(* ------------------------------------------------------------------ matching *)
(* every response a caller receives is the handler's answer to the wire form of its own request,
   produced by the server its URI names *)
Theorem matched_state evs r c p :
  sched_ok evs = true -> st_stat (run_state evs) r = SDone c p -> good_resp c r p.
Proof. intros H Hd. apply (inv_done _ (inv_reachable evs H) _ _ _ Hd). Qed.

Theorem matched evs r p :
  sched_ok evs = true -> In (r, ODone p) (run handler g evs) ->
  exists q c w, req_of g r = Some q /\ wire_request (g_ua g) (proto_of g c) q = Some w
                /\ origin_of g c = q_origin q /\ p = handler (q_origin q) w.
Proof.
  intros H Hin. unfold run in Hin. apply in_map_iff in Hin. destruct Hin as [q0 [E _]].
  assert (E1 : q_id q0 = r) by congruence.
  assert (E2 : outcome_of (run_state evs) (q_id q0) = ODone p) by congruence.
  rewrite E1 in E2. clear E E1. unfold outcome_of in E2.
  destruct (st_stat (run_state evs) r) as [|c s|c p'| |] eqn:Es.
  - discriminate.
  - destruct (c_dead _); discriminate.
  - inversion E2. subst p'.
    destruct (matched_state evs r c p H Es) as [q [w [A [B [C D]]]]]. exists q, c, w. auto.
  - discriminate.
  - discriminate.
Qed.

(* every request a server handler is given is the wire form of a request some caller sent to
   that server *)
Theorem server_saw evs c r w :
  sched_ok evs = true -> In (c, r, w) (st_log (run_state evs)) -> good_req c r w.
Proof. intros H Hin. apply (inv_log _ (inv_reachable evs H) _ _ _ Hin). Qed.

(* ------------------------------------------------------------------ completion *)
Lemma handle_q_h1_head o s q :
  q <> [] -> exists m x t, snd (handle_q o (sel PH1 s) q) = m :: t /\ m_pay m = PResp x.
Proof.
  destruct q as [|m0 t0]; [contradiction|intros _]. cbn [Model.handle_q sel].
  destruct (m_pay m0) eqn:Ep.
  - cbn [snd]. eexists _, _, _. split; [reflexivity|reflexivity].
  - destruct (handle_q o (sel PH1 s) t0) as [r t']. cbn [snd]. exists m0, p, t'. auto.
Qed.

Lemma handle_q_h2_resp o s q :
  (exists m, In m q /\ m_sid m = s) ->
  exists m' x, In m' (snd (handle_q o (sel PH2 s) q)) /\ m_sid m' = s /\ m_pay m' = PResp x.
Proof.
  induction q as [|m0 t0 IH]; intros [m [Hin Hs]]; [destruct Hin|].
  cbn [Model.handle_q]. destruct (N.eq_dec (m_sid m0) s) as [E0|E0].
  - destruct (m_pay m0) eqn:Ep.
    + cbn [sel]. rewrite E0, N.eqb_refl. cbn [snd]. eexists _, _. split; [left; reflexivity|]. cbn. auto.
    + destruct (handle_q o (sel PH2 s) t0) as [r t']. cbn [snd]. exists m0, p. split; [left; reflexivity|auto].
  - assert (Ht : exists m, In m t0 /\ m_sid m = s).
    { destruct Hin as [->|Hin]; [contradiction|eauto]. }
    destruct (IH Ht) as [m' [x [A B]]].
    destruct (m_pay m0) eqn:Ep.
    + cbn [sel]. destruct (N.eqb_spec (m_sid m0) s); [contradiction|].
      destruct (handle_q o (sel PH2 s) t0) as [r t']. cbn [snd] in *. exists m', x. split; [right; exact A|exact B].
    + destruct (handle_q o (sel PH2 s) t0) as [r t']. cbn [snd] in *. exists m', x. split; [right; exact A|exact B].
Qed.

Lemma take_resp_h2_exists s q :
  (exists m x, In m q /\ m_sid m = s /\ m_pay m = PResp x) ->
  exists m x q', take_resp PH2 s q = (Some (m, x), q').
Proof.
  induction q as [|m0 t0 IH]; intros [m [x [Hin [Hs Hp]]]]; [destruct Hin|].
  cbn [take_resp]. destruct (m_pay m0) eqn:Ep.
  - assert (Ht : exists m x, In m t0 /\ m_sid m = s /\ m_pay m = PResp x).
    { destruct Hin as [->|Hin]; [congruence|eauto]. }
    destruct (IH Ht) as [m1 [x1 [q1 E]]]. rewrite E. eauto.
  - destruct (N.eqb_spec (m_sid m0) s); [eauto|].
    assert (Ht : exists m x, In m t0 /\ m_sid m = s /\ m_pay m = PResp x).
    { destruct Hin as [->|Hin]; [contradiction|eauto]. }
    destruct (IH Ht) as [m1 [x1 [q1 E]]]. rewrite E. eauto.
Qed.

Lemma step_handle_facts st c s :
  c_dead (st_conn st c) = false ->
  st_stat (step st (EHandle c s)) = st_stat st
  /\ c_dead (st_conn (step st (EHandle c s)) c) = false
  /\ c_q (st_conn (step st (EHandle c s)) c)
     = snd (handle_q (origin_of g c) (sel (proto_of g c) s) (c_q (st_conn st c))).
Proof.
  intros Hd. cbn [Model.step]. rewrite Hd.
  destruct (handle_q (origin_of g c) (sel (proto_of g c) s) (c_q (st_conn st c))) as [[[r w]|] q'] eqn:E.
  - cbn [st_stat st_conn snd]. rewrite upd_same. cbn. auto.
  - cbn [snd]. apply handle_q_none in E. subst q'. auto.
Qed.

(* a request that is not cancelled, on a connection that is not broken, completes with two further
   steps of its own connection (the server handles, the transport delivers), whatever else is going
   on: progress under fair scheduling *)
Theorem progress st r c s :
  Inv st -> st_stat st r = SRunning c s -> c_dead (st_conn st c) = false ->
  exists p, st_stat (step (step st (EHandle c s)) (EDeliver c s)) r = SDone c p.
Proof.
  intros I Hr Hd.
  destruct (step_handle_facts st c s Hd) as (Hs1 & Hd1 & Hq1).
  assert (I1 : Inv (step st (EHandle c s))) by (apply inv_step; [exact I|reflexivity]).
  set (st1 := step st (EHandle c s)) in *.
  assert (Hr1 : st_stat st1 r = SRunning c s) by (rewrite Hs1; exact Hr).
  destruct (inv_run _ I _ _ _ Hr Hd) as [Hin0 _].
  destruct (inv_run _ I1 _ _ _ Hr1 Hd1) as [Hin1 Hl1].
  cbn [Model.step]. rewrite Hd1.
  destruct (proto_of g c) eqn:Ep.
  - (* HTTP/1 *)
    assert (Hne : c_q (st_conn st c) <> []).
    { intros E. rewrite E in Hin0. destruct Hin0. }
    destruct (handle_q_h1_head (origin_of g c) s _ Hne) as [m [x [t [Eq Hp]]]].
    rewrite <- Hq1 in Eq. rewrite Eq. cbn [take_resp]. rewrite Hp.
    assert (Hh : c_holder (st_conn st1 c) = Some r) by (apply (ci_h1 _ _ (inv_conn _ I1 c) Ep s); exact Hin1).
    unfold recipient. rewrite Hh, Hr1. cbn [is_running st_stat]. rewrite upd_same. eauto.
  - (* HTTP/2 *)
    assert (Hex : exists m, In m (c_q (st_conn st c)) /\ m_sid m = s).
    { apply tags_in in Hin0. destruct Hin0 as [m [A [B _]]]. eauto. }
    destruct (handle_q_h2_resp (origin_of g c) s _ Hex) as [m' [x [A [B C]]]].
    rewrite <- Hq1 in A.
    destruct (take_resp_h2_exists s (c_q (st_conn st1 c))) as [m [x' [q' E]]]; [eauto|].
    rewrite E. destruct (take_resp_some _ _ _ _ _ _ E) as (_ & _ & _ & _ & Hsid).
    unfold recipient. rewrite (Hsid eq_refl), (Hl1 eq_refl), Hr1. cbn [is_running st_stat]. rewrite upd_same. eauto.
Qed.

(* ... and nothing else can take it out of the running state: no spurious failure.  Only its own
   cancellation or the peer breaking its connection end a running request without a response. *)
Theorem running_stable st e r c s :
  Inv st -> pool_ok st e = true -> st_stat st r = SRunning c s -> c_dead (st_conn st c) = false ->
  (st_stat (step st e) r = SRunning c s /\ (c_dead (st_conn (step st e) c) = false \/ e = EBreak c))
  \/ (exists c' p, st_stat (step st e) r = SDone c' p)
  \/ (e = ECancel r /\ st_stat (step st e) r = SCancelled).
Proof.
  intros I Hok Hr Hd.
  assert (Same : st_stat st r = SRunning c s /\ (c_dead (st_conn st c) = false \/ False)) by auto.
  destruct e as [r0 c0|c0 s0|c0 s0|r0|c0|c0]; cbn [Model.step].
  - (* EStart *)
    destruct (st_stat st r0) eqn:Es0; try solve [left; split; [exact Hr|left; exact Hd]].
    destruct (req_of g r0); [|left; split; [exact Hr|left; exact Hd]].
    destruct (c_dead (st_conn st c0)) eqn:Ed0; [left; split; [exact Hr|left; exact Hd]|].
    assert (Hn : r <> r0) by (intros ->; congruence).
    destruct (wire_request (g_ua g) (proto_of g c0)); left; cbn [st_stat st_conn]; rewrite upd_other by assumption.
    + split; [exact Hr|left]. destruct (N.eq_dec c c0) as [->|Hc]; [rewrite upd_same; reflexivity|rewrite upd_other by assumption; exact Hd].
    + split; [exact Hr|left; exact Hd].
  - (* EHandle *)
    destruct (c_dead (st_conn st c0)) eqn:Ed0; [left; split; [exact Hr|left; exact Hd]|].
    destruct (handle_q _ _ _) as [[[r1 w1]|] q']; left; [|split; [exact Hr|left; exact Hd]].
    cbn [st_stat st_conn]. split; [exact Hr|left].
    destruct (N.eq_dec c c0) as [->|Hc]; [rewrite upd_same; reflexivity|rewrite upd_other by assumption; exact Hd].
  - (* EDeliver *)
    destruct (c_dead (st_conn st c0)) eqn:Ed0; [left; split; [exact Hr|left; exact Hd]|].
    destruct (take_resp _ _ _) as [[[m x]|] q']; [|left; split; [exact Hr|left; exact Hd]].
    assert (Hdead : forall k', c_dead k' = false -> c_dead (upd (st_conn st) c0 k' c) = false).
    { intros k' Hk. destruct (N.eq_dec c c0) as [->|Hc]; [rewrite upd_same; exact Hk|rewrite upd_other by assumption; exact Hd]. }
    destruct (recipient _ _ _) as [r'|].
    + destruct (is_running (st_stat st r')).
      * cbn [st_stat st_conn]. destruct (N.eq_dec r r') as [->|Hn].
        -- right. left. rewrite upd_same. eauto.
        -- left. rewrite upd_other by assumption. split; [exact Hr|left; apply Hdead; reflexivity].
      * left. cbn [st_stat st_conn]. split; [exact Hr|left; apply Hdead; reflexivity].
    + left. cbn [st_stat st_conn]. split; [exact Hr|left; apply Hdead; reflexivity].
  - (* ECancel *)
    destruct (N.eq_dec r0 r) as [->|Hn].
    + right. right. rewrite Hr. cbn [st_stat]. rewrite upd_same. auto.
    + destruct (st_stat st r0) as [|c1 s1|c1 p1| |] eqn:Es0; try solve [left; split; [exact Hr|left; exact Hd]].
      * left. cbn [st_stat st_conn]. rewrite upd_other by auto. split; [exact Hr|left; exact Hd].
      * left. cbn [st_stat st_conn]. rewrite upd_other by auto. split; [exact Hr|left].
        destruct (N.eq_dec c c1) as [->|Hc]; [rewrite upd_same|rewrite upd_other by assumption; exact Hd].
        destruct (proto_of g c1) eqn:Ep; cbn [c_dead]; [|exact Hd].
        (* both would hold the same HTTP/1 connection *)
        exfalso. destruct (inv_run _ I _ _ _ Hr Hd) as [A _]. destruct (inv_run _ I _ _ _ Es0 Hd) as [B _].
        pose proof (ci_h1 _ _ (inv_conn _ I c1) Ep _ _ A) as HA.
        pose proof (ci_h1 _ _ (inv_conn _ I c1) Ep _ _ B) as HB. rewrite HA in HB. inversion HB. auto.
  - (* ERelease *)
    destruct (c_dead (st_conn st c0)) eqn:Ed0; [left; split; [exact Hr|left; exact Hd]|].
    left. cbn [st_stat st_conn]. split; [exact Hr|left].
    destruct (N.eq_dec c c0) as [->|Hc]; [rewrite upd_same; reflexivity|rewrite upd_other by assumption; exact Hd].
  - (* EBreak *)
    left. cbn [st_stat st_conn]. split; [exact Hr|].
    destruct (N.eq_dec c c0) as [->|Hc]; [right; reflexivity|left; rewrite upd_other by assumption; exact Hd].
Qed.

Lemma run_from_app st (a b : list event) : run_from st (a ++ b)%list = run_from (run_from st a) b.
Proof. unfold Model.run_from. apply fold_left_app. Qed.

Lemma sched_ok_from_app st (a b : list event) :
  sched_ok_from st (a ++ b)%list = sched_ok_from st a && sched_ok_from (run_from st a) b.
Proof.
  revert st. induction a as [|e t IH]; intros st; cbn [app Model.sched_ok_from Model.run_from fold_left]; [reflexivity|].
  rewrite IH, andb_assoc. reflexivity.
Qed.

(* the completion clause, on schedules: extend any admissible schedule in which r is pending by the
   two steps of r's own connection; the result is admissible and r has received exactly the
   handler's answer to its own wire request *)
Theorem completes evs r c s :
  sched_ok evs = true ->
  st_stat (run_state evs) r = SRunning c s -> c_dead (st_conn (run_state evs) c) = false ->
  let evs' := (evs ++ [EHandle c s; EDeliver c s])%list in
  sched_ok evs' = true /\
  exists q w, req_of g r = Some q /\ wire_request (g_ua g) (proto_of g c) q = Some w
              /\ origin_of g c = q_origin q
              /\ outcome_of (run_state evs') r = ODone (handler (q_origin q) w).
Proof.
  intros H Hr Hd evs'. assert (Hok : sched_ok evs' = true).
  { unfold evs', Model.sched_ok. rewrite sched_ok_from_app. fold (sched_ok evs). rewrite H. reflexivity. }
  split; [exact Hok|].
  destruct (progress _ r c s (inv_reachable evs H) Hr Hd) as [p Hp].
  assert (E : st_stat (run_state evs') r = SDone c p).
  { unfold evs', Model.run_state. rewrite run_from_app. exact Hp. }
  destruct (matched_state evs' r c p Hok E) as [q [w [A [B [C D]]]]].
  exists q, w. unfold outcome_of. rewrite E, D. auto.
Qed.

(* ------------------------------------------------------------------ drain *)
Lemma done_stable st e r c p : st_stat st r = SDone c p -> st_stat (step st e) r = SDone c p.
Proof.
  intros Hd. destruct e as [r0 c0|c0 s0|c0 s0|r0|c0|c0]; cbn [Model.step].
  - destruct (st_stat st r0) as [|c1 s1|c1 p1| |] eqn:Es0; try exact Hd.
    destruct (req_of g r0); [|exact Hd]. destruct (c_dead (st_conn st c0)); [exact Hd|].
    assert (r <> r0) by (intros ->; congruence).
    destruct (wire_request (g_ua g) (proto_of g c0)); cbn [st_stat]; rewrite upd_other by assumption; exact Hd.
  - destruct (c_dead (st_conn st c0)); [exact Hd|]. destruct (handle_q _ _ _) as [[[r1 w1]|] q']; exact Hd.
  - destruct (c_dead (st_conn st c0)); [exact Hd|]. destruct (take_resp _ _ _) as [[[m x]|] q']; [|exact Hd].
    destruct (recipient _ _ _) as [r'|]; [|exact Hd].
    destruct (is_running (st_stat st r')) eqn:Er; [|exact Hd].
    cbn [st_stat]. rewrite upd_other; [exact Hd|]. intros ->. rewrite Hd in Er. discriminate.
  - destruct (st_stat st r0) as [|c1 s1|c1 p1| |] eqn:Es0; try exact Hd.
    + cbn [st_stat]. rewrite upd_other; [exact Hd|intros ->; congruence].
    + cbn [st_stat]. rewrite upd_other; [exact Hd|intros ->; congruence].
  - destruct (c_dead (st_conn st c0)); exact Hd.
  - exact Hd.
Qed.

Lemma done_stable_run evs : forall st r c p, st_stat st r = SDone c p -> st_stat (run_from st evs) r = SDone c p.
Proof.
  induction evs as [|e t IH]; intros st r c p H; cbn [Model.run_from fold_left]; [exact H|].
  apply IH. apply done_stable. exact H.
Qed.

(* the environment finishes its work: for every request running in [st] the server handles it and
   the transport delivers the response *)
Definition drain_for (st0 : state) (l : list ereq) : list event :=
  flat_map (fun q => match st_stat st0 (q_id q) with
                     | SRunning c s => [EHandle c s; EDeliver c s]
                     | _ => []
                     end) l.
Definition drain_events (st : state) : list event := drain_for st (g_reqs g).

Definition settled (st0 st : state) : Prop :=
  forall r c s, st_stat st0 r = SRunning c s -> c_dead (st_conn st0 c) = false ->
    (st_stat st r = SRunning c s /\ c_dead (st_conn st c) = false)
    \/ (exists c' p, st_stat st r = SDone c' p).

Definition quiet (e : event) : Prop := exists c s, e = EHandle c s \/ e = EDeliver c s.

Lemma quiet_step st0 st e :
  Inv st -> settled st0 st -> quiet e -> Inv (step st e) /\ settled st0 (step st e).
Proof.
  intros I S [c0 [s0 Q]].
  assert (Hok : pool_ok st e = true) by (destruct Q as [-> | ->]; reflexivity).
  split; [apply inv_step; assumption|].
  intros r c s Hr Hd. destruct (S r c s Hr Hd) as [[Hr' Hd']|[c' [p Hp]]].
  - destruct (running_stable st e r c s I Hok Hr' Hd') as [[A [B|B]]|[[c' [p Hp]]|[B _]]].
    + left. auto.
    + destruct Q as [-> | ->]; discriminate.
    + right. eauto.
    + destruct Q as [-> | ->]; discriminate.
  - right. exists c', p. apply done_stable. exact Hp.
Qed.

Lemma drain_for_spec st0 l : forall st,
  Inv st -> settled st0 st ->
  Inv (run_from st (drain_for st0 l)) /\ settled st0 (run_from st (drain_for st0 l)) /\
  forall q c s, In q l -> st_stat st0 (q_id q) = SRunning c s -> c_dead (st_conn st0 c) = false ->
    exists c' p, st_stat (run_from st (drain_for st0 l)) (q_id q) = SDone c' p.
Proof.
  induction l as [|q0 t IH]; intros st I S.
  - cbn [drain_for flat_map Model.run_from fold_left]. split; [exact I|]. split; [exact S|]. intros q c s [].
  - unfold drain_for. cbn [flat_map]. fold (drain_for st0 t). rewrite run_from_app.
    set (e0 := match st_stat st0 (q_id q0) with SRunning c s => [EHandle c s; EDeliver c s] | _ => [] end).
    assert (H1 : Inv (run_from st e0) /\ settled st0 (run_from st e0) /\
                 forall c s, st_stat st0 (q_id q0) = SRunning c s -> c_dead (st_conn st0 c) = false ->
                   exists c' p, st_stat (run_from st e0) (q_id q0) = SDone c' p).
    { unfold e0. destruct (st_stat st0 (q_id q0)) as [|c s|c p| |] eqn:E0;
        try (cbn [Model.run_from fold_left]; split; [exact I|]; split; [exact S|]; intros; discriminate).
      cbn [Model.run_from fold_left].
      destruct (quiet_step st0 st (EHandle c s) I S) as [I1 S1]; [exists c, s; auto|].
      destruct (quiet_step st0 _ (EDeliver c s) I1 S1) as [I2 S2]; [exists c, s; auto|].
      split; [exact I2|]. split; [exact S2|]. intros c1 s1 E1 Hd. inversion E1. subst c1 s1.
      destruct (S (q_id q0) c s E0 Hd) as [[Hr' Hd']|[c' [p Hp]]].
      - destruct (progress st (q_id q0) c s I Hr' Hd') as [p Hp]. eauto.
      - exists c', p. apply done_stable, done_stable. exact Hp. }
    destruct H1 as (I1 & S1 & D1).
    destruct (IH _ I1 S1) as (I2 & S2 & D2). split; [exact I2|]. split; [exact S2|].
    intros q c s [->|Hin] Hr Hd.
    + destruct (D1 c s Hr Hd) as [c' [p Hp]]. exists c', p. apply done_stable_run. exact Hp.
    + apply (D2 q c s Hin Hr Hd).
Qed.

(* after the drain every request that was running on a live connection has its response, and it
   is the right one *)
Theorem drain_completes evs :
  sched_ok evs = true ->
  let st := run_state evs in
  let st' := run_from st (drain_events st) in
  Inv st' /\
  forall q c s, In q (g_reqs g) -> st_stat st (q_id q) = SRunning c s -> c_dead (st_conn st c) = false ->
    exists c' p, st_stat st' (q_id q) = SDone c' p /\ good_resp c' (q_id q) p.
Proof.
  intros H st st'. pose proof (inv_reachable evs H) as I. fold st in I.
  assert (S : settled st st) by (intros r c s Hr Hd; left; auto).
  destruct (drain_for_spec st (g_reqs g) st I S) as (I' & _ & D). split; [exact I'|].
  intros q c s Hin Hr Hd. destruct (D q c s Hin Hr Hd) as [c' [p Hp]]. exists c', p. split; [exact Hp|].
  apply (inv_done _ I' _ _ _ Hp).
Qed.

End Proofs.

(* ------------------------------------------------------------------ request preservation *)
Lemma list_eqb_eq {A} (eqb : A -> A -> bool) :
  (forall x y, eqb x y = true -> x = y) -> forall a b, list_eqb eqb a b = true -> a = b.
Proof.
  intros H. induction a as [|x t IH]; destruct b as [|y u]; cbn; intros E; try discriminate; [reflexivity|].
  apply andb_true_iff in E. destruct E as [E1 E2]. f_equal; [apply H; exact E1|apply IH; exact E2].
Qed.

Lemma hdr_eqb_eq a b : hdr_eqb a b = true -> a = b.
Proof.
  destruct a, b. unfold hdr_eqb. cbn. intros E. apply andb_true_iff in E. destruct E as [E1 E2].
  apply String.eqb_eq in E1, E2. subst. reflexivity.
Qed.

Lemma ostr_eqb_eq a b : ostr_eqb a b = true -> a = b.
Proof.
  destruct a, b; cbn; intros E; try discriminate; [apply String.eqb_eq in E; subst|]; reflexivity.
Qed.

Lemma without_cons a l hs : without (a :: l) hs = without [a] (without l hs).
Proof.
  unfold without. rewrite filter_filter. apply filter_ext_in'. intros h. cbn [existsb].
  rewrite orb_false_r, negb_orb, andb_comm. reflexivity.
Qed.

Lemma values_of_without n names hs :
  existsb (String.eqb n) names = false -> values_of n (without names hs) = values_of n hs.
Proof.
  intros H. unfold values_of, without. rewrite filter_filter. f_equal. apply filter_ext_in'. intros h.
  destruct (String.eqb_spec (fst h) n) as [E|E]; [|apply andb_false_r].
  rewrite E, H. reflexivity.
Qed.

Lemma add_ua_fields ua r :
  r_method (add_user_agent ua r) = r_method r /\ r_uri (add_user_agent ua r) = r_uri r.
Proof. unfold add_user_agent. destruct (has_header "user-agent" (r_headers r)); auto. Qed.

Lemma add_ua_without ua r names :
  existsb (String.eqb "user-agent") names = true ->
  without names (r_headers (add_user_agent ua r)) = without names (r_headers r).
Proof.
  intros H. unfold add_user_agent. destruct (has_header "user-agent" (r_headers r)); [reflexivity|].
  cbn [r_headers]. apply without_insert. exact H.
Qed.

Lemma add_ua_values_other ua r n :
  String.eqb "user-agent" n = false ->
  values_of n (r_headers (add_user_agent ua r)) = values_of n (r_headers r).
Proof.
  intros H. unfold add_user_agent. destruct (has_header "user-agent" (r_headers r)); [reflexivity|].
  cbn [r_headers]. apply values_of_insert_other. exact H.
Qed.

Lemma add_ua_given ua r :
  values_of "user-agent" (r_headers r) <> [] -> add_user_agent ua r = r.
Proof.
  intros H. unfold add_user_agent. destruct (has_header "user-agent" (r_headers r)) eqn:E; [reflexivity|].
  apply has_header_values in E. contradiction.
Qed.

Ltac split_andb :=
  repeat match goal with
         | H : _ && _ = true |- _ => apply andb_true_iff in H; destruct H
         end.

(* the wire form of a request carries the caller's method, path, query, headers (up to the
   documented rewriting) and body; its version is the connection's *)
Theorem request_preserved ua p q w :
  e2e_req_ok q = true -> wire_request ua p q = Some w ->
  head_ok q w = true /\ w_body w = q_body q /\ w_version w = wire_version p
  /\ w_method w = r_method (q_req q) /\ w_path w = u_path (r_uri (q_req q))
  /\ w_query w = u_query (r_uri (q_req q))
  /\ without (ign p) (w_headers w) = without (ign p) (r_headers (q_req q)).
Proof.
  intros Hok Hw. unfold e2e_req_ok in Hok. cbv zeta in Hok.
  apply andb_true_iff in Hok. destruct Hok as [Hok Hsa]. apply andb_true_iff in Hok. destruct Hok as [Hwf Hnc].
  apply negb_true_iff in Hnc.
  set (r0 := q_req q) in *.
  destruct (u_scheme (r_uri r0)) as [sc|] eqn:Esc; [|discriminate].
  destruct (u_auth (r_uri r0)) as [au|] eqn:Eau; [|discriminate].
  assert (Hpath : String.eqb (u_path (r_uri r0)) "" = false).
  { unfold uri_wf_b in Hwf. rewrite Esc in Hwf. apply andb_true_iff in Hwf. destruct Hwf as [_ W].
    apply andb_true_iff in W. destruct W as [W _]. apply negb_true_iff in W. exact W. }
  unfold wire_request in Hw. fold r0 in Hw.
  set (r1 := add_user_agent ua r0) in *.
  destruct (add_ua_fields ua r0) as [Hm1 Hu1]. fold r1 in Hm1, Hu1.
  assert (Hwf1 : uri_wf_b (r_uri r1) = true) by (rewrite Hu1; exact Hwf).
  pose proof (layers_mon p r1 Hwf1) as HM.
  destruct (layers p r1) as [r'| | |] eqn:EL; try discriminate.
  inversion Hw. subst w. clear Hw. cbn [w_body w_version w_method w_path w_query w_headers].
  unfold mon_C13 in HM. cbv zeta in HM. rewrite Hm1, Hu1, Hnc in HM.
  destruct p.
  - (* HTTP/1 connection *)
    cbv beta iota in HM. rewrite Esc, Eau in HM. split_andb.
    match goal with H : String.eqb (r_method r') _ = true |- _ => apply String.eqb_eq in H; rename H into Hmeth end.
    match goal with H : String.eqb (u_path (r_uri r')) _ = true |- _ => apply String.eqb_eq in H; rename H into Hp end.
    match goal with H : ostr_eqb (u_query (r_uri r')) _ = true |- _ => apply ostr_eqb_eq in H; rename H into Hq end.
    match goal with H : list_eqb hdr_eqb _ _ = true |- _ => apply (list_eqb_eq hdr_eqb hdr_eqb_eq) in H; rename H into Hrest end.
    rewrite Hpath in Hp.
    assert (Hign : without (ign PH1) (r_headers r') = without (ign PH1) (r_headers r0)).
    { unfold ign. rewrite (without_cons "user-agent" ["host"]), Hrest, <- (without_cons "user-agent" ["host"]).
      apply add_ua_without. reflexivity. }
    repeat split; auto.
    unfold head_ok. fold r0. cbn [class_of w_version wire_version w_method w_path w_query w_headers].
    rewrite Hmeth, Hp, Hq, Hpath, Hign, !String.eqb_refl, ostr_eqb_refl, (list_eqb_refl hdr_eqb _ hdr_eqb_refl).
    cbn [andb].
    pose proof (add_ua_values_other ua r0 "host" eq_refl) as Hvh. fold r1 in Hvh. rewrite Hvh in *.
    match goal with H : match values_of "host" (r_headers r0) with _ => _ end = true |- _ => rewrite H end.
    cbn [andb].
    destruct (values_of "user-agent" (r_headers r0)) as [|v0 vs] eqn:Eua; [reflexivity|].
    assert (Er1 : r1 = r0) by (apply add_ua_given; rewrite Eua; discriminate).
    rewrite <- Eua, <- (values_of_without "user-agent" ["host"] (r_headers r0)) by reflexivity.
    rewrite <- Er1, <- Hrest, values_of_without by reflexivity.
    apply list_eqb_refl, String.eqb_refl.
  - (* HTTP/2 connection *)
    cbv beta iota in HM. split_andb.
    match goal with H : String.eqb (r_method r') _ = true |- _ => apply String.eqb_eq in H; rename H into Hmeth end.
    match goal with H : uri_eqb _ _ = true |- _ => unfold uri_eqb in H; rename H into Hu end.
    split_andb.
    match goal with H : String.eqb (u_path (r_uri r')) _ = true |- _ => apply String.eqb_eq in H; rename H into Hp end.
    match goal with H : ostr_eqb (u_query (r_uri r')) _ = true |- _ => apply ostr_eqb_eq in H; rename H into Hq end.
    match goal with H : list_eqb hdr_eqb _ _ = true |- _ => apply (list_eqb_eq hdr_eqb hdr_eqb_eq) in H; rename H into Hrest end.
    assert (Hign : without (ign PH2) (r_headers r') = without (ign PH2) (r_headers r0)).
    { unfold ign. rewrite (without_cons "user-agent" h2_illegal), Hrest, <- (without_cons "user-agent" h2_illegal).
      apply add_ua_without. reflexivity. }
    repeat split; auto.
    unfold head_ok. fold r0. cbn [class_of w_version wire_version w_method w_path w_query w_headers].
    rewrite Hmeth, Hp, Hq, Hpath, Hign, !String.eqb_refl, ostr_eqb_refl, (list_eqb_refl hdr_eqb _ hdr_eqb_refl).
    cbn [andb].
    destruct (values_of "user-agent" (r_headers r0)) as [|v0 vs] eqn:Eua; [reflexivity|].
    assert (Er1 : r1 = r0) by (apply add_ua_given; rewrite Eua; discriminate).
    rewrite <- Eua, <- (values_of_without "user-agent" h2_illegal (r_headers r0)) by reflexivity.
    rewrite <- Er1, <- Hrest, values_of_without by reflexivity.
    apply list_eqb_refl, String.eqb_refl.
Qed.

(* requests of the class the property speaks about are never rejected by the checks *)
Lemma wire_request_some ua p q : e2e_req_ok q = true -> exists w, wire_request ua p q = Some w.
Proof.
  intros Hok. unfold e2e_req_ok in Hok. cbv zeta in Hok.
  apply andb_true_iff in Hok. destruct Hok as [Hok Hsa]. apply andb_true_iff in Hok. destruct Hok as [_ Hnc].
  apply negb_true_iff in Hnc.
  destruct (add_ua_fields ua (q_req q)) as [Hm1 Hu1].
  unfold wire_request, layers.
  destruct p; cbn [check_http2].
  - unfold check_http1.
    assert (Hm : r_method (set_host_header (add_user_agent ua (q_req q))) = r_method (q_req q)
                 /\ r_uri (set_host_header (add_user_agent ua (q_req q))) = r_uri (q_req q)).
    { unfold set_host_header. destruct (u_host _); [destruct (has_header _ _)|]; cbn [r_method r_uri]; auto. }
    destruct Hm as [Hm Hu]. rewrite Hm, Hu, Hnc.
    destruct (u_scheme (r_uri (q_req q))); [|discriminate]. destruct (u_auth (r_uri (q_req q))); [|discriminate]. eauto.
  - rewrite Hm1, Hnc. cbn [check_http1]. eauto.
Qed.

(* ------------------------------------------------------------------ the monitor accepts what the theorems describe *)
Lemma wreq_eqb_refl w : wreq_eqb w w = true.
Proof.
  unfold wreq_eqb, body_eqb. rewrite !String.eqb_refl, ostr_eqb_refl, (list_eqb_refl hdr_eqb _ hdr_eqb_refl),
    (list_eqb_refl N.eqb _ N.eqb_refl). destruct (w_version w); reflexivity.
Qed.

Lemma resp_eqb_refl p : resp_eqb p p = true.
Proof. unfold resp_eqb. rewrite N.eqb_refl, (list_eqb_refl hdr_eqb _ hdr_eqb_refl), wreq_eqb_refl. reflexivity. Qed.

(* a completed exchange as characterised by [matched], [server_saw] and [request_preserved] *)
Theorem monitor_accepts_completed handler ua p q w :
  e2e_req_ok q = true -> wire_request ua p q = Some w ->
  mon_triple handler (mkTriple q false false (Some (w, true)) (IOk (handler (q_origin q) w))) = true.
Proof.
  intros Hok Hw. destruct (request_preserved ua p q w Hok Hw) as (Hh & Hb & _).
  unfold mon_triple. cbn [t_req t_saw t_out t_cancelled t_broken]. rewrite Hh, Hb, resp_eqb_refl.
  unfold body_eqb. rewrite (list_eqb_refl N.eqb _ N.eqb_refl). reflexivity.
Qed.

(* a cancelled request: whatever the server had been given of it by then carries the caller's head *)
Theorem monitor_accepts_cancelled handler ua p q w complete :
  e2e_req_ok q = true -> wire_request ua p q = Some w ->
  mon_triple handler (mkTriple q true false None ICancelled) = true
  /\ mon_triple handler (mkTriple q true false (Some (w, complete)) ICancelled) = true.
Proof.
  intros Hok Hw. destruct (request_preserved ua p q w Hok Hw) as (Hh & Hb & _).
  unfold mon_triple. cbn [t_req t_saw t_out t_cancelled t_broken]. split; [reflexivity|].
  rewrite Hh, Hb. unfold body_eqb. rewrite (list_eqb_refl N.eqb _ N.eqb_refl), orb_true_r. reflexivity.
Qed.

(* ------------------------------------------------------------------ the hypotheses carry the result *)
(* Two requests on one HTTP/1 connection.  (1) the second is given the connection while the first
   still holds it (exclusivity violated); (2) the first one's handle is returned to the pool and
   handed on while its exchange is still in flight (ready-before-reuse violated).  In both the
   model delivers the answer to request 1 to the caller of request 2: cross-talk is expressible,
   and it is exactly [pool_ok] that excludes it. *)
Definition xq (id : N) (path : string) : ereq :=
  mkEreq id 0 (mkReq "GET" V11 (mkUri (Some "http") (Some "o0.test") (Some "o0.test") None (Some path) path None)
                     [("x-id", path)]) [].
Definition xg : cfg := mkCfg "ua" [xq 1 "/r/1"; xq 2 "/r/2"] [(0%N, (PH1, 0%N))].
Definition x_excl : list event := [EStart 1 0; EHandle 0 0; EStart 2 0; EDeliver 0 0]%N.
Definition x_ready : list event := [EStart 1 0; EHandle 0 0; ERelease 0; EStart 2 0; EDeliver 0 0]%N.

Lemma crosstalk_witness :
  exists w1 w2,
    wire_request "ua" PH1 (xq 1 "/r/1") = Some w1 /\ wire_request "ua" PH1 (xq 2 "/r/2") = Some w2
    /\ echo_handler 0 w1 <> echo_handler 0 w2
    /\ sched_ok echo_handler xg x_excl = false
    /\ In (2%N, ODone (echo_handler 0 w1)) (run echo_handler xg x_excl)
    /\ sched_ok echo_handler xg x_ready = false
    /\ In (2%N, ODone (echo_handler 0 w1)) (run echo_handler xg x_ready).
Proof.
  eexists. eexists. split; [vm_compute; reflexivity|]. split; [vm_compute; reflexivity|].
  split; [vm_compute; discriminate|].
  split; [vm_compute; reflexivity|]. split; [vm_compute; right; left; reflexivity|].
  split; [vm_compute; reflexivity|]. vm_compute; right; left; reflexivity.
Qed.

(* the same two requests under an admissible schedule (sequential reuse of the connection) *)
Definition x_good : list event :=
  [EStart 1 0; EHandle 0 0; EDeliver 0 0; ERelease 0; EStart 2 0; EHandle 0 1; EDeliver 0 1; ERelease 0]%N.
