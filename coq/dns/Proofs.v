From HD Require Import common.Base dns.Model dns.Spec.
From Coq Require Import Permutation.

Fixpoint idx_of (f : fam) (l : list addr) : option nat :=
  match l with
  | [] => None
  | a :: t => if is_fam f a then Some 0 else option_map S (idx_of f t)
  end.

Definition orelse {A} (a b : option A) : option A := match a with Some _ => a | None => b end.

Lemma is_fam_V4 a : is_fam V4 a = match a_fam a with V4 => true | V6 => false end.
Proof. unfold is_fam; destruct (a_fam a); reflexivity. Qed.
Lemma is_fam_V6 a : is_fam V6 a = match a_fam a with V6 => true | V4 => false end.
Proof. unfold is_fam; destruct (a_fam a); reflexivity. Qed.

Lemma is_fam_other f a : is_fam (other f) a = negb (is_fam f a).
Proof. unfold is_fam; destruct f, (a_fam a); reflexivity. Qed.

Lemma option_map_add_S idx (o : option nat) :
  option_map (fun i => i + S idx) o = option_map (fun i => i + idx) (option_map S o).
Proof. destruct o; cbn; [f_equal; lia | reflexivity]. Qed.

Lemma scan_spec l : forall idx v4 v6,
  scan l idx v4 v6 =
  (orelse v4 (option_map (fun i => i + idx) (idx_of V4 l)),
   orelse v6 (option_map (fun i => i + idx) (idx_of V6 l))).
Proof.
  induction l as [|a t IH]; intros idx v4 v6; cbn [scan idx_of].
  - destruct v4, v6; reflexivity.
  - rewrite is_fam_V4, is_fam_V6.
    destruct (a_fam a) eqn:Hf, v4 as [i4|], v6 as [i6|]; cbn [orelse option_map];
      try reflexivity; rewrite ?IH; cbn [orelse option_map];
      rewrite ?option_map_add_S; reflexivity.
Qed.

Lemma scan_top l : scan l 0 None None = (idx_of V4 l, idx_of V6 l).
Proof.
  rewrite scan_spec; cbn [orelse].
  assert (H : forall o : option nat, option_map (fun i => i + 0) o = o).
  { intros [n|]; cbn; [f_equal; lia | reflexivity]. }
  rewrite !H; reflexivity.
Qed.

Lemma remove_at_idx f l : forall i, idx_of f l = Some i ->
  remove_at i l = (find (is_fam f) l, remove_first f l).
Proof.
  induction l as [|a t IH]; intros i H; cbn [idx_of] in H; [discriminate|].
  cbn [find remove_first]. destruct (is_fam f a) eqn:Ha.
  - injection H as <-. reflexivity.
  - destruct (idx_of f t) as [j|] eqn:Hj; cbn in H; [|discriminate].
    injection H as <-. cbn [remove_at]. rewrite (IH j eq_refl). reflexivity.
Qed.

Lemma idx_of_none_find f l : idx_of f l = None -> find (is_fam f) l = None /\ remove_first f l = l.
Proof.
  induction l as [|a t IH]; cbn [idx_of find remove_first]; [auto|].
  destruct (is_fam f a); [discriminate|].
  destruct (idx_of f t); cbn; [discriminate|]. intros _.
  destruct (IH eq_refl) as [-> ->]; auto.
Qed.

Lemma find_remove_first_other f l :
  find (is_fam f) (remove_first (other f) l) = find (is_fam f) l.
Proof.
  induction l as [|a t IH]; cbn [find remove_first]; [reflexivity|].
  rewrite is_fam_other. destruct (is_fam f a) eqn:Ha; cbn [negb find].
  - rewrite Ha; reflexivity.
  - exact eq_refl.
Qed.

Lemma other_other f : other (other f) = f.
Proof. destruct f; reflexivity. Qed.

Lemma find_remove_first_other' f l :
  find (is_fam (other f)) (remove_first f l) = find (is_fam (other f)) l.
Proof. rewrite <- (other_other f) at 2. apply find_remove_first_other. Qed.

Lemma remove_first_comm f l :
  remove_first f (remove_first (other f) l) = remove_first (other f) (remove_first f l).
Proof.
  induction l as [|a t IH]; cbn [remove_first]; [reflexivity|].
  rewrite is_fam_other. destruct (is_fam f a) eqn:Ha; cbn [negb remove_first].
  - rewrite Ha. reflexivity.
  - rewrite is_fam_other, Ha; cbn [negb]. reflexivity.
Qed.

(* removing the first element of the other family does not move an earlier element *)
Lemma idx_of_remove_first_lt f l : forall i j,
  idx_of f l = Some i -> idx_of (other f) l = Some j -> i < j ->
  idx_of f (remove_first (other f) l) = Some i.
Proof.
  induction l as [|a t IH]; intros i j Hi Hj Hlt; cbn [idx_of] in *; [discriminate|].
  cbn [remove_first]. rewrite is_fam_other in *.
  destruct (is_fam f a) eqn:Ha; cbn [negb] in *.
  - cbn [idx_of]. rewrite Ha. exact Hi.
  - injection Hj as <-. lia.
Qed.

Lemma idx_neq f l i j : idx_of f l = Some i -> idx_of (other f) l = Some j -> i <> j.
Proof.
  revert i j; induction l as [|a t IH]; intros i j Hi Hj; cbn [idx_of] in *; [discriminate|].
  rewrite is_fam_other in Hj. destruct (is_fam f a); cbn [negb] in *.
  - injection Hi as <-. destruct (idx_of (other f) t); cbn in Hj; [injection Hj as <-; lia|discriminate].
  - injection Hj as <-. destruct (idx_of f t); cbn in Hi; [injection Hi as <-; lia|discriminate].
Qed.

Lemma frf46 l : find (is_fam V6) (remove_first V4 l) = find (is_fam V6) l.
Proof. exact (find_remove_first_other V6 l). Qed.
Lemma frf64 l : find (is_fam V4) (remove_first V6 l) = find (is_fam V4) l.
Proof. exact (find_remove_first_other V4 l). Qed.
Lemma rf_comm l : remove_first V4 (remove_first V6 l) = remove_first V6 (remove_first V4 l).
Proof. exact (remove_first_comm V4 l). Qed.

(* The two removals of the code, whichever order it picks, compute the first element of each
   family and the list with those two removed. *)
Lemma removals l :
  let '(v4i, v6i) := (idx_of V4 l, idx_of V6 l) in
  (if gt_both v4i v6i then
      let '(v4, l1) := remove_opt v4i l in
      let '(v6, l2) := remove_opt v6i l1 in (v4, v6, l2)
    else
      let '(v6, l1) := remove_opt v6i l in
      let '(v4, l2) := remove_opt v4i l1 in (v4, v6, l2))
  = (find (is_fam V4) l, find (is_fam V6) l, remove_first V4 (remove_first V6 l)).
Proof.
  destruct (idx_of V4 l) as [i4|] eqn:H4, (idx_of V6 l) as [i6|] eqn:H6; cbn [gt_both].
  - pose proof (idx_neq V4 l i4 i6 H4 H6) as Hne.
    destruct (Nat.ltb_spec i6 i4) as [Hlt|Hge]; cbn [remove_opt].
    + rewrite (remove_at_idx V4 l i4 H4).
      pose proof (idx_of_remove_first_lt V6 l i6 i4 H6 H4 Hlt) as H6'. cbn [other] in H6'.
      rewrite (remove_at_idx V6 _ i6 H6').
      rewrite frf46, rf_comm. reflexivity.
    + assert (Hlt : i4 < i6) by lia.
      rewrite (remove_at_idx V6 l i6 H6).
      pose proof (idx_of_remove_first_lt V4 l i4 i6 H4 H6 Hlt) as H4'. cbn [other] in H4'.
      rewrite (remove_at_idx V4 _ i4 H4').
      rewrite frf64. reflexivity.
  - cbn [remove_opt]. rewrite (remove_at_idx V4 l i4 H4).
    destruct (idx_of_none_find V6 l H6) as [-> ->]. reflexivity.
  - cbn [remove_opt]. rewrite (remove_at_idx V6 l i6 H6).
    assert (H4' : idx_of V4 (remove_first V6 l) = None).
    { clear H6 i6. induction l as [|a t IH]; cbn [idx_of remove_first] in *; [reflexivity|].
      rewrite is_fam_V4, is_fam_V6 in *. destruct (a_fam a); [discriminate|].
      destruct (idx_of V4 t); cbn in H4; [discriminate|]. reflexivity. }
    destruct (idx_of_none_find V4 _ H4') as [_ ->].
    destruct (idx_of_none_find V4 l H4) as [-> _]. reflexivity.
  - cbn [remove_opt].
    destruct (idx_of_none_find V4 l H4) as [-> E4], (idx_of_none_find V6 l H6) as [-> E6].
    rewrite E6, E4. reflexivity.
Qed.

(* Refinement: the code's index juggling computes the specification. *)
Lemma sort_preferred_spec prefer l : sort_preferred prefer l = sort_spec prefer l.
Proof.
  unfold sort_preferred. rewrite scan_top.
  pose proof (removals l) as R. cbv beta iota zeta in R.
  destruct (if gt_both (idx_of V4 l) (idx_of V6 l) then _ else _) as [[v4 v6] rest].
  injection R as -> -> ->.
  unfold sort_spec.
  destruct prefer as [[|]|]; cbn [preferred other];
    destruct (find (is_fam V4) l) as [a4|], (find (is_fam V6) l) as [a6|]; cbn [opt_list app];
    rewrite <- ?rf_comm; reflexivity.
Qed.

(* ---- consequences of the specification ---- *)

Lemma find_remove_first_perm f l :
  Permutation (opt_list (find (is_fam f) l) ++ remove_first f l) l.
Proof.
  induction l as [|a t IH]; cbn [find remove_first]; [constructor|].
  destruct (is_fam f a); cbn [opt_list app]; [reflexivity|].
  destruct (find (is_fam f) t); cbn [opt_list app] in *.
  - etransitivity; [apply perm_swap|]. constructor. exact IH.
  - constructor. exact IH.
Qed.

Lemma sort_spec_perm prefer l : Permutation (sort_spec prefer l) l.
Proof.
  unfold sort_spec. set (p := preferred prefer).
  etransitivity; [|apply (find_remove_first_perm (other p) l)].
  etransitivity; [apply Permutation_app_swap_app|].
  apply Permutation_app_head.
  rewrite <- (find_remove_first_other p l).
  apply find_remove_first_perm.
Qed.

Lemma set_port_ports p l : Forall (fun a => a_port a = p) (set_port p l).
Proof. unfold set_port. induction l; cbn; constructor; auto. Qed.

Lemma set_port_keeps p l :
  map (fun a => (a_fam a, a_id a)) (set_port p l) = map (fun a => (a_fam a, a_id a)) l.
Proof. unfold set_port. rewrite map_map. reflexivity. Qed.

Lemma find_some_in {A} (f : A -> bool) l x : find f l = Some x -> In x l /\ f x = true.
Proof. apply find_some. Qed.

(* nothing of the preferred family precedes the chosen head in the resolver's answer *)
Lemma find_first_split f l x :
  find (is_fam f) l = Some x ->
  exists l1 l2, l = l1 ++ x :: l2 /\ is_fam f x = true /\ Forall (fun a => is_fam f a = false) l1
                /\ remove_first f l = l1 ++ l2.
Proof.
  induction l as [|a t IH]; cbn [find remove_first]; [discriminate|].
  destruct (is_fam f a) eqn:Ha.
  - intros [= <-]. exists [], t. repeat split; auto.
  - intros H. destruct (IH H) as (l1 & l2 & -> & Hx & Hall & Hr).
    exists (a :: l1), l2. rewrite Hr. repeat split; auto.
Qed.

(* order-preserving sub-list *)
Inductive subseq {A} : list A -> list A -> Prop :=
| sub_nil : subseq [] []
| sub_skip x l1 l2 : subseq l1 l2 -> subseq l1 (x :: l2)
| sub_keep x l1 l2 : subseq l1 l2 -> subseq (x :: l1) (x :: l2).

Lemma subseq_refl {A} (l : list A) : subseq l l.
Proof. induction l; [apply sub_nil | apply sub_keep; auto]. Qed.

Lemma subseq_trans {A} (l1 l2 l3 : list A) : subseq l1 l2 -> subseq l2 l3 -> subseq l1 l3.
Proof.
  intros H12 H23. revert l1 H12. induction H23 as [|x l2 l3 H IH|x l2 l3 H IH]; intros l1 H12.
  - exact H12.
  - apply sub_skip. auto.
  - inversion H12; subst; [apply sub_skip | apply sub_keep]; auto.
Qed.

Lemma remove_first_subseq f l : subseq (remove_first f l) l.
Proof.
  induction l as [|a t IH]; cbn [remove_first]; [constructor|].
  destruct (is_fam f a); [apply sub_skip, subseq_refl | apply sub_keep, IH].
Qed.

Lemma sort_spec_rest_subseq prefer l :
  subseq (remove_first (preferred prefer) (remove_first (other (preferred prefer)) l)) l.
Proof. eapply subseq_trans; apply remove_first_subseq. Qed.

Lemma remove_first_length f l :
  length (remove_first f l) + length (opt_list (find (is_fam f) l)) = length l.
Proof.
  rewrite Nat.add_comm, <- app_length. apply Permutation_length, find_remove_first_perm.
Qed.

Lemma preferred_from_binding b4 b6 :
  preferred (from_binding b4 b6) = V4 <-> (b4 = true /\ b6 = false).
Proof. destruct b4, b6; cbn; split; intros H; try discriminate; try tauto; destruct H; discriminate. Qed.

Lemma attempt_order_spec b4 b6 he port l :
  attempt_order b4 b6 he port l =
  if he then sort_spec (from_binding b4 b6) (set_port port l) else set_port port l.
Proof. unfold attempt_order. destruct he; [apply sort_preferred_spec|reflexivity]. Qed.

Lemma attempt_order_perm b4 b6 he port l :
  Permutation (attempt_order b4 b6 he port l) (set_port port l).
Proof. rewrite attempt_order_spec. destruct he; [apply sort_spec_perm|reflexivity]. Qed.

Lemma attempt_order_ports b4 b6 he port l :
  Forall (fun a => a_port a = port) (attempt_order b4 b6 he port l).
Proof.
  eapply Permutation_Forall; [symmetry; apply attempt_order_perm|apply set_port_ports].
Qed.
