(* Specification for C16, written without reference to the index manipulation of the code. *)
From HD Require Import common.Base dns.Model.

Definition is_fam (f : fam) (a : addr) : bool := fam_eqb (a_fam a) f.

(* remove the first address of family f *)
Fixpoint remove_first (f : fam) (l : list addr) : list addr :=
  match l with
  | [] => []
  | a :: t => if is_fam f a then t else a :: remove_first f t
  end.

Definition other (f : fam) : fam := match f with V4 => V6 | V6 => V4 end.

(* preferred family: IPv6 unless the preference says IPv4 *)
Definition preferred (prefer : option fam) : fam :=
  match prefer with Some V4 => V4 | _ => V6 end.

Definition opt_list {A} (o : option A) : list A := match o with Some a => [a] | None => [] end.

(* The specification: first of the preferred family, then first of the other family, then
   everything else in the resolver's order. *)
Definition sort_spec (prefer : option fam) (l : list addr) : list addr :=
  let p := preferred prefer in
  opt_list (find (is_fam p) l) ++ opt_list (find (is_fam (other p)) l)
    ++ remove_first p (remove_first (other p) l).
