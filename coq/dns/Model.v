(* M-DNS: model of src/client/conn/dns.rs SocketAddrs::{set_port, sort_preferred, pop},
   IpVersion::from_binding and TcpTransport::connecting (src/client/conn/transport/tcp.rs). *)
From HD Require Import common.Base.

Inductive fam := V4 | V6.

Definition fam_eqb (a b : fam) : bool :=
  match a, b with V4, V4 => true | V6, V6 => true | _, _ => false end.

(* An address: family, an opaque identity for the IP (the harness maps it to a real
   address injectively per family), and the port. *)
Record addr := mkAddr { a_fam : fam; a_id : N; a_port : N }.

Definition addr_eqb (x y : addr) : bool :=
  fam_eqb (a_fam x) (a_fam y) && N.eqb (a_id x) (a_id y) && N.eqb (a_port x) (a_port y).

(* SocketAddrs::set_port *)
Definition set_port (p : N) (l : list addr) : list addr :=
  map (fun a => mkAddr (a_fam a) (a_id a) p) l.

(* the scanning loop of sort_preferred: first index of each family, with the early break *)
Fixpoint scan (l : list addr) (idx : nat) (v4 v6 : option nat) : option nat * option nat :=
  match l with
  | [] => (v4, v6)
  | a :: t =>
      match a_fam a, v4, v6 with
      | V4, None, _ => scan t (S idx) (Some idx) v6
      | V6, _, None => scan t (S idx) v4 (Some idx)
      | _, Some _, Some _ => (v4, v6)
      | _, _, _ => scan t (S idx) v4 v6
      end
  end.

(* VecDeque::remove(idx) : Option<T>, shifting the rest *)
Fixpoint remove_at (idx : nat) (l : list addr) : option addr * list addr :=
  match l, idx with
  | [], _ => (None, [])
  | a :: t, O => (Some a, t)
  | a :: t, S i => let '(r, t') := remove_at i t in (r, a :: t')
  end.

Definition remove_opt (idx : option nat) (l : list addr) : option addr * list addr :=
  match idx with
  | None => (None, l)
  | Some i => remove_at i l
  end.

Definition gt_both (v4 v6 : option nat) : bool :=
  match v4, v6 with
  | Some a, Some b => Nat.ltb b a
  | _, _ => false
  end.

(* SocketAddrs::sort_preferred *)
Definition sort_preferred (prefer : option fam) (l : list addr) : list addr :=
  let '(v4i, v6i) := scan l 0 None None in
  let '(v4, v6, rest) :=
    if gt_both v4i v6i then
      let '(v4, l1) := remove_opt v4i l in
      let '(v6, l2) := remove_opt v6i l1 in (v4, v6, l2)
    else
      let '(v6, l1) := remove_opt v6i l in
      let '(v4, l2) := remove_opt v4i l1 in (v4, v6, l2) in
  match prefer, v4, v6 with
  | Some V4, Some a4, Some a6 => a4 :: a6 :: rest
  | Some V6, Some a4, Some a6 => a6 :: a4 :: rest
  | _, Some a4, Some a6 => a6 :: a4 :: rest
  | _, Some a4, None => a4 :: rest
  | _, None, Some a6 => a6 :: rest
  | _, _, _ => rest
  end.

(* IpVersion::from_binding *)
Definition from_binding (bind4 bind6 : bool) : option fam :=
  match bind4, bind6 with
  | true, true => Some V6
  | true, false => Some V4
  | false, true => Some V6
  | false, false => None
  end.

(* TcpTransport::connect: set_port, then connecting(): sort only when the happy-eyeballs
   timeout is configured; TcpConnecting::connect pops from the front, so the attempt order
   is the list order. *)
Definition attempt_order (bind4 bind6 he_set : bool) (port : N) (l : list addr) : list addr :=
  let l' := set_port port l in
  if he_set then sort_preferred (from_binding bind4 bind6) l' else l'.
