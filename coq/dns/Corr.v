(* Correspondence glue for C16: case/observation types, the model's observation and the
   spec monitor applied to the implementation's observation. *)
From HD Require Import common.Base dns.Model dns.Spec.

Inductive case :=
| CSort (prefer : option fam) (do_sort : bool) (port : N) (l : list addr)
| CTransport (b4 b6 he : bool) (port : N) (l : list addr).

(* None = the implementation panicked *)
Definition obs := option (list addr).

Definition model_obs (c : case) : obs :=
  match c with
  | CSort p s port l => let l' := set_port port l in Some (if s then sort_preferred p l' else l')
  | CTransport b4 b6 he port l => Some (attempt_order b4 b6 he port l)
  end.

(* what the property demands, from Spec.v only *)
Definition spec_obs (c : case) : list addr :=
  match c with
  | CSort p s port l => let l' := set_port port l in if s then sort_spec p l' else l'
  | CTransport b4 b6 he port l =>
      let l' := set_port port l in
      if he then sort_spec (if b4 && negb b6 then Some V4 else None) l' else l'
  end.

Definition obs_eqb (a b : obs) : bool := option_eqb (list_eqb addr_eqb) a b.

Definition mon (c : case) (o : obs) : bool :=
  match o with
  | None => false
  | Some out => list_eqb addr_eqb out (spec_obs c)
  end.

Definition check_all (cs : list (case * obs)) : list N * list N :=
  (falses (map (fun co => obs_eqb (model_obs (fst co)) (snd co)) cs),
   falses (map (fun co => mon (fst co) (snd co)) cs)).
