(* Executable specification (monitor) for C13: judges what actually left the layer stack for a
   given connection protocol and caller request.  Written from the property text, not from the
   model: where the text is silent (relative URIs, schemes other than http/https/ws/wss) the
   monitor accepts. *)
From HD Require Import common.Base http.Model.
Local Open Scope string_scope.

Definition ostr_eqb := option_eqb String.eqb.
Definition hdr_eqb (a b : string * string) : bool := String.eqb (fst a) (fst b) && String.eqb (snd a) (snd b).
Definition port_eqb (a b : string * N) : bool := String.eqb (fst a) (fst b) && N.eqb (snd a) (snd b).

Definition uri_eqb (a b : uri) : bool :=
  ostr_eqb (u_scheme a) (u_scheme b) && ostr_eqb (u_auth a) (u_auth b) && ostr_eqb (u_host a) (u_host b)
  && option_eqb port_eqb (u_port a) (u_port b) && ostr_eqb (u_pq a) (u_pq b)
  && String.eqb (u_path a) (u_path b) && ostr_eqb (u_query a) (u_query b).

Definition hver_eqb (a b : hver) : bool :=
  match a, b with V09, V09 | V10, V10 | V11, V11 | V2, V2 | V3, V3 => true | _, _ => false end.

Definition values_of (name : string) (hs : list (string * string)) : list string :=
  map snd (filter (fun h => String.eqb (fst h) name) hs).

Definition without (names : list string) (hs : list (string * string)) : list (string * string) :=
  filter (fun h => negb (existsb (String.eqb (fst h)) names)) hs.

(* the scheme's default port, for the schemes the property knows *)
Definition default_port (scheme : string) : option N :=
  if eq_ci scheme "https" || eq_ci scheme "wss" then Some 443%N
  else if eq_ci scheme "http" || eq_ci scheme "ws" then Some 80%N
  else None.

(* acceptable Host values for a URI with host h *)
Definition host_ok (u : uri) (h v : string) : bool :=
  match u_port u with
  | None => String.eqb v h
  | Some (repr, n) =>
      match u_scheme u with
      | Some s =>
          match default_port s with
          | Some d => if N.eqb n d then String.eqb v h else String.eqb v (h ++ ":" ++ port_string n)
          | None => String.eqb v h || String.eqb v (h ++ ":" ++ port_string n)
          end
      | None => String.eqb v h || String.eqb v (h ++ ":" ++ port_string n)
      end
  end.

Definition h2_illegal : list string := "host" :: connection_headers.

Definition mon_C13 (conn : proto) (r : req) (o : outcome) : bool :=
  let is_connect := String.eqb (r_method r) "CONNECT" in
  match conn, o with
  | PH1, Sent r' =>
      String.eqb (r_method r') (r_method r)
      && (* request target *)
         (if is_connect then
            match u_auth (r_uri r) with
            | Some a => ostr_eqb (u_scheme (r_uri r')) None && ostr_eqb (u_auth (r_uri r')) (Some a)
                        && ostr_eqb (u_pq (r_uri r')) None
            | None => false
            end
          else
            match u_scheme (r_uri r), u_auth (r_uri r) with
            | Some _, Some _ =>
                ostr_eqb (u_scheme (r_uri r')) None && ostr_eqb (u_auth (r_uri r')) None
                && String.eqb (u_path (r_uri r')) (if String.eqb (u_path (r_uri r)) "" then "/" else u_path (r_uri r))
                && ostr_eqb (u_query (r_uri r')) (u_query (r_uri r))
            | _, _ => true
            end)
      && (* Host *)
         (match values_of "host" (r_headers r), u_host (r_uri r) with
          | [], Some h =>
              match values_of "host" (r_headers r') with
              | [v] => host_ok (r_uri r) h v
              | _ => false
              end
          | given, _ => list_eqb String.eqb (values_of "host" (r_headers r')) given
          end)
      && (* everything else untouched *)
         list_eqb hdr_eqb (without ["host"] (r_headers r')) (without ["host"] (r_headers r))
  | PH1, ErrProtocol => is_connect && match u_auth (r_uri r) with None => true | Some _ => false end
  | PH2, Sent r' =>
      negb is_connect
      && String.eqb (r_method r') (r_method r)
      && hver_eqb (r_version r') V2
      && uri_eqb (r_uri r') (r_uri r)
      && forallb (fun h => negb (existsb (String.eqb (fst h)) h2_illegal)) (r_headers r')
      && list_eqb hdr_eqb (without h2_illegal (r_headers r')) (without h2_illegal (r_headers r))
  | PH2, ErrInvalidMethod => is_connect
  | _, _ => false
  end.

(* protocol choice: HTTP/2 exactly when the request asked for it or ALPN negotiated h2 *)
Definition mon_proto (requested : proto) (a : alpn) (conn : proto) : bool :=
  match conn with
  | PH2 => match requested, a with PH2, _ | _, AlpnH2 => true | _, _ => false end
  | PH1 => match requested, a with PH2, _ | _, AlpnH2 => false | _, _ => true end
  end.
