(* M-HTTP: model of the request-rewriting layers below the connection pool
     src/service/host.rs   set_host_header, get_non_default_port, is_schema_secure, SetHostHeader::call
     src/service/http.rs   check_http1_request (authority_form, absolute_form, origin_form),
                           check_http2_request
   stacked as in client::Builder::build_service:
     SetHostHeader -> Http2Checks -> Http1Checks -> RequestExecutor,
   and of the protocol choice
     src/client/conn/protocol/mod.rs   HttpProtocol::for_version / From<http::Version>
     src/client/conn/protocol/auto.rs  HttpConnectionBuilder::handshake (request protocol x ALPN)
     src/client/conn/connection.rs     HttpConnection::{version, send_request}.
   URIs are handed over decomposed by the real http crate (oracle O7): scheme_str, authority,
   host, port (as written, and numeric), path_and_query as_str, path(), query(). *)
From HD Require Import common.Base.
From Coq Require Export String Ascii.
From Coq Require Import DecimalString.
Local Open Scope string_scope.

Inductive hver := V09 | V10 | V11 | V2 | V3.       (* http::Version *)
Inductive proto := PH1 | PH2.                     (* HttpProtocol / connection version 1.1 | 2 *)

Record uri := mkUri {
  u_scheme : option string;
  u_auth : option string;
  u_host : option string;
  u_port : option (string * N);
  u_pq : option string;
  u_path : string;
  u_query : option string
}.

Record req := mkReq {
  r_method : string;
  r_version : hver;
  r_uri : uri;
  r_headers : list (string * string)   (* names lower-case, sorted by name (stable) *)
}.

Inductive outcome :=
| Sent (r : req)
| ErrInvalidMethod
| ErrProtocol
| Panic (site : string).

(* ---- ASCII case folding (schemes are compared case-insensitively) ---- *)
Definition lower_ascii (c : ascii) : ascii :=
  let n := nat_of_ascii c in
  if Nat.leb 65 n && Nat.leb n 90 then ascii_of_nat (n + 32) else c.
Fixpoint lower (s : string) : string :=
  match s with
  | EmptyString => EmptyString
  | String c t => String (lower_ascii c) (lower t)
  end.
Definition eq_ci (a b : string) : bool := String.eqb (lower a) (lower b).

(* ---- host.rs ---- *)
Definition is_schema_secure (u : uri) : bool :=
  match u_scheme u with
  | Some s => eq_ci s "wss" || eq_ci s "https"
  | None => false
  end.

(* http::uri::Port displays its numeric value (leading zeros of the written form are dropped) *)
Definition port_string (n : N) : string := NilZero.string_of_uint (N.to_uint n).

Definition get_non_default_port (u : uri) : option string :=
  match u_port u with
  | Some (_, n) =>
      if (N.eqb n 443 && is_schema_secure u) || (N.eqb n 80 && negb (is_schema_secure u))
      then None else Some (port_string n)
  | None => None
  end.

Definition has_header (name : string) (hs : list (string * string)) : bool :=
  existsb (fun h => String.eqb (fst h) name) hs.

(* insertion keeping the canonical (stable, by name) order *)
Fixpoint insert_header (h : string * string) (hs : list (string * string)) : list (string * string) :=
  match hs with
  | [] => [h]
  | x :: t =>
      match String.compare (fst h) (fst x) with
      | Lt => h :: x :: t
      | _ => x :: insert_header h t
      end
  end.

Definition host_value (u : uri) (host : string) : string :=
  match get_non_default_port u with
  | Some p => host ++ ":" ++ p
  | None => host
  end.

Definition set_host_header (r : req) : req :=
  match u_host (r_uri r) with
  | None => r
  | Some host =>
      if has_header "host" (r_headers r) then r
      else mkReq (r_method r) (r_version r) (r_uri r)
                 (insert_header ("host", host_value (r_uri r) host) (r_headers r))
  end.

(* ---- http.rs ---- *)
Definition connection_headers : list string :=
  ["connection"; "proxy-connection"; "keep-alive"; "transfer-encoding"; "upgrade"].

Definition remove_headers (names : list string) (hs : list (string * string)) : list (string * string) :=
  filter (fun h => negb (existsb (String.eqb (fst h)) names)) hs.

Definition check_http2 (conn : proto) (r : req) : outcome :=
  match conn with
  | PH2 =>
      if String.eqb (r_method r) "CONNECT" then ErrInvalidMethod
      else Sent (mkReq (r_method r) V2 (r_uri r)
                       (remove_headers ["host"] (remove_headers connection_headers (r_headers r))))
  | PH1 => Sent r
  end.

Definition no_uri_parts : uri := mkUri None None None None None "" None.

Definition authority_form (u : uri) : option uri :=
  match u_auth u with
  | Some a => Some (mkUri None (Some a) (u_host u) (u_port u) None "" None)
  | None => None
  end.

Definition origin_form (u : uri) : uri :=
  match u_pq u with
  | Some p => if String.eqb p "/" then mkUri None None None None (Some "/") "/" None
              else mkUri None None None None (Some p) (u_path u) (u_query u)
  | None => mkUri None None None None (Some "/") "/" None
  end.

Definition check_http1 (conn : proto) (r : req) : outcome :=
  match conn with
  | PH2 => Sent r
  | PH1 =>
      if String.eqb (r_method r) "CONNECT" then
        match authority_form (r_uri r) with
        | Some u => Sent (mkReq (r_method r) (r_version r) u (r_headers r))
            (* the following https test of the code looks at the rewritten URI, which has no
               scheme any more: it never fires *)
        | None => ErrProtocol
        end
      else
        match u_scheme (r_uri r), u_auth (r_uri r) with
        | Some _, Some _ => Sent (mkReq (r_method r) (r_version r) (origin_form (r_uri r)) (r_headers r))
        | _, _ => Sent r      (* already origin-/asterisk-form: absolute_form is a no-op *)
        end
  end.

(* the three layers in build_service order; the executor hands the request to the connection *)
Definition layers (conn : proto) (r : req) : outcome :=
  let r1 := match conn with PH1 => set_host_header r | PH2 => r end in
  match check_http2 conn r1 with
  | Sent r2 => check_http1 conn r2
  | o => o
  end.

(* ---- protocol choice ---- *)
Definition for_version (v : hver) : option proto :=
  match v with
  | V09 | V10 | V11 => Some PH1
  | V2 => Some PH2
  | V3 => None
  end.

Inductive alpn := NoTls | AlpnNone | AlpnH2 | AlpnH11 | AlpnOther.

(* HttpConnectionBuilder::handshake *)
Definition handshake (requested : proto) (a : alpn) : proto :=
  match requested, a with
  | PH2, _ => PH2
  | PH1, AlpnH2 => PH2
  | PH1, _ => PH1
  end.

(* HttpConnection::send_request: the version on the wire is the connection's *)
Definition wire_version (conn : proto) : hver := match conn with PH1 => V11 | PH2 => V2 end.

(* What the http crate guarantees about the decomposition of a valid Uri (oracle O7; checked on
   every decomposition the harness sees): "/" alone has no query, an absent path-and-query has
   empty path and no query, and a URI with a scheme always has a non-empty path(). *)
Definition uri_wf_b (u : uri) : bool :=
  match u_pq u with
  | Some p => if String.eqb p "/" then String.eqb (u_path u) "/" && match u_query u with None => true | _ => false end
              else true
  | None => String.eqb (u_path u) "" && match u_query u with None => true | _ => false end
  end
  && match u_scheme u with
     | Some _ => negb (String.eqb (u_path u) "") && match u_pq u with Some _ => true | None => false end
     | None => true
     end.
