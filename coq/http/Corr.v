From HD Require Import common.Base http.Model http.Spec.
Local Open Scope string_scope.

Inductive case :=
| KLayers (conn : proto) (r : req)
| KProto (requested : proto) (a : alpn)
| KVersion (v : hver).

Inductive obs :=
| OOut (o : outcome)
| OConn (conn : option proto) (peer_h2 : bool)      (* connection version, peer saw the h2 preface *)
| OVer (p : option proto)                           (* None = panic *)
| OBad.

Definition model_obs (k : case) : obs :=
  match k with
  | KLayers conn r => if uri_wf_b (r_uri r) then OOut (layers conn r) else OBad   (* oracle O7 violated *)
  | KProto rq a => let c := handshake rq a in OConn (Some c) (match c with PH2 => true | PH1 => false end)
  | KVersion v => OVer (for_version v)
  end.

Definition proto_eqb (a b : proto) : bool := match a, b with PH1, PH1 | PH2, PH2 => true | _, _ => false end.

Definition req_eqb (a b : req) : bool :=
  String.eqb (r_method a) (r_method b) && hver_eqb (r_version a) (r_version b)
  && uri_eqb (r_uri a) (r_uri b) && list_eqb hdr_eqb (r_headers a) (r_headers b).

Definition outcome_eqb (a b : outcome) : bool :=
  match a, b with
  | Sent x, Sent y => req_eqb x y
  | ErrInvalidMethod, ErrInvalidMethod | ErrProtocol, ErrProtocol => true
  | Panic _, Panic _ => true
  | _, _ => false
  end.

Definition obs_eqb (a b : obs) : bool :=
  match a, b with
  | OOut x, OOut y => outcome_eqb x y
  | OConn c1 p1, OConn c2 p2 => option_eqb proto_eqb c1 c2 && Bool.eqb p1 p2
  | OVer x, OVer y => option_eqb proto_eqb x y
  | _, _ => false
  end.

Definition mon (k : case) (o : obs) : bool :=
  match k, o with
  | KLayers conn r, OOut out => mon_C13 conn r out
  | KProto rq a, OConn (Some c) peer => mon_proto rq a c && Bool.eqb peer (match c with PH2 => true | PH1 => false end)
  | KVersion v, OVer _ => true      (* total-ness of the version mapping is judged under C17 *)
  | _, _ => false
  end.

(* C17 monitor on the same cases: no panic *)
Definition mon17 (k : case) (o : obs) : bool :=
  match o with
  | OOut (Panic _) => false
  | OVer None => match k with KVersion V3 => false | _ => false end
  | OBad => false
  | _ => true
  end.

Definition check_all_with (m : case -> obs -> bool) (cs : list (case * obs)) : list N * list N :=
  (falses (map (fun co => obs_eqb (model_obs (fst co)) (snd co)) cs),
   falses (map (fun co => m (fst co) (snd co)) cs)).
Definition check_all_C13 := check_all_with mon.
