From HD Require Import common.Base http.Model http.Spec.
Local Open Scope string_scope.

Lemma list_eqb_refl {A} (eqb : A -> A -> bool) (l : list A) :
  (forall x, eqb x x = true) -> list_eqb eqb l l = true.
Proof. intros H. induction l as [|x t IH]; cbn; [reflexivity|]. rewrite H, IH. reflexivity. Qed.

Lemma hdr_eqb_refl h : hdr_eqb h h = true.
Proof. unfold hdr_eqb. rewrite !String.eqb_refl. reflexivity. Qed.

Lemma ostr_eqb_refl o : ostr_eqb o o = true.
Proof. destruct o; cbn; [apply String.eqb_refl|reflexivity]. Qed.

Lemma port_eqb_refl p : port_eqb p p = true.
Proof. unfold port_eqb. rewrite String.eqb_refl, N.eqb_refl. reflexivity. Qed.

Lemma uri_eqb_refl u : uri_eqb u u = true.
Proof.
  unfold uri_eqb. rewrite !ostr_eqb_refl, String.eqb_refl.
  destruct (u_port u) as [p|]; cbn; [rewrite port_eqb_refl|]; reflexivity.
Qed.

(* ---- header list facts (no ordering assumption needed) ---- *)
Lemma values_of_insert_other name h hs :
  String.eqb (fst h) name = false -> values_of name (insert_header h hs) = values_of name hs.
Proof.
  intros Hn. unfold values_of. induction hs as [|x t IH]; cbn [insert_header filter map].
  - rewrite Hn. reflexivity.
  - destruct (String.compare (fst h) (fst x)); cbn [filter map]; rewrite ?Hn; try reflexivity;
      destruct (String.eqb (fst x) name); cbn [map]; rewrite ?IH; reflexivity.
Qed.

Lemma values_of_insert_same name v hs :
  has_header name hs = false -> values_of name (insert_header (name, v) hs) = [v].
Proof.
  unfold values_of, has_header. induction hs as [|x t IH]; cbn [insert_header filter map existsb fst]; intros H.
  - rewrite String.eqb_refl. reflexivity.
  - apply orb_false_iff in H. destruct H as [Hx Ht].
    destruct (String.compare name (fst x)); cbn [filter map fst]; rewrite ?String.eqb_refl, ?Hx; cbn [map snd].
    + rewrite IH by exact Ht. reflexivity.
    + f_equal. clear IH. induction t as [|y t IHt]; [reflexivity|]. cbn [existsb] in Ht.
      apply orb_false_iff in Ht. destruct Ht as [Hy Ht]. cbn [filter]. rewrite Hy. apply IHt. exact Ht.
    + rewrite IH by exact Ht. reflexivity.
Qed.

Lemma without_insert names h hs :
  existsb (String.eqb (fst h)) names = true -> without names (insert_header h hs) = without names hs.
Proof.
  intros Hn. unfold without. induction hs as [|x t IH]; cbn [insert_header filter].
  - rewrite Hn. reflexivity.
  - destruct (String.compare (fst h) (fst x)); cbn [filter]; rewrite ?Hn; cbn [negb]; try reflexivity;
      destruct (negb (existsb (String.eqb (fst x)) names)); rewrite ?IH; reflexivity.
Qed.

Lemma has_header_values name hs : has_header name hs = false <-> values_of name hs = [].
Proof.
  unfold has_header, values_of. induction hs as [|x t IH]; cbn [existsb filter map]; [tauto|].
  destruct (String.eqb (fst x) name); cbn [orb map]; [split; discriminate|exact IH].
Qed.

Lemma filter_filter {A} (f g : A -> bool) l : filter f (filter g l) = filter (fun x => g x && f x) l.
Proof.
  induction l as [|x t IH]; cbn [filter]; [reflexivity|].
  destruct (g x); cbn [filter andb]; [destruct (f x)|]; rewrite IH; reflexivity.
Qed.

Lemma filter_ext_in' {A} (f g : A -> bool) l : (forall x, f x = g x) -> filter f l = filter g l.
Proof. intros H. induction l as [|x t IH]; cbn; [reflexivity|]. rewrite H, IH. reflexivity. Qed.

Definition illegal (h : string * string) : bool := existsb (String.eqb (fst h)) h2_illegal.

Lemma illegal_split h :
  illegal h = existsb (String.eqb (fst h)) ["host"] || existsb (String.eqb (fst h)) connection_headers.
Proof. unfold illegal, h2_illegal. cbn [existsb]. rewrite orb_false_r. reflexivity. Qed.

Lemma h2_cleanup hs :
  let out := remove_headers ["host"] (remove_headers connection_headers hs) in
  forallb (fun h => negb (illegal h)) out = true /\ without h2_illegal out = without h2_illegal hs.
Proof.
  cbv zeta. unfold remove_headers, without. rewrite !filter_filter. split.
  - apply forallb_forall. intros h Hin. apply filter_In in Hin. destruct Hin as [_ Hf].
    rewrite illegal_split. apply andb_true_iff in Hf. destruct Hf as [A B].
    apply negb_true_iff in A, B. rewrite A, B. reflexivity.
  - apply filter_ext_in'. intros h. fold (illegal h). rewrite illegal_split.
    destruct (existsb (String.eqb (fst h)) ["host"]), (existsb (String.eqb (fst h)) connection_headers); reflexivity.
Qed.

(* ---- the theorem: the layer stack satisfies the C13 monitor for every request ---- *)
Theorem layers_mon conn r : uri_wf_b (r_uri r) = true -> mon_C13 conn r (layers conn r) = true.
Proof.
  intros Hwf. unfold layers. destruct conn.
  - (* HTTP/1 connection *)
    cbn [check_http2].
    set (r1 := set_host_header r).
    assert (Hm : r_method r1 = r_method r /\ r_uri r1 = r_uri r /\ r_version r1 = r_version r).
    { unfold r1, set_host_header. destruct (u_host (r_uri r)); [destruct (has_header "host" (r_headers r))|]; auto. }
    destruct Hm as (Hm & Hu & Hv).
    assert (Hhost : match values_of "host" (r_headers r), u_host (r_uri r) with
                    | [], Some h => match values_of "host" (r_headers r1) with
                                    | [v] => host_ok (r_uri r) h v | _ => false end
                    | given, _ => list_eqb String.eqb (values_of "host" (r_headers r1)) given
                    end = true
                    /\ without ["host"] (r_headers r1) = without ["host"] (r_headers r)).
    { unfold r1, set_host_header. destruct (u_host (r_uri r)) as [h|] eqn:Hh.
      - destruct (has_header "host" (r_headers r)) eqn:Hhas.
        + split; [|reflexivity]. destruct (values_of "host" (r_headers r)) eqn:Hv0.
          * apply has_header_values in Hv0. congruence.
          * rewrite <- Hv0. apply list_eqb_refl, String.eqb_refl.
        + cbn [r_headers]. split.
          * apply has_header_values in Hhas as Hv0. rewrite Hv0.
            rewrite values_of_insert_same by exact Hhas.
            unfold host_ok, host_value, get_non_default_port, is_schema_secure.
            destruct (u_port (r_uri r)) as [[repr n]|]; [|apply String.eqb_refl].
            destruct (u_scheme (r_uri r)) as [s|]; cbn [negb andb orb].
            -- unfold default_port.
               destruct (eq_ci s "https") eqn:E1, (eq_ci s "wss") eqn:E2; cbn [orb andb negb];
                 rewrite ?andb_true_r, ?andb_false_r, ?orb_false_r, ?orb_true_r; cbn [orb];
                 try (destruct (N.eqb n 443); apply String.eqb_refl).
               destruct (eq_ci s "http" || eq_ci s "ws").
               ++ destruct (N.eqb n 80); apply String.eqb_refl.
               ++ destruct (N.eqb n 80); rewrite String.eqb_refl, ?orb_true_r; reflexivity.
            -- rewrite andb_false_r, andb_true_r. cbn [orb].
               destruct (N.eqb n 80); rewrite String.eqb_refl, ?orb_true_r; reflexivity.
          * apply without_insert. reflexivity.
      - split; [|reflexivity]. destruct (values_of "host" (r_headers r)); apply list_eqb_refl, String.eqb_refl. }
    destruct Hhost as [Hhost Hrest].
    unfold check_http1. rewrite Hm, Hu.
    destruct (String.eqb (r_method r) "CONNECT") eqn:Hc.
    + unfold authority_form. destruct (u_auth (r_uri r)) as [a|] eqn:Ha.
      * unfold mon_C13. rewrite Hc. cbn [r_method r_uri r_headers u_scheme u_auth u_pq]. rewrite ?Hm, ?Ha.
        rewrite String.eqb_refl, Hhost, Hrest. cbn [ostr_eqb option_eqb]. rewrite String.eqb_refl.
        rewrite (list_eqb_refl hdr_eqb _ hdr_eqb_refl). reflexivity.
      * unfold mon_C13. rewrite Hc, Ha. reflexivity.
    + destruct (u_scheme (r_uri r)) as [s|] eqn:Hs, (u_auth (r_uri r)) as [a|] eqn:Ha;
        unfold mon_C13; rewrite Hc; cbn [r_method r_uri r_headers]; rewrite ?Hm, ?Hu, ?Hs, ?Ha, String.eqb_refl, Hhost, Hrest,
          (list_eqb_refl hdr_eqb _ hdr_eqb_refl); cbn [andb]; try reflexivity.
      (* absolute URI: origin form *)
      rewrite !andb_true_r.
      unfold uri_wf_b in Hwf. rewrite Hs in Hwf. unfold origin_form.
      destruct (u_pq (r_uri r)) as [p|] eqn:Hp.
      * destruct (String.eqb p "/") eqn:Hp1; cbn [u_scheme u_auth u_path u_query ostr_eqb option_eqb andb].
        -- apply andb_true_iff in Hwf. destruct Hwf as [W1 W2].
           apply andb_true_iff in W1. destruct W1 as [W1 W3]. apply String.eqb_eq in W1.
           rewrite W1. cbn. destruct (u_query (r_uri r)); [discriminate|reflexivity].
        -- apply andb_true_iff in Hwf. destruct Hwf as [_ W2]. apply andb_true_iff in W2. destruct W2 as [W2 _].
           apply negb_true_iff in W2. rewrite W2, String.eqb_refl, ostr_eqb_refl. reflexivity.
      * apply andb_true_iff in Hwf. destruct Hwf as [_ W2]. apply andb_true_iff in W2. destruct W2 as [_ W2]. discriminate.
  - (* HTTP/2 connection *)
    cbn [check_http2]. destruct (String.eqb (r_method r) "CONNECT") eqn:Hc.
    + unfold mon_C13. rewrite Hc. reflexivity.
    + cbn [check_http1]. unfold mon_C13. rewrite Hc. cbn [r_method r_version r_uri r_headers negb andb hver_eqb].
      rewrite String.eqb_refl, uri_eqb_refl. cbn [andb].
      destruct (h2_cleanup (r_headers r)) as [A B]. cbv zeta in A, B.
      unfold illegal in A. rewrite A, B, (list_eqb_refl hdr_eqb _ hdr_eqb_refl). reflexivity.
Qed.

(* protocol choice *)
Theorem handshake_mon rq a : mon_proto rq a (handshake rq a) = true.
Proof. destruct rq, a; reflexivity. Qed.

Theorem handshake_iff rq a : handshake rq a = PH2 <-> (rq = PH2 \/ a = AlpnH2).
Proof. destruct rq, a; cbn; split; intros H; try discriminate; auto; destruct H; discriminate. Qed.

(* no panic site is reachable in the layer stack *)
Theorem layers_no_panic conn r site : layers conn r <> Panic site.
Proof.
  unfold layers, check_http2, check_http1, authority_form. destruct conn;
    repeat match goal with
           | |- context [if ?x then _ else _] => destruct x
           | |- context [match ?x with _ => _ end] => destruct x
           end; discriminate.
Qed.
