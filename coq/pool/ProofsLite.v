(* Unbounded lemmas about the primitives each pool property rests on (all inputs, all states).
   They are the per-primitive halves of the monitor theorems; the monitor theorems themselves are in
   pool/ProofsC15.v (done) and pool/ProofsC0x.v (in progress, see props/). *)
From HD Require Import common.Base http.Model pool.Model pool.Spec pool.Frames.
Local Open Scope list_scope.

(* ------------------------------------------------------------------ keys and tokens (C06) *)
Lemma eq_ci_refl s : eq_ci s s = true.
Proof. unfold eq_ci. apply String.eqb_refl. Qed.
Lemma eq_ci_sym a b : eq_ci a b = eq_ci b a.
Proof. unfold eq_ci. apply String.eqb_sym. Qed.
Lemma eq_ci_trans a b c : eq_ci a b = true -> eq_ci b c = true -> eq_ci a c = true.
Proof. unfold eq_ci. rewrite !String.eqb_eq. congruence. Qed.

Lemma key_eqb_refl k : key_eqb k k = true.
Proof. unfold key_eqb. rewrite !eq_ci_refl. reflexivity. Qed.
Lemma key_eqb_sym a b : key_eqb a b = key_eqb b a.
Proof. unfold key_eqb. rewrite (eq_ci_sym (fst a)), (eq_ci_sym (snd a)). reflexivity. Qed.
Lemma key_eqb_trans a b c : key_eqb a b = true -> key_eqb b c = true -> key_eqb a c = true.
Proof.
  unfold key_eqb. rewrite !andb_true_iff. intros [H1 H2] [H3 H4]. split; eapply eq_ci_trans; eassumption.
Qed.

(* keys differing in scheme or in authority (port included) are different keys *)
Lemma key_eqb_scheme a b : eq_ci (fst a) (fst b) = false -> key_eqb a b = false.
Proof. unfold key_eqb. intros ->. reflexivity. Qed.
Lemma key_eqb_authority a b : eq_ci (snd a) (snd b) = false -> key_eqb a b = false.
Proof. unfold key_eqb. intros ->. apply andb_false_r. Qed.

Lemma find_key_some k : forall ks i t, find_key k ks i = Some t ->
  exists j k', t = i + j /\ nth_error ks j = Some k' /\ key_eqb k k' = true
               /\ (forall j' k'', j' < j -> nth_error ks j' = Some k'' -> key_eqb k k'' = false).
Proof.
  induction ks as [|k0 ks IH]; intros i t H; cbn [find_key] in H; [discriminate|].
  destruct (key_eqb k k0) eqn:E.
  - inversion H; subst. exists 0, k0. repeat split; auto. intros j' k'' Hlt; lia.
  - apply IH in H. destruct H as (j & k' & -> & Hn & He & Hmin).
    exists (S j), k'. repeat split; auto; try lia.
    intros j' k'' Hlt Hn'. destruct j'; cbn in Hn'; [inversion Hn'; subst; exact E|]. eapply Hmin; [|exact Hn']. lia.
Qed.

Lemma find_key_none k : forall ks i, find_key k ks i = None -> forall k', In k' ks -> key_eqb k k' = false.
Proof.
  induction ks as [|k0 ks IH]; intros i H k' Hin; [destruct Hin|].
  cbn [find_key] in H. destruct (key_eqb k k0) eqn:E; [discriminate|].
  destruct Hin as [<-|Hin]; [exact E|]. eapply IH; eassumption.
Qed.

(* no two entries of the key table denote the same origin *)
Definition KND (ks : list key) : Prop :=
  forall i j ki kj, nth_error ks i = Some ki -> nth_error ks j = Some kj -> key_eqb ki kj = true -> i = j.

Lemma KND_nil : KND [].
Proof. intros i j ki kj H. destruct i; discriminate. Qed.

Lemma key_insert_keys k s t s' : key_insert k s = (t, s') ->
  (keys s' = keys s \/ keys s' = keys s ++ [k]) /\ 1 <= t
  /\ exists k', nth_error (keys s') (t - 1) = Some k' /\ key_eqb k k' = true.
Proof.
  unfold key_insert. destruct (find_key k (keys s) 1) as [t0|] eqn:Hf; intros H; inversion H; subst; clear H.
  - apply find_key_some in Hf. destruct Hf as (j & k' & -> & Hn & He & _).
    split; [left; reflexivity|]. split; [lia|]. exists k'. replace (1 + j - 1) with j by lia. auto.
  - cbn. split; [right; reflexivity|]. split; [lia|]. exists k.
    replace (S (List.length (keys s)) - 1) with (List.length (keys s)) by lia.
    rewrite ?Nat.sub_0_r. rewrite nth_error_app2 by lia. rewrite Nat.sub_diag. split; [reflexivity|apply key_eqb_refl].
Qed.

Lemma KND_key_insert k s t s' : KND (keys s) -> key_insert k s = (t, s') -> KND (keys s').
Proof.
  unfold key_insert. destruct (find_key k (keys s) 1) as [t0|] eqn:Hf; intros Hk H; inversion H; subst; clear H; [exact Hk|].
  cbn. intros i j ki kj Hi Hj He.
  assert (Hnone := find_key_none _ _ _ Hf).
  destruct (Nat.lt_ge_cases i (List.length (keys s))) as [Li|Li], (Nat.lt_ge_cases j (List.length (keys s))) as [Lj|Lj].
  - rewrite nth_error_app1 in Hi, Hj by assumption. eapply Hk; eassumption.
  - rewrite nth_error_app1 in Hi by assumption. rewrite nth_error_app2 in Hj by assumption.
    destruct (j - List.length (keys s)) as [|n] eqn:En; cbn in Hj; [|destruct n; discriminate]. inversion Hj; subst.
    apply nth_error_In in Hi. apply Hnone in Hi. rewrite key_eqb_sym in He. congruence.
  - rewrite nth_error_app1 in Hj by assumption. rewrite nth_error_app2 in Hi by assumption.
    destruct (i - List.length (keys s)) as [|n] eqn:En; cbn in Hi; [|destruct n; discriminate]. inversion Hi; subst.
    apply nth_error_In in Hj. apply Hnone in Hj. congruence.
  - rewrite nth_error_app2 in Hi, Hj by assumption.
    destruct (i - List.length (keys s)) as [|n] eqn:En; cbn in Hi; [|destruct n; discriminate].
    destruct (j - List.length (keys s)) as [|n'] eqn:En'; cbn in Hj; [|destruct n'; discriminate]. lia.
Qed.

(* the token of a key is the same in every later table, and two keys share a token iff they are
   the same origin (scheme and authority, ASCII case-insensitively) *)
Theorem token_stable k ks l t : find_key k ks 1 = Some t -> find_key k (ks ++ l) 1 = Some t.
Proof.
  generalize 1. induction ks as [|k0 ks IH]; intros i H; cbn [find_key app] in *; [discriminate|].
  destruct (key_eqb k k0); [exact H|]. apply IH. exact H.
Qed.

Theorem token_iff_same_origin ks k1 k2 t1 t2 :
  KND ks -> find_key k1 ks 1 = Some t1 -> find_key k2 ks 1 = Some t2 ->
  (t1 = t2 <-> key_eqb k1 k2 = true).
Proof.
  intros Hk H1 H2. apply find_key_some in H1, H2.
  destruct H1 as (j1 & k1' & -> & Hn1 & He1 & _), H2 as (j2 & k2' & -> & Hn2 & He2 & _).
  split.
  - intros E. assert (j1 = j2) by lia. subst. rewrite Hn1 in Hn2. inversion Hn2; subst.
    eapply key_eqb_trans; [exact He1|]. rewrite key_eqb_sym. exact He2.
  - intros E. assert (key_eqb k1' k2' = true).
    { eapply key_eqb_trans; [rewrite key_eqb_sym; exact He1|]. eapply key_eqb_trans; [exact E|exact He2]. }
    rewrite (Hk j1 j2 k1' k2'); auto.
Qed.

(* ------------------------------------------------------------------ idle pop (C05, C04) *)
Lemma nth_error_upd_nth {A} (f : A -> A) : forall l i j,
  nth_error (upd_nth i f l) j = if Nat.eqb i j then option_map f (nth_error l j) else nth_error l j.
Proof.
  induction l as [|x l IH]; intros i j.
  - destruct i, j; cbn; try reflexivity. destruct (Nat.eqb i j); reflexivity.
  - destruct i, j; cbn [upd_nth nth_error Nat.eqb option_map]; try reflexivity. apply IH.
Qed.

Lemma is_open_upd_refs c' v c s : is_open (upd_conn c' (c_set_refs v) s) c = is_open s c.
Proof.
  unfold is_open, get_conn, upd_conn. cbn [conns set_conns]. rewrite nth_error_upd_nth.
  destruct (Nat.eqb c' c); [|reflexivity]. destruct (nth_error (conns s) c); reflexivity.
Qed.

Lemma is_open_drop_conn c' c s : is_open (drop_conn c' s) c = is_open s c.
Proof.
  unfold drop_conn. destruct (get_conn s c') as [cn|] eqn:Hg; [|reflexivity].
  destruct (Nat.pred (c_refs cn) =? 0); apply is_open_upd_refs.
Qed.

Lemma is_open_drop_all l : forall s c, is_open (drop_all l s) c = is_open s c.
Proof. induction l as [|[c0 a] l IH]; intros s c; cbn [drop_all]; [reflexivity|]. rewrite IH. apply is_open_drop_conn. Qed.

(* whatever the idle pop returns is open at that instant, was an entry of the list, and is not older
   than the expiry threshold *)
Theorem pop_loop_some thr : forall rl s c rest s',
  pop_loop thr rl s = (Some c, rest, s') ->
  is_open s c = true /\ s' = s' /\ exists at_, In (c, at_) rl /\ match thr with Some y => (at_ <? y)%N = false | None => True end.
Proof.
  induction rl as [|[c0 a] rl IH]; intros s c rest s' H; cbn [pop_loop] in H; [discriminate|].
  destruct (match thr with Some y => (a <? y)%N | None => false end) eqn:Ex; [discriminate|].
  destruct (is_open s c0) eqn:Eo.
  - inversion H; subst. split; [exact Eo|]. split; [reflexivity|]. exists a. split; [left; reflexivity|].
    destruct thr; [exact Ex|exact I].
  - apply IH in H. destruct H as (Ho & _ & at_ & Hin & Hthr). rewrite is_open_drop_conn in Ho.
    split; [exact Ho|]. split; [reflexivity|]. exists at_. split; [right; exact Hin|exact Hthr].
Qed.

(* ------------------------------------------------------------------ push offers before it parks (C14) *)
(* a non-shareable connection is moved to the first live waiter, if there is one *)
Theorem walk_moves_to_live_waiter t c : forall ws s,
  existsb (fun w => rx_live s (fst w)) ws = true ->
  snd (fst (walk_waiters t c false ws s)) = true.
Proof.
  induction ws as [|[w b] ws IH]; intros s H; cbn [existsb walk_waiters fst] in *; [discriminate|].
  destruct (rx_live s w) eqn:E; [reflexivity|]. cbn [orb] in H. apply IH. exact H.
Qed.

(* hence it is not added to the idle list *)
Theorem push_offers_first n t c s :
  share_of s c = false ->
  existsb (fun w => rx_live s (fst w)) (p_waiting (get_tok s t)) = true ->
  p_idle (get_tok (pool_push n t c s) t) = p_idle (get_tok s t).
Proof.
  intros Hs Hl. unfold pool_push. rewrite Hs. cbv zeta. rewrite Hs.
  pose proof (walk_moves_to_live_waiter t c (p_waiting (get_tok s t)) s Hl) as Hm.
  pose proof (toks_walk_waiters t c false (p_waiting (get_tok s t)) s) as Ht.
  destruct (walk_waiters t c false (p_waiting (get_tok s t)) s) as [[rest moved] s2]. cbn [fst snd] in *. subst moved.
  destruct t as [|i]; [reflexivity|]. cbn [get_tok upd_tok toks set_toks]. rewrite Ht.
  clear. revert i. generalize (toks s). induction l as [|p l IH]; intros i; destruct i; cbn; auto.
Qed.

