(* More unbounded lemmas about the primitives behind C03, C04 and C14 (all states, all inputs). *)
From HD Require Import common.Base http.Model pool.Model pool.Spec pool.Frames pool.ProofsLite.
Local Open Scope list_scope.

(* ------------------------------------------------------------------ C14 / C03: the waiter *)
(* D3 repaired: a connecting checkout's receiver survives a NotReady poll *)
Theorem waiter_idle_keeps_receiver ck :
  k_waiter ck = WIdle -> k_slot ck = None -> k_txdropped ck = false ->
  fst (waiter_poll ck) = WContinue /\ k_waiter (snd (waiter_poll ck)) = WIdle /\ k_rxpolled (snd (waiter_poll ck)) = true.
Proof. intros H1 H2 H3. unfold waiter_poll. rewrite H1, H2, H3. cbn. auto. Qed.

(* a delivered connection is taken at the very next poll, whatever the checkout was doing *)
Theorem waiter_takes_delivery ck p :
  k_waiter ck <> WNoPool -> k_slot ck = Some p -> fst (waiter_poll ck) = WConnected p.
Proof. intros H1 H2. unfold waiter_poll. destruct (k_waiter ck); try contradiction; rewrite H2; reflexivity. Qed.

(* a checkout waiting for another request's attempt stays pending exactly while its sender is
   alive and silent, and is released (falls through to Unavailable) when the sender is dropped *)
Theorem pure_waiter_pending ck :
  k_waiter ck = WConnecting -> k_slot ck = None ->
  fst (waiter_poll ck) = if k_txdropped ck then WContinue else WPending.
Proof. intros H1 H2. unfold waiter_poll. rewrite H1, H2. destruct (k_txdropped ck); reflexivity. Qed.

(* wake-ups: delivering into, or dropping the sender of, a channel whose receiver registered a waker
   wakes that request *)
Lemma woken_upd_true r l : r < List.length l -> nth r (upd_nth r (fun _ => true) l) false = true.
Proof. revert r. induction l as [|b l IH]; intros r H; cbn in H; [lia|]. destruct r; cbn; [reflexivity|]. apply IH. lia. Qed.

Theorem deliver_wakes w p s ck :
  get_req s w = Some (RCheckout ck) -> k_rxpolled ck = true -> w < List.length (woken s) ->
  nth w (woken (deliver w p s)) false = true.
Proof. intros H1 H2 H3. unfold deliver. rewrite H1, H2. cbn. apply woken_upd_true. exact H3. Qed.

Theorem drop_sender_wakes w s ck :
  get_req s w = Some (RCheckout ck) -> k_waiter ck <> WNoPool -> k_rxpolled ck = true -> w < List.length (woken s) ->
  nth w (woken (drop_sender w s)) false = true.
Proof.
  intros H1 H2 H3 H4. unfold drop_sender. rewrite H1. destruct (k_waiter ck); try contradiction; rewrite H3; cbn; apply woken_upd_true; exact H4.
Qed.

Theorem dial_done_wakes_request r x s d :
  get_dial s r = Some d -> d_stage d = DInFlight -> d_polled d = Some ByReq -> r < List.length (woken s) ->
  nth r (woken (do_dial_done r x s)) false = true.
Proof. intros H1 H2 H3 H4. unfold do_dial_done. rewrite H1, H2, H3. cbn. apply woken_upd_true. exact H4. Qed.

Theorem finish_wakes_holder r s p fin :
  get_req s r = Some (RHolding p fin true) -> r < List.length (woken s) ->
  nth r (woken (do_finish r s)) false = true.
Proof. intros H1 H2. unfold do_finish. rewrite H1. cbn. apply woken_upd_true. exact H2. Qed.

(* ------------------------------------------------------------------ C14: abandoned attempts *)
(* dropping a checkout re-spawns its connector iff it was created with continue_after_preemption
   (IDelayDrop) AND its dial has started (D16 repair); otherwise the dial is dropped *)
Theorem abandoned_dial_continues cfg rid ck s d :
  k_inner ck = IDelayDrop -> k_conn ck = None -> get_dial s rid = Some d -> d_stage d <> DNew ->
  exists s1, checkout_drop cfg rid ck s = snd (rx_drop ck s1)
             /\ s1 = spawn (TDelayed rid (k_token ck) (k_owner ck)) s.
Proof.
  intros H1 H2 H3 H4. unfold checkout_drop. rewrite H1, H2, H3.
  assert (E : match d_stage d with DNew => false | _ => true end = true) by (destruct (d_stage d); auto; contradiction).
  rewrite E. eexists. split; [|reflexivity].
  destruct (rx_drop ck (spawn (TDelayed rid (k_token ck) (k_owner ck)) s)). reflexivity.
Qed.

Theorem unstarted_dial_not_continued cfg rid ck s d d' :
  k_inner ck = IDelayDrop -> k_conn ck = None -> get_dial s rid = Some d -> d_stage d = DNew ->
  get_dial (checkout_drop cfg rid ck s) rid = Some d' -> d_stage d' = DGone.
Proof.
  intros H1 H2 H3 H4. unfold checkout_drop. rewrite H1, H2, H3, H4.
  match goal with |- context [rx_drop ck ?x] => destruct (rx_drop ck x) as [ck' s3] end.
  unfold get_dial, upd_dial. cbn [dials set_dials]. rewrite nth_error_upd_nth, Nat.eqb_refl.
  destruct (nth_error (dials s3) rid); cbn; intros H; inversion H; reflexivity.
Qed.

Theorem abandoned_dial_dropped cfg rid ck s d :
  k_inner ck = IConnecting -> get_dial (checkout_drop cfg rid ck s) rid = Some d -> d_stage d = DGone.
Proof.
  intros H1. unfold checkout_drop. rewrite H1.
  match goal with |- context [rx_drop ck ?x] => destruct (rx_drop ck x) as [ck' s3] end.
  unfold get_dial, upd_dial. cbn [dials set_dials]. rewrite nth_error_upd_nth, Nat.eqb_refl.
  destruct (nth_error (dials s3) rid); cbn; intros H; inversion H; reflexivity.
Qed.

(* ------------------------------------------------------------------ C04: no connector, no dial *)
(* the transport connect event is emitted only for a dial that is still New ... *)
Theorem edial_only_from_new rid b s :
  (forall d, get_dial s rid = Some d -> d_stage d <> DNew) ->
  out (snd (connector_poll rid b s)) = out s
  \/ exists c sh, out (snd (connector_poll rid b s)) = ENew c sh rid :: out s.
Proof.
  intros H. unfold connector_poll. destruct (get_dial s rid) as [d|] eqn:Hd; [|left; reflexivity].
  specialize (H d eq_refl). destruct (d_stage d) as [| |[a| |]|]; try (left; reflexivity); [contradiction|].
  right. eexists _, _. reflexivity.
Qed.

(* ... and a request whose Issue found a usable idle connection, or found an attempt in progress, is
   created without a connector (its dial is Gone from the start) *)
Theorem issue_popped_has_no_connector cfg u p s k t s1 c s2 :
  nth u (g_uris cfg) None = Some k -> g_pool cfg = true ->
  key_insert k (set_woken (woken s ++ [false]) s) = (t, s1) ->
  pool_pop (g_timeout cfg) t s1 = (Some c, s2) ->
  nth_error (dials (do_issue cfg u p s)) (List.length (dials s2)) = Some (mkDial DGone p k (Some k) None).
Proof.
  intros Hu Hp Hk Hpop. unfold do_issue. rewrite Hu, Hp. cbn [negb]. rewrite Hk, Hpop.
  cbn [dials set_dials set_reqs]. rewrite nth_error_app2, Nat.sub_diag by lia. reflexivity.
Qed.

Theorem issue_waiting_has_no_connector cfg u p s k t s1 s2 :
  nth u (g_uris cfg) None = Some k -> g_pool cfg = true ->
  key_insert k (set_woken (woken s ++ [false]) s) = (t, s1) ->
  pool_pop (g_timeout cfg) t s1 = (None, s2) ->
  (exists o, p_marker (get_tok s2 t) = Some o) ->
  exists s3, nth_error (dials (do_issue cfg u p s)) (List.length (dials s3)) = Some (mkDial DGone p k (Some k) None)
             /\ dials s3 = dials s2.
Proof.
  intros Hu Hp Hk Hpop [o Hm]. unfold do_issue. rewrite Hu, Hp. cbn [negb]. rewrite Hk, Hpop. cbv zeta. rewrite Hm.
  exists (upd_tok t (fun q => set_waiting (p_waiting q ++ [(List.length (reqs s), true)]) q) s2).
  split; [|destruct t; reflexivity].
  cbn [dials set_dials set_reqs]. rewrite nth_error_app2, Nat.sub_diag by lia. reflexivity.
Qed.
