(* C03, liveness half, part 2: the ownership / scheduling invariant [Lv] of the pool model: every
   in-progress mark has a living owner (a checkout, or a delayed connector task), every checkout that
   waits for somebody else's attempt is queued under a marked token, every delayed connector task is
   scheduled or registered with its dial. *)
From HD Require Import common.Base http.Model pool.Model pool.Spec pool.Frames pool.ProofsLite pool.FramesC06 pool.FramesC03 pool.ProofsC03 pool.LiveC03.
Local Open Scope list_scope.

Definition conn_inner (i : inner) : bool := match i with IConnecting | IDelayDrop | IDelayed => true | _ => false end.
Definition live_stage (g : dstage) : bool := match g with DNew | DInFlight | DResolved _ => true | DGone => false end.

Definition ck_ok (cfg : config) (s : state) (r : nat) (ck : checkout) : Prop :=
  (k_inner ck = IWaiting -> k_owner ck = false)
  /\ (k_owner ck = true -> g_pool cfg = true /\ k_token ck <> 0)
  /\ (k_inner ck = IConnected -> k_conn ck <> None)
  /\ k_inner ck <> IDelayed
  /\ (k_waiter ck = WConnecting -> k_inner ck = IWaiting)
  /\ (stuckb ck = true -> marker s (k_token ck) <> None /\ In (r, true) (waiting s (k_token ck))).

Definition owns (s : state) (o t : nat) : Prop :=
  (exists ck, get_req s o = Some (RCheckout ck) /\ k_owner ck = true /\ k_token ck = t)
  \/ (exists tid, nth tid (tasks s) None = Some (TDelayed o t true)).

Definition nlv (s : state) (r : nat) : Prop := exists rq, get_req s r = Some rq /\ is_lv rq = false.

Definition task_ok (cfg : config) (s : state) (tid rid t : nat) (own : bool) : Prop :=
  nlv s rid
  /\ (own = true -> g_pool cfg = true /\ t <> 0)
  /\ exists d, get_dial s rid = Some d
               /\ ((rs_stage d = true /\ In tid (runq s))
                   \/ (d_stage d = DInFlight /\ (In tid (runq s) \/ d_polled d = Some (ByTask tid)))).

Record Lv (cfg : config) (xr xd : option nat) (s : state) : Prop := mkLv {
  l_ck : forall r ck, get_req s r = Some (RCheckout ck) -> xr <> Some r -> ck_ok cfg s r ck;
  l_dial : forall r ck, get_req s r = Some (RCheckout ck) -> xr <> Some r -> xd <> Some r ->
           conn_inner (k_inner ck) = true -> exists d, get_dial s r = Some d /\ live_stage (d_stage d) = true;
  l_mark : forall t o, marker s t = Some o -> xr <> Some o -> xd <> Some o -> owns s o t;
  l_task : forall tid rid t own, nth tid (tasks s) None = Some (TDelayed rid t own) -> xr <> Some rid -> xd <> Some rid ->
           task_ok cfg s tid rid t own;
  l_uniq : forall tid1 tid2 rid t1 o1 t2 o2,
           nth tid1 (tasks s) None = Some (TDelayed rid t1 o1) -> nth tid2 (tasks s) None = Some (TDelayed rid t2 o2) ->
           xd <> Some rid -> tid1 = tid2
}.

Lemma req_rel_nlv xr xd s s' r : Fr xr xd xd s s' -> xr <> Some r -> nlv s r -> nlv s' r.
Proof.
  intros F Hx [rq [Hr Hl]]. destruct (f_req _ _ _ _ _ F r) as [E|Hrel]; [congruence|]. rewrite Hr in Hrel.
  destruct rq as [|ck|p f pl| |]; try discriminate; cbn in Hrel; exact Hrel.
Qed.

Lemma owns_Tr xr xd s s' o t : Fr xr xd xd s s' -> xr <> Some o -> xd <> Some o -> owns s o t -> owns s' o t.
Proof.
  intros F Hr Hd [[ck [Hq [Ho Ht]]]|[tid Hn]].
  - left. destruct (f_req _ _ _ _ _ F o) as [E|Hrel]; [congruence|]. rewrite Hq in Hrel. cbn in Hrel.
    destruct Hrel as [ck' [E (T1 & T2 & _)]]. exists ck'. repeat split; congruence.
  - right. destruct (f_keep _ _ _ _ _ F _ _ _ _ Hn) as [E|E]; [eauto|congruence].
Qed.

Lemma Lv_Tr cfg xr xd s s' : Lv cfg xr xd s -> Tr xr xd xd s s' -> Lv cfg xr xd s'.
Proof.
  intros [A1 A2 A3 A4 A5] [F T]. constructor.
  - intros r ck' Hr' Hx. destruct (f_req _ _ _ _ _ F r) as [E|Hrel]; [congruence|]. rewrite Hr' in Hrel.
    destruct (req_rel_ck_inv _ _ Hrel) as [ck [Hr (T1 & T2 & T3 & T4 & T5 & T6)]].
    destruct (A1 r ck Hr Hx) as (B1 & B2 & B3 & B4 & B6 & B5). unfold ck_ok. rewrite T1, T2, T3, T4, T6.
    repeat split; auto; try (apply B2; assumption); try (rewrite <- T1; apply (t_wait _ _ _ T r ck' Hx Hr' H); rewrite T1; apply B5; auto).
  - intros r ck' Hr' Hx Hd Hc. destruct (f_req _ _ _ _ _ F r) as [E|Hrel]; [congruence|]. rewrite Hr' in Hrel.
    destruct (req_rel_ck_inv _ _ Hrel) as [ck [Hr (T1 & T2 & T3 & T4 & T5 & T6)]].
    rewrite (f_dial _ _ _ _ _ F r Hd). apply (A2 r ck Hr Hx Hd). rewrite <- T3. exact Hc.
  - intros t o Hm Hx Hd. eapply owns_Tr; eauto. apply A3; auto. apply (t_mark _ _ _ T). exact Hm.
  - intros tid rid t own Hn Hx Hd. destruct (f_new _ _ _ _ _ F _ _ _ _ Hn) as [Hn0|E]; [|congruence].
    destruct (A4 _ _ _ _ Hn0 Hx Hd) as (B1 & B2 & d & B3 & B4). split; [eapply req_rel_nlv; eauto|]. split; [exact B2|].
    exists d. rewrite (f_dial _ _ _ _ _ F rid Hd). split; [exact B3|].
    destruct B4 as [[C1 C2]|[C1 [C2|C2]]].
    + left. split; [exact C1|apply (Fr_runq_in _ _ _ _ _ _ F); exact C2].
    + right. split; [exact C1|left; apply (Fr_runq_in _ _ _ _ _ _ F); exact C2].
    + right. split; [exact C1|right; exact C2].
  - intros tid1 tid2 rid t1 o1 t2 o2 H1 H2 Hd.
    destruct (f_new _ _ _ _ _ F _ _ _ _ H1) as [G1|E]; [|congruence]. destruct (f_new _ _ _ _ _ F _ _ _ _ H2) as [G2|E]; [|congruence].
    eapply A5; eauto.
Qed.

Lemma Lv_open cfg xr xd s : Lv cfg None None s -> Lv cfg xr xd s.
Proof.
  intros [A1 A2 A3 A4 A5]. constructor.
  - intros r ck H _. apply A1; [exact H|discriminate].
  - intros r ck H _ _. apply A2; [exact H|discriminate|discriminate].
  - intros t o H _ _. apply A3; [exact H|discriminate|discriminate].
  - intros tid rid t own H _ _. apply A4; [exact H|discriminate|discriminate].
  - intros tid1 tid2 rid t1 o1 t2 o2 H1 H2 _. eapply A5; eauto. discriminate.
Qed.

Definition ex2 (xr xd : option nat) (r : nat) : Prop := xr = Some r \/ xd = Some r.

Lemma ex2_dec xr xd r : ex2 xr xd r \/ (xr <> Some r /\ xd <> Some r).
Proof.
  unfold ex2. destruct xr as [a|], xd as [b|]; try (destruct (Nat.eq_dec a r) as [->|Ha]); try (destruct (Nat.eq_dec b r) as [->|Hb]);
    auto; right; split; congruence.
Qed.

Lemma Lv_close cfg xr xd s :
  Lv cfg xr xd s ->
  (forall r ck, xr = Some r -> get_req s r = Some (RCheckout ck) -> ck_ok cfg s r ck) ->
  (forall r ck, ex2 xr xd r -> get_req s r = Some (RCheckout ck) -> conn_inner (k_inner ck) = true ->
     exists d, get_dial s r = Some d /\ live_stage (d_stage d) = true) ->
  (forall t o, ex2 xr xd o -> marker s t = Some o -> owns s o t) ->
  (forall tid rid t own, ex2 xr xd rid -> nth tid (tasks s) None = Some (TDelayed rid t own) -> task_ok cfg s tid rid t own) ->
  (forall tid1 tid2 rid t1 o1 t2 o2, xd = Some rid ->
     nth tid1 (tasks s) None = Some (TDelayed rid t1 o1) -> nth tid2 (tasks s) None = Some (TDelayed rid t2 o2) -> tid1 = tid2) ->
  Lv cfg None None s.
Proof.
  intros [A1 A2 A3 A4 A5] B1 B2 B3 B4 B5. constructor.
  - intros r ck H _. destruct xr as [a|]; [destruct (Nat.eq_dec a r) as [->|Ha]|]; [apply B1; auto|apply A1; congruence|apply A1; [exact H|discriminate]].
  - intros r ck H _ _ Hc. destruct (ex2_dec xr xd r) as [E|[E1 E2]]; [eapply B2; eauto|eapply A2; eauto].
  - intros t o H _ _. destruct (ex2_dec xr xd o) as [E|[E1 E2]]; [eapply B3; eauto|eapply A3; eauto].
  - intros tid rid t own H _ _. destruct (ex2_dec xr xd rid) as [E|[E1 E2]]; [eapply B4; eauto|eapply A4; eauto].
  - intros tid1 tid2 rid t1 o1 t2 o2 H1 H2 _.
    destruct xd as [b|]; [destruct (Nat.eq_dec b rid) as [->|Hb]|]; [eapply B5; eauto|eapply A5; eauto; congruence|eapply A5; eauto; discriminate].
Qed.

Lemma marker_pool_cancel t rid s : marker (pool_cancel t rid s) t <> Some rid.
Proof.
  unfold pool_cancel. destruct (p_marker (get_tok s t)) as [o|] eqn:Hm; [|unfold marker; rewrite Hm; discriminate].
  destruct (Nat.eqb_spec o rid) as [->|Hne]; [|unfold marker; rewrite Hm; congruence].
  destruct (release_pending _ _) as [rest s2] eqn:Hrel.
  rewrite marker_upd_waiting. unfold marker.
  assert (Ht : toks s2 = toks (upd_tok t (set_marker None) s)).
  { pose proof (toks_release_pending (p_waiting (get_tok (upd_tok t (set_marker None) s) t)) (upd_tok t (set_marker None) s)) as H.
    rewrite Hrel in H. exact H. }
  assert (Hg : get_tok s2 t = get_tok (upd_tok t (set_marker None) s) t) by (destruct t; cbn [get_tok]; [reflexivity|rewrite Ht; reflexivity]).
  rewrite Hg. destruct t as [|i]; [cbn; discriminate|].
  destruct (Nat.lt_ge_cases i (List.length (toks s))) as [Hl|Hl].
  - rewrite tok_upd_same by exact Hl. cbn. discriminate.
  - cbn [get_tok] in Hm. rewrite nth_overflow in Hm by exact Hl. discriminate.
Qed.

Definition no_task (s : state) (rid : nat) : Prop := forall tid t own, nth tid (tasks s) None <> Some (TDelayed rid t own).

Lemma no_task_Tr s s' rid : Fr None None None s s' -> no_task s rid -> no_task s' rid.
Proof. intros F H tid t own E. destruct (f_new _ _ _ _ _ F _ _ _ _ E) as [E1|E1]; [exact (H _ _ _ E1)|discriminate]. Qed.

Lemma get_dial_Tr s s' r : Fr None None None s s' -> get_dial s' r = get_dial s r.
Proof. intros F. apply (f_dial _ _ _ _ _ F). discriminate. Qed.

(* what dropping the checkout of request [rid] leaves behind *)
Lemma checkout_drop_post cfg rid ck s :
  no_task s rid ->
  let s' := checkout_drop cfg rid ck s in
  (forall tid t own, nth tid (tasks s') None = Some (TDelayed rid t own) ->
     t = k_token ck /\ own = k_owner ck /\ In tid (runq s') /\ get_dial s' rid = get_dial s rid
     /\ (exists d, get_dial s rid = Some d /\ d_stage d <> DNew) /\ k_inner ck = IDelayDrop)
  /\ (forall tid1 tid2 t1 o1 t2 o2, nth tid1 (tasks s') None = Some (TDelayed rid t1 o1) ->
        nth tid2 (tasks s') None = Some (TDelayed rid t2 o2) -> tid1 = tid2)
  /\ (forall t, marker s' t = Some rid -> k_owner ck = true -> k_token ck = t -> g_pool cfg = true -> t <> 0 ->
        exists tid, nth tid (tasks s') None = Some (TDelayed rid t true)).
Proof.
  intros Hno. unfold checkout_drop.
  set (s1 := match k_conn ck with
             | Some c => if is_open s c && (g_pool cfg && negb (k_token ck =? 0)) then pool_push (g_max_idle cfg) (k_token ck) c s else drop_conn c s
             | None => s end).
  assert (H1 : Tr None None None s s1).
  { subst s1. destruct (k_conn ck) as [c|]; [|apply Tr_refl].
    destruct (is_open s c && (g_pool cfg && negb (k_token ck =? 0))); [apply Tr_pool_push|apply Tr_drop_conn]. }
  pose proof (no_task_Tr _ _ rid (proj1 H1) Hno) as Hno1.
  pose proof (get_dial_Tr _ _ rid (proj1 H1)) as Hd1.
  set (started := match get_dial s1 rid with Some d => match d_stage d with DNew => false | _ => true end | None => false end).
  set (delayed := match k_inner ck with IDelayDrop => started | _ => false end).
  destruct delayed eqn:Hdel.
  - (* the connector continues in a task *)
    assert (Hi : k_inner ck = IDelayDrop /\ started = true) by (subst delayed; destruct (k_inner ck); try discriminate; auto).
    destruct Hi as [Hi Hst]. rewrite Hi.
    set (s2 := spawn (TDelayed rid (k_token ck) (k_owner ck)) s1).
    pose proof (Tr_rx_drop ck s2) as H3. destruct (rx_drop ck s2) as [ck' s3]. cbn [snd] in H3. cbv zeta.
    set (n := List.length (tasks s1)).
    assert (Hn2 : nth n (tasks s2) None = Some (TDelayed rid (k_token ck) (k_owner ck))).
    { subst s2 n. unfold spawn. cbn [tasks set_tasks set_runq]. rewrite app_nth2, Nat.sub_diag by lia. reflexivity. }
    assert (Hq2 : In n (runq s2)) by (subst s2 n; unfold spawn; cbn; apply in_or_app; right; left; reflexivity).
    assert (Hinv : forall tid t own, nth tid (tasks s3) None = Some (TDelayed rid t own) -> tid = n /\ t = k_token ck /\ own = k_owner ck).
    { intros tid t own E. destruct (f_new _ _ _ _ _ (proj1 H3) _ _ _ _ E) as [E2|E2]; [|discriminate].
      subst s2. unfold spawn in E2. cbn [tasks set_tasks set_runq] in E2.
      destruct (Nat.lt_ge_cases tid (List.length (tasks s1))) as [Hl|Hl]; [rewrite app_nth1 in E2 by exact Hl; destruct (Hno1 _ _ _ E2)|].
      rewrite app_nth2 in E2 by exact Hl. destruct (tid - List.length (tasks s1)) as [|[|k]] eqn:Ek; cbn in E2; try discriminate.
      inversion E2. subst n. split; [lia|auto]. }
    assert (Hd3 : get_dial s3 rid = get_dial s rid).
    { rewrite (get_dial_Tr _ _ rid (proj1 H3)). subst s2. unfold spawn, get_dial. cbn [dials set_tasks set_runq]. exact Hd1. }
    split; [|split].
    + intros tid t own E. destruct (Hinv _ _ _ E) as (-> & -> & ->). repeat split; auto.
      * apply (Fr_runq_in _ _ _ _ _ _ (proj1 H3)). exact Hq2.
      * clear Hdel. subst started. rewrite Hd1 in Hst. destruct (get_dial s rid) as [d|]; [|discriminate]. exists d. split; [reflexivity|].
        intros E0. rewrite E0 in Hst. discriminate.
    + intros tid1 tid2 t1 o1 t2 o2 E1 E2. destruct (Hinv _ _ _ E1) as [-> _]. destruct (Hinv _ _ _ E2) as [-> _]. reflexivity.
    + intros t _ Ho Ht _ _. exists n. destruct (f_keep _ _ _ _ _ (proj1 H3) _ _ _ _ Hn2) as [E|E]; [|discriminate].
      rewrite E, Ho, Ht. reflexivity.
  - (* the attempt ends here *)
    set (s2 := if g_pool cfg && negb (k_token ck =? 0) && k_owner ck then pool_cancel (k_token ck) rid s1 else s1).
    assert (H2 : Tr None None None s1 s2) by (subst s2; destruct (g_pool cfg && negb (k_token ck =? 0) && k_owner ck); [apply Tr_pool_cancel|apply Tr_refl]).
    pose proof (Tr_rx_drop ck s2) as H3. destruct (rx_drop ck s2) as [ck' s3]. cbn [snd] in H3. cbv zeta.
    assert (Hno3 : no_task s3 rid) by (eapply no_task_Tr; [exact (proj1 H3)|]; eapply no_task_Tr; [exact (proj1 H2)|exact Hno1]).
    assert (Hm3 : forall t, marker s3 t = Some rid -> k_owner ck = true -> k_token ck = t -> g_pool cfg = true -> t <> 0 -> False).
    { intros t Hm Ho Ht Hp Hz. apply (t_mark _ _ _ (proj2 H3)) in Hm. subst s2. rewrite Hp, Ho, Ht in Hm.
      assert (E : negb (t =? 0) = true) by (destruct (Nat.eqb_spec t 0); [contradiction|reflexivity]). rewrite E in Hm. cbn in Hm.
      exact (marker_pool_cancel t rid s1 Hm). }
    assert (Hfin : forall sF, tasks sF = tasks s3 -> toks sF = toks s3 ->
      (forall tid t own, nth tid (tasks sF) None = Some (TDelayed rid t own) ->
         t = k_token ck /\ own = k_owner ck /\ In tid (runq sF) /\ get_dial sF rid = get_dial s rid
         /\ (exists d, get_dial s rid = Some d /\ d_stage d <> DNew) /\ k_inner ck = IDelayDrop)
      /\ (forall tid1 tid2 t1 o1 t2 o2, nth tid1 (tasks sF) None = Some (TDelayed rid t1 o1) ->
            nth tid2 (tasks sF) None = Some (TDelayed rid t2 o2) -> tid1 = tid2)
      /\ (forall t, marker sF t = Some rid -> k_owner ck = true -> k_token ck = t -> g_pool cfg = true -> t <> 0 ->
            exists tid, nth tid (tasks sF) None = Some (TDelayed rid t true))).
    { intros sF E1 E2. split; [|split].
      - intros tid t own E. rewrite E1 in E. destruct (Hno3 _ _ _ E).
      - intros tid1 tid2 t1 o1 t2 o2 E. rewrite E1 in E. destruct (Hno3 _ _ _ E).
      - intros t Hm Ho Ht Hp Hz. exfalso. apply (Hm3 t); auto.
        unfold marker in *. destruct t as [|i]; cbn [get_tok] in *; [exact Hm|]. rewrite E2 in Hm. exact Hm. }
    destruct (k_inner ck) eqn:Hi; apply Hfin; reflexivity.
Qed.

(* ---------------------------------------------------------------- one poll of a checkout, in detail *)
Lemma waiter_poll_fields ck :
  let ck1 := snd (waiter_poll ck) in
  k_token ck1 = k_token ck /\ k_owner ck1 = k_owner ck /\ k_inner ck1 = k_inner ck /\ k_conn ck1 = k_conn ck
  /\ (stuckb ck1 = true -> stuckb ck = true) /\ (k_waiter ck1 = WConnecting -> k_waiter ck = WConnecting).
Proof.
  unfold waiter_poll, stuckb. destruct (k_waiter ck) eqn:Hw, (k_slot ck) eqn:Hs, (k_txdropped ck) eqn:Ht; cbn;
    rewrite ?Hw, ?Hs, ?Ht; repeat split; auto; discriminate.
Qed.

Lemma connector_poll_pending_state rid b s :
  fst (connector_poll rid b s) = CPending ->
  let s2 := snd (connector_poll rid b s) in
  toks s2 = toks s /\ tasks s2 = tasks s /\ reqs s2 = reqs s /\ runq s2 = runq s
  /\ (forall r', r' <> rid -> get_dial s2 r' = get_dial s r')
  /\ (forall d, get_dial s rid = Some d -> live_stage (d_stage d) = true ->
        exists d', get_dial s2 rid = Some d' /\ d_stage d' = DInFlight /\ d_polled d' = Some b).
Proof.
  unfold connector_poll. destruct (get_dial s rid) as [d|] eqn:Hd; cbn [fst snd].
  2: { intros _. repeat split; auto. intros d E. discriminate. }
  destruct (d_stage d) as [| |[alpn| |]|] eqn:Hst; cbn [fst snd]; try discriminate; intros _; repeat split; auto;
    try (intros r' Hne; rewrite get_dial_upd_dial; destruct (Nat.eqb_spec rid r'); [congruence|reflexivity]).
  - intros d0 E _. inversion E; subst d0. rewrite get_dial_upd_dial, Nat.eqb_refl.
    change (get_dial (emit (EDial rid (d_key d)) s) rid) with (get_dial s rid). rewrite Hd. cbn. eauto.
  - intros d0 E _. inversion E; subst d0. exists (d_set_polled (Some b) d).
    split; [rewrite get_dial_upd_dial, Nat.eqb_refl, Hd; reflexivity|]. split; [exact Hst|reflexivity].
  - intros d0 E Hl. inversion E; subst d0. rewrite Hst in Hl. discriminate.
Qed.

Lemma checkout_poll_pending_shape cfg r ck s :
  fst (fst (checkout_poll cfg r ck s)) = KPending ->
  let ck1 := snd (fst (checkout_poll cfg r ck s)) in
  let s2 := snd (checkout_poll cfg r ck s) in
  (k_token ck1 = k_token ck /\ k_owner ck1 = k_owner ck /\ k_inner ck1 = k_inner ck /\ k_conn ck1 = k_conn ck
   /\ (stuckb ck1 = true -> stuckb ck = true) /\ (k_waiter ck1 = WConnecting -> k_waiter ck = WConnecting))
  /\ toks s2 = toks s /\ tasks s2 = tasks s /\ reqs s2 = reqs s /\ runq s2 = runq s
  /\ (forall r', r' <> r -> get_dial s2 r' = get_dial s r')
  /\ ((k_waiter ck = WConnecting -> k_inner ck = IWaiting) -> conn_inner (k_inner ck) = true ->
      forall d, get_dial s r = Some d -> live_stage (d_stage d) = true ->
      exists d', get_dial s2 r = Some d' /\ d_stage d' = DInFlight /\ d_polled d' = Some ByReq).
Proof.
  unfold checkout_poll. pose proof (waiter_poll_fields ck) as Hf. cbv zeta in Hf.
  assert (Hwp : fst (waiter_poll ck) = WPending -> k_waiter ck = WConnecting).
  { unfold waiter_poll. destruct (k_waiter ck), (k_slot ck), (k_txdropped ck); cbn; auto; discriminate. }
  destruct (waiter_poll ck) as [w ck1]. cbn [fst snd] in Hf, Hwp.
  destruct w as [|p|]; cbn [fst snd]; try discriminate.
  - intros _. split; [exact Hf|]. do 4 (split; [reflexivity|]). split; [auto|].
    intros Hsh Hc. rewrite (Hsh (Hwp eq_refl)) in Hc. discriminate.
  - destruct Hf as (F1 & F2 & F3 & F4 & F5 & F6).
    destruct (k_inner ck1) eqn:Hi; cbn [fst snd]; try discriminate.
    + destruct (k_conn ck1) eqn:Hk; cbn [fst snd].
      * destruct (rx_drop (k_set_conn None ck1) s) as [ck2 s2]. destruct (register cfg (k_token ck2) n _) as [p s3]. cbn [fst]. discriminate.
      * intros _. split; [repeat split; auto; congruence|]. do 4 (split; [reflexivity|]). split; [auto|].
        intros _ Hc. rewrite <- F3 in Hc. discriminate.
    + pose proof (connector_poll_pending_state r ByReq s) as Hq. destruct (connector_poll r ByReq s) as [[|res'] s1]; cbn [fst snd] in *.
      * intros _. destruct (Hq eq_refl) as (Q1 & Q2 & Q3 & Q4 & Q5 & Q6). split; [repeat split; auto; congruence|].
        do 4 (split; [assumption|]). split; [exact Q5|]. intros _ _ d Hd Hl. exact (Q6 d Hd Hl).
      * destruct (rx_drop ck1 s1) as [ck2 s2]. destruct res' as [c|e]; [destruct (register cfg _ c _) as [p s3]|]; cbn [fst]; discriminate.
    + pose proof (connector_poll_pending_state r ByReq s) as Hq. destruct (connector_poll r ByReq s) as [[|res'] s1]; cbn [fst snd] in *.
      * intros _. destruct (Hq eq_refl) as (Q1 & Q2 & Q3 & Q4 & Q5 & Q6). split; [repeat split; auto; congruence|].
        do 4 (split; [assumption|]). split; [exact Q5|]. intros _ _ d Hd Hl. exact (Q6 d Hd Hl).
      * destruct (rx_drop ck1 s1) as [ck2 s2]. destruct res' as [c|e]; [destruct (register cfg _ c _) as [p s3]|]; cbn [fst]; discriminate.
    + pose proof (connector_poll_pending_state r ByReq s) as Hq. destruct (connector_poll r ByReq s) as [[|res'] s1]; cbn [fst snd] in *.
      * intros _. destruct (Hq eq_refl) as (Q1 & Q2 & Q3 & Q4 & Q5 & Q6). split; [repeat split; auto; congruence|].
        do 4 (split; [assumption|]). split; [exact Q5|]. intros _ _ d Hd Hl. exact (Q6 d Hd Hl).
      * destruct (rx_drop ck1 s1) as [ck2 s2]. destruct res' as [c|e]; [destruct (register cfg _ c _) as [p s3]|]; cbn [fst]; discriminate.
Qed.

(* the checkout keeps its token and its ownership through a poll *)
Lemma checkout_poll_fields cfg r ck s :
  let ck1 := snd (fst (checkout_poll cfg r ck s)) in k_token ck1 = k_token ck /\ k_owner ck1 = k_owner ck.
Proof.
  unfold checkout_poll. pose proof (waiter_poll_fields ck) as Hf. cbv zeta in Hf.
  destruct (waiter_poll ck) as [w ck1]. cbn [fst snd] in Hf. destruct Hf as (F1 & F2 & _).
  destruct w as [|p|]; cbn [fst snd]; auto.
  destruct (k_inner ck1); cbn [fst snd]; auto.
  1: { destruct (k_conn ck1) as [c|]; cbn [fst snd]; auto.
       assert (E : k_token (fst (rx_drop (k_set_conn None ck1) s)) = k_token ck1 /\ k_owner (fst (rx_drop (k_set_conn None ck1) s)) = k_owner ck1)
         by (unfold rx_drop; destruct (k_waiter (k_set_conn None ck1)), (k_slot (k_set_conn None ck1)); cbn; auto).
       destruct (rx_drop (k_set_conn None ck1) s) as [ck2 s2]. destruct (register cfg (k_token ck2) c _) as [p s3]. cbn [fst snd] in *.
       destruct E; split; congruence. }
  all: destruct (connector_poll r ByReq s) as [[|res] s1]; cbn [fst snd]; auto;
    assert (E : k_token (fst (rx_drop ck1 s1)) = k_token ck1 /\ k_owner (fst (rx_drop ck1 s1)) = k_owner ck1)
      by (unfold rx_drop; destruct (k_waiter ck1), (k_slot ck1); cbn; auto);
    destruct (rx_drop ck1 s1) as [ck2 s2]; cbn [fst] in E; destruct E;
    (destruct res as [c|e]; [destruct (register cfg _ c _) as [p s3]|]); cbn [fst snd k_token k_owner k_set_inner]; split; congruence.
Qed.

(* ---------------------------------------------------------------- a request that is still waiting *)
Lemma Lv_lv_facts cfg s r :
  Lv cfg None None s -> islv s r = true ->
  no_task s r /\ (forall t, marker s t = Some r -> exists ck, get_req s r = Some (RCheckout ck) /\ k_owner ck = true /\ k_token ck = t).
Proof.
  intros H Hl.
  assert (Hno : no_task s r).
  { intros tid t own E. destruct (l_task _ _ _ _ H _ _ _ _ E) as [[rq [Hq Hv]] _]; try discriminate.
    unfold islv in Hl. rewrite Hq in Hl. congruence. }
  split; [exact Hno|]. intros t Hm. destruct (l_mark _ _ _ _ H t r Hm) as [Ho|[tid Ho]]; try discriminate; [exact Ho|].
  destruct (Hno _ _ _ Ho).
Qed.

Lemma nlv_of_get s r rq : get_req s r = Some rq -> is_lv rq = false -> nlv s r.
Proof. intros H1 H2. exists rq. auto. Qed.

(* the end of a checkout: the request has been given its new status, its checkout is dropped *)
Lemma Lv_finish cfg r ck ck1 s sA :
  Lv cfg None None s -> get_req s r = Some (RCheckout ck) ->
  Tr (Some r) (Some r) None s sA ->
  nlv sA r ->
  k_token ck1 = k_token ck -> k_owner ck1 = k_owner ck ->
  (conn_inner (k_inner ck1) = true -> k_inner ck1 = k_inner ck /\ get_dial sA r = get_dial s r) ->
  Lv cfg None None (checkout_drop cfg r ck1 sA).
Proof.
  intros H Hr HA Hnl Ht Ho Hc.
  assert (Hlv : islv s r = true) by (unfold islv; rewrite Hr; reflexivity).
  destruct (Lv_lv_facts cfg s r H Hlv) as [Hno Hown].
  assert (HnoA : no_task sA r).
  { intros tid t own E. destruct (f_new _ _ _ _ _ (proj1 HA) _ _ _ _ E) as [E1|E1]; [exact (Hno _ _ _ E1)|discriminate]. }
  pose proof (Tr_checkout_drop cfg r ck1 sA) as HD.
  assert (HT : Tr (Some r) (Some r) (Some r) s (checkout_drop cfg r ck1 sA)) by (eapply Tr_trans; [apply Tr_weaken_t; exact HA|exact HD]).
  pose proof (Lv_Tr _ _ _ _ _ (Lv_open cfg (Some r) (Some r) s H) HT) as HL.
  destruct (checkout_drop_post cfg r ck1 sA HnoA) as (Q1 & Q2 & Q3).
  set (sD := checkout_drop cfg r ck1 sA) in *.
  assert (HnlD : nlv sD r).
  { destruct Hnl as [rq [Hq Hv]]. exists rq. split; [|exact Hv]. apply (nock_checkout_drop cfg r ck1 sA r rq Hq).
    destruct rq; try discriminate; reflexivity. }
  assert (HckD : forall ck', get_req sD r = Some (RCheckout ck') -> False).
  { intros ck' E. destruct HnlD as [rq [Hq Hv]]. rewrite Hq in E. inversion E; subst. discriminate. }
  destruct (l_ck _ _ _ _ H r ck Hr) as (C1 & C2 & C3 & C4 & C5 & C6); [discriminate|].
  apply (Lv_close cfg (Some r) (Some r) sD HL).
  - intros r' ck' E Hq. inversion E; subst r'. destruct (HckD _ Hq).
  - intros r' ck' [E|E] Hq; inversion E; subst r'; destruct (HckD _ Hq).
  - intros t o Ex Hm. assert (o = r) by (destruct Ex as [E|E]; inversion E; reflexivity). subst o.
    pose proof (t_mark _ _ _ (proj2 HT) _ _ Hm) as Hm0. destruct (Hown t Hm0) as [ck0 [E0 [Ho0 Ht0]]].
    rewrite Hr in E0. inversion E0; subst ck0. destruct (C2 Ho0) as [Hp Hz].
    right. apply Q3; try congruence.
  - intros tid rid t own Ex Hn. assert (rid = r) by (destruct Ex as [E|E]; inversion E; reflexivity). subst rid.
    destruct (Q1 _ _ _ Hn) as (-> & -> & Hq & Hd & [d [Hd0 Hst]] & Hi).
    split; [exact HnlD|]. split; [intros E; rewrite Ho in E; rewrite Ht; apply C2; exact E|].
    destruct (Hc ltac:(rewrite Hi; reflexivity)) as [Hi0 Hd1]. rewrite Hi in Hi0.
    destruct (l_dial _ _ _ _ H r ck Hr) as [d0 [Hd2 Hl0]]; try discriminate; [rewrite <- Hi0; reflexivity|].
    rewrite Hd1, Hd2 in Hd0. inversion Hd0; subst d0.
    exists d. split; [rewrite Hd, Hd1; exact Hd2|].
    destruct (d_stage d) eqn:Es; try discriminate; [contradiction Hst; reflexivity|right; auto|left; split; [unfold rs_stage; rewrite Es; reflexivity|exact Hq]].
  - intros tid1 tid2 rid t1 o1 t2 o2 E H1 H2. inversion E; subst rid. eapply Q2; eauto.
Qed.

Lemma checkout_poll_ready_inner cfg r ck s y :
  fst (fst (checkout_poll cfg r ck s)) = KReady y ->
  conn_inner (k_inner (snd (fst (checkout_poll cfg r ck s)))) = true ->
  k_inner (snd (fst (checkout_poll cfg r ck s))) = k_inner ck /\ get_dial (snd (checkout_poll cfg r ck s)) r = get_dial s r.
Proof.
  unfold checkout_poll. pose proof (waiter_poll_fields ck) as Hf. cbv zeta in Hf.
  destruct (waiter_poll ck) as [w ck1]. cbn [fst snd] in Hf. destruct Hf as (_ & _ & F3 & _).
  destruct w as [|p|]; cbn [fst snd]; try discriminate; auto.
  destruct (k_inner ck1) eqn:Hi; cbn [fst snd]; try discriminate.
  - intros _ Hc. rewrite Hi in Hc. discriminate.
  - destruct (k_conn ck1) as [c|]; cbn [fst snd]; [|discriminate].
    assert (E : k_inner (fst (rx_drop (k_set_conn None ck1) s)) = k_inner ck1)
      by (unfold rx_drop; destruct (k_waiter (k_set_conn None ck1)), (k_slot (k_set_conn None ck1)); cbn; auto).
    destruct (rx_drop (k_set_conn None ck1) s) as [ck2 s2]. destruct (register cfg (k_token ck2) c _) as [p s3]. cbn [fst snd] in *.
    intros _ Hc. rewrite E, Hi in Hc. discriminate.
  - destruct (connector_poll r ByReq s) as [[|res] s1]; cbn [fst snd]; [discriminate|].
    destruct (rx_drop ck1 s1) as [ck2 s2]. destruct res as [c|e]; [destruct (register cfg _ c _) as [p s3]|]; cbn [fst snd]; intros _ Hc; discriminate.
  - destruct (connector_poll r ByReq s) as [[|res] s1]; cbn [fst snd]; [discriminate|].
    destruct (rx_drop ck1 s1) as [ck2 s2]. destruct res as [c|e]; [destruct (register cfg _ c _) as [p s3]|]; cbn [fst snd]; intros _ Hc; discriminate.
  - destruct (connector_poll r ByReq s) as [[|res] s1]; cbn [fst snd]; [discriminate|].
    destruct (rx_drop ck1 s1) as [ck2 s2]. destruct res as [c|e]; [destruct (register cfg _ c _) as [p s3]|]; cbn [fst snd]; intros _ Hc; discriminate.
Qed.

Lemma Lv_do_cancel cfg r s : Lv cfg None None s -> Lv cfg None None (do_cancel cfg r s).
Proof.
  intros H. unfold do_cancel. destruct (get_req s r) as [[|ck|p fin pl| |]|] eqn:Hr; try exact H.
  - (* an unusable URI: nothing hangs on it *)
    assert (Hlv : islv s r = true) by (unfold islv; rewrite Hr; reflexivity).
    destruct (Lv_lv_facts cfg s r H Hlv) as [Hno Hown].
    assert (HT : Tr (Some r) None None s (unwake_req r (set_req r RCancelled s)))
      by (eapply Tr_trans; [apply Tr_set_req_x|apply Tr_weaken; apply Tr_unwake_req]).
    pose proof (Lv_Tr _ _ _ _ _ (Lv_open cfg (Some r) None s H) HT) as HL.
    assert (Hq : get_req (unwake_req r (set_req r RCancelled s)) r = Some RCancelled) by (eapply get_req_set_same; exact Hr).
    apply (Lv_close cfg (Some r) None _ HL).
    + intros r' ck' E Hq'. inversion E; subst r'. rewrite Hq in Hq'. discriminate.
    + intros r' ck' [E|E] Hq'; inversion E; subst r'. rewrite Hq in Hq'. discriminate.
    + intros t o [E|E] Hm; inversion E; subst o. destruct (Hown t Hm) as [ck0 [E0 _]]. rewrite Hr in E0. discriminate.
    + intros tid rid t own [E|E] Hn; inversion E; subst rid. destruct (Hno _ _ _ Hn).
    + intros tid1 tid2 rid t1 o1 t2 o2 E. discriminate.
  - eapply Lv_Tr; [|apply Tr_unwake_req].
    apply (Lv_finish cfg r ck ck s (set_req r RCancelled s) H Hr); auto.
    + apply Tr_set_req_x.
    + eapply nlv_of_get; [eapply get_req_set_same; exact Hr|reflexivity].
  - eapply Lv_Tr; [exact H|]. eapply Tr_trans; [|apply Tr_unwake_req]. eapply Tr_trans; [|apply Tr_hold_release].
    apply Tr_set_req. right. intros rq E. rewrite Hr in E. inversion E; subst. cbn. eauto.
  - eapply Lv_Tr; [exact H|apply Tr_unwake_req].
  - eapply Lv_Tr; [exact H|apply Tr_unwake_req].
Qed.

Lemma get_tok_toks s s' t : toks s' = toks s -> get_tok s' t = get_tok s t.
Proof. intros H. destruct t; cbn [get_tok]; [reflexivity|rewrite H; reflexivity]. Qed.

Lemma Lv_do_poll_pending cfg r ck s :
  Lv cfg None None s -> get_req s r = Some (RCheckout ck) ->
  fst (fst (checkout_poll cfg r ck (unwake_req r s))) = KPending ->
  Lv cfg None None (emit (EPend r) (set_req r (RCheckout (snd (fst (checkout_poll cfg r ck (unwake_req r s))))) (snd (checkout_poll cfg r ck (unwake_req r s))))).
Proof.
  intros H Hr Hp.
  assert (Hlv : islv s r = true) by (unfold islv; rewrite Hr; reflexivity).
  destruct (Lv_lv_facts cfg s r H Hlv) as [Hno Hown].
  destruct (checkout_poll_pending_shape cfg r ck (unwake_req r s) Hp) as ((F1 & F2 & F3 & F4 & F5 & F6) & Pt & Pk & Pq & Prq & Pd & Pdial).
  pose proof (Tr_checkout_poll cfg r ck (unwake_req r s)) as HT.
  set (ck1 := snd (fst (checkout_poll cfg r ck (unwake_req r s)))) in *.
  set (s2 := snd (checkout_poll cfg r ck (unwake_req r s))) in *.
  set (s' := emit (EPend r) (set_req r (RCheckout ck1) s2)).
  assert (HT' : Tr (Some r) (Some r) (Some r) s s').
  { eapply Tr_trans; [apply Tr_weaken; apply Tr_unwake_req|]. eapply Tr_trans; [apply Tr_weaken_t; exact HT|].
    eapply Tr_trans; [apply Tr_set_req_x|apply Tr_weaken; apply Tr_emit]. }
  pose proof (Lv_Tr _ _ _ _ _ (Lv_open cfg (Some r) (Some r) s H) HT') as HL.
  assert (Hq' : get_req s' r = Some (RCheckout ck1)).
  { change (get_req (set_req r (RCheckout ck1) s2) r = Some (RCheckout ck1)). rewrite get_req_set_req, Nat.eqb_refl.
    unfold get_req. rewrite Pq. change (reqs (unwake_req r s)) with (reqs s). unfold get_req in Hr. rewrite Hr. reflexivity. }
  assert (Htok : forall t, get_tok s' t = get_tok s t) by (intros t; apply get_tok_toks; exact Pt).
  destruct (l_ck _ _ _ _ H r ck Hr) as (C1 & C2 & C3 & C4 & C5 & C6); [discriminate|].
  apply (Lv_close cfg (Some r) (Some r) s' HL).
  - intros r' ck' E Hq. inversion E; subst r'. rewrite Hq' in Hq. inversion Hq; subst ck'.
    unfold ck_ok. rewrite F1, F2, F3, F4. split; [exact C1|]. split; [exact C2|]. split; [exact C3|]. split; [exact C4|].
    split; [intros Hw; apply C5; auto|]. intros Hs. destruct (C6 (F5 Hs)) as [M1 M2].
    split; [unfold marker; rewrite Htok; exact M1|unfold waiting; rewrite Htok; exact M2].
  - intros r' ck' Ex Hq Hc. assert (r' = r) by (destruct Ex as [E|E]; inversion E; reflexivity). subst r'.
    rewrite Hq' in Hq. inversion Hq; subst ck'. rewrite F3 in Hc.
    destruct (l_dial _ _ _ _ H r ck Hr) as [d [Hd Hl]]; try discriminate; [exact Hc|].
    destruct (Pdial C5 Hc d Hd Hl) as [d' [Hd' [Hs' _]]]. exists d'. split; [exact Hd'|rewrite Hs'; reflexivity].
  - intros t o Ex Hm. assert (o = r) by (destruct Ex as [E|E]; inversion E; reflexivity). subst o.
    unfold marker in Hm. rewrite Htok in Hm. destruct (Hown t Hm) as [ck0 [E0 [Ho0 Ht0]]]. rewrite Hr in E0. inversion E0; subst ck0.
    left. exists ck1. repeat split; congruence.
  - intros tid rid t own Ex Hn. assert (rid = r) by (destruct Ex as [E|E]; inversion E; reflexivity). subst rid.
    change (nth tid (tasks s2) None = Some (TDelayed r t own)) in Hn. rewrite Pk in Hn. destruct (Hno _ _ _ Hn).
  - intros tid1 tid2 rid t1 o1 t2 o2 E Hn. inversion E; subst rid.
    change (nth tid1 (tasks s2) None = Some (TDelayed r t1 o1)) in Hn. rewrite Pk in Hn. destruct (Hno _ _ _ Hn).
Qed.

Lemma Fr_get_some xr xd xt s s' r rq : Fr xr xd xt s s' -> get_req s r = Some rq -> exists rq', get_req s' r = Some rq'.
Proof.
  intros F H. apply get_req_lt in H. rewrite <- (f_len _ _ _ _ _ F) in H.
  unfold get_req. destruct (nth_error (reqs s') r) eqn:E; [eauto|]. apply nth_error_None in E. lia.
Qed.

Lemma Lv_do_poll cfg r s : Lv cfg None None s -> Lv cfg None None (do_poll cfg r s).
Proof.
  intros H. destruct (get_req s r) as [[|ck|p fin pl| |]|] eqn:Hr; unfold do_poll; rewrite Hr; try exact H.
  - (* an unusable URI *)
    assert (Hlv : islv s r = true) by (unfold islv; rewrite Hr; reflexivity).
    destruct (Lv_lv_facts cfg s r H Hlv) as [Hno Hown].
    set (s' := set_req r RDone (emit (ERes r (RErr EUri)) (unwake_req r s))).
    assert (HT : Tr (Some r) None None s s').
    { eapply Tr_trans; [apply Tr_weaken; apply Tr_unwake_req|]. eapply Tr_trans; [apply Tr_weaken; apply Tr_emit|apply Tr_set_req_x]. }
    pose proof (Lv_Tr _ _ _ _ _ (Lv_open cfg (Some r) None s H) HT) as HL.
    assert (Hq : get_req s' r = Some RDone) by (eapply get_req_set_same; exact Hr).
    apply (Lv_close cfg (Some r) None _ HL).
    + intros r' ck' E Hq'. inversion E; subst r'. rewrite Hq in Hq'. discriminate.
    + intros r' ck' [E|E] Hq'; inversion E; subst r'. rewrite Hq in Hq'. discriminate.
    + intros t o [E|E] Hm; inversion E; subst o. destruct (Hown t Hm) as [ck0 [E0 _]]. rewrite Hr in E0. discriminate.
    + intros tid rid t own [E|E] Hn; inversion E; subst rid. destruct (Hno _ _ _ Hn).
    + intros tid1 tid2 rid t1 o1 t2 o2 E. discriminate.
  - (* a checkout *)
    pose proof (Lv_do_poll_pending cfg r ck s H Hr) as HP.
    pose proof (checkout_poll_fields cfg r ck (unwake_req r s)) as HF. cbv zeta in HF.
    pose proof (checkout_poll_ready_inner cfg r ck (unwake_req r s)) as HI.
    pose proof (Tr_checkout_poll cfg r ck (unwake_req r s)) as HT.
    destruct (checkout_poll cfg r ck (unwake_req r s)) as [[res ck1] s2]. cbn [fst snd] in *. destruct HF as [F1 F2].
    assert (HT2 : Tr (Some r) (Some r) None s s2) by (eapply Tr_trans; [apply Tr_weaken; apply Tr_unwake_req|exact HT]).
    destruct res as [|[p|e]].
    + apply HP. reflexivity.
    + destruct (match get_conn s2 (fst p) with Some cn => (c_share cn, c_open cn, c_ready cn, c_holders cn) | None => (false, false, false, 0) end)
        as [[[sh op_] rd] hs].
      eapply Lv_Tr; [|apply Tr_emit].
      match goal with |- Lv cfg None None (checkout_drop cfg r ck1 ?sA0) => set (sA := sA0) end.
      assert (HqA : get_req sA r = Some (RHolding p false true)).
      { subst sA. destruct (Fr_get_some _ _ _ _ _ r _ (proj1 HT2) Hr) as [rq2 Hq2]. eapply get_req_set_same. exact Hq2. }
      apply (Lv_finish cfg r ck ck1 s sA H Hr); auto.
      * subst sA. eapply Tr_trans; [exact HT2|]. eapply Tr_trans; [apply Tr_weaken; apply Tr_emit|].
        eapply Tr_trans; [apply Tr_weaken; apply Tr_upd_conn|apply Tr_set_req_x].
      * eapply nlv_of_get; [exact HqA|reflexivity].
      * intros Hc. destruct (HI _ eq_refl Hc) as [I1 I2]. split; [exact I1|]. exact I2.
    + eapply Lv_Tr; [|apply Tr_emit].
      assert (HqA : get_req (set_req r RDone s2) r = Some RDone).
      { destruct (Fr_get_some _ _ _ _ _ r _ (proj1 HT2) Hr) as [rq2 Hq2]. eapply get_req_set_same. exact Hq2. }
      apply (Lv_finish cfg r ck ck1 s (set_req r RDone s2) H Hr); auto.
      * eapply Tr_trans; [exact HT2|apply Tr_set_req_x].
      * eapply nlv_of_get; [exact HqA|reflexivity].
      * intros Hc. destruct (HI _ eq_refl Hc) as [I1 I2]. split; [exact I1|]. exact I2.
  - (* a holder *)
    eapply Lv_Tr; [exact H|]. eapply Tr_trans; [apply Tr_unwake_req|]. destruct fin.
    + eapply Tr_trans; [|apply Tr_emit]. eapply Tr_trans; [|apply Tr_hold_release].
      apply Tr_set_req. right. intros rq E. change (get_req s r = Some rq) in E. rewrite Hr in E. inversion E; subst. cbn. eauto.
    + eapply Tr_trans; [|apply Tr_emit].
      apply Tr_set_req. right. intros rq E. change (get_req s r = Some rq) in E. rewrite Hr in E. inversion E; subst. cbn. eauto.
Qed.

(* ---------------------------------------------------------------- the other operations *)
Lemma Lv_Tr0 cfg s s' : Lv cfg None None s -> Tr None None None s s' -> Lv cfg None None s'.
Proof. intros H T. eapply Lv_Tr; eauto. Qed.

Lemma In_wake_task tid s : In tid (runq (wake_task tid s)).
Proof.
  unfold wake_task. destruct (existsb (Nat.eqb tid) (runq s)) eqn:E.
  - apply existsb_exists in E. destruct E as [x [Hin Hx]]. apply Nat.eqb_eq in Hx. subst. exact Hin.
  - cbn. apply in_or_app. right. left. reflexivity.
Qed.

Lemma dial_done_facts r y s :
  let s' := do_dial_done r y s in
  reqs s' = reqs s /\ tasks s' = tasks s /\ toks s' = toks s /\ (forall tid, In tid (runq s) -> In tid (runq s'))
  /\ (forall d, get_dial s r = Some d ->
        (d_stage d <> DInFlight /\ get_dial s' r = Some d)
        \/ (d_stage d = DInFlight /\ (exists d', get_dial s' r = Some d' /\ rs_stage d' = true)
            /\ forall tid, d_polled d = Some (ByTask tid) -> In tid (runq s'))).
Proof.
  unfold do_dial_done. destruct (get_dial s r) as [d|] eqn:Hd.
  2: { repeat split; auto. intros d E. discriminate. }
  destruct (d_stage d) eqn:Hst; try (repeat split; auto; intros d0 E; inversion E; subst d0; left; split; [congruence|exact Hd]).
  set (s1 := upd_dial r (fun d0 => d_set_polled None (d_set_stage (DResolved y) d0)) s).
  assert (Hq : forall tid, In tid (runq s1) -> In tid (runq (wake_poller (d_polled d) r s1)))
    by (intros tid; apply (Fr_runq_in _ _ _ _ _ _ (proj1 (Tr_wake_poller (d_polled d) r s1)))).
  assert (Hsame : reqs (wake_poller (d_polled d) r s1) = reqs s /\ tasks (wake_poller (d_polled d) r s1) = tasks s
                  /\ toks (wake_poller (d_polled d) r s1) = toks s /\ dials (wake_poller (d_polled d) r s1) = dials s1).
  { destruct (d_polled d) as [[|tid]|]; cbn [wake_poller]; try (repeat split; reflexivity).
    unfold wake_task. destruct (existsb (Nat.eqb tid) (runq s1)); repeat split; reflexivity. }
  destruct Hsame as (S1 & S2 & S3 & S4).
  split; [exact S1|]. split; [exact S2|]. split; [exact S3|]. split; [exact Hq|].
  intros d0 E. inversion E; subst d0. right. split; [exact Hst|]. split.
  - exists (d_set_polled None (d_set_stage (DResolved y) d)). split; [|reflexivity].
    unfold get_dial. rewrite S4. change (get_dial s1 r = Some (d_set_polled None (d_set_stage (DResolved y) d))).
    subst s1. rewrite get_dial_upd_dial, Nat.eqb_refl, Hd. reflexivity.
  - intros tid Hp. rewrite Hp. cbn [wake_poller]. apply In_wake_task.
Qed.

Lemma Lv_do_dial_done cfg r y s : Lv cfg None None s -> Lv cfg None None (do_dial_done r y s).
Proof.
  intros H. pose proof (Tr_do_dial_done r y s) as HT.
  pose proof (Lv_Tr _ _ _ _ _ (Lv_open cfg None (Some r) s H) (Tr_weaken_t _ _ (Some r) _ _ HT)) as HL.
  destruct (dial_done_facts r y s) as (S1 & S2 & S3 & S4 & S5). cbv zeta in *.
  set (s' := do_dial_done r y s) in *.
  assert (Hg : forall r', get_req s' r' = get_req s r') by (intros r'; unfold get_req; rewrite S1; reflexivity).
  apply (Lv_close cfg None (Some r) s' HL).
  - intros r' ck' E. discriminate.
  - intros r' ck' [E|E] Hq Hc; inversion E; subst r'. rewrite Hg in Hq.
    destruct (l_dial _ _ _ _ H r ck' Hq) as [d [Hd Hl]]; try discriminate; [exact Hc|].
    destruct (S5 d Hd) as [[_ Hd']|[_ [[d' [Hd' Hs']] _]]]; [exists d; auto|].
    exists d'. split; [exact Hd'|]. unfold rs_stage in Hs'. destruct (d_stage d'); try discriminate; reflexivity.
  - intros t o [E|E] Hm; inversion E; subst o.
    assert (Hm0 : marker s t = Some r) by (unfold marker in *; rewrite (get_tok_toks s s' t S3) in Hm; exact Hm).
    destruct (l_mark _ _ _ _ H t r Hm0) as [[ck [Hq Ho]]|[tid Hn]]; try discriminate.
    + left. exists ck. rewrite Hg. auto.
    + right. exists tid. rewrite S2. exact Hn.
  - intros tid rid t own [E|E] Hn; inversion E; subst rid. rewrite S2 in Hn.
    destruct (l_task _ _ _ _ H _ _ _ _ Hn) as ([rq [Hq Hv]] & B2 & d & B3 & B4); try discriminate.
    split; [exists rq; rewrite Hg; auto|]. split; [exact B2|].
    destruct (S5 d B3) as [[Hns Hd']|[Hfl [[d' [Hd' Hs']] Hpoll]]].
    + exists d. split; [exact Hd'|]. destruct B4 as [[C1 C2]|[C1 _]]; [left; auto|contradiction].
    + exists d'. split; [exact Hd'|]. left. split; [exact Hs'|].
      destruct B4 as [[C1 C2]|[C1 [C2|C2]]]; [apply S4; exact C2|apply S4; exact C2|apply Hpoll; exact C2].
  - intros tid1 tid2 rid t1 o1 t2 o2 E H1 H2. rewrite S2 in H1, H2. eapply (l_uniq _ _ _ _ H); eauto. discriminate.
Qed.

Lemma Lv_simple_ops cfg s :
  Lv cfg None None s ->
  (forall r, Lv cfg None None (do_finish r s)) /\ (forall r, Lv cfg None None (do_upgrade r s))
  /\ (forall c, Lv cfg None None (do_conn_ready c s)) /\ (forall c, Lv cfg None None (do_conn_close c s))
  /\ (forall v, Lv cfg None None (set_now v s)) /\ Lv cfg None None (set_out [] s).
Proof.
  intros H. split; [|split; [|split; [|split; [|split]]]]; intros; eapply Lv_Tr0; try exact H;
    [apply Tr_do_finish|apply Tr_do_upgrade|apply Tr_do_conn_ready|apply Tr_do_conn_close|apply Tr_set_now|apply Tr_same; auto].
Qed.

(* ---------------------------------------------------------------- one run of a delayed connector task *)
Lemma run_task_delayed_post cfg tid rid t own d s0 :
  nth tid (tasks s0) None = Some (TDelayed rid t own) ->
  (forall tid' t' own', nth tid' (tasks s0) None = Some (TDelayed rid t' own') -> tid' = tid) ->
  get_dial s0 rid = Some d -> (own = true -> g_pool cfg = true /\ t <> 0) ->
  let s1 := run_task cfg tid s0 in
  (d_stage d = DInFlight ->
     tasks s1 = tasks s0 /\ toks s1 = toks s0 /\ reqs s1 = reqs s0 /\ runq s1 = runq s0
     /\ exists d', get_dial s1 rid = Some d' /\ d_stage d' = DInFlight /\ d_polled d' = Some (ByTask tid))
  /\ (rs_stage d = true -> no_task s1 rid /\ (own = true -> marker s1 t <> Some rid)).
Proof.
  intros Ht Hu Hd Hown. unfold run_task. rewrite Ht. split.
  - intros Hst.
    assert (Hp : fst (connector_poll rid (ByTask tid) s0) = CPending) by (unfold connector_poll; rewrite Hd, Hst; reflexivity).
    destruct (connector_poll_pending_state rid (ByTask tid) s0 Hp) as (Q1 & Q2 & Q3 & Q4 & Q5 & Q6). cbv zeta in *.
    destruct (connector_poll rid (ByTask tid) s0) as [r s1]. cbn [fst snd] in *. subst r.
    repeat split; auto. apply (Q6 d Hd). rewrite Hst. reflexivity.
  - intros Hrs.
    pose proof (Tr_connector_poll None None rid (ByTask tid) s0) as H1.
    assert (Hr : exists res, fst (connector_poll rid (ByTask tid) s0) = CReady res).
    { unfold connector_poll. rewrite Hd. unfold rs_stage in Hrs. destruct (d_stage d) as [| |[a| |]|]; try discriminate; cbn; eauto. }
    destruct (connector_poll rid (ByTask tid) s0) as [r s1]. cbn [fst snd] in *. destruct Hr as [res ->].
    assert (Hgen : forall s3, Tr None (Some rid) None s0 s3 ->
              no_task (finish_task tid s3) rid).
    { intros s3 H3 tid' t' own' E. unfold finish_task in E. cbn [tasks set_tasks] in E.
      destruct (Nat.eq_dec tid tid') as [<-|Hne].
      - destruct (Nat.lt_ge_cases tid (List.length (tasks s3))) as [Hl|Hl].
        + rewrite nth_upd_nth_same in E by exact Hl. discriminate.
        + rewrite nth_overflow in E by (rewrite upd_nth_length; exact Hl). discriminate.
      - rewrite nth_upd_nth_other in E by exact Hne.
        destruct (f_new _ _ _ _ _ (proj1 H3) _ _ _ _ E) as [E0|E0]; [|discriminate]. apply Hne. symmetry. eapply Hu. exact E0. }
    assert (Hcan : forall s3, Tr None (Some rid) None s0 s3 ->
              let s4 := if g_pool cfg && negb (t =? 0) && own then pool_cancel t rid s3 else s3 in
              Tr None (Some rid) None s0 s4 /\ (own = true -> marker s4 t <> Some rid)).
    { intros s3 H3. cbv zeta. split.
      - destruct (g_pool cfg && negb (t =? 0) && own); [eapply Tr_trans; [exact H3|apply Tr_weaken; apply Tr_pool_cancel]|exact H3].
      - intros Ho. destruct (Hown Ho) as [Hp Hz]. rewrite Hp, Ho.
        assert (E : negb (t =? 0) = true) by (destruct (Nat.eqb_spec t 0); [contradiction|reflexivity]). rewrite E. cbn.
        apply marker_pool_cancel. }
    destruct res as [c|e].
    + pose proof (Tr_register cfg t c s1) as H2. destruct (register cfg t c s1) as [p s2]. cbn [snd] in H2.
      assert (H3 : Tr None (Some rid) None s0 s2) by (eapply Tr_trans; [exact H1|apply Tr_weaken; exact H2]).
      destruct (Hcan s2 H3) as [H4 Hm4]. cbv zeta in *.
      set (s4 := if g_pool cfg && negb (t =? 0) && own then pool_cancel t rid s2 else s2) in *.
      pose proof (Tr_pooled_drop p (finish_task tid s4)) as H5. split.
      * eapply no_task_Tr; [exact (proj1 H5)|]. apply Hgen. exact H4.
      * intros Ho Hm. apply (t_mark _ _ _ (proj2 H5)) in Hm. exact (Hm4 Ho Hm).
    + destruct (Hcan s1 H1) as [H4 Hm4]. cbv zeta in *. split; [apply Hgen; exact H4|].
      intros Ho Hm. exact (Hm4 Ho Hm).
Qed.

Lemma Lv_pop cfg tid rest s :
  Lv cfg None None s -> runq s = tid :: rest -> Lv cfg None (task_rid s tid) (set_runq rest s).
Proof.
  intros [A1 A2 A3 A4 A5] Hq. constructor.
  - intros r ck Hr _. apply (A1 r ck Hr). discriminate.
  - intros r ck Hr _ _. apply (A2 r ck Hr); discriminate.
  - intros t o Hm _ _. apply (A3 t o Hm); discriminate.
  - intros tid' rid t own Hn _ Hx. change (nth tid' (tasks s) None = Some (TDelayed rid t own)) in Hn.
    destruct (A4 _ _ _ _ Hn) as (B1 & B2 & d & B3 & B4); try discriminate.
    assert (Hne : tid' <> tid) by (intros ->; apply Hx; unfold task_rid; rewrite Hn; reflexivity).
    assert (Hin : In tid' (runq s) -> In tid' rest) by (rewrite Hq; intros [E|E]; [congruence|exact E]).
    split; [exact B1|]. split; [exact B2|]. exists d. split; [exact B3|].
    destruct B4 as [[C1 C2]|[C1 [C2|C2]]]; [left; split; auto|right; split; auto|right; split; auto].
  - intros tid1 tid2 rid t1 o1 t2 o2 H1 H2 _. eapply A5; eauto. discriminate.
Qed.

Lemma Lv_bg_step cfg tid rest s :
  Lv cfg None None s -> runq s = tid :: rest -> Lv cfg None None (run_task cfg tid (set_runq rest s)).
Proof.
  intros H Hq. pose proof (Lv_pop cfg tid rest s H Hq) as H0.
  set (s0 := set_runq rest s) in *.
  pose proof (Tr_run_task cfg tid s0) as HT. change (task_rid s0 tid) with (task_rid s tid) in HT.
  pose proof (Lv_Tr _ _ _ _ _ H0 HT) as HL.
  destruct (nth tid (tasks s) None) as [[c t|rid t own]|] eqn:Ht.
  1,3: (assert (E : task_rid s tid = None) by (unfold task_rid; rewrite Ht; reflexivity); rewrite E in HL;
        apply (Lv_close cfg None None _ HL); [intros ? ? E0; discriminate|intros ? ? [E0|E0]; discriminate|intros ? ? [E0|E0]; discriminate
                                             |intros ? ? ? ? [E0|E0]; discriminate|intros ? ? ? ? ? ? ? E0; discriminate]).
  assert (E : task_rid s tid = Some rid) by (unfold task_rid; rewrite Ht; reflexivity). rewrite E in HL, HT.
  destruct (l_task _ _ _ _ H _ _ _ _ Ht) as (B1 & B2 & d & B3 & B4); try discriminate.
  assert (Hu : forall tid' t' own', nth tid' (tasks s0) None = Some (TDelayed rid t' own') -> tid' = tid).
  { intros tid' t' own' E'. eapply (l_uniq _ _ _ _ H); eauto. discriminate. }
  destruct (run_task_delayed_post cfg tid rid t own d s0 Ht Hu B3 B2) as [PA PB]. cbv zeta in *.
  set (s1 := run_task cfg tid s0) in *.
  assert (Hnl : nlv s1 rid) by (eapply req_rel_nlv; [exact (proj1 HT)|discriminate|exact B1]).
  assert (Hnck : forall ck, get_req s1 rid = Some (RCheckout ck) -> False).
  { intros ck Eq. destruct Hnl as [rq [Hq1 Hv]]. rewrite Hq1 in Eq. inversion Eq; subst. discriminate. }
  apply (Lv_close cfg None (Some rid) s1 HL).
  - intros r ck E0. discriminate.
  - intros r ck [E0|E0] Hr; inversion E0; subst r. destruct (Hnck _ Hr).
  - intros t' o [E0|E0] Hm; inversion E0; subst o.
    pose proof (t_mark _ _ _ (proj2 HT) _ _ Hm) as Hm0.
    destruct (l_mark _ _ _ _ H t' rid Hm0) as [[ck [Hq0 _]]|[tid' Hn']]; try discriminate.
    { destruct B1 as [rq [Hq1 Hv]]. rewrite Hq1 in Hq0. inversion Hq0; subst. discriminate. }
    assert (tid' = tid) by (eapply Hu; exact Hn'). subst tid'. rewrite Ht in Hn'. inversion Hn'; subst t' own.
    destruct B4 as [[C1 C2]|[C1 C2]].
    + destruct (PB C1) as [_ Hm1]. destruct (Hm1 eq_refl Hm).
    + destruct (PA C1) as (Q1 & _). right. exists tid. rewrite Q1. exact Ht.
  - intros tid' rid' t' own' [E0|E0] Hn; inversion E0; subst rid'.
    destruct B4 as [[C1 C2]|[C1 C2]].
    + destruct (PB C1) as [Hno _]. destruct (Hno _ _ _ Hn).
    + destruct (PA C1) as (Q1 & Q2 & Q3 & Q4 & d' & Q5 & Q6 & Q7). rewrite Q1 in Hn.
      assert (tid' = tid) by (eapply Hu; exact Hn). subst tid'.
      assert (Ht0 : nth tid (tasks s0) None = Some (TDelayed rid t own)) by exact Ht. rewrite Ht0 in Hn. inversion Hn; subst t' own'.
      split; [exact Hnl|]. split; [exact B2|]. exists d'. split; [exact Q5|]. right. split; [exact Q6|right; exact Q7].
  - intros tid1 tid2 rid' t1 o1 t2 o2 E0 H1 H2. inversion E0; subst rid'.
    destruct B4 as [[C1 C2]|[C1 C2]].
    + destruct (PB C1) as [Hno _]. destruct (Hno _ _ _ H1).
    + destruct (PA C1) as (Q1 & _). rewrite Q1 in H1, H2. rewrite (Hu _ _ _ H1), (Hu _ _ _ H2). reflexivity.
Qed.

Lemma Lv_bg_loop cfg fuel : forall s, Lv cfg None None s -> Lv cfg None None (bg_loop cfg fuel s).
Proof.
  induction fuel as [|f IH]; intros s H; cbn [bg_loop]; [exact H|].
  destruct (runq s) as [|tid rest] eqn:Hq; [exact H|]. apply IH. apply Lv_bg_step; assumption.
Qed.

(* ---------------------------------------------------------------- Issue *)
Lemma tok_upd_cases t f s t' :
  get_tok (upd_tok t f s) t' = get_tok s t' \/ (t' = t /\ get_tok (upd_tok t f s) t' = f (get_tok s t')).
Proof.
  destruct (Nat.eq_dec t t') as [<-|Hne]; [|left; apply tok_upd_other; exact Hne].
  destruct t as [|i]; [left; reflexivity|]. destruct (Nat.lt_ge_cases i (List.length (toks s))) as [Hl|Hl].
  - right. split; [reflexivity|apply tok_upd_same; exact Hl].
  - left. cbn [get_tok upd_tok toks set_toks]. rewrite !nth_overflow by (rewrite ?upd_nth_length; exact Hl). reflexivity.
Qed.

Lemma owns_frame s s' o t : reqs s' = reqs s -> tasks s' = tasks s -> owns s o t -> owns s' o t.
Proof. intros H1 H2. unfold owns, get_req. rewrite H1, H2. auto. Qed.

Lemma task_ok_frame cfg s s' tid rid t own :
  reqs s' = reqs s -> dials s' = dials s -> runq s' = runq s -> task_ok cfg s tid rid t own -> task_ok cfg s' tid rid t own.
Proof. intros H1 H2 H3. unfold task_ok, nlv, get_req, get_dial. rewrite H1, H2, H3. auto. Qed.

Lemma Lv_upd_waiting cfg t x st :
  Lv cfg None None st -> Lv cfg None None (upd_tok t (fun q => set_waiting (p_waiting q ++ [x]) q) st).
Proof.
  intros [A1 A2 A3 A4 A5]. set (st' := upd_tok t _ st).
  assert (R1 : reqs st' = reqs st) by (subst st'; destruct t; reflexivity).
  assert (R2 : dials st' = dials st) by (subst st'; destruct t; reflexivity).
  assert (R3 : tasks st' = tasks st) by (subst st'; destruct t; reflexivity).
  assert (R4 : runq st' = runq st) by (subst st'; destruct t; reflexivity).
  assert (Hm : forall t', marker st' t' = marker st t').
  { intros t'. unfold marker. subst st'. destruct (tok_upd_cases t (fun q => set_waiting (p_waiting q ++ [x]) q) st t') as [E|[_ E]]; rewrite E; reflexivity. }
  assert (Hw : forall t' y, In y (waiting st t') -> In y (waiting st' t')).
  { intros t' y. unfold waiting. subst st'. destruct (tok_upd_cases t (fun q => set_waiting (p_waiting q ++ [x]) q) st t') as [E|[_ E]]; rewrite E; auto.
    cbn. intros Hin. apply in_or_app. left. exact Hin. }
  constructor.
  - intros r ck Hr Hx. unfold get_req in Hr. rewrite R1 in Hr. destruct (A1 r ck Hr Hx) as (B1 & B2 & B3 & B4 & B5 & B6).
    split; [exact B1|]. split; [exact B2|]. split; [exact B3|]. split; [exact B4|]. split; [exact B5|].
    intros Hs. destruct (B6 Hs) as [M1 M2]. split; [rewrite Hm; exact M1|apply Hw; exact M2].
  - intros r ck Hr Hx Hd Hc. unfold get_req in Hr. rewrite R1 in Hr. unfold get_dial. rewrite R2. eapply A2; eauto.
  - intros t' o Hmk Hx Hd. rewrite Hm in Hmk. eapply owns_frame; [exact R1|exact R3|]. apply A3; auto.
  - intros tid rid t' own Hn Hx Hd. rewrite R3 in Hn. eapply task_ok_frame; [exact R1|exact R2|exact R4|]. eapply A4; eauto.
  - intros tid1 tid2 rid t1 o1 t2 o2 H1 H2 Hd. rewrite R3 in H1, H2. eapply A5; eauto.
Qed.

Lemma Lv_set_marker cfg t rid st :
  Lv cfg None None st -> Lv cfg (Some rid) None (upd_tok t (set_marker (Some rid)) st).
Proof.
  intros [A1 A2 A3 A4 A5]. set (st' := upd_tok t _ st).
  assert (R1 : reqs st' = reqs st) by (subst st'; destruct t; reflexivity).
  assert (R2 : dials st' = dials st) by (subst st'; destruct t; reflexivity).
  assert (R3 : tasks st' = tasks st) by (subst st'; destruct t; reflexivity).
  assert (R4 : runq st' = runq st) by (subst st'; destruct t; reflexivity).
  assert (Hm : forall t', marker st' t' = marker st t' \/ marker st' t' = Some rid).
  { intros t'. unfold marker. subst st'. destruct (tok_upd_cases t (set_marker (Some rid)) st t') as [E|[_ E]]; rewrite E; auto. }
  assert (Hw : forall t', waiting st' t' = waiting st t').
  { intros t'. subst st'. apply waiting_upd_marker. }
  constructor.
  - intros r ck Hr Hx. unfold get_req in Hr. rewrite R1 in Hr. destruct (A1 r ck Hr) as (B1 & B2 & B3 & B4 & B5 & B6); [discriminate|].
    split; [exact B1|]. split; [exact B2|]. split; [exact B3|]. split; [exact B4|]. split; [exact B5|].
    intros Hs. destruct (B6 Hs) as [M1 M2]. split; [|rewrite Hw; exact M2].
    destruct (Hm (k_token ck)) as [E|E]; rewrite E; [exact M1|discriminate].
  - intros r ck Hr Hx Hd Hc. unfold get_req in Hr. rewrite R1 in Hr. unfold get_dial. rewrite R2. eapply A2; eauto; discriminate.
  - intros t' o Hmk Hx Hd. destruct (Hm t') as [E|E]; rewrite E in Hmk; [|congruence].
    eapply owns_frame; [exact R1|exact R3|]. apply A3; auto; discriminate.
  - intros tid rid' t' own Hn Hx Hd. rewrite R3 in Hn. eapply task_ok_frame; [exact R1|exact R2|exact R4|]. eapply A4; eauto; discriminate.
  - intros tid1 tid2 rid' t1 o1 t2 o2 H1 H2 Hd. rewrite R3 in H1, H2. eapply A5; eauto.
Qed.

Definition add_req (rq : req) (d : dial) (st : state) : state := set_dials (dials st ++ [d]) (set_reqs (reqs st ++ [rq]) st).

Lemma Lv_add cfg rq d st :
  let rid := List.length (reqs st) in
  Lv cfg (Some rid) None st -> List.length (dials st) = List.length (reqs st) -> no_task st rid ->
  (forall ck, rq = RCheckout ck -> ck_ok cfg st rid ck /\ (conn_inner (k_inner ck) = true -> live_stage (d_stage d) = true)) ->
  (forall t', marker st t' = Some rid -> exists ck, rq = RCheckout ck /\ k_owner ck = true /\ k_token ck = t') ->
  Lv cfg None None (add_req rq d st).
Proof.
  intros rid [A1 A2 A3 A4 A5] Hlen Hno Hck Hmk. set (st' := add_req rq d st).
  assert (Hg : forall r x, get_req st' r = Some x -> get_req st r = Some x \/ (r = rid /\ x = rq)).
  { intros r x Hx. unfold get_req in *. cbn [st' add_req reqs set_dials set_reqs] in Hx. apply nth_error_app_inv in Hx. exact Hx. }
  assert (Hgd : forall r, r <> rid -> get_dial st' r = get_dial st r).
  { intros r Hne. unfold get_dial. cbn [st' add_req dials set_dials set_reqs].
    destruct (Nat.lt_ge_cases r (List.length (dials st))) as [Hl|Hl]; [apply nth_error_app1; exact Hl|].
    rewrite (proj2 (nth_error_None (dials st) r)) by exact Hl. apply nth_error_None. rewrite app_length. cbn. unfold rid in Hne. lia. }
  assert (Hold : forall r x, get_req st r = Some x -> r <> rid /\ get_req st' r = Some x).
  { intros r x Hx. split; [apply get_req_lt in Hx; unfold rid; lia|].
    unfold get_req in *. cbn [st' add_req reqs set_dials set_reqs]. apply nth_error_app_some. exact Hx. }
  assert (Hown : forall o t, owns st o t -> owns st' o t).
  { intros o t [[ck [Hq Ho]]|[tid Hn]]; [left; exists ck; split; [apply (Hold _ _ Hq)|exact Ho]|right; exists tid; exact Hn]. }
  constructor.
  - intros r ck Hr _. destruct (Hg r _ Hr) as [Hq|[-> E]].
    + destruct (Hold _ _ Hq) as [Hne _]. apply (A1 r ck Hq). congruence.
    + symmetry in E. exact (proj1 (Hck ck E)).
  - intros r ck Hr _ _ Hc. destruct (Hg r _ Hr) as [Hq|[-> E]].
    + destruct (Hold _ _ Hq) as [Hne _]. rewrite (Hgd r Hne). apply (A2 r ck Hq); auto; congruence.
    + symmetry in E. exists d. split; [|exact (proj2 (Hck ck E) Hc)].
      unfold get_dial. cbn [st' add_req dials set_dials set_reqs]. unfold rid. rewrite <- Hlen. apply nth_error_app_last.
  - intros t o Hm _ _. change (marker st t = Some o) in Hm. destruct (Nat.eq_dec o rid) as [->|Hne].
    + destruct (Hmk t Hm) as [ck [E [Ho Ht]]]. left. exists ck. split; [|auto].
      unfold get_req. cbn [st' add_req reqs set_dials set_reqs]. rewrite E. apply nth_error_app_last.
    + apply Hown. apply A3; auto; congruence.
  - intros tid r t own Hn _ _. change (nth tid (tasks st) None = Some (TDelayed r t own)) in Hn.
    assert (Hne : r <> rid) by (intros ->; exact (Hno _ _ _ Hn)).
    destruct (A4 _ _ _ _ Hn) as ([x [Hq Hv]] & B2 & d0 & B3 & B4); try congruence; try discriminate.
    split; [exists x; split; [apply (Hold _ _ Hq)|exact Hv]|]. split; [exact B2|]. exists d0. rewrite (Hgd r Hne). auto.
  - intros tid1 tid2 r t1 o1 t2 o2 H1 H2 _. eapply A5; eauto. discriminate.
Qed.

Lemma marker_out_of_range cfg st t :
  Lv cfg None None st -> marker st t <> Some (List.length (reqs st)).
Proof.
  intros H Hm. destruct (l_mark _ _ _ _ H _ _ Hm) as [[ck [Hq _]]|[tid Hn]]; try discriminate.
  - apply get_req_lt in Hq. lia.
  - destruct (l_task _ _ _ _ H _ _ _ _ Hn) as [[x [Hq _]] _]; try discriminate. apply get_req_lt in Hq. lia.
Qed.

Lemma no_task_out_of_range cfg st : Lv cfg None None st -> no_task st (List.length (reqs st)).
Proof.
  intros H tid t own Hn. destruct (l_task _ _ _ _ H _ _ _ _ Hn) as [[x [Hq _]] _]; try discriminate. apply get_req_lt in Hq. lia.
Qed.

Lemma rd_drop_conn c s : reqs (drop_conn c s) = reqs s /\ dials (drop_conn c s) = dials s.
Proof. unfold drop_conn. dm; split; reflexivity. Qed.
Lemma rd_drop_all l : forall s, reqs (drop_all l s) = reqs s /\ dials (drop_all l s) = dials s.
Proof.
  induction l as [|[c a] l IH]; intros s; cbn [drop_all]; [auto|]. destruct (IH (drop_conn c s)) as [E1 E2]. destruct (rd_drop_conn c s) as [F1 F2].
  split; congruence.
Qed.
Lemma rd_pop_loop thr rl : forall s, reqs (snd (pop_loop thr rl s)) = reqs s /\ dials (snd (pop_loop thr rl s)) = dials s.
Proof.
  induction rl as [|[c a] rl IH]; intros s; cbn [pop_loop]; [auto|].
  destruct (match thr with Some y => (a <? y)%N | None => false end).
  - cbn [snd]. destruct (rd_drop_all (rev rl) (drop_conn c s)) as [E1 E2]. destruct (rd_drop_conn c s) as [F1 F2]. split; congruence.
  - destruct (is_open s c); [auto|]. destruct (IH (drop_conn c s)) as [E1 E2]. destruct (rd_drop_conn c s) as [F1 F2]. split; congruence.
Qed.
Lemma rd_pool_pop to t s : reqs (snd (pool_pop to t s)) = reqs s /\ dials (snd (pool_pop to t s)) = dials s.
Proof.
  unfold pool_pop. pose proof (rd_pop_loop (expiry_threshold to (now s)) (rev (p_idle (get_tok s t))) s) as H.
  destruct (pop_loop _ _ s) as [[r rest] s1]. cbn [snd] in *. destruct t; exact H.
Qed.
Lemma rd_key_insert k s : reqs (snd (key_insert k s)) = reqs s /\ dials (snd (key_insert k s)) = dials s.
Proof. unfold key_insert. destruct (find_key k (keys s) 1); split; reflexivity. Qed.

(* the token table and the key table are aligned *)
Definition TL (s : state) : Prop := List.length (toks s) = List.length (keys s).
Lemma TL_Fr xr xd xt s s' : Fr xr xd xt s s' -> TL s -> TL s'.
Proof. intros F H. unfold TL. rewrite (f_tl _ _ _ _ _ F), (f_keys _ _ _ _ _ F). exact H. Qed.

Lemma Lv_view cfg s s' :
  reqs s' = reqs s -> dials s' = dials s -> tasks s' = tasks s -> runq s' = runq s ->
  (forall t, marker s' t = marker s t /\ waiting s' t = waiting s t) -> Lv cfg None None s -> Lv cfg None None s'.
Proof.
  intros R1 R2 R3 R4 Hv [A1 A2 A3 A4 A5]. constructor.
  - intros r ck Hr Hx. unfold get_req in Hr. rewrite R1 in Hr. destruct (A1 r ck Hr Hx) as (B1 & B2 & B3 & B4 & B5 & B6).
    split; [exact B1|]. split; [exact B2|]. split; [exact B3|]. split; [exact B4|]. split; [exact B5|].
    intros Hs. destruct (B6 Hs) as [M1 M2]. destruct (Hv (k_token ck)) as [V1 V2]. rewrite V1, V2. auto.
  - intros r ck Hr Hx Hd Hc. unfold get_req in Hr. rewrite R1 in Hr. unfold get_dial. rewrite R2. eapply A2; eauto.
  - intros t o Hm Hx Hd. rewrite (proj1 (Hv t)) in Hm. eapply owns_frame; [exact R1|exact R3|]. apply A3; auto.
  - intros tid rid t own Hn Hx Hd. rewrite R3 in Hn. eapply task_ok_frame; [exact R1|exact R2|exact R4|]. eapply A4; eauto.
  - intros tid1 tid2 rid t1 o1 t2 o2 H1 H2 Hd. rewrite R3 in H1, H2. eapply A5; eauto.
Qed.

Lemma key_insert_view k s :
  let s1 := snd (key_insert k s) in
  reqs s1 = reqs s /\ dials s1 = dials s /\ tasks s1 = tasks s /\ runq s1 = runq s
  /\ (forall t, marker s1 t = marker s t /\ waiting s1 t = waiting s t)
  /\ (TL s -> TL s1 /\ 1 <= fst (key_insert k s) <= List.length (toks s1)).
Proof.
  unfold key_insert. destruct (find_key k (keys s) 1) as [t|] eqn:Hf; cbn [fst snd].
  - repeat split; auto. apply find_key_some in Hf. destruct Hf as (j & k' & -> & Hn & _). lia.
    apply find_key_some in Hf. destruct Hf as (j & k' & -> & Hn & _). unfold TL in H. rewrite H.
    assert (j < List.length (keys s)) by (apply nth_error_Some; congruence). lia.
  - repeat split; auto.
    + unfold marker. destruct t as [|i]; cbn [get_tok toks set_toks set_keys]; [reflexivity|].
      destruct (Nat.lt_ge_cases i (List.length (toks s))) as [Hl|Hl]; [rewrite app_nth1 by exact Hl; reflexivity|].
      rewrite app_nth2 by exact Hl. rewrite (nth_overflow (toks s)) by exact Hl. destruct (i - List.length (toks s)) as [|[|n]]; reflexivity.
    + unfold waiting. destruct t as [|i]; cbn [get_tok toks set_toks set_keys]; [reflexivity|].
      destruct (Nat.lt_ge_cases i (List.length (toks s))) as [Hl|Hl]; [rewrite app_nth1 by exact Hl; reflexivity|].
      rewrite app_nth2 by exact Hl. rewrite (nth_overflow (toks s)) by exact Hl. destruct (i - List.length (toks s)) as [|[|n]]; reflexivity.
    + unfold TL in *. cbn. rewrite !app_length. cbn. lia.
    + lia.
    + cbn. rewrite app_length. cbn. unfold TL in H. lia.
Qed.

Lemma Lv_do_issue cfg u p s :
  Lv cfg None None s -> List.length (dials s) = List.length (reqs s) -> TL s ->
  Lv cfg None None (do_issue cfg u p s) /\ TL (do_issue cfg u p s).
Proof.
  intros H Hlen HTL. unfold do_issue. cbv zeta.
  set (s0 := set_woken (woken s ++ [false]) s).
  assert (H0 : Lv cfg None None s0) by (eapply Lv_Tr0; [exact H|apply Tr_same; auto]).
  change (List.length (reqs s)) with (List.length (reqs s0)).
  assert (Hlen0 : List.length (dials s0) = List.length (reqs s0)) by exact Hlen.
  assert (HTL0 : TL s0) by exact HTL.
  assert (Hadd : forall st rq d, Lv cfg None None st -> List.length (dials st) = List.length (reqs st) -> TL st ->
            (forall ck, rq = RCheckout ck -> ck_ok cfg st (List.length (reqs st)) ck /\ (conn_inner (k_inner ck) = true -> live_stage (d_stage d) = true)) ->
            Lv cfg None None (add_req rq d st) /\ TL (add_req rq d st)).
  { intros st rq d Hst Hl Htl Hck. split; [|exact Htl]. apply Lv_add; auto.
    - apply Lv_open. exact Hst.
    - eapply no_task_out_of_range. exact Hst.
    - intros t' Hm. destruct (marker_out_of_range cfg st t' Hst Hm). }
  destruct (nth u (g_uris cfg) None) as [k|].
  2: { apply (Hadd s0); auto. intros ck E. discriminate. }
  destruct (g_pool cfg) eqn:Hpool; cbn [negb].
  2: { apply (Hadd s0); auto. intros ck E. inversion E; subst ck. unfold ck_ok, new_ck, stuckb. cbn.
       repeat split; try discriminate; auto. }
  destruct (key_insert_view k s0) as (R1 & D1 & K1 & Q1 & V1 & TL1). cbv zeta in *. destruct (TL1 HTL0) as [HTL1 Ht1]. clear TL1.
  assert (H1 : Lv cfg None None (snd (key_insert k s0))) by (eapply Lv_view; eauto).
  destruct (key_insert k s0) as [t s1]. cbn [fst snd] in *.
  pose proof (Tr_pool_pop (g_timeout cfg) t s1) as T2. pose proof (rd_pool_pop (g_timeout cfg) t s1) as [R2 D2].
  destruct (pool_pop (g_timeout cfg) t s1) as [found s2]. cbn [snd] in *.
  assert (H2 : Lv cfg None None s2) by (eapply Lv_Tr0; [exact H1|exact T2]).
  assert (HTL2 : TL s2) by (eapply TL_Fr; [exact (proj1 T2)|exact HTL1]).
  assert (Ht2 : 1 <= t <= List.length (toks s2)) by (rewrite (f_tl _ _ _ _ _ (proj1 T2)); exact Ht1).
  assert (Hlen2 : List.length (dials s2) = List.length (reqs s2)) by congruence.
  assert (Hrid : List.length (reqs s0) = List.length (reqs s2)) by congruence. rewrite Hrid.
  destruct found as [c|].
  - apply (Hadd s2); auto. intros ck E. inversion E; subst ck. unfold ck_ok, new_ck, stuckb. cbn.
    repeat split; try discriminate; auto.
  - destruct t as [|i]; [lia|].
    remember (match p_marker (get_tok s2 (S i)) with Some _ => true | None => false end) as pending eqn:Hpend.
    set (s3 := upd_tok (S i) (fun q => set_waiting (p_waiting q ++ [(List.length (reqs s2), pending)]) q) s2).
    assert (H3 : Lv cfg None None s3) by (apply Lv_upd_waiting; exact H2).
    assert (HTL3 : TL s3) by (eapply TL_Fr; [apply Fr_upd_tok|exact HTL2]).
    assert (Hlen3 : List.length (dials s3) = List.length (reqs s3)) by exact Hlen2.
    assert (Hg3 : get_tok s3 (S i) = set_waiting (p_waiting (get_tok s2 (S i)) ++ [(List.length (reqs s2), pending)]) (get_tok s2 (S i)))
      by (unfold s3; rewrite tok_upd_same by lia; reflexivity).
    assert (Hin3 : In (List.length (reqs s2), pending) (waiting s3 (S i))).
    { unfold waiting. rewrite Hg3. cbn. apply in_or_app. right. left. reflexivity. }
    assert (Hm3 : marker s3 (S i) = marker s2 (S i)) by (unfold marker; rewrite Hg3; reflexivity).
    destruct pending.
    + apply (Hadd s3); auto. intros ck E. inversion E; subst ck. unfold ck_ok, new_ck, stuckb.
      cbn [k_inner k_owner k_conn k_token k_waiter k_slot k_txdropped negb conn_inner].
      split; [split; [auto|]|intros E0; discriminate E0]. split; [discriminate|]. split; [discriminate|]. split; [discriminate|]. split; [auto|].
      intros _. split; [rewrite Hm3; unfold marker; destruct (p_marker (get_tok s2 (S i))); discriminate|exact Hin3].
    + set (own := match p with H2 => true | H1 => false end).
      set (inn := if g_cont cfg then IDelayDrop else IConnecting).
      assert (Hck : forall st, ck_ok cfg st (List.length (reqs s3)) (new_ck (S i) WIdle inn None own false)).
      { intros st. unfold ck_ok, new_ck, stuckb, inn. cbn. destruct (g_cont cfg); repeat split; try discriminate; auto. }
      assert (Hci : conn_inner inn = true) by (unfold inn; destruct (g_cont cfg); reflexivity).
      destruct own eqn:Hown.
      * set (s4 := upd_tok (S i) (set_marker (Some (List.length (reqs s3)))) s3).
        assert (H4 : Lv cfg (Some (List.length (reqs s3))) None s4) by (apply Lv_set_marker; exact H3).
        assert (R4 : reqs s4 = reqs s3) by reflexivity.
        split; [|change (TL s4); eapply TL_Fr; [apply Fr_upd_tok|exact HTL3]].
        match goal with |- Lv cfg None None (set_dials (_ ++ [?d]) (set_reqs (_ ++ [?rq]) _)) => change (Lv cfg None None (add_req rq d s4)) end.
        apply Lv_add; auto.
        -- intros tid t' own' Hn. exact (no_task_out_of_range cfg s3 H3 tid t' own' Hn).
        -- intros ck E. inversion E; subst ck. split; [apply Hck|intros _; reflexivity].
        -- intros t' Hm. eexists. split; [reflexivity|]. split; [reflexivity|]. cbn [new_ck k_token].
           unfold marker, s4 in Hm. destruct (tok_upd_cases (S i) (set_marker (Some (List.length (reqs s3)))) s3 t') as [E|[E _]]; [|auto].
           rewrite E in Hm. destruct (marker_out_of_range cfg s3 t' H3 Hm).
      * apply (Hadd s3); auto. intros ck E. inversion E; subst ck. split; [apply Hck|intros _; reflexivity].
Qed.

(* ---------------------------------------------------------------- every operation, every history *)
Lemma TL_bg_loop cfg fuel : forall s, TL s -> TL (bg_loop cfg fuel s).
Proof.
  induction fuel as [|f IH]; intros s H; cbn [bg_loop]; [exact H|].
  destruct (runq s) as [|tid rest]; [exact H|]. apply IH. eapply TL_Fr; [exact (proj1 (Tr_run_task cfg tid (set_runq rest s)))|exact H].
Qed.

Lemma Lv_step cfg s o :
  Lv cfg None None s -> List.length (dials s) = List.length (reqs s) -> TL s ->
  Lv cfg None None (step cfg s o) /\ TL (step cfg s o).
Proof.
  intros H Hlen HTL. unfold step.
  assert (H0 : Lv cfg None None (set_out [] s)) by (apply (Lv_simple_ops cfg s H)).
  assert (HTL0 : TL (set_out [] s)) by exact HTL.
  destruct (Lv_simple_ops cfg (set_out [] s) H0) as (S1 & S2 & S3 & S4 & S5 & _).
  destruct o as [u p|r|r|r|r|r y|c|c| |dt].
  - apply Lv_do_issue; auto.
  - split; [apply Lv_do_poll; exact H0|eapply TL_Fr; [exact (proj1 (Tr_do_poll cfg r _))|exact HTL0]].
  - split; [apply Lv_do_cancel; exact H0|eapply TL_Fr; [exact (proj1 (Tr_do_cancel cfg r _))|exact HTL0]].
  - split; [apply S1|eapply TL_Fr; [exact (proj1 (Tr_do_finish r _))|exact HTL0]].
  - split; [apply S2|eapply TL_Fr; [exact (proj1 (Tr_do_upgrade r _))|exact HTL0]].
  - split; [apply Lv_do_dial_done; exact H0|eapply TL_Fr; [exact (proj1 (Tr_do_dial_done r y _))|exact HTL0]].
  - split; [apply S3|eapply TL_Fr; [exact (proj1 (Tr_do_conn_ready c _))|exact HTL0]].
  - split; [apply S4|eapply TL_Fr; [exact (proj1 (Tr_do_conn_close c _))|exact HTL0]].
  - unfold do_bg. split; [apply Lv_bg_loop; exact H0|apply TL_bg_loop; exact HTL0].
  - split; [apply S5|exact HTL0].
Qed.

Lemma Lv_init cfg : Lv cfg None None init.
Proof.
  constructor.
  - intros [|r] ck Hr; discriminate Hr.
  - intros [|r] ck Hr; discriminate Hr.
  - intros t o Hm. exfalso. unfold marker in Hm. destruct t as [|[|t]]; cbn in Hm; discriminate.
  - intros [|tid] rid t own Hn; discriminate Hn.
  - intros [|tid1] tid2 rid t1 o1 t2 o2 Hn; discriminate Hn.
Qed.

(* the safety invariant (pool/ProofsC03.v) gives the alignment of dials and requests *)
Definition Reach (cfg : config) (s : state) : Prop := (exists m, Bd m s) /\ Lv cfg None None s /\ TL s.

Lemma Reach_dlen cfg s : Reach cfg s -> List.length (dials s) = List.length (reqs s).
Proof. intros [[m [HI _]] _]. exact (i_dlen _ _ _ _ HI). Qed.

Lemma Reach_init cfg : Reach cfg init.
Proof. split; [exists Spec.m0; exact Bd_init|]. split; [apply Lv_init|reflexivity]. Qed.

Lemma Reach_step cfg s o : Reach cfg s -> Reach cfg (step cfg s o).
Proof.
  intros R. pose proof (Reach_dlen cfg s R) as Hlen. destruct R as [[m HB] [HL HT]].
  destruct (Lv_step cfg s o HL Hlen HT) as [HL' HT']. split; [|auto].
  destruct (step_G cfg m s o (observe (step cfg s o)) HB) as [P' H'].
  destruct (Bd_next cfg m o (step cfg s o) P' H') as [_ Hn]. eexists. exact Hn.
Qed.

Lemma Reach_steps cfg ops : forall s, Reach cfg s -> Reach cfg (fold_left (step cfg) ops s).
Proof. induction ops as [|o ops IH]; intros s R; cbn [fold_left]; [exact R|]. apply IH. apply Reach_step. exact R. Qed.

Theorem Reach_run cfg ops : Reach cfg (run cfg ops).
Proof. apply Reach_steps. apply Reach_init. Qed.
