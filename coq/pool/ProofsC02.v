(* C02: a non-multiplexed connection is handed to a request only when nobody holds it, it has been
   released and reported ready since its last hand-off, and it was not taken over by an upgrade.
   Invariant [I] (pool/FramesC02.v): linearity of non-shared connection ids over the places P1-P5
   plus the ids in flight inside the current step, related to the monitor's tracker. *)
From HD Require Import common.Base http.Model pool.Model pool.Spec pool.FramesC02.
Local Open Scope list_scope.

(* counting form of the preservation lemma: [F0] in flight before, [F1] after *)
Lemma I_trans_cnt x R A B F0 F1 m s s' :
  I x F0 m s -> trans x R A B s s' ->
  (forall c, cnt A c + cnt B c <= cnt F0 c) ->
  (forall c, cnt F1 c + cnt A c + cnt B c <= cnt R c + cnt F0 c) ->
  I x F1 m s'.
Proof.
  intros [L S Li IA IH IT U HR X] [TC TA TH TT TR TO TL] H0 H1.
  assert (Hsh : forall c, share_of s' c = false -> share_of s c = false)
    by (intros c; rewrite (share_of_F2 s s' c TC); auto).
  constructor.
  - rewrite L. apply F2_length; exact TC.
  - intros c ci cn' G1 G2. destruct (F2_bwd _ _ _ _ TC G2) as (cn & G3 & (G4 & _)). rewrite G4. eauto.
  - intros c Hs. apply Hsh in Hs. specialize (Li c Hs). specialize (TA c Hs). specialize (TH c Hs). specialize (TT c Hs).
    specialize (H0 c). specialize (H1 c). lia.
  - intros c Hs Hp. apply Hsh in Hs. apply (Av_cle m s s' c TC). apply IA; [exact Hs|].
    specialize (TA c Hs). specialize (H0 c). specialize (H1 c). lia.
  - intros c Hs Hp. apply Hsh in Hs. destruct (IH c Hs) as (cn & G1 & G2); [specialize (TH c Hs); lia|].
    destruct (F2_fwd _ _ _ _ TC G1) as (cn' & G3 & (_ & G4 & _)). exists cn'. split; [exact G3|congruence].
  - intros c Hs Hp. apply Hsh in Hs. apply (Tv_cle m s s' c TC). specialize (TT c Hs).
    destruct (Nat.eq_dec (cnt (LT s) c) 0) as [Hz|Hz].
    + apply Av_Tv. apply IA; [exact Hs|]. specialize (H0 c). lia.
    + apply IT; [exact Hs|lia].
  - intros c ci cn' G1 G2 G3. destruct (F2_bwd _ _ _ _ TC G2) as (cn & G4 & (_ & _ & G5)).
    specialize (U c ci cn G1 G4 G3). destruct (c_open cn') eqn:E; [|reflexivity]. rewrite G5 in U by reflexivity. discriminate.
  - intros r ri c G1 G2. destruct (HR r ri c G1 G2) as (Hx & t & f & p & G3). split; [exact Hx|].
    destruct (TR r _ Hx G3) as (q' & G4 & (f' & pl' & ->)). eauto.
  - intros r Hr. rewrite TL. auto.
Qed.

Lemma G_step m0 x R A B F0 F1 s s' :
  G m0 x F0 s -> trans x R A B s s' ->
  (forall c, cnt A c + cnt B c <= cnt F0 c) ->
  (forall c, cnt F1 c + cnt A c + cnt B c <= cnt R c + cnt F0 c) ->
  G m0 x F1 s'.
Proof.
  intros [Hev HI] HT H0 H1. destruct (t_out _ _ _ _ _ _ HT) as (es & Ho & Hs). split.
  - rewrite Ho, rev_app_distr, evs_ok_app, Hev. cbn [andb]. apply evs_ok_soft.
    apply Forall_forall. intros e He. rewrite Forall_forall in Hs. apply Hs, in_rev, He.
  - eapply I_msoft; [eapply tm_soft; eauto|]. eapply I_trans_cnt; eauto.
Qed.

Lemma G_quiet m0 x F s s' : G m0 x F s -> quiet x s s' -> G m0 x F s'.
Proof. intros H Q. eapply G_step; [exact H|exact Q| |]; intros c; cbn; lia. Qed.

(* tactic for the side conditions: counts of concrete small lists *)
Ltac cnts := intros; unfold ck_conns, oslot, oconn in *; cbn [k_slot k_conn k_set_slot k_set_conn k_set_waiter k_set_inner k_set_rxpolled k_set_txdropped fst snd] in *;
             repeat rewrite ?cnt_app, ?cnt_cons, ?cnt_nil in *; try lia.

(* ---------------------------------------------------------------- drops *)
Lemma G_pooled_drop m0 x p F s : G m0 x (fst p :: F) s -> G m0 x F (pooled_drop p s).
Proof. intros H. eapply G_step; [exact H|apply (trans_pooled_drop x p s)| |]; cnts. Qed.

Lemma rx_drop_conn ck s : k_conn (fst (rx_drop ck s)) = k_conn ck.
Proof. unfold rx_drop. destruct (k_waiter ck), (k_slot ck); reflexivity. Qed.

Lemma G_rx_drop m0 x ck F s :
  G m0 x (oslot (k_slot ck) ++ F) s ->
  G m0 x (oslot (k_slot (fst (rx_drop ck s))) ++ F) (snd (rx_drop ck s)).
Proof.
  intros H. unfold rx_drop. destruct (k_waiter ck); destruct (k_slot ck) as [p|] eqn:E; cbn [fst snd k_slot k_set_waiter k_set_slot] in *; rewrite ?E; cbn [oslot app] in *;
    try exact H; apply G_pooled_drop; exact H.
Qed.

Lemma G_push m0 x n t c F s : G m0 x (c :: F) s -> G m0 x F (pool_push n t c s).
Proof. intros H. eapply G_step; [exact H|apply (trans_pool_push x n t c s)| |]; cnts. Qed.

Lemma G_drop_F m0 x F F' s : G m0 x (F' ++ F) s -> G m0 x F s.
Proof. apply G_F_mono. cnts. Qed.

Lemma G_checkout_drop m0 x cfg rid ck F s :
  G m0 x (ck_conns ck ++ F) s -> G m0 x F (checkout_drop cfg rid ck s).
Proof.
  intros H. unfold checkout_drop.
  set (hp := g_pool cfg && negb (Nat.eqb (k_token ck) 0)).
  set (s1 := match k_conn ck with
             | Some c => if is_open s c && hp then pool_push (g_max_idle cfg) (k_token ck) c s else drop_conn c s
             | None => s end).
  assert (H1 : G m0 x (oslot (k_slot ck) ++ F) s1).
  { subst s1. unfold ck_conns in H. destruct (k_conn ck) as [c|]; cbn [oconn] in H.
    - assert (H' : G m0 x (c :: oslot (k_slot ck) ++ F) s) by (eapply G_F_mono; [|exact H]; cnts).
      destruct (is_open s c && hp); [apply G_push; exact H'|].
      eapply G_quiet; [|apply quiet_drop_conn]. eapply G_F_mono; [|exact H']. cnts.
    - eapply G_F_mono; [|exact H]. cnts. }
  clearbody s1. clear H.
  set (started := match get_dial s1 rid with Some d => match d_stage d with DNew => false | _ => true end | None => false end).
  set (delayed := match k_inner ck with IDelayDrop => started | _ => false end).
  set (s2 := if delayed then spawn (TDelayed rid (k_token ck) (k_owner ck)) s1
             else if hp && k_owner ck then pool_cancel (k_token ck) rid s1 else s1).
  assert (H2 : G m0 x (oslot (k_slot ck) ++ F) s2).
  { subst s2. destruct delayed.
    - eapply G_step; [exact H1|apply (trans_spawn x (TDelayed rid (k_token ck) (k_owner ck)) s1)| |]; cnts.
    - destruct (hp && k_owner ck); [|exact H1]. eapply G_quiet; [exact H1|apply quiet_pool_cancel]. }
  clearbody s2. clear H1.
  pose proof (G_rx_drop m0 x ck F s2 H2) as H3. destruct (rx_drop ck s2) as [ck' s3]. cbn [fst snd] in H3.
  apply G_drop_F in H3.
  destruct (k_inner ck); try exact H3; try (eapply G_quiet; [exact H3|apply quiet_upd_dial]).
  destruct delayed; [exact H3|]. eapply G_quiet; [exact H3|apply quiet_upd_dial].
Qed.

(* ---------------------------------------------------------------- a new connection *)
Lemma I_set_out x F m v s : I x F m s -> I x F m (set_out v s).
Proof. intros [L S Li IA IH IT U HR X]. constructor; assumption. Qed.

Lemma occ_in_range x F m s c : I x F m s -> share_of s c = false ->
  0 < cnt (LA x s) c + cnt (LH x s) c + cnt (LT s) c + cnt F c -> exists cn, get_conn s c = Some cn.
Proof.
  intros HI Hs Hp.
  destruct (Nat.eq_dec (cnt (LA x s) c + cnt F c) 0) as [Ha|Ha].
  - destruct (Nat.eq_dec (cnt (LH x s) c) 0) as [Hh|Hh].
    + destruct (I_T _ _ _ _ HI c Hs) as (ci & cn & _ & Hc & _); [lia|eauto].
    + destruct (I_H _ _ _ _ HI c Hs) as (cn & Hc & _); [lia|eauto].
  - destruct (I_A _ _ _ _ HI c Hs) as (ci & cn & _ & Hc & _); [lia|eauto].
Qed.

Lemma I_new x F m s rid sh :
  I x F m s ->
  I x (List.length (conns s) :: F) (track_ev m (ENew (List.length (conns s)) sh rid))
    (set_conns (conns s ++ [mkConn rid sh true true 1 0 []]) s).
Proof.
  intros HI. pose proof HI as [L S Li IA IH IT U HR X].
  set (c0 := List.length (conns s)). set (cn0 := mkConn rid sh true true 1 0 []).
  set (s' := set_conns (conns s ++ [cn0]) s).
  set (ci0 := mkCi rid sh (m_i m) None (m_i m) (m_time m) None true false false None (m_time m)).
  assert (Hm : m_conns (track_ev m (ENew c0 sh rid)) = m_conns m ++ [ci0]) by reflexivity.
  assert (Hr : m_reqs (track_ev m (ENew c0 sh rid)) = upd_nth rid (set_ri_dial DsOver) (m_reqs m)) by reflexivity.
  assert (Hold : forall c cn, get_conn s c = Some cn -> get_conn s' c = Some cn).
  { intros c cn H. unfold get_conn, s'. cbn [conns set_conns]. rewrite nth_error_app1; [exact H|]. apply nth_error_Some. unfold get_conn in H. congruence. }
  assert (Hmold : forall c ci, nth_error (m_conns m) c = Some ci -> nth_error (m_conns m ++ [ci0]) c = Some ci).
  { intros c ci H. rewrite nth_error_app1; [exact H|]. apply nth_error_Some. congruence. }
  assert (Hnew : get_conn s' c0 = Some cn0).
  { unfold get_conn, s'. cbn [conns set_conns]. rewrite nth_error_app2 by (unfold c0; lia). unfold c0. rewrite Nat.sub_diag. reflexivity. }
  assert (Hmnew : nth_error (m_conns m ++ [ci0]) c0 = Some ci0).
  { rewrite nth_error_app2 by (unfold c0; lia). unfold c0. rewrite L, Nat.sub_diag. reflexivity. }
  assert (Hsh : forall c, c <> c0 -> share_of s' c = share_of s c).
  { intros c Hc. unfold share_of. destruct (get_conn s c) as [cn|] eqn:E; [rewrite (Hold c cn E); reflexivity|].
    unfold get_conn in *. apply nth_error_None in E. unfold s'. cbn [conns set_conns].
    assert (E' : nth_error (conns s ++ [cn0]) c = None) by (apply nth_error_None; rewrite app_length; cbn; unfold c0 in Hc; lia).
    rewrite E'. reflexivity. }
  assert (Hs0 : share_of s c0 = false).
  { unfold share_of, get_conn. assert (E : nth_error (conns s) c0 = None) by (apply nth_error_None; unfold c0; lia). rewrite E. reflexivity. }
  assert (Hz : cnt (LA x s) c0 + cnt (LH x s) c0 + cnt (LT s) c0 + cnt F c0 = 0).
  { destruct (Nat.eq_dec (cnt (LA x s) c0 + cnt (LH x s) c0 + cnt (LT s) c0 + cnt F c0) 0) as [|Hn]; [assumption|].
    destruct (occ_in_range x F m s c0 HI Hs0) as (cn & Hc); [lia|]. unfold get_conn in Hc.
    assert (c0 < List.length (conns s)) by (apply nth_error_Some; congruence). unfold c0 in *. lia. }
  assert (HAv : forall c, Av m s c -> Av (track_ev m (ENew c0 sh rid)) s' c).
  { intros c (ci & cn & H1 & H2 & H3). exists ci, cn. rewrite Hm. split; [apply Hmold; exact H1|]. split; [apply Hold; exact H2|exact H3]. }
  assert (HTv : forall c, Tv m s c -> Tv (track_ev m (ENew c0 sh rid)) s' c).
  { intros c (ci & cn & H1 & H2 & H3). exists ci, cn. rewrite Hm. split; [apply Hmold; exact H1|]. split; [apply Hold; exact H2|exact H3]. }
  assert (Hget : forall c cn ci, get_conn s' c = Some cn -> nth_error (m_conns m ++ [ci0]) c = Some ci ->
             (c = c0 /\ cn = cn0 /\ ci = ci0) \/ (c <> c0 /\ get_conn s c = Some cn /\ nth_error (m_conns m) c = Some ci)).
  { intros c cn ci H1 H2. destruct (Nat.eq_dec c c0) as [->|Hn].
    - left. rewrite Hnew in H1. rewrite Hmnew in H2. inversion H1; inversion H2; auto.
    - right. split; [exact Hn|]. assert (c < c0).
      { assert (c < List.length (conns s ++ [cn0])) by (apply nth_error_Some; unfold get_conn, s' in H1; cbn [conns set_conns] in H1; congruence).
        rewrite app_length in *. cbn in *. unfold c0 in *. lia. }
      unfold get_conn, s' in *. cbn [conns set_conns] in H1. rewrite nth_error_app1 in H1 by (unfold c0 in *; lia).
      rewrite nth_error_app1 in H2 by (unfold c0 in *; lia). auto. }
  constructor.
  - rewrite Hm. unfold s'. cbn [conns set_conns]. rewrite !app_length. cbn. lia.
  - intros c ci cn H1 H2. rewrite Hm in H1. destruct (Hget c cn ci H2 H1) as [(-> & -> & ->)|(Hn & G1 & G2)]; [reflexivity|eauto].
  - intros c Hs. change (LA x s') with (LA x s). change (LH x s') with (LH x s). change (LT s') with (LT s).
    rewrite cnt_cons. destruct (Nat.eq_dec c0 c) as [<-|Hn]; [lia|]. rewrite Hsh in Hs by congruence. specialize (Li c Hs). lia.
  - intros c Hs Hp. change (LA x s') with (LA x s) in Hp. rewrite cnt_cons in Hp. destruct (Nat.eq_dec c0 c) as [<-|Hn].
    + exists ci0, cn0. rewrite Hm. repeat split; auto.
    + rewrite Hsh in Hs by congruence. apply HAv, IA; [exact Hs|lia].
  - intros c Hs Hp. change (LH x s') with (LH x s) in Hp. destruct (Nat.eq_dec c0 c) as [<-|Hn]; [lia|].
    rewrite Hsh in Hs by congruence. destruct (IH c Hs Hp) as (cn & G1 & G2). exists cn. split; [apply Hold; exact G1|exact G2].
  - intros c Hs Hp. change (LT s') with (LT s) in Hp. destruct (Nat.eq_dec c0 c) as [<-|Hn]; [lia|].
    rewrite Hsh in Hs by congruence. apply HTv, IT; assumption.
  - intros c ci cn H1 H2 H3. rewrite Hm in H1. destruct (Hget c cn ci H2 H1) as [(-> & -> & ->)|(Hn & G1 & G2)]; [discriminate|eauto].
  - intros r ri c H1 H2. rewrite Hr in H1. apply nth_error_upd_nth_inv in H1.
    destruct H1 as [(-> & q & Hq & ->)|(Hn & H1)]; [apply (HR r q c Hq H2)|apply (HR r ri c H1 H2)].
  - exact X.
Qed.

Lemma tm_emit m0 e s : tm m0 (emit e s) = track_ev (tm m0 s) e.
Proof. unfold tm, emit. cbn [out set_out rev]. rewrite fold_left_app. reflexivity. Qed.

Lemma G_emit_new m0 x F s rid sh :
  G m0 x F s ->
  G m0 x (List.length (conns s) :: F)
    (emit (ENew (List.length (conns s)) sh rid) (set_conns (conns s ++ [mkConn rid sh true true 1 0 []]) s)).
Proof.
  intros [Hev HI]. split.
  - unfold emit. cbn [out set_out set_conns rev]. rewrite evs_ok_app, Hev. reflexivity.
  - rewrite tm_emit. unfold emit. apply I_set_out.
    change (tm m0 (set_conns (conns s ++ [mkConn rid sh true true 1 0 []]) s)) with (tm m0 s).
    apply I_new. exact HI.
Qed.

Lemma G_connector_poll m0 x rid by_ F s :
  G m0 x F s ->
  match fst (connector_poll rid by_ s) with
  | CReady (inl c) => G m0 x (c :: F) (snd (connector_poll rid by_ s))
  | _ => G m0 x F (snd (connector_poll rid by_ s))
  end.
Proof.
  intros H. unfold connector_poll. destruct (get_dial s rid) as [d|]; [|exact H].
  destruct (d_stage d) as [| |[alpn| |]|]; cbn [fst snd]; try exact H.
  - eapply G_quiet; [exact H|]. eapply quiet_comp; [apply (quiet_emit x (EDial rid (d_key d))); exact Logic.I|apply quiet_upd_dial].
  - eapply G_quiet; [exact H|apply quiet_upd_dial].
  - eapply G_quiet; [apply G_emit_new; exact H|apply quiet_upd_dial].
  - eapply G_quiet; [exact H|apply quiet_upd_dial].
  - eapply G_quiet; [exact H|apply quiet_upd_dial].
Qed.

(* ---------------------------------------------------------------- Checkout::poll *)
Definition wres (w : wpoll) : list nat := match w with WConnected p => [fst p] | _ => [] end.
Definition kres (k : kpoll) : list nat := match k with KReady (inl p) => [fst p] | _ => [] end.

Lemma waiter_poll_cnt ck c :
  cnt (wres (fst (waiter_poll ck))) c + cnt (ck_conns (snd (waiter_poll ck))) c <= cnt (ck_conns ck) c.
Proof.
  unfold waiter_poll. destruct (k_waiter ck); destruct (k_slot ck) as [p|] eqn:E; try destruct (k_txdropped ck);
    cbn [fst snd wres]; unfold ck_conns; cbn [k_slot k_conn k_set_slot k_set_waiter k_set_rxpolled]; rewrite ?E;
    cbn [oslot]; repeat rewrite ?cnt_app, ?cnt_cons, ?cnt_nil; lia.
Qed.

Lemma G_register m0 x cfg t c F s :
  G m0 x F s -> fst (fst (register cfg t c s)) = c /\ G m0 x F (snd (register cfg t c s)).
Proof. intros H. destruct (register_spec x cfg t c s) as [H1 Q]. split; [exact H1|eapply G_quiet; eauto]. Qed.

(* the tail shared by the two "own connection" branches *)
Lemma G_ck_finish m0 cfg rid ck c F s :
  G m0 (Some rid) (c :: ck_conns ck ++ F) s ->
  forall f : checkout -> checkout, (forall k, k_slot (f k) = k_slot k /\ k_conn (f k) = k_conn k) ->
  let ck2 := f (fst (rx_drop ck s)) in
  let s2 := set_req rid (RCheckout ck2) (snd (rx_drop ck s)) in
  G m0 (Some rid) ([fst (fst (register cfg (k_token ck2) c s2))] ++ ck_conns ck2 ++ F) (snd (register cfg (k_token ck2) c s2)).
Proof.
  intros H f Hf ck2 s2.
  assert (H1 : G m0 (Some rid) (oslot (k_slot (fst (rx_drop ck s))) ++ c :: oconn (k_conn ck) ++ F) (snd (rx_drop ck s))).
  { apply G_rx_drop. eapply G_F_mono; [|exact H]. cnts. }
  assert (H2 : G m0 (Some rid) (oslot (k_slot (fst (rx_drop ck s))) ++ c :: oconn (k_conn ck) ++ F) s2)
    by (eapply G_quiet; [exact H1|apply quiet_set_req_x]).
  destruct (G_register m0 (Some rid) cfg (k_token ck2) c _ s2 H2) as [E H3]. rewrite E.
  eapply G_F_mono; [|exact H3]. intros c'. unfold ck_conns, ck2.
  destruct (Hf (fst (rx_drop ck s))) as (E1 & E2). rewrite E1, E2, rx_drop_conn. cnts.
Qed.

Lemma G_ck_fail m0 rid ck F s :
  G m0 (Some rid) (ck_conns ck ++ F) s ->
  forall f : checkout -> checkout, (forall k, k_slot (f k) = k_slot k /\ k_conn (f k) = k_conn k) ->
  let ck2 := f (fst (rx_drop ck s)) in
  G m0 (Some rid) (ck_conns ck2 ++ F) (set_req rid (RCheckout ck2) (snd (rx_drop ck s))).
Proof.
  intros H f Hf ck2.
  assert (H1 : G m0 (Some rid) (oslot (k_slot (fst (rx_drop ck s))) ++ oconn (k_conn ck) ++ F) (snd (rx_drop ck s))).
  { apply G_rx_drop. eapply G_F_mono; [|exact H]. cnts. }
  eapply G_quiet; [|apply quiet_set_req_x]. eapply G_F_mono; [|exact H1]. intros c'. unfold ck_conns, ck2.
  destruct (Hf (fst (rx_drop ck s))) as (E1 & E2). rewrite E1, E2, rx_drop_conn. cnts.
Qed.

Lemma G_checkout_poll m0 cfg rid ck F s :
  G m0 (Some rid) (ck_conns ck ++ F) s ->
  G m0 (Some rid) (kres (fst (fst (checkout_poll cfg rid ck s))) ++ ck_conns (snd (fst (checkout_poll cfg rid ck s))) ++ F)
    (snd (checkout_poll cfg rid ck s)).
Proof.
  intros H. unfold checkout_poll.
  pose proof (waiter_poll_cnt ck) as Hw. destruct (waiter_poll ck) as [w ck1]. cbn [fst snd] in Hw.
  assert (H1 : G m0 (Some rid) (wres w ++ ck_conns ck1 ++ F) s).
  { eapply G_F_mono; [|exact H]. intros c. specialize (Hw c). rewrite !cnt_app in *. lia. }
  destruct w; cbn [wres] in H1; cbn [fst snd kres]; try exact H1.
  cbn [app] in H1.
  assert (Hconn :
    G m0 (Some rid)
      (kres (fst (fst (let '(r, s0) := connector_poll rid ByReq s in
         match r with
         | CPending => (KPending, ck1, s0)
         | CReady res =>
             let '(ck0, s1) := rx_drop ck1 s0 in
             let ck2 := k_set_inner IConnected ck0 in
             let s2 := set_req rid (RCheckout ck2) s1 in
             match res with
             | inl c => let '(p, s3) := register cfg (k_token ck2) c s2 in (KReady (inl p), ck2, s3)
             | inr e => (KReady (inr e), ck2, s2)
             end
         end))) ++ ck_conns (snd (fst (let '(r, s0) := connector_poll rid ByReq s in
         match r with
         | CPending => (KPending, ck1, s0)
         | CReady res =>
             let '(ck0, s1) := rx_drop ck1 s0 in
             let ck2 := k_set_inner IConnected ck0 in
             let s2 := set_req rid (RCheckout ck2) s1 in
             match res with
             | inl c => let '(p, s3) := register cfg (k_token ck2) c s2 in (KReady (inl p), ck2, s3)
             | inr e => (KReady (inr e), ck2, s2)
             end
         end))) ++ F)
      (snd (let '(r, s0) := connector_poll rid ByReq s in
         match r with
         | CPending => (KPending, ck1, s0)
         | CReady res =>
             let '(ck0, s1) := rx_drop ck1 s0 in
             let ck2 := k_set_inner IConnected ck0 in
             let s2 := set_req rid (RCheckout ck2) s1 in
             match res with
             | inl c => let '(p, s3) := register cfg (k_token ck2) c s2 in (KReady (inl p), ck2, s3)
             | inr e => (KReady (inr e), ck2, s2)
             end
         end))).
  { pose proof (G_connector_poll m0 (Some rid) rid ByReq (ck_conns ck1 ++ F) s H1) as Hc.
    destruct (connector_poll rid ByReq s) as [r s1]. cbn [fst snd] in Hc. destruct r as [|[c|e]]; [exact Hc| |].
    - pose proof (G_ck_finish m0 cfg rid ck1 c F s1 Hc (k_set_inner IConnected) (fun k => conj eq_refl eq_refl)) as Hf.
      cbv zeta in Hf. destruct (rx_drop ck1 s1) as [ck2 s2]. cbn [fst snd] in Hf |- *.
      destruct (register cfg (k_token (k_set_inner IConnected ck2)) c (set_req rid (RCheckout (k_set_inner IConnected ck2)) s2)) as [p s3].
      cbn [fst snd kres] in Hf |- *. exact Hf.
    - pose proof (G_ck_fail m0 rid ck1 F s1 Hc (k_set_inner IConnected) (fun k => conj eq_refl eq_refl)) as Hf.
      cbv zeta in Hf. destruct (rx_drop ck1 s1) as [ck2 s2]. cbn [fst snd kres app] in Hf |- *. exact Hf. }
  destruct (k_inner ck1); try exact Hconn; cbn [fst snd kres app]; try exact H1.
  destruct (k_conn ck1) as [c|] eqn:Ec; cbn [fst snd kres app]; [|exact H1].
  assert (H2 : G m0 (Some rid) (c :: ck_conns (k_set_conn None ck1) ++ F) s).
  { eapply G_F_mono; [|exact H1]. intros c'. unfold ck_conns. cbn [k_set_conn k_slot k_conn]. rewrite Ec. cnts. }
  pose proof (G_ck_finish m0 cfg rid (k_set_conn None ck1) c F s H2 (fun k => k) (fun k => conj eq_refl eq_refl)) as Hf.
  cbv zeta in Hf. destruct (rx_drop (k_set_conn None ck1) s) as [ck2 s2]. cbn [fst snd] in Hf |- *.
  destruct (register cfg (k_token ck2) c (set_req rid (RCheckout ck2) s2)) as [p s3]. cbn [fst snd kres] in Hf |- *. exact Hf.
Qed.

(* ---------------------------------------------------------------- taking a request's checkout out / putting it back *)
Lemma I_extract F m s r q :
  I None F m s -> get_req s r = Some q -> (forall p f pl, q <> RHolding p f pl) -> I (Some r) (reqA q ++ F) m s.
Proof.
  intros [L S Li IA IH IT U HR X] Hq Hn.
  assert (EA : forall c, cnt (LA (Some r) s) c + cnt (reqA q) c = cnt (LA None s) c).
  { intros c. unfold LA, reqs_x. rewrite !cnt_app.
    pose proof (cnt_flat_map_upd reqA (fun _ => RDone) c (reqs s) r q Hq) as H. cbn [reqA] in H. rewrite cnt_nil in H. lia. }
  assert (EH : forall c, cnt (LH (Some r) s) c = cnt (LH None s) c).
  { intros c. unfold LH, reqs_x.
    pose proof (cnt_flat_map_upd reqH (fun _ => RDone) c (reqs s) r q Hq) as H. cbn [reqH] in H. rewrite cnt_nil in H.
    assert (reqH q = []) as E by (destruct q; try reflexivity; exfalso; eapply Hn; reflexivity). rewrite E, cnt_nil in H. lia. }
  constructor; auto.
  - intros c Hs. specialize (Li c Hs). specialize (EA c). rewrite EH, cnt_app. lia.
  - intros c Hs Hp. apply IA; [exact Hs|]. specialize (EA c). rewrite cnt_app in Hp. lia.
  - intros c Hs Hp. apply IH; [exact Hs|]. rewrite <- EH. exact Hp.
  - intros r' ri c H1 H2. destruct (HR r' ri c H1 H2) as (_ & t & f & p & G1). split; [|eauto].
    intros E. inversion E; subst. rewrite Hq in G1. inversion G1; subst. eapply Hn; reflexivity.
  - intros r' E. inversion E; subst. apply nth_error_Some. unfold get_req in Hq. congruence.
Qed.

Lemma I_insert F m s r v :
  I (Some r) (reqA v ++ F) m s -> (forall p f pl, v <> RHolding p f pl) -> I None F m (set_req r v s).
Proof.
  intros [L S Li IA IH IT U HR X] Hn.
  assert (Hr : r < List.length (reqs s)) by (apply X; reflexivity).
  destruct (nth_error (reqs s) r) as [q0|] eqn:Hq; [|apply nth_error_None in Hq; lia].
  assert (EA : forall c, cnt (LA None (set_req r v s)) c = cnt (LA (Some r) s) c + cnt (reqA v) c).
  { intros c. unfold LA, reqs_x, set_req. cbn [toks reqs set_reqs]. rewrite !cnt_app.
    pose proof (cnt_flat_map_upd reqA (fun _ => RDone) c (reqs s) r q0 Hq) as H1.
    pose proof (cnt_flat_map_upd reqA (fun _ => v) c (reqs s) r q0 Hq) as H2. cbv beta in H1, H2. cbn [reqA] in H1. rewrite cnt_nil in H1. lia. }
  assert (EH : forall c, cnt (LH None (set_req r v s)) c = cnt (LH (Some r) s) c).
  { intros c. unfold LH, reqs_x, set_req. cbn [reqs set_reqs].
    pose proof (cnt_flat_map_upd reqH (fun _ => RDone) c (reqs s) r q0 Hq) as H1.
    pose proof (cnt_flat_map_upd reqH (fun _ => v) c (reqs s) r q0 Hq) as H2. cbv beta in H1, H2. cbn [reqH] in H1. rewrite cnt_nil in H1.
    assert (reqH v = []) as E by (destruct v; try reflexivity; exfalso; eapply Hn; reflexivity). rewrite E, cnt_nil in H2. lia. }
  constructor; auto.
  - intros c Hs. specialize (Li c Hs). rewrite EA, EH. rewrite cnt_app in Li. change (LT (set_req r v s)) with (LT s). lia.
  - intros c Hs Hp. apply (IA c Hs). rewrite EA in Hp. rewrite cnt_app. lia.
  - intros c Hs Hp. apply (IH c Hs). rewrite EH in Hp. exact Hp.
  - intros r' ri c H1 H2. destruct (HR r' ri c H1 H2) as (Hx & t & f & p & G1). split; [discriminate|].
    exists t, f, p. rewrite get_req_set_req_neq by congruence. exact G1.
  - intros r' E. discriminate.
Qed.

Lemma G_extract m0 F s r q :
  G m0 None F s -> get_req s r = Some q -> (forall p f pl, q <> RHolding p f pl) -> G m0 (Some r) (reqA q ++ F) s.
Proof. intros [A B] H1 H2. split; [exact A|apply I_extract; assumption]. Qed.

Lemma G_insert m0 F s r v :
  G m0 (Some r) (reqA v ++ F) s -> (forall p f pl, v <> RHolding p f pl) -> G m0 None F (set_req r v s).
Proof. intros [A B] H2. split; [exact A|]. change (tm m0 (set_req r v s)) with (tm m0 s). apply I_insert; assumption. Qed.

(* ---------------------------------------------------------------- the hand-off *)
Lemma get_conn_upd_conn s c g c' :
  get_conn (upd_conn c g s) c' = if Nat.eq_dec c c' then option_map g (get_conn s c) else get_conn s c'.
Proof.
  unfold get_conn, upd_conn. cbn [conns set_conns]. destruct (Nat.eq_dec c c') as [<-|Hn].
  - destruct (nth_error (conns s) c) as [a|] eqn:E; cbn [option_map].
    + apply nth_error_upd_nth_eq. exact E.
    + rewrite (upd_nth_none _ _ _ E). exact E.
  - apply nth_error_upd_nth_neq. exact Hn.
Qed.

Definition hand_g (sh : bool) (cn0 : conn) : conn :=
  c_set_holders (S (c_holders cn0)) (if sh then cn0 else c_set_ready false cn0).
Lemma hand_g_share sh a : c_share (hand_g sh a) = c_share a. Proof. destruct sh; reflexivity. Qed.
Lemma hand_g_open sh a : c_open (hand_g sh a) = c_open a. Proof. destruct sh; reflexivity. Qed.
Lemma hand_g_holders sh a : c_holders (hand_g sh a) = S (c_holders a). Proof. destruct sh; reflexivity. Qed.

Lemma share_of_hand s c sh c' : share_of (upd_conn c (hand_g sh) s) c' = share_of s c'.
Proof.
  unfold share_of. rewrite get_conn_upd_conn. destruct (Nat.eq_dec c c') as [<-|]; [|reflexivity].
  destruct (get_conn s c); cbn [option_map]; [apply hand_g_share|reflexivity].
Qed.

Lemma chk_hand F m s r c b cn :
  I (Some r) (c :: F) m s -> get_conn s c = Some cn ->
  chk_ev_C02 m (EHand r c b (c_open cn) (c_ready cn) (c_holders cn)) = true.
Proof.
  intros HI Hc. cbn [chk_ev_C02].
  destruct (nth_error (m_conns m) c) as [ci|] eqn:E.
  2:{ apply nth_error_None in E. rewrite (I_len _ _ _ _ HI) in E. unfold get_conn in Hc.
      assert (c < List.length (conns s)) by (apply nth_error_Some; congruence). lia. }
  destruct (ci_share ci) eqn:Es; [reflexivity|].
  assert (Hs : share_of s c = false) by (unfold share_of; rewrite Hc; rewrite <- (I_share _ _ _ _ HI c ci cn E Hc); exact Es).
  destruct (I_A _ _ _ _ HI c Hs) as (ci' & cn' & G1 & G2 & G3 & G4 & G5 & G6); [rewrite cnt_cons; destruct (Nat.eq_dec c c); [lia|congruence]|].
  rewrite E in G1. rewrite Hc in G2. inversion G1; inversion G2; subst. rewrite G3, G4, G5, G6. reflexivity.
Qed.

Lemma I_hand F m s r c t b cn :
  I (Some r) (c :: F) m s -> get_conn s c = Some cn ->
  I None F (track_ev m (EHand r c b (c_open cn) (c_ready cn) (c_holders cn)))
    (set_req r (RHolding (c, t) false true) (upd_conn c (hand_g (c_share cn)) s)).
Proof.
  intros HI Hc. pose proof HI as [L S Li IA IH IT U HR X].
  set (e := EHand r c b (c_open cn) (c_ready cn) (c_holders cn)).
  set (s1 := upd_conn c (hand_g (c_share cn)) s). set (s' := set_req r (RHolding (c, t) false true) s1).
  set (h := fun x : cinfo => set_ci_offer None (set_ci_rel_ready false (set_ci_holder (Some r) x))).
  assert (Hmc : exists k, m_conns (track_ev m e) = upd_nth c h (m_conns m) /\ m_reqs (track_ev m e) = upd_nth r k (m_reqs m)
                 /\ forall y, ri_stat (k y) = SHeld c) by (eexists; split; [reflexivity|split; [reflexivity|reflexivity]]).
  destruct Hmc as (k & Hmc & Hmr & Hk).
  assert (Hr : r < List.length (reqs s)) by (apply X; reflexivity).
  destruct (nth_error (reqs s) r) as [q0|] eqn:Hq; [|apply nth_error_None in Hq; lia].
  assert (Hgc : forall c', get_conn s' c' = if Nat.eq_dec c c' then Some (hand_g (c_share cn) cn) else get_conn s c').
  { intros c'. change (get_conn s' c') with (get_conn s1 c'). unfold s1. rewrite get_conn_upd_conn.
    destruct (Nat.eq_dec c c') as [<-|]; [rewrite Hc|]; reflexivity. }
  assert (Hsh : forall c', share_of s' c' = share_of s c') by (intros c'; apply (share_of_hand s c (c_share cn) c')).
  assert (EA : forall c', cnt (LA None s') c' = cnt (LA (Some r) s) c').
  { intros c'. unfold LA, reqs_x, s', s1, set_req, upd_conn. cbn [toks reqs set_reqs set_conns]. rewrite !cnt_app.
    pose proof (cnt_flat_map_upd reqA (fun _ => RDone) c' (reqs s) r q0 Hq) as H1.
    pose proof (cnt_flat_map_upd reqA (fun _ => RHolding (c, t) false true) c' (reqs s) r q0 Hq) as H2.
    cbv beta in H1, H2. cbn [reqA] in H1, H2. lia. }
  assert (EH : forall c', cnt (LH None s') c' = cnt (LH (Some r) s) c' + cnt [c] c').
  { intros c'. unfold LH, reqs_x, s', s1, set_req, upd_conn. cbn [reqs set_reqs set_conns].
    pose proof (cnt_flat_map_upd reqH (fun _ => RDone) c' (reqs s) r q0 Hq) as H1.
    pose proof (cnt_flat_map_upd reqH (fun _ => RHolding (c, t) false true) c' (reqs s) r q0 Hq) as H2.
    cbv beta in H1, H2. cbn [reqH fst] in H1, H2. rewrite cnt_nil in H1. lia. }
  assert (Hlinc : share_of s c = false ->
            cnt (LA (Some r) s) c = 0 /\ cnt (LH (Some r) s) c = 0 /\ cnt (LT s) c = 0 /\ cnt F c = 0).
  { intros Hs. specialize (Li c Hs). rewrite cnt_cons in Li. destruct (Nat.eq_dec c c); [lia|congruence]. }
  assert (Hmi : forall c' ci', nth_error (upd_nth c h (m_conns m)) c' = Some ci' ->
            exists ci0, nth_error (m_conns m) c' = Some ci0 /\ ci_share ci' = ci_share ci0 /\ ci_upgraded ci' = ci_upgraded ci0
                        /\ (c <> c' -> ci' = ci0)).
  { intros c' ci' H. apply nth_error_upd_nth_inv in H. destruct H as [(-> & q & Hq' & ->)|(Hn & H)].
    - exists q. repeat split; auto. congruence.
    - exists ci'. auto. }
  assert (HAv : forall c', c <> c' -> Av m s c' -> Av (track_ev m e) s' c').
  { intros c' Hn (ci & cn1 & H1 & H2 & H3). exists ci, cn1. rewrite Hmc, Hgc.
    rewrite nth_error_upd_nth_neq by exact Hn. destruct (Nat.eq_dec c c'); [congruence|]. auto. }
  assert (HTv : forall c', c <> c' -> Tv m s c' -> Tv (track_ev m e) s' c').
  { intros c' Hn (ci & cn1 & H1 & H2 & H3). exists ci, cn1. rewrite Hmc, Hgc.
    rewrite nth_error_upd_nth_neq by exact Hn. destruct (Nat.eq_dec c c'); [congruence|]. auto. }
  constructor.
  - rewrite Hmc, upd_nth_length, L. unfold s', s1, set_req, upd_conn. cbn [conns set_reqs set_conns]. rewrite upd_nth_length. reflexivity.
  - intros c' ci' cn' H1 H2. rewrite Hmc in H1. destruct (Hmi c' ci' H1) as (ci0 & G1 & G2 & _). rewrite G2. rewrite Hgc in H2.
    destruct (Nat.eq_dec c c') as [<-|]; [inversion H2; subst; rewrite hand_g_share|]; eauto.
  - intros c' Hs. rewrite Hsh in Hs. specialize (Li c' Hs). rewrite EA, EH. change (LT s') with (LT s).
    rewrite !cnt_cons, cnt_nil in *. lia.
  - intros c' Hs Hp. rewrite Hsh in Hs. rewrite EA in Hp. destruct (Nat.eq_dec c c') as [<-|Hn]; [destruct (Hlinc Hs); lia|].
    apply (HAv c' Hn). apply (IA c' Hs). rewrite cnt_cons. lia.
  - intros c' Hs Hp. rewrite Hsh in Hs. rewrite EH in Hp. rewrite Hgc. destruct (Nat.eq_dec c c') as [<-|Hn].
    + eexists. split; [reflexivity|]. rewrite hand_g_holders.
      destruct (IA c Hs) as (ci & cn1 & _ & G2 & G3 & _); [rewrite cnt_cons; destruct (Nat.eq_dec c c); [lia|congruence]|].
      rewrite Hc in G2. inversion G2; subst. lia.
    + apply (IH c' Hs). rewrite cnt_cons, cnt_nil in Hp. destruct (Nat.eq_dec c c'); [congruence|lia].
  - intros c' Hs Hp. rewrite Hsh in Hs. change (LT s') with (LT s) in Hp.
    destruct (Nat.eq_dec c c') as [<-|Hn]; [destruct (Hlinc Hs); lia|]. apply (HTv c' Hn). apply (IT c' Hs Hp).
  - intros c' ci' cn' H1 H2 H3. rewrite Hmc in H1. destruct (Hmi c' ci' H1) as (ci0 & G1 & _ & G3 & _). rewrite G3 in H3. rewrite Hgc in H2.
    destruct (Nat.eq_dec c c') as [<-|]; [inversion H2; subst; rewrite hand_g_open|]; eauto.
  - intros r' ri' c'' H1 H2. rewrite Hmr in H1. split; [discriminate|]. apply nth_error_upd_nth_inv in H1.
    destruct H1 as [(-> & y & Hy & ->)|(Hn & H1)].
    + rewrite Hk in H2. inversion H2; subst. exists t, false, true. unfold s'. apply (get_req_set_req_eq s1 r' _ q0). exact Hq.
    + destruct (HR r' ri' c'' H1 H2) as (_ & t' & f & p & G1). exists t', f, p. unfold s'. rewrite get_req_set_req_neq by exact Hn. exact G1.
  - intros r' E. discriminate.
Qed.

(* ---------------------------------------------------------------- the release *)
Definition predh (cn : conn) : conn := c_set_holders (pred (c_holders cn)) cn.

Definition relV (r c : nat) (m mV : mst) : Prop :=
  m_conns mV = upd_nth c (set_ci_holder None) (m_conns m) /\
  forall r' ri' c', nth_error (m_reqs mV) r' = Some ri' -> ri_stat ri' = SHeld c' ->
     r' <> r /\ exists ri, nth_error (m_reqs m) r' = Some ri /\ ri_stat ri = SHeld c'.

Lemma I_release1 F m mV s r c t fin pl v :
  I None F m s -> get_req s r = Some (RHolding (c, t) fin pl) -> reqA v = [] -> reqH v = [] -> relV r c m mV ->
  let s2 := upd_conn c predh (set_req r v s) in
  I None F mV s2 /\
  (share_of s c = false -> Tv mV s2 c /\ cnt (LA None s2) c + cnt (LH None s2) c + cnt (LT s2) c + cnt F c = 0).
Proof.
  intros HI Hq Hva Hvh [Hmc Hmr] s2. pose proof HI as [L S Li IA IH IT U HR X].
  assert (Hgc : forall c', get_conn s2 c' = if Nat.eq_dec c c' then option_map predh (get_conn s c) else get_conn s c').
  { intros c'. unfold s2. rewrite get_conn_upd_conn. reflexivity. }
  assert (Hsh : forall c', share_of s2 c' = share_of s c').
  { intros c'. unfold share_of. rewrite Hgc. destruct (Nat.eq_dec c c') as [<-|]; [|reflexivity]. destruct (get_conn s c); reflexivity. }
  assert (EA : forall c', cnt (LA None s2) c' = cnt (LA None s) c').
  { intros c'. unfold LA. rewrite !cnt_app. pose proof (cnt_reqs_x_set_req reqA None r v _ s c' Hq ltac:(discriminate)) as H.
    cbn [reqA] in H. rewrite Hva, cnt_nil in H. change (toks s2) with (toks s).
    change (reqs_x None s2) with (reqs_x None (set_req r v s)). lia. }
  assert (EH : forall c', cnt (LH None s2) c' + cnt [c] c' = cnt (LH None s) c').
  { intros c'. unfold LH. pose proof (cnt_reqs_x_set_req reqH None r v _ s c' Hq ltac:(discriminate)) as H.
    cbn [reqH fst] in H. rewrite Hvh, cnt_nil in H. change (reqs_x None s2) with (reqs_x None (set_req r v s)). lia. }
  assert (Hz : share_of s c = false -> cnt (LA None s) c = 0 /\ cnt (LH None s) c = 1 /\ cnt (LT s) c = 0 /\ cnt F c = 0).
  { intros Hs. specialize (Li c Hs). specialize (EH c). rewrite cnt_cons, cnt_nil in EH. destruct (Nat.eq_dec c c); [lia|congruence]. }
  assert (HAv : forall c', c <> c' -> Av m s c' -> Av mV s2 c').
  { intros c' Hn (ci & cn1 & H1 & H2 & H3). exists ci, cn1. rewrite Hmc, Hgc.
    rewrite nth_error_upd_nth_neq by exact Hn. destruct (Nat.eq_dec c c'); [congruence|]. auto. }
  assert (HTv : forall c', c <> c' -> Tv m s c' -> Tv mV s2 c').
  { intros c' Hn (ci & cn1 & H1 & H2 & H3). exists ci, cn1. rewrite Hmc, Hgc.
    rewrite nth_error_upd_nth_neq by exact Hn. destruct (Nat.eq_dec c c'); [congruence|]. auto. }
  assert (Hmi : forall c' ci', nth_error (m_conns mV) c' = Some ci' ->
            exists ci0, nth_error (m_conns m) c' = Some ci0 /\ ci_share ci' = ci_share ci0 /\ ci_upgraded ci' = ci_upgraded ci0).
  { intros c' ci' H. rewrite Hmc in H. apply nth_error_upd_nth_inv in H. destruct H as [(-> & q & Hq' & ->)|(Hn & H)]; eauto. }
  assert (Hci : forall c' cn', get_conn s2 c' = Some cn' -> exists cn0, get_conn s c' = Some cn0 /\ c_share cn' = c_share cn0 /\ c_open cn' = c_open cn0).
  { intros c' cn' H. rewrite Hgc in H. destruct (Nat.eq_dec c c') as [<-|]; [|eauto].
    destruct (get_conn s c) as [cn0|]; cbn in H; [|discriminate]. inversion H; subst. eauto. }
  split; [constructor|].
  - rewrite Hmc, upd_nth_length, L. unfold s2, set_req, upd_conn. cbn [conns set_reqs set_conns]. rewrite upd_nth_length. reflexivity.
  - intros c' ci' cn' H1 H2. destruct (Hmi c' ci' H1) as (ci0 & G1 & G2 & _). destruct (Hci c' cn' H2) as (cn0 & G3 & G4 & _).
    rewrite G2, G4. eauto.
  - intros c' Hs. rewrite Hsh in Hs. specialize (Li c' Hs). specialize (EH c'). rewrite EA. change (LT s2) with (LT s). lia.
  - intros c' Hs Hp. rewrite Hsh in Hs. rewrite EA in Hp. destruct (Nat.eq_dec c c') as [<-|Hn]; [destruct (Hz Hs); lia|].
    apply (HAv c' Hn). apply (IA c' Hs Hp).
  - intros c' Hs Hp. rewrite Hsh in Hs. specialize (EH c'). rewrite cnt_cons, cnt_nil in EH.
    destruct (Nat.eq_dec c c') as [<-|Hn]; [destruct (Hz Hs); lia|].
    destruct (IH c' Hs) as (cn1 & G1 & G2); [lia|]. exists cn1. rewrite Hgc. destruct (Nat.eq_dec c c'); [congruence|]. auto.
  - intros c' Hs Hp. rewrite Hsh in Hs. change (LT s2) with (LT s) in Hp.
    destruct (Nat.eq_dec c c') as [<-|Hn]; [destruct (Hz Hs); lia|]. apply (HTv c' Hn). apply (IT c' Hs Hp).
  - intros c' ci' cn' H1 H2 H3. destruct (Hmi c' ci' H1) as (ci0 & G1 & _ & G2). destruct (Hci c' cn' H2) as (cn0 & G3 & _ & G4).
    rewrite G4. rewrite G2 in H3. eauto.
  - intros r' ri' c' H1 H2. split; [discriminate|]. destruct (Hmr r' ri' c' H1 H2) as (Hn & ri & G1 & G2).
    destruct (HR r' ri c' G1 G2) as (_ & t' & f & p & G3). exists t', f, p.
    change (get_req s2 r') with (get_req (set_req r v s) r'). rewrite get_req_set_req_neq by congruence. exact G3.
  - intros r' E. discriminate.
  - intros Hs. destruct (Hz Hs) as (Z1 & Z2 & Z3 & Z4). split.
    + destruct (IH c Hs) as (cn1 & G1 & G2); [lia|].
      assert (Hlt : c < List.length (m_conns m)) by (rewrite L; apply nth_error_Some; unfold get_conn in G1; congruence).
      destruct (nth_error (m_conns m) c) as [ci|] eqn:E; [|apply nth_error_None in E; lia].
      exists (set_ci_holder None ci), (predh cn1). rewrite Hmc, Hgc. destruct (Nat.eq_dec c c); [|congruence].
      rewrite G1. split; [apply nth_error_upd_nth_eq; exact E|]. split; [reflexivity|]. cbn. rewrite G2. auto.
    + specialize (EH c). rewrite cnt_cons, cnt_nil in EH. destruct (Nat.eq_dec c c); [|congruence].
      rewrite EA. change (LT s2) with (LT s). lia.
Qed.

Lemma I_spawn_T x F m s c t :
  I x F m s ->
  (share_of s c = false -> Tv m s c /\ cnt (LA x s) c + cnt (LH x s) c + cnt (LT s) c + cnt F c = 0) ->
  I x F m (spawn (TWhenReady c t) s).
Proof.
  intros [L S Li IA IH IT U HR X] Hc. set (s' := spawn (TWhenReady c t) s).
  assert (ET : forall c', cnt (LT s') c' = cnt (LT s) c' + cnt [c] c').
  { intros c'. unfold LT, s', spawn. cbn [tasks set_runq set_tasks]. rewrite cnt_flat_map_app. cbn [flat_map taskT]. rewrite app_nil_r. reflexivity. }
  constructor; auto.
  - intros c' Hs. change (share_of s' c') with (share_of s c') in Hs. specialize (Li c' Hs). rewrite ET.
    change (LA x s') with (LA x s). change (LH x s') with (LH x s). rewrite cnt_cons, cnt_nil.
    destruct (Nat.eq_dec c c') as [<-|]; [destruct (Hc Hs); lia|lia].
  - intros c' Hs Hp. change (share_of s' c') with (share_of s c') in Hs. rewrite ET in Hp. rewrite cnt_cons, cnt_nil in Hp.
    destruct (Nat.eq_dec c c') as [<-|]; [destruct (Hc Hs) as [HT _]; exact HT|]. apply (IT c' Hs). lia.
Qed.

Lemma I_release F m mV s r c t fin pl v :
  I None F m s -> get_req s r = Some (RHolding (c, t) fin pl) -> reqA v = [] -> reqH v = [] -> relV r c m mV ->
  I None F mV (hold_release r (c, t) (set_req r v s)).
Proof.
  intros HI Hq Hva Hvh HV. destruct (I_release1 F m mV s r c t fin pl v HI Hq Hva Hvh HV) as [H1 H2].
  unfold hold_release. cbn [fst]. fold predh.
  set (s2 := upd_conn c predh (set_req r v s)) in *. set (s3 := emit (ERel r c) s2).
  assert (H3 : I None F mV s3) by (apply I_set_out; exact H1).
  unfold pooled_drop. destruct (share_of s3 c) eqn:Hs.
  - eapply I_trans_cnt; [exact H3|apply (quiet_drop_conn None c s3)| |]; intros c'; cbn; lia.
  - apply I_spawn_T; [exact H3|]. intros _. apply H2.
    change (share_of s2 c = false) in Hs. unfold s2 in Hs. unfold share_of in *. rewrite get_conn_upd_conn in Hs.
    destruct (Nat.eq_dec c c); [|congruence]. change (get_conn (set_req r v s) c) with (get_conn s c) in Hs.
    destruct (get_conn s c); [exact Hs|reflexivity].
Qed.

Lemma hold_release_out r p s : exists es, out (hold_release r p s) = es ++ ERel r (fst p) :: out s /\ Forall soft es.
Proof.
  unfold hold_release.
  destruct (t_out _ _ _ _ _ _ (trans_pooled_drop None p (emit (ERel r (fst p)) (upd_conn (fst p) (fun cn => c_set_holders (pred (c_holders cn)) cn) s))))
    as (es & Ho & Hs).
  exists es. split; [exact Ho|exact Hs].
Qed.

Lemma G_of_I m0 x F s s' es :
  evs_ok chk_ev_C02 m0 (rev (out s)) = true -> out s' = es ++ out s -> Forall soft es -> I x F (tm m0 s') s' -> G m0 x F s'.
Proof.
  intros Hev Ho Hs HI. split; [|exact HI].
  rewrite Ho, rev_app_distr, evs_ok_app, Hev. cbn [andb]. apply evs_ok_soft.
  apply Forall_forall. intros e He. rewrite Forall_forall in Hs. apply Hs, in_rev, He.
Qed.

Lemma tm_out m0 s s' es e : out s' = es ++ e :: out s -> tm m0 s' = fold_left track_ev (rev es) (track_ev (tm m0 s) e).
Proof. intros H. unfold tm. rewrite H, rev_app_distr. cbn [rev]. rewrite !fold_left_app. reflexivity. Qed.

Lemma Forall_soft_rev es : Forall soft es -> Forall soft (rev es).
Proof. intros H. apply Forall_forall. intros e He. rewrite Forall_forall in H. apply H, in_rev, He. Qed.

Lemma G_release_cancel m0 F s r c t fin pl v :
  G m0 None F s -> get_req s r = Some (RHolding (c, t) fin pl) -> reqA v = [] -> reqH v = [] ->
  (forall ri c', nth_error (m_reqs (tm m0 s)) r = Some ri -> ri_stat ri <> SHeld c') ->
  G m0 None F (hold_release r (c, t) (set_req r v s)).
Proof.
  intros [Hev HI] Hq Hva Hvh Hns.
  destruct (hold_release_out r (c, t) (set_req r v s)) as (es & Ho & Hs). cbn [fst] in Ho.
  change (out (set_req r v s)) with (out s) in Ho.
  apply (G_of_I m0 None F s _ (es ++ [ERel r c]) Hev).
  - rewrite Ho, <- app_assoc. reflexivity.
  - apply Forall_app. split; [exact Hs|constructor; [exact Logic.I|constructor]].
  - rewrite (tm_out m0 s _ es (ERel r c) Ho).
    eapply I_msoft; [apply msoft_fold, Forall_soft_rev, Hs|].
    apply (I_release F (tm m0 s) _ s r c t fin pl v HI Hq Hva Hvh). split; [reflexivity|].
    intros r' ri' c' H1 H2. change (m_reqs (track_ev (tm m0 s) (ERel r c))) with (m_reqs (tm m0 s)) in H1. split; [|eauto].
    intros ->. exact (Hns ri' c' H1 H2).
Qed.

Lemma msoft_relV_res m r c m4 :
  msoft (track_ev m (ERel r c)) m4 ->
  msoft (ri_upd (set_ri_stat SDone) r (track_ev m (ERel r c))) (track_ev m4 (ERes r ROk)).
Proof.
  intros [ML MC MR]. constructor.
  - exact ML.
  - exact MC.
  - intros r' ri' c' H1 H2. cbn [track_ev ri_upd set_m_reqs m_reqs] in H1. apply nth_error_upd_nth_inv in H1.
    destruct H1 as [(-> & y & Hy & ->)|(Hn & H1)]; [discriminate|].
    destruct (MR r' ri' c' H1 H2) as (ri & G1 & G2). exists ri. split; [|exact G2].
    cbn [ri_upd set_m_reqs m_reqs]. rewrite nth_error_upd_nth_neq by exact Hn. exact G1.
Qed.

Lemma G_release_poll m0 F s r c t fin pl :
  G m0 None F s -> get_req s r = Some (RHolding (c, t) fin pl) ->
  G m0 None F (emit (ERes r ROk) (hold_release r (c, t) (set_req r RDone s))).
Proof.
  intros [Hev HI] Hq.
  destruct (hold_release_out r (c, t) (set_req r RDone s)) as (es & Ho & Hs). cbn [fst] in Ho.
  change (out (set_req r RDone s)) with (out s) in Ho.
  set (S4 := hold_release r (c, t) (set_req r RDone s)) in *.
  apply (G_of_I m0 None F s _ (ERes r ROk :: es ++ [ERel r c]) Hev).
  - unfold emit. cbn [out set_out]. rewrite Ho. cbn [app]. rewrite <- app_assoc. reflexivity.
  - constructor; [exact Logic.I|]. apply Forall_app. split; [exact Hs|constructor; [exact Logic.I|constructor]].
  - rewrite tm_emit. unfold emit. apply I_set_out. rewrite (tm_out m0 s S4 es (ERel r c) Ho).
    eapply I_msoft; [apply msoft_relV_res; apply msoft_fold, Forall_soft_rev, Hs|].
    apply (I_release F (tm m0 s) _ s r c t fin pl RDone HI Hq eq_refl eq_refl). split; [reflexivity|].
    intros r' ri' c' H1 H2. cbn [ri_upd set_m_reqs m_reqs] in H1. apply nth_error_upd_nth_inv in H1.
    destruct H1 as [(-> & y & Hy & ->)|(Hn & H1)]; [discriminate|]. split; [congruence|]. exists ri'. split; [exact H1|exact H2].
Qed.

(* ---------------------------------------------------------------- poll *)
Lemma quiet_set_req_hold x s r p f pl f' pl' :
  get_req s r = Some (RHolding p f pl) -> quiet x s (set_req r (RHolding p f' pl') s).
Proof.
  intros Hq.
  assert (Hd : x = Some r \/ x <> Some r) by (destruct x as [r0|]; [destruct (Nat.eq_dec r0 r); [left|right]; congruence|right; discriminate]).
  destruct Hd as [->|Hx]; [apply quiet_set_req_x|].
  constructor; auto using F2_refl.
  - intros c _. unfold LA. cbn [toks set_req set_reqs]. fold (set_req r (RHolding p f' pl') s). rewrite !cnt_app.
    pose proof (cnt_reqs_x_set_req reqA x r (RHolding p f' pl') _ s c Hq Hx) as H. cbn [reqA] in H. lia.
  - intros c _. unfold LH. pose proof (cnt_reqs_x_set_req reqH x r (RHolding p f' pl') _ s c Hq Hx) as H. cbn [reqH] in H. lia.
  - intros c _. unfold LT. cbn [tasks set_req set_reqs]. lia.
  - intros r' q _ H. destruct (Nat.eq_dec r r') as [<-|Hn].
    + rewrite (get_req_set_req_eq _ _ _ _ Hq). rewrite Hq in H. inversion H; subst. eexists. split; [reflexivity|cbn; eauto].
    + rewrite get_req_set_req_neq by exact Hn. exists q. split; [exact H|apply rkind_refl].
  - apply out_same. reflexivity.
  - unfold set_req. cbn [reqs set_reqs]. apply upd_nth_length.
Qed.

Lemma in_flight_conn x c F m s : I x (c :: F) m s -> exists cn, get_conn s c = Some cn.
Proof.
  intros HI. destruct (share_of s c) eqn:Hs.
  - unfold share_of in Hs. destruct (get_conn s c); [eauto|discriminate].
  - apply (occ_in_range x (c :: F) m s c HI Hs). rewrite cnt_cons. destruct (Nat.eq_dec c c); [lia|congruence].
Qed.

Lemma G_hand m0 F s r c t b cn :
  G m0 (Some r) (c :: F) s -> get_conn s c = Some cn ->
  G m0 None F (set_req r (RHolding (c, t) false true)
                 (upd_conn c (fun cn0 => c_set_holders (S (c_holders cn0)) (if c_share cn then cn0 else c_set_ready false cn0))
                    (emit (EHand r c b (c_open cn) (c_ready cn) (c_holders cn)) s))).
Proof.
  intros [Hev HI] Hc. split.
  - cbn [out set_req set_reqs upd_conn set_conns emit set_out rev]. rewrite evs_ok_app, Hev. cbn [andb evs_ok].
    fold (tm m0 s). rewrite (chk_hand F (tm m0 s) s r c b cn HI Hc). reflexivity.
  - pose proof (I_hand F (tm m0 s) s r c t b cn HI Hc) as H.
    apply (I_set_out None F _ (EHand r c b (c_open cn) (c_ready cn) (c_holders cn) :: out s)) in H.
    rewrite <- tm_emit in H. exact H.
Qed.

Lemma G_do_poll m0 cfg r s : G m0 None [] s -> G m0 None [] (do_poll cfg r s).
Proof.
  intros H. unfold do_poll. destruct (get_req s r) as [[|ck|p fin pl| |]|] eqn:Hq; try exact H.
  - set (s1 := emit (ERes r (RErr EUri)) (unwake_req r s)).
    assert (H1 : G m0 None [] s1).
    { eapply G_quiet; [exact H|]. eapply quiet_comp; [apply quiet_unwake_req|apply quiet_emit; exact Logic.I]. }
    assert (Hq1 : get_req s1 r = Some RError) by exact Hq.
    apply (G_insert m0 [] s1 r RDone); [|discriminate].
    apply (G_extract m0 [] s1 r RError H1 Hq1). discriminate.
  - set (s0 := unwake_req r s).
    assert (H0 : G m0 None [] s0) by (eapply G_quiet; [exact H|apply quiet_unwake_req]).
    assert (Hq0 : get_req s0 r = Some (RCheckout ck)) by exact Hq.
    assert (HE : G m0 (Some r) (ck_conns ck ++ []) s0) by (apply (G_extract m0 [] s0 r _ H0 Hq0); discriminate).
    pose proof (G_checkout_poll m0 cfg r ck [] s0 HE) as HP.
    destruct (checkout_poll cfg r ck s0) as [[res ck1] s1]. cbn [fst snd] in HP.
    destruct res as [|[p|e]]; cbn [kres app] in HP.
    + eapply G_quiet; [|apply quiet_emit; exact Logic.I]. apply (G_insert m0 [] s1 r (RCheckout ck1)); [exact HP|discriminate].
    + destruct p as [c t]. cbn [fst snd] in *. destruct (in_flight_conn _ _ _ _ _ (proj2 HP)) as (cn & Hc). rewrite Hc.
      eapply G_quiet; [|apply quiet_emit; exact Logic.I]. apply G_checkout_drop.
      apply (G_hand m0 (ck_conns ck1 ++ []) s1 r c t (Nat.eqb t 0) cn HP Hc).
    + eapply G_quiet; [|apply quiet_emit; exact Logic.I]. apply G_checkout_drop.
      apply (G_insert m0 (ck_conns ck1 ++ []) s1 r RDone); [exact HP|discriminate].
  - destruct p as [c t]. set (s0 := unwake_req r s).
    assert (H0 : G m0 None [] s0) by (eapply G_quiet; [exact H|apply quiet_unwake_req]).
    assert (Hq0 : get_req s0 r = Some (RHolding (c, t) fin pl)) by exact Hq.
    destruct fin.
    + apply (G_release_poll m0 [] s0 r c t true pl H0 Hq0).
    + eapply G_quiet; [exact H0|]. eapply quiet_comp; [apply (quiet_set_req_hold None s0 r (c, t) false pl false true Hq0)|].
      apply quiet_emit. exact Logic.I.
Qed.

(* ---------------------------------------------------------------- cancel, finish *)
Lemma G_do_cancel m0 cfg r s :
  G m0 None [] s -> (forall ri c', nth_error (m_reqs (tm m0 s)) r = Some ri -> ri_stat ri <> SHeld c') ->
  G m0 None [] (do_cancel cfg r s).
Proof.
  intros H Hns. unfold do_cancel. destruct (get_req s r) as [[|ck|p fin pl| |]|] eqn:Hq; try exact H;
    try (eapply G_quiet; [exact H|apply quiet_unwake_req]).
  - eapply G_quiet; [|apply quiet_unwake_req]. apply (G_insert m0 [] s r RCancelled); [|discriminate].
    apply (G_extract m0 [] s r RError H Hq). discriminate.
  - eapply G_quiet; [|apply quiet_unwake_req]. apply G_checkout_drop.
    apply (G_insert m0 (ck_conns ck ++ []) s r RCancelled); [|discriminate].
    apply (G_extract m0 [] s r (RCheckout ck) H Hq). discriminate.
  - destruct p as [c t]. eapply G_quiet; [|apply quiet_unwake_req].
    apply (G_release_cancel m0 [] s r c t fin pl RCancelled H Hq eq_refl eq_refl Hns).
Qed.

Lemma G_do_finish m0 r s : G m0 None [] s -> G m0 None [] (do_finish r s).
Proof.
  intros H. unfold do_finish. destruct (get_req s r) as [[|ck|p fin pl| |]|] eqn:Hq; try exact H.
  assert (Q : quiet None s (set_req r (RHolding p true false) s)) by (apply (quiet_set_req_hold None s r p fin pl true false Hq)).
  destruct pl; [|eapply G_quiet; eauto]. eapply G_quiet; [exact H|]. eapply quiet_comp; [exact Q|apply quiet_wake_req].
Qed.

(* ---------------------------------------------------------------- the hand-back task *)
Lemma I_add_F x F m s c :
  I x F m s ->
  (share_of s c = false -> Av m s c /\ cnt (LA x s) c + cnt (LH x s) c + cnt (LT s) c + cnt F c = 0) ->
  I x (c :: F) m s.
Proof.
  intros [L S Li IA IH IT U HR X] Hc. constructor; auto.
  - intros c' Hs. specialize (Li c' Hs). rewrite cnt_cons. destruct (Nat.eq_dec c c') as [<-|]; [destruct (Hc Hs); lia|lia].
  - intros c' Hs Hp. rewrite cnt_cons in Hp. destruct (Nat.eq_dec c c') as [<-|]; [destruct (Hc Hs) as [HA _]; exact HA|].
    apply (IA c' Hs). lia.
Qed.

Lemma nth_Some_nth_error {A} (l : list (option A)) n a : nth n l None = Some a -> nth_error l n = Some (Some a).
Proof.
  intros H. destruct (Nat.lt_ge_cases n (List.length l)) as [Hlt|Hge].
  - rewrite (nth_error_nth' l None Hlt), H. reflexivity.
  - rewrite nth_overflow in H by exact Hge. discriminate.
Qed.

Lemma LT_finish_task tid c t s c' :
  nth_error (tasks s) tid = Some (Some (TWhenReady c t)) ->
  cnt (LT (finish_task tid s)) c' + cnt [c] c' = cnt (LT s) c'.
Proof.
  intros E. unfold LT, finish_task. cbn [tasks set_tasks].
  pose proof (cnt_flat_map_upd taskT (fun _ => None) c' (tasks s) tid _ E) as H. cbn [taskT] in H. rewrite cnt_nil in H. lia.
Qed.

Lemma G_handback m0 cfg tid c t cn ok s :
  G m0 None [] s -> nth tid (tasks s) None = Some (TWhenReady c t) -> get_conn s c = Some cn ->
  (ok = false -> c_open cn = false) ->
  let s2 := finish_task tid (emit (ERdy c ok) s) in
  G m0 None [] (if is_open s2 c && negb (Nat.eqb t 0) && g_pool cfg then pool_push (g_max_idle cfg) t c s2 else drop_conn c s2).
Proof.
  intros H Ht Hc Hok s2. apply nth_Some_nth_error in Ht.
  assert (H2 : G m0 None [] s2).
  { eapply G_quiet; [exact H|]. eapply quiet_comp; [apply (quiet_emit None (ERdy c ok)); exact Logic.I|apply quiet_finish_task]. }
  destruct (is_open s2 c && negb (Nat.eqb t 0) && g_pool cfg) eqn:Hcond; [|eapply G_quiet; [exact H2|apply quiet_drop_conn]].
  apply G_push. destruct H2 as [Hev2 HI2]. split; [exact Hev2|]. apply I_add_F; [exact HI2|]. intros Hs.
  assert (Hopen : c_open cn = true).
  { apply andb_prop in Hcond. destruct Hcond as [Hcond _]. apply andb_prop in Hcond. destruct Hcond as [Hcond _].
    unfold is_open in Hcond. change (get_conn s2 c) with (get_conn s c) in Hcond. rewrite Hc in Hcond.
    destruct (c_share cn); [exact Hcond|]. apply andb_prop in Hcond. tauto. }
  assert (ok = true) as -> by (destruct ok; [reflexivity|rewrite Hok in Hopen by reflexivity; discriminate]).
  destruct H as [Hev HI]. change (share_of s c = false) in Hs.
  assert (Hlt : 0 < cnt (LT s) c).
  { pose proof (cnt_flat_map_nth taskT c (tasks s) tid _ Ht) as Hn. cbn [taskT] in Hn. rewrite cnt_cons in Hn.
    destruct (Nat.eq_dec c c); [unfold LT; lia|congruence]. }
  split.
  - destruct (I_T _ _ _ _ HI c Hs Hlt) as (ci & cn1 & G1 & G2 & G3 & G4). rewrite Hc in G2. inversion G2; subst cn1.
    exists (set_ci_rel_ready true (set_ci_back_time (m_time (tm m0 s)) (set_ci_back (m_i (tm m0 s)) ci))), cn.
    change (tm m0 s2) with (tm m0 (emit (ERdy c true) s)). rewrite tm_emit. cbn [track_ev ci_upd set_m_conns m_conns].
    split; [apply (nth_error_upd_nth_eq (fun x => set_ci_rel_ready true (set_ci_back_time (m_time (tm m0 s)) (set_ci_back (m_i (tm m0 s)) x))) _ _ _ G1)|]. split; [exact Hc|]. cbn. repeat split; auto.
    destruct (ci_upgraded ci) eqn:Eu; [|reflexivity]. rewrite (I_U _ _ _ _ HI c ci cn G1 Hc Eu) in Hopen. discriminate.
  - pose proof (I_lin _ _ _ _ HI c Hs) as Li. rewrite cnt_nil in *.
    pose proof (LT_finish_task tid c t (emit (ERdy c true) s) c Ht) as E. rewrite cnt_cons, cnt_nil in E.
    destruct (Nat.eq_dec c c); [|congruence]. change (LT (emit (ERdy c true) s)) with (LT s) in E.
    change (LA None s2) with (LA None s). change (LH None s2) with (LH None s). fold s2 in E. lia.
Qed.

(* ---------------------------------------------------------------- background tasks *)
Lemma G_run_task m0 cfg tid s : G m0 None [] s -> G m0 None [] (run_task cfg tid s).
Proof.
  intros H. unfold run_task. destruct (nth tid (tasks s) None) as [[c t|rid t own]|] eqn:Ht; [| |exact H].
  - destruct (get_conn s c) as [cn|] eqn:Hc; [|eapply G_quiet; [exact H|apply quiet_finish_task]].
    destruct (negb (c_open cn)) eqn:Ho.
    + apply (G_handback m0 cfg tid c t cn false s H Ht Hc). intros _. destruct (c_open cn); [discriminate|reflexivity].
    + destruct (c_share cn || c_ready cn).
      * apply (G_handback m0 cfg tid c t cn true s H Ht Hc). discriminate.
      * eapply G_quiet; [exact H|]. apply quiet_upd_conn. intros a. apply cle_set_waiters.
  - pose proof (G_connector_poll m0 None rid (ByTask tid) [] s H) as Hc.
    destruct (connector_poll rid (ByTask tid) s) as [r s1]. cbn [fst snd] in Hc. destruct r as [|[c|e]]; [exact Hc| |].
    + destruct (G_register m0 None cfg t c [c] s1 Hc) as [E H2]. destruct (register cfg t c s1) as [p s2]. cbn [fst snd] in E, H2.
      apply G_pooled_drop. rewrite E.
      eapply G_quiet; [|apply quiet_finish_task].
      destruct (g_pool cfg && negb (Nat.eqb t 0) && own); [eapply G_quiet; [exact H2|apply quiet_pool_cancel]|exact H2].
    + eapply G_quiet; [|apply quiet_finish_task].
      destruct (g_pool cfg && negb (Nat.eqb t 0) && own); [eapply G_quiet; [exact Hc|apply quiet_pool_cancel]|exact Hc].
Qed.

Lemma G_bg_loop m0 cfg fuel : forall s, G m0 None [] s -> G m0 None [] (bg_loop cfg fuel s).
Proof.
  induction fuel as [|f IH]; intros s H; cbn [bg_loop]; [exact H|].
  destruct (runq s) as [|tid rest]; [exact H|]. apply IH. apply G_run_task. eapply G_quiet; [exact H|apply quiet_set_runq].
Qed.

(* ---------------------------------------------------------------- issue *)
Definition add_req (q : req) (d : dial) (s : state) : state := set_dials (dials s ++ [d]) (set_reqs (reqs s ++ [q]) s).

Lemma I_add_req F m s q d : I None (reqA q ++ F) m s -> reqH q = [] -> I None F m (add_req q d s).
Proof.
  intros [L S Li IA IH IT U HR X] Hh. set (s' := add_req q d s).
  assert (EA : forall c, cnt (LA None s') c = cnt (LA None s) c + cnt (reqA q) c).
  { intros c. unfold LA, s', add_req. cbn [toks reqs reqs_x set_dials set_reqs]. rewrite !cnt_app, cnt_flat_map_app. cbn [flat_map].
    rewrite app_nil_r. lia. }
  assert (EH : forall c, cnt (LH None s') c = cnt (LH None s) c).
  { intros c. unfold LH, s', add_req. cbn [reqs reqs_x set_dials set_reqs]. rewrite cnt_flat_map_app. cbn [flat_map].
    rewrite app_nil_r, Hh, cnt_nil. lia. }
  constructor; auto.
  - intros c Hs. change (share_of s c = false) in Hs. specialize (Li c Hs). rewrite EA, EH. rewrite cnt_app in Li.
    change (LT s') with (LT s). lia.
  - intros c Hs Hp. change (share_of s c = false) in Hs. apply (IA c Hs). rewrite EA in Hp. rewrite cnt_app. lia.
  - intros c Hs Hp. change (share_of s c = false) in Hs. apply (IH c Hs). rewrite EH in Hp. exact Hp.
  - intros r ri c H1 H2. destruct (HR r ri c H1 H2) as (Hx & t & f & p & G1). split; [exact Hx|]. exists t, f, p.
    unfold get_req, s', add_req in *. cbn [reqs set_dials set_reqs]. rewrite nth_error_app1; [exact G1|].
    apply nth_error_Some. congruence.
  - intros r E. discriminate.
Qed.

Lemma G_add_req m0 F s q d : G m0 None (reqA q ++ F) s -> reqH q = [] -> G m0 None F (add_req q d s).
Proof. intros [A B] Hh. split; [exact A|]. change (tm m0 (add_req q d s)) with (tm m0 s). apply I_add_req; assumption. Qed.

Lemma G_do_issue m0 cfg u p s : G m0 None [] s -> G m0 None [] (do_issue cfg u p s).
Proof.
  intros H. unfold do_issue.
  assert (H0 : G m0 None [] (set_woken (woken s ++ [false]) s)) by (eapply G_quiet; [exact H|apply quiet_set_woken]).
  destruct (nth u (g_uris cfg) None) as [k|]; [|apply (G_add_req m0 [] _ RError); [exact H0|reflexivity]].
  destruct (negb (g_pool cfg)); [apply (G_add_req m0 [] _ (RCheckout _)); [exact H0|reflexivity]|].
  pose proof (quiet_key_insert None k (set_woken (woken s ++ [false]) s)) as Qk.
  destruct (key_insert k (set_woken (woken s ++ [false]) s)) as [t s1]. cbn [snd] in Qk.
  assert (H1 : G m0 None [] s1) by (eapply G_quiet; eauto).
  destruct (pool_pop (g_timeout cfg) t s1) as [found s2] eqn:Hp.
  assert (H2 : G m0 None (oconn found ++ []) s2).
  { eapply G_step; [exact H1|apply (trans_pool_pop None _ _ _ _ _ Hp)| |]; intros c; cbn; rewrite ?cnt_app; cbn; lia. }
  destruct found as [c|].
  - apply (G_add_req m0 [] s2 (RCheckout (new_ck t WIdle IConnected (Some c) false true))); [exact H2|reflexivity].
  - set (pending := match p_marker (get_tok s2 t) with Some _ => true | None => false end).
    set (s3 := upd_tok t (fun q => set_waiting (p_waiting q ++ [(List.length (reqs s), pending)]) q) s2).
    assert (H3 : G m0 None [] s3) by (eapply G_quiet; [exact H2|apply quiet_upd_tok; reflexivity]).
    destruct pending; [apply (G_add_req m0 [] s3 (RCheckout _)); [exact H3|reflexivity]|].
    apply (G_add_req m0 [] _ (RCheckout _)); [|reflexivity].
    destruct p; [exact H3|]. eapply G_quiet; [exact H3|apply quiet_upd_tok; reflexivity].
Qed.

(* ---------------------------------------------------------------- the tracker at op boundaries *)
Lemma msoft_eq m m' : m_conns m' = m_conns m -> m_reqs m' = m_reqs m -> msoft m m'.
Proof.
  intros Hc Hr. constructor.
  - rewrite Hc. reflexivity.
  - intros c ci H. exists ci. rewrite Hc. auto.
  - intros r ri' c H1 H2. exists ri'. rewrite Hr in H1. auto.
Qed.

Lemma msoft_track_offer ob m e : msoft m (track_offer ob m e).
Proof.
  unfold track_offer. destruct e; try apply msoft_refl. destruct ok; [|apply msoft_refl].
  destruct (nth_error (m_conns m) c); [|apply msoft_refl]. apply msoft_ci_upd. intros x. cbn. auto.
Qed.

Lemma msoft_fold_offer ob es : forall m, msoft m (fold_left (track_offer ob) es m).
Proof.
  induction es as [|e es IH]; intros m; cbn [fold_left]; [apply msoft_refl|].
  eapply msoft_trans; [apply msoft_track_offer|apply IH].
Qed.

Lemma msoft_track_op cfg m o ob : (forall r, o <> Upgrade r) -> msoft m (track_op cfg m o ob).
Proof.
  intros Hu. destruct o; cbn [track_op]; try apply msoft_refl.
  - cbv zeta.
    constructor; [reflexivity|intros c ci H; exists ci; auto|].
    intros r ri' c H1 H2. cbn [set_m_keys set_m_reqs m_reqs] in H1.
    destruct (Nat.lt_ge_cases r (List.length (m_reqs m))) as [Hlt|Hge].
    + rewrite nth_error_app1 in H1 by exact Hlt. eauto.
    + rewrite nth_error_app2 in H1 by exact Hge. destruct (r - List.length (m_reqs m)) as [|k]; cbn in H1.
      * inversion H1; subst. discriminate.
      * destruct k; discriminate.
  - destruct (nth_error (m_reqs m) r) as [x|]; [|apply msoft_refl].
    assert (Hb : forall c, msoft m (ci_upd (set_ci_back (m_i m)) c m)) by (intros c; apply msoft_ci_upd; intros y; cbn; auto).
    destruct (ri_stat x); try apply msoft_refl; cbv zeta;
      (eapply msoft_trans; [|apply msoft_ri_upd; cbn; intros; discriminate]); try apply msoft_refl.
    destruct (ri_popx x) as [c|]; [|apply msoft_refl]. destruct (nth_error (m_conns m) c) as [y|]; [|apply msoft_refl].
    destruct (ci_share y); [apply msoft_refl|apply Hb].
  - exfalso. eapply Hu; reflexivity.
  - apply msoft_ri_upd. intros y c. destruct (ri_dial y), (ri_resolved y); cbn; auto.
  - apply msoft_ci_upd. intros y. cbn. auto.
  - apply msoft_eq; reflexivity.
Qed.

Lemma cancel_not_held cfg m r ob ri c' :
  nth_error (m_reqs (track_op cfg m (Cancel r) ob)) r = Some ri -> ri_stat ri <> SHeld c'.
Proof.
  cbn [track_op]. destruct (nth_error (m_reqs m) r) as [x|] eqn:E; [|intros H; congruence].
  destruct (ri_stat x) eqn:Es; try (intros H; rewrite E in H; inversion H; subst; congruence); cbv beta iota zeta;
    match goal with |- nth_error (m_reqs (ri_upd ?f r ?m')) r = _ -> _ =>
      assert (Em : m_reqs m' = m_reqs m)
        by (first [reflexivity | destruct (ri_popx x) as [c|]; [|reflexivity]; destruct (nth_error (m_conns m) c) as [y|]; [|reflexivity];
            destruct (ci_share y); reflexivity]);
      cbn [ri_upd set_m_reqs m_reqs]; try rewrite Em; rewrite (nth_error_upd_nth_eq f _ _ _ E)
    end; intros H; inversion H; subst; cbn; discriminate.
Qed.

(* ---------------------------------------------------------------- upgrade *)
Lemma I_upgrade F m s r c t f pl v :
  I None F m s -> get_req s r = Some (RHolding (c, t) f pl) ->
  I None F (ci_upd (fun x => set_ci_upgraded true (set_ci_closed v x)) c m) (upd_conn c (c_set_open false) s).
Proof.
  intros HI Hq. pose proof HI as [L S Li IA IH IT U HR X].
  set (fU := fun x : cinfo => set_ci_upgraded true (set_ci_closed v x)). set (s1 := upd_conn c (c_set_open false) s).
  assert (Hgc : forall c', get_conn s1 c' = if Nat.eq_dec c c' then option_map (c_set_open false) (get_conn s c) else get_conn s c')
    by (intros c'; apply get_conn_upd_conn).
  assert (Hsh : forall c', share_of s1 c' = share_of s c').
  { intros c'. unfold share_of. rewrite Hgc. destruct (Nat.eq_dec c c') as [<-|]; [|reflexivity]. destruct (get_conn s c); reflexivity. }
  assert (HinH : 0 < cnt (LH None s) c).
  { pose proof (cnt_flat_map_nth reqH c (reqs s) r _ Hq) as Hn. cbn [reqH fst] in Hn. rewrite cnt_cons in Hn.
    destruct (Nat.eq_dec c c); [unfold LH, reqs_x; lia|congruence]. }
  assert (Hmi : forall c' ci', nth_error (upd_nth c fU (m_conns m)) c' = Some ci' ->
            exists ci0, nth_error (m_conns m) c' = Some ci0 /\ ci_share ci' = ci_share ci0 /\ ci_holder ci' = ci_holder ci0 /\
                        (c <> c' -> ci' = ci0)).
  { intros c' ci' H. apply nth_error_upd_nth_inv in H. destruct H as [(-> & q & Hq' & ->)|(Hn & H)].
    - exists q. repeat split; auto. congruence.
    - exists ci'. auto. }
  assert (Hci : forall c' cn', get_conn s1 c' = Some cn' ->
            exists cn0, get_conn s c' = Some cn0 /\ c_share cn' = c_share cn0 /\ c_holders cn' = c_holders cn0 /\
                        (c = c' -> c_open cn' = false) /\ (c <> c' -> cn' = cn0)).
  { intros c' cn' H. rewrite Hgc in H. destruct (Nat.eq_dec c c') as [<-|Hn].
    - destruct (get_conn s c) as [cn0|]; cbn in H; [|discriminate]. inversion H; subst. exists cn0. repeat split; auto. congruence.
    - exists cn'. repeat split; auto. congruence. }
  assert (HTv : forall c', Tv m s c' -> Tv (ci_upd fU c m) s1 c').
  { intros c' (ci & cn1 & H1 & H2 & H3 & H4). unfold Tv. cbn [ci_upd set_m_conns m_conns]. rewrite Hgc.
    destruct (Nat.eq_dec c c') as [<-|Hn].
    - exists (fU ci), (c_set_open false cn1). rewrite H2. split; [apply nth_error_upd_nth_eq; exact H1|]. cbn. auto.
    - exists ci, cn1. rewrite nth_error_upd_nth_neq by exact Hn. auto. }
  constructor.
  - cbn [ci_upd set_m_conns m_conns]. rewrite upd_nth_length, L. unfold s1, upd_conn. cbn [conns set_conns]. rewrite upd_nth_length. reflexivity.
  - intros c' ci' cn' H1 H2. destruct (Hmi c' ci' H1) as (ci0 & G1 & G2 & _). destruct (Hci c' cn' H2) as (cn0 & G3 & G4 & _).
    rewrite G2, G4. eauto.
  - intros c' Hs. rewrite Hsh in Hs. exact (Li c' Hs).
  - intros c' Hs Hp. rewrite Hsh in Hs. change (LA None s1) with (LA None s) in Hp.
    destruct (Nat.eq_dec c c') as [<-|Hn]; [specialize (Li c Hs); lia|].
    destruct (IA c' Hs Hp) as (ci & cn1 & H1 & H2 & H3). exists ci, cn1. cbn [ci_upd set_m_conns m_conns]. rewrite Hgc.
    rewrite nth_error_upd_nth_neq by exact Hn. destruct (Nat.eq_dec c c'); [congruence|]. auto.
  - intros c' Hs Hp. rewrite Hsh in Hs. change (LH None s1) with (LH None s) in Hp. destruct (IH c' Hs Hp) as (cn1 & G1 & G2).
    rewrite Hgc. destruct (Nat.eq_dec c c') as [<-|]; [rewrite G1; eexists; split; [reflexivity|exact G2]|eauto].
  - intros c' Hs Hp. rewrite Hsh in Hs. apply HTv. exact (IT c' Hs Hp).
  - intros c' ci' cn' H1 H2 H3. destruct (Hci c' cn' H2) as (cn0 & G3 & _ & _ & G5 & G6).
    destruct (Nat.eq_dec c c') as [E|Hn]; [apply G5; exact E|].
    destruct (Hmi c' ci' H1) as (ci0 & G1 & _ & _ & G2). rewrite (G2 Hn) in H3. rewrite (G6 Hn). eauto.
  - intros r' ri c' H1 H2. exact (HR r' ri c' H1 H2).
  - exact X.
Qed.

Lemma quiet_do_upgrade x r s : quiet x s (do_upgrade r s).
Proof.
  unfold do_upgrade. destruct (get_req s r) as [[|ck|p fin pl| |]|]; try apply quiet_refl.
  eapply quiet_comp; [apply quiet_upd_conn; intros a; apply cle_set_open_false|apply quiet_drain_conn_waiters].
Qed.

(* ---------------------------------------------------------------- one operation *)
Lemma G_start m0 m s : I None [] m s -> msoft m m0 -> G m0 None [] (set_out [] s).
Proof. intros HI Hm. split; [reflexivity|]. change (tm m0 (set_out [] s)) with m0. apply I_set_out. eapply I_msoft; eauto. Qed.

Lemma G_upgrade cfg m s r ob : I None [] m s -> G (track_op cfg m (Upgrade r) ob) None [] (do_upgrade r (set_out [] s)).
Proof.
  intros HI. cbn [track_op]. unfold holder_conn.
  destruct (nth_error (m_reqs m) r) as [x|] eqn:E.
  2:{ eapply G_quiet; [apply (G_start m m s HI (msoft_refl m))|apply quiet_do_upgrade]. }
  destruct (ri_stat x) eqn:Es; try (eapply G_quiet; [apply (G_start m m s HI (msoft_refl m))|apply quiet_do_upgrade]).
  destruct (I_HR _ _ _ _ HI r x c E Es) as (_ & t & f & p & Hq).
  unfold do_upgrade. change (get_req (set_out [] s) r) with (get_req s r). rewrite Hq. cbn [fst].
  eapply G_quiet; [|apply quiet_drain_conn_waiters].
  split; [reflexivity|].
  set (m1 := ci_upd (fun x0 => set_ci_upgraded true (set_ci_closed (first_some (ci_closed x0) (m_i m)) x0)) c m).
  change (tm m1 (upd_conn c (c_set_open false) (set_out [] s))) with m1.
  assert (H1 : I None [] m (set_out [] s)) by (apply I_set_out; exact HI).
  assert (Hq1 : get_req (set_out [] s) r = Some (RHolding (c, t) f p)) by exact Hq.
  pose proof HI as [L _ _ _ _ _ _ _ _].
  destruct (nth_error (m_conns m) c) as [ci|] eqn:Ec.
  - pose proof (I_upgrade [] m (set_out [] s) r c t f p (first_some (ci_closed ci) (m_i m)) H1 Hq1) as H2.
    assert (Em : m1 = ci_upd (fun x0 => set_ci_upgraded true (set_ci_closed (first_some (ci_closed ci) (m_i m)) x0)) c m).
    { unfold m1, ci_upd. f_equal. clear - Ec. revert c Ec. induction (m_conns m) as [|a l IHl]; intros [|c] Ec; cbn in *; try discriminate.
      - inversion Ec; subst. reflexivity.
      - f_equal. apply IHl. exact Ec. }
    rewrite Em. exact H2.
  - assert (Em : m1 = ci_upd (fun x0 => set_ci_upgraded true (set_ci_closed None x0)) c m).
    { unfold m1, ci_upd. rewrite !(upd_nth_none _ _ _ Ec). reflexivity. }
    rewrite Em. apply (I_upgrade [] m (set_out [] s) r c t f p None H1 Hq1).
Qed.

Lemma G_step_op cfg m s o ob : I None [] m s -> G (track_op cfg m o ob) None [] (step cfg s o).
Proof.
  intros HI. unfold step.
  assert (H0 : (forall r, o <> Upgrade r) -> G (track_op cfg m o ob) None [] (set_out [] s))
    by (intros Hu; apply (G_start _ m s HI); apply msoft_track_op; exact Hu).
  destruct o.
  - apply G_do_issue. apply H0. discriminate.
  - apply G_do_poll. apply H0. discriminate.
  - apply G_do_cancel; [apply H0; discriminate|].
    intros ri c'. change (tm (track_op cfg m (Cancel r) ob) (set_out [] s)) with (track_op cfg m (Cancel r) ob). apply cancel_not_held.
  - apply G_do_finish. apply H0. discriminate.
  - apply G_upgrade. exact HI.
  - eapply G_quiet; [apply H0; discriminate|]. unfold do_dial_done.
    destruct (get_dial (set_out [] s) r) as [d|]; [|apply quiet_refl]. destruct (d_stage d); try apply quiet_refl.
    eapply quiet_comp; [apply quiet_upd_dial|apply quiet_wake_poller].
  - eapply G_quiet; [apply H0; discriminate|]. unfold do_conn_ready. destruct (get_conn (set_out [] s) c); [|apply quiet_refl].
    eapply quiet_comp; [apply quiet_upd_conn; intros a; apply cle_set_ready|apply quiet_drain_conn_waiters].
  - eapply G_quiet; [apply H0; discriminate|]. unfold do_conn_close. destruct (get_conn (set_out [] s) c); [|apply quiet_refl].
    eapply quiet_comp; [apply quiet_upd_conn; intros a; apply cle_set_open_false|apply quiet_drain_conn_waiters].
  - unfold do_bg. apply G_bg_loop. apply H0. discriminate.
  - eapply G_quiet; [apply H0; discriminate|]. apply quiet_set_now.
Qed.

Lemma msoft_idle_stamp prev : forall sn m, msoft m (track_idle_stamp prev m sn).
Proof.
  intros sn. unfold track_idle_stamp. generalize (sn_idle sn). induction l as [|c l IH]; intros m; cbn [fold_left]; [apply msoft_refl|].
  eapply msoft_trans; [|apply IH]. destruct (mem c (idle_of prev (sn_token sn))); [apply msoft_refl|]. apply msoft_ci_upd. intros x. cbn. auto.
Qed.
Lemma msoft_idle_stamps prev : forall l m, msoft m (fold_left (track_idle_stamp prev) l m).
Proof. induction l as [|sn l IH]; intros m; cbn [fold_left]; [apply msoft_refl|]. eapply msoft_trans; [apply msoft_idle_stamp|apply IH]. Qed.

Theorem step_ok cfg m s o :
  I None [] m s ->
  chk_C02 cfg m o (observe (step cfg s o)) = true /\ I None [] (track cfg m o (observe (step cfg s o))) (step cfg s o).
Proof.
  intros HI. set (s' := step cfg s o). set (ob := observe s').
  destruct (G_step_op cfg m s o ob HI) as [Hev HI']. fold s' in Hev, HI'. split.
  - unfold chk_C02. exact Hev.
  - unfold track. change (o_events ob) with (rev (out s')). fold (tm (track_op cfg m o ob) s').
    eapply I_msoft; [|exact HI'].
    eapply msoft_trans; [apply msoft_fold_offer|]. eapply msoft_trans; [apply msoft_idle_stamps|]. apply msoft_eq; reflexivity.
Qed.

Theorem mon_C02_trace_from cfg : forall ops s m,
  I None [] m s -> mon_steps chk_C02 cfg m ops (trace_from cfg s ops) = true.
Proof.
  induction ops as [|o ops IH]; intros s m HI; cbn [trace_from mon_steps]; [reflexivity|].
  destruct (step_ok cfg m s o HI) as [Hc HI']. rewrite Hc. cbn [andb]. apply IH. exact HI'.
Qed.

Lemma I_init : I None [] m0 init.
Proof.
  constructor; cbn; try reflexivity; try (intros; lia).
  - intros c ci cn H. destruct c; discriminate.
  - intros c ci cn H. destruct c; discriminate.
  - intros r ri c H. destruct r; discriminate.
  - intros r H. discriminate.
Qed.

Theorem mon_C02_holds : forall cfg ops, mon_C02 cfg ops (trace cfg ops) = true.
Proof. intros cfg ops. apply mon_C02_trace_from. apply I_init. Qed.

(* ---------------------------------------------------------------- reachable states *)
Theorem I_run cfg ops : exists m, I None [] m (run cfg ops).
Proof.
  unfold run. assert (H : exists m, I None [] m init) by (exists m0; apply I_init). revert H. generalize init.
  induction ops as [|o ops IH]; intros s [m HI]; cbn [fold_left]; [eauto|].
  apply IH. eexists. apply (proj2 (step_ok cfg m s o HI)).
Qed.

(* every non-multiplexed connection id occurs at most once over: idle lists, waiter channel slots and
   popped connections of checkouts (LA), holders (LH), hand-back tasks (LT) *)
Theorem run_linear cfg ops c :
  share_of (run cfg ops) c = false ->
  cnt (LA None (run cfg ops)) c + cnt (LH None (run cfg ops)) c + cnt (LT (run cfg ops)) c <= 1.
Proof. intros Hs. destruct (I_run cfg ops) as [m HI]. pose proof (I_lin _ _ _ _ HI c Hs) as H. rewrite cnt_nil in H. lia. Qed.

Theorem run_idle_ready cfg ops c :
  share_of (run cfg ops) c = false -> In c (LA None (run cfg ops)) ->
  exists cn, get_conn (run cfg ops) c = Some cn /\ c_holders cn = 0.
Proof.
  intros Hs Hin. destruct (I_run cfg ops) as [m HI].
  destruct (I_A _ _ _ _ HI c Hs) as (ci & cn & _ & H2 & H3 & _); [apply cnt_pos_In in Hin; lia|eauto].
Qed.

Theorem run_held cfg ops c :
  share_of (run cfg ops) c = false -> In c (LH None (run cfg ops)) ->
  exists cn, get_conn (run cfg ops) c = Some cn /\ c_holders cn = 1.
Proof.
  intros Hs Hin. destruct (I_run cfg ops) as [m HI]. apply (I_H _ _ _ _ HI c Hs). apply cnt_pos_In. exact Hin.
Qed.
