(* C15: the idle list of every origin never exceeds max_idle_per_host — an invariant of every
   reachable state of the model, for every configuration and every operation sequence. *)
From HD Require Import common.Base http.Model pool.Model pool.Spec pool.Frames.
Local Open Scope list_scope.

Definition IBl (n : nat) (l : list ptok) : Prop := Forall (fun p => List.length (p_idle p) <= n) l.
Definition IB (n : nat) (s : state) : Prop := IBl n (toks s).

Lemma IBl_upd_nth n i f l :
  IBl n l -> (forall p, List.length (p_idle p) <= n -> List.length (p_idle (f p)) <= n) -> IBl n (upd_nth i f l).
Proof.
  intros H Hf. revert i. induction H as [|p l Hp Hl IH]; intros i; destruct i; cbn [upd_nth]; try constructor; auto.
  apply IH.
Qed.

Lemma IBl_upd_nth_app n x : forall l i,
  IBl n l -> List.length (p_idle (nth i l empty_tok)) < n ->
  IBl n (upd_nth i (fun p => set_idle (p_idle p ++ [x]) p) l).
Proof.
  induction l as [|p l IH]; intros i H Hlt; [destruct i; constructor|].
  inversion H as [|? ? Hp Hl]; subst. destruct i; cbn [upd_nth nth] in *; constructor; auto.
  - cbn [set_idle p_idle]. rewrite app_length. cbn. lia.
  - apply IH; assumption.
Qed.

Lemma IB_upd_tok n t f s :
  IB n s -> (forall p, List.length (p_idle p) <= n -> List.length (p_idle (f p)) <= n) -> IB n (upd_tok t f s).
Proof. intros H Hf. destruct t; [exact H|]. unfold IB. cbn. apply IBl_upd_nth; assumption. Qed.

Lemma IB_frame n s s' : toks s' = toks s -> IB n s -> IB n s'.
Proof. unfold IB. intros ->. auto. Qed.

Lemma get_tok_bound n s t : IB n s -> List.length (p_idle (get_tok s t)) <= n.
Proof.
  intros H. destruct t; cbn [get_tok]; [cbn; lia|].
  unfold IB, IBl in H. rewrite Forall_forall in H.
  destruct (nth_in_or_default t (toks s) empty_tok) as [Hin|Hd]; [apply H, Hin | rewrite Hd; cbn; lia].
Qed.

Lemma IB_pool_push n t c s : IB n s -> IB n (pool_push n t c s).
Proof.
  intros H. unfold pool_push.
  set (s1 := if share_of s c then upd_tok t (set_marker None) s else s).
  assert (H1 : IB n s1) by (subst s1; destruct (share_of s c); [apply IB_upd_tok; auto|exact H]).
  destruct (walk_waiters t c (share_of s1 c) (p_waiting (get_tok s1 t)) s1) as [[rest moved] s2] eqn:Hw.
  assert (H2 : IB n s2).
  { eapply IB_frame; [|exact H1]. pose proof (toks_walk_waiters t c (share_of s1 c) (p_waiting (get_tok s1 t)) s1) as Hf.
    rewrite Hw in Hf. exact Hf. }
  assert (H3 : IB n (upd_tok t (set_waiting rest) s2)) by (apply IB_upd_tok; auto).
  destruct moved; [exact H3|].
  destruct (Nat.ltb_spec (List.length (p_idle (get_tok (upd_tok t (set_waiting rest) s2) t))) n) as [Hlt|Hge].
  - set (s3 := upd_tok t (set_waiting rest) s2) in *.
    destruct t as [|i]; [exact H3|].
    unfold IB. cbn [upd_tok toks set_toks]. apply IBl_upd_nth_app; [exact H3|exact Hlt].
  - eapply IB_frame; [apply toks_drop_conn|exact H3].
Qed.

Lemma IB_pool_cancel n t rid s : IB n s -> IB n (pool_cancel t rid s).
Proof.
  intros H. unfold pool_cancel. destruct (p_marker (get_tok s t)) as [o|]; [|exact H].
  destruct (Nat.eqb o rid); [|exact H].
  set (s1 := upd_tok t (set_marker None) s).
  assert (H1 : IB n s1) by (apply IB_upd_tok; auto).
  destruct (release_pending (p_waiting (get_tok s1 t)) s1) as [rest s2] eqn:Hr.
  apply IB_upd_tok; auto. eapply IB_frame; [|exact H1].
  pose proof (toks_release_pending (p_waiting (get_tok s1 t)) s1) as Hf. rewrite Hr in Hf. exact Hf.
Qed.

Lemma pop_loop_rest_le thr rl : forall s r rest s', pop_loop thr rl s = (r, rest, s') -> List.length rest <= List.length rl.
Proof.
  induction rl as [|[c a] rl IH]; intros s r rest s' H; cbn [pop_loop] in H.
  - inversion H; subst. cbn. lia.
  - destruct (match thr with Some y => (a <? y)%N | None => false end).
    + inversion H; subst. cbn. lia.
    + destruct (is_open s c).
      * inversion H; subst. cbn. lia.
      * apply IH in H. cbn. lia.
Qed.

Lemma IB_pool_pop n to t s r s' : IB n s -> pool_pop to t s = (r, s') -> IB n s'.
Proof.
  intros H Hp. unfold pool_pop in Hp.
  destruct (pop_loop (expiry_threshold to (now s)) (rev (p_idle (get_tok s t))) s) as [[r0 rest] s1] eqn:Hl.
  inversion Hp; subst. clear Hp.
  assert (Hlen := pop_loop_rest_le _ _ _ _ _ _ Hl). rewrite rev_length in Hlen.
  assert (H1 : IB n s1).
  { eapply IB_frame; [|exact H]. pose proof (toks_pop_loop (expiry_threshold to (now s)) (rev (p_idle (get_tok s t))) s) as Hf.
    rewrite Hl in Hf. exact Hf. }
  pose proof (get_tok_bound n s t H) as Hb.
  destruct t as [|i]; [exact H1|].
  unfold IB in *. cbn [upd_tok toks set_toks].
  assert (Ht : toks s1 = toks s).
  { pose proof (toks_pop_loop (expiry_threshold to (now s)) (rev (p_idle (get_tok s (S i)))) s) as Hf. rewrite Hl in Hf. exact Hf. }
  rewrite Ht. apply IBl_upd_nth; [exact H|]. intros p _. cbn [set_idle p_idle]. rewrite rev_length. lia.
Qed.

Lemma IB_key_insert n k s t s' : IB n s -> key_insert k s = (t, s') -> IB n s'.
Proof.
  intros H Hk. unfold key_insert in Hk. destruct (find_key k (keys s) 1).
  - inversion Hk; subst; exact H.
  - inversion Hk; subst. unfold IB, IBl in *. cbn. apply Forall_app. split; [exact H|]. constructor; [cbn; lia|constructor].
Qed.

Lemma IB_register n cfg t c s p s' : g_max_idle cfg = n -> IB n s -> register cfg t c s = (p, s') -> IB n s'.
Proof.
  intros Hn H Hr. unfold register in Hr.
  destruct (g_pool cfg && negb (t =? 0)); [destruct (share_of s c)|]; inversion Hr; subst; auto.
  destruct (is_open s c); [|exact H].
  apply IB_pool_push. eapply IB_frame; [apply toks_clone_conn|exact H].
Qed.

Lemma IB_rx_drop n ck s : IB n s -> IB n (snd (rx_drop ck s)).
Proof. intros H. eapply IB_frame; [apply toks_rx_drop|exact H]. Qed.

Lemma IB_connector_poll n rid b s : IB n s -> IB n (snd (connector_poll rid b s)).
Proof. intros H. eapply IB_frame; [apply toks_connector_poll|exact H]. Qed.

Lemma IB_checkout_poll n cfg rid ck s : g_max_idle cfg = n -> IB n s -> IB n (snd (checkout_poll cfg rid ck s)).
Proof.
  intros Hn H. unfold checkout_poll.
  destruct (waiter_poll ck) as [w ck1]. destruct w; cbn [snd]; auto.
  destruct (k_inner ck1); cbn [snd]; auto.
  1: { destruct (k_conn ck1) as [c|]; cbn [snd]; auto.
    destruct (rx_drop (k_set_conn None ck1) s) as [ck2 s2] eqn:Hrx.
    assert (H2 : IB n s2) by (pose proof (IB_rx_drop n (k_set_conn None ck1) s H) as Hx; rewrite Hrx in Hx; exact Hx).
    destruct (register cfg (k_token ck2) c (set_req rid (RCheckout ck2) s2)) as [p s3] eqn:Hreg. cbn [snd].
    eapply IB_register; [exact Hn| |exact Hreg]. exact H2. }
  all: destruct (connector_poll rid ByReq s) as [r s1] eqn:Hc;
      assert (H1 : IB n s1) by (pose proof (IB_connector_poll n rid ByReq s H) as Hx; rewrite Hc in Hx; exact Hx);
      destruct r as [|res]; cbn [snd]; auto;
      destruct (rx_drop ck1 s1) as [ck2 s2] eqn:Hrx;
      assert (H2 : IB n s2) by (pose proof (IB_rx_drop n ck1 s1 H1) as Hx; rewrite Hrx in Hx; exact Hx);
      destruct res as [c|e]; cbn [snd]; auto;
      destruct (register cfg (k_token (k_set_inner IConnected ck2)) c (set_req rid (RCheckout (k_set_inner IConnected ck2)) s2)) as [p s3] eqn:Hreg;
      cbn [snd]; eapply IB_register; [exact Hn| |exact Hreg]; exact H2.
Qed.

Lemma IB_checkout_drop n cfg rid ck s : g_max_idle cfg = n -> IB n s -> IB n (checkout_drop cfg rid ck s).
Proof.
  intros Hn H. unfold checkout_drop.
  set (s1 := match k_conn ck with
             | Some c => if is_open s c && (g_pool cfg && negb (k_token ck =? 0)) then pool_push (g_max_idle cfg) (k_token ck) c s else drop_conn c s
             | None => s end).
  assert (H1 : IB n s1).
  { subst s1. destruct (k_conn ck) as [c|]; [|exact H].
    destruct (is_open s c && (g_pool cfg && negb (k_token ck =? 0))); [rewrite Hn; apply IB_pool_push; exact H|].
    eapply IB_frame; [apply toks_drop_conn|exact H]. }
  set (started := match get_dial s1 rid with Some d => match d_stage d with DNew => false | _ => true end | None => false end).
  set (delayed := match k_inner ck with IDelayDrop => started | _ => false end).
  set (s2 := if delayed then spawn (TDelayed rid (k_token ck) (k_owner ck)) s1
             else if g_pool cfg && negb (k_token ck =? 0) && k_owner ck then pool_cancel (k_token ck) rid s1 else s1).
  assert (H2 : IB n s2).
  { subst s2. destruct delayed; [exact H1|].
    destruct (g_pool cfg && negb (k_token ck =? 0) && k_owner ck); [apply IB_pool_cancel|]; exact H1. }
  destruct (rx_drop ck s2) as [ck' s3] eqn:Hrx.
  assert (H3 : IB n s3) by (pose proof (IB_rx_drop n ck s2 H2) as Hx; rewrite Hrx in Hx; exact Hx).
  destruct (k_inner ck); try exact H3. destruct delayed; exact H3.
Qed.

Lemma IB_do_issue n cfg u p s : g_max_idle cfg = n -> IB n s -> IB n (do_issue cfg u p s).
Proof.
  intros Hn H. unfold do_issue.
  destruct (nth u (g_uris cfg) None) as [k|]; [|exact H].
  destruct (negb (g_pool cfg)); [exact H|].
  destruct (key_insert k (set_woken (woken s ++ [false]) s)) as [t s1] eqn:Hk.
  assert (H1 : IB n s1) by (eapply IB_key_insert; [|exact Hk]; exact H).
  destruct (pool_pop (g_timeout cfg) t s1) as [found s2] eqn:Hp.
  assert (H2 : IB n s2) by (eapply IB_pool_pop; [exact H1|exact Hp]).
  destruct found; [exact H2|].
  set (pending := match p_marker (get_tok s2 t) with Some _ => true | None => false end).
  set (s3 := upd_tok t (fun q => set_waiting (p_waiting q ++ [(List.length (reqs s), pending)]) q) s2).
  assert (H3 : IB n s3) by (apply IB_upd_tok; auto).
  destruct pending; [exact H3|].
  destruct p; cbn; [exact H3|]. apply IB_upd_tok; auto.
Qed.

Lemma IB_hold_release n r p s : IB n s -> IB n (hold_release r p s).
Proof. intros H. unfold hold_release. eapply IB_frame; [rewrite toks_pooled_drop; reflexivity|exact H]. Qed.

Lemma IB_do_poll n cfg r s : g_max_idle cfg = n -> IB n s -> IB n (do_poll cfg r s).
Proof.
  intros Hn H. unfold do_poll. destruct (get_req s r) as [[|ck|p fin pl| |]|]; try exact H.
  - destruct (checkout_poll cfg r ck (unwake_req r s)) as [[res ck1] s1] eqn:Hc.
    assert (H1 : IB n s1) by (pose proof (IB_checkout_poll n cfg r ck (unwake_req r s) Hn H) as Hx; rewrite Hc in Hx; exact Hx).
    destruct res as [|[p|e]]; [exact H1| |].
    + destruct (get_conn s1 (fst p)) as [cn|]; apply (IB_checkout_drop n cfg r ck1); auto.
    + apply (IB_checkout_drop n cfg r ck1); auto.
  - destruct fin; [|exact H]. apply (IB_hold_release n r p (set_req r RDone (unwake_req r s))). exact H.
Qed.

Lemma IB_do_cancel n cfg r s : g_max_idle cfg = n -> IB n s -> IB n (do_cancel cfg r s).
Proof.
  intros Hn H. unfold do_cancel. destruct (get_req s r) as [[|ck|p fin pl| |]|]; try exact H.
  - apply (IB_checkout_drop n cfg r ck (set_req r RCancelled s)); auto.
  - apply (IB_hold_release n r p (set_req r RCancelled s)). exact H.
Qed.

Lemma IB_run_task n cfg tid s : g_max_idle cfg = n -> IB n s -> IB n (run_task cfg tid s).
Proof.
  intros Hn H. unfold run_task. destruct (nth tid (tasks s) None) as [[c t|rid t own]|]; [| |exact H].
  - destruct (get_conn s c) as [cn|]; [|exact H].
    assert (Hfin : forall s0, IB n s0 ->
              IB n (if is_open (finish_task tid s0) c && negb (t =? 0) && g_pool cfg
                    then pool_push (g_max_idle cfg) t c (finish_task tid s0) else drop_conn c (finish_task tid s0))).
    { intros s0 H0. destruct (is_open (finish_task tid s0) c && negb (t =? 0) && g_pool cfg).
      - rewrite Hn. apply IB_pool_push. exact H0.
      - eapply IB_frame; [apply toks_drop_conn|exact H0]. }
    destruct (negb (c_open cn)); [apply Hfin; exact H|].
    destruct (c_share cn || c_ready cn); [apply Hfin; exact H|exact H].
  - destruct (connector_poll rid (ByTask tid) s) as [r s1] eqn:Hc.
    assert (H1 : IB n s1) by (pose proof (IB_connector_poll n rid (ByTask tid) s H) as Hx; rewrite Hc in Hx; exact Hx).
    destruct r as [|[c|e]]; [exact H1| |].
    + destruct (register cfg t c s1) as [p s2] eqn:Hreg.
      assert (H2 : IB n s2) by (eapply IB_register; [exact Hn|exact H1|exact Hreg]).
      eapply IB_frame; [apply toks_pooled_drop|].
      destruct (g_pool cfg && negb (t =? 0) && own); [apply (IB_pool_cancel n t rid s2 H2)|exact H2].
    + destruct (g_pool cfg && negb (t =? 0) && own); [apply (IB_pool_cancel n t rid s1 H1)|exact H1].
Qed.

Lemma IB_bg_loop n cfg fuel : forall s, g_max_idle cfg = n -> IB n s -> IB n (bg_loop cfg fuel s).
Proof.
  induction fuel as [|f IH]; intros s Hn H; cbn [bg_loop]; [exact H|].
  destruct (runq s) as [|tid rest]; [exact H|]. apply IH; [exact Hn|]. apply IB_run_task; [exact Hn|exact H].
Qed.

Lemma IB_step n cfg s o : g_max_idle cfg = n -> IB n s -> IB n (step cfg s o).
Proof.
  intros Hn H. unfold step. assert (H0 : IB n (set_out [] s)) by exact H.
  destruct o.
  - apply IB_do_issue; auto.
  - apply IB_do_poll; auto.
  - apply IB_do_cancel; auto.
  - unfold do_finish. destruct (get_req (set_out [] s) r) as [[|ck|p fin pl| |]|]; try exact H0. destruct pl; exact H0.
  - unfold do_upgrade. destruct (get_req (set_out [] s) r) as [[|ck|p fin pl| |]|]; try exact H0.
    eapply IB_frame; [apply toks_drain_conn_waiters|exact H0].
  - unfold do_dial_done. destruct (get_dial (set_out [] s) r) as [d|]; [|exact H0].
    destruct (d_stage d); try exact H0. eapply IB_frame; [apply toks_wake_poller|exact H0].
  - unfold do_conn_ready. destruct (get_conn (set_out [] s) c); [|exact H0]. eapply IB_frame; [apply toks_drain_conn_waiters|exact H0].
  - unfold do_conn_close. destruct (get_conn (set_out [] s) c); [|exact H0]. eapply IB_frame; [apply toks_drain_conn_waiters|exact H0].
  - unfold do_bg. apply IB_bg_loop; auto.
  - exact H0.
Qed.

Lemma IB_init n : IB n init.
Proof. constructor. Qed.

Theorem IB_run cfg ops : IB (g_max_idle cfg) (run cfg ops).
Proof.
  unfold run. generalize (IB_init (g_max_idle cfg)). generalize init.
  induction ops as [|o ops IH]; intros s H; cbn [fold_left]; [exact H|]. apply IH. apply IB_step; auto.
Qed.

(* the snapshot shows exactly the idle lists *)
Lemma snaps_bound n s : forall l t, IBl n l ->
  forallb (fun sn => Nat.leb (List.length (sn_idle sn)) n) (snaps_from s t l) = true.
Proof.
  induction l as [|p l IH]; intros t H; cbn [snaps_from]; [reflexivity|].
  inversion H as [|? ? Hp Hl]; subst.
  assert (Hsn : Nat.leb (List.length (map fst (p_idle p))) n = true) by (rewrite map_length; apply Nat.leb_le; exact Hp).
  destruct (p_idle p), (p_waiting p), (p_marker p); cbn [forallb sn_idle]; rewrite ?Hsn, ?IH; auto.
Qed.

Theorem mon_C15_trace_from cfg : forall ops s m,
  IB (g_max_idle cfg) s -> mon_steps chk_C15 cfg m ops (trace_from cfg s ops) = true.
Proof.
  induction ops as [|o ops IH]; intros s m H; cbn [trace_from mon_steps]; [reflexivity|].
  assert (H' : IB (g_max_idle cfg) (step cfg s o)) by (apply IB_step; auto).
  rewrite IH by exact H'. rewrite andb_true_r.
  unfold chk_C15, observe. cbn [o_snap]. unfold snapshot. apply snaps_bound. exact H'.
Qed.

Theorem mon_C15_holds cfg ops : mon_C15 cfg ops (trace cfg ops) = true.
Proof. apply mon_C15_trace_from. apply IB_init. Qed.
