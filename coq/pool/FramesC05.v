(* Frame lemmas for M-POOL, clock component: no primitive of the pool changes [now] (only [Tick] does).
   Mechanically the same proofs as pool/Frames.v with [toks] replaced by [now]. *)
From HD Require Import common.Base http.Model pool.Model pool.Frames.
Local Open Scope list_scope.

Lemma now_emit e s : now (emit e s) = now s. Proof. reflexivity. Qed.
Lemma now_upd_conn c f s : now (upd_conn c f s) = now s. Proof. reflexivity. Qed.
Lemma now_set_req r v s : now (set_req r v s) = now s. Proof. reflexivity. Qed.
Lemma now_upd_dial r f s : now (upd_dial r f s) = now s. Proof. reflexivity. Qed.
Lemma now_wake_req r s : now (wake_req r s) = now s. Proof. reflexivity. Qed.
Lemma now_unwake_req r s : now (unwake_req r s) = now s. Proof. reflexivity. Qed.
Lemma now_spawn t s : now (spawn t s) = now s. Proof. reflexivity. Qed.
Lemma now_finish_task t s : now (finish_task t s) = now s. Proof. reflexivity. Qed.
Lemma now_wake_task t s : now (wake_task t s) = now s.
Proof. unfold wake_task. dm; reflexivity. Qed.
Lemma now_wake_poller p r s : now (wake_poller p r s) = now s.
Proof. unfold wake_poller. dm; try reflexivity. apply now_wake_task. Qed.
Lemma now_drop_conn c s : now (drop_conn c s) = now s.
Proof. unfold drop_conn. dm; reflexivity. Qed.
Lemma now_clone_conn c s : now (clone_conn c s) = now s. Proof. reflexivity. Qed.
Lemma now_pooled_drop p s : now (pooled_drop p s) = now s.
Proof. unfold pooled_drop. destruct p. dm; [apply now_drop_conn | reflexivity]. Qed.
Lemma now_deliver w p s : now (deliver w p s) = now s.
Proof. unfold deliver. dm; reflexivity. Qed.
Lemma now_drop_sender w s : now (drop_sender w s) = now s.
Proof. unfold drop_sender. dm; reflexivity. Qed.
Lemma now_drop_all l : forall s, now (drop_all l s) = now s.
Proof. induction l as [|[c a] l IH]; intros s; cbn [drop_all]; [reflexivity|]. rewrite IH. apply now_drop_conn. Qed.
Lemma now_wake_tasks l : forall s, now (wake_tasks l s) = now s.
Proof. induction l as [|t l IH]; intros s; cbn [wake_tasks]; [reflexivity|]. rewrite IH. apply now_wake_task. Qed.
Lemma now_drain_conn_waiters c s : now (drain_conn_waiters c s) = now s.
Proof. unfold drain_conn_waiters. dm; [|reflexivity]. rewrite now_wake_tasks. reflexivity. Qed.
Lemma now_walk_waiters t c sh ws : forall s, now (snd (walk_waiters t c sh ws s)) = now s.
Proof.
  induction ws as [|[w b] ws IH]; intros s; cbn [walk_waiters]; [reflexivity|].
  destruct (rx_live s w); [destruct sh|].
  - rewrite IH, now_deliver. reflexivity.
  - cbn [snd]. apply now_deliver.
  - apply IH.
Qed.
Lemma now_release_pending ws : forall s, now (snd (release_pending ws s)) = now s.
Proof.
  induction ws as [|[w b] ws IH]; intros s; cbn [release_pending]; [reflexivity|].
  destruct b.
  - rewrite IH. apply now_drop_sender.
  - specialize (IH s). destruct (release_pending ws s). exact IH.
Qed.
Lemma now_pop_loop thr rl : forall s, now (snd (pop_loop thr rl s)) = now s.
Proof.
  induction rl as [|[c a] rl IH]; intros s; cbn [pop_loop]; [reflexivity|].
  dm; cbn [snd].
  - rewrite now_drop_all. apply now_drop_conn.
  - reflexivity.
  - rewrite IH. apply now_drop_conn.
Qed.
Lemma now_connector_poll rid b s : now (snd (connector_poll rid b s)) = now s.
Proof. unfold connector_poll. dm; reflexivity. Qed.
Lemma now_rx_drop ck s : now (snd (rx_drop ck s)) = now s.
Proof. unfold rx_drop. dm; cbn [snd]; try reflexivity; apply now_pooled_drop. Qed.
