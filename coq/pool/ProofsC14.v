(* C14: the monitor mon_C14 accepts the model's trace of every history (mon_C14_holds, at the end of this file).
   Clauses (a1), (b), (b') are proved in pool/ProofsC14b.v; this file proves clause (a2), clause (a3) (from pool/WaitC14.v,
   pool/A3C14.v) and assembles the five clause monitors with mon_C14_split (pool/BaseC14.v).
   The relation R4 (pool/ATrkC14.v) is carried over operation boundaries together with
   - Bnd3 (pool/BTrkC14.v): tracker/model alignment, dials, tokens;
   - prover C02's linearity invariant I (pool/FramesC02.v, pool/ProofsC02.v): a non-shareable connection
     is in at most one place, which gives [BndP] and [LinK];
   - C06's key environment Good (pool/FramesC06.v, pool/ProofsC06.v) and the uniqueness of keys in the
     token table: an idle entry sits under the token of its own origin, so the tracker's "parked" test
     looks at the right idle list. *)
From HD Require Import common.Base http.Model pool.Model pool.Spec pool.ProofsLite pool.BaseC14 pool.TokC14 pool.DialC14 pool.BgC14
  pool.OblC14 pool.BTrkC14 pool.ATrkC14 pool.WaitC14 pool.A3C14 pool.ProofsC14b.
From HD Require pool.FramesC02 pool.ProofsC02 pool.FramesC06 pool.ProofsC06.
Local Open Scope list_scope.

(* ------------------------------------------------------------------ keys *)
Lemma find_key_KND k : forall ks j i k', KND ks -> nth_error ks i = Some k' -> key_eqb k k' = true ->
  (forall i0 k0, i0 < i -> nth_error ks i0 = Some k0 -> key_eqb k k0 = false) -> find_key k ks j = Some (j + i).
Proof.
  induction ks as [|k0 ks IH]; intros j i k' HK Hn He Hmin; [destruct i; discriminate|].
  cbn [find_key]. destruct i as [|i].
  - cbn in Hn. inversion Hn; subst k0. rewrite He. f_equal. lia.
  - rewrite (Hmin 0 k0 ltac:(lia) eq_refl). cbn in Hn.
    rewrite (IH (S j) i k'); [f_equal; lia| |exact Hn|exact He|].
    + intros a b ka kb Ha Hb Hab. assert (S a = S b) by (apply (HK (S a) (S b) ka kb); assumption). lia.
    + intros i0 k1 Hlt H1. apply (Hmin (S i0) k1); [lia|exact H1].
Qed.

Lemma tok_of_KND ks k i k' : KND ks -> nth_error ks i = Some k' -> key_eqb k k' = true -> tok_of ks k = S i.
Proof.
  intros HK Hn He. unfold tok_of. rewrite (find_key_KND k ks 1 i k' HK Hn He); [reflexivity|].
  intros i0 k0 Hlt H0. destruct (key_eqb k k0) eqn:E; [|reflexivity]. exfalso.
  assert (key_eqb k0 k' = true) by (eapply key_eqb_trans; [rewrite key_eqb_sym; exact E|exact He]).
  assert (i0 = i) by (apply (HK i0 i k0 k'); assumption). lia.
Qed.

Lemma KND_snoc ks k : KND ks -> find_key k ks 1 = None -> KND (ks ++ [k]).
Proof.
  intros HK Hf.
  assert (E : key_insert k (set_keys ks init)
              = (S (List.length ks), set_toks (toks (set_keys ks init) ++ [empty_tok]) (set_keys (ks ++ [k]) (set_keys ks init))))
    by (unfold key_insert; cbn [keys set_keys]; rewrite Hf; reflexivity).
  exact (KND_key_insert k (set_keys ks init) _ _ HK E).
Qed.

Lemma KND_issue cfg m u : KND (m_keys m) -> KND (issue_ks cfg m u).
Proof.
  intros HK. unfold issue_ks. destruct (nth u (g_uris cfg) None) as [k|]; [|exact HK]. destruct (g_pool cfg); [|exact HK].
  destruct (find_key k (m_keys m) 1) eqn:E; [exact HK|apply KND_snoc; assumption].
Qed.

(* ------------------------------------------------------------------ an idle entry sits under the token of its origin *)
Lemma idle_token E m0 s t c : FramesC06.Good E m0 [] s -> m_keys (cur m0 s) = keys s -> KND (keys s) ->
  In c (idl s t) -> key_tok (cur m0 s) (conn_key (cur m0 s) c) = t.
Proof.
  intros HG Hk HK Hin. unfold idl in Hin. destruct t as [|i]; [destruct Hin|]. cbn [get_tok] in Hin.
  destruct (nth_error (toks s) i) as [p|] eqn:Ep; [|rewrite nth_overflow in Hin by (apply nth_error_None; exact Ep); destruct Hin].
  rewrite (nth_error_nth _ _ _ Ep) in Hin. apply in_map_iff in Hin. destruct Hin as ([c0 a] & E0 & Hin). cbn in E0. subst c0.
  destruct (FramesC06.g_tok _ _ _ _ HG i p Ep) as [Hidle _]. specialize (Hidle c a Hin).
  destruct (FramesC06.g_log _ _ _ _ HG) as [_ Hm]. fold (cur m0 s) in Hm.
  rewrite (FramesC06.mkeys_conn_key _ _ _ c Hm). fold (FramesC06.ok E c).
  unfold FramesC06.tki in Hidle. rewrite (FramesC06.g_ks _ _ _ _ HG) in Hidle.
  destruct (FramesC06.ok E c) as [k|]; [|discriminate Hidle]. destruct (nth_error (keys s) i) as [k'|] eqn:Ek; [|discriminate Hidle].
  cbn [same_key] in Hidle. unfold key_tok. rewrite Hk. apply (tok_of_KND (keys s) k i k' HK Ek Hidle).
Qed.

Lemma mem_In c l : In c l -> mem c l = true.
Proof. intros H. unfold mem. apply existsb_exists. exists c. split; [exact H|apply Nat.eqb_refl]. Qed.

Lemma parked_ok E m0 s : FramesC06.Good E m0 [] s -> m_keys (cur m0 s) = keys s -> KND (keys s) ->
  forall t c, In c (idl s t) -> foff (observe s) (cur m0 s) c = None.
Proof.
  intros HG Hk HK t c Hin. unfold foff. destruct (nth_error (m_conns (cur m0 s)) c) as [x|]; [|reflexivity].
  rewrite (idle_token E m0 s t c HG Hk HK Hin). cbn [observe o_snap]. rewrite idle_of_snapshot.
  fold (idl s t). rewrite (mem_In c _ Hin). reflexivity.
Qed.

(* ------------------------------------------------------------------ what linearity provides *)
Lemma LinK_of_I F m s : FramesC02.I None F m s -> LinK s.
Proof.
  intros HI tid c t r ck Ht Hs Hq Hc.
  pose proof (FramesC02.I_lin _ _ _ _ HI c Hs) as Hl.
  assert (H1 : 1 <= FramesC02.cnt (FramesC02.LT s) c).
  { unfold FramesC02.LT. pose proof (FramesC02.cnt_flat_map_nth FramesC02.taskT c (tasks s) tid (Some (TWhenReady c t)) (ProofsC02.nth_Some_nth_error _ _ _ Ht)) as H.
    cbn [FramesC02.taskT] in H. rewrite FramesC02.cnt_one in H. destruct (Nat.eq_dec c c); [exact H|congruence]. }
  assert (H2 : 1 <= FramesC02.cnt (FramesC02.LA None s) c).
  { unfold FramesC02.LA, FramesC02.reqs_x. rewrite FramesC02.cnt_app.
    pose proof (FramesC02.cnt_flat_map_nth FramesC02.reqA c (reqs s) r (RCheckout ck) Hq) as H.
    cbn [FramesC02.reqA] in H. unfold FramesC02.ck_conns in H. rewrite FramesC02.cnt_app, Hc in H. cbn [FramesC02.oconn] in H.
    rewrite FramesC02.cnt_one in H. destruct (Nat.eq_dec c c); [lia|congruence]. }
  lia.
Qed.

Section A2.
Variable cfg : config.

Definition Bnd4 (m : mst) (s : state) : Prop :=
  Bnd3 cfg m s /\ FramesC02.I None [] m s /\ (exists E, FramesC06.Good E m [] (set_out [] s)) /\ KND (m_keys m)
  /\ R4 true m (set_out [] s).

Lemma Bnd4_init : Bnd4 m0 init.
Proof.
  split; [apply Bnd3_init|]. split; [apply ProofsC02.I_init|]. split; [eexists; apply ProofsC06.Good_init|]. split; [apply KND_nil|].
  constructor.
  - intros r. unfold lp. destruct r; cbn; lia.
  - intros r ck c H. destruct r; discriminate.
  - intros r ck c H. destruct r; discriminate.
  - intros t c H. unfold idl in H. destruct t as [|[|t]]; destruct H.
  - intros c H. destruct H.
  - intros c H. unfold off. destruct c; reflexivity.
  - intros _ c b H. destruct H.
Qed.

Lemma mkeys_fold_ev es : forall m, m_keys (fold_left track_ev es m) = m_keys m.
Proof. induction es as [|e es IH]; intros m; cbn [fold_left]; [reflexivity|]. rewrite IH. apply mkeys_track_ev. Qed.

Lemma mkeys_track m o ob : m_keys (track cfg m o ob) = m_keys (track_op cfg m o ob).
Proof.
  unfold track. cbn [m_keys set_m_prev set_m_i].
  match goal with |- m_keys (fold_left (track_idle_stamp ?pv) ?l ?mm) = _ => destruct (view_idle_stamps pv l mm) as (_ & _ & ->) end.
  match goal with |- m_keys (fold_left (track_offer ?b) ?l ?mm) = _ => destruct (view_track_offer b l mm) as (_ & _ & ->) end.
  apply mkeys_fold_ev.
Qed.

Lemma KND_track m o ob : KND (m_keys m) -> KND (m_keys (track cfg m o ob)).
Proof.
  intros HK. rewrite mkeys_track. destruct o; try exact HK.
  - change (KND (m_keys (issue_m cfg m u p ob))). destruct (issue_m_view cfg m u p ob) as (_ & _ & ->). apply KND_issue. exact HK.
  - cbn [track_op]. destruct (nth_error (m_reqs m) r) as [x|]; [|exact HK]. destruct (ri_stat x); try exact HK.
    destruct (ri_popx x) as [c|]; [|exact HK]. destruct (nth_error (m_conns m) c) as [y|]; [|exact HK]. destruct (ci_share y); exact HK.
  - cbn [track_op]. destruct (holder_conn m r); exact HK.
Qed.

(* G4 for every operation *)
Lemma step_G4 m s o : Bnd4 m s ->
  exists nr, G4 nr (track_op cfg m o (observe (step cfg s o))) (step cfg s o).
Proof.
  intros (HB3 & HI2 & _ & _ & HR4). destruct HB3 as (HR3 & HM & _ & _). set (ob := observe (step cfg s o)). unfold step.
  set (s0 := set_out [] s) in *.
  destruct o.
  - exists true. apply (G4_op_issue cfg m u p s0 ob HR4 eq_refl).
  - exists true. cbn [track_op].
    assert (G2 : FramesC02.G m None [] s0) by (apply (ProofsC02.G_start m m s HI2), FramesC02.msoft_refl).
    apply G4_do_poll.
    + apply G4_start; [reflexivity|exact HR4].
    + change (cur m s0) with m. apply (r3_nc _ _ _ _ HR3).
    + change (cur m s0) with m. pose proof (r3_nr _ _ _ _ HR3) as Hn. unfold RV in Hn. rewrite map_length in Hn.
      pose proof (md_len _ _ _ HM) as Hl. change (reqs s0) with (reqs s). lia.
    + intros ck Hq.
      assert (G20 : FramesC02.G m None [] (unwake_req r s0)) by (eapply ProofsC02.G_quiet; [exact G2|apply FramesC02.quiet_unwake_req]).
      assert (GE : FramesC02.G m (Some r) (FramesC02.ck_conns ck ++ []) (unwake_req r s0))
        by (apply (ProofsC02.G_extract m [] (unwake_req r s0) r _ G20 Hq); discriminate).
      pose proof (ProofsC02.G_checkout_poll m cfg r ck [] (unwake_req r s0) GE) as HP. split.
      * intros p Ep. rewrite Ep in HP. cbn [ProofsC02.kres app] in HP.
        destruct (ProofsC02.in_flight_conn _ _ _ _ _ (proj2 HP)) as (cn & Hc). eapply nth_error_lt. exact Hc.
      * apply (FramesC02.I_len _ _ _ _ (proj2 HP)).
  - exists true. apply (G4_op_cancel cfg m r s0 ob HR4 eq_refl).
  - exists true. apply (G4_op_other cfg m (Finish r) s0 ob HR4 eq_refl I).
  - exists true. apply (G4_op_other cfg m (Upgrade r) s0 ob HR4 eq_refl I).
  - exists true. apply (G4_op_other cfg m (DialDone r x) s0 ob HR4 eq_refl I).
  - exists true. apply (G4_op_other cfg m (ConnReady c) s0 ob HR4 eq_refl I).
  - exists true. apply (G4_op_other cfg m (ConnClose c) s0 ob HR4 eq_refl I).
  - exists false. cbn [track_op]. unfold do_bg.
    apply (G4_bg_loop cfg m (fun s1 => FramesC02.G m None [] s1)).
    + intros s1 tid rest _ P1. apply ProofsC02.G_run_task. eapply ProofsC02.G_quiet; [exact P1|apply FramesC02.quiet_set_runq].
    + intros s1 P1. split; [eapply LinK_of_I; apply (proj2 P1)|apply (FramesC02.I_len _ _ _ _ (proj2 P1))].
    + apply (ProofsC02.G_start m m s HI2), FramesC02.msoft_refl.
    + apply G4_start; [reflexivity|apply R4_nr_weaken; exact HR4].
  - exists true. apply (G4_op_other cfg m (Tick dt) s0 ob HR4 eq_refl I).
Qed.

Lemma step_A2 m s o : Bnd4 m s ->
  chk_A2 cfg m o (observe (step cfg s o)) = true /\ Bnd4 (track cfg m o (observe (step cfg s o))) (step cfg s o).
Proof.
  intros HB. destruct (step_G4 m s o HB) as (nr & He & HR). destruct HB as (HB3 & HI2 & (E & HG6) & HK & HR4).
  set (s' := step cfg s o) in *. set (ob := observe s') in *. set (m1 := track_op cfg m o ob) in *.
  split; [exact He|].
  destruct (step_G3 cfg m s o ob HB3) as (obl & [_ HR3'] & _). fold s' m1 in HR3'.
  destruct (ProofsC06.step_good cfg E m s o ob HG6) as (E' & _ & HG6'). fold s' m1 in HG6'.
  pose proof (proj2 (ProofsC02.G_step_op cfg m s o ob HI2)) as HI2'. fold s' m1 in HI2'.
  assert (Hka : m_keys (cur m1 s') = keys s') by (apply (r3_ka _ _ _ _ HR3'); reflexivity).
  assert (HK1 : KND (m_keys m1)).
  { pose proof (KND_track m o ob HK) as H. rewrite mkeys_track in H. exact H. }
  assert (HKs : KND (keys s')) by (rewrite <- Hka; unfold cur; rewrite mkeys_fold_ev; exact HK1).
  split; [apply step_Bnd3; exact HB3|]. split; [apply (ProofsC02.step_ok cfg m s o HI2)|]. split.
  { exists E'. apply (ProofsC06.Good_next cfg E' m o s' HG6'). }
  split; [apply KND_track; exact HK|].
  unfold track. change (o_events ob) with (rev (out s')). fold (cur m1 s').
  apply (R4_finish nr m ob (cur m1 s') s' HR eq_refl).
  - intros t c Hin _. apply (parked_ok E' m1 s' HG6' Hka HKs t c Hin).
  - intros c x Hx Hs. unfold share_of. destruct (get_conn s' c) as [cn|] eqn:Ec; [|reflexivity].
    rewrite <- (FramesC02.I_share _ _ _ _ HI2' c x cn Hx Ec). exact Hs.
Qed.

Theorem mon_C14_a2_holds_cfg : forall ops, mon_with chk_A2 cfg ops (trace cfg ops) = true.
Proof.
  intros ops. unfold mon_with, trace. apply (mon_skeleton Bnd4 chk_A2 cfg); [|apply Bnd4_init].
  intros m s o H. apply step_A2. exact H.
Qed.
End A2.

Theorem mon_C14_a2_holds : forall cfg ops, mon_with chk_A2 cfg ops (trace cfg ops) = true.
Proof. exact mon_C14_a2_holds_cfg. Qed.

(* ------------------------------------------------------------------ clause (a3) *)
Lemma Bnd5_init cfg : Bnd5 cfg m0 init.
Proof.
  split; [apply Bnd3_init|]. split; [|intros _; apply WQ_init]. constructor.
  - intros r _ H. unfold notlive. destruct r; exact I.
  - intros _ r ck _ H. destruct r; discriminate.
  - cbn. lia.
Qed.

Theorem mon_C14_a3_holds : forall cfg ops, mon_with chk_A3 cfg ops (trace cfg ops) = true.
Proof.
  intros cfg ops. unfold mon_with, trace. apply (mon_skeleton (Bnd5 cfg) chk_A3 cfg); [|apply Bnd5_init].
  intros m s o H. apply step_A3. exact H.
Qed.

(* ------------------------------------------------------------------ the full monitor *)
Theorem mon_C14_holds : forall cfg ops, mon_C14 cfg ops (trace cfg ops) = true.
Proof.
  intros cfg ops.
  rewrite mon_C14_split, mon_C14_a1_holds, mon_C14_a2_holds, mon_C14_b_holds, mon_C14_a3_holds, mon_C14_bg_holds. reflexivity.
Qed.

Print Assumptions mon_C14_holds.
