(* C05: the monitor mon_C05 accepts the model's trace of every history.
   - pool/CoreC05.v: first clause (a connection handed to r was not closed before it was acquired for r),
     by an invariant relating tracker and model carried through every primitive;
   - pool/LinC05.v: model-only handle accounting (every pushable handle of a connection exists at most
     once; a connection without handle is never pushed, offered or handed out again);
   - this file: the idle-timeout clause.  Boundary invariant [Inv2]: the tracker's previous snapshot, key
     table and clock agree with the model; every idle entry (c, at) satisfies at <= 1000000 + ci_idle_time c
     (the tracker's stamp is at least as recent as the entry); if the clause would fail for (r, c), with
     c = ri_popx r, then c is dead and r does not have it. *)
From HD Require Import common.Base http.Model pool.Model pool.Spec pool.Frames pool.FramesC05 pool.SortedC05 pool.CoreC05 pool.LinC05.
From HD Require pool.FramesC02 pool.ProofsC02.
Local Open Scope list_scope.

(* ------------------------------------------------------------------ splitting the monitor *)
Definition chk2 (cfg : config) (m : mst) (e : ev) : bool :=
  match e with
  | EHand r c _ _ _ _ =>
      match nth_error (m_conns m) c, nth_error (m_reqs m) r with
      | Some x, Some y =>
          match g_timeout cfg, ri_popx y with
          | Some d, Some c' => if N.ltb 0 d && Nat.eqb c c' then N.leb (ri_time y - ci_idle_time x) d else true
          | _, _ => true
          end
      | _, _ => true
      end
  | _ => true
  end.

(* hand-back half of the first clause, relative to the tracker [m0] at the start of the op's events: a closed
   connection that is handed out was not closed before its last hand-back (CoreC05.chk1 shows that the
   ci_back of a closed connection does not move during the op) *)
Definition chkB (m0 m : mst) (e : ev) : bool :=
  match e with
  | EHand r c _ _ _ _ =>
      match nth_error (m_conns m) c with
      | Some x => match ci_closed x, nth_error (m_conns m0) c with
                  | Some cl, Some x0 => Nat.leb (ci_back x0) cl
                  | _, _ => true
                  end
      | None => true
      end
  | _ => true
  end.

Lemma chk_combine cfg m0 m e : chk1 m0 m e = true -> chk2 cfg m e = true -> chkB m0 m e = true -> chk_ev_C05 cfg m e = true.
Proof.
  destruct e; try reflexivity. cbn [chk_ev_C05 chk1 chk2 chkB].
  destruct (nth_error (m_conns m) c) as [x|]; [|discriminate]. destruct (nth_error (m_reqs m) r) as [y|]; [|discriminate].
  intros H1 H2 H3. apply andb_true_iff. split; [|exact H2].
  destruct (ci_closed x) as [cl|]; [|reflexivity]. apply andb_true_iff in H1 as [Ha Hb].
  destruct (nth_error (m_conns m0) c) as [x0|]; [|discriminate]. apply Nat.eqb_eq in Hb. apply Nat.leb_le in H3.
  apply negb_true_iff in Ha. apply Nat.ltb_ge in Ha. apply negb_true_iff, Nat.ltb_ge. lia.
Qed.

Lemma evs_ok_imp3 (f g h k : mst -> ev -> bool) :
  (forall m e, f m e = true -> g m e = true -> h m e = true -> k m e = true) ->
  forall l m, evs_ok f m l = true -> evs_ok g m l = true -> evs_ok h m l = true -> evs_ok k m l = true.
Proof.
  intros H. induction l as [|e l IH]; intros m; cbn [evs_ok]; [reflexivity|].
  intros Hf Hg Hh. apply andb_true_iff in Hf as [F1 F2]. apply andb_true_iff in Hg as [G1 G2]. apply andb_true_iff in Hh as [H1 H2].
  apply andb_true_iff. split; [apply H; assumption|apply IH; assumption].
Qed.

Lemma evs_ok_all (f : mst -> ev -> bool) : forall l m,
  (forall l1 e l2, l = l1 ++ e :: l2 -> f (fold_left track_ev l1 m) e = true) -> evs_ok f m l = true.
Proof.
  induction l as [|e l IH]; intros m H; cbn [evs_ok]; [reflexivity|].
  pose proof (H [] e l eq_refl) as H0. cbn [fold_left] in H0. rewrite H0. cbn [andb]. apply IH. intros l1 e' l2 E. apply (H (e :: l1) e' l2). rewrite E. reflexivity.
Qed.

(* ------------------------------------------------------------------ the tracker fields of the timeout clause *)
Definition sv (m : mst) : list N := map ci_idle_time (m_conns m).
Definition pv (m : mst) : list (N * option nat) := map (fun y => (ri_time y, ri_popx y)) (m_reqs m).

Lemma chk2_view cfg m r c b1 b2 b3 n :
  (forall st tm d, nth_error (sv m) c = Some st -> nth_error (pv m) r = Some (tm, Some c) ->
                   g_timeout cfg = Some d -> (0 < d)%N -> (tm - st <= d)%N) ->
  chk2 cfg m (EHand r c b1 b2 b3 n) = true.
Proof.
  unfold sv, pv. rewrite !nth_error_map'. intros H. cbn [chk2].
  destruct (nth_error (m_conns m) c) as [x|]; [|reflexivity]. destruct (nth_error (m_reqs m) r) as [y|]; [|reflexivity].
  cbn [option_map] in H. destruct (g_timeout cfg) as [d|], (ri_popx y) as [c'|] eqn:Ep; try reflexivity.
  destruct (N.ltb_spec 0 d); cbn [andb]; [|reflexivity]. destruct (Nat.eqb_spec c c') as [<-|]; [|reflexivity].
  apply N.leb_le. eapply H; eauto.
Qed.

Lemma sv_ci_upd_id f c m : (forall x, ci_idle_time (f x) = ci_idle_time x) -> sv (ci_upd f c m) = sv m.
Proof. intros H. unfold sv, ci_upd. cbn [m_conns set_m_conns]. apply map_upd_nth_id. exact H. Qed.
Lemma pv_ri_upd_id f r m : (forall x, ri_time (f x) = ri_time x /\ ri_popx (f x) = ri_popx x) -> pv (ri_upd f r m) = pv m.
Proof.
  intros H. unfold pv, ri_upd. cbn [m_reqs set_m_reqs]. apply map_upd_nth_id. intros x. destruct (H x) as [-> ->]. reflexivity.
Qed.

(* the components left alone by events *)
Record same_meta (m m' : mst) : Prop := mkSM {
  sm_pv : pv m' = pv m; sm_keys : m_keys m' = m_keys m; sm_time : m_time m' = m_time m; sm_prev : m_prev m' = m_prev m }.
Lemma sm_refl m : same_meta m m. Proof. constructor; reflexivity. Qed.
Lemma sm_trans a b c : same_meta a b -> same_meta b c -> same_meta a c.
Proof. intros [A1 A2 A3 A4] [B1 B2 B3 B4]. constructor; congruence. Qed.
Lemma sm_ri_upd f r m : (forall x, ri_time (f x) = ri_time x /\ ri_popx (f x) = ri_popx x) -> same_meta m (ri_upd f r m).
Proof. intros H. constructor; try reflexivity. apply pv_ri_upd_id, H. Qed.
Lemma sm_ci_upd f c m : same_meta m (ci_upd f c m).
Proof. constructor; reflexivity. Qed.

Lemma sm_track_ev m e : same_meta m (track_ev m e).
Proof.
  destruct e; cbn [track_ev].
  - apply sm_ri_upd. auto.
  - constructor; try reflexivity. unfold pv. cbn [m_reqs set_m_conns]. fold (pv (ri_upd (set_ri_dial DsOver) r m)). apply pv_ri_upd_id. auto.
  - eapply sm_trans; [apply sm_ri_upd|apply sm_ci_upd]. intros x. cbv beta.
    match goal with |- context [if ?b then _ else _] => destruct b end; auto.
  - apply sm_ri_upd. auto.
  - assert (H : same_meta m (ri_upd (fun y => set_ri_pend false (set_ri_stat SDone y)) r m)) by (apply sm_ri_upd; auto).
    destruct x as [|[]]; try exact H; (eapply sm_trans; [exact H|apply sm_ri_upd; auto]).
  - apply sm_ci_upd.
  - apply sm_ci_upd.
  - destruct ok; [apply sm_ci_upd|apply sm_refl].
Qed.

Lemma sv_track_ev m e : sv (track_ev m e) = match e with ENew _ _ _ => sv m ++ [m_time m] | _ => sv m end.
Proof.
  destruct e; cbn [track_ev]; try reflexivity.
  - unfold sv. cbn [m_conns set_m_conns ri_upd set_m_reqs m_time]. rewrite map_app. reflexivity.
  - rewrite sv_ci_upd_id by reflexivity. reflexivity.
  - destruct x as [|[]]; reflexivity.
  - apply sv_ci_upd_id. reflexivity.
  - apply sv_ci_upd_id. reflexivity.
  - destruct ok; [apply sv_ci_upd_id|]; reflexivity.
Qed.

(* stamps after a sequence of events: the old ones, followed by the current clock for the new connections *)
Lemma sv_fold l : forall m, exists k, sv (fold_left track_ev l m) = sv m ++ repeat (m_time m) k.
Proof.
  induction l as [|e l IH]; intros m; cbn [fold_left]; [exists 0; cbn; rewrite app_nil_r; reflexivity|].
  destruct (IH (track_ev m e)) as [k Hk]. rewrite Hk, sv_track_ev, (sm_time _ _ (sm_track_ev m e)).
  destruct e; try (exists k; reflexivity). exists (S k). rewrite <- app_assoc. reflexivity.
Qed.
Lemma sm_fold l : forall m, same_meta m (fold_left track_ev l m).
Proof. induction l as [|e l IH]; intros m; cbn [fold_left]; [apply sm_refl|]. eapply sm_trans; [apply sm_track_ev|apply IH]. Qed.

Lemma sm_track_offer ob m e : same_meta m (track_offer ob m e) /\ sv (track_offer ob m e) = sv m.
Proof.
  destruct e; try (split; [apply sm_refl|reflexivity]). destruct ok; try (split; [apply sm_refl|reflexivity]).
  cbn [track_offer]. destruct (nth_error (m_conns m) c); [|split; [apply sm_refl|reflexivity]].
  split; [apply sm_ci_upd|apply sv_ci_upd_id; reflexivity].
Qed.
Lemma sm_offer_fold ob l : forall m, same_meta m (fold_left (track_offer ob) l m) /\ sv (fold_left (track_offer ob) l m) = sv m.
Proof.
  induction l as [|e l IH]; intros m; cbn [fold_left]; [split; [apply sm_refl|reflexivity]|].
  destruct (IH (track_offer ob m e)) as [A B]. destruct (sm_track_offer ob m e) as [A' B'].
  split; [eapply sm_trans; eauto|congruence].
Qed.

(* re-stamping: every stamp stays or becomes the clock; the selected ones become the clock *)
Record restamp (m m' : mst) : Prop := mkRS {
  rs_meta : same_meta m m';
  rs_len : List.length (sv m') = List.length (sv m);
  rs_each : forall c, nth_error (sv m') c = nth_error (sv m) c \/ nth_error (sv m') c = Some (m_time m)
}.
Lemma rs_refl m : restamp m m. Proof. constructor; [apply sm_refl|reflexivity|auto]. Qed.
Lemma rs_trans a b c : restamp a b -> restamp b c -> restamp a c.
Proof.
  intros [A1 A2 A3] [B1 B2 B3]. constructor; [eapply sm_trans; eauto|congruence|].
  intros k. rewrite (sm_time _ _ A1) in B3. destruct (B3 k) as [E|E]; [rewrite E; apply A3|right; exact E].
Qed.
Lemma rs_keep a b c : restamp a b -> nth_error (sv a) c = Some (m_time a) -> nth_error (sv b) c = Some (m_time a).
Proof. intros [A1 A2 A3] H. destruct (A3 c) as [E|E]; congruence. Qed.
Lemma rs_one c m : restamp m (ci_upd (set_ci_idle_time (m_time m)) c m)
  /\ (c < List.length (sv m) -> nth_error (sv (ci_upd (set_ci_idle_time (m_time m)) c m)) c = Some (m_time m)).
Proof.
  assert (E : sv (ci_upd (set_ci_idle_time (m_time m)) c m) = upd_nth c (fun _ => m_time m) (sv m)).
  { unfold sv, ci_upd. cbn [m_conns set_m_conns]. apply map_upd_nth. reflexivity. }
  split.
  - constructor; [apply sm_ci_upd|rewrite E; apply upd_nth_length|].
    intros k. rewrite E, nth_error_upd_nth. destruct (Nat.eqb c k); [|left; reflexivity].
    destruct (nth_error (sv m) k); cbn [option_map]; auto.
  - intros Hlt. rewrite E, nth_error_upd_nth_eq. destruct (nth_error_ex _ _ Hlt) as [x ->]. reflexivity.
Qed.

Lemma stamp_snap prev sn : forall m, restamp m (track_idle_stamp prev m sn)
  /\ forall c, In c (sn_idle sn) -> mem c (idle_of prev (sn_token sn)) = false -> c < List.length (sv m) ->
               nth_error (sv (track_idle_stamp prev m sn)) c = Some (m_time m).
Proof.
  unfold track_idle_stamp. induction (sn_idle sn) as [|c0 l IH]; intros m; cbn [fold_left]; [split; [apply rs_refl|intros c []]|].
  destruct (mem c0 (idle_of prev (sn_token sn))) eqn:Em.
  - destruct (IH m) as [A B]. split; [exact A|]. intros c [<-|Hin] Hm Hlt; [congruence|auto].
  - destruct (rs_one c0 m) as [R1 H1]. destruct (IH (ci_upd (set_ci_idle_time (m_time m)) c0 m)) as [A B].
    assert (Et : m_time (ci_upd (set_ci_idle_time (m_time m)) c0 m) = m_time m) by reflexivity.
    split; [eapply rs_trans; eauto|]. intros c [<-|Hin] Hm Hlt.
    + rewrite <- Et. apply (rs_keep _ _ _ A). rewrite Et. apply H1, Hlt.
    + rewrite <- Et. apply B; auto. rewrite (rs_len _ _ R1). exact Hlt.
Qed.

Lemma stamp_snaps prev l : forall m, restamp m (fold_left (track_idle_stamp prev) l m)
  /\ forall sn c, In sn l -> In c (sn_idle sn) -> mem c (idle_of prev (sn_token sn)) = false -> c < List.length (sv m) ->
                  nth_error (sv (fold_left (track_idle_stamp prev) l m)) c = Some (m_time m).
Proof.
  induction l as [|sn0 l IH]; intros m; cbn [fold_left]; [split; [apply rs_refl|intros sn c []]|].
  destruct (stamp_snap prev sn0 m) as [R1 H1]. destruct (IH (track_idle_stamp prev m sn0)) as [A B].
  assert (Et : m_time (track_idle_stamp prev m sn0) = m_time m) by (apply (sm_time _ _ (rs_meta _ _ R1))).
  split; [eapply rs_trans; eauto|]. intros sn c [<-|Hin] Hc Hm Hlt.
  - rewrite <- Et. apply (rs_keep _ _ _ A). rewrite Et. apply H1; auto.
  - rewrite <- Et. apply (B sn c); auto. rewrite (rs_len _ _ R1). exact Hlt.
Qed.

(* ------------------------------------------------------------------ the snapshot shows the idle lists *)
Lemma idle_of_cons sn l t : idle_of (sn :: l) t = if Nat.eqb (sn_token sn) t then sn_idle sn else idle_of l t.
Proof. unfold idle_of, snap_of. cbn [find]. destruct (Nat.eqb (sn_token sn) t); reflexivity. Qed.

Lemma idle_of_snaps s : forall l t0 t,
  idle_of (snaps_from s t0 l) t = if Nat.leb t0 t then map fst (p_idle (nth (t - t0) l empty_tok)) else [].
Proof.
  induction l as [|p l IH]; intros t0 t; cbn [snaps_from].
  - destruct (Nat.leb t0 t); [destruct (t - t0); reflexivity|reflexivity].
  - assert (Htail : idle_of (snaps_from s (S t0) l) t = if Nat.leb t0 t then (if Nat.eqb t0 t then [] else map fst (p_idle (nth (t - t0) (p :: l) empty_tok))) else []).
    { rewrite IH. destruct (Nat.leb_spec t0 t), (Nat.leb_spec (S t0) t), (Nat.eqb_spec t0 t); try lia; try reflexivity.
      replace (t - t0) with (S (t - S t0)) by lia. reflexivity. }
    assert (Hcons : forall sn, sn_token sn = t0 -> sn_idle sn = map fst (p_idle p) ->
              idle_of (sn :: snaps_from s (S t0) l) t = if Nat.leb t0 t then map fst (p_idle (nth (t - t0) (p :: l) empty_tok)) else []).
    { intros sn Ht Hi. rewrite idle_of_cons, Ht, Htail. destruct (Nat.eqb_spec t0 t) as [->|Hn].
      - rewrite Nat.leb_refl, Nat.sub_diag. exact Hi.
      - reflexivity. }
    destruct (p_idle p) eqn:Ei, (p_waiting p), (match p_marker p with Some _ => true | None => false end);
      try (apply Hcons; [reflexivity|cbn [sn_idle]; rewrite ?Ei; reflexivity]).
    rewrite Htail. destruct (Nat.leb t0 t); [|reflexivity]. destruct (Nat.eqb_spec t0 t) as [->|]; [|reflexivity].
    rewrite Nat.sub_diag. cbn [nth]. rewrite Ei. reflexivity.
Qed.

Lemma idle_of_snapshot s t : idle_of (snapshot s) t = map fst (p_idle (get_tok s t)).
Proof.
  unfold snapshot. rewrite idle_of_snaps. destruct t as [|i]; [reflexivity|]. cbn [Nat.leb get_tok]. replace (S i - 1) with i by lia. reflexivity.
Qed.

Lemma snaps_in s : forall l t0 i p, nth_error l i = Some p -> p_idle p <> [] ->
  exists sn, In sn (snaps_from s t0 l) /\ sn_token sn = t0 + i /\ sn_idle sn = map fst (p_idle p).
Proof.
  induction l as [|q l IH]; intros t0 [|i] p H Hne; cbn [nth_error] in H; try discriminate.
  - inversion H; subst. cbn [snaps_from].
    destruct (p_idle p) eqn:Ei; [contradiction|]. eexists. split; [left; reflexivity|]. split; [cbn; lia|reflexivity].
  - destruct (IH (S t0) i p H Hne) as (sn & Hin & Ht & Hi). exists sn. split; [|split; [lia|exact Hi]].
    cbn [snaps_from]. destruct (p_idle q), (p_waiting q), (match p_marker q with Some _ => true | None => false end); try (right; exact Hin); exact Hin.
Qed.

Lemma snapshot_in s t c a : In (c, a) (p_idle (get_tok s t)) ->
  exists sn, In sn (snapshot s) /\ sn_token sn = t /\ sn_idle sn = map fst (p_idle (get_tok s t)).
Proof.
  intros Hin. destruct t as [|i]; [destruct Hin|]. cbn [get_tok] in *.
  destruct (nth_error (toks s) i) as [p|] eqn:Ep.
  - rewrite (nth_error_nth _ _ empty_tok Ep) in *. destruct (snaps_in s (toks s) 1 i p Ep) as (sn & H1 & H2 & H3).
    + intros E. rewrite E in Hin. destruct Hin.
    + exists sn. auto.
  - rewrite nth_overflow in Hin by (apply nth_error_None; exact Ep). destruct Hin.
Qed.

Lemma mem_false c l : mem c l = false <-> ~ In c l.
Proof.
  unfold mem. split.
  - intros H Hin. assert (existsb (Nat.eqb c) l = true) by (apply existsb_exists; exists c; split; [exact Hin|apply Nat.eqb_refl]). congruence.
  - intros H. destruct (existsb (Nat.eqb c) l) eqn:E; [|reflexivity]. apply existsb_exists in E as (x & Hin & Hx).
    apply Nat.eqb_eq in Hx. subst. contradiction.
Qed.

(* ------------------------------------------------------------------ the boundary invariant of the timeout clause *)
Section T.
Variable cfg : config.

Definition OKT (tm st : N) : Prop := forall d, g_timeout cfg = Some d -> (0 < d)%N -> (tm - st <= d)%N.
Definition Lin (s : state) : Prop := forall c, W None s c <= (if Nat.ltb c (List.length (conns s)) then 1 else 0).

Record Inv2 (m : mst) (s : state) : Prop := mkInv2 {
  v_prev : o_snap (m_prev m) = snapshot s;
  v_keys : m_keys m = keys s;
  v_clock : now s = (1000000 + m_time m)%N;
  v_rlen : List.length (pv m) = List.length (reqs s);
  v_clen : List.length (sv m) = List.length (conns s);
  v_tm : forall r tm px, nth_error (pv m) r = Some (tm, px) -> (tm <= m_time m)%N;
  v_st : forall c st, nth_error (sv m) c = Some st -> (st <= m_time m)%N;
  v_E : forall t c a, In (c, a) (p_idle (get_tok s t)) -> exists st, nth_error (sv m) c = Some st /\ (a <= 1000000 + st)%N;
  v_K : forall r tm c st, nth_error (pv m) r = Some (tm, Some c) -> nth_error (sv m) c = Some st -> ~ OKT tm st ->
        dead s c /\ qfree (nth_error (reqs s) r) c;
  v_lin : Lin s;
  v_sorted : IS s
}.

(* what one operation does to the model, as far as the clause is concerned *)
Record StepF (s s' : state) : Prop := mkSF {
  f_len : List.length (conns s) <= List.length (conns s');
  f_W : forall c, W None s' c <= W None s c + newc s s' c;
  f_old : forall t c a, In (c, a) (p_idle (get_tok s' t)) ->
          In (c, a) (p_idle (get_tok s t)) \/ ~ In c (map fst (p_idle (get_tok s t)));
  f_free : forall c, dead s c -> forall r, qfree (nth_error (reqs s) r) c -> qfree (nth_error (reqs s') r) c;
  f_kc : forall r, kstep (nth_error (reqs s) r) (nth_error (reqs s') r)
}.

Lemma W_idle_ge s t c : cnt (map fst (p_idle (get_tok s t))) c <= W None s c.
Proof.
  rewrite W_dec. destruct t as [|i]; [cbn; lia|]. cbn [get_tok].
  destruct (nth_error (toks s) i) as [p|] eqn:Ep.
  - rewrite (nth_error_nth _ _ empty_tok Ep). pose proof (cnt_flat_map_nth tokW c (toks s) i p Ep). unfold tokW in H at 1. lia.
  - rewrite nth_overflow by (apply nth_error_None; exact Ep). cbn. lia.
Qed.

Lemma In_cnt_fst (l : list (nat * N)) c a : In (c, a) l -> 1 <= cnt (map fst l) c.
Proof. intros H. assert (In c (map fst l)) by (apply (in_map fst) in H; exact H). apply cnt_pos_In in H0. lia. Qed.

Lemma Lin_exists s t c a : Lin s -> In (c, a) (p_idle (get_tok s t)) -> c < List.length (conns s).
Proof.
  intros HL Hin. pose proof (In_cnt_fst _ _ _ Hin). pose proof (W_idle_ge s t c). specialize (HL c).
  destruct (Nat.ltb_spec c (List.length (conns s))); lia.
Qed.

Lemma Lin_next s s' : Lin s -> StepF s s' -> Lin s'.
Proof.
  intros HL HF c. pose proof (f_W _ _ HF c) as H. pose proof (f_len _ _ HF) as Hl. specialize (HL c). unfold newc in H.
  destruct (Nat.ltb_spec c (List.length (conns s))), (Nat.ltb_spec c (List.length (conns s'))),
           (Nat.leb_spec (List.length (conns s)) c); cbn [andb] in H; lia.
Qed.

Lemma dead_next s s' c : StepF s s' -> dead s c -> dead s' c.
Proof.
  intros HF [Hd Hlt]. pose proof (f_W _ _ HF c) as H. pose proof (f_len _ _ HF) as Hl. split; [|lia].
  unfold newc in H. destruct (Nat.leb_spec (List.length (conns s)) c); [lia|]. cbn [andb] in H. lia.
Qed.

Lemma OKT_mono tm st st' : (st <= st')%N -> OKT tm st -> OKT tm st'.
Proof. intros H HO d Hd Hp. specialize (HO d Hd Hp). lia. Qed.
Lemma OKT_ge tm st : (tm <= st)%N -> OKT tm st.
Proof. intros H d _ _. lia. Qed.

Lemma nth_error_repeat {A} (x y : A) k i : nth_error (repeat x k) i = Some y -> y = x.
Proof. intros H. apply nth_error_In in H. apply repeat_spec in H. exact H. Qed.

(* the tracker after the op: stamps and meta data *)
Lemma track_views m o ob :
  let m0 := track_op cfg m o ob in let m' := track cfg m o ob in
  pv m' = pv m0 /\ m_keys m' = m_keys m0 /\ m_time m' = m_time m0 /\ m_prev m' = ob /\
  List.length (sv m0) <= List.length (sv m') /\
  (forall c st', nth_error (sv m') c = Some st' ->
     (exists st, nth_error (sv m0) c = Some st /\ (st' = st \/ st' = m_time m0)) \/ (nth_error (sv m0) c = None /\ st' = m_time m0)) /\
  (forall sn c, In sn (o_snap ob) -> In c (sn_idle sn) -> mem c (idle_of (o_snap (m_prev m)) (sn_token sn)) = false ->
                c < List.length (sv m') -> nth_error (sv m') c = Some (m_time m0)) /\
  (forall l1 l2 e, o_events ob = l1 ++ e :: l2 ->
     pv (fold_left track_ev l1 m0) = pv m0 /\ exists k, sv (fold_left track_ev l1 m0) = sv m0 ++ repeat (m_time m0) k).
Proof.
  intros m0 m'. unfold m', track. fold m0.
  set (m1 := fold_left track_ev (o_events ob) m0).
  set (m2 := fold_left (track_offer ob) (o_events ob) m1).
  set (m3 := fold_left (track_idle_stamp (o_snap (m_prev m))) (o_snap ob) m2).
  pose proof (sm_fold (o_events ob) m0) as S1. destruct (sv_fold (o_events ob) m0) as [k Hk]. fold m1 in S1, Hk.
  destruct (sm_offer_fold ob (o_events ob) m1) as [S2 V2]. fold m2 in S2, V2.
  destruct (stamp_snaps (o_snap (m_prev m)) (o_snap ob) m2) as [R3 H3]. fold m3 in R3, H3.
  pose proof (rs_meta _ _ R3) as S3.
  assert (T3 : m_time m2 = m_time m0) by (rewrite (sm_time _ _ S2), (sm_time _ _ S1); reflexivity).
  assert (L3 : List.length (sv m3) = List.length (sv m0) + k) by (rewrite (rs_len _ _ R3), V2, Hk, app_length, repeat_length; reflexivity).
  change (pv (set_m_prev ob (set_m_i (S (m_i m3)) m3))) with (pv m3).
  change (sv (set_m_prev ob (set_m_i (S (m_i m3)) m3))) with (sv m3).
  cbn [m_keys m_time m_prev set_m_prev set_m_i].
  split; [rewrite (sm_pv _ _ S3), (sm_pv _ _ S2), (sm_pv _ _ S1); reflexivity|].
  split; [rewrite (sm_keys _ _ S3), (sm_keys _ _ S2), (sm_keys _ _ S1); reflexivity|].
  split; [rewrite (sm_time _ _ S3); exact T3|]. split; [reflexivity|]. split; [lia|]. split; [|split].
  - intros c st' Hc. destruct (rs_each _ _ R3 c) as [E|E].
    + rewrite E, V2, Hk in Hc. destruct (Nat.ltb_spec c (List.length (sv m0))) as [Hlt|Hge].
      * rewrite nth_error_app1 in Hc by exact Hlt. left. exists st'. auto.
      * rewrite nth_error_app2 in Hc by exact Hge. apply nth_error_repeat in Hc. right. split; [apply nth_error_None; exact Hge|exact Hc].
    + rewrite E, T3 in Hc. inversion Hc; subst. destruct (nth_error (sv m0) c) as [st|] eqn:E0; [left; exists st; auto|right; auto].
  - intros sn c Hsn Hc Hm Hlt. rewrite <- T3. apply (H3 sn c); auto. rewrite <- (rs_len _ _ R3). exact Hlt.
  - intros l1 l2 e El. split; [apply (sm_pv _ _ (sm_fold l1 m0))|apply sv_fold].
Qed.

Lemma IS_le s t c a : IS s -> In (c, a) (p_idle (get_tok s t)) -> (a <= now s)%N.
Proof.
  intros H Hin. destruct (get_tok_ok s t H) as [_ Hf]. rewrite Forall_forall in Hf. apply Hf.
  apply (in_map snd) in Hin. exact Hin.
Qed.

Lemma Inv2_next m s o s' ex :
  Inv2 m s -> StepF s s' -> IS s' ->
  List.length (sv (track cfg m o (observe s'))) = List.length (conns s') ->
  (m_time m <= m_time (track_op cfg m o (observe s')))%N -> now s' = (1000000 + m_time (track_op cfg m o (observe s')))%N ->
  sv (track_op cfg m o (observe s')) = sv m -> m_keys (track_op cfg m o (observe s')) = keys s' ->
  pv (track_op cfg m o (observe s')) = pv m ++ ex -> List.length (pv (track_op cfg m o (observe s'))) = List.length (reqs s') ->
  (forall tm px, In (tm, px) ex -> (tm <= m_time (track_op cfg m o (observe s')))%N) ->
  (forall r tm c st', List.length (pv m) <= r -> nth_error (pv (track_op cfg m o (observe s'))) r = Some (tm, Some c) ->
       nth_error (sv (track cfg m o (observe s'))) c = Some st' -> ~ OKT tm st' -> dead s' c /\ qfree (nth_error (reqs s') r) c) ->
  Inv2 (track cfg m o (observe s')) s'.
Proof.
  intros HI HF HS Hclen Htime Hclock Hsv Hkeys Hpv Hrlen Hex Hnew.
  destruct (track_views m o (observe s')) as (P1 & P2 & P3 & P4 & P5 & P6 & P7 & _).
  set (m0 := track_op cfg m o (observe s')) in *. set (m' := track cfg m o (observe s')) in *.
  pose proof (Lin_next s s' (v_lin _ _ HI) HF) as HL'.
  assert (SVm : forall c st, nth_error (sv m) c = Some st -> exists st', nth_error (sv m') c = Some st' /\ (st <= st')%N).
  { intros c st Hc. assert (Hlt : c < List.length (sv m')) by (pose proof (nth_error_lt _ _ _ Hc); rewrite <- Hsv in H; lia).
    destruct (nth_error_ex _ _ Hlt) as [st' Hst']. exists st'. split; [exact Hst'|].
    destruct (P6 c st' Hst') as [(st0 & H0 & [->| ->])|[H0 _]]; rewrite Hsv in H0.
    - rewrite Hc in H0. inversion H0. lia.
    - pose proof (v_st _ _ HI c st Hc). lia.
    - congruence. }
  assert (SVn : forall c st', nth_error (sv m) c = None -> nth_error (sv m') c = Some st' -> st' = m_time m0).
  { intros c st' Hn Hc. destruct (P6 c st' Hc) as [(st0 & H0 & _)|[_ E]]; [rewrite Hsv in H0; congruence|exact E]. }
  constructor.
  - rewrite P4. reflexivity.
  - rewrite P2. exact Hkeys.
  - rewrite P3. exact Hclock.
  - rewrite P1. exact Hrlen.
  - exact Hclen.
  - intros r tm px Hr. rewrite P1, Hpv in Hr. rewrite P3. apply nth_error_In in Hr. apply in_app_or in Hr as [Hin|Hin]; [|eauto].
    apply In_nth_error in Hin as [r' Hr']. pose proof (v_tm _ _ HI r' tm px Hr'). lia.
  - intros c st' Hc. rewrite P3. destruct (P6 c st' Hc) as [(st0 & H0 & [->| ->])|[_ ->]]; try lia.
    rewrite Hsv in H0. pose proof (v_st _ _ HI c st0 H0). lia.
  - intros t c a Hin.
    assert (Hlt : c < List.length (sv m')) by (rewrite Hclen; eapply Lin_exists; eauto).
    destruct (f_old _ _ HF t c a Hin) as [Hold|Hfresh].
    + destruct (v_E _ _ HI t c a Hold) as (st & Hst & Ha). destruct (SVm c st Hst) as (st' & Hst' & Hle). exists st'. split; [exact Hst'|lia].
    + destruct (snapshot_in s' t c a Hin) as (sn & Hsn & Htok & Hidle).
      exists (m_time m0). split.
      * apply (P7 sn c); auto.
        -- rewrite Hidle. apply (in_map fst) in Hin. exact Hin.
        -- rewrite (v_prev _ _ HI), Htok, idle_of_snapshot. apply mem_false. exact Hfresh.
      * pose proof (IS_le s' t c a HS Hin). lia.
  - intros r tm c st' Hr Hc Hn. rewrite P1 in Hr. destruct (Nat.ltb_spec r (List.length (pv m))) as [Hlt|Hge].
    + rewrite Hpv, nth_error_app1 in Hr by exact Hlt.
      destruct (nth_error (sv m) c) as [st|] eqn:Ec.
      * destruct (SVm c st Ec) as (st2 & Hst2 & Hle). rewrite Hc in Hst2. inversion Hst2; subst st2.
        assert (Hn0 : ~ OKT tm st) by (intros HO; apply Hn; eapply OKT_mono; eauto).
        destruct (v_K _ _ HI r tm c st Hr Ec Hn0) as [Hd Hq]. split; [eapply dead_next; eauto|eapply f_free; eauto].
      * exfalso. apply Hn. rewrite (SVn c st' Ec Hc). apply OKT_ge. pose proof (v_tm _ _ HI r tm (Some c) Hr). lia.
    + eapply Hnew; eauto.
  - exact HL'.
  - exact HS.
Qed.

Lemma sv_mono m s o ob : Inv2 m s -> sv (track_op cfg m o ob) = sv m -> (m_time m <= m_time (track_op cfg m o ob))%N ->
  forall c st, nth_error (sv m) c = Some st -> exists st', nth_error (sv (track cfg m o ob)) c = Some st' /\ (st <= st')%N.
Proof.
  intros HI Hsv Htime c st Hc. destruct (track_views m o ob) as (_ & _ & _ & _ & P5 & P6 & _).
  assert (Hlt : c < List.length (sv (track cfg m o ob))) by (pose proof (nth_error_lt _ _ _ Hc); rewrite <- Hsv in H; lia).
  destruct (nth_error_ex _ _ Hlt) as [st' Hst']. exists st'. split; [exact Hst'|].
  destruct (P6 c st' Hst') as [(st0 & H0 & [->| ->])|[H0 _]]; rewrite Hsv in H0.
  - rewrite Hc in H0. inversion H0. lia.
  - pose proof (v_st _ _ HI c st Hc). lia.
  - congruence.
Qed.

(* ------------------------------------------------------------------ the model facts, per kind of operation *)
Lemma F2_nth (la lb : list (list (nat * N))) :
  Forall2 (fun l0 l1 : list (nat * N) => exists nw, l1 = l0 ++ nw) la lb -> forall i, exists nw, nth i lb [] = nth i la [] ++ nw.
Proof.
  induction 1 as [|x y la lb Hxy H IH]; intros [|i]; cbn [nth]; try (exists []; reflexivity); auto.
Qed.

Lemma PX_get s s' t : PX s s' -> exists nw, p_idle (get_tok s' t) = p_idle (get_tok s t) ++ nw.
Proof.
  intros H. destruct t as [|i]; [exists []; reflexivity|]. cbn [get_tok]. destruct (F2_nth _ _ H i) as [nw Hn]. exists nw.
  change (@nil (nat * N)) with (p_idle empty_tok) in Hn. rewrite !map_nth in Hn. exact Hn.
Qed.

Lemma StepF_plain s o : plainop o -> Lin s -> StepF s (step cfg s o).
Proof.
  intros Hp HL. pose proof (fun dc => step_J cfg s o dc Hp) as HJ.
  assert (HW : forall c, W None (step cfg s o) c <= W None s c + newc s (step cfg s o) c).
  { intros c. pose proof (j_cnt _ _ _ _ _ (HJ 0) c) as H. rewrite cnt_nil in H.
    change (W None (set_out [] s) c) with (W None s c) in H. change (newc (set_out [] s) (step cfg s o) c) with (newc s (step cfg s o) c) in H. lia. }
  assert (Hlen : List.length (conns s) <= List.length (conns (step cfg s o))) by (apply (j_len _ _ _ _ _ (HJ 0))).
  constructor; auto.
  - intros t c a Hin. destruct (PX_get (set_out [] s) (step cfg s o) t (j_px _ _ _ _ _ (HJ 0))) as [nw Hnw].
    change (get_tok (set_out [] s) t) with (get_tok s t) in Hnw. rewrite Hnw in Hin. apply in_app_or in Hin as [Hin|Hin]; [left; exact Hin|].
    right. intros Hc. apply cnt_pos_In in Hc. pose proof (In_cnt_fst _ _ _ Hin) as H1.
    pose proof (W_idle_ge (step cfg s o) t c) as H2. rewrite Hnw, map_app, cnt_app in H2.
    specialize (HW c). specialize (HL c). unfold newc in HW.
    destruct (Nat.ltb_spec c (List.length (conns s))), (Nat.leb_spec (List.length (conns s)) c),
             (Nat.ltb_spec c (List.length (conns (step cfg s o)))); cbn [andb] in HW; lia.
  - intros c Hd r Hq. apply (j_free _ _ _ _ _ (HJ c) Hd r ltac:(discriminate) Hq).
  - intros r. apply (j_kc _ _ _ _ _ (HJ 0) r). discriminate.
Qed.

Lemma plain_noHand s o c r : plainop o -> dead s c -> qfree (nth_error (reqs s) r) c -> noHand r c (out (step cfg s o)).
Proof. intros Hp Hd Hq. apply (j_hand _ _ _ _ _ (step_J cfg s o c Hp) Hd r Hq). Qed.

Lemma StepF_tick s dt : StepF s (step cfg s (Tick dt)).
Proof.
  constructor; cbn [step]; auto.
  - intros c. change (W None (set_now (now (set_out [] s) + dt) (set_out [] s)) c) with (W None s c). lia.
  - intros r. apply kstep_refl.
Qed.

Lemma mtok_out u s : mtok cfg u (set_out [] s) = mtok cfg u s.
Proof. unfold mtok, key_insert. cbn [keys set_out]. destruct (nth u (g_uris cfg) None); [|reflexivity]. destruct (g_pool cfg); [|reflexivity]. destruct (find_key k (keys s) 1); reflexivity. Qed.
Lemma mkeys_out u s : mkeys cfg u (set_out [] s) = mkeys cfg u s.
Proof. unfold mkeys, key_insert. cbn [keys set_out]. destruct (nth u (g_uris cfg) None); [|reflexivity]. destruct (g_pool cfg); [|reflexivity]. destruct (find_key k (keys s) 1); reflexivity. Qed.

Lemma found_in_pre (pre : list (nat * N)) found c : 
  (forall c0, found = Some c0 -> exists dis a, pre = dis ++ [(c0, a)] /\ True) -> cnt (oconn found) c <= cnt (map fst pre) c.
Proof.
  intros H. destruct found as [c0|]; cbn [oconn]; [|rewrite cnt_nil; lia].
  destruct (H c0 eq_refl) as (dis & a & -> & _). rewrite map_app, cnt_app. cbn [map fst]. lia.
Qed.

Lemma StepF_issue s u p pre found qn : Lin s -> IssueSpec cfg u (set_out [] s) (step cfg s (Issue u p)) pre found qn ->
  StepF s (step cfg s (Issue u p)).
Proof.
  intros HL HS. pose proof (is_W _ _ _ _ _ _ _ HS) as HW. pose proof (is_idle _ _ _ _ _ _ _ HS) as Hid.
  assert (Hfp : forall c, cnt (oconn found) c <= cnt (map fst pre) c).
  { intros c. apply found_in_pre. intros c0 E. destruct (is_found _ _ _ _ _ _ _ HS c0 E) as (dis & a & Hp & _). eauto. }
  constructor.
  - rewrite (is_len _ _ _ _ _ _ _ HS). cbn [conns set_out]. lia.
  - intros c. specialize (HW c). specialize (Hfp c). change (W None (set_out [] s) c) with (W None s c) in HW. lia.
  - intros t c a Hin. left. specialize (Hid t). change (get_tok (set_out [] s) t) with (get_tok s t) in Hid. rewrite Hid.
    apply in_or_app. left. exact Hin.
  - intros c [Hd Hlt] r Hq. rewrite (is_reqs _ _ _ _ _ _ _ HS). cbn [reqs set_out]. rewrite nth_error_snoc.
    destruct (Nat.ltb r (List.length (reqs s))); [exact Hq|]. destruct (Nat.eqb r (List.length (reqs s))); [|exact I].
    apply (is_qn _ _ _ _ _ _ _ HS). intros E. specialize (HW c). specialize (Hfp c). rewrite E in Hfp. cbn [oconn] in Hfp.
    rewrite cnt_cons in Hfp. destruct (Nat.eq_dec c c); [|congruence].
    specialize (Hid (mtok cfg u (set_out [] s))). rewrite Nat.eqb_refl in Hid.
    pose proof (W_idle_ge s (mtok cfg u (set_out [] s)) c) as H2. change (get_tok (set_out [] s)) with (get_tok s) in Hid.
    rewrite Hid, map_app, cnt_app, map_rev, cnt_rev in H2. lia.
  - intros r. rewrite (is_reqs _ _ _ _ _ _ _ HS). cbn [reqs set_out]. rewrite nth_error_snoc.
    destruct (Nat.ltb_spec r (List.length (reqs s))) as [Hlt|Hge]; [apply kstep_refl|].
    assert (E : nth_error (reqs s) r = None) by (apply nth_error_None; exact Hge). rewrite E.
    split; [intros c (ck & E' & _); discriminate E'|intros []].
Qed.

(* ------------------------------------------------------------------ the tracker's reading of the op *)
Lemma top_plain m o ob : plainop o -> same_meta m (track_op cfg m o ob) /\ sv (track_op cfg m o ob) = sv m.
Proof.
  intros Hp. destruct o; try contradiction; cbn [track_op]; try (split; [apply sm_refl|reflexivity]).
  - destruct (nth_error (m_reqs m) r) as [x|]; [|split; [apply sm_refl|reflexivity]].
    assert (Hri : forall mb, same_meta m mb -> sv mb = sv m ->
              same_meta m (ri_upd (fun y => set_ri_pend false (set_ri_stat SCancelled
                 match ri_stat y, ri_dial y with SLive, DsFlying => set_ri_aband true y | _, _ => y end)) r mb)
              /\ sv (ri_upd (fun y => set_ri_pend false (set_ri_stat SCancelled
                 match ri_stat y, ri_dial y with SLive, DsFlying => set_ri_aband true y | _, _ => y end)) r mb) = sv m).
    { intros mb Hm Hs. split; [eapply sm_trans; [exact Hm|]; apply sm_ri_upd; intros y; destruct (ri_stat y), (ri_dial y); auto|exact Hs]. }
    destruct (ri_stat x); try (split; [apply sm_refl|reflexivity]); try (apply Hri; [apply sm_refl|reflexivity]).
    destruct (ri_popx x) as [c|]; [|apply Hri; [apply sm_refl|reflexivity]].
    destruct (nth_error (m_conns m) c) as [y|]; [|apply Hri; [apply sm_refl|reflexivity]].
    destruct (ci_share y); apply Hri; try apply sm_refl; try reflexivity; [apply sm_ci_upd|apply sv_ci_upd_id; reflexivity].
  - destruct (holder_conn m r); [|split; [apply sm_refl|reflexivity]]. split; [apply sm_ci_upd|apply sv_ci_upd_id; reflexivity].
  - split; [apply sm_ri_upd; intros y; destruct (ri_dial y), (ri_resolved y); auto|reflexivity].
  - split; [apply sm_ci_upd|apply sv_ci_upd_id; reflexivity].
Qed.

Definition trk_keys (m : mst) (u : nat) : list key :=
  match nth u (g_uris cfg) None with
  | Some k' => if g_pool cfg then match find_key k' (m_keys m) 1 with Some _ => m_keys m | None => m_keys m ++ [k'] end else m_keys m
  | None => m_keys m
  end.
Definition trk_tok (m : mst) (u : nat) : nat :=
  match nth u (g_uris cfg) None with Some k' => if g_pool cfg then tok_of (trk_keys m u) k' else 0 | None => 0 end.
Definition trk_popx (m : mst) (u : nat) (ob : opobs) : option nat :=
  match skipn (List.length (idle_of (o_snap ob) (trk_tok m u))) (idle_of (o_snap (m_prev m)) (trk_tok m u)) with c :: _ => Some c | [] => None end.

Lemma top_issue m u p ob :
  pv (track_op cfg m (Issue u p) ob) = pv m ++ [(m_time m, trk_popx m u ob)] /\
  m_keys (track_op cfg m (Issue u p) ob) = trk_keys m u /\ m_time (track_op cfg m (Issue u p) ob) = m_time m /\
  sv (track_op cfg m (Issue u p) ob) = sv m.
Proof.
  cbn [track_op]. cbv zeta. split; [|split; [|split]]; try reflexivity.
  unfold pv. cbn [m_reqs set_m_keys set_m_reqs]. rewrite map_app. reflexivity.
Qed.

Lemma key_eqb_refl k : key_eqb k k = true.
Proof. unfold key_eqb, eq_ci. rewrite !String.eqb_refl. reflexivity. Qed.
Lemma find_key_snoc k : forall l i, find_key k l i = None -> find_key k (l ++ [k]) i = Some (i + List.length l).
Proof.
  induction l as [|a l IH]; intros i H; cbn [find_key app List.length] in *.
  - rewrite key_eqb_refl. f_equal. lia.
  - destruct (key_eqb k a); [discriminate|]. rewrite (IH (S i) H). f_equal. lia.
Qed.

Lemma tok_agree m s u : m_keys m = keys s -> trk_tok m u = mtok cfg u s /\ trk_keys m u = mkeys cfg u s.
Proof.
  intros Hk. unfold trk_tok, trk_keys, mtok, mkeys, key_insert. rewrite Hk.
  destruct (nth u (g_uris cfg) None) as [k|]; [|auto]. destruct (g_pool cfg); [|auto].
  unfold tok_of. destruct (find_key k (keys s) 1) as [t|] eqn:E; cbn [fst snd keys set_toks set_keys].
  - rewrite E. auto.
  - rewrite (find_key_snoc k (keys s) 1 E). auto.
Qed.

Lemma skipn_app_len {A} (l1 l2 : list A) : skipn (List.length l1) (l1 ++ l2) = l2.
Proof. induction l1; cbn; auto. Qed.

(* ------------------------------------------------------------------ one operation *)
Lemma clen_of_Inv m s : Inv cfg m s -> List.length (sv m) = List.length (conns s).
Proof. intros [_ HR]. pose proof (rm_len _ _ _ HR) as H. unfold sv, cv, copen in *. rewrite !map_length in *. exact H. Qed.

Lemma step_plain m s o : plainop o -> Inv2 m s ->
  Inv cfg (track cfg m o (observe (step cfg s o))) (step cfg s o) ->
  Inv2 (track cfg m o (observe (step cfg s o))) (step cfg s o)
  /\ evs_ok (chk2 cfg) (track_op cfg m o (observe (step cfg s o))) (rev (out (step cfg s o))) = true.
Proof.
  intros Hp HI HI'. destruct (top_plain m o (observe (step cfg s o)) Hp) as [SM SV].
  pose proof (step_J cfg s o 0 Hp) as HJ0.
  split.
  - apply (Inv2_next m s o (step cfg s o) []); auto.
    + apply StepF_plain; [exact Hp|apply (v_lin _ _ HI)].
    + apply IS_step, (v_sorted _ _ HI).
    + apply clen_of_Inv, HI'.
    + rewrite (sm_time _ _ SM). lia.
    + rewrite (sm_time _ _ SM), (j_now _ _ _ _ _ HJ0). apply (v_clock _ _ HI).
    + rewrite (sm_keys _ _ SM), (v_keys _ _ HI), (j_keys _ _ _ _ _ HJ0). reflexivity.
    + rewrite (sm_pv _ _ SM), app_nil_r. reflexivity.
    + rewrite (sm_pv _ _ SM), (v_rlen _ _ HI), (j_rlen _ _ _ _ _ HJ0). reflexivity.
    + intros tm px [].
    + intros r tm c st' Hge Hr. rewrite (sm_pv _ _ SM) in Hr. apply nth_error_lt in Hr. lia.
  - apply evs_ok_all. intros l1 e l2 El. destruct e; try reflexivity.
    destruct (track_views m o (observe (step cfg s o))) as (_ & _ & _ & _ & _ & _ & _ & P8).
    destruct (P8 l1 l2 _ El) as [Hpv [k Hsv]].
    apply chk2_view. intros st tm d Hst Hpr Hd Hpos. rewrite Hpv, (sm_pv _ _ SM) in Hpr. rewrite Hsv, SV in Hst.
    destruct (Nat.ltb_spec c (List.length (sv m))) as [Hlt|Hge].
    + rewrite nth_error_app1 in Hst by exact Hlt.
      destruct (N.le_gt_cases (tm - st) d) as [Hle|Hgt]; [exact Hle|exfalso].
      assert (Hn : ~ OKT tm st) by (intros HO; specialize (HO d Hd Hpos); lia).
      destruct (v_K _ _ HI r tm c st Hpr Hst Hn) as [Hdd Hq].
      apply (plain_noHand s o c r Hp Hdd Hq reused open ready holders).
      apply (proj2 (in_rev _ _)). rewrite El. apply in_elt.
    + rewrite nth_error_app2 in Hst by exact Hge. apply nth_error_repeat in Hst. subst st.
      rewrite (sm_time _ _ SM). pose proof (v_tm _ _ HI r tm (Some c) Hpr). lia.
Qed.

Lemma step_tick m s dt : Inv2 m s ->
  Inv cfg (track cfg m (Tick dt) (observe (step cfg s (Tick dt)))) (step cfg s (Tick dt)) ->
  Inv2 (track cfg m (Tick dt) (observe (step cfg s (Tick dt)))) (step cfg s (Tick dt))
  /\ evs_ok (chk2 cfg) (track_op cfg m (Tick dt) (observe (step cfg s (Tick dt)))) (rev (out (step cfg s (Tick dt)))) = true.
Proof.
  intros HI HI'. split; [|reflexivity].
  apply (Inv2_next m s (Tick dt) (step cfg s (Tick dt)) []); auto.
  - apply StepF_tick.
  - apply IS_step, (v_sorted _ _ HI).
  - apply clen_of_Inv, HI'.
  - cbn [track_op m_time set_m_time]. lia.
  - cbn [track_op m_time set_m_time step now set_now set_out]. rewrite (v_clock _ _ HI). lia.
  - apply (v_keys _ _ HI).
  - cbn [track_op]. change (pv (set_m_time (m_time m + dt) m)) with (pv m). rewrite app_nil_r. reflexivity.
  - apply (v_rlen _ _ HI).
  - intros tm px [].
  - intros r tm c st' Hge Hr. change (pv (track_op cfg m (Tick dt) (observe (step cfg s (Tick dt))))) with (pv m) in Hr.
    apply nth_error_lt in Hr. lia.
Qed.

Lemma step_issue m s u p : Inv2 m s ->
  Inv cfg (track cfg m (Issue u p) (observe (step cfg s (Issue u p)))) (step cfg s (Issue u p)) ->
  Inv2 (track cfg m (Issue u p) (observe (step cfg s (Issue u p)))) (step cfg s (Issue u p))
  /\ evs_ok (chk2 cfg) (track_op cfg m (Issue u p) (observe (step cfg s (Issue u p)))) (rev (out (step cfg s (Issue u p)))) = true.
Proof.
  intros HI HI'.
  destruct (issue_spec cfg u p (set_out [] s) eq_refl) as (pre & found & qn & HS).
  change (do_issue cfg u p (set_out [] s)) with (step cfg s (Issue u p)) in HS.
  set (s' := step cfg s (Issue u p)) in *.
  destruct (top_issue m u p (observe s')) as (Tpv & Tkeys & Ttime & Tsv).
  destruct (tok_agree m s u (v_keys _ _ HI)) as [Etok Ekeys].
  pose proof (StepF_issue s u p pre found qn (v_lin _ _ HI) HS) as HF.
  pose proof (is_idle _ _ _ _ _ _ _ HS (mtok cfg u s)) as Hid. rewrite mtok_out, Nat.eqb_refl in Hid.
  change (get_tok (set_out [] s)) with (get_tok s) in Hid.
  split.
  - apply (Inv2_next m s (Issue u p) s' [(m_time m, trk_popx m u (observe s'))]); auto.
    + apply IS_step, (v_sorted _ _ HI).
    + apply clen_of_Inv, HI'.
    + rewrite Ttime. lia.
    + rewrite Ttime, (is_now _ _ _ _ _ _ _ HS). apply (v_clock _ _ HI).
    + rewrite Tkeys, Ekeys, (is_keys _ _ _ _ _ _ _ HS), mkeys_out. reflexivity.
    + rewrite Tpv, app_length, (is_reqs _ _ _ _ _ _ _ HS), app_length, (v_rlen _ _ HI). reflexivity.
    + intros tm px [E|[]]. inversion E; subst. rewrite Ttime. lia.
    + intros r tm c st' Hge Hr Hst' Hn. rewrite Tpv, nth_error_snoc in Hr.
      destruct (Nat.ltb_spec r (List.length (pv m))); [lia|].
      destruct (Nat.eqb_spec r (List.length (pv m))) as [->|]; [|discriminate]. inversion Hr as [[Etm Epx]]. subst tm.
      (* the tracker's popx is the oldest removed connection *)
      unfold trk_popx in Epx. rewrite (v_prev _ _ HI), Etok in Epx.
      change (o_snap (observe s')) with (snapshot s') in Epx. rewrite !idle_of_snapshot, Hid, map_app, map_length in Epx.
      rewrite <- (map_length fst (p_idle (get_tok s' (mtok cfg u s)))), skipn_app_len in Epx.
      destruct (rev pre) as [|[c0 a0] rp] eqn:Erp; cbn [map fst] in Epx; [discriminate|]. inversion Epx; subst c0.
      assert (Hpre : pre = rev rp ++ [(c, a0)]) by (rewrite <- (rev_involutive pre), Erp; reflexivity).
      assert (Hin : In (c, a0) (p_idle (get_tok s (mtok cfg u s)))) by (rewrite Hid; apply in_or_app; right; left; reflexivity).
      destruct found as [cf|] eqn:Ef.
      * exfalso. destruct (is_found _ _ _ _ _ _ _ HS cf eq_refl) as (dis & a & Hp2 & Hthr).
        rewrite Hpre in Hp2. apply app_inj_tail in Hp2 as [_ E2]. inversion E2; subst cf a0.
        destruct (v_E _ _ HI _ c a Hin) as (st & Hst & Ha).
        destruct (sv_mono m s (Issue u p) (observe s') HI Tsv ltac:(rewrite Ttime; lia) c st Hst) as (st2 & Hst2 & Hle).
         rewrite Hst' in Hst2. inversion Hst2; subst st2.
        apply Hn. intros d Hd Hpos. pose proof (v_clock _ _ HI) as Hck. cbn [now set_out] in Hthr.
        destruct (N.le_gt_cases d (now s)) as [Hdl|Hdg].
        -- specialize (Hthr d Hd (conj Hpos Hdl)). lia.
        -- lia.
      * assert (Hc1 : 1 <= cnt (map fst pre) c) by (rewrite Hpre, map_app, cnt_app; cbn [map fst]; rewrite cnt_cons; destruct (Nat.eq_dec c c); [lia|congruence]).
        pose proof (is_W _ _ _ _ _ _ _ HS c) as HW. cbn [oconn] in HW. rewrite cnt_nil in HW.
        change (W None (set_out [] s) c) with (W None s c) in HW.
        pose proof (Lin_exists s _ c a0 (v_lin _ _ HI) Hin) as Hex. pose proof (v_lin _ _ HI c) as HLc.
        destruct (Nat.ltb_spec c (List.length (conns s))); [|lia].
        split.
        -- split; [lia|]. rewrite (is_len _ _ _ _ _ _ _ HS). exact Hex.
        -- rewrite (v_rlen _ _ HI), (is_reqs _ _ _ _ _ _ _ HS). cbn [reqs set_out].
           rewrite nth_error_app2 by lia. rewrite Nat.sub_diag. cbn [nth_error].
           apply (is_qn _ _ _ _ _ _ _ HS). discriminate.
  - apply evs_ok_all. intros l1 e l2 El.
    assert (Hin : In e (out s')) by (apply (proj2 (in_rev _ _)); rewrite El; apply in_elt).
    pose proof (is_od _ _ _ _ _ _ _ HS) as Hod. unfold od in Hod. rewrite Forall_forall in Hod. specialize (Hod e Hin).
    destruct e; try contradiction; reflexivity.
Qed.


(* ------------------------------------------------------------------ the hand-back half of the first clause *)
(* a connection without any handle that no checkout stores: it can never be handed out again *)
Definition FullDead (s : state) (c : nat) : Prop := dead s c /\ forall r, qfree (nth_error (reqs s) r) c.
Definition kc_is (s : state) (r c : nat) : Prop := kcq (nth_error (reqs s) r) c.
Definition shv (m : mst) : list bool := map ci_share (m_conns m).

(* [w_B]: a connection whose tracker record is "closed before its last hand-back" (possible only by the
   Cancel stamp of a dropped checkout) is dead;  [w_P]: a live request still has the non-multiplexed
   connection its Issue took out of the idle list (unless that connection is dead);  [w_I]: the handle
   accounting of pool/ProofsC02.v (a non-multiplexed connection occurs at most once over idle lists, channel
   slots and popped connections) *)
Record Inv4 (m : mst) (s : state) : Prop := mkInv4 {
  w_I : FramesC02.I None [] m s;
  w_B : forall c v cl, nth_error (cv m) c = Some v -> v_closed v = Some cl -> cl < v_back v -> FullDead s c;
  w_Pex : forall r tm c, nth_error (pv m) r = Some (tm, Some c) -> c < List.length (cv m);
  w_P : forall r tm c w, nth_error (pv m) r = Some (tm, Some c) -> nth_error (rv m) r = Some w -> v_stat w = SLive ->
        nth_error (shv m) c = Some false -> FullDead s c \/ kc_is s r c
}.

Lemma FullDead_next s s' c : StepF s s' -> FullDead s c -> FullDead s' c.
Proof. intros HF [Hd Hq]. split; [eapply dead_next; eauto|]. intros r. eapply f_free; eauto. Qed.

(* consequences of the accounting of ProofsC02 *)
Lemma cnt_two {A} (f : A -> list nat) c : forall l r r' q q', nth_error l r = Some q -> nth_error l r' = Some q' -> r <> r' ->
  cnt (f q) c + cnt (f q') c <= cnt (flat_map f l) c.
Proof.
  induction l as [|a l IH]; intros [|r] [|r'] q q' H H' Hn; cbn [nth_error flat_map] in *; try discriminate; try congruence.
  - inversion H; subst. rewrite cnt_app. pose proof (cnt_flat_map_nth f c l r' q' H'). lia.
  - inversion H'; subst. rewrite cnt_app. pose proof (cnt_flat_map_nth f c l r q H). lia.
  - rewrite cnt_app. assert (r <> r') by congruence. pose proof (IH r r' q q' H H' H0). lia.
Qed.

Lemma LA_le m s c : FramesC02.I None [] m s -> share_of s c = false ->
  cnt (flat_map FramesC02.tokA (toks s)) c + cnt (flat_map FramesC02.reqA (reqs s)) c <= 1.
Proof.
  intros HI Hs. pose proof (FramesC02.I_lin _ _ _ _ HI c Hs) as H. unfold FramesC02.LA, FramesC02.reqs_x in H.
  rewrite FramesC02.cnt_app in H. unfold FramesC02.cnt in H. unfold cnt. lia.
Qed.

Lemma reqA_free q c : cnt (FramesC02.reqA q) c = 0 -> qfree (Some q) c.
Proof.
  destruct q as [|ck| | |]; cbn [qfree]; auto. unfold FramesC02.reqA, FramesC02.ck_conns. rewrite cnt_app. intros H.
  split.
  - intros E. rewrite E in H. cbn [FramesC02.oconn] in H. rewrite cnt_cons in H. destruct (Nat.eq_dec c c); [lia|congruence].
  - intros t E. rewrite E in H. cbn [FramesC02.oslot fst] in H. rewrite cnt_cons in H. destruct (Nat.eq_dec c c); [lia|congruence].
Qed.

Lemma qfree_nth s r c : (forall q, nth_error (reqs s) r = Some q -> cnt (FramesC02.reqA q) c = 0) -> qfree (nth_error (reqs s) r) c.
Proof. intros H. destruct (nth_error (reqs s) r) as [q|] eqn:E; [|exact I]. apply reqA_free. apply H. reflexivity. Qed.

Lemma I_only m s r ck c : FramesC02.I None [] m s -> share_of s c = false ->
  nth_error (reqs s) r = Some (RCheckout ck) -> k_conn ck = Some c ->
  (forall r', r' <> r -> qfree (nth_error (reqs s) r') c) /\ (forall t, k_slot ck <> Some (c, t)).
Proof.
  intros HI Hs Hq Hk. pose proof (LA_le m s c HI Hs) as HL.
  assert (H1 : 1 <= cnt (FramesC02.oconn (k_conn ck)) c) by (rewrite Hk; cbn [FramesC02.oconn]; rewrite cnt_cons; destruct (Nat.eq_dec c c); [lia|congruence]).
  split.
  - intros r' Hn. apply qfree_nth. intros q' Hq'.
    pose proof (cnt_two FramesC02.reqA c (reqs s) r r' _ _ Hq Hq' ltac:(congruence)) as H2.
    cbn [FramesC02.reqA] in H2. unfold FramesC02.ck_conns in H2. rewrite cnt_app in H2. lia.
  - intros t E. pose proof (cnt_flat_map_nth FramesC02.reqA c (reqs s) r _ Hq) as H2.
    cbn [FramesC02.reqA] in H2. unfold FramesC02.ck_conns in H2. rewrite cnt_app, E in H2. cbn [FramesC02.oslot fst] in H2.
    rewrite cnt_cons in H2. destruct (Nat.eq_dec c c); [lia|congruence].
Qed.

Lemma I_idle_free m s t c a : FramesC02.I None [] m s -> share_of s c = false -> In (c, a) (p_idle (get_tok s t)) ->
  forall r, qfree (nth_error (reqs s) r) c.
Proof.
  intros HI Hs Hin r. pose proof (LA_le m s c HI Hs) as HL.
  assert (H1 : 1 <= cnt (flat_map FramesC02.tokA (toks s)) c).
  { pose proof (In_cnt_fst _ _ _ Hin) as H. destruct t as [|i]; [destruct Hin|]. cbn [get_tok] in *.
    destruct (nth_error (toks s) i) as [p|] eqn:Ep.
    - rewrite (nth_error_nth _ _ empty_tok Ep) in H. pose proof (cnt_flat_map_nth FramesC02.tokA c (toks s) i p Ep) as H2.
      unfold FramesC02.tokA in H2 at 1. lia.
    - rewrite nth_overflow in Hin by (apply nth_error_None; exact Ep). destruct Hin. }
  apply qfree_nth. intros q Hq. pose proof (cnt_flat_map_nth FramesC02.reqA c (reqs s) r q Hq). lia.
Qed.

Lemma share_of_trk m s c : FramesC02.I None [] m s -> nth_error (shv m) c = Some false -> c < List.length (conns s) -> share_of s c = false.
Proof.
  intros HI Hs Hlt. unfold shv in Hs. rewrite nth_error_map' in Hs. destruct (nth_error (m_conns m) c) as [x|] eqn:Ex; [|discriminate].
  cbn [option_map] in Hs. assert (Hsh : ci_share x = false) by congruence. clear Hs.
  unfold share_of. destruct (get_conn s c) as [cn|] eqn:Ec; [|reflexivity].
  rewrite <- (FramesC02.I_share _ _ _ _ HI c x cn Ex Ec). exact Hsh.
Qed.

(* tracker views: sharing flags, liveness *)
Lemma shv_ci_upd_id f c m : (forall x, ci_share (f x) = ci_share x) -> shv (ci_upd f c m) = shv m.
Proof. intros H. unfold shv, ci_upd. cbn [m_conns set_m_conns]. apply map_upd_nth_id. exact H. Qed.
Lemma shv_track_ev m e : exists l, shv (track_ev m e) = shv m ++ l.
Proof.
  destruct e; cbn [track_ev]; try (exists []; rewrite app_nil_r; reflexivity).
  - eexists. unfold shv. cbn [m_conns set_m_conns ri_upd set_m_reqs]. rewrite map_app. reflexivity.
  - exists []. rewrite app_nil_r. rewrite shv_ci_upd_id by reflexivity. reflexivity.
  - exists []. rewrite app_nil_r. destruct x as [|[]]; reflexivity.
  - exists []. rewrite app_nil_r. apply shv_ci_upd_id. reflexivity.
  - exists []. rewrite app_nil_r. apply shv_ci_upd_id. reflexivity.
  - exists []. rewrite app_nil_r. destruct ok; [apply shv_ci_upd_id|]; reflexivity.
Qed.
Lemma shv_fold l : forall m, exists k, shv (fold_left track_ev l m) = shv m ++ k.
Proof.
  induction l as [|e l IH]; intros m; cbn [fold_left]; [exists []; rewrite app_nil_r; reflexivity|].
  destruct (IH (track_ev m e)) as [k Hk]. destruct (shv_track_ev m e) as [k' Hk']. exists (k' ++ k). rewrite Hk, Hk', app_assoc. reflexivity.
Qed.
Lemma shv_offer_fold ob l : forall m, shv (fold_left (track_offer ob) l m) = shv m.
Proof.
  induction l as [|e l IH]; intros m; cbn [fold_left]; [reflexivity|]. rewrite IH.
  destruct e; try reflexivity. destruct ok; try reflexivity. cbn [track_offer]. destruct (nth_error (m_conns m) c); [|reflexivity].
  apply shv_ci_upd_id. reflexivity.
Qed.
Lemma shv_stamp prev sn : forall m, shv (track_idle_stamp prev m sn) = shv m.
Proof.
  unfold track_idle_stamp. induction (sn_idle sn) as [|c l IH]; intros m; cbn [fold_left]; [reflexivity|].
  destruct (mem c (idle_of prev (sn_token sn))); [apply IH|]. rewrite IH. apply shv_ci_upd_id. reflexivity.
Qed.
Lemma shv_stamp_fold prev l : forall m, shv (fold_left (track_idle_stamp prev) l m) = shv m.
Proof. induction l as [|sn l IH]; intros m; cbn [fold_left]; [reflexivity|]. rewrite IH. apply shv_stamp. Qed.
Lemma shv_track_op m o ob : shv (track_op cfg m o ob) = shv m.
Proof.
  destruct o; cbn [track_op]; try reflexivity.
  - destruct (nth_error (m_reqs m) r) as [x|]; [|reflexivity]. destruct (ri_stat x); try reflexivity.
    destruct (ri_popx x) as [c|]; [|reflexivity]. destruct (nth_error (m_conns m) c) as [y|]; [|reflexivity].
    destruct (ci_share y); [reflexivity|]. change (shv (ci_upd (set_ci_back (m_i m)) c m) = shv m). apply shv_ci_upd_id. reflexivity.
  - destruct (holder_conn m r); [|reflexivity]. apply shv_ci_upd_id. reflexivity.
  - apply shv_ci_upd_id. reflexivity.
Qed.
Lemma shv_track m o ob : exists k, shv (track cfg m o ob) = shv m ++ k.
Proof.
  destruct (shv_fold (o_events ob) (track_op cfg m o ob)) as [k Hk]. exists k.
  assert (E : shv (track cfg m o ob) = shv (fold_left (track_idle_stamp (o_snap (m_prev m))) (o_snap ob)
                 (fold_left (track_offer ob) (o_events ob) (fold_left track_ev (o_events ob) (track_op cfg m o ob))))) by reflexivity.
  rewrite E, shv_stamp_fold, shv_offer_fold, Hk, shv_track_op. reflexivity.
Qed.

Lemma live_ev e l r w : nth_error (rv_ev e l) r = Some w -> v_stat w = SLive -> exists w0, nth_error l r = Some w0 /\ v_stat w0 = SLive.
Proof.
  destruct e; cbn [rv_ev]; intros H Hs; try (exists w; auto; fail).
  - rewrite nth_error_upd_nth in H. destruct (Nat.eqb r0 r); [|exists w; auto].
    destruct (nth_error l r); [|discriminate]. inversion H; subst. discriminate.
  - rewrite nth_error_upd_nth in H. destruct (Nat.eqb r0 r); [|exists w; auto].
    destruct (nth_error l r); [|discriminate]. inversion H; subst. discriminate.
Qed.
Lemma live_fold l : forall m r w, nth_error (rv (fold_left track_ev l m)) r = Some w -> v_stat w = SLive ->
  exists w0, nth_error (rv m) r = Some w0 /\ v_stat w0 = SLive.
Proof.
  induction l as [|e l IH]; intros m r w H Hs; cbn [fold_left] in H; [eauto|].
  destruct (IH _ _ _ H Hs) as (w1 & H1 & Hs1). rewrite rv_track_ev in H1. eapply live_ev; eauto.
Qed.

Lemma closed_fold l : forall m c v0 v, nth_error (cv m) c = Some v0 -> nth_error (cv (fold_left track_ev l m)) c = Some v ->
  v_closed v = v_closed v0.
Proof.
  induction l as [|e l IH]; intros m c v0 v H0 H; cbn [fold_left] in H; [congruence|].
  assert (Hlt : c < List.length (cv (track_ev m e))) by (rewrite cv_track_ev; pose proof (cv_ev_length m e (cv m)); pose proof (nth_error_lt _ _ _ H0); lia).
  destruct (nth_error_ex _ _ Hlt) as [v1 H1]. rewrite (IH _ c v1 v H1 H).
  rewrite cv_track_ev in H1. apply cv_ev_inv in H1 as [(v0' & E0 & Hc & _)|[E0 _]]; congruence.
Qed.

(* the tracker record of a connection after track_op *)
Lemma top_cv m o ob c v0 : TI cfg m -> nth_error (cv (track_op cfg m o ob)) c = Some v0 ->
  exists v, nth_error (cv m) c = Some v /\
    ((v_closed v0 = v_closed v /\ v_back v0 = v_back v)
     \/ (v_closed v = None /\ v_closed v0 = Some (m_i m) /\ v_back v0 = v_back v)
     \/ (exists r0 tm w, o = Cancel r0 /\ nth_error (pv m) r0 = Some (tm, Some c) /\ nth_error (rv m) r0 = Some w /\ v_stat w = SLive
                        /\ nth_error (shv m) c = Some false /\ v_closed v0 = v_closed v /\ v_back v0 = m_i m)).
Proof.
  intros HT H.
  assert (Hsame : cv (track_op cfg m o ob) = cv m -> exists v, nth_error (cv m) c = Some v /\
    ((v_closed v0 = v_closed v /\ v_back v0 = v_back v)
     \/ (v_closed v = None /\ v_closed v0 = Some (m_i m) /\ v_back v0 = v_back v)
     \/ (exists r0 tm w, o = Cancel r0 /\ nth_error (pv m) r0 = Some (tm, Some c) /\ nth_error (rv m) r0 = Some w /\ v_stat w = SLive
                        /\ nth_error (shv m) c = Some false /\ v_closed v0 = v_closed v /\ v_back v0 = m_i m)))
    by (intros E; rewrite E in H; exists v0; auto).
  assert (Hclose : forall c', cv (track_op cfg m o ob) = upd_nth c' (closef (m_i m)) (cv m) -> exists v, nth_error (cv m) c = Some v /\
    ((v_closed v0 = v_closed v /\ v_back v0 = v_back v)
     \/ (v_closed v = None /\ v_closed v0 = Some (m_i m) /\ v_back v0 = v_back v)
     \/ (exists r0 tm w, o = Cancel r0 /\ nth_error (pv m) r0 = Some (tm, Some c) /\ nth_error (rv m) r0 = Some w /\ v_stat w = SLive
                        /\ nth_error (shv m) c = Some false /\ v_closed v0 = v_closed v /\ v_back v0 = m_i m))).
  { intros c' E. rewrite E, nth_error_upd_nth in H. destruct (Nat.eqb c' c); [|exists v0; auto].
    destruct (nth_error (cv m) c) as [v|]; [|discriminate]. inversion H; subst. exists v. split; [reflexivity|].
    cbn [closef v_closed v_back]. destruct (v_closed v) as [cl|]; cbn [first_some]; auto. }
  destruct o as [u p|r|r|r|r|r x|c0|c0| |dt]; try (apply Hsame; reflexivity).
  - (* Cancel *)
    cbn [track_op] in H. destruct (nth_error (m_reqs m) r) as [x|] eqn:Ex; [|exists v0; auto].
    destruct (ri_stat x) eqn:Es; try (exists v0; auto; fail).
    + destruct (ri_popx x) as [c'|] eqn:Ep; [|exists v0; auto].
      destruct (nth_error (m_conns m) c') as [y|] eqn:Ey; [|exists v0; auto].
      destruct (ci_share y) eqn:Esh; [exists v0; auto|].
      change (nth_error (cv (ci_upd (set_ci_back (m_i m)) c' m)) c = Some v0) in H.
      rewrite (cv_ci_upd _ (backf (m_i m)) c' m) in H by reflexivity. rewrite nth_error_upd_nth in H.
      destruct (Nat.eqb_spec c' c) as [->|Hn]; [|exists v0; auto].
      destruct (nth_error (cv m) c) as [v|]; [|discriminate]. inversion H; subst. exists v. split; [reflexivity|].
      right. right. exists r, (ri_time x), (rv_of x). split; [reflexivity|].
      split; [unfold pv; rewrite nth_error_map', Ex; cbn [option_map]; rewrite Ep; reflexivity|].
      split; [unfold rv; rewrite nth_error_map', Ex; reflexivity|]. split; [exact Es|].
      split; [unfold shv; rewrite nth_error_map', Ey; cbn [option_map]; rewrite Esh; reflexivity|]. cbn [backf v_closed v_back]. auto.
  - destruct (upgrade_views cfg m r ob) as (_ & _ & [E|(c' & w & _ & _ & E)]); [apply Hsame, E|apply (Hclose c'), E].
  - apply (Hclose c0). cbn [track_op]. apply close_view.
Qed.

(* the request records after track_op *)
Lemma top_rv m o ob : (forall u p, o <> Issue u p) ->
  rv (track_op cfg m o ob) = rv m \/
  exists r0, o = Cancel r0 /\ rv (track_op cfg m o ob) = upd_nth r0 (fun w => mkRv SCancelled (v_at w) (v_time w) (v_popc w)) (rv m).
Proof.
  intros Hni. destruct o; try (left; reflexivity).
  - exfalso. eapply Hni; reflexivity.
  - cbn [track_op]. destruct (nth_error (m_reqs m) r) as [x|]; [|left; reflexivity].
    assert (HF : forall mb, rv mb = rv m ->
              rv (ri_upd (fun y => set_ri_pend false (set_ri_stat SCancelled
                    match ri_stat y, ri_dial y with SLive, DsFlying => set_ri_aband true y | _, _ => y end)) r mb)
              = upd_nth r (fun w => mkRv SCancelled (v_at w) (v_time w) (v_popc w)) (rv m)).
    { intros mb E. rewrite <- E. apply rv_ri_upd. intros y. destruct (ri_stat y), (ri_dial y); reflexivity. }
    destruct (ri_stat x); try (left; reflexivity); right; exists r; (split; [reflexivity|]); try (apply HF; reflexivity).
    destruct (ri_popx x) as [c|]; [|apply HF; reflexivity]. destruct (nth_error (m_conns m) c) as [y|]; [|apply HF; reflexivity].
    destruct (ci_share y); apply HF; reflexivity.
  - left. cbn [track_op]. destruct (holder_conn m r); reflexivity.
  - left. cbn [track_op]. apply rv_ri_upd_id. intros y. destruct (ri_dial y), (ri_resolved y); reflexivity.
Qed.

Lemma top_live m o ob r w0 : (forall u p, o <> Issue u p) ->
  nth_error (rv (track_op cfg m o ob)) r = Some w0 -> v_stat w0 = SLive ->
  o <> Cancel r /\ exists w, nth_error (rv m) r = Some w /\ v_stat w = SLive.
Proof.
  intros Hni Hw Hs. destruct (top_rv m o ob Hni) as [E|(r0 & -> & E)]; rewrite E in Hw.
  - split; [|eauto]. intros ->. 
    (* a cancelled request is not live afterwards *)
    cbn [track_op] in E. clear Hni. revert E Hw. unfold rv at 2 3. rewrite nth_error_map'.
    destruct (nth_error (m_reqs m) r) as [x|] eqn:Ex; [|discriminate]. cbn [option_map]. intros E Hw. inversion Hw; subst w0. cbn [rv_of v_stat] in Hs.
    rewrite Hs in E.
    assert (Hnth : nth_error (rv m) r = Some (rv_of x)) by (unfold rv; rewrite nth_error_map', Ex; reflexivity).
    assert (Hc : forall mb, rv mb = rv m -> rv (ri_upd (fun y => set_ri_pend false (set_ri_stat SCancelled
                    match ri_stat y, ri_dial y with SLive, DsFlying => set_ri_aband true y | _, _ => y end)) r mb) = rv m -> False).
    { intros mb Eb E'. rewrite (rv_ri_upd _ (fun w => mkRv SCancelled (v_at w) (v_time w) (v_popc w))) in E'
        by (intros y; destruct (ri_stat y), (ri_dial y); reflexivity).
      rewrite Eb in E'. assert (H : nth_error (upd_nth r (fun w => mkRv SCancelled (v_at w) (v_time w) (v_popc w)) (rv m)) r = Some (rv_of x)) by (rewrite E'; exact Hnth).
      rewrite nth_error_upd_nth_eq, Hnth in H. cbn [option_map] in H. inversion H as [H1]. cbn [rv_of] in H1. congruence. }
    destruct (ri_popx x) as [c|]; [|apply (Hc m eq_refl E)]. destruct (nth_error (m_conns m) c) as [y|]; [|apply (Hc m eq_refl E)].
    destruct (ci_share y); [apply (Hc m eq_refl E)|apply (Hc _ eq_refl E)].
  - rewrite nth_error_upd_nth in Hw. destruct (Nat.eqb_spec r0 r) as [_|Hn].
    + destruct (nth_error (rv m) r); [|discriminate]. inversion Hw; subst. discriminate.
    + split; [congruence|eauto].
Qed.


Lemma StepF_any s o : Lin s -> StepF s (step cfg s o).
Proof.
  intros HL. destruct o as [u p|r|r|r|r|r x|c0|c0| |dt]; try (apply StepF_plain; [exact I|exact HL]).
  - destruct (issue_spec cfg u p (set_out [] s) eq_refl) as (pre & found & qn & HS). eapply StepF_issue; eauto.
  - apply StepF_tick.
Qed.

Lemma noHand_step s o c : FullDead s c -> forall r, noHand r c (out (step cfg s o)).
Proof.
  intros [Hd Hq] r. destruct o as [u p|r0|r0|r0|r0|r0 x|c0|c0| |dt]; try (apply plain_noHand; [exact I|exact Hd|apply Hq]).
  - destruct (issue_spec cfg u p (set_out [] s) eq_refl) as (pre & found & qn & HS).
    change (do_issue cfg u p (set_out [] s)) with (step cfg s (Issue u p)) in HS.
    pose proof (is_od _ _ _ _ _ _ _ HS) as Hod. unfold od in Hod. rewrite Forall_forall in Hod.
    intros a b d n Hin. apply (Hod _ Hin).
  - intros a b d n [].
Qed.

Lemma conn_exists m s c v : Inv cfg m s -> nth_error (cv m) c = Some v -> c < List.length (conns s).
Proof.
  intros [_ HR] Hv. pose proof (rm_len _ _ _ HR) as H. pose proof (nth_error_lt _ _ _ Hv). unfold copen in H. rewrite map_length in H. lia.
Qed.

(* a connection that is "closed before its last hand-back" after track_op is dead after the op and is not handed out in it *)
Lemma B_m0 m s o ob c v0 cl : Inv cfg m s -> Inv2 m s -> Inv4 m s ->
  nth_error (cv (track_op cfg m o ob)) c = Some v0 -> v_closed v0 = Some cl -> cl < v_back v0 ->
  FullDead (step cfg s o) c /\ forall r, noHand r c (out (step cfg s o)).
Proof.
  intros HI HI2 HI4 Hv Hcl Hlt. pose proof HI as [HT HR].
  assert (Hfd : FullDead s c -> FullDead (step cfg s o) c /\ forall r, noHand r c (out (step cfg s o))).
  { intros Hd. split; [eapply FullDead_next; [apply StepF_any, (v_lin _ _ HI2)|exact Hd]|apply noHand_step, Hd]. }
  destruct (top_cv m o ob c v0 HT Hv) as (v & Hvm & [[Ec Eb]|[(En & Ec & Eb)|(r0 & tm & w & -> & Hp & Hw & Hs & Hsh & Ec & Eb)]]).
  - apply Hfd. apply (w_B _ _ HI4 c v cl Hvm); [congruence|lia].
  - exfalso. pose proof (ti_back _ _ HT c v Hvm). rewrite Ec in Hcl. inversion Hcl. lia.
  - destruct (w_P _ _ HI4 r0 tm c w Hp Hw Hs Hsh) as [Hd|(ck & Hq & Hk)]; [apply Hfd, Hd|].
    assert (Hex : c < List.length (conns s)) by (eapply conn_exists; eauto).
    assert (Hop : is_open s c = false).
    { destruct (is_open s c) eqn:E; [exfalso|reflexivity]. pose proof (rm_open _ _ _ HR c v (is_open_copen _ _ E) Hvm). congruence. }
    assert (HW : W None s c <= 1) by (pose proof (v_lin _ _ HI2 c) as H; destruct (Nat.ltb_spec c (List.length (conns s))); lia).
    assert (Hsf : share_of s c = false) by (eapply share_of_trk; [apply (w_I _ _ HI4)|exact Hsh|exact Hex]).
    destruct (I_only m s r0 ck c (w_I _ _ HI4) Hsf Hq Hk) as [Hfree Hslot].
    destruct (cancel_dead cfg s r0 ck c Hq Hk Hop HW Hex Hfree Hslot) as (D & Q & N). split; [split; assumption|exact N].
Qed.

Lemma cv_track m o ob s' : o_events ob = rev (out s') ->
  cv (track cfg m o ob) = cv (cur (track_op cfg m o ob) s') /\ rv (track cfg m o ob) = rv (cur (track_op cfg m o ob) s').
Proof.
  intros E. unfold track. rewrite E. fold (cur (track_op cfg m o ob) s'). set (m1 := cur (track_op cfg m o ob) s').
  destruct (offer_fold ob (rev (out s')) m1) as (A & B & _).
  destruct (stamp_fold (o_snap (m_prev m)) (o_snap ob) (fold_left (track_offer ob) (rev (out s')) m1)) as (A' & B' & _).
  split; [exact (eq_trans A' A)|exact (eq_trans B' B)].
Qed.

Lemma cv_of_nth m c x : nth_error (m_conns m) c = Some x -> nth_error (cv m) c = Some (cv_of x).
Proof. intros H. unfold cv. rewrite nth_error_map', H. reflexivity. Qed.

Lemma chkB_op m s o : Inv cfg m s -> Inv2 m s -> Inv4 m s ->
  evs_ok (chkB (track_op cfg m o (observe (step cfg s o)))) (track_op cfg m o (observe (step cfg s o))) (rev (out (step cfg s o))) = true.
Proof.
  intros HI HI2 HI4. apply evs_ok_all. intros l1 e l2 El. destruct e; try reflexivity. cbn [chkB].
  destruct (nth_error (m_conns (fold_left track_ev l1 (track_op cfg m o (observe (step cfg s o))))) c) as [x|] eqn:Ex; [|reflexivity].
  destruct (ci_closed x) as [cl|] eqn:Ecl; [|reflexivity].
  destruct (nth_error (m_conns (track_op cfg m o (observe (step cfg s o)))) c) as [x0|] eqn:Ex0; [|reflexivity].
  apply Nat.leb_le. destruct (Nat.le_gt_cases (ci_back x0) cl) as [Hle|Hgt]; [exact Hle|exfalso].
  pose proof (closed_fold l1 _ c _ _ (cv_of_nth _ _ _ Ex0) (cv_of_nth _ _ _ Ex)) as Hc. cbn [cv_of v_closed] in Hc.
  destruct (B_m0 m s o (observe (step cfg s o)) c (cv_of x0) cl HI HI2 HI4 (cv_of_nth _ _ _ Ex0)) as [_ HN];
    [cbn [cv_of v_closed]; congruence|cbn [cv_of v_back]; lia|].
  apply (HN r reused open ready holders). apply (proj2 (in_rev _ _)). rewrite El. apply in_elt.
Qed.

Lemma len_cv_shv m : List.length (cv m) = List.length (shv m).
Proof. unfold cv, shv. rewrite !map_length. reflexivity. Qed.
Lemma len_pv_rv m : List.length (pv m) = List.length (rv m).
Proof. unfold pv, rv. rewrite !map_length. reflexivity. Qed.

Lemma Inv4_next m s o :
  Inv cfg m s -> Inv2 m s -> Inv4 m s ->
  G cfg None (track_op cfg m o (observe (step cfg s o))) (step cfg s o) ->
  Inv cfg (track cfg m o (observe (step cfg s o))) (step cfg s o) ->
  (forall r, r < List.length (pv m) ->
     nth_error (pv (track_op cfg m o (observe (step cfg s o)))) r = nth_error (pv m) r /\
     forall w0, nth_error (rv (track_op cfg m o (observe (step cfg s o)))) r = Some w0 -> v_stat w0 = SLive ->
                exists w, nth_error (rv m) r = Some w /\ v_stat w = SLive) ->
  (forall r tm c, List.length (pv m) <= r -> nth_error (pv (track_op cfg m o (observe (step cfg s o)))) r = Some (tm, Some c) ->
     c < List.length (cv m) /\
     (nth_error (shv m) c = Some false -> FullDead (step cfg s o) c \/ kc_is (step cfg s o) r c)) ->
  Inv4 (track cfg m o (observe (step cfg s o))) (step cfg s o).
Proof.
  intros HI HI2 HI4 HG HI' Hold Hnew.
  set (s' := step cfg s o) in *. set (ob := observe s') in *. set (m0 := track_op cfg m o ob) in *. set (m' := track cfg m o ob) in *.
  destruct (cv_track m o ob s' eq_refl) as [Ecv Erv]. fold m0 m' in Ecv, Erv.
  destruct (track_views m o ob) as (P1 & _). fold m0 m' in P1.
  destruct (shv_track m o ob) as [ks Hks]. fold m' in Hks.
  destruct HG as (_ & [_ (HL & HB & HN)] & _).
  pose proof (StepF_any s o (v_lin _ _ HI2)) as HF. fold s' in HF.
  constructor.
  - apply (proj2 (ProofsC02.step_ok cfg m s o (w_I _ _ HI4))).
  - intros c v' cl Hv' Hcl Hlt. rewrite Ecv in Hv'.
    destruct (nth_error (cv m0) c) as [v0|] eqn:E0.
    + destruct (HB c v0 v' E0 Hv') as [A B].
      destruct (B_m0 m s o ob c v0 cl HI HI2 HI4 E0) as [Hd _]; [congruence|rewrite <- B; [exact Hlt|congruence]|exact Hd].
    + rewrite (HN c v' E0 Hv') in Hcl. discriminate.
  - intros r tm c Hr. rewrite P1 in Hr. rewrite len_cv_shv, Hks, app_length, <- len_cv_shv.
    destruct (Nat.ltb_spec r (List.length (pv m))) as [Hlt|Hge].
    + rewrite (proj1 (Hold r Hlt)) in Hr. pose proof (w_Pex _ _ HI4 r tm c Hr). lia.
    + destruct (Hnew r tm c Hge Hr). lia.
  - intros r tm c w' Hr Hw' Hs Hsh. rewrite P1 in Hr. rewrite Erv in Hw'.
    destruct (live_fold _ _ _ _ Hw' Hs) as (w0 & Hw0 & Hs0). fold m0 in Hw0.
    destruct (Nat.ltb_spec r (List.length (pv m))) as [Hlt|Hge].
    + destruct (Hold r Hlt) as [Ep Hl]. rewrite Ep in Hr. destruct (Hl w0 Hw0 Hs0) as (w & Hw & Hsw).
      pose proof (w_Pex _ _ HI4 r tm c Hr) as Hc. rewrite len_cv_shv in Hc.
      rewrite Hks, nth_error_app1 in Hsh by exact Hc.
      destruct (w_P _ _ HI4 r tm c w Hr Hw Hsw Hsh) as [Hd|Hk].
      * left. eapply FullDead_next; eauto.
      * destruct (proj1 (f_kc _ _ HF r) c Hk) as [Hk'|Hg]; [right; exact Hk'|exfalso].
        destruct HI' as [_ HR']. fold m' s' in HR'.
        assert (Hw'' : nth_error (rv m') r = Some w') by (rewrite Erv; exact Hw').
        destruct (nth_error (reqs s') r) as [q|] eqn:Eq; [|exact Hg].
        pose proof (rm_live _ _ _ HR' r w' q ltac:(discriminate) Hw'' Hs Eq) as Hlv. destruct q; cbn in Hg, Hlv; contradiction.
    + destruct (Hnew r tm c Hge Hr) as [Hc Hp]. rewrite len_cv_shv in Hc. rewrite Hks, nth_error_app1 in Hsh by exact Hc. auto.
Qed.


Lemma pv_top_nonissue m o ob : (forall u p, o <> Issue u p) -> pv (track_op cfg m o ob) = pv m.
Proof.
  intros Hni.
  assert (H : forall o', plainop o' -> pv (track_op cfg m o' ob) = pv m) by (intros o' Hp; apply (sm_pv _ _ (proj1 (top_plain m o' ob Hp)))).
  destruct o as [u p|r|r|r|r|r x|c0|c0| |dt]; try (apply H; exact I).
  - exfalso. eapply Hni; reflexivity.
  - reflexivity.
Qed.

Lemma step4_nonissue m s o : (forall u p, o <> Issue u p) -> Inv cfg m s -> Inv2 m s -> Inv4 m s ->
  G cfg None (track_op cfg m o (observe (step cfg s o))) (step cfg s o) ->
  Inv cfg (track cfg m o (observe (step cfg s o))) (step cfg s o) ->
  Inv4 (track cfg m o (observe (step cfg s o))) (step cfg s o).
Proof.
  intros Hni HI HI2 HI4 HG HI'. apply Inv4_next; auto.
  - intros r Hlt. split; [rewrite (pv_top_nonissue m o _ Hni); reflexivity|].
    intros w0 Hw0 Hs0. destruct (top_live m o _ r w0 Hni Hw0 Hs0) as [_ H]. exact H.
  - intros r tm c Hge Hr. rewrite (pv_top_nonissue m o _ Hni) in Hr. apply nth_error_lt in Hr. lia.
Qed.

(* the tracker's ri_popx of a new request is the oldest connection its Issue removed from the idle list *)
Lemma issue_popx m s u p pre found qn c : Inv2 m s ->
  IssueSpec cfg u (set_out [] s) (step cfg s (Issue u p)) pre found qn ->
  trk_popx m u (observe (step cfg s (Issue u p))) = Some c ->
  exists a0 rp, rev pre = (c, a0) :: rp /\ In (c, a0) (p_idle (get_tok s (mtok cfg u s))).
Proof.
  intros HI HS Epx. destruct (tok_agree m s u (v_keys _ _ HI)) as [Etok _].
  pose proof (is_idle _ _ _ _ _ _ _ HS (mtok cfg u s)) as Hid. rewrite mtok_out, Nat.eqb_refl in Hid.
  change (get_tok (set_out [] s)) with (get_tok s) in Hid.
  unfold trk_popx in Epx. rewrite (v_prev _ _ HI), Etok in Epx.
  change (o_snap (observe (step cfg s (Issue u p)))) with (snapshot (step cfg s (Issue u p))) in Epx.
  rewrite !idle_of_snapshot, Hid, map_app, map_length in Epx.
  rewrite <- (map_length fst (p_idle (get_tok (step cfg s (Issue u p)) (mtok cfg u s)))), skipn_app_len in Epx.
  destruct (rev pre) as [|[c0 a0] rp] eqn:Erp; cbn [map fst] in Epx; [discriminate|]. inversion Epx; subst c0.
  exists a0, rp. split; [reflexivity|]. rewrite Hid. apply in_or_app. right. left. reflexivity.
Qed.

Lemma step4_issue m s u p : Inv cfg m s -> Inv2 m s -> Inv4 m s ->
  G cfg None (track_op cfg m (Issue u p) (observe (step cfg s (Issue u p)))) (step cfg s (Issue u p)) ->
  Inv cfg (track cfg m (Issue u p) (observe (step cfg s (Issue u p)))) (step cfg s (Issue u p)) ->
  Inv4 (track cfg m (Issue u p) (observe (step cfg s (Issue u p)))) (step cfg s (Issue u p)).
Proof.
  intros HI HI2 HI4 HG HI'.
  destruct (issue_spec cfg u p (set_out [] s) eq_refl) as (pre & found & qn & HS).
  change (do_issue cfg u p (set_out [] s)) with (step cfg s (Issue u p)) in HS.
  destruct (top_issue m u p (observe (step cfg s (Issue u p)))) as (Tpv & _ & _ & _).
  destruct (issue_views cfg m u p (observe (step cfg s (Issue u p)))) as (popc & Trv & _).
  apply Inv4_next; auto.
  - intros r Hlt. split; [rewrite Tpv, nth_error_app1 by exact Hlt; reflexivity|].
    intros w0 Hw0 Hs0. rewrite Trv, nth_error_app1 in Hw0 by (rewrite <- len_pv_rv; exact Hlt). eauto.
  - intros r tm c Hge Hr. rewrite Tpv, nth_error_snoc in Hr.
    destruct (Nat.ltb_spec r (List.length (pv m))); [lia|].
    destruct (Nat.eqb_spec r (List.length (pv m))) as [->|]; [|discriminate]. inversion Hr as [[Etm Epx]].
    destruct (issue_popx m s u p pre found qn c HI2 HS Epx) as (a0 & rp & Erp & Hin).
    assert (Hpre : pre = rev rp ++ [(c, a0)]) by (rewrite <- (rev_involutive pre), Erp; reflexivity).
    pose proof (Lin_exists s _ c a0 (v_lin _ _ HI2) Hin) as Hex.
    assert (Hlen : List.length (cv m) = List.length (conns s)).
    { rewrite <- (v_clen _ _ HI2). unfold cv, sv. rewrite !map_length. reflexivity. }
    split; [lia|]. intros Hsh.
    assert (Ereq : nth_error (reqs (step cfg s (Issue u p))) (List.length (pv m)) = Some qn).
    { rewrite (is_reqs _ _ _ _ _ _ _ HS), (v_rlen _ _ HI2). cbn [reqs set_out]. rewrite nth_error_app2 by lia. rewrite Nat.sub_diag. reflexivity. }
    destruct found as [cf|] eqn:Ef.
    + right. destruct (is_found _ _ _ _ _ _ _ HS cf eq_refl) as (dis & a & Hp2 & _).
      rewrite Hpre in Hp2. apply app_inj_tail in Hp2 as [_ E2]. inversion E2; subst cf a0.
      unfold kc_is. rewrite Ereq. apply (is_kc _ _ _ _ _ _ _ HS c eq_refl).
    + left.
      assert (Hc1 : 1 <= cnt (map fst pre) c) by (rewrite Hpre, map_app, cnt_app; cbn [map fst]; rewrite cnt_cons; destruct (Nat.eq_dec c c); [lia|congruence]).
      pose proof (is_W _ _ _ _ _ _ _ HS c) as HW. cbn [oconn] in HW. rewrite cnt_nil in HW.
      change (W None (set_out [] s) c) with (W None s c) in HW. pose proof (v_lin _ _ HI2 c) as HLc.
      destruct (Nat.ltb_spec c (List.length (conns s))); [|lia].
      assert (Hsf : share_of s c = false) by (eapply share_of_trk; [apply (w_I _ _ HI4)|exact Hsh|exact Hex]).
      pose proof (I_idle_free m s _ c a0 (w_I _ _ HI4) Hsf Hin) as Hfree.
      split; [split; [lia|rewrite (is_len _ _ _ _ _ _ _ HS); exact Hex]|].
      intros r'. rewrite (is_reqs _ _ _ _ _ _ _ HS). cbn [reqs set_out]. rewrite nth_error_snoc.
      destruct (Nat.ltb r' (List.length (reqs s))); [apply Hfree|].
      destruct (Nat.eqb r' (List.length (reqs s))); [|exact I]. apply (is_qn _ _ _ _ _ _ _ HS). discriminate.
Qed.

Definition Inv3 (m : mst) (s : state) : Prop := Inv cfg m s /\ Inv2 m s /\ Inv4 m s.

Lemma Inv3_init : Inv3 m0 init.
Proof.
  split; [apply Inv_init|]. split.
  - constructor; try reflexivity.
    + intros [|r] tm px H; discriminate.
    + intros [|c] st H; discriminate.
    + intros [|[|t]] c a H; destruct H.
    + intros [|r] tm c st H; discriminate.
    + intros c. cbn. lia.
    + apply IS_init.
  - constructor.
    + apply ProofsC02.I_init.
    + intros [|c] v cl H; discriminate.
    + intros [|r] tm c H; discriminate.
    + intros [|r] tm c w H; discriminate.
Qed.

Lemma Inv3_step m s o : Inv3 m s ->
  chk_C05 cfg m o (observe (step cfg s o)) = true /\ Inv3 (track cfg m o (observe (step cfg s o))) (step cfg s o).
Proof.
  intros (HI & HI2 & HI4).
  pose proof (G_step cfg m s o (observe (step cfg s o)) HI) as HG.
  pose proof (Inv_track cfg m o (observe (step cfg s o)) (step cfg s o) HG eq_refl) as HI'.
  assert (H2 : Inv2 (track cfg m o (observe (step cfg s o))) (step cfg s o)
               /\ evs_ok (chk2 cfg) (track_op cfg m o (observe (step cfg s o))) (rev (out (step cfg s o))) = true).
  { destruct o; try (apply step_plain; [exact I|exact HI2|exact HI']).
    - apply step_issue; assumption.
    - apply step_tick; assumption. }
  destruct H2 as [HI2' Hc2].
  assert (H4 : Inv4 (track cfg m o (observe (step cfg s o))) (step cfg s o)).
  { destruct o; try (apply step4_nonissue; try assumption; intros u0 p0 E; discriminate E).
    apply step4_issue; assumption. }
  split; [|split; [exact HI'|split; assumption]].
  unfold chk_C05. cbn [observe o_events].
  apply (evs_ok_imp3 (chk1 (track_op cfg m o (observe (step cfg s o)))) (chk2 cfg)
                     (chkB (track_op cfg m o (observe (step cfg s o)))) (chk_ev_C05 cfg)).
  - intros m1 e. apply chk_combine.
  - exact (proj1 HG).
  - exact Hc2.
  - apply chkB_op; assumption.
Qed.

Theorem mon_C05_trace_from : forall ops s m, Inv3 m s -> mon_steps chk_C05 cfg m ops (trace_from cfg s ops) = true.
Proof.
  induction ops as [|o ops IH]; intros s m H; cbn [trace_from mon_steps]; [reflexivity|].
  destruct (Inv3_step m s o H) as [Hc H']. rewrite Hc. cbn [andb]. apply IH, H'.
Qed.

End T.

Theorem mon_C05_holds : forall cfg ops, mon_C05 cfg ops (trace cfg ops) = true.
Proof. intros cfg ops. apply mon_C05_trace_from. apply Inv3_init. Qed.
