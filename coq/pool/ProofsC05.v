(* C05: the monitor mon_C05 accepts the model's trace of every history.
   - pool/CoreC05.v: first clause (a connection handed to r was not closed before it was acquired for r),
     by an invariant relating tracker and model carried through every primitive;
   - pool/LinC05.v: model-only handle accounting (every pushable handle of a connection exists at most
     once; a connection without handle is never pushed, offered or handed out again);
   - this file: the idle-timeout clause.  Boundary invariant [Inv2]: the tracker's previous snapshot, key
     table and clock agree with the model; every idle entry (c, at) satisfies at <= 1000000 + ci_idle_time c
     (the tracker's stamp is at least as recent as the entry); if the clause would fail for (r, c), with
     c = ri_popx r, then c is dead and r does not have it. *)
From HD Require Import common.Base http.Model pool.Model pool.Spec pool.Frames pool.FramesC05 pool.SortedC05 pool.CoreC05 pool.LinC05.
Local Open Scope list_scope.

(* ------------------------------------------------------------------ splitting the monitor *)
Definition chk2 (cfg : config) (m : mst) (e : ev) : bool :=
  match e with
  | EHand r c _ _ _ _ =>
      match nth_error (m_conns m) c, nth_error (m_reqs m) r with
      | Some x, Some y =>
          match g_timeout cfg, ri_popx y with
          | Some d, Some c' => if N.ltb 0 d && Nat.eqb c c' then N.leb (ri_time y - ci_idle_time x) d else true
          | _, _ => true
          end
      | _, _ => true
      end
  | _ => true
  end.

Lemma chk_split cfg m e : chk_ev_C05 cfg m e = chk1 m e && chk2 cfg m e.
Proof.
  destruct e; try reflexivity. cbn [chk_ev_C05 chk1 chk2].
  destruct (nth_error (m_conns m) c), (nth_error (m_reqs m) r); reflexivity.
Qed.

Lemma evs_ok_and (f g h : mst -> ev -> bool) : (forall m e, h m e = f m e && g m e) ->
  forall l m, evs_ok h m l = evs_ok f m l && evs_ok g m l.
Proof.
  intros H. induction l as [|e l IH]; intros m; cbn [evs_ok]; [reflexivity|].
  rewrite H, IH. destruct (f m e), (g m e), (evs_ok f (track_ev m e) l); reflexivity.
Qed.

Lemma evs_ok_all (f : mst -> ev -> bool) : forall l m,
  (forall l1 e l2, l = l1 ++ e :: l2 -> f (fold_left track_ev l1 m) e = true) -> evs_ok f m l = true.
Proof.
  induction l as [|e l IH]; intros m H; cbn [evs_ok]; [reflexivity|].
  pose proof (H [] e l eq_refl) as H0. cbn [fold_left] in H0. rewrite H0. cbn [andb]. apply IH. intros l1 e' l2 E. apply (H (e :: l1) e' l2). rewrite E. reflexivity.
Qed.

(* ------------------------------------------------------------------ the tracker fields of the timeout clause *)
Definition sv (m : mst) : list N := map ci_idle_time (m_conns m).
Definition pv (m : mst) : list (N * option nat) := map (fun y => (ri_time y, ri_popx y)) (m_reqs m).

Lemma chk2_view cfg m r c b1 b2 b3 n :
  (forall st tm d, nth_error (sv m) c = Some st -> nth_error (pv m) r = Some (tm, Some c) ->
                   g_timeout cfg = Some d -> (0 < d)%N -> (tm - st <= d)%N) ->
  chk2 cfg m (EHand r c b1 b2 b3 n) = true.
Proof.
  unfold sv, pv. rewrite !nth_error_map'. intros H. cbn [chk2].
  destruct (nth_error (m_conns m) c) as [x|]; [|reflexivity]. destruct (nth_error (m_reqs m) r) as [y|]; [|reflexivity].
  cbn [option_map] in H. destruct (g_timeout cfg) as [d|], (ri_popx y) as [c'|] eqn:Ep; try reflexivity.
  destruct (N.ltb_spec 0 d); cbn [andb]; [|reflexivity]. destruct (Nat.eqb_spec c c') as [<-|]; [|reflexivity].
  apply N.leb_le. eapply H; eauto.
Qed.

Lemma sv_ci_upd_id f c m : (forall x, ci_idle_time (f x) = ci_idle_time x) -> sv (ci_upd f c m) = sv m.
Proof. intros H. unfold sv, ci_upd. cbn [m_conns set_m_conns]. apply map_upd_nth_id. exact H. Qed.
Lemma pv_ri_upd_id f r m : (forall x, ri_time (f x) = ri_time x /\ ri_popx (f x) = ri_popx x) -> pv (ri_upd f r m) = pv m.
Proof.
  intros H. unfold pv, ri_upd. cbn [m_reqs set_m_reqs]. apply map_upd_nth_id. intros x. destruct (H x) as [-> ->]. reflexivity.
Qed.

(* the components left alone by events *)
Record same_meta (m m' : mst) : Prop := mkSM {
  sm_pv : pv m' = pv m; sm_keys : m_keys m' = m_keys m; sm_time : m_time m' = m_time m; sm_prev : m_prev m' = m_prev m }.
Lemma sm_refl m : same_meta m m. Proof. constructor; reflexivity. Qed.
Lemma sm_trans a b c : same_meta a b -> same_meta b c -> same_meta a c.
Proof. intros [A1 A2 A3 A4] [B1 B2 B3 B4]. constructor; congruence. Qed.
Lemma sm_ri_upd f r m : (forall x, ri_time (f x) = ri_time x /\ ri_popx (f x) = ri_popx x) -> same_meta m (ri_upd f r m).
Proof. intros H. constructor; try reflexivity. apply pv_ri_upd_id, H. Qed.
Lemma sm_ci_upd f c m : same_meta m (ci_upd f c m).
Proof. constructor; reflexivity. Qed.

Lemma sm_track_ev m e : same_meta m (track_ev m e).
Proof.
  destruct e; cbn [track_ev].
  - apply sm_ri_upd. auto.
  - constructor; try reflexivity. unfold pv. cbn [m_reqs set_m_conns]. fold (pv (ri_upd (set_ri_dial DsOver) r m)). apply pv_ri_upd_id. auto.
  - eapply sm_trans; [apply sm_ri_upd|apply sm_ci_upd]. intros x. cbv beta.
    match goal with |- context [if ?b then _ else _] => destruct b end; auto.
  - apply sm_ri_upd. auto.
  - assert (H : same_meta m (ri_upd (fun y => set_ri_pend false (set_ri_stat SDone y)) r m)) by (apply sm_ri_upd; auto).
    destruct x as [|[]]; try exact H; (eapply sm_trans; [exact H|apply sm_ri_upd; auto]).
  - apply sm_ci_upd.
  - apply sm_ci_upd.
  - destruct ok; [apply sm_ci_upd|apply sm_refl].
Qed.

Lemma sv_track_ev m e : sv (track_ev m e) = match e with ENew _ _ _ => sv m ++ [m_time m] | _ => sv m end.
Proof.
  destruct e; cbn [track_ev]; try reflexivity.
  - unfold sv. cbn [m_conns set_m_conns ri_upd set_m_reqs m_time]. rewrite map_app. reflexivity.
  - rewrite sv_ci_upd_id by reflexivity. reflexivity.
  - destruct x as [|[]]; reflexivity.
  - apply sv_ci_upd_id. reflexivity.
  - apply sv_ci_upd_id. reflexivity.
  - destruct ok; [apply sv_ci_upd_id|]; reflexivity.
Qed.

(* stamps after a sequence of events: the old ones, followed by the current clock for the new connections *)
Lemma sv_fold l : forall m, exists k, sv (fold_left track_ev l m) = sv m ++ repeat (m_time m) k.
Proof.
  induction l as [|e l IH]; intros m; cbn [fold_left]; [exists 0; cbn; rewrite app_nil_r; reflexivity|].
  destruct (IH (track_ev m e)) as [k Hk]. rewrite Hk, sv_track_ev, (sm_time _ _ (sm_track_ev m e)).
  destruct e; try (exists k; reflexivity). exists (S k). rewrite <- app_assoc. reflexivity.
Qed.
Lemma sm_fold l : forall m, same_meta m (fold_left track_ev l m).
Proof. induction l as [|e l IH]; intros m; cbn [fold_left]; [apply sm_refl|]. eapply sm_trans; [apply sm_track_ev|apply IH]. Qed.

Lemma sm_track_offer ob m e : same_meta m (track_offer ob m e) /\ sv (track_offer ob m e) = sv m.
Proof.
  destruct e; try (split; [apply sm_refl|reflexivity]). destruct ok; try (split; [apply sm_refl|reflexivity]).
  cbn [track_offer]. destruct (nth_error (m_conns m) c); [|split; [apply sm_refl|reflexivity]].
  split; [apply sm_ci_upd|apply sv_ci_upd_id; reflexivity].
Qed.
Lemma sm_offer_fold ob l : forall m, same_meta m (fold_left (track_offer ob) l m) /\ sv (fold_left (track_offer ob) l m) = sv m.
Proof.
  induction l as [|e l IH]; intros m; cbn [fold_left]; [split; [apply sm_refl|reflexivity]|].
  destruct (IH (track_offer ob m e)) as [A B]. destruct (sm_track_offer ob m e) as [A' B'].
  split; [eapply sm_trans; eauto|congruence].
Qed.

(* re-stamping: every stamp stays or becomes the clock; the selected ones become the clock *)
Record restamp (m m' : mst) : Prop := mkRS {
  rs_meta : same_meta m m';
  rs_len : List.length (sv m') = List.length (sv m);
  rs_each : forall c, nth_error (sv m') c = nth_error (sv m) c \/ nth_error (sv m') c = Some (m_time m)
}.
Lemma rs_refl m : restamp m m. Proof. constructor; [apply sm_refl|reflexivity|auto]. Qed.
Lemma rs_trans a b c : restamp a b -> restamp b c -> restamp a c.
Proof.
  intros [A1 A2 A3] [B1 B2 B3]. constructor; [eapply sm_trans; eauto|congruence|].
  intros k. rewrite (sm_time _ _ A1) in B3. destruct (B3 k) as [E|E]; [rewrite E; apply A3|right; exact E].
Qed.
Lemma rs_keep a b c : restamp a b -> nth_error (sv a) c = Some (m_time a) -> nth_error (sv b) c = Some (m_time a).
Proof. intros [A1 A2 A3] H. destruct (A3 c) as [E|E]; congruence. Qed.
Lemma rs_one c m : restamp m (ci_upd (set_ci_idle_time (m_time m)) c m)
  /\ (c < List.length (sv m) -> nth_error (sv (ci_upd (set_ci_idle_time (m_time m)) c m)) c = Some (m_time m)).
Proof.
  assert (E : sv (ci_upd (set_ci_idle_time (m_time m)) c m) = upd_nth c (fun _ => m_time m) (sv m)).
  { unfold sv, ci_upd. cbn [m_conns set_m_conns]. apply map_upd_nth. reflexivity. }
  split.
  - constructor; [apply sm_ci_upd|rewrite E; apply upd_nth_length|].
    intros k. rewrite E, nth_error_upd_nth. destruct (Nat.eqb c k); [|left; reflexivity].
    destruct (nth_error (sv m) k); cbn [option_map]; auto.
  - intros Hlt. rewrite E, nth_error_upd_nth_eq. destruct (nth_error_ex _ _ Hlt) as [x ->]. reflexivity.
Qed.

Lemma stamp_snap prev sn : forall m, restamp m (track_idle_stamp prev m sn)
  /\ forall c, In c (sn_idle sn) -> mem c (idle_of prev (sn_token sn)) = false -> c < List.length (sv m) ->
               nth_error (sv (track_idle_stamp prev m sn)) c = Some (m_time m).
Proof.
  unfold track_idle_stamp. induction (sn_idle sn) as [|c0 l IH]; intros m; cbn [fold_left]; [split; [apply rs_refl|intros c []]|].
  destruct (mem c0 (idle_of prev (sn_token sn))) eqn:Em.
  - destruct (IH m) as [A B]. split; [exact A|]. intros c [<-|Hin] Hm Hlt; [congruence|auto].
  - destruct (rs_one c0 m) as [R1 H1]. destruct (IH (ci_upd (set_ci_idle_time (m_time m)) c0 m)) as [A B].
    assert (Et : m_time (ci_upd (set_ci_idle_time (m_time m)) c0 m) = m_time m) by reflexivity.
    split; [eapply rs_trans; eauto|]. intros c [<-|Hin] Hm Hlt.
    + rewrite <- Et. apply (rs_keep _ _ _ A). rewrite Et. apply H1, Hlt.
    + rewrite <- Et. apply B; auto. rewrite (rs_len _ _ R1). exact Hlt.
Qed.

Lemma stamp_snaps prev l : forall m, restamp m (fold_left (track_idle_stamp prev) l m)
  /\ forall sn c, In sn l -> In c (sn_idle sn) -> mem c (idle_of prev (sn_token sn)) = false -> c < List.length (sv m) ->
                  nth_error (sv (fold_left (track_idle_stamp prev) l m)) c = Some (m_time m).
Proof.
  induction l as [|sn0 l IH]; intros m; cbn [fold_left]; [split; [apply rs_refl|intros sn c []]|].
  destruct (stamp_snap prev sn0 m) as [R1 H1]. destruct (IH (track_idle_stamp prev m sn0)) as [A B].
  assert (Et : m_time (track_idle_stamp prev m sn0) = m_time m) by (apply (sm_time _ _ (rs_meta _ _ R1))).
  split; [eapply rs_trans; eauto|]. intros sn c [<-|Hin] Hc Hm Hlt.
  - rewrite <- Et. apply (rs_keep _ _ _ A). rewrite Et. apply H1; auto.
  - rewrite <- Et. apply (B sn c); auto. rewrite (rs_len _ _ R1). exact Hlt.
Qed.

(* ------------------------------------------------------------------ the snapshot shows the idle lists *)
Lemma idle_of_cons sn l t : idle_of (sn :: l) t = if Nat.eqb (sn_token sn) t then sn_idle sn else idle_of l t.
Proof. unfold idle_of, snap_of. cbn [find]. destruct (Nat.eqb (sn_token sn) t); reflexivity. Qed.

Lemma idle_of_snaps s : forall l t0 t,
  idle_of (snaps_from s t0 l) t = if Nat.leb t0 t then map fst (p_idle (nth (t - t0) l empty_tok)) else [].
Proof.
  induction l as [|p l IH]; intros t0 t; cbn [snaps_from].
  - destruct (Nat.leb t0 t); [destruct (t - t0); reflexivity|reflexivity].
  - assert (Htail : idle_of (snaps_from s (S t0) l) t = if Nat.leb t0 t then (if Nat.eqb t0 t then [] else map fst (p_idle (nth (t - t0) (p :: l) empty_tok))) else []).
    { rewrite IH. destruct (Nat.leb_spec t0 t), (Nat.leb_spec (S t0) t), (Nat.eqb_spec t0 t); try lia; try reflexivity.
      replace (t - t0) with (S (t - S t0)) by lia. reflexivity. }
    assert (Hcons : forall sn, sn_token sn = t0 -> sn_idle sn = map fst (p_idle p) ->
              idle_of (sn :: snaps_from s (S t0) l) t = if Nat.leb t0 t then map fst (p_idle (nth (t - t0) (p :: l) empty_tok)) else []).
    { intros sn Ht Hi. rewrite idle_of_cons, Ht, Htail. destruct (Nat.eqb_spec t0 t) as [->|Hn].
      - rewrite Nat.leb_refl, Nat.sub_diag. exact Hi.
      - reflexivity. }
    destruct (p_idle p) eqn:Ei, (p_waiting p), (match p_marker p with Some _ => true | None => false end);
      try (apply Hcons; [reflexivity|cbn [sn_idle]; rewrite ?Ei; reflexivity]).
    rewrite Htail. destruct (Nat.leb t0 t); [|reflexivity]. destruct (Nat.eqb_spec t0 t) as [->|]; [|reflexivity].
    rewrite Nat.sub_diag. cbn [nth]. rewrite Ei. reflexivity.
Qed.

Lemma idle_of_snapshot s t : idle_of (snapshot s) t = map fst (p_idle (get_tok s t)).
Proof.
  unfold snapshot. rewrite idle_of_snaps. destruct t as [|i]; [reflexivity|]. cbn [Nat.leb get_tok]. replace (S i - 1) with i by lia. reflexivity.
Qed.

Lemma snaps_in s : forall l t0 i p, nth_error l i = Some p -> p_idle p <> [] ->
  exists sn, In sn (snaps_from s t0 l) /\ sn_token sn = t0 + i /\ sn_idle sn = map fst (p_idle p).
Proof.
  induction l as [|q l IH]; intros t0 [|i] p H Hne; cbn [nth_error] in H; try discriminate.
  - inversion H; subst. cbn [snaps_from].
    destruct (p_idle p) eqn:Ei; [contradiction|]. eexists. split; [left; reflexivity|]. split; [cbn; lia|reflexivity].
  - destruct (IH (S t0) i p H Hne) as (sn & Hin & Ht & Hi). exists sn. split; [|split; [lia|exact Hi]].
    cbn [snaps_from]. destruct (p_idle q), (p_waiting q), (match p_marker q with Some _ => true | None => false end); try (right; exact Hin); exact Hin.
Qed.

Lemma snapshot_in s t c a : In (c, a) (p_idle (get_tok s t)) ->
  exists sn, In sn (snapshot s) /\ sn_token sn = t /\ sn_idle sn = map fst (p_idle (get_tok s t)).
Proof.
  intros Hin. destruct t as [|i]; [destruct Hin|]. cbn [get_tok] in *.
  destruct (nth_error (toks s) i) as [p|] eqn:Ep.
  - rewrite (nth_error_nth _ _ empty_tok Ep) in *. destruct (snaps_in s (toks s) 1 i p Ep) as (sn & H1 & H2 & H3).
    + intros E. rewrite E in Hin. destruct Hin.
    + exists sn. auto.
  - rewrite nth_overflow in Hin by (apply nth_error_None; exact Ep). destruct Hin.
Qed.

Lemma mem_false c l : mem c l = false <-> ~ In c l.
Proof.
  unfold mem. split.
  - intros H Hin. assert (existsb (Nat.eqb c) l = true) by (apply existsb_exists; exists c; split; [exact Hin|apply Nat.eqb_refl]). congruence.
  - intros H. destruct (existsb (Nat.eqb c) l) eqn:E; [|reflexivity]. apply existsb_exists in E as (x & Hin & Hx).
    apply Nat.eqb_eq in Hx. subst. contradiction.
Qed.

(* ------------------------------------------------------------------ the boundary invariant of the timeout clause *)
Section T.
Variable cfg : config.

Definition OKT (tm st : N) : Prop := forall d, g_timeout cfg = Some d -> (0 < d)%N -> (tm - st <= d)%N.
Definition Lin (s : state) : Prop := forall c, W None s c <= (if Nat.ltb c (List.length (conns s)) then 1 else 0).

Record Inv2 (m : mst) (s : state) : Prop := mkInv2 {
  v_prev : o_snap (m_prev m) = snapshot s;
  v_keys : m_keys m = keys s;
  v_clock : now s = (1000000 + m_time m)%N;
  v_rlen : List.length (pv m) = List.length (reqs s);
  v_clen : List.length (sv m) = List.length (conns s);
  v_tm : forall r tm px, nth_error (pv m) r = Some (tm, px) -> (tm <= m_time m)%N;
  v_st : forall c st, nth_error (sv m) c = Some st -> (st <= m_time m)%N;
  v_E : forall t c a, In (c, a) (p_idle (get_tok s t)) -> exists st, nth_error (sv m) c = Some st /\ (a <= 1000000 + st)%N;
  v_K : forall r tm c st, nth_error (pv m) r = Some (tm, Some c) -> nth_error (sv m) c = Some st -> ~ OKT tm st ->
        dead s c /\ qfree (nth_error (reqs s) r) c;
  v_lin : Lin s;
  v_sorted : IS s
}.

(* what one operation does to the model, as far as the clause is concerned *)
Record StepF (s s' : state) : Prop := mkSF {
  f_len : List.length (conns s) <= List.length (conns s');
  f_W : forall c, W None s' c <= W None s c + newc s s' c;
  f_old : forall t c a, In (c, a) (p_idle (get_tok s' t)) ->
          In (c, a) (p_idle (get_tok s t)) \/ ~ In c (map fst (p_idle (get_tok s t)));
  f_free : forall c, dead s c -> forall r, qfree (nth_error (reqs s) r) c -> qfree (nth_error (reqs s') r) c
}.

Lemma W_idle_ge s t c : cnt (map fst (p_idle (get_tok s t))) c <= W None s c.
Proof.
  rewrite W_dec. destruct t as [|i]; [cbn; lia|]. cbn [get_tok].
  destruct (nth_error (toks s) i) as [p|] eqn:Ep.
  - rewrite (nth_error_nth _ _ empty_tok Ep). pose proof (cnt_flat_map_nth tokW c (toks s) i p Ep). unfold tokW in H at 1. lia.
  - rewrite nth_overflow by (apply nth_error_None; exact Ep). cbn. lia.
Qed.

Lemma In_cnt_fst (l : list (nat * N)) c a : In (c, a) l -> 1 <= cnt (map fst l) c.
Proof. intros H. assert (In c (map fst l)) by (apply (in_map fst) in H; exact H). apply cnt_pos_In in H0. lia. Qed.

Lemma Lin_exists s t c a : Lin s -> In (c, a) (p_idle (get_tok s t)) -> c < List.length (conns s).
Proof.
  intros HL Hin. pose proof (In_cnt_fst _ _ _ Hin). pose proof (W_idle_ge s t c). specialize (HL c).
  destruct (Nat.ltb_spec c (List.length (conns s))); lia.
Qed.

Lemma Lin_next s s' : Lin s -> StepF s s' -> Lin s'.
Proof.
  intros HL HF c. pose proof (f_W _ _ HF c) as H. pose proof (f_len _ _ HF) as Hl. specialize (HL c). unfold newc in H.
  destruct (Nat.ltb_spec c (List.length (conns s))), (Nat.ltb_spec c (List.length (conns s'))),
           (Nat.leb_spec (List.length (conns s)) c); cbn [andb] in H; lia.
Qed.

Lemma dead_next s s' c : StepF s s' -> dead s c -> dead s' c.
Proof.
  intros HF [Hd Hlt]. pose proof (f_W _ _ HF c) as H. pose proof (f_len _ _ HF) as Hl. split; [|lia].
  unfold newc in H. destruct (Nat.leb_spec (List.length (conns s)) c); [lia|]. cbn [andb] in H. lia.
Qed.

Lemma OKT_mono tm st st' : (st <= st')%N -> OKT tm st -> OKT tm st'.
Proof. intros H HO d Hd Hp. specialize (HO d Hd Hp). lia. Qed.
Lemma OKT_ge tm st : (tm <= st)%N -> OKT tm st.
Proof. intros H d _ _. lia. Qed.

Lemma nth_error_repeat {A} (x y : A) k i : nth_error (repeat x k) i = Some y -> y = x.
Proof. intros H. apply nth_error_In in H. apply repeat_spec in H. exact H. Qed.

(* the tracker after the op: stamps and meta data *)
Lemma track_views m o ob :
  let m0 := track_op cfg m o ob in let m' := track cfg m o ob in
  pv m' = pv m0 /\ m_keys m' = m_keys m0 /\ m_time m' = m_time m0 /\ m_prev m' = ob /\
  List.length (sv m0) <= List.length (sv m') /\
  (forall c st', nth_error (sv m') c = Some st' ->
     (exists st, nth_error (sv m0) c = Some st /\ (st' = st \/ st' = m_time m0)) \/ (nth_error (sv m0) c = None /\ st' = m_time m0)) /\
  (forall sn c, In sn (o_snap ob) -> In c (sn_idle sn) -> mem c (idle_of (o_snap (m_prev m)) (sn_token sn)) = false ->
                c < List.length (sv m') -> nth_error (sv m') c = Some (m_time m0)) /\
  (forall l1 l2 e, o_events ob = l1 ++ e :: l2 ->
     pv (fold_left track_ev l1 m0) = pv m0 /\ exists k, sv (fold_left track_ev l1 m0) = sv m0 ++ repeat (m_time m0) k).
Proof.
  intros m0 m'. unfold m', track. fold m0.
  set (m1 := fold_left track_ev (o_events ob) m0).
  set (m2 := fold_left (track_offer ob) (o_events ob) m1).
  set (m3 := fold_left (track_idle_stamp (o_snap (m_prev m))) (o_snap ob) m2).
  pose proof (sm_fold (o_events ob) m0) as S1. destruct (sv_fold (o_events ob) m0) as [k Hk]. fold m1 in S1, Hk.
  destruct (sm_offer_fold ob (o_events ob) m1) as [S2 V2]. fold m2 in S2, V2.
  destruct (stamp_snaps (o_snap (m_prev m)) (o_snap ob) m2) as [R3 H3]. fold m3 in R3, H3.
  pose proof (rs_meta _ _ R3) as S3.
  assert (T3 : m_time m2 = m_time m0) by (rewrite (sm_time _ _ S2), (sm_time _ _ S1); reflexivity).
  assert (L3 : List.length (sv m3) = List.length (sv m0) + k) by (rewrite (rs_len _ _ R3), V2, Hk, app_length, repeat_length; reflexivity).
  change (pv (set_m_prev ob (set_m_i (S (m_i m3)) m3))) with (pv m3).
  change (sv (set_m_prev ob (set_m_i (S (m_i m3)) m3))) with (sv m3).
  cbn [m_keys m_time m_prev set_m_prev set_m_i].
  split; [rewrite (sm_pv _ _ S3), (sm_pv _ _ S2), (sm_pv _ _ S1); reflexivity|].
  split; [rewrite (sm_keys _ _ S3), (sm_keys _ _ S2), (sm_keys _ _ S1); reflexivity|].
  split; [rewrite (sm_time _ _ S3); exact T3|]. split; [reflexivity|]. split; [lia|]. split; [|split].
  - intros c st' Hc. destruct (rs_each _ _ R3 c) as [E|E].
    + rewrite E, V2, Hk in Hc. destruct (Nat.ltb_spec c (List.length (sv m0))) as [Hlt|Hge].
      * rewrite nth_error_app1 in Hc by exact Hlt. left. exists st'. auto.
      * rewrite nth_error_app2 in Hc by exact Hge. apply nth_error_repeat in Hc. right. split; [apply nth_error_None; exact Hge|exact Hc].
    + rewrite E, T3 in Hc. inversion Hc; subst. destruct (nth_error (sv m0) c) as [st|] eqn:E0; [left; exists st; auto|right; auto].
  - intros sn c Hsn Hc Hm Hlt. rewrite <- T3. apply (H3 sn c); auto. rewrite <- (rs_len _ _ R3). exact Hlt.
  - intros l1 l2 e El. split; [apply (sm_pv _ _ (sm_fold l1 m0))|apply sv_fold].
Qed.

Lemma IS_le s t c a : IS s -> In (c, a) (p_idle (get_tok s t)) -> (a <= now s)%N.
Proof.
  intros H Hin. destruct (get_tok_ok s t H) as [_ Hf]. rewrite Forall_forall in Hf. apply Hf.
  apply (in_map snd) in Hin. exact Hin.
Qed.

Lemma Inv2_next m s o s' ex :
  Inv2 m s -> StepF s s' -> IS s' ->
  List.length (sv (track cfg m o (observe s'))) = List.length (conns s') ->
  (m_time m <= m_time (track_op cfg m o (observe s')))%N -> now s' = (1000000 + m_time (track_op cfg m o (observe s')))%N ->
  sv (track_op cfg m o (observe s')) = sv m -> m_keys (track_op cfg m o (observe s')) = keys s' ->
  pv (track_op cfg m o (observe s')) = pv m ++ ex -> List.length (pv (track_op cfg m o (observe s'))) = List.length (reqs s') ->
  (forall tm px, In (tm, px) ex -> (tm <= m_time (track_op cfg m o (observe s')))%N) ->
  (forall r tm c st', List.length (pv m) <= r -> nth_error (pv (track_op cfg m o (observe s'))) r = Some (tm, Some c) ->
       nth_error (sv (track cfg m o (observe s'))) c = Some st' -> ~ OKT tm st' -> dead s' c /\ qfree (nth_error (reqs s') r) c) ->
  Inv2 (track cfg m o (observe s')) s'.
Proof.
  intros HI HF HS Hclen Htime Hclock Hsv Hkeys Hpv Hrlen Hex Hnew.
  destruct (track_views m o (observe s')) as (P1 & P2 & P3 & P4 & P5 & P6 & P7 & _).
  set (m0 := track_op cfg m o (observe s')) in *. set (m' := track cfg m o (observe s')) in *.
  pose proof (Lin_next s s' (v_lin _ _ HI) HF) as HL'.
  assert (SVm : forall c st, nth_error (sv m) c = Some st -> exists st', nth_error (sv m') c = Some st' /\ (st <= st')%N).
  { intros c st Hc. assert (Hlt : c < List.length (sv m')) by (pose proof (nth_error_lt _ _ _ Hc); rewrite <- Hsv in H; lia).
    destruct (nth_error_ex _ _ Hlt) as [st' Hst']. exists st'. split; [exact Hst'|].
    destruct (P6 c st' Hst') as [(st0 & H0 & [->| ->])|[H0 _]]; rewrite Hsv in H0.
    - rewrite Hc in H0. inversion H0. lia.
    - pose proof (v_st _ _ HI c st Hc). lia.
    - congruence. }
  assert (SVn : forall c st', nth_error (sv m) c = None -> nth_error (sv m') c = Some st' -> st' = m_time m0).
  { intros c st' Hn Hc. destruct (P6 c st' Hc) as [(st0 & H0 & _)|[_ E]]; [rewrite Hsv in H0; congruence|exact E]. }
  constructor.
  - rewrite P4. reflexivity.
  - rewrite P2. exact Hkeys.
  - rewrite P3. exact Hclock.
  - rewrite P1. exact Hrlen.
  - exact Hclen.
  - intros r tm px Hr. rewrite P1, Hpv in Hr. rewrite P3. apply nth_error_In in Hr. apply in_app_or in Hr as [Hin|Hin]; [|eauto].
    apply In_nth_error in Hin as [r' Hr']. pose proof (v_tm _ _ HI r' tm px Hr'). lia.
  - intros c st' Hc. rewrite P3. destruct (P6 c st' Hc) as [(st0 & H0 & [->| ->])|[_ ->]]; try lia.
    rewrite Hsv in H0. pose proof (v_st _ _ HI c st0 H0). lia.
  - intros t c a Hin.
    assert (Hlt : c < List.length (sv m')) by (rewrite Hclen; eapply Lin_exists; eauto).
    destruct (f_old _ _ HF t c a Hin) as [Hold|Hfresh].
    + destruct (v_E _ _ HI t c a Hold) as (st & Hst & Ha). destruct (SVm c st Hst) as (st' & Hst' & Hle). exists st'. split; [exact Hst'|lia].
    + destruct (snapshot_in s' t c a Hin) as (sn & Hsn & Htok & Hidle).
      exists (m_time m0). split.
      * apply (P7 sn c); auto.
        -- rewrite Hidle. apply (in_map fst) in Hin. exact Hin.
        -- rewrite (v_prev _ _ HI), Htok, idle_of_snapshot. apply mem_false. exact Hfresh.
      * pose proof (IS_le s' t c a HS Hin). lia.
  - intros r tm c st' Hr Hc Hn. rewrite P1 in Hr. destruct (Nat.ltb_spec r (List.length (pv m))) as [Hlt|Hge].
    + rewrite Hpv, nth_error_app1 in Hr by exact Hlt.
      destruct (nth_error (sv m) c) as [st|] eqn:Ec.
      * destruct (SVm c st Ec) as (st2 & Hst2 & Hle). rewrite Hc in Hst2. inversion Hst2; subst st2.
        assert (Hn0 : ~ OKT tm st) by (intros HO; apply Hn; eapply OKT_mono; eauto).
        destruct (v_K _ _ HI r tm c st Hr Ec Hn0) as [Hd Hq]. split; [eapply dead_next; eauto|eapply f_free; eauto].
      * exfalso. apply Hn. rewrite (SVn c st' Ec Hc). apply OKT_ge. pose proof (v_tm _ _ HI r tm (Some c) Hr). lia.
    + eapply Hnew; eauto.
  - exact HL'.
  - exact HS.
Qed.

Lemma sv_mono m s o ob : Inv2 m s -> sv (track_op cfg m o ob) = sv m -> (m_time m <= m_time (track_op cfg m o ob))%N ->
  forall c st, nth_error (sv m) c = Some st -> exists st', nth_error (sv (track cfg m o ob)) c = Some st' /\ (st <= st')%N.
Proof.
  intros HI Hsv Htime c st Hc. destruct (track_views m o ob) as (_ & _ & _ & _ & P5 & P6 & _).
  assert (Hlt : c < List.length (sv (track cfg m o ob))) by (pose proof (nth_error_lt _ _ _ Hc); rewrite <- Hsv in H; lia).
  destruct (nth_error_ex _ _ Hlt) as [st' Hst']. exists st'. split; [exact Hst'|].
  destruct (P6 c st' Hst') as [(st0 & H0 & [->| ->])|[H0 _]]; rewrite Hsv in H0.
  - rewrite Hc in H0. inversion H0. lia.
  - pose proof (v_st _ _ HI c st Hc). lia.
  - congruence.
Qed.

(* ------------------------------------------------------------------ the model facts, per kind of operation *)
Lemma F2_nth (la lb : list (list (nat * N))) :
  Forall2 (fun l0 l1 : list (nat * N) => exists nw, l1 = l0 ++ nw) la lb -> forall i, exists nw, nth i lb [] = nth i la [] ++ nw.
Proof.
  induction 1 as [|x y la lb Hxy H IH]; intros [|i]; cbn [nth]; try (exists []; reflexivity); auto.
Qed.

Lemma PX_get s s' t : PX s s' -> exists nw, p_idle (get_tok s' t) = p_idle (get_tok s t) ++ nw.
Proof.
  intros H. destruct t as [|i]; [exists []; reflexivity|]. cbn [get_tok]. destruct (F2_nth _ _ H i) as [nw Hn]. exists nw.
  change (@nil (nat * N)) with (p_idle empty_tok) in Hn. rewrite !map_nth in Hn. exact Hn.
Qed.

Lemma StepF_plain s o : plainop o -> Lin s -> StepF s (step cfg s o).
Proof.
  intros Hp HL. pose proof (fun dc => step_J cfg s o dc Hp) as HJ.
  assert (HW : forall c, W None (step cfg s o) c <= W None s c + newc s (step cfg s o) c).
  { intros c. pose proof (j_cnt _ _ _ _ _ (HJ 0) c) as H. rewrite cnt_nil in H.
    change (W None (set_out [] s) c) with (W None s c) in H. change (newc (set_out [] s) (step cfg s o) c) with (newc s (step cfg s o) c) in H. lia. }
  assert (Hlen : List.length (conns s) <= List.length (conns (step cfg s o))) by (apply (j_len _ _ _ _ _ (HJ 0))).
  constructor; auto.
  - intros t c a Hin. destruct (PX_get (set_out [] s) (step cfg s o) t (j_px _ _ _ _ _ (HJ 0))) as [nw Hnw].
    change (get_tok (set_out [] s) t) with (get_tok s t) in Hnw. rewrite Hnw in Hin. apply in_app_or in Hin as [Hin|Hin]; [left; exact Hin|].
    right. intros Hc. apply cnt_pos_In in Hc. pose proof (In_cnt_fst _ _ _ Hin) as H1.
    pose proof (W_idle_ge (step cfg s o) t c) as H2. rewrite Hnw, map_app, cnt_app in H2.
    specialize (HW c). specialize (HL c). unfold newc in HW.
    destruct (Nat.ltb_spec c (List.length (conns s))), (Nat.leb_spec (List.length (conns s)) c),
             (Nat.ltb_spec c (List.length (conns (step cfg s o)))); cbn [andb] in HW; lia.
  - intros c Hd r Hq. apply (j_free _ _ _ _ _ (HJ c) Hd r ltac:(discriminate) Hq).
Qed.

Lemma plain_noHand s o c r : plainop o -> dead s c -> qfree (nth_error (reqs s) r) c -> noHand r c (out (step cfg s o)).
Proof. intros Hp Hd Hq. apply (j_hand _ _ _ _ _ (step_J cfg s o c Hp) Hd r Hq). Qed.

Lemma StepF_tick s dt : StepF s (step cfg s (Tick dt)).
Proof.
  constructor; cbn [step]; auto.
  - intros c. change (W None (set_now (now (set_out [] s) + dt) (set_out [] s)) c) with (W None s c). lia.
Qed.

Lemma mtok_out u s : mtok cfg u (set_out [] s) = mtok cfg u s.
Proof. unfold mtok, key_insert. cbn [keys set_out]. destruct (nth u (g_uris cfg) None); [|reflexivity]. destruct (g_pool cfg); [|reflexivity]. destruct (find_key k (keys s) 1); reflexivity. Qed.
Lemma mkeys_out u s : mkeys cfg u (set_out [] s) = mkeys cfg u s.
Proof. unfold mkeys, key_insert. cbn [keys set_out]. destruct (nth u (g_uris cfg) None); [|reflexivity]. destruct (g_pool cfg); [|reflexivity]. destruct (find_key k (keys s) 1); reflexivity. Qed.

Lemma found_in_pre (pre : list (nat * N)) found c : 
  (forall c0, found = Some c0 -> exists dis a, pre = dis ++ [(c0, a)] /\ True) -> cnt (oconn found) c <= cnt (map fst pre) c.
Proof.
  intros H. destruct found as [c0|]; cbn [oconn]; [|rewrite cnt_nil; lia].
  destruct (H c0 eq_refl) as (dis & a & -> & _). rewrite map_app, cnt_app. cbn [map fst]. lia.
Qed.

Lemma StepF_issue s u p pre found qn : Lin s -> IssueSpec cfg u (set_out [] s) (step cfg s (Issue u p)) pre found qn ->
  StepF s (step cfg s (Issue u p)).
Proof.
  intros HL HS. pose proof (is_W _ _ _ _ _ _ _ HS) as HW. pose proof (is_idle _ _ _ _ _ _ _ HS) as Hid.
  assert (Hfp : forall c, cnt (oconn found) c <= cnt (map fst pre) c).
  { intros c. apply found_in_pre. intros c0 E. destruct (is_found _ _ _ _ _ _ _ HS c0 E) as (dis & a & Hp & _). eauto. }
  constructor.
  - rewrite (is_len _ _ _ _ _ _ _ HS). cbn [conns set_out]. lia.
  - intros c. specialize (HW c). specialize (Hfp c). change (W None (set_out [] s) c) with (W None s c) in HW. lia.
  - intros t c a Hin. left. specialize (Hid t). change (get_tok (set_out [] s) t) with (get_tok s t) in Hid. rewrite Hid.
    apply in_or_app. left. exact Hin.
  - intros c [Hd Hlt] r Hq. rewrite (is_reqs _ _ _ _ _ _ _ HS). cbn [reqs set_out]. rewrite nth_error_snoc.
    destruct (Nat.ltb r (List.length (reqs s))); [exact Hq|]. destruct (Nat.eqb r (List.length (reqs s))); [|exact I].
    apply (is_qn _ _ _ _ _ _ _ HS). intros E. specialize (HW c). specialize (Hfp c). rewrite E in Hfp. cbn [oconn] in Hfp.
    rewrite cnt_cons in Hfp. destruct (Nat.eq_dec c c); [|congruence].
    specialize (Hid (mtok cfg u (set_out [] s))). rewrite Nat.eqb_refl in Hid.
    pose proof (W_idle_ge s (mtok cfg u (set_out [] s)) c) as H2. change (get_tok (set_out [] s)) with (get_tok s) in Hid.
    rewrite Hid, map_app, cnt_app, map_rev, cnt_rev in H2. lia.
Qed.

(* ------------------------------------------------------------------ the tracker's reading of the op *)
Lemma top_plain m o ob : plainop o -> same_meta m (track_op cfg m o ob) /\ sv (track_op cfg m o ob) = sv m.
Proof.
  intros Hp. destruct o; try contradiction; cbn [track_op]; try (split; [apply sm_refl|reflexivity]).
  - destruct (nth_error (m_reqs m) r) as [x|]; [|split; [apply sm_refl|reflexivity]].
    destruct (ri_stat x); try (split; [apply sm_refl|reflexivity]);
      (split; [apply sm_ri_upd; intros y; destruct (ri_stat y), (ri_dial y); auto|reflexivity]).
  - destruct (holder_conn m r); [|split; [apply sm_refl|reflexivity]]. split; [apply sm_ci_upd|apply sv_ci_upd_id; reflexivity].
  - split; [apply sm_ri_upd; intros y; destruct (ri_dial y), (ri_resolved y); auto|reflexivity].
  - split; [apply sm_ci_upd|apply sv_ci_upd_id; reflexivity].
Qed.

Definition trk_keys (m : mst) (u : nat) : list key :=
  match nth u (g_uris cfg) None with
  | Some k' => if g_pool cfg then match find_key k' (m_keys m) 1 with Some _ => m_keys m | None => m_keys m ++ [k'] end else m_keys m
  | None => m_keys m
  end.
Definition trk_tok (m : mst) (u : nat) : nat :=
  match nth u (g_uris cfg) None with Some k' => if g_pool cfg then tok_of (trk_keys m u) k' else 0 | None => 0 end.
Definition trk_popx (m : mst) (u : nat) (ob : opobs) : option nat :=
  match skipn (List.length (idle_of (o_snap ob) (trk_tok m u))) (idle_of (o_snap (m_prev m)) (trk_tok m u)) with c :: _ => Some c | [] => None end.

Lemma top_issue m u p ob :
  pv (track_op cfg m (Issue u p) ob) = pv m ++ [(m_time m, trk_popx m u ob)] /\
  m_keys (track_op cfg m (Issue u p) ob) = trk_keys m u /\ m_time (track_op cfg m (Issue u p) ob) = m_time m /\
  sv (track_op cfg m (Issue u p) ob) = sv m.
Proof.
  cbn [track_op]. cbv zeta. split; [|split; [|split]]; try reflexivity.
  unfold pv. cbn [m_reqs set_m_keys set_m_reqs]. rewrite map_app. reflexivity.
Qed.

Lemma key_eqb_refl k : key_eqb k k = true.
Proof. unfold key_eqb, eq_ci. rewrite !String.eqb_refl. reflexivity. Qed.
Lemma find_key_snoc k : forall l i, find_key k l i = None -> find_key k (l ++ [k]) i = Some (i + List.length l).
Proof.
  induction l as [|a l IH]; intros i H; cbn [find_key app List.length] in *.
  - rewrite key_eqb_refl. f_equal. lia.
  - destruct (key_eqb k a); [discriminate|]. rewrite (IH (S i) H). f_equal. lia.
Qed.

Lemma tok_agree m s u : m_keys m = keys s -> trk_tok m u = mtok cfg u s /\ trk_keys m u = mkeys cfg u s.
Proof.
  intros Hk. unfold trk_tok, trk_keys, mtok, mkeys, key_insert. rewrite Hk.
  destruct (nth u (g_uris cfg) None) as [k|]; [|auto]. destruct (g_pool cfg); [|auto].
  unfold tok_of. destruct (find_key k (keys s) 1) as [t|] eqn:E; cbn [fst snd keys set_toks set_keys].
  - rewrite E. auto.
  - rewrite (find_key_snoc k (keys s) 1 E). auto.
Qed.

Lemma skipn_app_len {A} (l1 l2 : list A) : skipn (List.length l1) (l1 ++ l2) = l2.
Proof. induction l1; cbn; auto. Qed.

(* ------------------------------------------------------------------ one operation *)
Lemma clen_of_Inv m s : Inv cfg m s -> List.length (sv m) = List.length (conns s).
Proof. intros [_ HR]. pose proof (rm_len _ _ _ HR) as H. unfold sv, cv, copen in *. rewrite !map_length in *. exact H. Qed.

Lemma step_plain m s o : plainop o -> Inv2 m s ->
  Inv cfg (track cfg m o (observe (step cfg s o))) (step cfg s o) ->
  Inv2 (track cfg m o (observe (step cfg s o))) (step cfg s o)
  /\ evs_ok (chk2 cfg) (track_op cfg m o (observe (step cfg s o))) (rev (out (step cfg s o))) = true.
Proof.
  intros Hp HI HI'. destruct (top_plain m o (observe (step cfg s o)) Hp) as [SM SV].
  pose proof (step_J cfg s o 0 Hp) as HJ0.
  split.
  - apply (Inv2_next m s o (step cfg s o) []); auto.
    + apply StepF_plain; [exact Hp|apply (v_lin _ _ HI)].
    + apply IS_step, (v_sorted _ _ HI).
    + apply clen_of_Inv, HI'.
    + rewrite (sm_time _ _ SM). lia.
    + rewrite (sm_time _ _ SM), (j_now _ _ _ _ _ HJ0). apply (v_clock _ _ HI).
    + rewrite (sm_keys _ _ SM), (v_keys _ _ HI), (j_keys _ _ _ _ _ HJ0). reflexivity.
    + rewrite (sm_pv _ _ SM), app_nil_r. reflexivity.
    + rewrite (sm_pv _ _ SM), (v_rlen _ _ HI), (j_rlen _ _ _ _ _ HJ0). reflexivity.
    + intros tm px [].
    + intros r tm c st' Hge Hr. rewrite (sm_pv _ _ SM) in Hr. apply nth_error_lt in Hr. lia.
  - apply evs_ok_all. intros l1 e l2 El. destruct e; try reflexivity.
    destruct (track_views m o (observe (step cfg s o))) as (_ & _ & _ & _ & _ & _ & _ & P8).
    destruct (P8 l1 l2 _ El) as [Hpv [k Hsv]].
    apply chk2_view. intros st tm d Hst Hpr Hd Hpos. rewrite Hpv, (sm_pv _ _ SM) in Hpr. rewrite Hsv, SV in Hst.
    destruct (Nat.ltb_spec c (List.length (sv m))) as [Hlt|Hge].
    + rewrite nth_error_app1 in Hst by exact Hlt.
      destruct (N.le_gt_cases (tm - st) d) as [Hle|Hgt]; [exact Hle|exfalso].
      assert (Hn : ~ OKT tm st) by (intros HO; specialize (HO d Hd Hpos); lia).
      destruct (v_K _ _ HI r tm c st Hpr Hst Hn) as [Hdd Hq].
      apply (plain_noHand s o c r Hp Hdd Hq reused open ready holders).
      apply (proj2 (in_rev _ _)). rewrite El. apply in_elt.
    + rewrite nth_error_app2 in Hst by exact Hge. apply nth_error_repeat in Hst. subst st.
      rewrite (sm_time _ _ SM). pose proof (v_tm _ _ HI r tm (Some c) Hpr). lia.
Qed.

Lemma step_tick m s dt : Inv2 m s ->
  Inv cfg (track cfg m (Tick dt) (observe (step cfg s (Tick dt)))) (step cfg s (Tick dt)) ->
  Inv2 (track cfg m (Tick dt) (observe (step cfg s (Tick dt)))) (step cfg s (Tick dt))
  /\ evs_ok (chk2 cfg) (track_op cfg m (Tick dt) (observe (step cfg s (Tick dt)))) (rev (out (step cfg s (Tick dt)))) = true.
Proof.
  intros HI HI'. split; [|reflexivity].
  apply (Inv2_next m s (Tick dt) (step cfg s (Tick dt)) []); auto.
  - apply StepF_tick.
  - apply IS_step, (v_sorted _ _ HI).
  - apply clen_of_Inv, HI'.
  - cbn [track_op m_time set_m_time]. lia.
  - cbn [track_op m_time set_m_time step now set_now set_out]. rewrite (v_clock _ _ HI). lia.
  - apply (v_keys _ _ HI).
  - cbn [track_op]. change (pv (set_m_time (m_time m + dt) m)) with (pv m). rewrite app_nil_r. reflexivity.
  - apply (v_rlen _ _ HI).
  - intros tm px [].
  - intros r tm c st' Hge Hr. change (pv (track_op cfg m (Tick dt) (observe (step cfg s (Tick dt))))) with (pv m) in Hr.
    apply nth_error_lt in Hr. lia.
Qed.

Lemma step_issue m s u p : Inv2 m s ->
  Inv cfg (track cfg m (Issue u p) (observe (step cfg s (Issue u p)))) (step cfg s (Issue u p)) ->
  Inv2 (track cfg m (Issue u p) (observe (step cfg s (Issue u p)))) (step cfg s (Issue u p))
  /\ evs_ok (chk2 cfg) (track_op cfg m (Issue u p) (observe (step cfg s (Issue u p)))) (rev (out (step cfg s (Issue u p)))) = true.
Proof.
  intros HI HI'.
  destruct (issue_spec cfg u p (set_out [] s) eq_refl) as (pre & found & qn & HS).
  change (do_issue cfg u p (set_out [] s)) with (step cfg s (Issue u p)) in HS.
  set (s' := step cfg s (Issue u p)) in *.
  destruct (top_issue m u p (observe s')) as (Tpv & Tkeys & Ttime & Tsv).
  destruct (tok_agree m s u (v_keys _ _ HI)) as [Etok Ekeys].
  pose proof (StepF_issue s u p pre found qn (v_lin _ _ HI) HS) as HF.
  pose proof (is_idle _ _ _ _ _ _ _ HS (mtok cfg u s)) as Hid. rewrite mtok_out, Nat.eqb_refl in Hid.
  change (get_tok (set_out [] s)) with (get_tok s) in Hid.
  split.
  - apply (Inv2_next m s (Issue u p) s' [(m_time m, trk_popx m u (observe s'))]); auto.
    + apply IS_step, (v_sorted _ _ HI).
    + apply clen_of_Inv, HI'.
    + rewrite Ttime. lia.
    + rewrite Ttime, (is_now _ _ _ _ _ _ _ HS). apply (v_clock _ _ HI).
    + rewrite Tkeys, Ekeys, (is_keys _ _ _ _ _ _ _ HS), mkeys_out. reflexivity.
    + rewrite Tpv, app_length, (is_reqs _ _ _ _ _ _ _ HS), app_length, (v_rlen _ _ HI). reflexivity.
    + intros tm px [E|[]]. inversion E; subst. rewrite Ttime. lia.
    + intros r tm c st' Hge Hr Hst' Hn. rewrite Tpv, nth_error_snoc in Hr.
      destruct (Nat.ltb_spec r (List.length (pv m))); [lia|].
      destruct (Nat.eqb_spec r (List.length (pv m))) as [->|]; [|discriminate]. inversion Hr as [[Etm Epx]]. subst tm.
      (* the tracker's popx is the oldest removed connection *)
      unfold trk_popx in Epx. rewrite (v_prev _ _ HI), Etok in Epx.
      change (o_snap (observe s')) with (snapshot s') in Epx. rewrite !idle_of_snapshot, Hid, map_app, map_length in Epx.
      rewrite <- (map_length fst (p_idle (get_tok s' (mtok cfg u s)))), skipn_app_len in Epx.
      destruct (rev pre) as [|[c0 a0] rp] eqn:Erp; cbn [map fst] in Epx; [discriminate|]. inversion Epx; subst c0.
      assert (Hpre : pre = rev rp ++ [(c, a0)]) by (rewrite <- (rev_involutive pre), Erp; reflexivity).
      assert (Hin : In (c, a0) (p_idle (get_tok s (mtok cfg u s)))) by (rewrite Hid; apply in_or_app; right; left; reflexivity).
      destruct found as [cf|] eqn:Ef.
      * exfalso. destruct (is_found _ _ _ _ _ _ _ HS cf eq_refl) as (dis & a & Hp2 & Hthr).
        rewrite Hpre in Hp2. apply app_inj_tail in Hp2 as [_ E2]. inversion E2; subst cf a0.
        destruct (v_E _ _ HI _ c a Hin) as (st & Hst & Ha).
        destruct (sv_mono m s (Issue u p) (observe s') HI Tsv ltac:(rewrite Ttime; lia) c st Hst) as (st2 & Hst2 & Hle).
         rewrite Hst' in Hst2. inversion Hst2; subst st2.
        apply Hn. intros d Hd Hpos. pose proof (v_clock _ _ HI) as Hck. cbn [now set_out] in Hthr.
        destruct (N.le_gt_cases d (now s)) as [Hdl|Hdg].
        -- specialize (Hthr d Hd (conj Hpos Hdl)). lia.
        -- lia.
      * assert (Hc1 : 1 <= cnt (map fst pre) c) by (rewrite Hpre, map_app, cnt_app; cbn [map fst]; rewrite cnt_cons; destruct (Nat.eq_dec c c); [lia|congruence]).
        pose proof (is_W _ _ _ _ _ _ _ HS c) as HW. cbn [oconn] in HW. rewrite cnt_nil in HW.
        change (W None (set_out [] s) c) with (W None s c) in HW.
        pose proof (Lin_exists s _ c a0 (v_lin _ _ HI) Hin) as Hex. pose proof (v_lin _ _ HI c) as HLc.
        destruct (Nat.ltb_spec c (List.length (conns s))); [|lia].
        split.
        -- split; [lia|]. rewrite (is_len _ _ _ _ _ _ _ HS). exact Hex.
        -- rewrite (v_rlen _ _ HI), (is_reqs _ _ _ _ _ _ _ HS). cbn [reqs set_out].
           rewrite nth_error_app2 by lia. rewrite Nat.sub_diag. cbn [nth_error].
           apply (is_qn _ _ _ _ _ _ _ HS). discriminate.
  - apply evs_ok_all. intros l1 e l2 El.
    assert (Hin : In e (out s')) by (apply (proj2 (in_rev _ _)); rewrite El; apply in_elt).
    pose proof (is_od _ _ _ _ _ _ _ HS) as Hod. unfold od in Hod. rewrite Forall_forall in Hod. specialize (Hod e Hin).
    destruct e; try contradiction; reflexivity.
Qed.

Definition Inv3 (m : mst) (s : state) : Prop := Inv cfg m s /\ Inv2 m s.

Lemma Inv3_init : Inv3 m0 init.
Proof.
  split; [apply Inv_init|]. constructor; try reflexivity.
  - intros [|r] tm px H; discriminate.
  - intros [|c] st H; discriminate.
  - intros [|[|t]] c a H; destruct H.
  - intros [|r] tm c st H; discriminate.
  - intros c. cbn. lia.
  - apply IS_init.
Qed.

Theorem mon_C05_trace_from : forall ops s m, Inv3 m s -> mon_steps chk_C05 cfg m ops (trace_from cfg s ops) = true.
Proof.
  induction ops as [|o ops IH]; intros s m [HI HI2]; cbn [trace_from mon_steps]; [reflexivity|].
  pose proof (G_step cfg m s o (observe (step cfg s o)) HI) as HG.
  pose proof (Inv_track cfg m o (observe (step cfg s o)) (step cfg s o) HG eq_refl) as HI'.
  assert (H2 : Inv2 (track cfg m o (observe (step cfg s o))) (step cfg s o)
               /\ evs_ok (chk2 cfg) (track_op cfg m o (observe (step cfg s o))) (rev (out (step cfg s o))) = true).
  { destruct o; try (apply step_plain; [exact I|exact HI2|exact HI']).
    - apply step_issue; assumption.
    - apply step_tick; assumption. }
  destruct H2 as [HI2' Hc2].
  apply andb_true_iff. split.
  - unfold chk_C05. cbn [observe o_events]. rewrite (evs_ok_and chk1 (chk2 cfg) (chk_ev_C05 cfg) (chk_split cfg)).
    rewrite (proj1 HG), Hc2. reflexivity.
  - apply IH. split; assumption.
Qed.

End T.

Theorem mon_C05_holds : forall cfg ops, mon_C05 cfg ops (trace cfg ops) = true.
Proof. intros cfg ops. apply mon_C05_trace_from. apply Inv3_init. Qed.
