(* C14 support, part 1: generic list facts, the decomposition of the C14 monitor into one monitor per
   clause ((a1) ERdy, (a2) EHand, (b) ENew, (b') Bg), and the induction skeleton over the trace. *)
From HD Require Import common.Base http.Model pool.Model pool.Spec.
Local Open Scope list_scope.

(* ------------------------------------------------------------------ lists *)
Lemma upd_nth_len {A} (f : A -> A) : forall l n, List.length (upd_nth n f l) = List.length l.
Proof. induction l as [|x l IH]; intros [|n]; cbn [upd_nth List.length]; auto. Qed.

Lemma nth_error_upd {A} (f : A -> A) : forall l n k,
  nth_error (upd_nth n f l) k = if Nat.eqb n k then option_map f (nth_error l k) else nth_error l k.
Proof.
  induction l as [|x l IH]; intros [|n] [|k]; cbn [upd_nth nth_error Nat.eqb option_map]; auto.
  destruct (Nat.eqb _ _); reflexivity.
Qed.
Lemma nth_error_upd_ne {A} (f : A -> A) l n k : n <> k -> nth_error (upd_nth n f l) k = nth_error l k.
Proof. intros H. rewrite nth_error_upd. destruct (Nat.eqb_spec n k); [contradiction|reflexivity]. Qed.
Lemma nth_error_upd_eq {A} (f : A -> A) l n : nth_error (upd_nth n f l) n = option_map f (nth_error l n).
Proof. rewrite nth_error_upd, Nat.eqb_refl. reflexivity. Qed.

Lemma nth_upd {A} (f : A -> A) d : forall l n k, nth k (upd_nth n f l) d = if Nat.eqb n k then (if Nat.ltb k (List.length l) then f (nth k l d) else d) else nth k l d.
Proof.
  induction l as [|x l IH]; intros [|n] [|k]; cbn [upd_nth nth Nat.eqb List.length]; auto.
  - destruct (Nat.eqb n k); reflexivity.
  - rewrite IH. destruct (Nat.eqb n k); [|reflexivity].
    change (S k <? S (List.length l)) with (k <? List.length l). reflexivity.
Qed.

Lemma map_upd {A B} (g : A -> B) (f : A -> A) (h : B -> B) :
  (forall x, g (f x) = h (g x)) -> forall l n, map g (upd_nth n f l) = upd_nth n h (map g l).
Proof. intros H. induction l as [|x l IH]; intros [|n]; cbn [upd_nth map]; auto; [rewrite H|rewrite IH]; reflexivity. Qed.
Lemma map_upd_id {A B} (g : A -> B) (f : A -> A) :
  (forall x, g (f x) = g x) -> forall l n, map g (upd_nth n f l) = map g l.
Proof. intros H. induction l as [|x l IH]; intros [|n]; cbn [upd_nth map]; auto; [rewrite H|rewrite IH]; reflexivity. Qed.

Lemma nth_error_snoc {A} (l : list A) x k :
  nth_error (l ++ [x]) k = if Nat.ltb k (List.length l) then nth_error l k
                           else if Nat.eqb k (List.length l) then Some x else None.
Proof.
  destruct (Nat.ltb_spec k (List.length l)) as [Hlt|Hge].
  - apply nth_error_app1. exact Hlt.
  - rewrite nth_error_app2 by exact Hge. destruct (Nat.eqb_spec k (List.length l)) as [->|Hne].
    + rewrite Nat.sub_diag. reflexivity.
    + destruct (k - List.length l) as [|[|j]] eqn:E; cbn; try reflexivity. lia.
Qed.
Lemma nth_error_lt {A} (l : list A) k x : nth_error l k = Some x -> k < List.length l.
Proof. intros H. apply nth_error_Some. rewrite H. discriminate. Qed.
Lemma nth_error_ex {A} (l : list A) k : k < List.length l -> exists x, nth_error l k = Some x.
Proof. intros H. destruct (nth_error l k) eqn:E; [eauto|]. apply nth_error_None in E. lia. Qed.
Lemma nth_error_map' {A B} (f : A -> B) : forall l n, nth_error (map f l) n = option_map f (nth_error l n).
Proof. induction l as [|x l IH]; intros [|n]; cbn [map nth_error option_map]; auto. Qed.

(* ------------------------------------------------------------------ evs_ok *)
Lemma evs_ok_snoc f : forall l m e, evs_ok f m (l ++ [e]) = evs_ok f m l && f (fold_left track_ev l m) e.
Proof.
  induction l as [|a l IH]; intros m e; cbn [app evs_ok fold_left].
  - rewrite andb_true_r. reflexivity.
  - rewrite IH, andb_assoc. reflexivity.
Qed.
Lemma evs_ok_and f g : forall l m, evs_ok (fun m e => f m e && g m e) m l = evs_ok f m l && evs_ok g m l.
Proof.
  induction l as [|a l IH]; intros m; cbn [evs_ok]; [reflexivity|]. rewrite IH.
  destruct (f m a), (g m a), (evs_ok f (track_ev m a) l), (evs_ok g (track_ev m a) l); reflexivity.
Qed.
Lemma evs_ok_ext f g : (forall m e, f m e = g m e) -> forall l m, evs_ok f m l = evs_ok g m l.
Proof. intros H. induction l as [|a l IH]; intros m; cbn [evs_ok]; [reflexivity|]. rewrite H, IH. reflexivity. Qed.
(* pointwise weakening *)
Lemma evs_ok_impl (f g : mst -> ev -> bool) : (forall m e, f m e = true -> g m e = true) ->
  forall l m, evs_ok f m l = true -> evs_ok g m l = true.
Proof.
  intros H. induction l as [|a l IH]; intros m; cbn [evs_ok]; [reflexivity|].
  rewrite !andb_true_iff. intros [H1 H2]. split; auto.
Qed.

Definition cur (m0 : mst) (s : state) : mst := fold_left track_ev (rev (out s)) m0.
Lemma cur_emit m0 e s : cur m0 (emit e s) = track_ev (cur m0 s) e.
Proof. unfold cur, emit. cbn [out set_out rev]. rewrite fold_left_app. reflexivity. Qed.
Lemma cur_out m0 s s' : out s' = out s -> cur m0 s' = cur m0 s.
Proof. unfold cur. intros ->. reflexivity. Qed.

(* ------------------------------------------------------------------ one monitor per clause *)
Definition cA1 (cfg : config) (ob : opobs) (m : mst) (e : ev) : bool :=
  match e with
  | ERdy c true =>
      match nth_error (m_conns m) c with
      | Some x =>
          if g_pool cfg && negb (ci_share x) && match ci_closed x with None => true | _ => false end then
            let t := key_tok m (conn_key m c) in
            negb (mem c (idle_of (o_snap ob) t) && Nat.ltb 0 (live_of (o_snap ob) t))
          else true
      | None => false
      end
  | _ => true
  end.
Definition cA2 (m : mst) (e : ev) : bool :=
  match e with
  | EHand r c _ _ _ _ =>
      match nth_error (m_conns m) c, nth_error (m_reqs m) r with
      | Some x, Some y => match ci_offer x with Some i0 => Nat.leb (ri_lastpend y) (S i0) | None => true end
      | _, _ => false
      end
  | _ => true
  end.
Definition cA3 (cfg : config) (ob : opobs) (m : mst) (e : ev) : bool :=
  match e with
  | EPend r =>
      match nth_error (m_reqs m) r with
      | Some y =>
          if g_pool cfg && is_live y && match ri_dial y with DsFlying => true | _ => false end then
            forallb (fun c => match nth_error (m_conns m) c with
                              | Some x => ci_share x || negb (open_conn m c && usable cfg m c)
                              | None => true end)
                    (idle_of (o_snap ob) (key_tok m (ri_key y)))
          else true
      | None => false
      end
  | _ => true
  end.
Definition cB (cfg : config) (ob : opobs) (m : mst) (e : ev) : bool :=
  match e with
  | ENew c sh r =>
      match nth_error (m_reqs m) r with
      | Some y =>
          if ri_aband y then
            g_cont cfg &&
            (let t := key_tok m (ri_key y) in
             mem c (idle_of (o_snap ob) t)
             || Nat.leb (g_max_idle cfg) (List.length (idle_of (o_snap ob) t))
             || Nat.ltb 0 (live_of (o_snap (m_prev m)) t))
          else true
      | None => false
      end
  | _ => true
  end.

Lemma chk_ev_C14_split cfg o ob m e : chk_ev_C14 cfg o ob m e = cA1 cfg ob m e && cA2 m e && cB cfg ob m e && cA3 cfg ob m e.
Proof.
  destruct e as [r k|c sh r|r c a b d h|r|r x|r c|c|c okb]; cbn [chk_ev_C14 cA1 cA2 cB cA3]; try reflexivity.
  - rewrite andb_true_r. reflexivity.
  - destruct (match nth_error (m_conns m) c with Some _ => _ | None => _ end); reflexivity.
  - destruct okb; [|reflexivity]. rewrite !andb_true_r. reflexivity.
Qed.

Definition chk_A1 (cfg : config) (m : mst) (o : op) (ob : opobs) : bool := evs_ok (cA1 cfg ob) (track_op cfg m o ob) (o_events ob).
Definition chk_A2 (cfg : config) (m : mst) (o : op) (ob : opobs) : bool := evs_ok cA2 (track_op cfg m o ob) (o_events ob).
Definition chk_B (cfg : config) (m : mst) (o : op) (ob : opobs) : bool := evs_ok (cB cfg ob) (track_op cfg m o ob) (o_events ob).
Definition chk_A3 (cfg : config) (m : mst) (o : op) (ob : opobs) : bool := evs_ok (cA3 cfg ob) (track_op cfg m o ob) (o_events ob).

Lemma chk_C14_split cfg m o ob :
  chk_C14 cfg m o ob = chk_A1 cfg m o ob && chk_A2 cfg m o ob && chk_B cfg m o ob && chk_A3 cfg m o ob && chk_bg_C14 cfg m o ob.
Proof.
  unfold chk_C14, chk_A1, chk_A2, chk_B, chk_A3.
  rewrite (evs_ok_ext _ _ (chk_ev_C14_split cfg o ob)), !evs_ok_and. reflexivity.
Qed.

Lemma mon_steps_and (f g : config -> mst -> op -> opobs -> bool) cfg : forall ops obs m,
  mon_steps (fun c m o ob => f c m o ob && g c m o ob) cfg m ops obs = mon_steps f cfg m ops obs && mon_steps g cfg m ops obs.
Proof.
  induction ops as [|o ops IH]; intros [|ob obs] m; cbn [mon_steps]; try reflexivity.
  rewrite IH. destruct (f cfg m o ob), (g cfg m o ob), (mon_steps f cfg (track cfg m o ob) ops obs); reflexivity.
Qed.
Lemma mon_steps_ext (f g : config -> mst -> op -> opobs -> bool) cfg : (forall m o ob, f cfg m o ob = g cfg m o ob) ->
  forall ops obs m, mon_steps f cfg m ops obs = mon_steps g cfg m ops obs.
Proof. intros H. induction ops as [|o ops IH]; intros [|ob obs] m; cbn [mon_steps]; try reflexivity. rewrite H, IH. reflexivity. Qed.

Theorem mon_C14_split cfg ops obs :
  mon_C14 cfg ops obs = mon_with chk_A1 cfg ops obs && mon_with chk_A2 cfg ops obs && mon_with chk_B cfg ops obs
                        && mon_with chk_A3 cfg ops obs && mon_with chk_bg_C14 cfg ops obs.
Proof.
  unfold mon_C14, mon_with.
  rewrite (mon_steps_ext chk_C14
             (fun c m o ob => chk_A1 c m o ob && chk_A2 c m o ob && chk_B c m o ob && chk_A3 c m o ob && chk_bg_C14 c m o ob) cfg (chk_C14_split cfg)).
  rewrite !mon_steps_and. reflexivity.
Qed.

(* ------------------------------------------------------------------ induction skeleton *)
(* [Bnd m s]: relation between the tracker and the model at an operation boundary *)
Lemma mon_skeleton (Bnd : mst -> state -> Prop) (chk : config -> mst -> op -> opobs -> bool) cfg :
  (forall m s o, Bnd m s -> chk cfg m o (observe (step cfg s o)) = true /\ Bnd (track cfg m o (observe (step cfg s o))) (step cfg s o)) ->
  forall ops m s, Bnd m s -> mon_steps chk cfg m ops (trace_from cfg s ops) = true.
Proof.
  intros Hstep. induction ops as [|o ops IH]; intros m s H; cbn [trace_from mon_steps]; [reflexivity|].
  destruct (Hstep m s o H) as [Hc Hn]. rewrite Hc. cbn [andb]. apply IH. exact Hn.
Qed.
