(* Where dials start (model only): an [EDial] is emitted by Connector::poll_connector for a dial in
   stage DNew and by nothing else.  Used by pool/ProofsC04d.v (clause S3 at the start of a dial). *)
From Coq Require Import List Arith Lia NArith Bool.
From HD Require Import common.Base http.Model pool.Model pool.ProofsLite.
Import ListNotations.
Local Open Scope list_scope.

Definition is_dial (e : ev) : bool := match e with EDial _ _ => true | _ => false end.
(* the dials started so far in the current op *)
Definition dl (s : state) : list ev := filter is_dial (out s).

Lemma dl_emit e s : is_dial e = false -> dl (emit e s) = dl s.
Proof. intros H. unfold dl, emit. cbn [out set_out filter]. rewrite H. reflexivity. Qed.
Lemma dl_same s s' : out s' = out s -> dl s' = dl s.
Proof. unfold dl. intros E. rewrite E. reflexivity. Qed.
Lemma dl_in r k s : In (EDial r k) (out s) <-> In (EDial r k) (dl s).
Proof. unfold dl. rewrite filter_In. cbn. tauto. Qed.

(* delayed attempts in the task table *)
Definition TDsub (s s' : state) : Prop :=
  forall tid rid t own, nth_error (tasks s') tid = Some (Some (TDelayed rid t own)) ->
                        nth_error (tasks s) tid = Some (Some (TDelayed rid t own)).

(* frame: no dial started, dial table untouched, no delayed attempt added *)
Definition fr (s s' : state) : Prop := dl s' = dl s /\ dials s' = dials s /\ TDsub s s'.

Lemma fr_refl s : fr s s.
Proof. split; [reflexivity|split; [reflexivity|]]. intros tid rid t own H. exact H. Qed.
Lemma fr_trans a b c : fr a b -> fr b c -> fr a c.
Proof.
  intros (A1 & A2 & A3) (B1 & B2 & B3). split; [congruence|split; [congruence|]].
  intros tid rid t own H. apply A3, B3, H.
Qed.
Lemma fr_same s s' : out s' = out s -> dials s' = dials s -> tasks s' = tasks s -> fr s s'.
Proof.
  intros A B C. split; [apply dl_same, A|split; [exact B|]]. intros tid rid t own H. rewrite C in H. exact H.
Qed.
Lemma fr_emit e s : is_dial e = false -> fr s (emit e s).
Proof.
  intros H. split; [apply dl_emit, H|split; [reflexivity|]]. intros tid rid t own E. exact E.
Qed.

Lemma fr_upd_conn c f s : fr s (upd_conn c f s). Proof. apply fr_same; reflexivity. Qed.
Lemma fr_set_req r v s : fr s (set_req r v s). Proof. apply fr_same; reflexivity. Qed.
Lemma fr_upd_tok t f s : fr s (upd_tok t f s). Proof. destruct t; [apply fr_refl|apply fr_same; reflexivity]. Qed.
Lemma fr_wake_req r s : fr s (wake_req r s). Proof. apply fr_same; reflexivity. Qed.
Lemma fr_unwake_req r s : fr s (unwake_req r s). Proof. apply fr_same; reflexivity. Qed.
Lemma fr_clone_conn c s : fr s (clone_conn c s). Proof. apply fr_upd_conn. Qed.
Lemma fr_wake_task tid s : fr s (wake_task tid s).
Proof. unfold wake_task. destruct (existsb _ _); [apply fr_refl|apply fr_same; reflexivity]. Qed.
Lemma fr_wake_poller p r s : fr s (wake_poller p r s).
Proof. destruct p as [[|tid]|]; cbn [wake_poller]; [apply fr_wake_req|apply fr_wake_task|apply fr_refl]. Qed.

Lemma fr_drop_conn c s : fr s (drop_conn c s).
Proof.
  unfold drop_conn. destruct (get_conn s c) as [cn|]; [|apply fr_refl].
  destruct (Nat.eqb _ 0); [|apply fr_upd_conn]. eapply fr_trans; [apply fr_upd_conn|apply fr_emit; reflexivity].
Qed.

Lemma fr_spawn_ready c t s : fr s (spawn (TWhenReady c t) s).
Proof.
  split; [reflexivity|split; [reflexivity|]]. intros tid rid t0 own H. unfold spawn in H. cbn [tasks set_runq set_tasks] in H.
  destruct (Nat.lt_ge_cases tid (List.length (tasks s))) as [L|L].
  - rewrite nth_error_app1 in H by exact L. exact H.
  - rewrite nth_error_app2 in H by exact L. destruct (tid - List.length (tasks s)) as [|n]; cbn in H; [discriminate|destruct n; discriminate].
Qed.

Lemma fr_finish_task tid s : fr s (finish_task tid s).
Proof.
  split; [reflexivity|split; [reflexivity|]]. intros i rid t own H. unfold finish_task in H. cbn [tasks set_tasks] in H.
  rewrite nth_error_upd_nth in H. destruct (Nat.eqb tid i); [|exact H].
  destruct (nth_error (tasks s) i); cbn in H; discriminate.
Qed.

Lemma fr_pooled_drop p s : fr s (pooled_drop p s).
Proof. destruct p as [c t]. cbn [pooled_drop]. destruct (share_of s c); [apply fr_drop_conn|apply fr_spawn_ready]. Qed.

Lemma fr_deliver w p s : fr s (deliver w p s).
Proof.
  unfold deliver. destruct (get_req s w) as [[|ck|? ? ?| |]|]; try apply fr_refl.
  destruct (k_rxpolled ck); [eapply fr_trans; [apply fr_set_req|apply fr_wake_req]|apply fr_set_req].
Qed.

Lemma fr_walk_waiters t c sh : forall ws s, fr s (snd (walk_waiters t c sh ws s)).
Proof.
  induction ws as [|[w b] ws IH]; intros s; cbn [walk_waiters]; [apply fr_refl|].
  destruct (rx_live s w); [|apply IH]. destruct sh.
  - eapply fr_trans; [|apply IH]. eapply fr_trans; [apply fr_clone_conn|apply fr_deliver].
  - cbn [snd]. apply fr_deliver.
Qed.

Lemma fr_pool_push n t c s : fr s (pool_push n t c s).
Proof.
  unfold pool_push.
  set (s1 := if share_of s c then upd_tok t (set_marker None) s else s).
  assert (F1 : fr s s1) by (unfold s1; destruct (share_of s c); [apply fr_upd_tok|apply fr_refl]).
  pose proof (fr_walk_waiters t c (share_of s1 c) (p_waiting (get_tok s1 t)) s1) as F2.
  destruct (walk_waiters t c (share_of s1 c) (p_waiting (get_tok s1 t)) s1) as [[rest moved] s2]. cbn [snd] in F2.
  eapply fr_trans; [exact F1|]. eapply fr_trans; [exact F2|].
  destruct moved; [apply fr_upd_tok|].
  destruct (Nat.ltb _ n); [eapply fr_trans; apply fr_upd_tok|eapply fr_trans; [apply fr_upd_tok|apply fr_drop_conn]].
Qed.

Lemma fr_drop_sender w s : fr s (drop_sender w s).
Proof.
  unfold drop_sender. destruct (get_req s w) as [[|ck|? ? ?| |]|]; try apply fr_refl.
  destruct (k_waiter ck); try apply fr_refl;
    (destruct (k_rxpolled ck); [eapply fr_trans; [apply fr_set_req|apply fr_wake_req]|apply fr_set_req]).
Qed.

Lemma fr_release_pending : forall ws s, fr s (snd (release_pending ws s)).
Proof.
  induction ws as [|[w b] ws IH]; intros s; cbn [release_pending]; [apply fr_refl|].
  destruct b.
  - eapply fr_trans; [apply fr_drop_sender|apply IH].
  - specialize (IH s). destruct (release_pending ws s) as [r' s']. exact IH.
Qed.

Lemma fr_pool_cancel t rid s : fr s (pool_cancel t rid s).
Proof.
  unfold pool_cancel. destruct (p_marker (get_tok s t)) as [o|]; [|apply fr_refl].
  destruct (Nat.eqb o rid); [|apply fr_refl].
  set (s1 := upd_tok t (set_marker None) s).
  pose proof (fr_release_pending (p_waiting (get_tok s1 t)) s1) as F.
  destruct (release_pending (p_waiting (get_tok s1 t)) s1) as [rest s2]. cbn [snd] in F.
  eapply fr_trans; [apply fr_upd_tok|]. eapply fr_trans; [exact F|apply fr_upd_tok].
Qed.

Lemma fr_register cfg t c s : fr s (snd (register cfg t c s)).
Proof.
  unfold register. destruct (g_pool cfg && negb (Nat.eqb t 0)); [|apply fr_refl].
  destruct (share_of s c); cbn [snd]; [|apply fr_refl].
  destruct (is_open s c); [|apply fr_refl]. eapply fr_trans; [apply fr_clone_conn|apply fr_pool_push].
Qed.

Lemma fr_rx_drop ck s : fr s (snd (rx_drop ck s)).
Proof.
  unfold rx_drop. destruct (k_waiter ck), (k_slot ck); cbn [snd]; try apply fr_refl; apply fr_pooled_drop.
Qed.

Lemma fr_hold_release r p s : fr s (hold_release r p s).
Proof.
  unfold hold_release. eapply fr_trans; [|apply fr_pooled_drop]. eapply fr_trans; [apply fr_upd_conn|apply fr_emit; reflexivity].
Qed.

(* ------------------------------------------------------------------ the connector *)
(* stages never return to DNew *)
Definition SNb (s s' : state) : Prop :=
  forall r d', get_dial s' r = Some d' -> exists d, get_dial s r = Some d /\ (d_stage d <> DNew -> d_stage d' <> DNew).
Lemma SNb_same s s' : dials s' = dials s -> SNb s s'.
Proof. intros E r d' H. unfold get_dial in *. rewrite E in H. eauto. Qed.
Lemma SNb_trans a b c : SNb a b -> SNb b c -> SNb a c.
Proof.
  intros H1 H2 r d'' H. destruct (H2 r d'' H) as (d' & Hd' & I2). destruct (H1 r d' Hd') as (d & Hd & I1). eauto.
Qed.
Lemma SNb_upd_dial rid f s s1 : dials s1 = dials s -> (forall d, d_stage (f d) <> DNew) -> SNb s (upd_dial rid f s1).
Proof.
  intros E1 Hf r d' H. unfold get_dial, upd_dial in *. cbn [dials set_dials] in H. rewrite E1, nth_error_upd_nth in H.
  destruct (Nat.eqb rid r); [|eauto]. destruct (nth_error (dials s) r) as [d|]; cbn in H; [|discriminate].
  inversion H; subst. exists d. split; [reflexivity|]. intros _. apply Hf.
Qed.

Lemma connector_spec rid b s :
  tasks (snd (connector_poll rid b s)) = tasks s /\ SNb s (snd (connector_poll rid b s)) /\
  (dl (snd (connector_poll rid b s)) = dl s \/
   exists d, get_dial s rid = Some d /\ d_stage d = DNew /\ dl (snd (connector_poll rid b s)) = EDial rid (d_key d) :: dl s) /\
  (forall d, get_dial s rid = Some d -> d_stage d <> DNew -> dl (snd (connector_poll rid b s)) = dl s).
Proof.
  unfold connector_poll. destruct (get_dial s rid) as [d|] eqn:Hd; cbn [snd].
  2:{ split; [reflexivity|split; [apply SNb_same; reflexivity|split; [left; reflexivity|intros d E; discriminate E]]]. }
  destruct (d_stage d) as [| |[alpn| |]|] eqn:Es; cbn [snd].
  - split; [reflexivity|]. split; [apply SNb_upd_dial; [reflexivity|intros d0; cbn; discriminate]|]. split.
    + right. exists d. split; [reflexivity|split; [exact Es|reflexivity]].
    + intros d0 E N. inversion E; subst d0. congruence.
  - split; [reflexivity|]. split; [|split; [left; reflexivity|intros; reflexivity]].
    intros r d' H. unfold get_dial, upd_dial in *. cbn [dials set_dials] in H. rewrite nth_error_upd_nth in H.
    destruct (Nat.eqb rid r) eqn:E; [|eauto]. apply Nat.eqb_eq in E. subst r. rewrite Hd in H. cbn in H. inversion H; subst.
    exists d. split; [exact Hd|]. intros _. cbn. rewrite Es. discriminate.
  - split; [reflexivity|]. split; [apply SNb_upd_dial; [reflexivity|intros d0; cbn; discriminate]|]. split; [left; reflexivity|intros; reflexivity].
  - split; [reflexivity|]. split; [apply SNb_upd_dial; [reflexivity|intros d0; cbn; discriminate]|]. split; [left; reflexivity|intros; reflexivity].
  - split; [reflexivity|]. split; [apply SNb_upd_dial; [reflexivity|intros d0; cbn; discriminate]|]. split; [left; reflexivity|intros; reflexivity].
  - split; [reflexivity|]. split; [apply SNb_same; reflexivity|]. split; [left; reflexivity|intros; reflexivity].
Qed.

(* ------------------------------------------------------------------ checkout *)
Lemma dl_upd_dial r f s : dl (upd_dial r f s) = dl s. Proof. reflexivity. Qed.

Lemma dl_checkout_drop cfg rid ck s : dl (checkout_drop cfg rid ck s) = dl s.
Proof.
  unfold checkout_drop. cbv zeta.
  set (hp := g_pool cfg && negb (Nat.eqb (k_token ck) 0)).
  set (s1 := match k_conn ck with
             | Some c => if is_open s c && hp then pool_push (g_max_idle cfg) (k_token ck) c s else drop_conn c s
             | None => s end).
  assert (F1 : dl s1 = dl s).
  { unfold s1. destruct (k_conn ck) as [c|]; [|reflexivity]. destruct (is_open s c && hp); [apply fr_pool_push|apply fr_drop_conn]. }
  match goal with |- context [if ?b then spawn _ _ else _] => generalize b end. intros dly.
  set (s2 := if dly then spawn (TDelayed rid (k_token ck) (k_owner ck)) s1
             else if hp && k_owner ck then pool_cancel (k_token ck) rid s1 else s1).
  assert (F2 : dl s2 = dl s1).
  { unfold s2. destruct dly; [reflexivity|]. destruct (hp && k_owner ck); [apply fr_pool_cancel|reflexivity]. }
  pose proof (fr_rx_drop ck s2) as (F3 & _). destruct (rx_drop ck s2) as [ck3 s3]. cbn [snd] in F3.
  destruct (k_inner ck); try (destruct dly); rewrite ?dl_upd_dial; congruence.
Qed.

Lemma waiter_continue ck : fst (waiter_poll ck) = WContinue -> k_waiter ck = WIdle -> k_slot ck = None.
Proof. unfold waiter_poll. intros H E. rewrite E in H. destruct (k_slot ck); [discriminate|reflexivity]. Qed.

Definition conn_branch (cfg : config) (rid : nat) (ck1 : checkout) (s : state) : kpoll * checkout * state :=
  let '(r, s) := connector_poll rid ByReq s in
  match r with
  | CPending => (KPending, ck1, s)
  | CReady res =>
      let '(ck, s) := rx_drop ck1 s in
      let ck := k_set_inner IConnected ck in
      let s := set_req rid (RCheckout ck) s in
      match res with
      | inl c => let '(p, s) := register cfg (k_token ck) c s in (KReady (inl p), ck, s)
      | inr e => (KReady (inr e), ck, s)
      end
  end.

Lemma conn_branch_dl cfg rid ck1 s :
  dl (snd (conn_branch cfg rid ck1 s)) = dl s \/
  exists d, get_dial s rid = Some d /\ d_stage d = DNew /\ dl (snd (conn_branch cfg rid ck1 s)) = EDial rid (d_key d) :: dl s.
Proof.
  unfold conn_branch. pose proof (connector_spec rid ByReq s) as (_ & _ & D & _). destruct (connector_poll rid ByReq s) as [r s1]. cbn [snd] in D.
  destruct r as [|res]; [exact D|].
  pose proof (fr_rx_drop ck1 s1) as (F1 & _). destruct (rx_drop ck1 s1) as [ck0 s0]. cbn [snd] in F1. cbv zeta.
  destruct res as [c|e]; [|cbn [snd]; change (dl (set_req rid (RCheckout (k_set_inner IConnected ck0)) s0)) with (dl s0); rewrite F1; exact D].
  pose proof (fr_register cfg (k_token (k_set_inner IConnected ck0)) c (set_req rid (RCheckout (k_set_inner IConnected ck0)) s0)) as (F2 & _).
  destruct (register cfg _ c _) as [p s2]. cbn [snd] in *. rewrite F2. change (dl (set_req rid (RCheckout (k_set_inner IConnected ck0)) s0)) with (dl s0). rewrite F1. exact D.
Qed.

(* Checkout::poll starts at most the request's own dial, and only from stage DNew when nothing was delivered *)
Lemma checkout_poll_dl cfg rid ck s :
  dl (snd (checkout_poll cfg rid ck s)) = dl s \/
  exists d, get_dial s rid = Some d /\ d_stage d = DNew /\ fst (waiter_poll ck) = WContinue /\
            dl (snd (checkout_poll cfg rid ck s)) = EDial rid (d_key d) :: dl s.
Proof.
  unfold checkout_poll. destruct (waiter_poll ck) as [w ck1] eqn:Ew. cbn [fst].
  destruct w; cbn [snd]; [left; reflexivity|left; reflexivity|].
  assert (C : dl (snd (conn_branch cfg rid ck1 s)) = dl s \/
              exists d, get_dial s rid = Some d /\ d_stage d = DNew /\ WContinue = WContinue /\ dl (snd (conn_branch cfg rid ck1 s)) = EDial rid (d_key d) :: dl s).
  { destruct (conn_branch_dl cfg rid ck1 s) as [D|(d & A & B & D)]; [left; exact D|right; exists d; auto]. }
  destruct (k_inner ck1); cbn [snd]; try (left; reflexivity); try exact C.
  destruct (k_conn ck1) as [c|]; cbn [snd]; [|left; reflexivity].
  pose proof (fr_rx_drop (k_set_conn None ck1) s) as (F1 & _). destruct (rx_drop (k_set_conn None ck1) s) as [ck2 s2]. cbn [snd] in F1.
  pose proof (fr_register cfg (k_token ck2) c (set_req rid (RCheckout ck2) s2)) as (F2 & _).
  destruct (register cfg (k_token ck2) c (set_req rid (RCheckout ck2) s2)) as [p s3]. cbn [snd] in *. left. rewrite F2. exact F1.
Qed.

(* a poll starts at most the polled request's own dial *)
Lemma do_poll_dl cfg r0 s :
  dl (do_poll cfg r0 s) = dl s \/
  exists ck d, get_req s r0 = Some (RCheckout ck) /\ get_dial s r0 = Some d /\ d_stage d = DNew /\
               (k_waiter ck = WIdle -> k_slot ck = None) /\ dl (do_poll cfg r0 s) = EDial r0 (d_key d) :: dl s.
Proof.
  unfold do_poll. destruct (get_req s r0) as [[|ck|p fin pl| |]|] eqn:Hq; try (left; reflexivity).
  - pose proof (checkout_poll_dl cfg r0 ck (unwake_req r0 s)) as D.
    destruct (checkout_poll cfg r0 ck (unwake_req r0 s)) as [[res ck1] s1]. cbn [snd] in D.
    assert (D' : dl s1 = dl s \/ exists ck0 d, Some (RCheckout ck) = Some (RCheckout ck0) /\ get_dial s r0 = Some d /\ d_stage d = DNew /\
                   (k_waiter ck0 = WIdle -> k_slot ck0 = None) /\ dl s1 = EDial r0 (d_key d) :: dl s).
    { destruct D as [D|(d & Hd & Hs & Hw & D)]; [left; exact D|]. right. exists ck, d. split; [reflexivity|]. split; [exact Hd|].
      split; [exact Hs|]. split; [apply waiter_continue; exact Hw|exact D]. }
    clear D. destruct res as [|[p|e]].
    + rewrite dl_emit by reflexivity. exact D'.
    + cbv zeta. destruct (match get_conn s1 (fst p) with Some cn => _ | None => _ end) as [[[sh op_] rd] hs].
      rewrite dl_emit by reflexivity. rewrite dl_checkout_drop. exact D'.
    + cbv zeta. rewrite dl_emit by reflexivity. rewrite dl_checkout_drop. exact D'.
  - left. destruct fin; [|reflexivity]. rewrite dl_emit by reflexivity.
    destruct (fr_hold_release r0 p (set_req r0 RDone (unwake_req r0 s))) as (F & _). rewrite F. reflexivity.
Qed.

(* ------------------------------------------------------------------ background tasks *)
(* every delayed attempt in the task table has been started *)
Definition FD (s : state) : Prop :=
  forall tid rid t own, nth_error (tasks s) tid = Some (Some (TDelayed rid t own)) ->
                        exists d, get_dial s rid = Some d /\ d_stage d <> DNew.

Lemma FD_step s s' : TDsub s s' -> SNb s s' -> (forall r, get_dial s r <> None -> get_dial s' r <> None) -> FD s -> FD s'.
Proof.
  intros HT HS HN H tid rid t own E. destruct (H tid rid t own (HT _ _ _ _ E)) as (d & Hd & Hn).
  destruct (get_dial s' rid) as [d'|] eqn:Hd'; [|exfalso; apply (HN rid); [congruence|exact Hd']].
  exists d'. split; [reflexivity|]. destruct (HS rid d' Hd') as (d0 & Hd0 & I). rewrite Hd in Hd0. inversion Hd0; subst. auto.
Qed.
Lemma FD_fr s s' : fr s s' -> FD s -> FD s'.
Proof.
  intros (_ & E & T). apply FD_step; [exact T|apply SNb_same; exact E|]. intros r. unfold get_dial. rewrite E. auto.
Qed.

Lemma connector_keeps rid b s r : get_dial s r <> None -> get_dial (snd (connector_poll rid b s)) r <> None.
Proof.
  unfold connector_poll. destruct (get_dial s rid) as [d|]; [|auto].
  assert (U : forall f s1, dials s1 = dials s -> get_dial s r <> None -> get_dial (upd_dial rid f s1) r <> None).
  { intros f s1 E H. unfold get_dial, upd_dial in *. cbn [dials set_dials]. rewrite E, nth_error_upd_nth.
    destruct (Nat.eqb rid r); [|exact H]. destruct (nth_error (dials s) r); [discriminate|congruence]. }
  destruct (d_stage d) as [| |[alpn| |]|]; cbn [snd]; auto; apply U; reflexivity.
Qed.

Lemma run_task_dl cfg tid s : FD s -> dl (run_task cfg tid s) = dl s /\ FD (run_task cfg tid s).
Proof.
  intros H. unfold run_task. destruct (nth tid (tasks s) None) as [[c t|rid t own]|] eqn:Et; [| |split; [reflexivity|exact H]].
  - assert (F : fr s (match get_conn s c with
                     | None => finish_task tid s
                     | Some cn =>
                         let finish s := let s := finish_task tid s in
                           if is_open s c && negb (Nat.eqb t 0) && g_pool cfg then pool_push (g_max_idle cfg) t c s else drop_conn c s in
                         if negb (c_open cn) then finish (emit (ERdy c false) s)
                         else if c_share cn || c_ready cn then finish (emit (ERdy c true) s)
                         else upd_conn c (fun cn => c_set_waiters (c_waiters cn ++ [tid]) cn) s
                     end)).
    { destruct (get_conn s c) as [cn|]; [|apply fr_finish_task]. cbv zeta.
      assert (Fin : forall e, is_dial e = false -> fr s (if is_open (finish_task tid (emit e s)) c && negb (Nat.eqb t 0) && g_pool cfg
                              then pool_push (g_max_idle cfg) t c (finish_task tid (emit e s)) else drop_conn c (finish_task tid (emit e s)))).
      { intros e He. eapply fr_trans; [apply fr_emit, He|]. eapply fr_trans; [apply fr_finish_task|].
        destruct (_ && g_pool cfg); [apply fr_pool_push|apply fr_drop_conn]. }
      destruct (negb (c_open cn)); [apply Fin; reflexivity|]. destruct (c_share cn || c_ready cn); [apply Fin; reflexivity|apply fr_upd_conn]. }
    split; [apply F|eapply FD_fr; eauto].
  - assert (Ht : nth_error (tasks s) tid = Some (Some (TDelayed rid t own))).
    { destruct (nth_error (tasks s) tid) as [x|] eqn:E.
      - rewrite (nth_error_nth _ _ _ E) in Et. congruence.
      - apply nth_error_None in E. rewrite nth_overflow in Et by exact E. discriminate. }
    destruct (H tid rid t own Ht) as (d & Hd & Hn).
    pose proof (connector_spec rid (ByTask tid) s) as (Tk & Sn & _ & Dl). specialize (Dl d Hd Hn).
    pose proof (connector_keeps rid (ByTask tid) s) as Kp.
    destruct (connector_poll rid (ByTask tid) s) as [r s1]. cbn [snd] in *.
    assert (H1 : FD s1). { apply (FD_step s); auto. intros i a b c E. rewrite Tk in E. exact E. }
    destruct r as [|[c|e]]; [split; [exact Dl|exact H1]| |].
    + pose proof (fr_register cfg t c s1) as F2. destruct (register cfg t c s1) as [p s2]. cbn [snd] in F2.
      assert (F3 : fr s1 (pooled_drop p (finish_task tid (if g_pool cfg && negb (Nat.eqb t 0) && own then pool_cancel t rid s2 else s2)))).
      { eapply fr_trans; [exact F2|]. eapply fr_trans; [|apply fr_pooled_drop]. eapply fr_trans; [|apply fr_finish_task].
        destruct (_ && own); [apply fr_pool_cancel|apply fr_refl]. }
      split; [destruct F3 as (F3 & _); rewrite F3; exact Dl|eapply FD_fr; eauto].
    + assert (F3 : fr s1 (finish_task tid (if g_pool cfg && negb (Nat.eqb t 0) && own then pool_cancel t rid s1 else s1))).
      { eapply fr_trans; [|apply fr_finish_task]. destruct (_ && own); [apply fr_pool_cancel|apply fr_refl]. }
      split; [destruct F3 as (F3 & _); rewrite F3; exact Dl|eapply FD_fr; eauto].
Qed.

Lemma bg_loop_dl cfg fuel : forall s, FD s -> dl (bg_loop cfg fuel s) = dl s.
Proof.
  induction fuel as [|f IH]; intros s H; cbn [bg_loop]; [reflexivity|].
  destruct (runq s) as [|tid rest]; [reflexivity|].
  assert (H0 : FD (set_runq rest s)) by exact H.
  destruct (run_task_dl cfg tid (set_runq rest s) H0) as [A B]. rewrite IH by exact B. exact A.
Qed.

(* ------------------------------------------------------------------ the other operations *)
Lemma fr_drop_all : forall l s, fr s (drop_all l s).
Proof.
  induction l as [|[c a] l IH]; intros s; cbn [drop_all]; [apply fr_refl|]. eapply fr_trans; [apply fr_drop_conn|apply IH].
Qed.
Lemma fr_pop_loop thr : forall rl s, fr s (snd (pop_loop thr rl s)).
Proof.
  induction rl as [|[c a] rl IH]; intros s; cbn [pop_loop]; [apply fr_refl|].
  destruct (match thr with Some y => N.ltb a y | None => false end); cbn [snd].
  - eapply fr_trans; [apply fr_drop_conn|apply fr_drop_all].
  - destruct (is_open s c); cbn [snd]; [apply fr_refl|]. eapply fr_trans; [apply fr_drop_conn|apply IH].
Qed.
Lemma dl_pool_pop to t s : dl (snd (pool_pop to t s)) = dl s.
Proof.
  unfold pool_pop. pose proof (fr_pop_loop (expiry_threshold to (now s)) (rev (p_idle (get_tok s t))) s) as (F & _).
  destruct (pop_loop _ _ s) as [[r rest] s1]. cbn [snd] in *. destruct (fr_upd_tok t (set_idle (rev rest)) s1) as (G & _). congruence.
Qed.

Lemma dl_add a b s : dl (set_dials a (set_reqs b s)) = dl s. Proof. reflexivity. Qed.
Lemma dl_upd_tok t f s : dl (upd_tok t f s) = dl s. Proof. apply fr_upd_tok. Qed.

Lemma dl_do_issue cfg u p s : dl (do_issue cfg u p s) = dl s.
Proof.
  unfold do_issue. cbv zeta. destruct (nth u (g_uris cfg) None) as [k|]; [|reflexivity].
  destruct (negb (g_pool cfg)); [reflexivity|].
  assert (K : dl (snd (key_insert k (set_woken (woken s ++ [false]) s))) = dl s).
  { unfold key_insert. cbn [keys set_woken]. destruct (find_key k (keys s) 1); reflexivity. }
  destruct (key_insert k (set_woken (woken s ++ [false]) s)) as [t s1]. cbn [snd] in K.
  pose proof (dl_pool_pop (g_timeout cfg) t s1) as P. destruct (pool_pop (g_timeout cfg) t s1) as [found s2]. cbn [snd] in P.
  destruct found as [c|]; [rewrite dl_add; congruence|].
  destruct (match p_marker (get_tok s2 t) with Some _ => true | None => false end).
  - rewrite dl_add, dl_upd_tok. congruence.
  - rewrite dl_add. destruct (match p with H1 => false | H2 => true end); rewrite ?dl_upd_tok; congruence.
Qed.

Lemma dl_do_cancel cfg r s : dl (do_cancel cfg r s) = dl s.
Proof.
  unfold do_cancel. destruct (get_req s r) as [[|ck|p f pl| |]|]; try reflexivity.
  - change (dl (checkout_drop cfg r ck (set_req r RCancelled s)) = dl s). rewrite dl_checkout_drop. reflexivity.
  - change (dl (hold_release r p (set_req r RCancelled s)) = dl s).
    destruct (fr_hold_release r p (set_req r RCancelled s)) as (F & _). rewrite F. reflexivity.
Qed.

Lemma out_wake_tasks l : forall s, out (wake_tasks l s) = out s.
Proof.
  induction l as [|t l IH]; intros s; cbn [wake_tasks]; [reflexivity|]. rewrite IH. unfold wake_task. destruct (existsb _ _); reflexivity.
Qed.
Lemma out_drain c s : out (drain_conn_waiters c s) = out s.
Proof. unfold drain_conn_waiters. destruct (get_conn s c); [rewrite out_wake_tasks|]; reflexivity. Qed.

(* a dial starts only in the poll of the request itself, from stage DNew, with nothing delivered to it *)
Lemma step_dial cfg s o r k :
  FD s -> In (EDial r k) (out (step cfg s o)) ->
  o = Poll r /\ exists ck d, get_req s r = Some (RCheckout ck) /\ get_dial s r = Some d /\ d_stage d = DNew /\
                            (k_waiter ck = WIdle -> k_slot ck = None).
Proof.
  intros H Hi. apply dl_in in Hi. unfold step in Hi.
  assert (H0 : FD (set_out [] s)) by exact H.
  assert (Z : dl (set_out [] s) = []) by reflexivity.
  destruct o.
  - rewrite dl_do_issue, Z in Hi. destruct Hi.
  - destruct (do_poll_dl cfg r0 (set_out [] s)) as [D|(ck & d & Hq & Hd & Hs & Hw & D)]; rewrite D, Z in Hi; [destruct Hi|].
    destruct Hi as [E|[]]. inversion E; subst. split; [reflexivity|]. exists ck, d. auto.
  - rewrite dl_do_cancel, Z in Hi. destruct Hi.
  - unfold do_finish in Hi. destruct (get_req (set_out [] s) r0) as [[|ck|p f pl| |]|]; try destruct pl; destruct Hi.
  - unfold do_upgrade in Hi. destruct (get_req (set_out [] s) r0) as [[|ck|p f pl| |]|]; unfold dl in Hi; rewrite ?out_drain in Hi; destruct Hi.
  - unfold do_dial_done in Hi. destruct (get_dial (set_out [] s) r0) as [d|]; [|destruct Hi].
    destruct (d_stage d); try destruct Hi.
    destruct (fr_wake_poller (d_polled d) r0 (upd_dial r0 (fun d => d_set_polled None (d_set_stage (DResolved x) d)) (set_out [] s))) as (F & _).
    rewrite F in Hi. destruct Hi.
  - unfold do_conn_ready in Hi. destruct (get_conn (set_out [] s) c); unfold dl in Hi; rewrite ?out_drain in Hi; destruct Hi.
  - unfold do_conn_close in Hi. destruct (get_conn (set_out [] s) c); unfold dl in Hi; rewrite ?out_drain in Hi; destruct Hi.
  - unfold do_bg in Hi. rewrite bg_loop_dl, Z in Hi by exact H0. destruct Hi.
  - destruct Hi.
Qed.
