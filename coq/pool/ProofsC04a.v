(* C04: the monitor mon_C04_but_D6 accepts the model's trace of every history (all clauses of C04
   outside the window of known finding D6).
   Method (pool/PROOF_NOTES.md): clause-wise.  The event check splits into
     cS1   (a request whose Issue saw a usable idle connection does not dial),
     cDrop (a non-multiplexed connection is only discarded when closed, expired or surplus),
     cS2   (no second HTTP/2 dial while an HTTP/2 attempt to the origin is in flight),
   each proved by an invariant relating a view of the tracker to the model state, carried through
   every primitive ("Hoare logic over the event log").  This file: views, the relation [R1] for
   cS1 + cDrop, and their monitor theorems; cS2 is in pool/ProofsC04s2.v, the conjunction in pool/ProofsC04.v. *)
From HD Require Import common.Base http.Model pool.Model pool.Spec pool.Frames pool.ProofsLite pool.FramesC05 pool.SortedC05 pool.FramesC04 pool.ProofsC04np.
From Coq Require Import Sorted.
Local Open Scope list_scope.

(* ------------------------------------------------------------------ restricted monitors *)
Definition cS1 (cfg : config) (m : mst) (e : ev) : bool :=
  match e with
  | EDial r _ =>
      match nth_error (m_reqs m) r with
      | Some x => if g_pool cfg && negb (ri_d6 x) then negb (ri_avail x) else true
      | None => false
      end
  | _ => true
  end.
Definition cS2 (cfg : config) (m : mst) (e : ev) : bool :=
  match e with
  | EDial r _ =>
      match nth_error (m_reqs m) r with
      | Some x => if g_pool cfg && negb (ri_d6 x)
                  then negb (match ri_proto x with H2 => h2_flying false cfg m r (ri_key x) | H1 => false end) else true
      | None => false
      end
  | _ => true
  end.
Definition cDropF (fin : nat -> nat) (cfg : config) (m : mst) (e : ev) : bool :=
  match e with
  | EDrop c =>
      match nth_error (m_conns m) c with
      | Some x =>
          if g_pool cfg && negb (ci_share x) then
            match ci_closed x with
            | Some _ => true
            | None => negb (unexpired cfg m x) || Nat.leb (g_max_idle cfg) (fin (key_tok m (conn_key m c)))
            end
          else true
      | None => false
      end
  | _ => true
  end.
Definition cDrop (cfg : config) (ob : opobs) : mst -> ev -> bool :=
  cDropF (fun t => List.length (idle_of (o_snap ob) t)) cfg.

Lemma chk_ev_C04_split cfg ob m e : chk_ev_C04 false cfg ob m e = cS1 cfg m e && cS2 cfg m e && cDrop cfg ob m e.
Proof.
  destruct e; try reflexivity.
  - cbn [chk_ev_C04 cS1 cS2 cDrop cDropF]. destruct (nth_error (m_reqs m) r) as [x|]; [|reflexivity].
    cbn [orb andb]. destruct (g_pool cfg && negb (ri_d6 x)); [|reflexivity]. rewrite !andb_true_r. reflexivity.
Qed.

Lemma evs_ok_and f g : forall es m, evs_ok (fun m e => f m e && g m e) m es = evs_ok f m es && evs_ok g m es.
Proof.
  induction es as [|e es IH]; intros m; cbn [evs_ok]; [reflexivity|]. rewrite IH.
  destruct (f m e), (g m e), (evs_ok f (track_ev m e) es); reflexivity.
Qed.

Lemma evs_ok_ext f g : (forall m e, f m e = g m e) -> forall es m, evs_ok f m es = evs_ok g m es.
Proof. intros H. induction es as [|e es IH]; intros m; cbn [evs_ok]; [reflexivity|]. rewrite H, IH. reflexivity. Qed.

Lemma evs_ok_snoc f : forall l m e, evs_ok f m (l ++ [e]) = evs_ok f m l && f (fold_left track_ev l m) e.
Proof.
  induction l as [|a l IH]; intros m e; cbn [app evs_ok fold_left].
  - rewrite andb_true_r. reflexivity.
  - rewrite IH, andb_assoc. reflexivity.
Qed.

Definition chk_S1 (cfg : config) (m : mst) (o : op) (ob : opobs) : bool := evs_ok (cS1 cfg) (track_op cfg m o ob) (o_events ob).
Definition chk_S2 (cfg : config) (m : mst) (o : op) (ob : opobs) : bool := evs_ok (cS2 cfg) (track_op cfg m o ob) (o_events ob).
Definition chk_Drop (cfg : config) (m : mst) (o : op) (ob : opobs) : bool := evs_ok (cDrop cfg ob) (track_op cfg m o ob) (o_events ob).
(* the snapshot clause: no origin has both a waiting request and a usable idle connection *)
Definition chk_NP (cfg : config) (m : mst) (o : op) (ob : opobs) : bool :=
  no_parked_while_waiting cfg (fold_left track_ev (o_events ob) (track_op cfg m o ob)) ob.
Definition mon_C04_S1 := mon_with chk_S1.
Definition mon_C04_S2 := mon_with chk_S2.
Definition mon_C04_drop := mon_with chk_Drop.
Definition mon_C04_np := mon_with chk_NP.

Lemma chk_C04_split cfg m o ob :
  chk_C04 false cfg m o ob = chk_S1 cfg m o ob && chk_S2 cfg m o ob && chk_Drop cfg m o ob && chk_NP cfg m o ob.
Proof.
  unfold chk_C04, chk_S1, chk_S2, chk_Drop, chk_NP. rewrite <- !evs_ok_and. f_equal. apply evs_ok_ext. intros. apply chk_ev_C04_split.
Qed.

Lemma mon_steps_and f g cfg : forall ops obs m,
  mon_steps (fun c m o ob => f c m o ob && g c m o ob) cfg m ops obs = mon_steps f cfg m ops obs && mon_steps g cfg m ops obs.
Proof.
  induction ops as [|o ops IH]; intros [|ob obs] m; cbn [mon_steps]; try reflexivity.
  rewrite IH. destruct (f cfg m o ob), (g cfg m o ob), (mon_steps f cfg (track cfg m o ob) ops obs); reflexivity.
Qed.

Lemma mon_steps_ext f g cfg : (forall m o ob, f cfg m o ob = g cfg m o ob) -> forall ops obs m, mon_steps f cfg m ops obs = mon_steps g cfg m ops obs.
Proof.
  intros H. induction ops as [|o ops IH]; intros [|ob obs] m; cbn [mon_steps]; try reflexivity. rewrite H, IH. reflexivity.
Qed.

(* the full monitor is the conjunction of the four clause monitors *)
Theorem mon_C04_but_D6_split cfg ops obs :
  mon_C04_but_D6 cfg ops obs = mon_C04_S1 cfg ops obs && mon_C04_S2 cfg ops obs && mon_C04_drop cfg ops obs && mon_C04_np cfg ops obs.
Proof.
  unfold mon_C04_but_D6, mon_C04_S1, mon_C04_S2, mon_C04_drop, mon_C04_np, mon_with. rewrite <- !mon_steps_and.
  apply mon_steps_ext. intros. apply chk_C04_split.
Qed.

(* ------------------------------------------------------------------ views of the tracker *)
Record cvw := mkCv { v_share : bool; v_closed : option nat; v_btime : N; v_origin : nat }.
Record rvw := mkRv { v_key : option key; v_stat : rstat; v_avail : bool }.
Record tv := mkTv { t_cv : list cvw; t_rv : list rvw; t_ks : list key; t_tm : N }.
Definition cv_of (x : cinfo) := mkCv (ci_share x) (ci_closed x) (ci_back_time x) (ci_origin x).
Definition rv_of (y : rinfo) := mkRv (ri_key y) (ri_stat y) (ri_avail y).
Definition tv_of (m : mst) : tv := mkTv (map cv_of (m_conns m)) (map rv_of (m_reqs m)) (m_keys m) (m_time m).

Definition set_stat (st : rstat) (w : rvw) := mkRv (v_key w) st (v_avail w).
Definition set_btime (b : N) (v : cvw) := mkCv (v_share v) (v_closed v) b (v_origin v).

Definition tv_ev (T : tv) (e : ev) : tv :=
  match e with
  | ENew _ sh r => mkTv (t_cv T ++ [mkCv sh None (t_tm T) r]) (t_rv T) (t_ks T) (t_tm T)
  | EHand r c _ _ _ _ => mkTv (t_cv T) (upd_nth r (set_stat (SHeld c)) (t_rv T)) (t_ks T) (t_tm T)
  | ERes r _ => mkTv (t_cv T) (upd_nth r (set_stat SDone) (t_rv T)) (t_ks T) (t_tm T)
  | ERdy c true => mkTv (upd_nth c (set_btime (t_tm T)) (t_cv T)) (t_rv T) (t_ks T) (t_tm T)
  | _ => T
  end.

Lemma map_upd {A B} (g : A -> B) (f : A -> A) (h : B -> B) :
  (forall x, g (f x) = h (g x)) -> forall l n, map g (upd_nth n f l) = upd_nth n h (map g l).
Proof. intros H. induction l as [|x l IH]; intros [|n]; cbn [upd_nth map]; auto; [rewrite H|rewrite IH]; reflexivity. Qed.
Lemma map_upd_id {A B} (g : A -> B) (f : A -> A) : (forall x, g (f x) = g x) -> forall l n, map g (upd_nth n f l) = map g l.
Proof. intros H. induction l as [|x l IH]; intros [|n]; cbn [upd_nth map]; auto; [rewrite H|rewrite IH]; reflexivity. Qed.

Lemma tv_ri_upd_id f r m : (forall y, rv_of (f y) = rv_of y) -> tv_of (ri_upd f r m) = tv_of m.
Proof. intros H. unfold tv_of, ri_upd. cbn [m_conns m_reqs m_keys m_time set_m_reqs]. rewrite map_upd_id by exact H. reflexivity. Qed.
Lemma tv_ci_upd_id f c m : (forall x, cv_of (f x) = cv_of x) -> tv_of (ci_upd f c m) = tv_of m.
Proof. intros H. unfold tv_of, ci_upd. cbn [m_conns m_reqs m_keys m_time set_m_conns]. rewrite map_upd_id by exact H. reflexivity. Qed.

Lemma tv_track_ev m e : tv_of (track_ev m e) = tv_ev (tv_of m) e.
Proof.
  destruct e; cbn [track_ev tv_ev].
  - apply tv_ri_upd_id. reflexivity.
  - unfold tv_of. cbn [m_conns m_reqs m_keys m_time set_m_conns ri_upd set_m_reqs t_cv t_rv t_ks t_tm].
    rewrite map_app, map_upd_id by reflexivity. reflexivity.
  - rewrite tv_ci_upd_id by reflexivity. unfold tv_of, ri_upd. cbn [m_conns m_reqs m_keys m_time set_m_reqs t_cv t_rv t_ks t_tm].
    f_equal. apply map_upd. intros y. destruct (_ && _); reflexivity.
  - apply tv_ri_upd_id. reflexivity.
  - assert (H : tv_of (ri_upd (fun y => set_ri_pend false (set_ri_stat SDone y)) r m)
               = mkTv (t_cv (tv_of m)) (upd_nth r (set_stat SDone) (t_rv (tv_of m))) (t_ks (tv_of m)) (t_tm (tv_of m))).
    { unfold tv_of, ri_upd. cbn [m_conns m_reqs m_keys m_time set_m_reqs t_cv t_rv t_ks t_tm]. f_equal. apply map_upd. reflexivity. }
    destruct x as [|[]]; try exact H; rewrite tv_ri_upd_id by reflexivity; exact H.
  - apply tv_ci_upd_id. reflexivity.
  - apply tv_ci_upd_id. reflexivity.
  - destruct ok; [|reflexivity]. unfold tv_of, ci_upd. cbn [m_conns m_reqs m_keys m_time set_m_conns t_cv t_rv t_ks t_tm].
    f_equal. apply map_upd. reflexivity.
Qed.

(* keys and tokens on views *)
Definition rkey (T : tv) (r : nat) : option key := match nth_error (t_rv T) r with Some w => v_key w | None => None end.
Definition ckey (T : tv) (c : nat) : option key := match nth_error (t_cv T) c with Some v => rkey T (v_origin v) | None => None end.
Definition ktok (T : tv) (k : option key) : nat := match k with Some k' => tok_of (t_ks T) k' | None => 0 end.
Definition rtok T r := ktok T (rkey T r).
Definition ctok T c := ktok T (ckey T c).

Lemma req_key_tv m r : req_key m r = rkey (tv_of m) r.
Proof. unfold req_key, rkey, tv_of. cbn [t_rv]. rewrite nth_map. destruct (nth_error (m_reqs m) r); reflexivity. Qed.
Lemma conn_key_tv m c : conn_key m c = ckey (tv_of m) c.
Proof.
  unfold conn_key, ckey. unfold tv_of at 1. cbn [t_cv]. rewrite nth_map.
  destruct (nth_error (m_conns m) c) as [x|]; cbn [option_map cv_of v_origin]; [apply req_key_tv|reflexivity].
Qed.
Lemma key_tok_tv m k : key_tok m k = ktok (tv_of m) k.
Proof. reflexivity. Qed.

Lemma rkey_ev T e r : rkey (tv_ev T e) r = rkey T r.
Proof.
  destruct e; try reflexivity; unfold rkey; cbn [tv_ev t_rv].
  - rewrite nth_error_upd_nth. destruct (Nat.eqb r0 r); [|reflexivity]. destruct (nth_error (t_rv T) r); reflexivity.
  - rewrite nth_error_upd_nth. destruct (Nat.eqb r0 r); [|reflexivity]. destruct (nth_error (t_rv T) r); reflexivity.
  - destruct ok; reflexivity.
Qed.

Lemma ckey_ev T e c : c < List.length (t_cv T) -> ckey (tv_ev T e) c = ckey T c.
Proof.
  intros Hc. unfold ckey.
  assert (E : forall o, rkey (tv_ev T e) o = rkey T o) by (intros; apply rkey_ev).
  destruct e; cbn [tv_ev t_cv]; try (destruct (nth_error (t_cv T) c); [apply E|reflexivity]).
  - rewrite nth_error_app1 by exact Hc. destruct (nth_error (t_cv T) c); [apply (E (v_origin c1))|reflexivity].
  - destruct ok; cbn [t_cv]; [|destruct (nth_error (t_cv T) c); reflexivity].
    rewrite nth_error_upd_nth. destruct (Nat.eqb c0 c); [|destruct (nth_error (t_cv T) c); reflexivity].
    destruct (nth_error (t_cv T) c); reflexivity.
Qed.

Lemma ks_ev T e : t_ks (tv_ev T e) = t_ks T.
Proof. destruct e; try reflexivity. destruct ok; reflexivity. Qed.
Lemma tm_ev T e : t_tm (tv_ev T e) = t_tm T.
Proof. destruct e; try reflexivity. destruct ok; reflexivity. Qed.

Lemma rtok_ev T e r : rtok (tv_ev T e) r = rtok T r.
Proof. unfold rtok, ktok. rewrite rkey_ev, ks_ev. reflexivity. Qed.

Lemma ctok_nz_lt T c : ctok T c <> 0 -> c < List.length (t_cv T).
Proof.
  intros H. destruct (Nat.lt_ge_cases c (List.length (t_cv T))) as [L|L]; [exact L|]. exfalso. apply H.
  unfold ctok, ckey. apply nth_error_None in L. rewrite L. reflexivity.
Qed.

Section C04A.
Variable cfg : config.

Definition TokOK (T : tv) (c t : nat) : Prop := g_pool cfg = true -> t <> 0 /\ ctok T c = t.
Definition PooledOK (T : tv) (s : state) (p : pooled) : Prop := share_of s (fst p) = false -> TokOK T (fst p) (snd p).
Definition CkOK (T : tv) (s : state) (r : nat) (ck : checkout) : Prop :=
  (g_pool cfg = true -> k_token ck <> 0 /\ rtok T r = k_token ck) /\
  (forall c, k_conn ck = Some c -> TokOK T c (k_token ck)) /\
  (forall p, k_slot ck = Some p -> PooledOK T s p).

Lemma TokOK_ev T e c t : TokOK T c t -> TokOK (tv_ev T e) c t.
Proof.
  intros H Hp. destruct (H Hp) as [H1 H2]. split; [exact H1|].
  unfold ctok. rewrite ckey_ev, <- H2; [unfold ctok, ktok; rewrite ks_ev; reflexivity|]. apply ctok_nz_lt. congruence.
Qed.
Lemma PooledOK_ev T e s p : PooledOK T s p -> PooledOK (tv_ev T e) s p.
Proof. intros H Hs. apply TokOK_ev, H, Hs. Qed.
Lemma CkOK_ev T e s r ck : CkOK T s r ck -> CkOK (tv_ev T e) s r ck.
Proof.
  intros (A & B & C). split; [|split].
  - intros Hp. rewrite rtok_ev. auto.
  - intros c Hc. apply TokOK_ev; auto.
  - intros p Hq. apply PooledOK_ev; auto.
Qed.

Record R1 (T : tv) (s : state) : Prop := mkR1 {
  q_lc : List.length (t_cv T) = List.length (conns s);
  q_ld : List.length (dials s) = List.length (reqs s);
  q_lr : List.length (reqs s) <= List.length (t_rv T);
  q_time : now s = (1000000 + t_tm T)%N;
  q_bt : forall c v, nth_error (t_cv T) c = Some v -> (v_btime v <= t_tm T)%N;
  q_ob : forall c v, nth_error (t_cv T) c = Some v -> v_origin v < List.length (t_rv T);
  q_share : forall c v cn, nth_error (t_cv T) c = Some v -> get_conn s c = Some cn -> v_share v = c_share cn;
  q_co : forall c v cn, nth_error (t_cv T) c = Some v -> get_conn s c = Some cn -> v_closed v = None -> c_open cn = true;
  q_hold : forall r c t f p, get_req s r = Some (RHolding (c, t) f p) -> exists w, nth_error (t_rv T) r = Some w /\ v_stat w = SHeld c;
  q_idle : forall t c a, In (c, a) (p_idle (get_tok s t)) ->
           TokOK T c t /\ exists v, nth_error (t_cv T) c = Some v /\ (1000000 + v_btime v <= a)%N;
  q_ck : forall r ck, get_req s r = Some (RCheckout ck) -> CkOK T s r ck;
  q_hd : forall r p f pl, get_req s r = Some (RHolding p f pl) -> PooledOK T s p;
  q_tw : forall tid c t, nth_error (tasks s) tid = Some (Some (TWhenReady c t)) -> PooledOK T s (c, t);
  q_td : forall tid rid t own, nth_error (tasks s) tid = Some (Some (TDelayed rid t own)) -> g_pool cfg = true -> t <> 0 /\ rtok T rid = t;
  q_avail : g_pool cfg = true -> forall r w d, nth_error (t_rv T) r = Some w -> v_avail w = true -> get_dial s r = Some d -> d_stage d <> DNew;
  q_kf : g_pool cfg = true -> forall r w k, nth_error (t_rv T) r = Some w -> v_key w = Some k -> find_key k (t_ks T) 1 <> None;
  q_keys : g_pool cfg = true -> t_ks T = keys s
}.

(* ---------------------------------------------------------------- model moves, tracker fixed *)
Lemma PooledOK_sh T s s' p : (forall c, share_of s' c = share_of s c) -> PooledOK T s p -> PooledOK T s' p.
Proof. intros E H Hs. apply H. rewrite <- E. exact Hs. Qed.
Lemma CkOK_sh T s s' r ck : (forall c, share_of s' c = share_of s c) -> CkOK T s r ck -> CkOK T s' r ck.
Proof. intros E (A & B & C). split; [exact A|split; [exact B|]]. intros p Hp. eapply PooledOK_sh; eauto. Qed.

Lemma R1_eq T s s' :
  conns s' = conns s -> dials s' = dials s -> reqs s' = reqs s -> now s' = now s -> toks s' = toks s ->
  tasks s' = tasks s -> keys s' = keys s -> R1 T s -> R1 T s'.
Proof.
  intros Ec Ed Er En Et Ek Ey H. destruct H.
  assert (Sh : forall c, share_of s' c = share_of s c) by (intros c; unfold share_of, get_conn; rewrite Ec; reflexivity).
  constructor; unfold get_conn, get_req, get_dial, get_tok in *; rewrite ?Ec, ?Ed, ?Er, ?En, ?Et, ?Ek, ?Ey; auto.
  - intros r ck Hq. eapply CkOK_sh; [exact Sh|]. eauto.
  - intros r p f pl Hq. eapply PooledOK_sh; [exact Sh|]. eauto.
  - intros tid c t Hq. eapply PooledOK_sh; [exact Sh|]. eauto.
Qed.

(* a connection record changes, share and open preserved *)
Lemma R1_conn T s c f :
  (forall cn, c_share (f cn) = c_share cn) -> (forall cn, c_open (f cn) = c_open cn) ->
  R1 T s -> R1 T (upd_conn c f s).
Proof.
  intros Hs Ho H. destruct H.
  assert (Sh : forall c', share_of (upd_conn c f s) c' = share_of s c') by (intros; apply share_of_upd; exact Hs).
  constructor; auto.
  - unfold upd_conn. cbn [conns set_conns]. rewrite upd_len. exact q_lc0.
  - intros c' v cn Hv Hc. rewrite get_conn_upd in Hc. destruct (Nat.eqb c c'); [|eauto].
    destruct (get_conn s c') as [cn0|] eqn:E; [|discriminate]. inversion Hc; subst. rewrite Hs. eauto.
  - intros c' v cn Hv Hc Hcl. rewrite get_conn_upd in Hc. destruct (Nat.eqb c c'); [|eauto].
    destruct (get_conn s c') as [cn0|] eqn:E; [|discriminate]. inversion Hc; subst. rewrite Ho. eauto.
  - intros r ck Hq. eapply CkOK_sh; [exact Sh|]. apply q_ck0. exact Hq.
  - intros r p f0 pl Hq. eapply PooledOK_sh; [exact Sh|]. eapply q_hd0. exact Hq.
  - intros tid c' t Hq. eapply PooledOK_sh; [exact Sh|]. eapply q_tw0. exact Hq.
Qed.

Lemma get_req_set w v s r : get_req (set_req w v s) r = if Nat.eqb w r then option_map (fun _ => v) (get_req s r) else get_req s r.
Proof. unfold get_req, set_req. cbn [reqs set_reqs]. apply nth_error_upd_nth. Qed.

Lemma R1_set_req T s w v :
  (forall ck, v = RCheckout ck -> CkOK T s w ck) ->
  (forall c t f p, v = RHolding (c, t) f p ->
     (exists wv, nth_error (t_rv T) w = Some wv /\ v_stat wv = SHeld c) /\ PooledOK T s (c, t)) ->
  R1 T s -> R1 T (set_req w v s).
Proof.
  intros Hck Hhd H. destruct H.
  assert (Sh : forall c, share_of (set_req w v s) c = share_of s c) by reflexivity.
  constructor; auto.
  - unfold set_req. cbn [reqs set_reqs dials]. rewrite upd_len. exact q_ld0.
  - unfold set_req. cbn [reqs set_reqs]. rewrite upd_len. exact q_lr0.
  - intros r c t f p Hq. rewrite get_req_set in Hq. destruct (Nat.eqb_spec w r) as [<-|]; [|eauto].
    destruct (get_req s w); [|discriminate]. cbn in Hq. inversion Hq; subst. apply (Hhd c t f p eq_refl).
  - intros r ck Hq. rewrite get_req_set in Hq. destruct (Nat.eqb_spec w r) as [<-|]; [|eauto].
    destruct (get_req s w); [|discriminate]. cbn in Hq. inversion Hq; subst. apply (Hck ck eq_refl).
  - intros r p f pl Hq. rewrite get_req_set in Hq. destruct (Nat.eqb_spec w r) as [<-|]; [|eauto].
    destruct (get_req s w); [|discriminate]. cbn in Hq. inversion Hq; subst. destruct p as [c t]. apply (Hhd c t f pl eq_refl).
Qed.

Lemma get_dial_upd r f s r' : get_dial (upd_dial r f s) r' = if Nat.eqb r r' then option_map f (get_dial s r') else get_dial s r'.
Proof. unfold get_dial, upd_dial. cbn [dials set_dials]. apply nth_error_upd_nth. Qed.

Lemma R1_upd_dial T s r f :
  (forall d, d_stage d <> DNew -> d_stage (f d) <> DNew) -> R1 T s -> R1 T (upd_dial r f s).
Proof.
  intros Hf H. destruct H. constructor; auto.
  - unfold upd_dial. cbn [dials set_dials reqs]. rewrite upd_len. exact q_ld0.
  - intros Hp r' w d Hw Ha Hd. rewrite get_dial_upd in Hd. destruct (Nat.eqb r r'); [|eauto].
    destruct (get_dial s r') as [d0|] eqn:E; [|discriminate]. inversion Hd; subst. apply Hf. eauto.
Qed.

(* tokens *)
Lemma get_tok_upd_ne t f s t' : t <> t' -> get_tok (upd_tok t f s) t' = get_tok s t'.
Proof.
  intros H. destruct t as [|i]; [reflexivity|]. destruct t' as [|j]; [reflexivity|]. cbn [get_tok upd_tok toks set_toks].
  assert (Hij : i <> j) by congruence. clear H. revert i j Hij. generalize (toks s).
  induction l as [|p l IH]; intros [|i] [|j] H; cbn [upd_nth nth]; auto; try congruence.
Qed.

Lemma get_tok_upd_eq t f s : get_tok (upd_tok t f s) t = get_tok s t \/ get_tok (upd_tok t f s) t = f (get_tok s t).
Proof.
  destruct t as [|i]; [left; reflexivity|]. cbn [get_tok upd_tok toks set_toks]. generalize (toks s). revert i.
  induction i as [|i IH]; intros [|p l]; cbn [upd_nth nth]; auto.
Qed.

Lemma R1_tok T s t f :
  (forall c a, In (c, a) (p_idle (f (get_tok s t))) ->
     In (c, a) (p_idle (get_tok s t)) \/
     (TokOK T c t /\ exists v, nth_error (t_cv T) c = Some v /\ (1000000 + v_btime v <= a)%N)) ->
  R1 T s -> R1 T (upd_tok t f s).
Proof.
  intros Hf H. assert (E : forall s0, upd_tok t f s0 = s0 \/ exists i, t = S i /\ upd_tok t f s0 = set_toks (upd_nth i f (toks s0)) s0)
    by (intros s0; destruct t; [left; reflexivity|right; eauto]).
  destruct (E s) as [->|(i & -> & E')]; [exact H|]. destruct H.
  constructor; try assumption; try (rewrite E'; assumption).
  intros t' c a Hin. destruct (Nat.eq_dec (S i) t') as [<-|Hne].
  - destruct (get_tok_upd_eq (S i) f s) as [E1|E1]; rewrite E1 in Hin; [eauto|]. destruct (Hf c a Hin); eauto.
  - rewrite get_tok_upd_ne in Hin by exact Hne. eauto.
Qed.

Lemma R1_tok_same T s t f : (forall p, p_idle (f p) = p_idle p) -> R1 T s -> R1 T (upd_tok t f s).
Proof. intros H. apply R1_tok. intros c a Hin. rewrite H in Hin. auto. Qed.

Lemma PooledOK_imp T s s' p : (forall c, share_of s' c = false -> share_of s c = false) -> PooledOK T s p -> PooledOK T s' p.
Proof. intros E H Hs. apply H, E, Hs. Qed.
Lemma CkOK_imp T s s' r ck : (forall c, share_of s' c = false -> share_of s c = false) -> CkOK T s r ck -> CkOK T s' r ck.
Proof. intros E (A & B & C). split; [exact A|split; [exact B|]]. intros p Hp. eapply PooledOK_imp; eauto. Qed.

(* tasks *)
Lemma R1_spawn T s tk :
  (forall c t, tk = TWhenReady c t -> PooledOK T s (c, t)) ->
  (forall rid t own, tk = TDelayed rid t own -> g_pool cfg = true -> t <> 0 /\ rtok T rid = t) ->
  R1 T s -> R1 T (spawn tk s).
Proof.
  intros H1 H2 H. destruct H. constructor; auto.
  - intros tid c t Hq. unfold spawn in Hq. cbn [tasks set_runq set_tasks] in Hq. rewrite nth_snoc in Hq.
    destruct (Nat.ltb tid (List.length (tasks s))); [exact (q_tw0 tid c t Hq)|].
    destruct (Nat.eqb tid (List.length (tasks s))); [|discriminate]. inversion Hq; subst. apply (H1 c t eq_refl).
  - intros tid rid t own Hq. unfold spawn in Hq. cbn [tasks set_runq set_tasks] in Hq. rewrite nth_snoc in Hq.
    destruct (Nat.ltb tid (List.length (tasks s))); [exact (q_td0 tid rid t own Hq)|].
    destruct (Nat.eqb tid (List.length (tasks s))); [|discriminate]. inversion Hq; subst. apply (H2 rid t own eq_refl).
Qed.

Lemma R1_finish_task T s tid : R1 T s -> R1 T (finish_task tid s).
Proof.
  intros H. destruct H. constructor; auto.
  - intros tid' c t Hq. unfold finish_task in Hq. cbn [tasks set_tasks] in Hq. rewrite nth_error_upd_nth in Hq.
    destruct (Nat.eqb tid tid'); [destruct (nth_error (tasks s) tid'); discriminate|]. exact (q_tw0 tid' c t Hq).
  - intros tid' rid t own Hq. unfold finish_task in Hq. cbn [tasks set_tasks] in Hq. rewrite nth_error_upd_nth in Hq.
    destruct (Nat.eqb tid tid'); [destruct (nth_error (tasks s) tid'); discriminate|]. exact (q_td0 tid' rid t own Hq).
Qed.

(* a new connection, with its ENew event *)
Lemma share_of_app s cn c : share_of (set_conns (conns s ++ [cn]) s) c = false -> share_of s c = false.
Proof.
  intros H. destruct (Nat.eq_dec c (List.length (conns s))) as [->|Hne].
  - unfold share_of, get_conn. replace (nth_error (conns s) (List.length (conns s))) with (@None conn); [reflexivity|].
    symmetry. apply nth_error_None. lia.
  - unfold share_of in *. rewrite get_conn_app in H by exact Hne. exact H.
Qed.

Lemma R1_new_conn T s c sh rid cn :
  c_share cn = sh -> c_open cn = true -> rid < List.length (t_rv T) ->
  R1 T s -> R1 (tv_ev T (ENew c sh rid)) (set_conns (conns s ++ [cn]) s).
Proof.
  intros Hsh Hop Hrid H. destruct H. set (s' := set_conns (conns s ++ [cn]) s).
  assert (Sh : forall c', share_of s' c' = false -> share_of s c' = false) by (intros; eapply share_of_app; eauto).
  assert (Nv : forall c' v, nth_error (t_cv T ++ [mkCv sh None (t_tm T) rid]) c' = Some v ->
               (c' < List.length (t_cv T) /\ nth_error (t_cv T) c' = Some v) \/ (c' = List.length (t_cv T) /\ v = mkCv sh None (t_tm T) rid)).
  { intros c' v Hv. rewrite nth_snoc in Hv. destruct (Nat.ltb_spec c' (List.length (t_cv T))); [left; auto|].
    destruct (Nat.eqb_spec c' (List.length (t_cv T))); [|discriminate]. inversion Hv. right. auto. }
  constructor; cbn [tv_ev t_cv t_rv t_ks t_tm]; auto.
  - unfold s'. cbn [conns set_conns]. rewrite !app_length, q_lc0. reflexivity.
  - intros c' v Hv. destruct (Nv c' v Hv) as [[_ Hv']|[_ ->]]; [eauto|cbn; lia].
  - intros c' v Hv. destruct (Nv c' v Hv) as [[_ Hv']|[_ ->]]; [eauto|exact Hrid].
  - intros c' v cn' Hv Hc. destruct (Nv c' v Hv) as [[L Hv']|[-> ->]].
    + unfold s' in Hc. rewrite get_conn_app in Hc by lia. eauto.
    + unfold s', get_conn in Hc. cbn [conns set_conns] in Hc. rewrite q_lc0, nth_error_app2, Nat.sub_diag in Hc by lia. inversion Hc; subst. reflexivity.
  - intros c' v cn' Hv Hc Hcl. destruct (Nv c' v Hv) as [[L Hv']|[-> ->]].
    + unfold s' in Hc. rewrite get_conn_app in Hc by lia. eauto.
    + unfold s', get_conn in Hc. cbn [conns set_conns] in Hc. rewrite q_lc0, nth_error_app2, Nat.sub_diag in Hc by lia. inversion Hc; subst. exact Hop.
  - intros t c' a Hin. destruct (q_idle0 t c' a Hin) as (A & v & Hv & Hb). split; [apply (TokOK_ev T (ENew c sh rid)), A|].
    exists v. split; [|exact Hb]. rewrite nth_error_app1; [exact Hv|]. eapply nth_lt; eauto.
  - intros r ck Hq. apply (CkOK_ev T (ENew c sh rid)). eapply CkOK_imp; [exact Sh|]. apply q_ck0. exact Hq.
  - intros r p f pl Hq. apply (PooledOK_ev T (ENew c sh rid)). eapply PooledOK_imp; [exact Sh|]. eapply q_hd0. exact Hq.
  - intros tid c' t Hq. apply (PooledOK_ev T (ENew c sh rid)). eapply PooledOK_imp; [exact Sh|]. eapply q_tw0. exact Hq.
Qed.

Lemma R1_add_req T s q d :
  List.length (reqs s) < List.length (t_rv T) ->
  (forall ck, q = RCheckout ck -> CkOK T s (List.length (reqs s)) ck) ->
  (forall p f pl, q <> RHolding p f pl) ->
  (g_pool cfg = true -> forall w, nth_error (t_rv T) (List.length (reqs s)) = Some w -> v_avail w = true -> d_stage d <> DNew) ->
  R1 T s -> R1 T (set_dials (dials s ++ [d]) (set_reqs (reqs s ++ [q]) s)).
Proof.
  intros Hlt Hck Hnh Hav H. destruct H. set (s' := set_dials (dials s ++ [d]) (set_reqs (reqs s ++ [q]) s)).
  assert (Gq : forall r q', get_req s' r = Some q' -> (get_req s r = Some q') \/ (r = List.length (reqs s) /\ q' = q)).
  { intros r q' Hq. unfold get_req, s' in Hq. cbn [reqs set_dials set_reqs] in Hq. rewrite nth_snoc in Hq.
    destruct (Nat.ltb r (List.length (reqs s))); [left; exact Hq|].
    destruct (Nat.eqb_spec r (List.length (reqs s))); [|discriminate]. inversion Hq. right. auto. }
  constructor; auto.
  - unfold s'. cbn [dials reqs set_dials set_reqs]. rewrite !app_length, q_ld0. reflexivity.
  - unfold s'. cbn [reqs set_dials set_reqs]. rewrite app_length. cbn [List.length]. lia.
  - intros r c t f p Hq. destruct (Gq _ _ Hq) as [Hq'|[_ E]]; [eauto|]. exfalso. eapply Hnh. symmetry. exact E.
  - intros r ck Hq. destruct (Gq _ _ Hq) as [Hq'|[-> E]]; [apply q_ck0; exact Hq'|]. apply Hck. symmetry. exact E.
  - intros r p f pl Hq. destruct (Gq _ _ Hq) as [Hq'|[_ E]]; [eapply q_hd0; exact Hq'|]. exfalso. eapply Hnh. symmetry. exact E.
  - intros Hp r w d' Hw Ha Hd. unfold get_dial, s' in Hd. cbn [dials set_dials] in Hd. rewrite nth_snoc in Hd.
    destruct (Nat.ltb r (List.length (dials s))); [eapply q_avail0; eauto|].
    destruct (Nat.eqb_spec r (List.length (dials s))) as [->|]; [|discriminate]. inversion Hd; subst d'. rewrite q_ld0 in Hw. eauto.
Qed.

(* ---------------------------------------------------------------- tracker moves, model fixed *)
Lemma stat_inv r st l r' w' :
  nth_error (upd_nth r (set_stat st) l) r' = Some w' ->
  exists w, nth_error l r' = Some w /\ v_key w' = v_key w /\ v_avail w' = v_avail w /\ (r <> r' -> w' = w).
Proof.
  rewrite nth_error_upd_nth. destruct (Nat.eqb_spec r r') as [->|Hne].
  - destruct (nth_error l r') as [w|]; [|discriminate]. cbn. intros H. inversion H. exists w. repeat split; auto. congruence.
  - intros H. exists w'. auto.
Qed.

Lemma R1_stat T s e r st :
  tv_ev T e = mkTv (t_cv T) (upd_nth r (set_stat st) (t_rv T)) (t_ks T) (t_tm T) ->
  (forall p f pl, get_req s r <> Some (RHolding p f pl)) ->
  R1 T s -> R1 (tv_ev T e) s.
Proof.
  intros E Hnh H. destruct H. constructor; try assumption; try (rewrite E; cbn [t_cv t_rv t_ks t_tm]; rewrite ?upd_len; assumption).
  - intros r' c t f p Hq. rewrite E. cbn [t_rv]. destruct (Nat.eq_dec r r') as [<-|Hne]; [exfalso; eapply Hnh; eauto|].
    rewrite nth_upd_ne by exact Hne. eauto.
  - intros t c a Hin. destruct (q_idle0 t c a Hin) as (A & v & Hv & Hb). split; [apply TokOK_ev, A|]. rewrite E. cbn [t_cv]. eauto.
  - intros r' ck Hq. apply CkOK_ev. auto.
  - intros r' p f pl Hq. apply PooledOK_ev. eauto.
  - intros tid c t Hq. apply PooledOK_ev. eauto.
  - intros tid rid t own Hq Hp. rewrite rtok_ev. eauto.
  - intros Hp r' w' d. rewrite E. cbn [t_rv]. intros Hw Ha Hd. apply stat_inv in Hw as (w & Hw & _ & Ea & _). rewrite Ea in Ha. eapply q_avail0; eauto.
  - intros Hp r' w' k. rewrite E. cbn [t_rv t_ks]. intros Hw Hk. apply stat_inv in Hw as (w & Hw & Ek & _). rewrite Ek in Hk. eapply q_kf0; eauto.
Qed.

Lemma R1_rdy T s c :
  (forall t a, ~ In (c, a) (p_idle (get_tok s t))) -> R1 T s -> R1 (tv_ev T (ERdy c true)) s.
Proof.
  intros Hni H. destruct H.
  assert (Iv : forall c' v', nth_error (upd_nth c (set_btime (t_tm T)) (t_cv T)) c' = Some v' ->
            exists v, nth_error (t_cv T) c' = Some v /\ v_share v' = v_share v /\ v_closed v' = v_closed v /\ v_origin v' = v_origin v
                      /\ (v_btime v' <= t_tm T)%N /\ (c <> c' -> v' = v)).
  { intros c' v'. rewrite nth_error_upd_nth. destruct (Nat.eqb_spec c c') as [->|Hne].
    - destruct (nth_error (t_cv T) c') as [v|]; [|discriminate]. cbn. intros H. inversion H. exists v. cbn. repeat split; auto; try lia; try congruence.
    - intros H. exists v'. repeat split; eauto. }
  constructor; cbn [tv_ev t_cv t_rv t_ks t_tm]; auto.
  - rewrite upd_len. exact q_lc0.
  - intros c' v' Hv. apply Iv in Hv as (v & _ & _ & _ & _ & Hb & _). exact Hb.
  - intros c' v' Hv. apply Iv in Hv as (v & Hv & _ & _ & -> & _). eauto.
  - intros c' v' cn Hv Hc. apply Iv in Hv as (v & Hv & -> & _). eauto.
  - intros c' v' cn Hv Hc Hcl. apply Iv in Hv as (v & Hv & _ & Ec & _). rewrite Ec in Hcl. eauto.
  - intros t c' a Hin. destruct (q_idle0 t c' a Hin) as (A & v & Hv & Hb). split; [apply (TokOK_ev T (ERdy c true)), A|].
    destruct (Nat.eq_dec c c') as [<-|Hne]; [exfalso; eapply Hni; eauto|]. exists v. rewrite nth_upd_ne by exact Hne. auto.
  - intros r ck Hq. apply (CkOK_ev T (ERdy c true)). auto.
  - intros r p f pl Hq. apply (PooledOK_ev T (ERdy c true)). eauto.
  - intros tid c' t Hq. apply (PooledOK_ev T (ERdy c true)). eauto.
Qed.

(* ---------------------------------------------------------------- the invariant over the event log *)
Definition cur (m0 : mst) (s : state) : mst := fold_left track_ev (rev (out s)) m0.
Lemma cur_emit m0 e s : cur m0 (emit e s) = track_ev (cur m0 s) e.
Proof. unfold cur, emit. cbn [out set_out rev]. rewrite fold_left_app. reflexivity. Qed.
Definition curT m0 s := tv_of (cur m0 s).
Lemma curT_emit m0 e s : curT m0 (emit e s) = tv_ev (curT m0 s) e.
Proof. unfold curT. rewrite cur_emit. apply tv_track_ev. Qed.

Definition ck1 (fin : nat -> nat) (m : mst) (e : ev) : bool := cS1 cfg m e && cDropF fin cfg m e.

(* [fin]: assumed idle-list lengths at the end of the op; [x]: the request being polled; [F]: handles in flight *)
Definition G (fin : nat -> nat) (x : option nat) (F : list nat) (m0 : mst) (s : state) : Prop :=
  evs_ok (ck1 fin) m0 (rev (out s)) = true /\ R1 (curT m0 s) s /\ SI x F s.

Lemma G_R1 fin x F m0 s : G fin x F m0 s -> R1 (curT m0 s) s. Proof. intros H; apply H. Qed.
Lemma G_SI fin x F m0 s : G fin x F m0 s -> SI x F s. Proof. intros H; apply H. Qed.

Lemma G_eq fin x F m0 s s' :
  out s' = out s -> conns s' = conns s -> dials s' = dials s -> reqs s' = reqs s -> now s' = now s -> toks s' = toks s ->
  tasks s' = tasks s -> keys s' = keys s -> G fin x F m0 s -> G fin x F m0 s'.
Proof.
  intros Eo Ec Ed Er En Et Ek Ey (H1 & H2 & H3). unfold G, curT, cur in *. rewrite Eo. split; [exact H1|]. split.
  - eapply R1_eq; eauto.
  - eapply SI_eq; eauto.
Qed.

Lemma G_F fin x F F' m0 s : (forall c, cnt F' c <= cnt F c) -> G fin x F m0 s -> G fin x F' m0 s.
Proof. intros H (H1 & H2 & H3). split; [exact H1|]. split; [exact H2|]. eapply SI_F_le; eauto. Qed.

Lemma G_state fin x F x' F' m0 s s' :
  out s' = out s -> R1 (curT m0 s) s' -> SI x' F' s' -> G fin x F m0 s -> G fin x' F' m0 s'.
Proof.
  intros Eo HR HS (H1 & _ & _). unfold G, curT, cur in *. rewrite Eo. auto.
Qed.

(* emitting an event whose check holds; the caller supplies R1 for the moved tracker *)
Lemma G_emit fin x F m0 e s :
  ck1 fin (cur m0 s) e = true -> R1 (tv_ev (curT m0 s) e) s -> G fin x F m0 s -> G fin x F m0 (emit e s).
Proof.
  intros Hc HR (H1 & _ & H3). unfold G. rewrite curT_emit. split; [|split].
  - unfold emit. cbn [out set_out rev]. rewrite evs_ok_snoc. fold (cur m0 s). rewrite H1, Hc. reflexivity.
  - eapply R1_eq; [| | | | | | |exact HR]; reflexivity.
  - eapply SI_eq; [| | | |exact H3]; reflexivity.
Qed.

Definition quiet_ev (e : ev) : Prop := match e with EPend _ | ERel _ _ | ERdy _ false => True | _ => False end.
Lemma G_emit_quiet fin x F m0 e s : quiet_ev e -> G fin x F m0 s -> G fin x F m0 (emit e s).
Proof.
  intros Hq H. apply G_emit; [| |exact H].
  - destruct e; try contradiction; reflexivity.
  - destruct e; try contradiction; try exact (G_R1 _ _ _ _ _ H). destruct ok; [contradiction|exact (G_R1 _ _ _ _ _ H)].
Qed.

(* ---------------------------------------------------------------- justification of a discard *)
Definition unexpv (T : tv) (v : cvw) : bool :=
  match g_timeout cfg with
  | Some d => if N.ltb 0 d then N.leb (t_tm T - v_btime v) d else true
  | None => true
  end.
Definition DJ (fin : nat -> nat) (T : tv) (c : nat) : Prop :=
  exists v, nth_error (t_cv T) c = Some v /\
    (g_pool cfg = true -> v_share v = false ->
       v_closed v <> None \/ unexpv T v = false \/ g_max_idle cfg <= fin (ctok T c)).

Lemma cDropF_DJ fin m c : DJ fin (tv_of m) c -> cDropF fin cfg m (EDrop c) = true.
Proof.
  intros (v & Hv & H). unfold tv_of in Hv. cbn [t_cv] in Hv. rewrite nth_map in Hv. cbn [cDropF].
  destruct (nth_error (m_conns m) c) as [x|]; [|discriminate]. cbn [option_map] in Hv. inversion Hv; subst v. clear Hv.
  cbn [cv_of v_share v_closed] in H. destruct (g_pool cfg); [|reflexivity]. destruct (ci_share x); [reflexivity|]. cbn [negb andb].
  destruct (H eq_refl eq_refl) as [Hc|[He|Hf]].
  - destruct (ci_closed x); [reflexivity|contradiction].
  - destruct (ci_closed x); [reflexivity|]. change (unexpired cfg m x) with (unexpv (tv_of m) (cv_of x)). rewrite He. reflexivity.
  - destruct (ci_closed x); [reflexivity|]. apply orb_true_iff. right. apply Nat.leb_le.
    rewrite conn_key_tv, key_tok_tv. exact Hf.
Qed.

Lemma conn_view T s c cn : R1 T s -> get_conn s c = Some cn -> exists v, nth_error (t_cv T) c = Some v.
Proof. intros H Hc. apply nth_ex. rewrite (q_lc _ _ H). eapply nth_lt. exact Hc. Qed.

Lemma DJ_shared fin T s c cn : R1 T s -> get_conn s c = Some cn -> c_share cn = true -> DJ fin T c.
Proof.
  intros H Hc Hs. destruct (conn_view _ _ _ _ H Hc) as [v Hv]. exists v. split; [exact Hv|].
  intros _ Hsh. rewrite (q_share _ _ H c v cn Hv Hc) in Hsh. congruence.
Qed.

Lemma DJ_nopool fin T s c cn : R1 T s -> get_conn s c = Some cn -> g_pool cfg = false -> DJ fin T c.
Proof. intros H Hc Hp. destruct (conn_view _ _ _ _ H Hc) as [v Hv]. exists v. split; [exact Hv|]. congruence. Qed.

Lemma DJ_closed fin T s c cn : R1 T s -> get_conn s c = Some cn -> c_open cn = false -> DJ fin T c.
Proof.
  intros H Hc Ho. destruct (conn_view _ _ _ _ H Hc) as [v Hv]. exists v. split; [exact Hv|].
  intros _ _. left. intros Hn. rewrite (q_co _ _ H c v cn Hv Hc Hn) in Ho. discriminate.
Qed.

Lemma DJ_notopen fin T s c cn : R1 T s -> get_conn s c = Some cn -> rdy s c -> is_open s c = false -> DJ fin T c.
Proof.
  intros H Hc Hr Ho. unfold is_open in Ho. rewrite Hc in Ho. destruct (c_share cn) eqn:Es.
  - eapply DJ_shared; eauto.
  - eapply DJ_closed; eauto. unfold rdy, share_of, ready_of in Hr. rewrite Hc in Hr. specialize (Hr Es). rewrite Hr, andb_true_r in Ho. exact Ho.
Qed.

Lemma DJ_full fin T s c cn t : R1 T s -> get_conn s c = Some cn -> TokOK T c t -> g_max_idle cfg <= fin t -> DJ fin T c.
Proof.
  intros H Hc Ht Hf. destruct (conn_view _ _ _ _ H Hc) as [v Hv]. exists v. split; [exact Hv|].
  intros Hp _. right. right. destruct (Ht Hp) as [_ ->]. exact Hf.
Qed.

Lemma G_drop_conn fin x F m0 c s :
  (forall cn, get_conn s c = Some cn -> DJ fin (curT m0 s) c) -> G fin x F m0 s -> G fin x F m0 (drop_conn c s).
Proof.
  intros HD H. unfold drop_conn. destruct (get_conn s c) as [cn|] eqn:Ec; [|exact H].
  assert (H1 : G fin x F m0 (upd_conn c (c_set_refs (pred (c_refs cn))) s)).
  { eapply (G_state fin x F x F m0 s); [reflexivity| | |exact H].
    - apply R1_conn; [reflexivity|reflexivity|apply (G_R1 _ _ _ _ _ H)].
    - apply SI_conn; [reflexivity|left; auto|apply (G_SI _ _ _ _ _ H)]. }
  destruct (Nat.eqb _ _); [|exact H1]. apply G_emit; [| |exact H1].
  - unfold ck1. cbn [cS1 andb]. apply cDropF_DJ. exact (HD cn eq_refl).
  - exact (G_R1 _ _ _ _ _ H1).
Qed.

(* ---------------------------------------------------------------- the primitives preserve G *)
Lemma G_upd_conn fin x F m0 s c f :
  (forall cn, c_share (f cn) = c_share cn) -> (forall cn, c_open (f cn) = c_open cn) ->
  (forall cn, c_ready cn = true -> c_ready (f cn) = true) \/ ~ In c (RL x s) ->
  G fin x F m0 s -> G fin x F m0 (upd_conn c f s).
Proof.
  intros Hs Ho Hr H. eapply (G_state fin x F x F m0 s); [reflexivity| | |exact H].
  - apply R1_conn; [exact Hs|exact Ho|apply (G_R1 _ _ _ _ _ H)].
  - apply SI_conn; [exact Hs|exact Hr|apply (G_SI _ _ _ _ _ H)].
Qed.

Lemma G_clone_conn fin x F m0 s c : G fin x F m0 s -> G fin x F m0 (clone_conn c s).
Proof. apply G_upd_conn; [reflexivity|reflexivity|left; auto]. Qed.

Lemma G_set_ck fin x F F' m0 s w ck ck' :
  get_req s w = Some (RCheckout ck) -> CkOK (curT m0 s) s w ck' -> k_conn ck' = k_conn ck ->
  (forall c, share_of s c = false -> cnt (oslot (k_slot ck')) c + cnt F' c <= cnt (oslot (k_slot ck)) c + cnt F c) ->
  (forall c, share_of s c = false -> cnt F' c <= cnt F c) ->
  (x <> Some w -> forall c, In c (oslot (k_slot ck')) -> c < List.length (conns s)) ->
  (forall c, In c F' -> c < List.length (conns s)) ->
  G fin x F m0 s -> G fin x F' m0 (set_req w (RCheckout ck') s).
Proof.
  intros Hq Hck Hk Hcnt Hle Hb Hb' H.
  eapply (G_state fin x F x F' m0 s); [reflexivity| | |exact H].
  - apply R1_set_req; [|discriminate|apply (G_R1 _ _ _ _ _ H)]. intros ck0 E. inversion E; subst. exact Hck.
  - eapply SI_set_ck; eauto. apply (G_SI _ _ _ _ _ H).
Qed.

Lemma G_spawn fin x F F' m0 s tk :
  (forall c t, tk = TWhenReady c t -> PooledOK (curT m0 s) s (c, t) /\ share_of s c = false /\ c < List.length (conns s)) ->
  (forall rid t own, tk = TDelayed rid t own -> g_pool cfg = true -> t <> 0 /\ rtok (curT m0 s) rid = t) ->
  (forall c, share_of s c = false -> cnt (taskH (Some tk)) c + cnt F' c <= cnt F c) ->
  (forall c, In c F' -> c < List.length (conns s)) ->
  G fin x F m0 s -> G fin x F' m0 (spawn tk s).
Proof.
  intros H1 H2 Hcnt Hb H. eapply (G_state fin x F x F' m0 s); [reflexivity| | |exact H].
  - apply R1_spawn; [intros c t E; apply (H1 c t E)|exact H2|apply (G_R1 _ _ _ _ _ H)].
  - eapply SI_spawn; [exact Hcnt|exact Hb| |apply (G_SI _ _ _ _ _ H)]. intros c t E. destruct (H1 c t E) as (_ & A & B). auto.
Qed.

Lemma share_of_get s c : share_of s c = true -> exists cn, get_conn s c = Some cn /\ c_share cn = true.
Proof. unfold share_of. destruct (get_conn s c) as [cn|]; [eauto|discriminate]. Qed.

Lemma F_bnd fin x F m0 s c : G fin x F m0 s -> In c F -> c < List.length (conns s).
Proof. intros H Hc. apply (si_bnd _ _ _ (G_SI _ _ _ _ _ H)). auto. Qed.

(* Pooled::drop of an in-flight handle *)
Lemma G_pooled_drop fin x F m0 p s :
  PooledOK (curT m0 s) s p -> G fin x (fst p :: F) m0 s -> G fin x F m0 (pooled_drop p s).
Proof.
  intros Hp H. destruct p as [c t]. cbn [fst] in *. unfold pooled_drop. destruct (share_of s c) eqn:Es.
  - apply G_drop_conn; [|eapply G_F; [|exact H]; intros c'; rewrite cnt_cons; lia].
    intros cn Hc. destruct (share_of_get _ _ Es) as (cn' & Hc' & Hs). rewrite Hc in Hc'. inversion Hc'; subst.
    eapply DJ_shared; eauto. apply (G_R1 _ _ _ _ _ H).
  - eapply G_spawn; [| | | |exact H].
    + intros c' t' E. inversion E; subst. split; [exact Hp|]. split; [exact Es|]. eapply F_bnd; [exact H|left; reflexivity].
    + discriminate.
    + intros c' _. cbn [taskH]. rewrite !cnt_cons, cnt_nil. destruct (Nat.eq_dec c c'); lia.
    + intros c' Hc. eapply F_bnd; [exact H|right; exact Hc].
Qed.

Lemma G_deliver fin x F m0 w p s :
  PooledOK (curT m0 s) s p -> G fin x (fst p :: F) m0 s -> G fin x F m0 (deliver w p s).
Proof.
  intros Hp H. unfold deliver.
  assert (H0 : G fin x F m0 s) by (eapply G_F; [|exact H]; intros c'; rewrite cnt_cons; lia).
  destruct (get_req s w) as [[|ck| | |]|] eqn:Hq; try exact H0.
  assert (H1 : G fin x F m0 (set_req w (RCheckout (k_set_slot (Some p) ck)) s)).
  { eapply G_set_ck; [exact Hq| |reflexivity| | | | |exact H].
    - destruct (q_ck _ _ (G_R1 _ _ _ _ _ H) w ck Hq) as (A & B & C). split; [exact A|split; [exact B|]].
      cbn [k_set_slot k_slot]. intros p' E. inversion E; subst. exact Hp.
    - intros c _. cbn [k_set_slot k_slot oslot]. rewrite !cnt_cons, cnt_nil. destruct (Nat.eq_dec (fst p) c); lia.
    - intros c _. rewrite cnt_cons. lia.
    - intros _ c Hc. eapply F_bnd; [exact H|]. cbn [k_set_slot k_slot oslot] in Hc. destruct Hc as [<-|[]]. left; reflexivity.
    - intros c Hc. eapply F_bnd; [exact H|]. right; exact Hc. }
  destruct (k_rxpolled ck); [|exact H1]. eapply G_eq; [| | | | | | | |exact H1]; reflexivity.
Qed.

Lemma out_upd_tok t f s : out (upd_tok t f s) = out s. Proof. destruct t; reflexivity. Qed.
Lemma conns_upd_tok t f s : conns (upd_tok t f s) = conns s. Proof. destruct t; reflexivity. Qed.
Lemma curT_out m0 s s' : out s' = out s -> curT m0 s' = curT m0 s.
Proof. intros E. unfold curT, cur. rewrite E. reflexivity. Qed.

Lemma G_tok_same fin x F m0 s t f : (forall p, p_idle (f p) = p_idle p) -> G fin x F m0 s -> G fin x F m0 (upd_tok t f s).
Proof.
  intros Hf H. eapply (G_state fin x F x F m0 s); [apply out_upd_tok| | |exact H].
  - apply R1_tok_same; [exact Hf|apply (G_R1 _ _ _ _ _ H)].
  - apply SI_tok_same; [exact Hf|apply (G_SI _ _ _ _ _ H)].
Qed.

Lemma G_dup_shared fin x F m0 s c : share_of s c = true -> G fin x F m0 s -> G fin x (c :: F) m0 s.
Proof.
  intros Hs (H1 & H2 & H3). split; [exact H1|split; [exact H2|]]. apply SI_dup_shared; auto.
  destruct (share_of_get _ _ Hs) as (cn & Hc & _). eapply nth_lt. exact Hc.
Qed.

Lemma out_deliver w p s : out (deliver w p s) = out s.
Proof. unfold deliver. destruct (get_req s w) as [[|ck| | |]|]; try reflexivity. destruct (k_rxpolled ck); reflexivity. Qed.
Lemma conns_deliver w p s : conns (deliver w p s) = conns s.
Proof. unfold deliver. destruct (get_req s w) as [[|ck| | |]|]; try reflexivity. destruct (k_rxpolled ck); reflexivity. Qed.
Lemma share_of_conns s s' c : conns s' = conns s -> share_of s' c = share_of s c.
Proof. intros E. unfold share_of, get_conn. rewrite E. reflexivity. Qed.

Lemma out_walk t c sh ws : forall s, out (snd (walk_waiters t c sh ws s)) = out s.
Proof.
  induction ws as [|[w b] ws IH]; intros s; cbn [walk_waiters]; [reflexivity|].
  destruct (rx_live s w); [destruct sh|]; cbn [snd]; [rewrite IH, out_deliver; reflexivity|apply out_deliver|apply IH].
Qed.
Lemma conns_walk_sh t c sh ws : forall s c', share_of (snd (walk_waiters t c sh ws s)) c' = share_of s c'.
Proof.
  induction ws as [|[w b] ws IH]; intros s c'; cbn [walk_waiters]; [reflexivity|].
  destruct (rx_live s w); [destruct sh|]; cbn [snd].
  - rewrite IH. rewrite (share_of_conns _ _ _ (conns_deliver _ _ _)). apply share_of_upd. reflexivity.
  - apply share_of_conns, conns_deliver.
  - apply IH.
Qed.

Lemma G_walk_shared fin x F m0 t c ws : forall s,
  share_of s c = true -> G fin x (c :: F) m0 s -> G fin x (c :: F) m0 (snd (walk_waiters t c true ws s)).
Proof.
  induction ws as [|[w b] ws IH]; intros s Hs H; cbn [walk_waiters]; [exact H|].
  destruct (rx_live s w); [|apply IH; assumption].
  assert (Hs1 : share_of (clone_conn c s) c = true) by (unfold clone_conn; rewrite share_of_upd by reflexivity; exact Hs).
  apply IH.
  - rewrite (share_of_conns _ _ _ (conns_deliver _ _ _)). exact Hs1.
  - apply (G_deliver fin x (c :: F) m0 w (c, 0)).
    + intros E. cbn [fst] in E. congruence.
    + cbn [fst]. apply G_dup_shared; [exact Hs1|]. apply G_clone_conn, H.
Qed.

Lemma G_walk_single fin x F m0 t c ws : forall s,
  PooledOK (curT m0 s) s (c, t) -> G fin x (c :: F) m0 s ->
  G fin x (if snd (fst (walk_waiters t c false ws s)) then F else c :: F) m0 (snd (walk_waiters t c false ws s)).
Proof.
  induction ws as [|[w b] ws IH]; intros s Hp H; cbn [walk_waiters]; [exact H|].
  destruct (rx_live s w); cbn [fst snd]; [|apply IH; assumption].
  apply (G_deliver fin x F m0 w (c, t)); assumption.
Qed.

Definition ilen (s : state) (t : nat) : nat := List.length (p_idle (get_tok s t)).
Definition Le (fin : nat -> nat) (s : state) : Prop := forall t, ilen s t <= fin t.

Lemma F_conn fin x F m0 s c : G fin x F m0 s -> In c F -> exists cn, get_conn s c = Some cn.
Proof. intros H Hc. apply nth_ex. eapply F_bnd; eauto. Qed.

Lemma G_tok_push fin x F m0 s c t :
  TokOK (curT m0 s) c t -> rdy s c -> G fin x (c :: F) m0 s ->
  G fin x F m0 (upd_tok t (fun p => set_idle (p_idle p ++ [(c, now s)]) p) s).
Proof.
  intros Ht Hr H.
  assert (H0 : G fin x F m0 s) by (eapply G_F; [|exact H]; intros c'; rewrite cnt_cons; lia).
  destruct t as [|i]; [exact H0|].
  destruct (nth_error (toks s) i) as [p|] eqn:Ep.
  2:{ eapply G_eq; [| | | | | | | |exact H0]; try reflexivity. apply upd_tok_none. exact Ep. }
  pose proof (G_R1 _ _ _ _ _ H) as HR. pose proof (G_SI _ _ _ _ _ H) as HS.
  destruct (F_conn _ _ _ _ _ c H (or_introl eq_refl)) as [cn Hc]. destruct (conn_view _ _ _ _ HR Hc) as [v Hv].
  eapply (G_state fin x (c :: F) x F m0 s); [reflexivity| | |exact H].
  - apply R1_tok; [|exact HR]. intros c' a Hin. rewrite (get_tok_nth s i p Ep) in *. cbn [set_idle p_idle] in Hin.
    apply in_app_or in Hin as [Hin|[E|[]]]; [left; exact Hin|right]. inversion E; subst c' a. split; [exact Ht|].
    exists v. split; [exact Hv|]. rewrite (q_time _ _ HR). pose proof (q_bt _ _ HR c v Hv). lia.
  - eapply SI_tok_gen; [exact Ep| | | |exact HS].
    + intros c' _. unfold tokH. cbn [set_idle p_idle]. rewrite map_app, !cnt_app. cbn [map fst]. rewrite !cnt_cons, cnt_nil. destruct (Nat.eq_dec c c'); lia.
    + intros c' [Hc'|Hc'].
      * unfold tokH in Hc'. cbn [set_idle p_idle] in Hc'. rewrite map_app in Hc'. apply in_app_or in Hc' as [Hc'|[<-|[]]].
        -- apply (si_bnd _ _ _ HS). left. unfold HL. apply in_or_app. left. eapply in_fm_intro; [exact Ep|exact Hc'].
        -- eapply nth_lt; exact Hc.
      * apply (si_bnd _ _ _ HS). right. right. exact Hc'.
    + intros c' Hc'. unfold tokH in Hc'. cbn [set_idle p_idle] in Hc'. rewrite map_app in Hc'. apply in_app_or in Hc' as [Hc'|[<-|[]]]; [|exact Hr].
      apply (si_rdy _ _ _ HS). unfold RL. apply in_or_app. left. eapply in_fm_intro; [exact Ep|exact Hc'].
Qed.

Lemma share_of_upd_tok t f s c : share_of (upd_tok t f s) c = share_of s c.
Proof. apply share_of_conns, conns_upd_tok. Qed.
Lemma rdy_conns s s' c : conns s' = conns s -> rdy s c -> rdy s' c.
Proof. intros E H. unfold rdy, share_of, ready_of, get_conn in *. rewrite E. exact H. Qed.
Lemma PooledOK_st T s s' p : conns s' = conns s -> PooledOK T s p -> PooledOK T s' p.
Proof. intros E. apply PooledOK_imp. intros c. rewrite (share_of_conns _ _ _ E). auto. Qed.

Lemma ready_of_upd c f s c' : (forall cn, c_ready (f cn) = c_ready cn) -> ready_of (upd_conn c f s) c' = ready_of s c'.
Proof.
  intros H. unfold ready_of. rewrite get_conn_upd. destruct (Nat.eqb c c'); [|reflexivity].
  destruct (get_conn s c'); cbn; [apply H|reflexivity].
Qed.
Lemma ready_of_conns s s' c : conns s' = conns s -> ready_of s' c = ready_of s c.
Proof. intros E. unfold ready_of, get_conn. rewrite E. reflexivity. Qed.

Lemma ready_walk t c sh ws : forall s c', ready_of (snd (walk_waiters t c sh ws s)) c' = ready_of s c'.
Proof.
  induction ws as [|[w b] ws IH]; intros s c'; cbn [walk_waiters]; [reflexivity|].
  destruct (rx_live s w); [destruct sh|]; cbn [snd].
  - rewrite IH. rewrite (ready_of_conns _ _ _ (conns_deliver _ _ _)). apply ready_of_upd. reflexivity.
  - apply ready_of_conns, conns_deliver.
  - apply IH.
Qed.

Lemma rdy_walk t c sh ws s c' : rdy s c' -> rdy (snd (walk_waiters t c sh ws s)) c'.
Proof. unfold rdy. rewrite conns_walk_sh, ready_walk. auto. Qed.

Lemma ilen_drop_conn c s t : ilen (drop_conn c s) t = ilen s t.
Proof. unfold ilen. destruct t as [|i]; [reflexivity|]. cbn [get_tok]. rewrite toks_drop_conn. reflexivity. Qed.

(* PoolInner::push of an in-flight handle *)
Lemma G_pool_push fin x F m0 n t c s :
  n = g_max_idle cfg -> TokOK (curT m0 s) c t -> rdy s c -> Le fin (pool_push n t c s) ->
  G fin x (c :: F) m0 s -> G fin x F m0 (pool_push n t c s).
Proof.
  intros Hn Ht Hr HL H. unfold pool_push in *.
  set (s1 := if share_of s c then upd_tok t (set_marker None) s else s) in *.
  assert (H1 : G fin x (c :: F) m0 s1) by (subst s1; destruct (share_of s c); [apply G_tok_same; [reflexivity|exact H]|exact H]).
  assert (O1 : out s1 = out s) by (subst s1; destruct (share_of s c); [apply out_upd_tok|reflexivity]).
  assert (C1 : conns s1 = conns s) by (subst s1; destruct (share_of s c); [apply conns_upd_tok|reflexivity]).
  assert (Sh1 : share_of s1 c = share_of s c) by (apply share_of_conns, C1).
  assert (H2 : G fin x (if snd (fst (walk_waiters t c (share_of s1 c) (p_waiting (get_tok s1 t)) s1)) then F else c :: F) m0
                 (snd (walk_waiters t c (share_of s1 c) (p_waiting (get_tok s1 t)) s1))).
  { destruct (share_of s1 c) eqn:Es.
    - pose proof (G_walk_shared fin x F m0 t c (p_waiting (get_tok s1 t)) s1 Es H1) as HW.
      destruct (snd (fst _)); [eapply G_F; [|exact HW]; intros c'; rewrite cnt_cons; lia|exact HW].
    - apply G_walk_single; [|exact H1]. intros _. rewrite (curT_out m0 s s1 O1). exact Ht. }
  pose proof (out_walk t c (share_of s1 c) (p_waiting (get_tok s1 t)) s1) as O2.
  pose proof (rdy_walk t c (share_of s1 c) (p_waiting (get_tok s1 t)) s1 c (rdy_conns _ _ _ C1 Hr)) as R2.
  destruct (walk_waiters t c (share_of s1 c) (p_waiting (get_tok s1 t)) s1) as [[rest moved] s2]. cbn [fst snd] in *.
  set (s3 := upd_tok t (set_waiting rest) s2) in *.
  assert (H3 : G fin x (if moved then F else c :: F) m0 s3) by (apply G_tok_same; [reflexivity|exact H2]).
  assert (O3 : out s3 = out s) by (unfold s3; rewrite out_upd_tok, O2, O1; reflexivity).
  assert (R3 : rdy s3 c) by (eapply rdy_conns; [apply conns_upd_tok|exact R2]).
  assert (T3 : TokOK (curT m0 s3) c t) by (rewrite (curT_out m0 s s3 O3); exact Ht).
  destruct moved; [exact H3|].
  destruct (Nat.ltb_spec (List.length (p_idle (get_tok s3 t))) n) as [Hlt|Hge].
  - apply G_tok_push; assumption.
  - apply G_drop_conn; [|eapply G_F; [|exact H3]; intros c'; rewrite cnt_cons; lia].
    intros cn Hc. eapply DJ_full; [apply (G_R1 _ _ _ _ _ H3)|exact Hc|exact T3|].
    specialize (HL t). rewrite ilen_drop_conn in HL. unfold ilen in HL. lia.
Qed.

Lemma out_set_req w v s : out (set_req w v s) = out s. Proof. reflexivity. Qed.

Lemma G_drop_sender fin x F m0 w s : G fin x F m0 s -> G fin x F m0 (drop_sender w s).
Proof.
  intros H. unfold drop_sender. destruct (get_req s w) as [[|ck| | |]|] eqn:Hq; try exact H.
  assert (H1 : G fin x F m0 (set_req w (RCheckout (k_set_txdropped true ck)) s)).
  { eapply G_set_ck; [exact Hq| |reflexivity| | | | |exact H].
    - exact (q_ck _ _ (G_R1 _ _ _ _ _ H) w ck Hq).
    - intros c _. cbn [k_set_txdropped k_slot]. lia.
    - intros c _. lia.
    - intros Hx c Hc. cbn [k_set_txdropped k_slot] in Hc. apply (si_bnd _ _ _ (G_SI _ _ _ _ _ H)).
      left; eapply HL_req_in; [exact Hx|exact Hq|]; cbn [reqH]; unfold ckH; apply in_or_app; left; exact Hc.
    - intros c Hc. eapply F_bnd; eauto. }
  destruct (k_waiter ck); try exact H; (destruct (k_rxpolled ck); [eapply G_eq; [| | | | | | | |exact H1]; reflexivity|exact H1]).
Qed.

Lemma G_release_pending fin x F m0 ws : forall s, G fin x F m0 s -> G fin x F m0 (snd (release_pending ws s)).
Proof.
  induction ws as [|[w b] ws IH]; intros s H; cbn [release_pending]; [exact H|].
  destruct b.
  - apply IH, G_drop_sender, H.
  - specialize (IH s H). destruct (release_pending ws s). exact IH.
Qed.

Lemma G_pool_cancel fin x F m0 t rid s : G fin x F m0 s -> G fin x F m0 (pool_cancel t rid s).
Proof.
  intros H. unfold pool_cancel. destruct (p_marker (get_tok s t)) as [o|]; [|exact H].
  destruct (Nat.eqb o rid); [|exact H].
  set (s1 := upd_tok t (set_marker None) s).
  assert (H1 : G fin x F m0 s1) by (apply G_tok_same; [reflexivity|exact H]).
  pose proof (G_release_pending fin x F m0 (p_waiting (get_tok s1 t)) s1 H1) as H2.
  destruct (release_pending (p_waiting (get_tok s1 t)) s1) as [rest s2]. cbn [snd] in H2.
  apply G_tok_same; [reflexivity|exact H2].
Qed.

(* idle-list order *)
Fixpoint DescL (l : list (nat * N)) : Prop :=
  match l with [] => True | e :: r => (forall e', In e' r -> (snd e' <= snd e)%N) /\ DescL r end.

Lemma ss_snoc_le : forall l b, StronglySorted N.le (l ++ [b]) -> forall a, In a l -> (a <= b)%N.
Proof.
  induction l as [|x l IH]; intros b H a Ha; [destruct Ha|]. cbn [app] in H. inversion H as [|? ? Hs Hf]; subst.
  destruct Ha as [<-|Ha]; [|eapply IH; eauto]. rewrite Forall_forall in Hf. apply Hf. apply in_or_app. right. left. reflexivity.
Qed.

Lemma DescL_rev : forall l, StronglySorted N.le (map snd l) -> DescL (rev l).
Proof.
  intros l. rewrite <- (rev_involutive l) at 1. generalize (rev l). clear l.
  induction l as [|e r IH]; intros H; cbn [DescL]; [exact I|].
  cbn [rev] in H. rewrite map_app in H. cbn [map] in H.
  split.
  - intros e' He'. eapply ss_snoc_le; [exact H|]. apply in_map. apply in_rev in He'. exact He'.
  - apply IH. eapply ss_app_l. exact H.
Qed.

Lemma out_drop_conn_T m0 c s : curT m0 (drop_conn c s) = curT m0 s.
Proof.
  unfold drop_conn. destruct (get_conn s c) as [cn|]; [|reflexivity].
  destruct (Nat.eqb _ _); [|reflexivity]. rewrite curT_emit. reflexivity.
Qed.

Lemma G_drop_all fin x F m0 l : forall s,
  (forall c a, In (c, a) l -> DJ fin (curT m0 s) c) -> G fin x F m0 s -> G fin x F m0 (drop_all l s).
Proof.
  induction l as [|[c a] l IH]; intros s HD H; cbn [drop_all]; [exact H|].
  apply IH.
  - intros c' a' Hin. rewrite out_drop_conn_T. apply (HD c' a'). right. exact Hin.
  - apply G_drop_conn; [|exact H]. intros cn _. apply (HD c a). left. reflexivity.
Qed.

(* what the pop needs to know about an entry: a discard of it is justified *)
Definition Ent (fin : nat -> nat) (m0 : mst) (thr : option N) (s : state) (c : nat) (a : N) : Prop :=
  (is_open s c = false -> DJ fin (curT m0 s) c) /\
  (forall y, thr = Some y -> (a <? y)%N = true -> DJ fin (curT m0 s) c).

Lemma Ent_drop fin m0 thr s c' c a : Ent fin m0 thr s c a -> Ent fin m0 thr (drop_conn c' s) c a.
Proof. intros [A B]. split; rewrite ?is_open_drop_conn, out_drop_conn_T; auto. Qed.

Lemma G_pop_loop fin x F m0 thr rl : forall s,
  DescL rl -> (forall c a, In (c, a) rl -> Ent fin m0 thr s c a) -> G fin x F m0 s ->
  G fin x F m0 (snd (pop_loop thr rl s)).
Proof.
  induction rl as [|[c a] rl IH]; intros s HD HE H; cbn [pop_loop]; [exact H|].
  destruct HD as [HD1 HD2].
  destruct (match thr with Some y => (a <? y)%N | None => false end) eqn:Ex; cbn [snd].
  - destruct thr as [y|]; [|discriminate].
    apply G_drop_all.
    + intros c' a' Hin. apply in_rev in Hin. rewrite out_drop_conn_T.
      apply (proj2 (HE c' a' (or_intror Hin)) y eq_refl). specialize (HD1 _ Hin). cbn [snd] in HD1.
      apply N.ltb_lt. apply N.ltb_lt in Ex. lia.
    + apply G_drop_conn; [|exact H]. intros cn _. exact (proj2 (HE c a (or_introl eq_refl)) y eq_refl Ex).
  - destruct (is_open s c) eqn:Eo; cbn [snd]; [exact H|].
    apply IH; [exact HD2| |].
    + intros c' a' Hin. apply Ent_drop. apply HE. right. exact Hin.
    + apply G_drop_conn; [|exact H]. intros cn _. exact (proj1 (HE c a (or_introl eq_refl)) Eo).
Qed.

(* shape of the result: the remaining list is a suffix, the returned connection was in the removed part *)
Lemma pop_loop_shape thr rl : forall s r rest s', pop_loop thr rl s = (r, rest, s') ->
  exists pre, rl = pre ++ rest /\ forall c, r = Some c -> (exists a, In (c, a) pre) /\ is_open s' c = true.
Proof.
  induction rl as [|[c a] rl IH]; intros s r rest s' H; cbn [pop_loop] in H.
  - inversion H; subst. exists []. split; [reflexivity|discriminate].
  - destruct (match thr with Some y => (a <? y)%N | None => false end).
    + inversion H; subst. exists ((c, a) :: rl). rewrite app_nil_r. split; [reflexivity|discriminate].
    + destruct (is_open s c) eqn:Eo.
      * inversion H; subst. exists [(c, a)]. split; [reflexivity|]. intros c' E. inversion E; subst. split; [exists a; left; reflexivity|exact Eo].
      * destruct (IH _ _ _ _ H) as (pre & -> & Hr). exists ((c, a) :: pre). split; [reflexivity|].
        intros c' E. destruct (Hr c' E) as [[a' Hin] Ho]. split; [exists a'; right; exact Hin|exact Ho].
Qed.

Lemma pop_loop_none thr rl : forall s rest s', pop_loop thr rl s = (None, rest, s') -> DescL rl ->
  forall c a, In (c, a) rl -> is_open s c = false \/ exists y, thr = Some y /\ (a <? y)%N = true.
Proof.
  induction rl as [|[c0 a0] rl IH]; intros s rest s' H HD c a Hin; [destruct Hin|]. cbn [pop_loop] in H. destruct HD as [HD1 HD2].
  destruct (match thr with Some y => (a0 <? y)%N | None => false end) eqn:Ex.
  - destruct thr as [y|]; [|discriminate]. right. exists y. split; [reflexivity|].
    destruct Hin as [E|Hin]; [inversion E; subst; exact Ex|]. specialize (HD1 _ Hin). cbn [snd] in HD1.
    apply N.ltb_lt. apply N.ltb_lt in Ex. lia.
  - destruct (is_open s c0) eqn:Eo; [discriminate|].
    destruct Hin as [E|Hin]; [inversion E; subst; left; exact Eo|].
    destruct (IH _ _ _ H HD2 c a Hin) as [Ho|Hy]; [left; rewrite is_open_drop_conn in Ho; exact Ho|right; exact Hy].
Qed.

Lemma unexp_false T v a nw d :
  g_timeout cfg = Some d -> (0 < d)%N -> (nw = 1000000 + t_tm T)%N -> (1000000 + v_btime v <= a)%N -> (a < nw - d)%N -> (d <= nw)%N ->
  unexpv T v = false.
Proof.
  intros Hd Hpos Hn Hb Ha Hle. unfold unexpv. rewrite Hd. destruct (N.ltb_spec 0 d); [|lia]. apply N.leb_gt. lia.
Qed.

Lemma Ent_idle fin x F m0 s t c a :
  G fin x F m0 s -> In (c, a) (p_idle (get_tok s t)) -> Ent fin m0 (expiry_threshold (g_timeout cfg) (now s)) s c a.
Proof.
  intros H Hin. pose proof (G_R1 _ _ _ _ _ H) as HR. pose proof (G_SI _ _ _ _ _ H) as HS.
  assert (Hb : c < List.length (conns s)) by (apply (si_bnd _ _ _ HS); left; eapply HL_idle_in; eauto).
  destruct (nth_ex _ _ Hb) as [cn Hc]. fold (get_conn s c) in Hc.
  split.
  - intros Ho. eapply DJ_notopen; [exact HR|exact Hc| |exact Ho]. apply (si_rdy _ _ _ HS). eapply RL_idle_in; eauto.
  - intros y Hy Ha. destruct (q_idle _ _ HR t c a Hin) as (_ & v & Hv & Hbt). exists v. split; [exact Hv|]. intros _ _. right. left.
    unfold expiry_threshold in Hy. destruct (g_timeout cfg) as [d|] eqn:Ed; [|discriminate].
    destruct (N.ltb_spec 0 d); cbn [andb] in Hy; [|discriminate]. destruct (N.leb_spec d (now s)); [|discriminate]. inversion Hy; subst y.
    apply N.ltb_lt in Ha. eapply (unexp_false _ v a (now s) d); eauto. apply (q_time _ _ HR).
Qed.

Lemma toks_pop_loop_eq thr rl s : toks (snd (pop_loop thr rl s)) = toks s.
Proof. apply toks_pop_loop. Qed.

Lemma out_pop_T m0 thr rl : forall s, curT m0 (snd (pop_loop thr rl s)) = curT m0 s.
Proof.
  induction rl as [|[c a] rl IH]; intros s; cbn [pop_loop]; [reflexivity|].
  destruct (match thr with Some y => (a <? y)%N | None => false end); cbn [snd].
  - assert (E : forall l s0, curT m0 (drop_all l s0) = curT m0 s0).
    { induction l as [|[c' a'] l IHl]; intros s0; cbn [drop_all]; [reflexivity|]. rewrite IHl. apply out_drop_conn_T. }
    rewrite E. apply out_drop_conn_T.
  - destruct (is_open s c); cbn [snd]; [reflexivity|]. rewrite IH. apply out_drop_conn_T.
Qed.

Lemma conns_frame_drop c s c' : share_of (drop_conn c s) c' = share_of s c' /\ ready_of (drop_conn c s) c' = ready_of s c'.
Proof.
  unfold drop_conn. destruct (get_conn s c) as [cn|]; [|auto].
  destruct (Nat.eqb _ _); (split; [apply share_of_upd|apply ready_of_upd]; reflexivity).
Qed.

Lemma is_open_upd_tok' t f s c : is_open (upd_tok t f s) c = is_open s c.
Proof. destruct t; reflexivity. Qed.

Lemma G_pool_pop fin x F m0 t s :
  IS s -> G fin x F m0 s ->
  G fin x (oconn (fst (pool_pop (g_timeout cfg) t s)) ++ F) m0 (snd (pool_pop (g_timeout cfg) t s)) /\
  (forall c, fst (pool_pop (g_timeout cfg) t s) = Some c ->
     is_open (snd (pool_pop (g_timeout cfg) t s)) c = true /\ exists a, In (c, a) (p_idle (get_tok s t))).
Proof.
  intros HI H. unfold pool_pop.
  set (thr := expiry_threshold (g_timeout cfg) (now s)). set (rl := rev (p_idle (get_tok s t))).
  assert (HD : DescL rl) by (apply DescL_rev; apply (get_tok_ok s t HI)).
  assert (HE : forall c a, In (c, a) rl -> Ent fin m0 thr s c a).
  { intros c a Hin. apply in_rev in Hin. eapply Ent_idle; eauto. }
  pose proof (G_pop_loop fin x F m0 thr rl s HD HE H) as H1.
  pose proof (toks_pop_loop_eq thr rl s) as Tk. pose proof (out_pop_T m0 thr rl s) as Tc.
  destruct (pop_loop thr rl s) as [[r rest] s1] eqn:Ep. cbn [fst snd] in *.
  destruct (pop_loop_shape thr rl s r rest s1 Ep) as (pre & Hrl & Hr).
  assert (Hidle : p_idle (get_tok s t) = rev rest ++ rev pre).
  { rewrite <- rev_app_distr, <- Hrl. unfold rl. rewrite rev_involutive. reflexivity. }
  assert (Gt : get_tok s1 t = get_tok s t) by (destruct t; [reflexivity|cbn [get_tok]; rewrite Tk; reflexivity]).
  split.
  2:{ intros c E. destruct (Hr c E) as [[a Hin] Ho]. split; [rewrite is_open_upd_tok'; exact Ho|].
      exists a. rewrite Hidle. apply in_or_app. right. apply in_rev in Hin. exact Hin. }
  pose proof (G_R1 _ _ _ _ _ H1) as HR. pose proof (G_SI _ _ _ _ _ H1) as HS.
  destruct t as [|i].
  { cbn in Hidle. destruct (rev rest), (rev pre); try discriminate. destruct pre; [|cbn in Hidle; discriminate].
    cbn [upd_tok]. eapply G_F; [|exact H1]. intros c. destruct r as [c0|]; [destruct (Hr c0 eq_refl) as [[a []] _]|]. cbn [oconn app]. lia. }
  destruct (nth_error (toks s1) i) as [p|] eqn:Epn.
  2:{ assert (E0 : get_tok s1 (S i) = empty_tok) by (cbn [get_tok]; apply nth_overflow, nth_error_None; exact Epn).
      rewrite <- Gt, E0 in Hidle. cbn in Hidle. symmetry in Hidle. apply app_eq_nil in Hidle as [_ Hp]. 
      assert (pre = []) by (destruct pre; [reflexivity|cbn in Hp; destruct (rev pre); discriminate]). subst pre.
      assert (r = None) by (destruct r as [c0|]; [destruct (Hr c0 eq_refl) as [[a []] _]|reflexivity]). subst r.
      cbn [oconn app]. eapply G_eq; [| | | | | | | |exact H1]; try reflexivity. apply upd_tok_none. exact Epn. }
  assert (Ep' : get_tok s1 (S i) = p) by (apply get_tok_nth; exact Epn).
  rewrite <- Gt, Ep' in Hidle.
  eapply (G_state fin x F x (oconn r ++ F) m0 s1); [reflexivity| | |exact H1].
  - apply R1_tok; [|exact HR]. intros c a Hin. left. rewrite Ep'. cbn [set_idle p_idle] in Hin. rewrite Hidle. apply in_or_app. left. exact Hin.
  - eapply SI_tok_gen; [exact Epn| | | |exact HS].
    + intros c _. unfold tokH. cbn [set_idle p_idle]. rewrite Hidle, map_app, !cnt_app.
      assert (cnt (oconn r) c <= cnt (map fst (rev pre)) c); [|lia].
      destruct r as [c0|]; [|cbn; lia]. destruct (Hr c0 eq_refl) as [[a Hin] _]. cbn [oconn]. rewrite cnt_cons, cnt_nil.
      destruct (Nat.eq_dec c0 c) as [<-|]; [|lia]. apply in_rev in Hin. apply (in_map fst) in Hin. cbn [fst] in Hin. apply cnt_In in Hin. lia.
    + assert (Hold : forall c, In c (map fst (p_idle p)) -> c < List.length (conns s1)).
      { intros c Hc. apply (si_bnd _ _ _ HS). left. unfold HL. apply in_or_app. left. eapply in_fm_intro; [exact Epn|exact Hc]. }
      intros c [Hc|Hc].
      * apply Hold. unfold tokH in Hc. cbn [set_idle p_idle] in Hc. rewrite Hidle, map_app. apply in_or_app. left. exact Hc.
      * apply in_app_or in Hc as [Hc|Hc]; [|apply (si_bnd _ _ _ HS); right; exact Hc].
        destruct r as [c0|]; [|destruct Hc]. destruct Hc as [<-|[]]. destruct (Hr c0 eq_refl) as [[a Hin] _].
        apply Hold. rewrite Hidle, map_app. apply in_or_app. right. apply in_rev in Hin. apply (in_map fst) in Hin. exact Hin.
    + intros c Hc. apply (si_rdy _ _ _ HS). unfold RL. apply in_or_app. left. eapply in_fm_intro; [exact Epn|].
      unfold tokH in *. cbn [set_idle p_idle] in Hc. rewrite Hidle, map_app. apply in_or_app. left. exact Hc.
Qed.

Lemma rdy_shared s c : share_of s c = true -> rdy s c.
Proof. intros H E. congruence. Qed.

Lemma G_register fin x F m0 t c s :
  TokOK (curT m0 s) c t -> Le fin (snd (register cfg t c s)) -> G fin x (c :: F) m0 s ->
  G fin x (c :: F) m0 (snd (register cfg t c s)) /\ fst (fst (register cfg t c s)) = c /\
  (share_of s c = false -> fst (register cfg t c s) = (c, t) /\ snd (register cfg t c s) = s).
Proof.
  intros Ht HL H. unfold register in *.
  destruct (g_pool cfg && negb (t =? 0)); [|cbn [fst snd]; auto].
  destruct (share_of s c) eqn:Es; cbn [fst snd] in *; [|auto].
  split; [|split; [reflexivity|discriminate]].
  destruct (is_open s c); [|exact H].
  assert (Es1 : share_of (clone_conn c s) c = true) by (unfold clone_conn; rewrite share_of_upd by reflexivity; exact Es).
  apply (G_pool_push fin x (c :: F) m0 (g_max_idle cfg) t c (clone_conn c s)); [reflexivity| |apply rdy_shared; exact Es1|exact HL|].
  - exact Ht.
  - apply G_dup_shared; [exact Es1|]. apply G_clone_conn, H.
Qed.

Lemma cS1_dial m s r k d : R1 (tv_of m) s -> get_dial s r = Some d -> d_stage d = DNew -> cS1 cfg m (EDial r k) = true.
Proof.
  intros HR Hd Hs. cbn [cS1].
  assert (Hlt : r < List.length (t_rv (tv_of m))).
  { pose proof (q_lr _ _ HR). pose proof (q_ld _ _ HR). apply nth_lt in Hd. lia. }
  destruct (nth_ex _ _ Hlt) as [w Hw]. pose proof Hw as Hw'. unfold tv_of in Hw'. cbn [t_rv] in Hw'. rewrite nth_map in Hw'.
  destruct (nth_error (m_reqs m) r) as [y|]; [|discriminate]. cbn [option_map] in Hw'. inversion Hw'; subst w.
  destruct (g_pool cfg) eqn:Ep; [|reflexivity]. destruct (ri_d6 y); [reflexivity|]. cbn [negb andb].
  destruct (ri_avail y) eqn:Ea; [|reflexivity]. exfalso. eapply (q_avail _ _ HR Ep r (rv_of y) d); eauto.
Qed.

Lemma G_upd_dial fin x F m0 s r f :
  (forall d, d_stage d <> DNew -> d_stage (f d) <> DNew) -> G fin x F m0 s -> G fin x F m0 (upd_dial r f s).
Proof.
  intros Hf H. eapply (G_state fin x F x F m0 s); [reflexivity| | |exact H].
  - apply R1_upd_dial; [exact Hf|apply (G_R1 _ _ _ _ _ H)].
  - eapply SI_eq; [| | | |apply (G_SI _ _ _ _ _ H)]; reflexivity.
Qed.

Lemma G_new_conn fin x F m0 s sh rid cn :
  c_share cn = sh -> c_open cn = true -> rid < List.length (t_rv (curT m0 s)) ->
  G fin x F m0 s -> G fin x (List.length (conns s) :: F) m0 (emit (ENew (List.length (conns s)) sh rid) (set_conns (conns s ++ [cn]) s)).
Proof.
  intros Hs Ho Hr (H1 & H2 & H3). unfold G. rewrite curT_emit. split; [|split].
  - unfold emit. cbn [out set_out set_conns rev]. rewrite evs_ok_snoc. fold (cur m0 s). rewrite H1. reflexivity.
  - change (curT m0 (set_conns (conns s ++ [cn]) s)) with (curT m0 s).
    eapply R1_eq; [| | | | | | |apply (R1_new_conn _ s (List.length (conns s)) sh rid cn Hs Ho Hr H2)]; reflexivity.
  - eapply SI_eq; [| | | |apply (SI_new_conn x F s cn H3)]; reflexivity.
Qed.

Lemma G_connector_poll fin x F m0 rid by_ t s :
  (g_pool cfg = true -> t <> 0 /\ rtok (curT m0 s) rid = t) -> G fin x F m0 s ->
  G fin x (match fst (connector_poll rid by_ s) with CReady (inl c) => c :: F | _ => F end) m0 (snd (connector_poll rid by_ s)) /\
  (forall c, fst (connector_poll rid by_ s) = CReady (inl c) ->
     TokOK (curT m0 (snd (connector_poll rid by_ s))) c t /\ rdy (snd (connector_poll rid by_ s)) c).
Proof.
  intros Ht H. pose proof (G_R1 _ _ _ _ _ H) as HR. unfold connector_poll.
  destruct (get_dial s rid) as [d|] eqn:Hd; [|cbn [fst snd]; split; [exact H|discriminate]].
  assert (Hrid : rid < List.length (t_rv (curT m0 s))).
  { pose proof (q_lr _ _ HR). pose proof (q_ld _ _ HR). apply nth_lt in Hd. lia. }
  destruct (d_stage d) as [| |[alpn| |]|] eqn:Es; cbn [fst snd]; try (split; [|discriminate]).
  - apply G_upd_dial; [intros d0 _; cbn; discriminate|].
    apply G_emit; [| |exact H].
    + unfold ck1. cbn [cDropF]. rewrite andb_true_r. eapply cS1_dial; [exact HR|exact Hd|exact Es].
    + exact HR.
  - apply G_upd_dial; [intros d0 Hn; exact Hn|exact H].
  - set (sh := match d_proto d with H1 => alpn | H2 => true end).
    set (cn := mkConn rid sh true true 1 0 []).
    assert (HN : G fin x (List.length (conns s) :: F) m0 (emit (ENew (List.length (conns s)) sh rid) (set_conns (conns s ++ [cn]) s)))
      by (apply G_new_conn; [reflexivity|reflexivity|exact Hrid|exact H]).
    split; [apply G_upd_dial; [intros d0 _; cbn; discriminate|exact HN]|].
    intros c E. inversion E; subst c. clear E. split.
    + intros Hp. destruct (Ht Hp) as [Hnz Hrt]. split; [exact Hnz|].
      change (curT m0 (upd_dial rid (d_set_stage DGone) (emit (ENew (List.length (conns s)) sh rid) (set_conns (conns s ++ [cn]) s))))
        with (curT m0 (emit (ENew (List.length (conns s)) sh rid) (set_conns (conns s ++ [cn]) s))).
      rewrite curT_emit. change (curT m0 (set_conns (conns s ++ [cn]) s)) with (curT m0 s).
      unfold ctok, ckey. cbn [tv_ev t_cv t_ks]. rewrite <- (q_lc _ _ HR), nth_error_app2, Nat.sub_diag by lia. cbn [nth_error v_origin].
      rewrite <- Hrt. reflexivity.
    + unfold rdy, ready_of, get_conn. cbn [upd_dial set_dials emit set_out set_conns conns]. rewrite nth_error_app2, Nat.sub_diag by lia. reflexivity.
  - apply G_upd_dial; [intros d0 _; cbn; discriminate|exact H].
  - apply G_upd_dial; [intros d0 _; cbn; discriminate|exact H].
  - exact H.
Qed.

(* ---------------------------------------------------------------- extension: what a local value survives *)
Definition ext (s s' : state) : Prop :=
  (exists l, out s' = l ++ out s) /\
  (forall c, share_of s' c = false -> share_of s c = false) /\
  (forall c, c < List.length (conns s) -> ready_of s' c = ready_of s c).
Lemma ext_refl s : ext s s.
Proof. split; [exists []; reflexivity|split; auto]. Qed.
Lemma share_imp_len s s' : (forall c, share_of s' c = false -> share_of s c = false) -> List.length (conns s) <= List.length (conns s') -> True.
Proof. auto. Qed.
Definition clen (s s' : state) : Prop := List.length (conns s) <= List.length (conns s').
Lemma ext_trans s1 s2 s3 : clen s1 s2 -> ext s1 s2 -> ext s2 s3 -> ext s1 s3.
Proof.
  intros L ([l1 A1] & B1 & C1) ([l2 A2] & B2 & C2). split; [exists (l2 ++ l1); rewrite A2, A1, app_assoc; reflexivity|].
  split; [auto|]. intros c Hc. rewrite C2 by (unfold clen in L; lia). auto.
Qed.
Lemma ext_same s s' : out s' = out s -> conns s' = conns s -> ext s s'.
Proof.
  intros Eo Ec. split; [exists []; exact Eo|]. split; intros c.
  - rewrite (share_of_conns _ _ c Ec). auto.
  - intros _. apply ready_of_conns, Ec.
Qed.
Lemma clen_same s s' : conns s' = conns s -> clen s s'.
Proof. intros E. unfold clen. rewrite E. lia. Qed.
Lemma ext_emit e s : ext s (emit e s).
Proof. split; [exists [e]; reflexivity|split; auto]. Qed.
Lemma ext_upd_conn c f s :
  (forall cn, c_share (f cn) = c_share cn) -> (forall cn, c_ready (f cn) = c_ready cn) -> ext s (upd_conn c f s).
Proof.
  intros Hs Hr. split; [exists []; reflexivity|]. split; intros c'.
  - rewrite share_of_upd by exact Hs. auto.
  - intros _. apply ready_of_upd, Hr.
Qed.
Lemma clen_upd_conn c f s : clen s (upd_conn c f s).
Proof. unfold clen, upd_conn. cbn [conns set_conns]. rewrite upd_len. lia. Qed.

(* bundled: extension with monotone length *)
Definition xt (s s' : state) : Prop := ext s s' /\ clen s s'.
Lemma xt_refl s : xt s s. Proof. split; [apply ext_refl|unfold clen; lia]. Qed.
Lemma xt_trans s1 s2 s3 : xt s1 s2 -> xt s2 s3 -> xt s1 s3.
Proof. intros [A B] [A' B']. split; [eapply ext_trans; eauto|unfold clen in *; lia]. Qed.
Lemma xt_same s s' : out s' = out s -> conns s' = conns s -> xt s s'.
Proof. intros A B. split; [apply ext_same; assumption|apply clen_same; assumption]. Qed.
Lemma xt_emit e s : xt s (emit e s).
Proof. split; [apply ext_emit|unfold clen; cbn; lia]. Qed.
Lemma xt_upd_conn c f s : (forall cn, c_share (f cn) = c_share cn) -> (forall cn, c_ready (f cn) = c_ready cn) -> xt s (upd_conn c f s).
Proof. intros A B. split; [apply ext_upd_conn; assumption|apply clen_upd_conn]. Qed.
Lemma xt_upd_tok t f s : xt s (upd_tok t f s).
Proof. apply xt_same; [apply out_upd_tok|apply conns_upd_tok]. Qed.

Lemma xt_drop_conn c s : xt s (drop_conn c s).
Proof.
  unfold drop_conn. destruct (get_conn s c) as [cn|]; [|apply xt_refl].
  destruct (Nat.eqb _ _); [eapply xt_trans; [|apply xt_emit]|]; apply xt_upd_conn; reflexivity.
Qed.
Lemma xt_pooled_drop p s : xt s (pooled_drop p s).
Proof. destruct p as [c t]. unfold pooled_drop. destruct (share_of s c); [apply xt_drop_conn|apply xt_same; reflexivity]. Qed.
Lemma xt_deliver w p s : xt s (deliver w p s).
Proof. apply xt_same; [apply out_deliver|apply conns_deliver]. Qed.
Lemma xt_walk t c sh ws : forall s, xt s (snd (walk_waiters t c sh ws s)).
Proof.
  induction ws as [|[w b] ws IH]; intros s; cbn [walk_waiters]; [apply xt_refl|].
  destruct (rx_live s w); [destruct sh|]; cbn [snd].
  - eapply xt_trans; [|apply IH]. apply (xt_trans _ (clone_conn c s)); [unfold clone_conn; apply xt_upd_conn; reflexivity|apply xt_deliver].
  - apply xt_deliver.
  - apply IH.
Qed.
Lemma xt_pool_push n t c s : xt s (pool_push n t c s).
Proof.
  unfold pool_push. set (s1 := if share_of s c then upd_tok t (set_marker None) s else s).
  assert (X1 : xt s s1) by (subst s1; destruct (share_of s c); [apply xt_upd_tok|apply xt_refl]).
  pose proof (xt_walk t c (share_of s1 c) (p_waiting (get_tok s1 t)) s1) as X2.
  destruct (walk_waiters t c (share_of s1 c) (p_waiting (get_tok s1 t)) s1) as [[rest moved] s2]. cbn [snd] in X2.
  assert (X3 : xt s (upd_tok t (set_waiting rest) s2)) by (eapply xt_trans; [exact X1|]; eapply xt_trans; [exact X2|apply xt_upd_tok]).
  destruct moved; [exact X3|]. destruct (Nat.ltb _ _); (eapply xt_trans; [exact X3|]); [apply xt_upd_tok|apply xt_drop_conn].
Qed.

Lemma xt_register t c s : xt s (snd (register cfg t c s)).
Proof.
  unfold register. destruct (g_pool cfg && negb (t =? 0)); [|apply xt_refl].
  destruct (share_of s c); cbn [snd]; [|apply xt_refl]. destruct (is_open s c); [|apply xt_refl].
  apply (xt_trans _ (clone_conn c s)); [unfold clone_conn; apply xt_upd_conn; reflexivity|apply xt_pool_push].
Qed.

Lemma xt_new_conn cn s : xt s (set_conns (conns s ++ [cn]) s).
Proof.
  split; [|unfold clen; cbn [conns set_conns]; rewrite app_length; lia].
  split; [exists []; reflexivity|]. split.
  - intros c. apply share_of_app.
  - intros c Hc. unfold ready_of. rewrite get_conn_app by lia. reflexivity.
Qed.

Lemma xt_upd_dial r f s : xt s (upd_dial r f s).
Proof. apply xt_same; reflexivity. Qed.

Lemma xt_connector_poll rid by_ s : xt s (snd (connector_poll rid by_ s)).
Proof.
  unfold connector_poll. destruct (get_dial s rid) as [d|]; [|apply xt_refl].
  destruct (d_stage d) as [| |[alpn| |]|]; cbn [snd]; try apply xt_refl; try apply xt_upd_dial.
  - eapply xt_trans; [apply xt_emit|apply xt_upd_dial].
  - eapply xt_trans; [apply xt_new_conn|]. eapply xt_trans; [apply xt_emit|apply xt_upd_dial].
Qed.

Lemma xt_rx_drop ck s : xt s (snd (rx_drop ck s)).
Proof. unfold rx_drop. destruct (k_waiter ck), (k_slot ck); cbn [snd]; try apply xt_refl; apply xt_pooled_drop. Qed.

Lemma xt_set_req w v s : xt s (set_req w v s).
Proof. apply xt_same; reflexivity. Qed.

(* transport of local facts *)
Lemma curT_app m0 s s' l : out s' = l ++ out s -> curT m0 s' = fold_left tv_ev (rev l) (curT m0 s).
Proof.
  intros E. unfold curT, cur. rewrite E, rev_app_distr, fold_left_app.
  generalize (fold_left track_ev (rev (out s)) m0). generalize (rev l). clear.
  induction l as [|e l IH]; intros m; cbn [fold_left]; [reflexivity|]. rewrite IH, tv_track_ev. reflexivity.
Qed.

Lemma TokOK_fold c t : forall l T, TokOK T c t -> TokOK (fold_left tv_ev l T) c t.
Proof. induction l as [|e l IH]; intros T H; cbn [fold_left]; [exact H|]. apply IH, TokOK_ev, H. Qed.

Lemma TokOK_xt m0 s s' c t : xt s s' -> TokOK (curT m0 s) c t -> TokOK (curT m0 s') c t.
Proof. intros [([l E] & _ & _) _] H. rewrite (curT_app m0 s s' l E). apply TokOK_fold, H. Qed.

Lemma PooledOK_xt m0 s s' p : xt s s' -> PooledOK (curT m0 s) s p -> PooledOK (curT m0 s') s' p.
Proof. intros X H Hs. eapply TokOK_xt; [exact X|]. apply H. destruct X as [(_ & B & _) _]. apply B, Hs. Qed.

Lemma rtok_fold r : forall l T, rtok (fold_left tv_ev l T) r = rtok T r.
Proof. induction l as [|e l IH]; intros T; cbn [fold_left]; [reflexivity|]. rewrite IH. apply rtok_ev. Qed.

Lemma rtok_xt m0 s s' r : xt s s' -> rtok (curT m0 s') r = rtok (curT m0 s) r.
Proof. intros [([l E] & _ & _) _]. rewrite (curT_app m0 s s' l E). apply rtok_fold. Qed.

Lemma CkOK_xt m0 s s' r ck : xt s s' -> CkOK (curT m0 s) s r ck -> CkOK (curT m0 s') s' r ck.
Proof.
  intros X (A & B & C). split; [|split].
  - intros Hp. rewrite (rtok_xt m0 s s' r X). auto.
  - intros c Hc. eapply TokOK_xt; eauto.
  - intros p Hp. eapply PooledOK_xt; eauto.
Qed.

Lemma rdy_xt s s' c : xt s s' -> c < List.length (conns s) -> rdy s c -> rdy s' c.
Proof. intros [(_ & B & C) _] Hc H Hs. rewrite C by exact Hc. apply H, B, Hs. Qed.

(* ---------------------------------------------------------------- checkouts as local values *)
(* [ck'] agrees with [ck] on everything the pool logic reads except the channel *)
Definition sameK (ck ck' : checkout) : Prop :=
  k_token ck' = k_token ck /\ k_conn ck' = k_conn ck /\ k_owner ck' = k_owner ck /\ k_inner ck' = k_inner ck.
Lemma sameK_refl ck : sameK ck ck. Proof. repeat split. Qed.
Lemma sameK_trans a b c : sameK a b -> sameK b c -> sameK a c.
Proof. intros (A1 & A2 & A3 & A4) (B1 & B2 & B3 & B4). repeat split; congruence. Qed.

Lemma CkOK_sameK T s r ck ck' :
  sameK ck ck' -> (k_slot ck' = k_slot ck \/ k_slot ck' = None) -> CkOK T s r ck -> CkOK T s r ck'.
Proof.
  intros (E1 & E2 & _ & _) Hs (A & B & C). split; [|split].
  - rewrite E1. exact A.
  - intros c Hc. rewrite E1. apply B. congruence.
  - intros p Hp. destruct Hs as [Hs|Hs]; rewrite Hs in Hp; [auto|discriminate].
Qed.

Lemma waiter_poll_spec ck :
  sameK ck (snd (waiter_poll ck)) /\
  ((exists p, fst (waiter_poll ck) = WConnected p /\ k_slot ck = Some p /\ k_slot (snd (waiter_poll ck)) = None) \/
   ((forall p, fst (waiter_poll ck) <> WConnected p) /\ k_slot (snd (waiter_poll ck)) = k_slot ck)).
Proof.
  unfold waiter_poll. destruct (k_waiter ck); [destruct (k_slot ck) as [p|] eqn:Es|destruct (k_slot ck) as [p|] eqn:Es|];
    try destruct (k_txdropped ck); cbn [fst snd]; (split; [repeat split|]);
    try (left; exists p; repeat split; reflexivity); right; (split; [discriminate|cbn; auto]).
Qed.

Lemma rx_drop_spec ck s :
  sameK ck (fst (rx_drop ck s)) /\
  (k_slot (fst (rx_drop ck s)) = k_slot ck \/ k_slot (fst (rx_drop ck s)) = None) /\
  (k_waiter ck <> WNoPool -> k_slot (fst (rx_drop ck s)) = None).
Proof.
  unfold rx_drop. destruct (k_waiter ck), (k_slot ck) as [p|] eqn:Es; cbn [fst]; (split; [repeat split|split]); cbn; auto; try congruence.
Qed.

Lemma G_rx_drop fin x F m0 rid ck s :
  CkOK (curT m0 s) s rid ck -> G fin x (ckH ck ++ F) m0 s ->
  G fin x (ckH (fst (rx_drop ck s)) ++ F) m0 (snd (rx_drop ck s)).
Proof.
  intros (_ & _ & C) H. unfold rx_drop.
  destruct (k_waiter ck), (k_slot ck) as [p|] eqn:Es; cbn [fst snd]; try exact H.
  all: try (eapply G_F; [|exact H]; intros c; unfold ckH; cbn [k_set_waiter k_slot k_conn]; rewrite Es; lia).
  all: unfold ckH in *; cbn [k_set_waiter k_set_slot k_slot k_conn oslot app] in *; rewrite Es in H; cbn [oslot app] in H;
       apply G_pooled_drop; [apply C; reflexivity|exact H].
Qed.

Definition LK (s : state) (ck : checkout) : Prop := forall c, k_conn ck = Some c -> rdy s c /\ c < List.length (conns s).
Lemma LK_xt s s' ck : xt s s' -> LK s ck -> LK s' ck.
Proof. intros X H c Hc. destruct (H c Hc) as [A B]. split; [eapply rdy_xt; eauto|]. destruct X as [_ L]. unfold clen in L. lia. Qed.
Lemma LK_sameK s ck ck' : k_conn ck' = k_conn ck \/ k_conn ck' = None -> LK s ck -> LK s ck'.
Proof. intros [E|E] H c Hc; rewrite E in Hc; [auto|discriminate]. Qed.

(* postcondition of Checkout::poll for request rid (whose state entry is blanked: x = Some rid) *)
Definition CPost fin F m0 rid (s0 : state) (res : kpoll * checkout * state) : Prop :=
  G fin (Some rid) (match fst (fst res) with KReady (inl p) => [fst p] | _ => [] end ++ ckH (snd (fst res)) ++ F) m0 (snd res) /\
  CkOK (curT m0 (snd res)) (snd res) rid (snd (fst res)) /\ LK (snd res) (snd (fst res)) /\
  (forall p, fst (fst res) = KReady (inl p) -> PooledOK (curT m0 (snd res)) (snd res) p) /\
  xt s0 (snd res).

Lemma G_set_req_x fin r F m0 s ck :
  CkOK (curT m0 s) s r ck -> G fin (Some r) F m0 s -> G fin (Some r) F m0 (set_req r (RCheckout ck) s).
Proof.
  intros Hck H. eapply (G_state fin (Some r) F (Some r) F m0 s); [reflexivity| | |exact H].
  - apply R1_set_req; [|discriminate|apply (G_R1 _ _ _ _ _ H)]. intros ck0 E. inversion E; subst. exact Hck.
  - apply SI_set_req_x, (G_SI _ _ _ _ _ H).
Qed.

Lemma reg_tail fin F m0 rid s0 ck2 c s2 :
  xt s0 s2 -> CkOK (curT m0 s2) s2 rid ck2 -> LK s2 ck2 -> TokOK (curT m0 s2) c (k_token ck2) ->
  G fin (Some rid) (c :: ckH ck2 ++ F) m0 s2 ->
  Le fin (snd (let '(p, s4) := register cfg (k_token ck2) c (set_req rid (RCheckout ck2) s2) in (KReady (inl p), ck2, s4))) ->
  CPost fin F m0 rid s0
    (let '(p, s4) := register cfg (k_token ck2) c (set_req rid (RCheckout ck2) s2) in (KReady (inl p), ck2, s4)).
Proof.
  intros X0 Hck HL Ht H HLe0. set (s3 := set_req rid (RCheckout ck2) s2) in *.
  assert (HLe : Le fin (snd (register cfg (k_token ck2) c s3))) by (destruct (register cfg (k_token ck2) c s3); exact HLe0). clear HLe0.
  assert (H3 : G fin (Some rid) (c :: ckH ck2 ++ F) m0 s3) by (apply G_set_req_x; assumption).
  assert (X3 : xt s2 s3) by apply xt_set_req.
  assert (T3 : TokOK (curT m0 s3) c (k_token ck2)) by (eapply TokOK_xt; eauto).
  destruct (G_register fin (Some rid) (ckH ck2 ++ F) m0 (k_token ck2) c s3 T3 HLe H3) as (H4 & E4 & N4).
  pose proof (xt_register (k_token ck2) c s3) as X4.
  destruct (register cfg (k_token ck2) c s3) as [p s4] eqn:Er. cbn [fst snd] in *.
  assert (X24 : xt s2 s4) by exact (xt_trans _ _ _ X3 X4).
  unfold CPost. cbn [fst snd]. rewrite E4. split; [exact H4|]. split; [eapply CkOK_xt; eauto|]. split; [eapply LK_xt; eauto|].
  split; [|exact (xt_trans _ _ _ X0 X24)].
  intros p' E. inversion E; subst p'. intros Hs. destruct p as [c' t']. cbn [fst snd] in *. subst c'.
  assert (Hs3 : share_of s3 c = false) by (destruct X4 as [(_ & B & _) _]; apply B, Hs).
  destruct (N4 Hs3) as [Ep _]. inversion Ep; subst t'. eapply TokOK_xt; [exact X4|exact T3].
Qed.

Lemma CPost_plain fin F m0 rid s r ck' :
  (forall p, r <> KReady (inl p)) -> G fin (Some rid) (ckH ck' ++ F) m0 s -> CkOK (curT m0 s) s rid ck' -> LK s ck' ->
  CPost fin F m0 rid s (r, ck', s).
Proof.
  intros Hr H Hck HL. unfold CPost. cbn [fst snd]. split.
  - destruct r as [|[p|e]]; try exact H. exfalso. eapply Hr. reflexivity.
  - split; [exact Hck|]. split; [exact HL|]. split; [|apply xt_refl]. intros p E. exfalso. eapply Hr. exact E.
Qed.

Lemma CPost_xt fin F m0 rid s0 s1 res : xt s0 s1 -> CPost fin F m0 rid s1 res -> CPost fin F m0 rid s0 res.
Proof.
  intros X (A & B & C & D & E). unfold CPost. split; [exact A|]. split; [exact B|]. split; [exact C|]. split; [exact D|].
  exact (xt_trans _ _ _ X E).
Qed.

Lemma CkOK_eqs T s r ck ck' :
  k_token ck' = k_token ck -> k_conn ck' = k_conn ck -> (k_slot ck' = k_slot ck \/ k_slot ck' = None) -> CkOK T s r ck -> CkOK T s r ck'.
Proof.
  intros E1 E2 Hs (A & B & C). split; [|split].
  - rewrite E1. exact A.
  - intros c Hc. rewrite E1. apply B. congruence.
  - intros p Hp. destruct Hs as [Hs|Hs]; rewrite Hs in Hp; [auto|discriminate].
Qed.

Lemma conn_tail fin F m0 rid ck1 s :
  CkOK (curT m0 s) s rid ck1 -> LK s ck1 -> G fin (Some rid) (ckH ck1 ++ F) m0 s ->
  forall res,
  res = (let '(r, s) := connector_poll rid ByReq s in
     match r with
     | CPending => (KPending, ck1, s)
     | CReady res =>
         let '(ck, s) := rx_drop ck1 s in
         let ck := k_set_inner IConnected ck in
         let s := set_req rid (RCheckout ck) s in
         match res with
         | inl c => let '(p, s) := register cfg (k_token ck) c s in (KReady (inl p), ck, s)
         | inr e => (KReady (inr e), ck, s)
         end
     end) ->
  Le fin (snd res) -> CPost fin F m0 rid s res.
Proof.
  intros Hck HL H res Eres HLe.
  assert (Ht : g_pool cfg = true -> k_token ck1 <> 0 /\ rtok (curT m0 s) rid = k_token ck1) by (destruct Hck as (A & _); exact A).
  destruct (G_connector_poll fin (Some rid) (ckH ck1 ++ F) m0 rid ByReq (k_token ck1) s Ht H) as [Hc1 Hc2].
  pose proof (xt_connector_poll rid ByReq s) as X1.
  destruct (connector_poll rid ByReq s) as [r s1]. cbn [fst snd] in *.
  assert (Ck1 : CkOK (curT m0 s1) s1 rid ck1) by (eapply CkOK_xt; eauto).
  assert (L1 : LK s1 ck1) by (eapply LK_xt; eauto).
  destruct r as [|rs].
  - subst res. eapply CPost_xt; [exact X1|]. apply CPost_plain; [discriminate|exact Hc1|exact Ck1|exact L1].
  - set (Fc := match rs with inl c => [c] | inr _ => [] end).
    assert (H1 : G fin (Some rid) (ckH ck1 ++ Fc ++ F) m0 s1).
    { eapply G_F; [|exact Hc1]. intros c'. destruct rs as [c|e]; unfold Fc; rewrite ?cnt_cons, ?cnt_app, ?cnt_cons, ?cnt_nil; lia. }
    pose proof (G_rx_drop fin (Some rid) (Fc ++ F) m0 rid ck1 s1 Ck1 H1) as H2.
    pose proof (xt_rx_drop ck1 s1) as X2. destruct (rx_drop_spec ck1 s1) as ((E1 & E2 & E3 & E4) & Es & _).
    destruct (rx_drop ck1 s1) as [ck2 s2]. cbn [fst snd] in *.
    set (ck3 := k_set_inner IConnected ck2) in *.
    assert (Ck3 : CkOK (curT m0 s2) s2 rid ck3) by (eapply (CkOK_eqs _ _ _ ck1); [exact E1|exact E2|exact Es|eapply CkOK_xt; eauto]).
    assert (L3 : LK s2 ck3) by (eapply (LK_sameK _ ck1); [left; exact E2|eapply LK_xt; eauto]).
    assert (X02 : xt s s2) by exact (xt_trans _ _ _ X1 X2).
    destruct rs as [c|e].
    + subst res. apply reg_tail; [exact X02|exact Ck3|exact L3| | |exact HLe].
      * change (k_token ck3) with (k_token ck2). rewrite E1. eapply TokOK_xt; [exact X2|]. apply (proj1 (Hc2 c eq_refl)).
      * eapply G_F; [|exact H2]. intros c'. change (ckH ck3) with (ckH ck2). unfold Fc. rewrite !cnt_cons, !cnt_app, cnt_cons, cnt_nil. lia.
    + subst res. unfold CPost. cbn [fst snd app].
      assert (H3 : G fin (Some rid) (ckH ck3 ++ F) m0 (set_req rid (RCheckout ck3) s2)) by (apply G_set_req_x; [exact Ck3|exact H2]).
      pose proof (xt_set_req rid (RCheckout ck3) s2) as X3.
      split; [exact H3|]. split; [eapply CkOK_xt; eauto|]. split; [eapply LK_xt; eauto|]. split; [discriminate|exact (xt_trans _ _ _ X02 X3)].
Qed.

Lemma G_checkout_poll fin F m0 rid ck s :
  CkOK (curT m0 s) s rid ck -> LK s ck -> G fin (Some rid) (ckH ck ++ F) m0 s ->
  Le fin (snd (checkout_poll cfg rid ck s)) -> CPost fin F m0 rid s (checkout_poll cfg rid ck s).
Proof.
  intros Hck HL H HLe.
  destruct (waiter_poll_spec ck) as [SK Hsl]. pose proof SK as (E1 & E2 & E3 & E4).
  unfold checkout_poll in *. destruct (waiter_poll ck) as [w ck1]. cbn [fst snd] in *.
  assert (Ck1 : CkOK (curT m0 s) s rid ck1).
  { eapply (CkOK_eqs _ _ _ ck); [exact E1|exact E2| |exact Hck]. destruct Hsl as [(p & _ & _ & ->)|[_ ->]]; auto. }
  assert (L1 : LK s ck1) by (eapply (LK_sameK _ ck); [left; exact E2|exact HL]).
  destruct Hsl as [(p & -> & Hs0 & Hs1)|[Hnc Hs1]].
  - (* a delivered connection is taken *)
    unfold CPost. cbn [fst snd]. split; [|split; [exact Ck1|split; [exact L1|split; [|apply xt_refl]]]].
    + eapply G_F; [|exact H]. intros c. unfold ckH. rewrite Hs0, Hs1, E2. cbn [oslot app]. rewrite !cnt_cons, !cnt_app. lia.
    + intros p' E. inversion E; subst p'. destruct Hck as (_ & _ & C). apply C. exact Hs0.
  - assert (H1 : G fin (Some rid) (ckH ck1 ++ F) m0 s).
    { eapply G_F; [|exact H]. intros c. unfold ckH. rewrite Hs1, E2. lia. }
    destruct w as [|p|]; [apply CPost_plain; [discriminate|exact H1|exact Ck1|exact L1]|exfalso; eapply Hnc; reflexivity|].
    destruct (k_inner ck1) eqn:Ei.
    + apply CPost_plain; [discriminate|exact H1|exact Ck1|exact L1].
    + destruct (k_conn ck1) as [c|] eqn:Ec; [|apply CPost_plain; [discriminate|exact H1|exact Ck1|exact L1]].
      set (ck1' := k_set_conn None ck1) in *.
      assert (Ck1' : CkOK (curT m0 s) s rid ck1').
      { destruct Ck1 as (A & B & C). split; [exact A|split; [|exact C]]. cbn [ck1' k_set_conn k_conn]. discriminate. }
      assert (H1' : G fin (Some rid) (ckH ck1' ++ c :: F) m0 s).
      { eapply G_F; [|exact H1]. intros c'. unfold ckH, ck1'. cbn [k_set_conn k_slot k_conn]. rewrite Ec. cbn [oconn]. rewrite !cnt_app, !cnt_cons, cnt_nil. lia. }
      pose proof (G_rx_drop fin (Some rid) (c :: F) m0 rid ck1' s Ck1' H1') as H2.
      pose proof (xt_rx_drop ck1' s) as X2. destruct (rx_drop_spec ck1' s) as ((F1 & F2 & F3 & F4) & Es & _).
      destruct (rx_drop ck1' s) as [ck2 s2]. cbn [fst snd] in *.
      assert (Ck2 : CkOK (curT m0 s2) s2 rid ck2) by (eapply (CkOK_eqs _ _ _ ck1'); [exact F1|exact F2|exact Es|eapply CkOK_xt; eauto]).
      assert (L2 : LK s2 ck2) by (intros c' Hc'; rewrite F2 in Hc'; discriminate).
      apply reg_tail; [exact X2|exact Ck2|exact L2| | |exact HLe].
      * rewrite F1. eapply TokOK_xt; [exact X2|]. destruct Ck1 as (_ & B & _). apply B. exact Ec.
      * eapply G_F; [|exact H2]. intros c'. rewrite !cnt_cons, !cnt_app, cnt_cons. lia.
    + eapply conn_tail; eauto.
    + eapply conn_tail; eauto.
    + eapply conn_tail; eauto.
Qed.

Lemma G_rx_drop_fin fin x F m0 ck s :
  (forall p, k_slot ck = Some p -> PooledOK (curT m0 s) s p) -> G fin x (oslot (k_slot ck) ++ F) m0 s ->
  G fin x F m0 (snd (rx_drop ck s)).
Proof.
  intros C H. assert (H0 : G fin x F m0 s) by (eapply G_F; [|exact H]; intros c; rewrite cnt_app; lia).
  unfold rx_drop. destruct (k_waiter ck), (k_slot ck) as [p|] eqn:Es; cbn [snd]; try exact H0;
    (apply G_pooled_drop; [apply C; reflexivity|exact H]).
Qed.

(* idle lists unchanged *)
Definition Ieq (s s' : state) : Prop := forall t, p_idle (get_tok s' t) = p_idle (get_tok s t).
Lemma Ieq_refl s : Ieq s s. Proof. intros t; reflexivity. Qed.
Lemma Ieq_trans a b c : Ieq a b -> Ieq b c -> Ieq a c.
Proof. intros H1 H2 t. rewrite H2, H1. reflexivity. Qed.
Lemma Ieq_toks s s' : toks s' = toks s -> Ieq s s'.
Proof. intros E t. destruct t; [reflexivity|]. cbn [get_tok]. rewrite E. reflexivity. Qed.
Lemma Ieq_upd_tok t f s : (forall p, p_idle (f p) = p_idle p) -> Ieq s (upd_tok t f s).
Proof.
  intros Hf t'. destruct (Nat.eq_dec t t') as [<-|Hne]; [|rewrite get_tok_upd_ne by exact Hne; reflexivity].
  destruct (get_tok_upd_eq t f s) as [E|E]; rewrite E; [reflexivity|apply Hf].
Qed.
Lemma Ieq_pool_cancel t rid s : Ieq s (pool_cancel t rid s).
Proof.
  unfold pool_cancel. destruct (p_marker (get_tok s t)) as [o|]; [|apply Ieq_refl]. destruct (Nat.eqb o rid); [|apply Ieq_refl].
  set (s1 := upd_tok t (set_marker None) s).
  pose proof (toks_release_pending (p_waiting (get_tok s1 t)) s1) as Ht.
  destruct (release_pending (p_waiting (get_tok s1 t)) s1) as [rest s2]. cbn [snd] in Ht.
  eapply Ieq_trans; [apply (Ieq_upd_tok t (set_marker None) s); reflexivity|].
  eapply Ieq_trans; [apply Ieq_toks; exact Ht|apply Ieq_upd_tok; reflexivity].
Qed.
Lemma Le_Ieq fin s s' : Ieq s s' -> Le fin s' -> Le fin s.
Proof. intros E H t. specialize (H t). unfold ilen in *. rewrite E in H. exact H. Qed.
Lemma Ieq_rx_drop ck s : Ieq s (snd (rx_drop ck s)).
Proof. apply Ieq_toks, toks_rx_drop. Qed.

Lemma xt_pool_cancel t rid s : xt s (pool_cancel t rid s).
Proof.
  assert (E : forall ws s0, out (snd (release_pending ws s0)) = out s0 /\ conns (snd (release_pending ws s0)) = conns s0).
  { induction ws as [|[w b] ws IH]; intros s0; cbn [release_pending]; [auto|]. destruct b.
    - destruct (IH (drop_sender w s0)) as [A B]. rewrite A, B. unfold drop_sender.
      destruct (get_req s0 w) as [[|ck| | |]|]; auto. destruct (k_waiter ck); auto; destruct (k_rxpolled ck); auto.
    - specialize (IH s0). destruct (release_pending ws s0). exact IH. }
  unfold pool_cancel. destruct (p_marker (get_tok s t)) as [o|]; [|apply xt_refl]. destruct (Nat.eqb o rid); [|apply xt_refl].
  set (s1 := upd_tok t (set_marker None) s). destruct (E (p_waiting (get_tok s1 t)) s1) as [A B].
  destruct (release_pending (p_waiting (get_tok s1 t)) s1) as [rest s2]. cbn [snd] in *.
  apply xt_same; [rewrite out_upd_tok, A; apply out_upd_tok|rewrite conns_upd_tok, B; apply conns_upd_tok].
Qed.

Lemma G_checkout_drop fin F m0 rid ck s :
  CkOK (curT m0 s) s rid ck -> LK s ck -> G fin None (ckH ck ++ F) m0 s ->
  Le fin (checkout_drop cfg rid ck s) -> G fin None F m0 (checkout_drop cfg rid ck s).
Proof.
  intros Hck HL H HLe. unfold checkout_drop in *.
  set (t := k_token ck) in *. set (hp := g_pool cfg && negb (t =? 0)) in *.
  set (s1 := match k_conn ck with
             | Some c => if is_open s c && hp then pool_push (g_max_idle cfg) t c s else drop_conn c s
             | None => s end) in *.
  set (dl := match k_inner ck with
             | IDelayDrop => match get_dial s1 rid with Some d => match d_stage d with DNew => false | _ => true end | None => false end
             | _ => false end) in *.
  set (s2 := if dl then spawn (TDelayed rid t (k_owner ck)) s1 else if hp && k_owner ck then pool_cancel t rid s1 else s1) in *.
  assert (I2 : Ieq s1 s2) by (subst s2; destruct dl; [apply Ieq_toks; reflexivity|destruct (hp && k_owner ck); [apply Ieq_pool_cancel|apply Ieq_refl]]).
  assert (X2 : xt s1 s2) by (subst s2; destruct dl; [apply xt_same; reflexivity|destruct (hp && k_owner ck); [apply xt_pool_cancel|apply xt_refl]]).
  assert (HLe1 : Le fin s1).
  { eapply Le_Ieq; [exact I2|]. eapply Le_Ieq; [apply (Ieq_rx_drop ck s2)|].
    destruct (rx_drop ck s2) as [ck' s3]. cbn [snd].
    destruct (k_inner ck); try exact HLe; try (eapply Le_Ieq; [|exact HLe]; apply Ieq_toks; reflexivity).
    destruct dl; [exact HLe|eapply Le_Ieq; [|exact HLe]; apply Ieq_toks; reflexivity]. }
  destruct Hck as (A & B & C).
  assert (H1 : G fin None (oslot (k_slot ck) ++ F) m0 s1 /\ xt s s1).
  { subst s1. unfold ckH in H. destruct (k_conn ck) as [c|] eqn:Ec; [|split; [eapply G_F; [|exact H]; intros c'; rewrite !cnt_app; cbn; lia|apply xt_refl]].
    assert (H' : G fin None (c :: oslot (k_slot ck) ++ F) m0 s)
      by (eapply G_F; [|exact H]; intros c'; cbn [oconn]; rewrite !cnt_cons, !cnt_app, cnt_cons, cnt_nil; lia).
    destruct (HL c Ec) as [Hr Hb]. destruct (nth_ex _ _ Hb) as [cn Hc]. fold (get_conn s c) in Hc.
    assert (HD : forall cn0, get_conn s c = Some cn0 -> is_open s c && hp = false -> DJ fin (curT m0 s) c).
    { intros cn0 _ Hf. apply andb_false_iff in Hf as [Ho|Hh].
      - eapply DJ_notopen; [apply (G_R1 _ _ _ _ _ H)|exact Hc|exact Hr|exact Ho].
      - destruct (g_pool cfg) eqn:Ep; [|eapply DJ_nopool; [apply (G_R1 _ _ _ _ _ H)|exact Hc|exact Ep]].
        exfalso. destruct (A eq_refl) as [Hnz _]. unfold hp in Hh. cbn [andb] in Hh. apply negb_false_iff, Nat.eqb_eq in Hh. contradiction. }
    destruct (is_open s c && hp) eqn:Eo.
    - split; [|apply xt_pool_push]. apply G_pool_push; [reflexivity|apply B; reflexivity|exact Hr|exact HLe1|exact H'].
    - split; [|apply xt_drop_conn]. apply G_drop_conn; [intros cn0 Hc0; eapply HD; eauto|]. eapply G_F; [|exact H']. intros c'. rewrite cnt_cons. lia. }
  destruct H1 as [H1 X1].
  assert (H2 : G fin None (oslot (k_slot ck) ++ F) m0 s2).
  { subst s2. destruct dl.
    - eapply G_spawn; [discriminate| | | |exact H1].
      + intros rid' t' own E Hp. inversion E; subst. destruct (A Hp) as [Hnz Hrt]. split; [exact Hnz|]. rewrite (rtok_xt m0 s s1 rid' X1). exact Hrt.
      + intros c _. cbn [taskH]. rewrite cnt_nil. lia.
      + intros c Hc. eapply F_bnd; eauto.
    - destruct (hp && k_owner ck); [apply G_pool_cancel|]; exact H1. }
  assert (X02 : xt s s2) by exact (xt_trans _ _ _ X1 X2).
  pose proof (G_rx_drop_fin fin None F m0 ck s2 (fun p Hp => PooledOK_xt m0 s s2 p X02 (C p Hp)) H2) as H3.
  destruct (rx_drop ck s2) as [ck' s3]. cbn [snd] in H3.
  destruct (k_inner ck); try exact H3; try (apply G_upd_dial; [intros d _; cbn; discriminate|exact H3]).
  destruct dl; [exact H3|apply G_upd_dial; [intros d _; cbn; discriminate|exact H3]].
Qed.

(* ---------------------------------------------------------------- request kinds are preserved *)
Definition rkind (q q' : option req) : Prop :=
  match q with
  | Some (RCheckout _) => exists ck', q' = Some (RCheckout ck')
  | _ => q' = q
  end.
Definition kp (s s' : state) : Prop := forall r, rkind (get_req s r) (get_req s' r).
Lemma rkind_refl q : rkind q q. Proof. destruct q as [[]|]; cbn; eauto. Qed.
Lemma rkind_trans a b c : rkind a b -> rkind b c -> rkind a c.
Proof. destruct a as [[]|]; cbn; intros H1 H2; subst; auto. destruct H1 as [ck' ->]. exact H2. Qed.
Lemma kp_refl s : kp s s. Proof. intros r. apply rkind_refl. Qed.
Lemma kp_trans a b c : kp a b -> kp b c -> kp a c.
Proof. intros H1 H2 r. eapply rkind_trans; eauto. Qed.
Lemma kp_same s s' : reqs s' = reqs s -> kp s s'.
Proof. intros E r. unfold get_req. rewrite E. apply rkind_refl. Qed.
Lemma kp_set_ck s w ck ck' : get_req s w = Some (RCheckout ck) -> kp s (set_req w (RCheckout ck') s).
Proof.
  intros Hq r. rewrite get_req_set. destruct (Nat.eqb_spec w r) as [<-|]; [|apply rkind_refl]. rewrite Hq. cbn. eauto.
Qed.
Lemma kp_upd_tok t f s : kp s (upd_tok t f s). Proof. apply kp_same. destruct t; reflexivity. Qed.
Lemma kp_drop_conn c s : kp s (drop_conn c s).
Proof. apply kp_same. unfold drop_conn. destruct (get_conn s c); [|reflexivity]. destruct (Nat.eqb _ _); reflexivity. Qed.
Lemma kp_pooled_drop p s : kp s (pooled_drop p s).
Proof. destruct p as [c t]. unfold pooled_drop. destruct (share_of s c); [apply kp_drop_conn|apply kp_same; reflexivity]. Qed.
Lemma kp_deliver w p s : kp s (deliver w p s).
Proof.
  unfold deliver. destruct (get_req s w) as [[|ck| | |]|] eqn:Hq; try apply kp_refl.
  destruct (k_rxpolled ck); [eapply kp_trans; [apply (kp_set_ck s w ck); exact Hq|apply kp_same; reflexivity]|apply (kp_set_ck s w ck); exact Hq].
Qed.
Lemma kp_drop_sender w s : kp s (drop_sender w s).
Proof.
  unfold drop_sender. destruct (get_req s w) as [[|ck| | |]|] eqn:Hq; try apply kp_refl.
  destruct (k_waiter ck); try apply kp_refl;
  (destruct (k_rxpolled ck); [eapply kp_trans; [apply (kp_set_ck s w ck); exact Hq|apply kp_same; reflexivity]|apply (kp_set_ck s w ck); exact Hq]).
Qed.
Lemma kp_walk t c sh ws : forall s, kp s (snd (walk_waiters t c sh ws s)).
Proof.
  induction ws as [|[w b] ws IH]; intros s; cbn [walk_waiters]; [apply kp_refl|].
  destruct (rx_live s w); [destruct sh|]; cbn [snd].
  - eapply kp_trans; [|apply IH]. apply (kp_trans _ (clone_conn c s)); [apply kp_same; reflexivity|apply kp_deliver].
  - apply kp_deliver.
  - apply IH.
Qed.
Lemma kp_pool_push n t c s : kp s (pool_push n t c s).
Proof.
  unfold pool_push. set (s1 := if share_of s c then upd_tok t (set_marker None) s else s).
  assert (X1 : kp s s1) by (subst s1; destruct (share_of s c); [apply kp_upd_tok|apply kp_refl]).
  pose proof (kp_walk t c (share_of s1 c) (p_waiting (get_tok s1 t)) s1) as X2.
  destruct (walk_waiters t c (share_of s1 c) (p_waiting (get_tok s1 t)) s1) as [[rest moved] s2]. cbn [snd] in X2.
  assert (X3 : kp s (upd_tok t (set_waiting rest) s2)) by (eapply kp_trans; [exact X1|]; eapply kp_trans; [exact X2|apply kp_upd_tok]).
  destruct moved; [exact X3|]. destruct (Nat.ltb _ _); (eapply kp_trans; [exact X3|]); [apply kp_upd_tok|apply kp_drop_conn].
Qed.
Lemma kp_release_pending ws : forall s, kp s (snd (release_pending ws s)).
Proof.
  induction ws as [|[w b] ws IH]; intros s; cbn [release_pending]; [apply kp_refl|]. destruct b.
  - eapply kp_trans; [apply kp_drop_sender|apply IH].
  - specialize (IH s). destruct (release_pending ws s). exact IH.
Qed.
Lemma kp_pool_cancel t rid s : kp s (pool_cancel t rid s).
Proof.
  unfold pool_cancel. destruct (p_marker (get_tok s t)) as [o|]; [|apply kp_refl]. destruct (Nat.eqb o rid); [|apply kp_refl].
  set (s1 := upd_tok t (set_marker None) s). pose proof (kp_release_pending (p_waiting (get_tok s1 t)) s1) as X.
  destruct (release_pending (p_waiting (get_tok s1 t)) s1) as [rest s2]. cbn [snd] in X.
  eapply kp_trans; [apply (kp_upd_tok t (set_marker None) s)|]. eapply kp_trans; [exact X|apply kp_upd_tok].
Qed.
Lemma kp_rx_drop ck s : kp s (snd (rx_drop ck s)).
Proof. unfold rx_drop. destruct (k_waiter ck), (k_slot ck); cbn [snd]; try apply kp_refl; apply kp_pooled_drop. Qed.
Lemma kp_register t c s : kp s (snd (register cfg t c s)).
Proof.
  unfold register. destruct (g_pool cfg && negb (t =? 0)); [|apply kp_refl].
  destruct (share_of s c); cbn [snd]; [|apply kp_refl]. destruct (is_open s c); [|apply kp_refl].
  apply (kp_trans _ (clone_conn c s)); [apply kp_same; reflexivity|apply kp_pool_push].
Qed.
Lemma kp_connector_poll rid by_ s : kp s (snd (connector_poll rid by_ s)).
Proof. apply kp_same. unfold connector_poll. destruct (get_dial s rid) as [d|]; [|reflexivity]. destruct (d_stage d) as [| |[| |]|]; reflexivity. Qed.

Lemma kp_ck s s' r ck : kp s s' -> get_req s r = Some (RCheckout ck) -> exists ck', get_req s' r = Some (RCheckout ck').
Proof. intros H Hq. specialize (H r). rewrite Hq in H. exact H. Qed.

Lemma kp_checkout_poll rid ck ck0 s : get_req s rid = Some (RCheckout ck0) -> kp s (snd (checkout_poll cfg rid ck s)).
Proof.
  intros Hq. unfold checkout_poll. destruct (waiter_poll ck) as [w ck1]. destruct w; cbn [snd]; try apply kp_refl.
  assert (Tail : forall ck2 c s2, kp s s2 ->
            kp s (snd (let '(p, s4) := register cfg (k_token ck2) c (set_req rid (RCheckout ck2) s2) in (KReady (inl p), ck2, s4)))).
  { intros ck2 c s2 K2. destruct (kp_ck _ _ _ _ K2 Hq) as [ck' Hq2].
    pose proof (kp_register (k_token ck2) c (set_req rid (RCheckout ck2) s2)) as K4.
    destruct (register cfg (k_token ck2) c (set_req rid (RCheckout ck2) s2)) as [p s4]. cbn [snd] in *.
    eapply kp_trans; [exact K2|]. eapply kp_trans; [apply (kp_set_ck s2 rid ck'); exact Hq2|exact K4]. }
  assert (Conn : kp s (snd (let '(r, s) := connector_poll rid ByReq s in
     match r with
     | CPending => (KPending, ck1, s)
     | CReady res =>
         let '(ck, s) := rx_drop ck1 s in
         let ck := k_set_inner IConnected ck in
         let s := set_req rid (RCheckout ck) s in
         match res with
         | inl c => let '(p, s) := register cfg (k_token ck) c s in (KReady (inl p), ck, s)
         | inr e => (KReady (inr e), ck, s)
         end
     end))).
  { pose proof (kp_connector_poll rid ByReq s) as K1. destruct (connector_poll rid ByReq s) as [r s1]. cbn [snd] in K1.
    destruct r as [|res]; cbn [snd]; [exact K1|].
    pose proof (kp_rx_drop ck1 s1) as K2. destruct (rx_drop ck1 s1) as [ck2 s2]. cbn [snd] in K2.
    assert (K02 : kp s s2) by (eapply kp_trans; eauto).
    destruct res as [c|e]; [apply Tail; exact K02|]. cbn [snd].
    destruct (kp_ck _ _ _ _ K02 Hq) as [ck' Hq2]. eapply kp_trans; [exact K02|apply (kp_set_ck s2 rid ck'); exact Hq2]. }
  destruct (k_inner ck1); cbn [snd]; try apply kp_refl; try exact Conn.
  destruct (k_conn ck1) as [c|]; cbn [snd]; [|apply kp_refl].
  pose proof (kp_rx_drop (k_set_conn None ck1) s) as K2. destruct (rx_drop (k_set_conn None ck1) s) as [ck2 s2]. cbn [snd] in K2.
  apply Tail. exact K2.
Qed.

Lemma kp_checkout_drop rid ck s : kp s (checkout_drop cfg rid ck s).
Proof.
  unfold checkout_drop.
  set (s1 := match k_conn ck with Some c => _ | None => s end).
  assert (K1 : kp s s1) by (subst s1; destruct (k_conn ck) as [c|]; [|apply kp_refl]; destruct (_ && _); [apply kp_pool_push|apply kp_drop_conn]).
  clearbody s1. cbv zeta.
  match goal with |- context [if ?d then spawn ?tk s1 else ?e] => set (s2 := if d then spawn tk s1 else e) end.
  assert (K2 : kp s1 s2).
  { subst s2. match goal with |- context [if ?d then _ else _] => destruct d end; [apply kp_same; reflexivity|].
    destruct (_ && _); [apply kp_pool_cancel|apply kp_refl]. }
  clearbody s2. pose proof (kp_rx_drop ck s2) as K3. destruct (rx_drop ck s2) as [ck' s3]. cbn [snd] in K3.
  assert (K03 : kp s s3) by (eapply kp_trans; [exact K1|]; eapply kp_trans; eauto).
  assert (K4 : forall f, kp s (upd_dial rid f s3)) by (intros f; eapply kp_trans; [exact K03|apply kp_same; reflexivity]).
  destruct (k_inner ck); auto. match goal with |- context [if ?d then _ else _] => destruct d end; auto.
Qed.

(* ---------------------------------------------------------------- idle lists only grow (outside Issue) *)
Definition Mono (s s' : state) : Prop := forall t, ilen s t <= ilen s' t.
Lemma Mono_refl s : Mono s s. Proof. intros t; lia. Qed.
Lemma Mono_trans a b c : Mono a b -> Mono b c -> Mono a c.
Proof. intros H1 H2 t. specialize (H1 t). specialize (H2 t). lia. Qed.
Lemma Mono_Ieq s s' : Ieq s s' -> Mono s s'.
Proof. intros E t. unfold ilen. rewrite E. lia. Qed.
Lemma Mono_toks s s' : toks s' = toks s -> Mono s s'.
Proof. intros E. apply Mono_Ieq, Ieq_toks, E. Qed.
Lemma Le_Mono fin s s' : Mono s s' -> Le fin s' -> Le fin s.
Proof. intros M H t. specialize (M t). specialize (H t). lia. Qed.

Lemma Mono_pool_push n t c s : Mono s (pool_push n t c s).
Proof.
  unfold pool_push. set (s1 := if share_of s c then upd_tok t (set_marker None) s else s).
  assert (M1 : Mono s s1) by (subst s1; destruct (share_of s c); [apply Mono_Ieq, Ieq_upd_tok; reflexivity|apply Mono_refl]).
  pose proof (toks_walk_waiters t c (share_of s1 c) (p_waiting (get_tok s1 t)) s1) as Tk.
  destruct (walk_waiters t c (share_of s1 c) (p_waiting (get_tok s1 t)) s1) as [[rest moved] s2]. cbn [snd] in Tk.
  assert (M3 : Mono s (upd_tok t (set_waiting rest) s2)).
  { eapply Mono_trans; [exact M1|]. eapply Mono_trans; [apply Mono_toks; exact Tk|apply Mono_Ieq, Ieq_upd_tok; reflexivity]. }
  destruct moved; [exact M3|]. set (s3 := upd_tok t (set_waiting rest) s2) in *.
  destruct (Nat.ltb _ _); (eapply Mono_trans; [exact M3|]).
  - intros t'. unfold ilen. destruct (Nat.eq_dec t t') as [<-|Hne]; [|rewrite get_tok_upd_ne by exact Hne; lia].
    destruct (get_tok_upd_eq t (fun p => set_idle (p_idle p ++ [(c, now s3)]) p) s3) as [E|E]; rewrite E; [lia|].
    cbn [set_idle p_idle]. rewrite app_length. lia.
  - apply Mono_toks, toks_drop_conn.
Qed.

Lemma Mono_register t c s : Mono s (snd (register cfg t c s)).
Proof.
  unfold register. destruct (g_pool cfg && negb (t =? 0)); [|apply Mono_refl].
  destruct (share_of s c); cbn [snd]; [|apply Mono_refl]. destruct (is_open s c); [|apply Mono_refl].
  apply (Mono_trans _ (clone_conn c s)); [apply Mono_toks; reflexivity|apply Mono_pool_push].
Qed.

Lemma Mono_checkout_drop rid ck s : Mono s (checkout_drop cfg rid ck s).
Proof.
  unfold checkout_drop.
  set (s1 := match k_conn ck with Some c => _ | None => s end).
  assert (K1 : Mono s s1) by (subst s1; destruct (k_conn ck) as [c|]; [|apply Mono_refl]; destruct (_ && _); [apply Mono_pool_push|apply Mono_toks, toks_drop_conn]).
  clearbody s1. cbv zeta.
  match goal with |- context [if ?d then spawn ?tk s1 else ?e] => set (s2 := if d then spawn tk s1 else e) end.
  assert (K2 : Mono s1 s2).
  { subst s2. match goal with |- context [if ?d then _ else _] => destruct d end; [apply Mono_toks; reflexivity|].
    destruct (_ && _); [apply Mono_Ieq, Ieq_pool_cancel|apply Mono_refl]. }
  clearbody s2. pose proof (Mono_Ieq _ _ (Ieq_rx_drop ck s2)) as K3. destruct (rx_drop ck s2) as [ck' s3]. cbn [snd] in K3.
  assert (K03 : Mono s s3) by (eapply Mono_trans; [exact K1|]; eapply Mono_trans; eauto).
  assert (K4 : forall f, Mono s (upd_dial rid f s3)) by (intros f; eapply Mono_trans; [exact K03|apply Mono_toks; reflexivity]).
  destruct (k_inner ck); auto. match goal with |- context [if ?d then _ else _] => destruct d end; auto.
Qed.

(* weaker extension (readiness may change) *)
Definition xt0 (s s' : state) : Prop :=
  (exists l, out s' = l ++ out s) /\ (forall c, share_of s' c = false -> share_of s c = false).
Lemma xt0_of_xt s s' : xt s s' -> xt0 s s'.
Proof. intros [(A & B & _) _]. split; assumption. Qed.
Lemma xt0_trans a b c : xt0 a b -> xt0 b c -> xt0 a c.
Proof. intros [[l1 A1] B1] [[l2 A2] B2]. split; [exists (l2 ++ l1); rewrite A2, A1, app_assoc; reflexivity|auto]. Qed.
Lemma xt0_upd_conn c f s : (forall cn, c_share (f cn) = c_share cn) -> xt0 s (upd_conn c f s).
Proof. intros H. split; [exists []; reflexivity|]. intros c'. rewrite share_of_upd by exact H. auto. Qed.
Lemma TokOK_xt0 m0 s s' c t : xt0 s s' -> TokOK (curT m0 s) c t -> TokOK (curT m0 s') c t.
Proof. intros [[l E] _] H. rewrite (curT_app m0 s s' l E). apply TokOK_fold, H. Qed.
Lemma PooledOK_xt0 m0 s s' p : xt0 s s' -> PooledOK (curT m0 s) s p -> PooledOK (curT m0 s') s' p.
Proof. intros X H Hs. eapply TokOK_xt0; [exact X|]. apply H. destruct X as [_ B]. apply B, Hs. Qed.
Lemma CkOK_xt0 m0 s s' r ck : xt0 s s' -> CkOK (curT m0 s) s r ck -> CkOK (curT m0 s') s' r ck.
Proof.
  intros X (A & B & C). split; [|split].
  - intros Hp. destruct X as [[l E] _]. rewrite (curT_app m0 s s' l E), rtok_fold. auto.
  - intros c Hc. eapply TokOK_xt0; eauto.
  - intros p Hp. eapply PooledOK_xt0; eauto.
Qed.

Lemma G_x_on fin F m0 s r q : get_req s r = Some q -> G fin None F m0 s -> G fin (Some r) (reqH q ++ F) m0 s.
Proof. intros Hq (H1 & H2 & H3). split; [exact H1|split; [exact H2|]]. apply SI_x_on; assumption. Qed.

Lemma G_x_off fin F F' m0 s r v :
  r < List.length (reqs s) ->
  (forall ck, v = RCheckout ck -> CkOK (curT m0 s) s r ck /\ LK s ck) ->
  (forall c t f p, v = RHolding (c, t) f p ->
     (exists wv, nth_error (t_rv (curT m0 s)) r = Some wv /\ v_stat wv = SHeld c) /\ PooledOK (curT m0 s) s (c, t)) ->
  (forall c, share_of s c = false -> cnt (reqH v) c + cnt F' c <= cnt F c) ->
  (forall c, In c (reqH v) \/ In c F' -> c < List.length (conns s)) ->
  G fin (Some r) F m0 s -> G fin None F' m0 (set_req r v s).
Proof.
  intros Hr Hck Hhd Hcnt Hb H. eapply (G_state fin (Some r) F None F' m0 s); [reflexivity| | |exact H].
  - apply R1_set_req; [intros ck E; apply (Hck ck E)|exact Hhd|apply (G_R1 _ _ _ _ _ H)].
  - apply (SI_x_off r v F F' s); [exact Hr|exact Hcnt|exact Hb| |apply (G_SI _ _ _ _ _ H)].
    intros c Hc. destruct v; cbn [reqK] in Hc; try contradiction. destruct (k_conn ck) as [c0|] eqn:Ec; [|destruct Hc].
    destruct Hc as [<-|[]]. destruct (Hck ck eq_refl) as [_ L]. apply (L c0 Ec).
Qed.

Lemma G_emit_stat fin x F m0 s e r st :
  (forall T, tv_ev T e = mkTv (t_cv T) (upd_nth r (set_stat st) (t_rv T)) (t_ks T) (t_tm T)) ->
  (forall m, ck1 fin m e = true) ->
  (forall p f pl, get_req s r <> Some (RHolding p f pl)) -> G fin x F m0 s -> G fin x F m0 (emit e s).
Proof.
  intros E Hc Hnh H. apply G_emit; [apply Hc| |exact H]. eapply R1_stat; [apply E|exact Hnh|apply (G_R1 _ _ _ _ _ H)].
Qed.

Lemma G_emit_res fin x F m0 s r rr :
  (forall p f pl, get_req s r <> Some (RHolding p f pl)) -> G fin x F m0 s -> G fin x F m0 (emit (ERes r rr) s).
Proof. apply (G_emit_stat fin x F m0 s (ERes r rr) r SDone); reflexivity. Qed.

Lemma G_emit_hand fin x F m0 s r c b1 b2 b3 n :
  (forall p f pl, get_req s r <> Some (RHolding p f pl)) -> G fin x F m0 s -> G fin x F m0 (emit (EHand r c b1 b2 b3 n) s).
Proof. apply (G_emit_stat fin x F m0 s (EHand r c b1 b2 b3 n) r (SHeld c)); reflexivity. Qed.

Lemma G_hold_release fin F m0 r p s :
  PooledOK (curT m0 s) s p -> G fin None (fst p :: F) m0 s -> G fin None F m0 (hold_release r p s).
Proof.
  intros Hp H. unfold hold_release.
  set (s1 := upd_conn (fst p) (fun cn => c_set_holders (pred (c_holders cn)) cn) s).
  assert (H1 : G fin None (fst p :: F) m0 s1) by (apply G_upd_conn; [reflexivity|reflexivity|left; auto|exact H]).
  assert (H2 : G fin None (fst p :: F) m0 (emit (ERel r (fst p)) s1)) by (apply G_emit_quiet; [exact I|exact H1]).
  apply G_pooled_drop; [|exact H2].
  eapply PooledOK_xt0; [|exact Hp]. apply (xt0_trans _ s1); [unfold s1; apply xt0_upd_conn; reflexivity|apply xt0_of_xt, xt_emit].
Qed.

Lemma G_unwake fin x F m0 r s : G fin x F m0 s -> G fin x F m0 (unwake_req r s).
Proof. intros H. eapply G_eq; [| | | | | | | |exact H]; reflexivity. Qed.
Lemma G_wake fin x F m0 r s : G fin x F m0 s -> G fin x F m0 (wake_req r s).
Proof. intros H. eapply G_eq; [| | | | | | | |exact H]; reflexivity. Qed.

(* the request entry is replaced by a handle-free one; its handles become in-flight *)
Lemma G_set_req_gone fin F m0 s r q v :
  get_req s r = Some q -> reqH v = [] -> (forall ck, v <> RCheckout ck) ->
  G fin None F m0 s -> G fin None (reqH q ++ F) m0 (set_req r v s).
Proof.
  intros Hq Hv Hnc H. eapply (G_state fin None F None (reqH q ++ F) m0 s); [reflexivity| | |exact H].
  - apply R1_set_req; [intros ck E; exfalso; eapply Hnc; eauto| |apply (G_R1 _ _ _ _ _ H)].
    intros c t f p E. subst v. cbn in Hv. discriminate.
  - pose proof (G_SI _ _ _ _ _ H) as HS. eapply SI_set_req; [discriminate|exact Hq| | | |exact HS].
    + intros c _. rewrite Hv, cnt_nil, cnt_app. lia.
    + intros c [Hc|Hc]; [rewrite Hv in Hc; destruct Hc|]. apply (si_bnd _ _ _ HS). apply in_app_or in Hc as [Hc|Hc]; [|auto].
      left. eapply HL_req_in; [discriminate|exact Hq|exact Hc].
    + intros c Hc. destruct v; cbn in Hc; try contradiction. exfalso. eapply Hnc; eauto.
Qed.

Lemma reqs_hold_release r p s : reqs (hold_release r p s) = reqs s.
Proof.
  unfold hold_release, pooled_drop. destruct p as [c t]. cbn [fst].
  destruct (share_of _ c); [|reflexivity]. unfold drop_conn. destruct (get_conn _ c); [|reflexivity]. destruct (Nat.eqb _ _); reflexivity.
Qed.

Lemma LK_state fin F m0 s r ck : G fin None F m0 s -> get_req s r = Some (RCheckout ck) -> LK s ck.
Proof.
  intros H Hq c Hc. pose proof (G_SI _ _ _ _ _ H) as HS. split.
  - apply (si_rdy _ _ _ HS). eapply RL_req_in; [discriminate|exact Hq|]. cbn [reqK]. rewrite Hc. left. reflexivity.
  - apply (si_bnd _ _ _ HS). left. eapply HL_req_in; [discriminate|exact Hq|]. cbn [reqH]. unfold ckH. rewrite Hc. apply in_or_app. right. left. reflexivity.
Qed.

Lemma not_in_RL_flight x F s c : SI x (c :: F) s -> share_of s c = false -> ~ In c (RL x s).
Proof.
  intros HS Hs Hin. pose proof (si_lin _ _ _ HS c Hs) as L. apply RL_sub_HL, cnt_In in Hin. rewrite cnt_cons in L.
  destruct (Nat.eq_dec c c); [lia|congruence].
Qed.

Lemma G_hand_off fin F m0 r p ck' s2 b1 b2 b3 n sh ck0 :
  get_req s2 r = Some (RCheckout ck0) ->
  sh = share_of s2 (fst p) ->
  G fin (Some r) (fst p :: ckH ck' ++ F) m0 s2 -> CkOK (curT m0 s2) s2 r ck' -> LK s2 ck' -> PooledOK (curT m0 s2) s2 p ->
  let s5 := set_req r (RHolding p false true)
              (upd_conn (fst p) (fun cn => c_set_holders (S (c_holders cn)) (if sh then cn else c_set_ready false cn))
                 (emit (EHand r (fst p) b1 b2 b3 n) s2)) in
  G fin None (ckH ck' ++ F) m0 s5 /\ CkOK (curT m0 s5) s5 r ck' /\ LK s5 ck'.
Proof.
  intros Hq Hsh H Hck HL Hp s5. destruct p as [c t]. cbn [fst] in *.
  set (f := fun cn => c_set_holders (S (c_holders cn)) (if sh then cn else c_set_ready false cn)) in *.
  set (s3 := emit (EHand r c b1 b2 b3 n) s2) in *. set (s4 := upd_conn c f s3) in *.
  assert (Hfs : forall cn, c_share (f cn) = c_share cn) by (intros cn; unfold f; destruct sh; reflexivity).
  assert (Hfo : forall cn, c_open (f cn) = c_open cn) by (intros cn; unfold f; destruct sh; reflexivity).
  assert (H3 : G fin (Some r) (c :: ckH ck' ++ F) m0 s3).
  { apply G_emit_hand; [|exact H]. intros p0 f0 pl. rewrite Hq. discriminate. }
  assert (H4 : G fin (Some r) (c :: ckH ck' ++ F) m0 s4).
  { apply G_upd_conn; [exact Hfs|exact Hfo| |exact H3]. destruct sh eqn:Es.
    - left. intros cn. unfold f. auto.
    - right. apply (not_in_RL_flight _ (ckH ck' ++ F)); [apply (G_SI _ _ _ _ _ H3)|]. symmetry. exact Hsh. }
  assert (X24 : xt0 s2 s4) by (apply (xt0_trans _ s3); [apply xt0_of_xt, xt_emit|apply xt0_upd_conn; exact Hfs]).
  assert (Ck4 : CkOK (curT m0 s4) s4 r ck') by (eapply CkOK_xt0; eauto).
  assert (L4 : LK s4 ck').
  { intros c' Hc'. destruct (HL c' Hc') as [Hr Hb]. split; [|unfold s4, upd_conn; cbn [conns set_conns emit set_out]; rewrite upd_len; exact Hb].
    intros Hs4. assert (Hs2 : share_of s2 c' = false) by (destruct X24 as [_ B]; apply B, Hs4).
    assert (Hne : c <> c').
    { intros <-. pose proof (si_lin _ _ _ (G_SI _ _ _ _ _ H) c Hs2) as L. unfold ckH in L. rewrite Hc' in L. cbn [oconn] in L.
      rewrite !cnt_cons, !cnt_app, cnt_cons in L. destruct (Nat.eq_dec c c); [lia|congruence]. }
    unfold ready_of, s4. rewrite get_conn_upd. destruct (Nat.eqb_spec c c'); [contradiction|]. apply Hr, Hs2. }
  assert (Hrl : r < List.length (reqs s4)) by (eapply nth_lt; exact Hq).
  assert (P4 : PooledOK (curT m0 s4) s4 (c, t)) by (eapply PooledOK_xt0; eauto).
  assert (H5 : G fin None (ckH ck' ++ F) m0 s5).
  { eapply (G_x_off fin (c :: ckH ck' ++ F)); [exact Hrl|discriminate| | | |exact H4].
    - intros c0 t0 f0 p0 E. inversion E; subst. split; [|exact P4].
      change (curT m0 s4) with (curT m0 s3). unfold s3. rewrite curT_emit. cbn [tv_ev t_rv]. rewrite nth_upd_eq.
      assert (Hlt : r < List.length (t_rv (curT m0 s2))) by (pose proof (q_lr _ _ (G_R1 _ _ _ _ _ H)); apply nth_lt in Hq; lia).
      destruct (nth_ex _ _ Hlt) as [w ->]. cbn. eauto.
    - intros c0 _. cbn [reqH fst]. rewrite !cnt_cons, cnt_nil. lia.
    - intros c0 [Hc0|Hc0]; eapply F_bnd; [exact H4| |exact H4|]; [cbn [reqH fst] in Hc0; destruct Hc0 as [<-|[]]; left; reflexivity|right; exact Hc0]. }
  split; [exact H5|]. split.
  - eapply CkOK_xt0; [|exact Ck4]. apply xt0_of_xt, xt_set_req.
  - eapply LK_xt; [apply xt_set_req|exact L4].
Qed.

Lemma Mono_emit e s : Mono s (emit e s). Proof. apply Mono_toks. reflexivity. Qed.

Lemma G_do_poll fin m0 r s : G fin None [] m0 s -> Le fin (do_poll cfg r s) -> G fin None [] m0 (do_poll cfg r s).
Proof.
  intros H HLe. unfold do_poll in *. destruct (get_req s r) as [[|ck|p fn pl| |]|] eqn:Hq; try exact H.
  - (* no URI: error *)
    assert (H1 : G fin None [] m0 (emit (ERes r (RErr EUri)) (unwake_req r s))).
    { apply G_emit_res; [intros p f pl; change (get_req (unwake_req r s) r) with (get_req s r); rewrite Hq; discriminate|apply G_unwake, H]. }
    apply (G_set_req_gone fin [] m0 _ r RError RDone); [exact Hq|reflexivity|discriminate|exact H1].
  - (* a checkout is polled *)
    set (s1 := unwake_req r s) in *.
    assert (Hq1 : get_req s1 r = Some (RCheckout ck)) by exact Hq.
    assert (H1 : G fin (Some r) (ckH ck ++ []) m0 s1) by (apply (G_x_on fin [] m0 s1 r (RCheckout ck) Hq1), G_unwake, H).
    assert (Ck : CkOK (curT m0 s1) s1 r ck) by (apply (q_ck _ _ (G_R1 _ _ _ _ _ H1)); exact Hq1).
    assert (L1 : LK s1 ck) by (eapply LK_state; [apply G_unwake, H|exact Hq1]).
    pose proof (kp_checkout_poll r ck ck s1 Hq1) as K2.
    assert (HLe2 : Le fin (snd (checkout_poll cfg r ck s1))).
    { destruct (checkout_poll cfg r ck s1) as [[res ck'] s2]. cbn [snd].
      destruct res as [|[p|e]].
      - eapply Le_Mono; [|exact HLe]. apply Mono_toks. reflexivity.
      - eapply Le_Mono; [|exact HLe].
        destruct (match get_conn s2 (fst p) with Some cn => _ | None => _ end) as [[[sh op_] rd] hs].
        eapply Mono_trans; [|apply Mono_emit]. eapply Mono_trans; [|apply Mono_checkout_drop]. apply Mono_toks. reflexivity.
      - eapply Le_Mono; [|exact HLe]. eapply Mono_trans; [|apply Mono_emit]. eapply Mono_trans; [|apply Mono_checkout_drop]. apply Mono_toks. reflexivity. }
    pose proof (G_checkout_poll fin [] m0 r ck s1 Ck L1 H1 HLe2) as HP.
    destruct (checkout_poll cfg r ck s1) as [[res ck'] s2]. unfold CPost in HP. cbn [fst snd] in *.
    destruct HP as (H2 & Ck2 & L2 & P2 & X2). destruct (kp_ck _ _ _ _ K2 Hq1) as [ck0 Hq2].
    assert (Hrl : r < List.length (reqs s2)) by (eapply nth_lt; exact Hq2).
    destruct res as [|[p|e]].
    + (* pending *)
      apply G_emit_quiet; [exact I|]. eapply (G_x_off fin ([] ++ ckH ck' ++ [])); [exact Hrl| |discriminate| | |exact H2].
      * intros ck1 E. inversion E; subst. auto.
      * intros c _. cbn [reqH app]. rewrite app_nil_r, cnt_nil. lia.
      * intros c [Hc|[]]. eapply F_bnd; [exact H2|]. cbn [reqH] in Hc. cbn [app]. rewrite app_nil_r. exact Hc.
    + (* hand-off *)
      assert (Esh : (match get_conn s2 (fst p) with Some cn => (c_share cn, c_open cn, c_ready cn, c_holders cn) | None => (false, false, false, 0) end)
                    = (share_of s2 (fst p), match get_conn s2 (fst p) with Some cn => c_open cn | None => false end,
                       match get_conn s2 (fst p) with Some cn => c_ready cn | None => false end,
                       match get_conn s2 (fst p) with Some cn => c_holders cn | None => 0 end))
        by (unfold share_of; destruct (get_conn s2 (fst p)); reflexivity).
      rewrite Esh in *. cbv zeta in *. cbn [app] in H2.
      destruct (G_hand_off fin [] m0 r p ck' s2 (snd p =? 0) (match get_conn s2 (fst p) with Some cn => c_open cn | None => false end)
                  (match get_conn s2 (fst p) with Some cn => c_ready cn | None => false end)
                  (match get_conn s2 (fst p) with Some cn => c_holders cn | None => 0 end) (share_of s2 (fst p)) ck0 Hq2 eq_refl H2 Ck2 L2 (P2 p eq_refl))
        as (H5 & Ck5 & L5).
      apply G_emit_quiet; [exact I|]. apply G_checkout_drop; [exact Ck5|exact L5|exact H5|].
      eapply Le_Mono; [apply Mono_emit|exact HLe].
    + (* error *)
      cbn [app] in H2.
      assert (H3 : G fin None (ckH ck' ++ []) m0 (set_req r RDone s2)).
      { eapply (G_x_off fin (ckH ck' ++ [])); [exact Hrl|discriminate|discriminate| | |exact H2].
        - intros c _. cbn [reqH]. rewrite cnt_nil. lia.
        - intros c [[]|Hc]. eapply F_bnd; [exact H2|exact Hc]. }
      pose proof (xt_set_req r RDone s2) as X3.
      assert (H4 : G fin None [] m0 (checkout_drop cfg r ck' (set_req r RDone s2))).
      { apply G_checkout_drop; [eapply CkOK_xt; eauto|eapply LK_xt; eauto|exact H3|]. eapply Le_Mono; [apply Mono_emit|exact HLe]. }
      apply G_emit_res; [|exact H4]. intros p f pl.
      pose proof (kp_checkout_drop r ck' (set_req r RDone s2) r) as K. rewrite get_req_set, Nat.eqb_refl, Hq2 in K. cbn in K. rewrite K. discriminate.
  - (* a holder is polled *)
    set (s1 := unwake_req r s) in *. assert (H1 : G fin None [] m0 s1) by (apply G_unwake, H).
    assert (Hq1 : get_req s1 r = Some (RHolding p fn pl)) by exact Hq.
    pose proof (q_hd _ _ (G_R1 _ _ _ _ _ H1) r p fn pl Hq1) as Pp.
    destruct fn.
    + assert (H2 : G fin None (reqH (RHolding p true pl) ++ []) m0 (set_req r RDone s1))
        by (apply (G_set_req_gone fin [] m0 s1 r _ RDone Hq1); [reflexivity|discriminate|exact H1]).
      apply G_emit_res.
      * intros p0 f0 pl0. unfold get_req. rewrite reqs_hold_release. fold (get_req (set_req r RDone s1) r).
        rewrite get_req_set, Nat.eqb_refl, Hq1. discriminate.
      * apply G_hold_release; [eapply PooledOK_st; [|exact Pp]; reflexivity|exact H2].
    + apply G_emit_quiet; [exact I|].
      eapply (G_state fin None [] None [] m0 s1); [reflexivity| | |exact H1].
      * apply R1_set_req; [discriminate| |apply (G_R1 _ _ _ _ _ H1)]. intros c t f p0 E. inversion E; subst. split; [|exact Pp].
        eapply (q_hold _ _ (G_R1 _ _ _ _ _ H1)). exact Hq1.
      * eapply SI_set_req; [discriminate|exact Hq1| | | |apply (G_SI _ _ _ _ _ H1)].
        -- intros c _. cbn [reqH]. lia.
        -- intros c [Hc|[]]. apply (si_bnd _ _ _ (G_SI _ _ _ _ _ H1)). left. eapply HL_req_in; [discriminate|exact Hq1|exact Hc].
        -- intros c [].
Qed.

(* ---------------------------------------------------------------- tracker moves made by track_op *)
(* same keys: the token of every existing connection / request is unchanged *)
Definition keq (T T' : tv) : Prop :=
  (forall r, rtok T' r = rtok T r) /\ (forall c, c < List.length (t_cv T) -> ctok T' c = ctok T c).
Lemma TokOK_keq T T' c t : keq T T' -> TokOK T c t -> TokOK T' c t.
Proof.
  intros [_ K] H Hp. destruct (H Hp) as [H1 H2]. split; [exact H1|]. rewrite K; [exact H2|]. apply ctok_nz_lt. congruence.
Qed.
Lemma PooledOK_keq T T' s p : keq T T' -> PooledOK T s p -> PooledOK T' s p.
Proof. intros K H Hs. eapply TokOK_keq; eauto. Qed.
Lemma CkOK_keq T T' s r ck : keq T T' -> CkOK T s r ck -> CkOK T' s r ck.
Proof.
  intros K (A & B & C). split; [|split].
  - intros Hp. rewrite (proj1 K). auto.
  - intros c Hc. eapply TokOK_keq; eauto.
  - intros p Hp. eapply PooledOK_keq; eauto.
Qed.

Definition stat_tv (T : tv) (r : nat) (st : rstat) : tv := mkTv (t_cv T) (upd_nth r (set_stat st) (t_rv T)) (t_ks T) (t_tm T).
Lemma rkey_stat T r st r' : rkey (stat_tv T r st) r' = rkey T r'.
Proof.
  unfold rkey, stat_tv. cbn [t_rv]. rewrite nth_error_upd_nth. destruct (Nat.eqb r r'); [|reflexivity].
  destruct (nth_error (t_rv T) r'); reflexivity.
Qed.
Lemma keq_stat T r st : keq T (stat_tv T r st).
Proof.
  split.
  - intros r'. unfold rtok. rewrite rkey_stat. reflexivity.
  - intros c _. unfold ctok, ckey. cbn [stat_tv t_cv]. destruct (nth_error (t_cv T) c); [|reflexivity]. rewrite rkey_stat. reflexivity.
Qed.

Lemma R1_stat_tv T s r st :
  (forall p f pl, get_req s r <> Some (RHolding p f pl)) -> R1 T s -> R1 (stat_tv T r st) s.
Proof.
  intros Hnh H. pose proof (keq_stat T r st) as K. destruct H.
  constructor; unfold stat_tv; cbn [t_cv t_rv t_ks t_tm]; rewrite ?upd_len; try assumption.
  - intros r' c t f p Hq. destruct (Nat.eq_dec r r') as [<-|Hne]; [exfalso; eapply Hnh; eauto|].
    rewrite nth_upd_ne by exact Hne. eauto.
  - intros t c a Hin. destruct (q_idle0 t c a Hin) as (A & v & Hv & Hb). split; [eapply TokOK_keq; eauto|eauto].
  - intros r' ck Hq. eapply CkOK_keq; eauto.
  - intros r' p f pl Hq. eapply PooledOK_keq; eauto.
  - intros tid c t Hq. eapply PooledOK_keq; eauto.
  - intros tid rid t own Hq Hp. fold (stat_tv T r st). rewrite (proj1 K). eauto.
  - intros Hp r' w' d Hw Ha Hd. apply stat_inv in Hw as (w & Hw & _ & Ea & _). rewrite Ea in Ha. eapply q_avail0; eauto.
  - intros Hp r' w' k Hw Hk. apply stat_inv in Hw as (w & Hw & Ek & _). rewrite Ek in Hk. eapply q_kf0; eauto.
Qed.

Lemma G_of fin x F m0 s : out s = [] -> R1 (tv_of m0) s -> SI x F s -> G fin x F m0 s.
Proof. intros Ho HR HS. unfold G, curT, cur. rewrite Ho. cbn. auto. Qed.

Lemma G_do_cancel fin m' r s T :
  out s = [] -> R1 T s -> SI None [] s -> (tv_of m' = T \/ tv_of m' = stat_tv T r SCancelled) ->
  Le fin (do_cancel cfg r s) -> G fin None [] m' (do_cancel cfg r s).
Proof.
  intros Ho HR HS HT HLe.
  assert (Hst : forall s', (forall p f pl, get_req s' r <> Some (RHolding p f pl)) -> R1 T s' -> R1 (tv_of m') s').
  { intros s' Hnh H'. destruct HT as [->| ->]; [exact H'|apply R1_stat_tv; assumption]. }
  assert (Kq : keq T (tv_of m')) by (destruct HT as [->| ->]; [split; auto|apply keq_stat]).
  unfold do_cancel in *. destruct (get_req s r) as [q|] eqn:Hq.
  2:{ apply G_of; [exact Ho| |exact HS]. apply Hst; [|exact HR]. intros p f pl. rewrite Hq. discriminate. }
  assert (Hset : G fin None (reqH q ++ []) m' (set_req r RCancelled s)).
  { apply G_of; [exact Ho| |].
    - apply Hst; [intros p f pl; rewrite get_req_set, Nat.eqb_refl, Hq; discriminate|]. apply R1_set_req; [discriminate|discriminate|exact HR].
    - eapply SI_set_req; [discriminate|exact Hq| | | |exact HS].
      + intros c _. cbn [reqH]. rewrite cnt_app, !cnt_nil. lia.
      + intros c [[]|Hc]. apply (si_bnd _ _ _ HS). apply in_app_or in Hc as [Hc|[]]. left. eapply HL_req_in; [discriminate|exact Hq|exact Hc].
      + intros c []. }
  assert (Ecur : curT m' (set_req r RCancelled s) = tv_of m') by (unfold curT, cur; cbn [out set_req set_reqs]; rewrite Ho; reflexivity).
  destruct q as [|ck|p fn pl| |].
  - apply G_unwake. exact Hset.
  - apply G_unwake. apply G_checkout_drop; [| |exact Hset|eapply Le_Mono; [|exact HLe]; apply Mono_toks; reflexivity].
    + rewrite Ecur. eapply CkOK_keq; [exact Kq|]. apply (q_ck _ _ HR). exact Hq.
    + eapply LK_xt; [apply xt_set_req|]. intros c Hc. split.
      * apply (si_rdy _ _ _ HS). eapply RL_req_in; [discriminate|exact Hq|]. cbn [reqK]. rewrite Hc. left. reflexivity.
      * apply (si_bnd _ _ _ HS). left. eapply HL_req_in; [discriminate|exact Hq|]. cbn [reqH]. unfold ckH. rewrite Hc. apply in_or_app. right. left. reflexivity.
  - apply G_unwake. apply G_hold_release; [|exact Hset]. rewrite Ecur. eapply PooledOK_keq; [exact Kq|].
    eapply PooledOK_st; [|eapply (q_hd _ _ HR); exact Hq]. reflexivity.
  - apply G_unwake. apply G_of; [exact Ho| |exact HS]. apply Hst; [|exact HR]. intros p f pl. rewrite Hq. discriminate.
  - apply G_unwake. apply G_of; [exact Ho| |exact HS]. apply Hst; [|exact HR]. intros p f pl. rewrite Hq. discriminate.
Qed.

Lemma G_set_holding fin m0 s r p f pl f' pl' :
  get_req s r = Some (RHolding p f pl) -> G fin None [] m0 s -> G fin None [] m0 (set_req r (RHolding p f' pl') s).
Proof.
  intros Hq H. pose proof (q_hd _ _ (G_R1 _ _ _ _ _ H) r p f pl Hq) as Pp.
  eapply (G_state fin None [] None [] m0 s); [reflexivity| | |exact H].
  - apply R1_set_req; [discriminate| |apply (G_R1 _ _ _ _ _ H)]. intros c t f0 p0 E. inversion E; subst. split; [|exact Pp].
    eapply (q_hold _ _ (G_R1 _ _ _ _ _ H)). exact Hq.
  - eapply SI_set_req; [discriminate|exact Hq| | | |apply (G_SI _ _ _ _ _ H)].
    + intros c _. cbn [reqH]. lia.
    + intros c [Hc|[]]. apply (si_bnd _ _ _ (G_SI _ _ _ _ _ H)). left. eapply HL_req_in; [discriminate|exact Hq|exact Hc].
    + intros c [].
Qed.

Lemma G_do_finish fin m0 r s : G fin None [] m0 s -> G fin None [] m0 (do_finish r s).
Proof.
  intros H. unfold do_finish. destruct (get_req s r) as [[|ck|p fn pl| |]|] eqn:Hq; try exact H.
  pose proof (G_set_holding fin m0 s r p fn pl true false Hq H) as H1.
  destruct pl; [apply G_wake|]; exact H1.
Qed.

Lemma G_finish_task fin F m0 s tid tk :
  nth_error (tasks s) tid = Some tk -> G fin None F m0 s -> G fin None (taskH tk ++ F) m0 (finish_task tid s).
Proof.
  intros Ht H. eapply (G_state fin None F None (taskH tk ++ F) m0 s); [reflexivity| | |exact H].
  - apply R1_finish_task, (G_R1 _ _ _ _ _ H).
  - apply SI_finish_task; [exact Ht|apply (G_SI _ _ _ _ _ H)].
Qed.

Lemma Mono_finish_task tid s : Mono s (finish_task tid s). Proof. apply Mono_toks. reflexivity. Qed.

(* the tail of a hand-back task: the handle goes back to the pool or is dropped *)
Lemma G_handback fin m0 tid c t cn s :
  nth_error (tasks s) tid = Some (Some (TWhenReady c t)) -> get_conn s c = Some cn ->
  (is_open s c = false -> c_open cn = false) ->
  G fin None [] m0 s ->
  Le fin (let s' := finish_task tid s in
          if is_open s' c && negb (t =? 0) && g_pool cfg then pool_push (g_max_idle cfg) t c s' else drop_conn c s') ->
  G fin None [] m0 (let s' := finish_task tid s in
          if is_open s' c && negb (t =? 0) && g_pool cfg then pool_push (g_max_idle cfg) t c s' else drop_conn c s').
Proof.
  intros Ht Hc Hcl H HLe. cbv zeta in *. set (s' := finish_task tid s) in *.
  pose proof (si_tsk _ _ _ (G_SI _ _ _ _ _ H) tid c t Ht) as Hns.
  pose proof (q_tw _ _ (G_R1 _ _ _ _ _ H) tid c t Ht Hns) as Tk. cbn [fst snd] in Tk.
  assert (H1 : G fin None [c] m0 s') by (apply (G_finish_task fin [] m0 s tid (Some (TWhenReady c t)) Ht H)).
  assert (Eo : is_open s' c = is_open s c) by reflexivity. assert (Ec : get_conn s' c = Some cn) by exact Hc.
  assert (ET : curT m0 s' = curT m0 s) by reflexivity.
  destruct (is_open s' c) eqn:Eop; cbn [andb] in *.
  - destruct (negb (t =? 0) && g_pool cfg) eqn:Eb.
    + apply G_pool_push; [reflexivity|rewrite ET; exact Tk| |exact HLe|exact H1].
      intros _. unfold is_open in Eop. unfold ready_of. rewrite Ec in *. unfold share_of in Hns. rewrite Hc in Hns. change (get_conn s' c) with (get_conn s c) in Hns.
      rewrite Hns in Eop. apply andb_true_iff in Eop. apply Eop.
    + apply G_drop_conn; [|eapply G_F; [|exact H1]; intros c'; rewrite cnt_cons; lia].
      intros cn0 _. destruct (g_pool cfg) eqn:Ep; [|eapply DJ_nopool; [apply (G_R1 _ _ _ _ _ H1)|exact Ec|exact Ep]].
      exfalso. destruct (Tk Ep) as [Hnz _]. rewrite andb_true_r in Eb. apply negb_false_iff, Nat.eqb_eq in Eb. contradiction.
  - apply G_drop_conn; [|eapply G_F; [|exact H1]; intros c'; rewrite cnt_cons; lia].
    intros cn0 _. eapply DJ_closed; [apply (G_R1 _ _ _ _ _ H1)|exact Ec|]. apply Hcl. symmetry. exact Eo.
Qed.

Lemma Mono_pooled_drop p s : Mono s (pooled_drop p s).
Proof. apply Mono_toks, toks_pooled_drop. Qed.
Lemma Mono_cancel_if (b : bool) t rid s : Mono s (if b then pool_cancel t rid s else s).
Proof. destruct b; [apply Mono_Ieq, Ieq_pool_cancel|apply Mono_refl]. Qed.

Lemma Mono_run_task tid s : Mono s (run_task cfg tid s).
Proof.
  unfold run_task. destruct (nth tid (tasks s) None) as [[c t|rid t own]|]; [| |apply Mono_refl].
  - destruct (get_conn s c) as [cn|]; [|apply Mono_finish_task].
    assert (Fin : forall s0, Mono s s0 -> Mono s (let s' := finish_task tid s0 in
              if is_open s' c && negb (t =? 0) && g_pool cfg then pool_push (g_max_idle cfg) t c s' else drop_conn c s')).
    { intros s0 M0. cbv zeta. eapply Mono_trans; [exact M0|]. eapply Mono_trans; [apply (Mono_finish_task tid)|].
      destruct (_ && _); [apply Mono_pool_push|apply Mono_toks, toks_drop_conn]. }
    destruct (negb (c_open cn)); [apply Fin, Mono_emit|]. destruct (c_share cn || c_ready cn); [apply Fin, Mono_emit|apply Mono_toks; reflexivity].
  - pose proof (toks_connector_poll rid (ByTask tid) s) as Tk. destruct (connector_poll rid (ByTask tid) s) as [r s1]. cbn [snd] in Tk.
    assert (M1 : Mono s s1) by (apply Mono_toks, Tk).
    destruct r as [|[c|e]]; [exact M1| |].
    + pose proof (Mono_register t c s1) as M2. destruct (register cfg t c s1) as [p s2]. cbn [snd] in M2.
      set (s3 := if g_pool cfg && negb (t =? 0) && own then pool_cancel t rid s2 else s2).
      assert (M3 : Mono s2 s3) by apply Mono_cancel_if.
      eapply Mono_trans; [exact M1|]. eapply Mono_trans; [exact M2|]. eapply Mono_trans; [exact M3|].
      apply (Mono_trans _ (finish_task tid s3)); [apply Mono_finish_task|apply Mono_pooled_drop].
    + set (s3 := if g_pool cfg && negb (t =? 0) && own then pool_cancel t rid s1 else s1).
      assert (M3 : Mono s1 s3) by apply Mono_cancel_if.
      eapply Mono_trans; [exact M1|]. eapply Mono_trans; [exact M3|apply Mono_finish_task].
Qed.

Lemma Mono_bg_loop fuel : forall s, Mono s (bg_loop cfg fuel s).
Proof.
  induction fuel as [|f IH]; intros s; cbn [bg_loop]; [apply Mono_refl|].
  destruct (runq s) as [|tid rest]; [apply Mono_refl|].
  eapply Mono_trans; [|apply IH]. eapply Mono_trans; [|apply Mono_run_task]. apply Mono_toks. reflexivity.
Qed.

Lemma G_cancel_if fin x F m0 (b : bool) t rid s : G fin x F m0 s -> G fin x F m0 (if b then pool_cancel t rid s else s).
Proof. intros H. destruct b; [apply G_pool_cancel|]; exact H. Qed.
Lemma xt_cancel_if (b : bool) t rid s : xt s (if b then pool_cancel t rid s else s).
Proof. destruct b; [apply xt_pool_cancel|apply xt_refl]. Qed.

Lemma G_finish_task_any fin x F m0 s tid : G fin x F m0 s -> G fin x F m0 (finish_task tid s).
Proof.
  intros H. eapply (G_state fin x F x F m0 s); [reflexivity| | |exact H].
  - apply R1_finish_task, (G_R1 _ _ _ _ _ H).
  - apply SI_finish_task_any, (G_SI _ _ _ _ _ H).
Qed.
Lemma xt_finish_task tid s : xt s (finish_task tid s). Proof. apply xt_same; reflexivity. Qed.

Lemma G_run_task fin m0 tid s : G fin None [] m0 s -> Le fin (run_task cfg tid s) -> G fin None [] m0 (run_task cfg tid s).
Proof.
  intros H HLe. unfold run_task in *. destruct (nth tid (tasks s) None) as [[c t|rid t own]|] eqn:Et; [| |exact H].
  - apply nth_opt_error in Et.
    destruct (get_conn s c) as [cn|] eqn:Ec; [|apply G_finish_task_any, H].
    destruct (negb (c_open cn)) eqn:Eo.
    + apply (G_handback fin m0 tid c t cn (emit (ERdy c false) s)); [exact Et|exact Ec| |apply G_emit_quiet; [exact I|exact H]|exact HLe].
      intros _. apply negb_true_iff. exact Eo.
    + destruct (c_share cn || c_ready cn) eqn:Er.
      * apply (G_handback fin m0 tid c t cn (emit (ERdy c true) s)); [exact Et|exact Ec| | |exact HLe].
        -- change (is_open (emit (ERdy c true) s) c) with (is_open s c). unfold is_open. rewrite Ec.
           apply negb_false_iff in Eo. rewrite Eo. destruct (c_share cn); [discriminate|]. cbn in Er. rewrite Er. discriminate.
        -- apply G_emit; [reflexivity| |exact H]. apply R1_rdy; [|apply (G_R1 _ _ _ _ _ H)].
           intros t' a. eapply task_not_idle; [apply (G_SI _ _ _ _ _ H)|exact Et].
      * apply G_upd_conn; [reflexivity|reflexivity|left; auto|exact H].
  - apply nth_opt_error in Et.
    assert (Ht : g_pool cfg = true -> t <> 0 /\ rtok (curT m0 s) rid = t) by (intros Hp; eapply (q_td _ _ (G_R1 _ _ _ _ _ H)); eauto).
    destruct (G_connector_poll fin None [] m0 rid (ByTask tid) t s Ht H) as [H1 Hc1].
    destruct (connector_poll rid (ByTask tid) s) as [r s1]. cbn [fst snd] in *.
    set (b := g_pool cfg && negb (t =? 0) && own) in *.
    destruct r as [|[c|e]]; [exact H1| |].
    + destruct (Hc1 c eq_refl) as [Tk Rd].
      assert (HLe2 : Le fin (snd (register cfg t c s1))).
      { destruct (register cfg t c s1) as [p s2]. cbn [snd]. eapply Le_Mono; [|exact HLe].
        apply (Mono_trans _ (if b then pool_cancel t rid s2 else s2)); [apply Mono_cancel_if|].
        apply (Mono_trans _ (finish_task tid (if b then pool_cancel t rid s2 else s2))); [apply Mono_finish_task|apply Mono_pooled_drop]. }
      destruct (G_register fin None [] m0 t c s1 Tk HLe2 H1) as (H2 & E2 & N2).
      pose proof (xt_register t c s1) as X2.
      destruct (register cfg t c s1) as [p s2]. cbn [fst snd] in *.
      set (s3 := if b then pool_cancel t rid s2 else s2) in *.
      assert (X3 : xt s1 (finish_task tid s3)).
      { eapply xt_trans; [exact X2|]. apply (xt_trans _ s3); [apply xt_cancel_if|apply xt_finish_task]. }
      apply G_pooled_drop.
      * intros Hs. destruct X3 as [(_ & B & _) _]. assert (Hs1 : share_of s1 c = false) by (apply B; rewrite <- E2; exact Hs).
        destruct (N2 Hs1) as [Ep _]. subst p. cbn [fst snd]. eapply TokOK_xt; [|exact Tk].
        eapply xt_trans; [exact X2|]. apply (xt_trans _ s3); [apply xt_cancel_if|apply xt_finish_task].
      * rewrite E2. apply G_finish_task_any. apply G_cancel_if. exact H2.
    + apply G_finish_task_any, G_cancel_if, H1.
Qed.

Lemma G_bg_loop fin m0 fuel : forall s, G fin None [] m0 s -> Le fin (bg_loop cfg fuel s) -> G fin None [] m0 (bg_loop cfg fuel s).
Proof.
  induction fuel as [|f IH]; intros s H HLe; cbn [bg_loop] in *; [exact H|].
  destruct (runq s) as [|tid rest]; [exact H|].
  apply IH; [|exact HLe]. apply G_run_task.
  - eapply G_eq; [| | | | | | | |exact H]; reflexivity.
  - eapply Le_Mono; [apply Mono_bg_loop|exact HLe].
Qed.

(* ---------------------------------------------------------------- Issue *)
(* the snapshot shows exactly the idle lists *)
Lemma idle_of_snaps s : forall l base t,
  idle_of (snaps_from s base l) t =
  if Nat.leb base t && Nat.ltb t (base + List.length l) then map fst (p_idle (nth (t - base) l empty_tok)) else [].
Proof.
  induction l as [|p l IH]; intros base t; cbn [snaps_from List.length].
  - replace (Nat.ltb t (base + 0)) with (negb (Nat.leb base t)) by (destruct (Nat.leb_spec base t), (Nat.ltb_spec t (base + 0)); cbn; auto; lia).
    destruct (Nat.leb base t); reflexivity.
  - set (sn := mkSnap base (map fst (p_idle p)) _ _ _). set (tail := snaps_from s (S base) l).
    assert (Htail : idle_of tail t = if Nat.leb (S base) t && Nat.ltb t (S base + List.length l) then map fst (p_idle (nth (t - S base) l empty_tok)) else [])
      by apply IH.
    assert (Hcons : idle_of (sn :: tail) t = if Nat.eqb base t then map fst (p_idle p) else idle_of tail t).
    { unfold idle_of, snap_of. cbn [find sn_token sn]. destruct (Nat.eqb base t); reflexivity. }
    assert (Goal' : (if Nat.eqb base t then map fst (p_idle p) else idle_of tail t) =
                    if Nat.leb base t && Nat.ltb t (base + S (List.length l)) then map fst (p_idle (nth (t - base) (p :: l) empty_tok)) else []).
    { rewrite Htail. destruct (Nat.eqb_spec base t) as [<-|Hne].
      - rewrite Nat.leb_refl, Nat.sub_diag. cbn [andb nth]. destruct (Nat.ltb_spec base (base + S (List.length l))); [reflexivity|lia].
      - destruct (Nat.leb_spec base t), (Nat.leb_spec (S base) t); try lia; cbn [andb]; [|reflexivity].
        replace (t - base) with (S (t - S base)) by lia. cbn [nth].
        destruct (Nat.ltb_spec t (S base + List.length l)), (Nat.ltb_spec t (base + S (List.length l))); try lia; reflexivity. }
    destruct (p_idle p) as [|e idl] eqn:Ei; [|rewrite Hcons; exact Goal'].
    destruct (p_waiting p); [|rewrite Hcons; exact Goal']. destruct (match p_marker p with Some _ => true | None => false end); [rewrite Hcons; exact Goal'|].
    rewrite <- Goal'. destruct (Nat.eqb_spec base t) as [<-|Hne]; [|reflexivity].
    rewrite Htail. destruct (Nat.leb_spec (S base) base); [lia|]. reflexivity.
Qed.

Lemma idle_of_snapshot s t : idle_of (snapshot s) t = map fst (p_idle (get_tok s t)).
Proof.
  unfold snapshot. rewrite idle_of_snaps. destruct t as [|i]; [reflexivity|]. cbn [get_tok].
  destruct (Nat.ltb_spec (S i) (1 + List.length (toks s))); cbn [Nat.leb andb]; [replace (S i - 1) with i by lia; reflexivity|].
  rewrite nth_overflow by lia. reflexivity.
Qed.

Lemma fk_app_some k l : forall ks j t, find_key k ks j = Some t -> find_key k (ks ++ l) j = Some t.
Proof.
  induction ks as [|k0 ks IH]; intros j t H; cbn [find_key app] in *; [discriminate|].
  destruct (key_eqb k k0); [exact H|]. apply IH. exact H.
Qed.
Lemma fk_app_none k l : forall ks j, find_key k ks j = None -> find_key k (ks ++ l) j = find_key k l (j + List.length ks).
Proof.
  induction ks as [|k0 ks IH]; intros j H; cbn [find_key app List.length] in *; [rewrite Nat.add_0_r; reflexivity|].
  destruct (key_eqb k k0); [discriminate|]. rewrite IH by exact H. f_equal. lia.
Qed.
Lemma fk_pos k : forall ks j t, find_key k ks j = Some t -> j <= t.
Proof.
  induction ks as [|k0 ks IH]; intros j t H; cbn [find_key] in H; [discriminate|].
  destruct (key_eqb k k0); [inversion H; lia|]. apply IH in H. lia.
Qed.

(* the keys after an Issue, as the tracker computes them *)
Definition keys_after (ks : list key) (k : key) : list key :=
  match find_key k ks 1 with Some _ => ks | None => ks ++ [k] end.

Lemma key_insert_spec k s :
  keys (snd (key_insert k s)) = keys_after (keys s) k /\
  fst (key_insert k s) = tok_of (keys_after (keys s) k) k /\ fst (key_insert k s) <> 0 /\
  find_key k (keys_after (keys s) k) 1 <> None.
Proof.
  unfold key_insert, keys_after, tok_of. destruct (find_key k (keys s) 1) as [t|] eqn:Ef; cbn [fst snd].
  - rewrite Ef. split; [reflexivity|]. split; [reflexivity|]. apply fk_pos in Ef. split; [lia|discriminate].
  - cbn [keys set_toks set_keys]. rewrite (fk_app_none k [k] _ _ Ef). cbn [find_key]. rewrite key_eqb_refl.
    split; [reflexivity|]. split; [f_equal; lia|]. split; [lia|discriminate].
Qed.

Lemma tok_of_after ks k k0 : find_key k0 ks 1 <> None -> tok_of (keys_after ks k) k0 = tok_of ks k0.
Proof.
  intros H. unfold keys_after, tok_of. destruct (find_key k ks 1); [reflexivity|].
  destruct (find_key k0 ks 1) as [t|] eqn:E; [|contradiction]. rewrite (fk_app_some k0 [k] _ _ _ E). reflexivity.
Qed.

Definition issue_tv (T : tv) (w : rvw) (ks' : list key) : tv := mkTv (t_cv T) (t_rv T ++ [w]) ks' (t_tm T).

Lemma tok_of_nz ks k : tok_of ks k <> 0 -> find_key k ks 1 <> None.
Proof. unfold tok_of. destruct (find_key k ks 1); [discriminate|congruence]. Qed.

Lemma rkey_issue T w ks' r : r < List.length (t_rv T) -> rkey (issue_tv T w ks') r = rkey T r.
Proof. intros H. unfold rkey, issue_tv. cbn [t_rv]. rewrite nth_error_app1 by exact H. reflexivity. Qed.

Section IssueTr.
Variables (T : tv) (w : rvw) (ks' : list key).
Hypothesis Hob : forall c v, nth_error (t_cv T) c = Some v -> v_origin v < List.length (t_rv T).
Hypothesis Htok : forall k0, find_key k0 (t_ks T) 1 <> None -> tok_of ks' k0 = tok_of (t_ks T) k0.

Lemma ktok_issue k : ktok T k <> 0 -> ktok (issue_tv T w ks') k = ktok T k.
Proof. destruct k as [k0|]; cbn [ktok issue_tv t_ks]; [|congruence]. intros H. apply Htok, tok_of_nz, H. Qed.

Lemma ctok_issue c : ctok T c <> 0 -> ctok (issue_tv T w ks') c = ctok T c.
Proof.
  intros H. unfold ctok in *. assert (E : ckey (issue_tv T w ks') c = ckey T c).
  { unfold ckey. cbn [issue_tv t_cv]. destruct (nth_error (t_cv T) c) as [v|] eqn:Ev; [|reflexivity]. apply rkey_issue. eapply Hob; eauto. }
  rewrite E. apply ktok_issue. exact H.
Qed.

Lemma rtok_issue r : rtok T r <> 0 -> rtok (issue_tv T w ks') r = rtok T r.
Proof.
  intros H. unfold rtok in *. assert (E : rkey (issue_tv T w ks') r = rkey T r).
  { destruct (Nat.lt_ge_cases r (List.length (t_rv T))) as [L|L]; [apply rkey_issue; exact L|].
    exfalso. apply H. unfold rkey. apply nth_error_None in L. rewrite L. reflexivity. }
  rewrite E. apply ktok_issue. exact H.
Qed.

Lemma TokOK_issue c t : TokOK T c t -> TokOK (issue_tv T w ks') c t.
Proof. intros H Hp. destruct (H Hp) as [H1 H2]. split; [exact H1|]. rewrite ctok_issue; [exact H2|congruence]. Qed.
Lemma PooledOK_issue s p : PooledOK T s p -> PooledOK (issue_tv T w ks') s p.
Proof. intros H Hs. apply TokOK_issue, H, Hs. Qed.
Lemma CkOK_issue s r ck : CkOK T s r ck -> CkOK (issue_tv T w ks') s r ck.
Proof.
  intros (A & B & C). split; [|split].
  - intros Hp. destruct (A Hp) as [A1 A2]. split; [exact A1|]. rewrite rtok_issue; [exact A2|congruence].
  - intros c Hc. apply TokOK_issue; auto.
  - intros p Hq. apply PooledOK_issue; auto.
Qed.
End IssueTr.

Lemma R1_issue_start T s s1 w ks' :
  R1 T s -> List.length (t_rv T) = List.length (reqs s) ->
  conns s1 = conns s -> dials s1 = dials s -> reqs s1 = reqs s -> now s1 = now s -> tasks s1 = tasks s ->
  (forall t, get_tok s1 t = get_tok s t) ->
  (forall k0, find_key k0 (t_ks T) 1 <> None -> tok_of ks' k0 = tok_of (t_ks T) k0) ->
  (g_pool cfg = true -> forall k0, find_key k0 (t_ks T) 1 <> None -> find_key k0 ks' 1 <> None) ->
  (g_pool cfg = true -> forall k, v_key w = Some k -> find_key k ks' 1 <> None) ->
  (g_pool cfg = true -> ks' = keys s1) ->
  R1 (issue_tv T w ks') s1.
Proof.
  intros H Hlen Ec Ed Er En Ek Et Htok Hkf Hkw Hks. destruct H.
  assert (Sh : forall c, share_of s1 c = share_of s c) by (intros c; apply share_of_conns, Ec).
  assert (Nr : forall r w', nth_error (t_rv T ++ [w]) r = Some w' -> nth_error (t_rv T) r = Some w' \/ (r = List.length (t_rv T) /\ w' = w)).
  { intros r w' Hw. rewrite nth_snoc in Hw. destruct (Nat.ltb r (List.length (t_rv T))); [left; exact Hw|].
    destruct (Nat.eqb_spec r (List.length (t_rv T))); [|discriminate]. inversion Hw. right. auto. }
  constructor; cbn [issue_tv t_cv t_rv t_ks t_tm]; unfold get_conn, get_req, get_dial in *; rewrite ?Ec, ?Ed, ?Er, ?En, ?Ek; auto.
  - rewrite app_length. cbn [List.length]. lia.
  - intros c v Hv. rewrite app_length. pose proof (q_ob0 c v Hv). lia.
  - intros r c t f p Hq. destruct (q_hold0 r c t f p Hq) as (w0 & Hw0 & Hs). exists w0. split; [|exact Hs].
    rewrite nth_error_app1; [exact Hw0|]. eapply nth_lt; eauto.
  - intros t c a Hin. rewrite Et in Hin. destruct (q_idle0 t c a Hin) as (A & B). split; [apply TokOK_issue; assumption|exact B].
  - intros r ck Hq. eapply CkOK_sh; [exact Sh|]. apply CkOK_issue; auto.
  - intros r p f pl Hq. eapply PooledOK_sh; [exact Sh|]. apply PooledOK_issue; eauto.
  - intros tid c t Hq. eapply PooledOK_sh; [exact Sh|]. apply PooledOK_issue; eauto.
  - intros tid rid t own Hq Hp. destruct (q_td0 tid rid t own Hq Hp) as [A B]. split; [exact A|]. rewrite rtok_issue; auto. congruence.
  - intros Hp r w' d Hw Ha Hd. destruct (Nr r w' Hw) as [Hw'|[-> ->]]; [eapply q_avail0; eauto|].
    exfalso. apply nth_lt in Hd. rewrite q_ld0 in Hd. lia.
  - intros Hp r w' k Hw Hk. destruct (Nr r w' Hw) as [Hw'|[-> ->]]; [apply Hkf; [exact Hp|]; eapply q_kf0; eauto|apply Hkw; assumption].
Qed.

Definition usablev (T : tv) (c : nat) : bool :=
  match nth_error (t_cv T) c with
  | Some v => match v_closed v with None => unexpv T v | Some _ => false end
  | None => false
  end.
Lemma usable_tv m c : usable cfg m c = usablev (tv_of m) c.
Proof. unfold usable, usablev, tv_of. cbn [t_cv]. rewrite nth_map. destruct (nth_error (m_conns m) c) as [x|]; reflexivity. Qed.

Lemma pop_none_unusable fin x F m0 t s :
  G fin x F m0 s -> IS s -> fst (pool_pop (g_timeout cfg) t s) = None ->
  forall c a, In (c, a) (p_idle (get_tok s t)) -> usablev (curT m0 s) c = false.
Proof.
  intros H HI Hn c a Hin. unfold pool_pop in Hn.
  destruct (pop_loop (expiry_threshold (g_timeout cfg) (now s)) (rev (p_idle (get_tok s t))) s) as [[r rest] s1] eqn:Ep. cbn [fst] in Hn. subst r.
  assert (HD : DescL (rev (p_idle (get_tok s t)))) by (apply DescL_rev, (get_tok_ok s t HI)).
  pose proof (G_R1 _ _ _ _ _ H) as HR. pose proof (G_SI _ _ _ _ _ H) as HS.
  destruct (q_idle _ _ HR t c a Hin) as (_ & v & Hv & Hbt). unfold usablev. rewrite Hv.
  destruct (v_closed v) eqn:Ecl; [reflexivity|].
  destruct (pop_loop_none _ _ _ _ _ Ep HD c a (proj1 (in_rev _ _) Hin)) as [Ho|(y & Hy & Ha)].
  - exfalso. assert (Hb : c < List.length (conns s)) by (apply (si_bnd _ _ _ HS); left; eapply HL_idle_in; eauto).
    destruct (nth_ex _ _ Hb) as [cn Hc]. fold (get_conn s c) in Hc.
    pose proof (q_co _ _ HR c v cn Hv Hc Ecl) as Hop. pose proof (si_rdy _ _ _ HS c (RL_idle_in _ _ _ _ _ Hin)) as Hr.
    unfold is_open in Ho. rewrite Hc, Hop in Ho. destruct (c_share cn) eqn:Es; [discriminate|].
    unfold rdy, share_of, ready_of in Hr. rewrite Hc in Hr. rewrite (Hr Es) in Ho. discriminate.
  - unfold expiry_threshold in Hy. destruct (g_timeout cfg) as [d|] eqn:Ed; [|discriminate].
    destruct (N.ltb_spec 0 d); cbn [andb] in Hy; [|discriminate]. destruct (N.leb_spec d (now s)); [|discriminate]. inversion Hy; subst y.
    apply N.ltb_lt in Ha. eapply (unexp_false _ v a (now s) d); eauto. apply (q_time _ _ HR).
Qed.

Lemma G_add_req fin F m0 s q d :
  List.length (reqs s) < List.length (t_rv (curT m0 s)) ->
  (forall ck, q = RCheckout ck -> CkOK (curT m0 s) s (List.length (reqs s)) ck /\ LK s ck) ->
  (forall p f pl, q <> RHolding p f pl) ->
  (g_pool cfg = true -> forall w, nth_error (t_rv (curT m0 s)) (List.length (reqs s)) = Some w -> v_avail w = true -> d_stage d <> DNew) ->
  G fin None (reqH q ++ F) m0 s -> G fin None F m0 (set_dials (dials s ++ [d]) (set_reqs (reqs s ++ [q]) s)).
Proof.
  intros Hlt Hck Hnh Hav H. eapply (G_state fin None (reqH q ++ F) None F m0 s); [reflexivity| | |exact H].
  - apply R1_add_req; [exact Hlt|intros ck E; apply (Hck ck E)|exact Hnh|exact Hav|apply (G_R1 _ _ _ _ _ H)].
  - apply SI_add_req; [|apply (G_SI _ _ _ _ _ H)]. intros c Hc. destruct q; cbn [reqK] in Hc; try contradiction.
    destruct (k_conn ck) as [c0|] eqn:Ec; [|destruct Hc]. destruct Hc as [<-|[]]. destruct (Hck ck eq_refl) as [_ L]. apply (L c0 Ec).
Qed.

Lemma get_tok_key_insert k s t : get_tok (snd (key_insert k s)) t = get_tok s t.
Proof.
  unfold key_insert. destruct (find_key k (keys s) 1); cbn [snd]; [reflexivity|].
  destruct t as [|i]; [reflexivity|]. cbn [get_tok toks set_toks set_keys].
  destruct (Nat.lt_ge_cases i (List.length (toks s))) as [L|L]; [apply app_nth1; exact L|].
  rewrite (nth_overflow (toks s)) by exact L. rewrite app_nth2 by exact L. destruct (i - List.length (toks s)) as [|[|j]]; reflexivity.
Qed.

Lemma CkOK_fresh T s r t w i own txd :
  (g_pool cfg = true -> t <> 0 /\ rtok T r = t) -> CkOK T s r (new_ck t w i None own txd).
Proof. intros H. split; [exact H|]. split; cbn [new_ck k_conn k_slot]; discriminate. Qed.
Lemma LK_fresh s t w i own txd : LK s (new_ck t w i None own txd).
Proof. intros c Hc. cbn in Hc. discriminate. Qed.



Lemma key_insert_frame k s :
  out (snd (key_insert k s)) = out s /\ conns (snd (key_insert k s)) = conns s /\ dials (snd (key_insert k s)) = dials s /\
  reqs (snd (key_insert k s)) = reqs s /\ now (snd (key_insert k s)) = now s /\ tasks (snd (key_insert k s)) = tasks s /\
  flat_map tokH (toks (snd (key_insert k s))) = flat_map tokH (toks s).
Proof.
  unfold key_insert. destruct (find_key k (keys s) 1); cbn [snd]; repeat split.
  cbn [toks set_toks set_keys]. rewrite flat_map_app. cbn. rewrite app_nil_r. reflexivity.
Qed.

Lemma reqs_drop_conn c s : reqs (drop_conn c s) = reqs s.
Proof. unfold drop_conn. destruct (get_conn s c); [|reflexivity]. destruct (Nat.eqb _ _); reflexivity. Qed.
Lemma reqs_pop_loop thr rl : forall s, reqs (snd (pop_loop thr rl s)) = reqs s.
Proof.
  induction rl as [|[c a] rl IH]; intros s; cbn [pop_loop]; [reflexivity|].
  destruct (match thr with Some y => (a <? y)%N | None => false end); cbn [snd].
  - assert (E : forall l s0, reqs (drop_all l s0) = reqs s0).
    { induction l as [|[c' a'] l IHl]; intros s0; cbn [drop_all]; [reflexivity|]. rewrite IHl. apply reqs_drop_conn. }
    rewrite E. apply reqs_drop_conn.
  - destruct (is_open s c); cbn [snd]; [reflexivity|]. rewrite IH. apply reqs_drop_conn.
Qed.
Lemma pool_pop_frame to t s :
  reqs (snd (pool_pop to t s)) = reqs s /\ forall m0, curT m0 (snd (pool_pop to t s)) = curT m0 s.
Proof.
  unfold pool_pop. pose proof (reqs_pop_loop (expiry_threshold to (now s)) (rev (p_idle (get_tok s t))) s) as E1.
  pose proof (fun m0 => out_pop_T m0 (expiry_threshold to (now s)) (rev (p_idle (get_tok s t))) s) as E2.
  destruct (pop_loop _ _ s) as [[r rest] s1]. cbn [snd] in *. split.
  - destruct t; [exact E1|]. exact E1.
  - intros m0. rewrite <- E2. apply curT_out, out_upd_tok.
Qed.

Lemma existsb_false {A} (f : A -> bool) l : (forall a, In a l -> f a = false) -> existsb f l = false.
Proof. induction l as [|a l IH]; intros H; cbn [existsb]; [reflexivity|]. rewrite (H a (or_introl eq_refl)), IH; [reflexivity|]. intros a' Ha'. apply H. right. exact Ha'. Qed.

Lemma G_do_issue fin m0 u p s T w ks' :
  out s = [] -> R1 T s -> SI None [] s -> IS s -> List.length (t_rv T) = List.length (reqs s) ->
  tv_of m0 = issue_tv T w ks' -> v_key w = nth u (g_uris cfg) None ->
  ks' = match nth u (g_uris cfg) None with Some k' => if g_pool cfg then keys_after (t_ks T) k' else t_ks T | None => t_ks T end ->
  (forall k', nth u (g_uris cfg) None = Some k' -> g_pool cfg = true ->
     v_avail w = existsb (usablev T) (map fst (p_idle (get_tok s (tok_of ks' k'))))) ->
  G fin None [] m0 (do_issue cfg u p s).
Proof.
  intros Ho HR HS HI Hlen Hm Hk Hks Hav. unfold do_issue.
  set (s0 := set_woken (woken s ++ [false]) s).
  assert (Start : forall s1, out s1 = [] -> conns s1 = conns s -> dials s1 = dials s -> reqs s1 = reqs s -> now s1 = now s ->
            tasks s1 = tasks s -> (forall t, get_tok s1 t = get_tok s t) -> flat_map tokH (toks s1) = flat_map tokH (toks s) ->
            (g_pool cfg = true -> ks' = keys s1) -> G fin None [] m0 s1).
  { intros s1 O1 E1 E2 E3 E4 E5 E6 E7 E8. apply G_of; [exact O1| |].
    - rewrite Hm. apply (R1_issue_start T s s1); auto.
      + intros k0 Hf. rewrite Hks. destruct (nth u (g_uris cfg) None); [destruct (g_pool cfg); [apply tok_of_after; exact Hf|reflexivity]|reflexivity].
      + intros _ k0 Hf. rewrite Hks. destruct (nth u (g_uris cfg) None) as [k'|]; [|exact Hf]. destruct (g_pool cfg); [|exact Hf].
        unfold keys_after. destruct (find_key k' (t_ks T) 1); [exact Hf|]. destruct (find_key k0 (t_ks T) 1) as [t0|] eqn:E; [|contradiction].
        rewrite (fk_app_some k0 [k'] _ _ _ E). discriminate.
      + intros Hp k Hkw. rewrite Hk in Hkw. rewrite Hks, Hkw, Hp. unfold keys_after. destruct (find_key k (t_ks T) 1) eqn:E; [rewrite E; discriminate|].
        rewrite (fk_app_none k [k] _ _ E). cbn [find_key]. rewrite key_eqb_refl. discriminate.
    - destruct HS as [A B C D]. constructor.
      + intros c Hc. rewrite (share_of_conns _ _ c E1) in Hc. specialize (A c Hc). unfold HL, rqx in *. rewrite E7, E3, E5. exact A.
      + intros c Hc. rewrite E1. apply B. unfold HL, rqx in *. rewrite E7, E3, E5 in Hc. exact Hc.
      + intros c Hc. eapply rdy_conns; [exact E1|]. apply C. unfold RL, rqx in *. rewrite E7, E3 in Hc. exact Hc.
      + intros tid c t Ht. rewrite (share_of_conns _ _ c E1). rewrite E5 in Ht. eapply D; eauto. }
  assert (Hcur : forall s1, out s1 = [] -> curT m0 s1 = issue_tv T w ks') by (intros s1 O1; unfold curT, cur; rewrite O1; exact Hm).
  assert (Hnew : forall s1, out s1 = [] -> reqs s1 = reqs s -> List.length (reqs s1) < List.length (t_rv (curT m0 s1)))
    by (intros s1 O1 E; rewrite (Hcur s1 O1), E; cbn [issue_tv t_rv]; rewrite app_length; cbn [List.length]; lia).
  destruct (nth u (g_uris cfg) None) as [k|] eqn:Eu.
  2:{ (* no URI *)
    assert (H0 : G fin None [] m0 s0).
    { apply Start; try reflexivity; [exact Ho|]. intros Hp. rewrite Hks. apply (q_keys _ _ HR Hp). }
    apply (G_add_req fin [] m0 s0 RError); [apply Hnew; [exact Ho|reflexivity]|discriminate|discriminate|intros _ w0 _ _; cbn; discriminate|exact H0]. }
  destruct (g_pool cfg) eqn:Ep; cbn [negb].
  2:{ (* no pool *)
    assert (H0 : G fin None [] m0 s0) by (apply Start; try reflexivity; [exact Ho|intros Hf; congruence]).
    apply (G_add_req fin [] m0 s0 (RCheckout (new_ck 0 WNoPool IConnecting None false true))); [apply Hnew; [exact Ho|reflexivity]| |discriminate|intros Hf; congruence|exact H0].
    intros ck E. inversion E; subst. split; [apply CkOK_fresh; intros Hf; congruence|apply LK_fresh]. }
  (* pooled *)
  assert (Eks : t_ks T = keys s) by (apply (q_keys _ _ HR Ep)).
  destruct (key_insert_spec k s0) as (Ek & Et & Etnz & Ef). destruct (key_insert_frame k s0) as (F1 & F2 & F3 & F4 & F5 & F6 & F7).
  pose proof (get_tok_key_insert k s0) as Gt.
  destruct (key_insert k s0) as [t s1]. cbn [fst snd] in *. change (keys s0) with (keys s) in *.
  assert (Eks' : ks' = keys_after (keys s) k) by (rewrite Hks, Eks; reflexivity).
  assert (H1 : G fin None [] m0 s1).
  { apply Start; auto; [rewrite F1; exact Ho|]. intros _. rewrite Eks', Ek. reflexivity. }
  assert (I1 : IS s1).
  { unfold IS in *. rewrite F5. change (now s0) with (now s). clear - HI F7 Gt.
    apply Forall_forall. intros q Hq. apply In_nth_error in Hq as [i Hi].
    rewrite <- (get_tok_nth s1 i q Hi), Gt. apply (get_tok_ok s (S i) HI). }
  assert (Ett : t = tok_of ks' k) by (rewrite Eks'; exact Et).
  destruct (G_pool_pop fin None [] m0 t s1 I1 H1) as [H2 Hf2].
  pose proof (pop_none_unusable fin None [] m0 t s1 H1 I1) as Hun.
  destruct (pool_pop_frame (g_timeout cfg) t s1) as [R2 C2].
  destruct (pool_pop (g_timeout cfg) t s1) as [found s2]. cbn [fst snd] in *.
  assert (Ec2 : curT m0 s2 = issue_tv T w ks') by (rewrite C2; apply Hcur; rewrite F1; exact Ho).
  assert (Hlt2 : List.length (reqs s2) < List.length (t_rv (curT m0 s2)))
    by (rewrite Ec2, R2, F4; cbn [issue_tv t_rv]; rewrite app_length; cbn [List.length]; change (reqs s0) with (reqs s); lia).
  assert (Hrt : g_pool cfg = true -> t <> 0 /\ rtok (curT m0 s2) (List.length (reqs s2)) = t).
  { intros _. split; [exact Etnz|]. rewrite Ec2, R2, F4. change (reqs s0) with (reqs s). rewrite <- Hlen.
    unfold rtok, rkey. cbn [issue_tv t_rv t_ks]. rewrite nth_error_app2, Nat.sub_diag by lia. cbn [nth_error]. rewrite Hk. cbn [ktok t_ks]. symmetry. exact Ett. }
  destruct found as [c|].
  - destruct (Hf2 c eq_refl) as [Hop [a Hin]]. cbn [oconn app] in H2.
    apply (G_add_req fin [] m0 s2 (RCheckout (new_ck t WIdle IConnected (Some c) false true))); [exact Hlt2| |discriminate|intros _ w0 _ _; cbn; discriminate|exact H2].
    intros ck E. inversion E; subst ck. split.
    + split; [exact Hrt|]. split; cbn [new_ck k_conn k_slot k_token]; [|discriminate].
      intros c' Ec'. inversion Ec'; subst c'. rewrite C2. apply (q_idle _ _ (G_R1 _ _ _ _ _ H1) t c a Hin).
    + intros c' Ec'. cbn [new_ck k_conn] in Ec'. inversion Ec'; subst c'. unfold is_open in Hop.
      destruct (get_conn s2 c) as [cn|] eqn:Egc; [|discriminate]. split; [|eapply nth_lt; exact Egc].
      unfold rdy, share_of, ready_of. rewrite Egc. intros Es. rewrite Es in Hop. apply andb_true_iff in Hop. apply Hop.
  - cbn [oconn app] in H2.
    set (pend := match p_marker (get_tok s2 t) with Some _ => true | None => false end).
    set (s3 := upd_tok t (fun q => set_waiting (p_waiting q ++ [(List.length (reqs s), pend)]) q) s2).
    assert (H3 : G fin None [] m0 s3) by (apply G_tok_same; [reflexivity|exact H2]).
    assert (R3 : reqs s3 = reqs s2) by (unfold s3; destruct t; reflexivity).
    assert (C3 : curT m0 s3 = curT m0 s2) by (apply curT_out, out_upd_tok).
    destruct pend.
    + apply (G_add_req fin [] m0 s3 (RCheckout (new_ck t WConnecting IWaiting None false false))); [rewrite C3, R3; exact Hlt2| |discriminate|intros _ w0 _ _; cbn; discriminate|exact H3].
      intros ck E. inversion E; subst ck. split; [apply CkOK_fresh; rewrite C3, R3; exact Hrt|apply LK_fresh].
    + set (own := match p with H1 => false | H2 => true end).
      set (s4 := if own then upd_tok t (set_marker (Some (List.length (reqs s)))) s3 else s3).
      assert (H4 : G fin None [] m0 s4) by (unfold s4; destruct own; [apply G_tok_same; [reflexivity|exact H3]|exact H3]).
      assert (R4 : reqs s4 = reqs s2) by (unfold s4; destruct own; [destruct t; exact R3|exact R3]).
      assert (C4 : curT m0 s4 = curT m0 s2) by (unfold s4; destruct own; [rewrite (curT_out m0 s3 _ (out_upd_tok _ _ _)); exact C3|exact C3]).
      apply (G_add_req fin [] m0 s4 (RCheckout (new_ck t WIdle (if g_cont cfg then IDelayDrop else IConnecting) None own false)));
        [rewrite C4, R4; exact Hlt2| |discriminate| |exact H4].
      * intros ck E. inversion E; subst ck. split; [apply CkOK_fresh; rewrite C4, R4; exact Hrt|apply LK_fresh].
      * intros _ w0 Hw0 Ha. exfalso. rewrite C4, Ec2, R4, R2, F4 in Hw0. change (reqs s0) with (reqs s) in Hw0. rewrite <- Hlen in Hw0.
        cbn [issue_tv t_rv] in Hw0. rewrite nth_error_app2, Nat.sub_diag in Hw0 by lia. cbn [nth_error] in Hw0. inversion Hw0; subst w0.
        rewrite (Hav k eq_refl eq_refl), <- Ett in Ha. rewrite existsb_false in Ha; [discriminate|].
        intros c Hc. apply in_map_iff in Hc as ([c' a] & <- & Hin). cbn [fst].
        change (get_tok s t) with (get_tok s0 t) in Hin. rewrite <- (Gt t) in Hin. specialize (Hun eq_refl c' a Hin). rewrite (Hcur s1) in Hun by (rewrite F1; exact Ho). exact Hun.
Qed.

(* ---------------------------------------------------------------- operations: tracker moves of track_op *)
Definition close_cv (i : nat) (v : cvw) : cvw := mkCv (v_share v) (first_some (v_closed v) i) (v_btime v) (v_origin v).
Definition close_tv (T : tv) (c i : nat) : tv := mkTv (upd_nth c (close_cv i) (t_cv T)) (t_rv T) (t_ks T) (t_tm T).

Lemma close_inv c i l c' v' : nth_error (upd_nth c (close_cv i) l) c' = Some v' ->
  exists v, nth_error l c' = Some v /\ v_share v' = v_share v /\ v_btime v' = v_btime v /\ v_origin v' = v_origin v /\
            (v_closed v' = None -> v_closed v = None) /\ (c = c' -> v_closed v' <> None).
Proof.
  rewrite nth_error_upd_nth. destruct (Nat.eqb_spec c c') as [->|Hne].
  - destruct (nth_error l c') as [v|]; [|discriminate]. cbn. intros H. inversion H. exists v. cbn. repeat split; auto.
    all: try (destruct (v_closed v); cbn; try discriminate; auto; fail).
    all: try (intros _; destruct (v_closed v); cbn; discriminate).
  - intros H. exists v'. repeat split; auto; try contradiction.
Qed.

Lemma keq_close T c i : keq T (close_tv T c i).
Proof.
  split; [reflexivity|]. intros c' _. unfold ctok, ckey, close_tv. cbn [t_cv t_ks]. rewrite nth_error_upd_nth.
  destruct (Nat.eqb c c'); [|reflexivity]. destruct (nth_error (t_cv T) c'); reflexivity.
Qed.

Lemma R1_close_tr T s c i : R1 T s -> R1 (close_tv T c i) s.
Proof.
  intros H. pose proof (keq_close T c i) as K. destruct H.
  constructor; unfold close_tv; cbn [t_cv t_rv t_ks t_tm]; rewrite ?upd_len; try assumption.
  - intros c' v' Hv. apply close_inv in Hv as (v & Hv & _ & -> & _). eauto.
  - intros c' v' Hv. apply close_inv in Hv as (v & Hv & _ & _ & -> & _). eauto.
  - intros c' v' cn Hv Hc. apply close_inv in Hv as (v & Hv & -> & _). eauto.
  - intros c' v' cn Hv Hc Hcl. apply close_inv in Hv as (v & Hv & _ & _ & _ & Hn & _). eauto.
  - intros t c' a Hin. destruct (q_idle0 t c' a Hin) as (A & v & Hv & Hb). split; [eapply TokOK_keq; eauto|].
    destruct (nth_error (upd_nth c (close_cv i) (t_cv T)) c') as [v'|] eqn:E.
    + exists v'. split; [reflexivity|]. apply close_inv in E as (v0 & Hv0 & _ & -> & _). congruence.
    + exfalso. apply nth_error_None in E. rewrite upd_len in E. apply nth_lt in Hv. lia.
  - intros r ck Hq. eapply CkOK_keq; eauto.
  - intros r p f pl Hq. eapply PooledOK_keq; eauto.
  - intros tid c' t Hq. eapply PooledOK_keq; eauto.
Qed.

Lemma R1_close_model T s c : (forall v, nth_error (t_cv T) c = Some v -> v_closed v <> None) -> R1 T s -> R1 T (upd_conn c (c_set_open false) s).
Proof.
  intros Hcl H. destruct H.
  assert (Sh : forall c', share_of (upd_conn c (c_set_open false) s) c' = share_of s c') by (intros; apply share_of_upd; reflexivity).
  constructor; auto.
  - unfold upd_conn. cbn [conns set_conns]. rewrite upd_len. exact q_lc0.
  - intros c' v cn Hv Hc. rewrite get_conn_upd in Hc. destruct (Nat.eqb c c'); [|eauto].
    destruct (get_conn s c') as [cn0|] eqn:E; [|discriminate]. inversion Hc; subst. cbn. eauto.
  - intros c' v cn Hv Hc Hn. rewrite get_conn_upd in Hc. destruct (Nat.eqb_spec c c') as [<-|]; [exfalso; eapply Hcl; eauto|eauto].
  - intros r ck Hq. eapply CkOK_sh; [exact Sh|]. apply q_ck0. exact Hq.
  - intros r p f0 pl Hq. eapply PooledOK_sh; [exact Sh|]. eapply q_hd0. exact Hq.
  - intros tid c' t Hq. eapply PooledOK_sh; [exact Sh|]. eapply q_tw0. exact Hq.
Qed.

Definition tick_tv (T : tv) (dt : N) : tv := mkTv (t_cv T) (t_rv T) (t_ks T) (t_tm T + dt)%N.
Lemma R1_tick T s dt : R1 T s -> R1 (tick_tv T dt) (set_now (now s + dt)%N s).
Proof.
  intros H. destruct H.
  assert (K : keq T (tick_tv T dt)) by (split; [reflexivity|intros; reflexivity]).
  constructor; unfold tick_tv; cbn [t_cv t_rv t_ks t_tm now set_now]; try assumption.
  - rewrite q_time0. lia.
  - intros c v Hv. pose proof (q_bt0 c v Hv). lia.
Qed.

(* ---------------------------------------------------------------- the number of requests *)
Lemma kp_len s s' : kp s s' -> List.length (reqs s') = List.length (reqs s).
Proof.
  intros K. destruct (Nat.lt_trichotomy (List.length (reqs s')) (List.length (reqs s))) as [L|[E|L]]; [|exact E|]; exfalso.
  - specialize (K (List.length (reqs s'))). destruct (nth_ex _ _ L) as [q Hq]. unfold get_req in K. rewrite Hq in K.
    assert (N : nth_error (reqs s') (List.length (reqs s')) = None) by (apply nth_error_None; lia).
    destruct q; cbn in K; try (rewrite N in K; discriminate). destruct K as [ck' K]. rewrite N in K. discriminate.
  - specialize (K (List.length (reqs s))). unfold get_req in K.
    assert (N : nth_error (reqs s) (List.length (reqs s)) = None) by (apply nth_error_None; lia). rewrite N in K. cbn in K.
    apply nth_error_None in K. lia.
Qed.

Definition rlen (s s' : state) : Prop := List.length (reqs s') = List.length (reqs s).
Lemma rlen_trans a b c : rlen a b -> rlen b c -> rlen a c. Proof. unfold rlen. congruence. Qed.
Lemma rlen_set_req w v s : rlen s (set_req w v s). Proof. unfold rlen, set_req. cbn [reqs set_reqs]. apply upd_len. Qed.
Lemma rlen_same s s' : reqs s' = reqs s -> rlen s s'. Proof. unfold rlen. congruence. Qed.

Ltac rl := unfold rlen; cbn [set_req emit unwake_req set_reqs set_out set_woken reqs]; rewrite ?reqs_hold_release; cbn [set_req set_reqs reqs]; rewrite ?upd_len; reflexivity.

Lemma rlen_do_poll r s : rlen s (do_poll cfg r s).
Proof.
  unfold do_poll. destruct (get_req s r) as [[|ck|p fn pl| |]|] eqn:Hq; try reflexivity.
  - rl.
  - pose proof (kp_len _ _ (kp_checkout_poll r ck ck (unwake_req r s) Hq)) as L1.
    destruct (checkout_poll cfg r ck (unwake_req r s)) as [[res ck'] s2]. cbn [snd] in L1.
    assert (L0 : rlen s s2) by exact L1.
    destruct res as [|[p|e]].
    + eapply rlen_trans; [exact L0|rl].
    + destruct (match get_conn s2 (fst p) with Some cn => _ | None => _ end) as [[[sh op_] rd] hs].
      eapply rlen_trans; [exact L0|]. eapply rlen_trans; [|apply (kp_len _ _ (kp_checkout_drop r ck' _))]. rl.
    + eapply rlen_trans; [exact L0|]. eapply rlen_trans; [|apply (kp_len _ _ (kp_checkout_drop r ck' _))]. rl.
  - destruct fn; rl.
Qed.

Lemma rlen_do_cancel r s : rlen s (do_cancel cfg r s).
Proof.
  unfold do_cancel. destruct (get_req s r) as [[|ck|p fn pl| |]|]; try reflexivity.
  - rl.
  - eapply rlen_trans; [apply (rlen_set_req r RCancelled)|]. apply (kp_len _ _ (kp_checkout_drop r ck _)).
  - rl.
Qed.

Lemma rlen_run_task tid s : rlen s (run_task cfg tid s).
Proof.
  unfold run_task. destruct (nth tid (tasks s) None) as [[c t|rid t own]|]; [| |reflexivity].
  - destruct (get_conn s c) as [cn|]; [|reflexivity].
    assert (Fin : forall s0, rlen s s0 -> rlen s (let s' := finish_task tid s0 in
              if is_open s' c && negb (t =? 0) && g_pool cfg then pool_push (g_max_idle cfg) t c s' else drop_conn c s')).
    { intros s0 M0. cbv zeta. eapply rlen_trans; [exact M0|]. 
      destruct (_ && _); [apply (kp_len _ _ (kp_pool_push _ t c (finish_task tid s0)))|apply (kp_len _ _ (kp_drop_conn c (finish_task tid s0)))]. }
    destruct (negb (c_open cn)); [apply Fin; reflexivity|]. destruct (c_share cn || c_ready cn); [apply Fin; reflexivity|reflexivity].
  - pose proof (kp_len _ _ (kp_connector_poll rid (ByTask tid) s)) as L1. destruct (connector_poll rid (ByTask tid) s) as [r s1]. cbn [snd] in L1.
    destruct r as [|[c|e]]; [exact L1| |].
    + pose proof (kp_len _ _ (kp_register t c s1)) as L2. destruct (register cfg t c s1) as [p s2]. cbn [snd] in L2.
      set (s3 := if g_pool cfg && negb (t =? 0) && own then pool_cancel t rid s2 else s2).
      assert (L3 : rlen s2 s3) by (unfold s3; destruct (_ && _); [apply (kp_len _ _ (kp_pool_cancel t rid s2))|reflexivity]).
      eapply rlen_trans; [exact L1|]. eapply rlen_trans; [exact L2|]. eapply rlen_trans; [exact L3|].
      apply (kp_len _ _ (kp_pooled_drop p (finish_task tid s3))).
    + eapply rlen_trans; [exact L1|]. destruct (_ && _); [apply (kp_len _ _ (kp_pool_cancel t rid s1))|reflexivity].
Qed.

Lemma rlen_bg_loop fuel : forall s, rlen s (bg_loop cfg fuel s).
Proof.
  induction fuel as [|f IH]; intros s; cbn [bg_loop]; [reflexivity|]. destruct (runq s) as [|tid rest]; [reflexivity|].
  eapply rlen_trans; [|apply IH]. apply (rlen_run_task tid (set_runq rest s)).
Qed.

(* ---------------------------------------------------------------- the invariant between operations *)
Record Inv (m : mst) (s : state) : Prop := mkInv {
  iv_r : R1 (tv_of m) s;
  iv_s : SI None [] s;
  iv_i : IS s;
  iv_l : List.length (m_reqs m) = List.length (reqs s);
  iv_p : o_snap (m_prev m) = snapshot s
}.

Lemma R1_out T s v : R1 T s -> R1 T (set_out v s).
Proof. intros H. eapply R1_eq; [| | | | | | |exact H]; reflexivity. Qed.
Lemma SI_out x F s v : SI x F s -> SI x F (set_out v s).
Proof. intros H. eapply SI_eq; [| | | |exact H]; reflexivity. Qed.

Lemma G_start fin m' m s : Inv m s -> tv_of m' = tv_of m -> G fin None [] m' (set_out [] s).
Proof. intros [A B _ _ _] E. apply G_of; [reflexivity|rewrite E; apply R1_out, A|apply SI_out, B]. Qed.

Lemma Le_refl s : Le (ilen s) s. Proof. intros t. lia. Qed.

Lemma tv_issue m u p ob :
  let k := nth u (g_uris cfg) None in
  let ks' := match k with Some k' => if g_pool cfg then keys_after (m_keys m) k' else m_keys m | None => m_keys m end in
  exists avail, tv_of (track_op cfg m (Issue u p) ob) = issue_tv (tv_of m) (mkRv k SLive avail) ks' /\
    (forall k', k = Some k' -> g_pool cfg = true -> avail = existsb (usable cfg m) (idle_of (o_snap (m_prev m)) (tok_of ks' k'))).
Proof.
  cbv zeta. cbn [track_op]. cbv zeta.
  exists (existsb (usable cfg m) (idle_of (o_snap (m_prev m))
            match nth u (g_uris cfg) None with
            | Some k' => if g_pool cfg then tok_of match nth u (g_uris cfg) None with
                                                 | Some k'0 => if g_pool cfg then match find_key k'0 (m_keys m) 1 with Some _ => m_keys m | None => m_keys m ++ [k'0] end else m_keys m
                                                 | None => m_keys m end k' else 0
            | None => 0 end)).
  split.
  - unfold tv_of, issue_tv. cbn [m_conns m_reqs m_keys m_time set_m_keys set_m_reqs t_cv t_rv t_ks t_tm]. rewrite map_app. cbn [map rv_of ri_key ri_stat ri_avail].
    unfold keys_after. destruct (nth u (g_uris cfg) None) as [k'|]; [|reflexivity]. destruct (g_pool cfg); reflexivity.
  - intros k' Ek Hp. rewrite Ek, Hp. unfold keys_after. reflexivity.
Qed.

Lemma tv_cancel m r ob : tv_of (track_op cfg m (Cancel r) ob) = tv_of m \/ tv_of (track_op cfg m (Cancel r) ob) = stat_tv (tv_of m) r SCancelled.
Proof.
  cbn [track_op]. destruct (nth_error (m_reqs m) r) as [x|]; [|left; reflexivity].
  assert (E : forall m1, tv_of m1 = tv_of m -> tv_of (ri_upd (fun y => set_ri_pend false (set_ri_stat SCancelled
                match ri_stat y, ri_dial y with SLive, DsFlying => set_ri_aband true y | _, _ => y end)) r m1) = stat_tv (tv_of m) r SCancelled).
  { intros m1 E1. rewrite <- E1. unfold tv_of, stat_tv, ri_upd. cbn [m_conns m_reqs m_keys m_time set_m_reqs t_cv t_rv t_ks t_tm]. f_equal.
    apply map_upd. intros y. destruct (ri_stat y), (ri_dial y); reflexivity. }
  destruct (ri_stat x); [right; apply E|right; apply E; reflexivity|left; reflexivity|left; reflexivity].
  destruct (ri_popx x) as [c|]; [|reflexivity]. destruct (nth_error (m_conns m) c) as [y|]; [|reflexivity].
  destruct (ci_share y); [reflexivity|]. apply tv_ci_upd_id. reflexivity.
Qed.

Lemma tv_close m c : tv_of (ci_upd (fun x => set_ci_closed (first_some (ci_closed x) (m_i m)) x) c m) = close_tv (tv_of m) c (m_i m).
Proof. unfold tv_of, close_tv, ci_upd. cbn [m_conns m_reqs m_keys m_time set_m_conns t_cv t_rv t_ks t_tm]. f_equal. apply map_upd. reflexivity. Qed.

Lemma tv_upgrade m r ob :
  match holder_conn m r with
  | Some c => tv_of (track_op cfg m (Upgrade r) ob) = close_tv (tv_of m) c (m_i m)
  | None => tv_of (track_op cfg m (Upgrade r) ob) = tv_of m
  end.
Proof.
  cbn [track_op]. destruct (holder_conn m r) as [c|]; [|reflexivity].
  unfold tv_of, close_tv, ci_upd. cbn [m_conns m_reqs m_keys m_time set_m_conns t_cv t_rv t_ks t_tm]. f_equal. apply map_upd. reflexivity.
Qed.

Lemma tv_dialdone m r x ob : tv_of (track_op cfg m (DialDone r x) ob) = tv_of m.
Proof. cbn [track_op]. apply tv_ri_upd_id. intros y. destruct (ri_dial y), (ri_resolved y); reflexivity. Qed.

Lemma wake_task_frame t s :
  out (wake_task t s) = out s /\ conns (wake_task t s) = conns s /\ dials (wake_task t s) = dials s /\ reqs (wake_task t s) = reqs s /\
  now (wake_task t s) = now s /\ toks (wake_task t s) = toks s /\ tasks (wake_task t s) = tasks s /\ keys (wake_task t s) = keys s.
Proof. unfold wake_task. destruct (existsb _ _); repeat split. Qed.

Lemma G_wake_task fin x F m0 t s : G fin x F m0 s -> G fin x F m0 (wake_task t s).
Proof. intros H. destruct (wake_task_frame t s) as (A & B & C & D & E & F0 & G0 & H0). eapply G_eq; eauto. Qed.
Lemma G_wake_tasks fin x F m0 l : forall s, G fin x F m0 s -> G fin x F m0 (wake_tasks l s).
Proof. induction l as [|t l IH]; intros s H; cbn [wake_tasks]; [exact H|]. apply IH, G_wake_task, H. Qed.
Lemma G_wake_poller fin x F m0 p r s : G fin x F m0 s -> G fin x F m0 (wake_poller p r s).
Proof. intros H. destruct p as [[|tid]|]; cbn [wake_poller]; [apply G_wake|apply G_wake_task|]; exact H. Qed.

Lemma G_drain fin x F m0 c s : G fin x F m0 s -> G fin x F m0 (drain_conn_waiters c s).
Proof.
  intros H. unfold drain_conn_waiters. destruct (get_conn s c) as [cn|]; [|exact H].
  apply G_wake_tasks. apply G_upd_conn; [reflexivity|reflexivity|left; auto|exact H].
Qed.

Lemma out_wake_tasks l : forall s, out (wake_tasks l s) = out s.
Proof. induction l as [|t l IH]; intros s; cbn [wake_tasks]; [reflexivity|]. rewrite IH. apply (wake_task_frame t s). Qed.
Lemma out_drain c s : out (drain_conn_waiters c s) = out s.
Proof. unfold drain_conn_waiters. destruct (get_conn s c); [|reflexivity]. rewrite out_wake_tasks. reflexivity. Qed.

(* closing a connection in the model and in the tracker *)
Lemma G_close fin m' T s c i :
  out s = [] -> R1 T s -> SI None [] s -> tv_of m' = close_tv T c i ->
  G fin None [] m' (drain_conn_waiters c (upd_conn c (c_set_open false) s)).
Proof.
  intros Ho HR HS Em. apply G_drain. apply G_of; [exact Ho| |].
  - rewrite Em. apply R1_close_model; [|apply R1_close_tr, HR].
    intros v Hv. unfold close_tv in Hv. cbn [t_cv] in Hv. apply close_inv in Hv as (_ & _ & _ & _ & _ & _ & Hc). apply Hc. reflexivity.
  - apply SI_conn; [reflexivity|left; auto|exact HS].
Qed.

Lemma holder_conn_view m r c : (exists w, nth_error (t_rv (tv_of m)) r = Some w /\ v_stat w = SHeld c) -> holder_conn m r = Some c.
Proof.
  intros (w & Hw & Hs). unfold tv_of in Hw. cbn [t_rv] in Hw. rewrite nth_map in Hw. unfold holder_conn.
  destruct (nth_error (m_reqs m) r) as [x|]; [|discriminate]. cbn [option_map] in Hw. inversion Hw; subst w. cbn [rv_of v_stat] in Hs. rewrite Hs. reflexivity.
Qed.

Lemma existsb_ext' {A} (f g : A -> bool) : (forall a, f a = g a) -> forall l, existsb f l = existsb g l.
Proof. intros H. induction l as [|a l IH]; cbn [existsb]; [reflexivity|]. rewrite H, IH. reflexivity. Qed.

Lemma IS_out s v : IS s -> IS (set_out v s).
Proof. intros H. eapply IS_frame; [| |exact H]; reflexivity. Qed.

Lemma step_G m s o :
  Inv m s -> G (ilen (step cfg s o)) None [] (track_op cfg m o (observe (step cfg s o))) (step cfg s o).
Proof.
  intros HI. pose proof HI as [HR HS HIS HL HP]. set (fin := ilen (step cfg s o)). set (ob := observe (step cfg s o)).
  assert (HLe : Le fin (step cfg s o)) by apply Le_refl.
  assert (HR0 : R1 (tv_of m) (set_out [] s)) by apply R1_out, HR. assert (HS0 : SI None [] (set_out [] s)) by apply SI_out, HS.
  clearbody fin ob. unfold step in *. destruct o.
  - (* Issue *)
    destruct (tv_issue m u p ob) as (avail & Em & Hav).
    eapply (G_do_issue fin _ u p (set_out [] s) (tv_of m)); [reflexivity|exact HR0|exact HS0|apply IS_out, HIS| |exact Em|reflexivity|reflexivity|].
    + unfold tv_of. cbn [t_rv reqs set_out]. rewrite map_length. exact HL.
    + intros k' Ek Hp. cbn [v_avail]. rewrite (Hav k' Ek Hp), HP, idle_of_snapshot.
      apply (existsb_ext' (usable cfg m) (usablev (tv_of m))). intros c. apply usable_tv.
  - apply G_do_poll; [apply (G_start fin _ m s HI); reflexivity|exact HLe].
  - eapply (G_do_cancel fin _ r (set_out [] s) (tv_of m)); [reflexivity|exact HR0|exact HS0|apply tv_cancel|exact HLe].
  - apply G_do_finish. apply (G_start fin _ m s HI). reflexivity.
  - (* Upgrade *)
    pose proof (tv_upgrade m r ob) as Eu. unfold do_upgrade.
    assert (NH : G fin None [] (track_op cfg m (Upgrade r) ob) (set_out [] s)).
    { destruct (holder_conn m r) as [c0|]; apply G_of; [reflexivity|rewrite Eu; apply R1_close_tr; exact HR0|exact HS0|reflexivity|rewrite Eu; exact HR0|exact HS0]. }
    destruct (get_req (set_out [] s) r) as [[|ck|[c t] fn pl| |]|] eqn:Hq; try exact NH.
    cbn [fst]. rewrite (holder_conn_view m r c (q_hold _ _ HR0 r c t fn pl Hq)) in Eu.
    eapply G_close; [reflexivity|exact HR0|exact HS0|exact Eu].
  - (* DialDone *)
    pose proof (tv_dialdone m r x ob) as Ed. assert (H0 : G fin None [] (track_op cfg m (DialDone r x) ob) (set_out [] s)) by (apply (G_start fin _ m s HI); exact Ed).
    unfold do_dial_done. destruct (get_dial (set_out [] s) r) as [d|]; [|exact H0]. destruct (d_stage d); try exact H0.
    apply G_wake_poller. apply G_upd_dial; [intros d0 _; cbn; discriminate|exact H0].
  - (* ConnReady *)
    assert (H0 : G fin None [] (track_op cfg m (ConnReady c) ob) (set_out [] s)) by (apply (G_start fin _ m s HI); reflexivity).
    unfold do_conn_ready. destruct (get_conn (set_out [] s) c); [|exact H0].
    apply G_drain. apply G_upd_conn; [reflexivity|reflexivity|left; intros; reflexivity|exact H0].
  - (* ConnClose *)
    cbn [track_op]. unfold do_conn_close. destruct (get_conn (set_out [] s) c).
    + eapply G_close; [reflexivity|exact HR0|exact HS0|apply tv_close].
    + apply G_of; [reflexivity|rewrite tv_close; apply R1_close_tr; exact HR0|exact HS0].
  - (* Bg *)
    unfold do_bg in *. apply G_bg_loop; [apply (G_start fin _ m s HI); reflexivity|exact HLe].
  - (* Tick *)
    apply G_of; [reflexivity| |].
    + change (tv_of (track_op cfg m (Tick dt) ob)) with (tick_tv (tv_of m) dt). apply (R1_tick (tv_of m) (set_out [] s) dt HR0).
    + eapply SI_eq; [| | | |exact HS0]; reflexivity.
Qed.

(* ---------------------------------------------------------------- lengths across an operation *)
Definition is_issue (o : op) : nat := match o with Issue _ _ => 1 | _ => 0 end.

Lemma mreqs_len_ev m e : List.length (m_reqs (track_ev m e)) = List.length (m_reqs m).
Proof.
  destruct e; cbn [track_ev]; unfold ri_upd, ci_upd; cbn [m_reqs set_m_reqs set_m_conns]; rewrite ?upd_len; try reflexivity.
  - destruct x as [|[]]; cbn [m_reqs set_m_reqs]; rewrite ?upd_len; reflexivity.
  - destruct ok; reflexivity.
Qed.
Lemma mreqs_len_fold l : forall m, List.length (m_reqs (fold_left track_ev l m)) = List.length (m_reqs m).
Proof. induction l as [|e l IH]; intros m; cbn [fold_left]; [reflexivity|]. rewrite IH. apply mreqs_len_ev. Qed.
Lemma mreqs_len_offer ob l : forall m, List.length (m_reqs (fold_left (track_offer ob) l m)) = List.length (m_reqs m).
Proof.
  induction l as [|e l IH]; intros m; cbn [fold_left]; [reflexivity|]. rewrite IH.
  destruct e; try reflexivity. destruct ok; try reflexivity. cbn [track_offer]. destruct (nth_error (m_conns m) c); reflexivity.
Qed.
Lemma mreqs_len_op m o ob : List.length (m_reqs (track_op cfg m o ob)) = List.length (m_reqs m) + is_issue o.
Proof.
  destruct o; cbn [track_op is_issue]; unfold ri_upd, ci_upd; cbn [m_reqs set_m_reqs set_m_conns set_m_keys set_m_time]; rewrite ?upd_len, ?Nat.add_0_r; try reflexivity.
  - rewrite app_length. reflexivity.
  - destruct (nth_error (m_reqs m) r) as [x|]; [|lia]. destruct (ri_stat x); cbn [m_reqs set_m_reqs]; rewrite ?upd_len; try lia.
    destruct (ri_popx x) as [c|]; [|lia]. destruct (nth_error (m_conns m) c) as [y|]; [|lia]. destruct (ci_share y); cbn [m_reqs set_m_conns]; lia.
  - destruct (holder_conn m r); reflexivity.
Qed.

Lemma reqs_wake_tasks l : forall s, reqs (wake_tasks l s) = reqs s.
Proof. induction l as [|t l IH]; intros s; cbn [wake_tasks]; [reflexivity|]. rewrite IH. apply (wake_task_frame t s). Qed.
Lemma reqs_drain c s : reqs (drain_conn_waiters c s) = reqs s.
Proof. unfold drain_conn_waiters. destruct (get_conn s c) as [cn|]; [|reflexivity]. rewrite reqs_wake_tasks. reflexivity. Qed.

Lemma reqs_upd_tok t f s : reqs (upd_tok t f s) = reqs s. Proof. destruct t; reflexivity. Qed.

Lemma rlen_do_issue u p s : List.length (reqs (do_issue cfg u p s)) = S (List.length (reqs s)).
Proof.
  unfold do_issue. set (s0 := set_woken (woken s ++ [false]) s).
  assert (A : forall r d s1, reqs s1 = reqs s -> List.length (reqs (set_dials (dials s1 ++ [d]) (set_reqs (reqs s1 ++ [r]) s1))) = S (List.length (reqs s))).
  { intros r d s1 E. cbn [reqs set_dials set_reqs]. rewrite app_length, E. cbn. lia. }
  destruct (nth u (g_uris cfg) None) as [k|]; [|apply A; reflexivity].
  destruct (negb (g_pool cfg)); [apply A; reflexivity|].
  destruct (key_insert_frame k s0) as (_ & _ & _ & F4 & _). destruct (key_insert k s0) as [t s1]. cbn [snd] in F4.
  destruct (pool_pop_frame (g_timeout cfg) t s1) as [R2 _]. destruct (pool_pop (g_timeout cfg) t s1) as [found s2]. cbn [snd] in R2.
  assert (E2 : reqs s2 = reqs s) by (rewrite R2, F4; reflexivity).
  destruct found; [apply A; exact E2|].
  destruct (match p_marker (get_tok s2 t) with Some _ => true | None => false end).
  - apply A. rewrite reqs_upd_tok. exact E2.
  - apply A. destruct p; [|rewrite reqs_upd_tok]; rewrite reqs_upd_tok; exact E2.
Qed.

Lemma rlen_step s o : List.length (reqs (step cfg s o)) = List.length (reqs s) + is_issue o.
Proof.
  unfold step. destruct o; cbn [is_issue]; rewrite ?Nat.add_0_r.
  - rewrite rlen_do_issue. cbn [reqs set_out]. lia.
  - apply (rlen_do_poll r (set_out [] s)).
  - apply (rlen_do_cancel r (set_out [] s)).
  - unfold do_finish. destruct (get_req (set_out [] s) r) as [[|ck|p fn pl| |]|]; try reflexivity. destruct pl; cbn [wake_req set_woken reqs set_req set_reqs]; apply upd_len.
  - unfold do_upgrade. destruct (get_req (set_out [] s) r) as [[|ck|p fn pl| |]|]; try reflexivity. rewrite reqs_drain. reflexivity.
  - unfold do_dial_done. destruct (get_dial (set_out [] s) r) as [d|]; [|reflexivity]. destruct (d_stage d); try reflexivity.
    destruct (d_polled d) as [[|tid]|]; cbn [wake_poller]; try reflexivity. rewrite (proj1 (proj2 (proj2 (proj2 (wake_task_frame tid _))))). reflexivity.
  - unfold do_conn_ready. destruct (get_conn (set_out [] s) c); [|reflexivity]. rewrite reqs_drain. reflexivity.
  - unfold do_conn_close. destruct (get_conn (set_out [] s) c); [|reflexivity]. rewrite reqs_drain. reflexivity.
  - apply (rlen_bg_loop _ (set_out [] s)).
  - reflexivity.
Qed.

Lemma tv_offer ob : forall l m, tv_of (fold_left (track_offer ob) l m) = tv_of m.
Proof.
  induction l as [|e l IH]; intros m; cbn [fold_left]; [reflexivity|]. rewrite IH.
  destruct e; try reflexivity. destruct ok; try reflexivity. cbn [track_offer].
  destruct (nth_error (m_conns m) c); [|reflexivity]. apply tv_ci_upd_id. reflexivity.
Qed.

Lemma tv_stamp prev : forall l m, tv_of (fold_left (track_idle_stamp prev) l m) = tv_of m.
Proof.
  assert (A : forall sn cs m, tv_of (fold_left (fun m c => if mem c (idle_of prev (sn_token sn)) then m else ci_upd (set_ci_idle_time (m_time m)) c m) cs m) = tv_of m).
  { intros sn. induction cs as [|c cs IH]; intros m; cbn [fold_left]; [reflexivity|]. rewrite IH.
    destruct (mem c (idle_of prev (sn_token sn))); [reflexivity|]. apply tv_ci_upd_id. reflexivity. }
  induction l as [|sn l IH]; intros m; cbn [fold_left]; [reflexivity|]. rewrite IH. unfold track_idle_stamp. apply A.
Qed.
Lemma mreqs_len_stamp prev : forall l m, List.length (m_reqs (fold_left (track_idle_stamp prev) l m)) = List.length (m_reqs m).
Proof.
  assert (A : forall sn cs m, m_reqs (fold_left (fun m c => if mem c (idle_of prev (sn_token sn)) then m else ci_upd (set_ci_idle_time (m_time m)) c m) cs m) = m_reqs m).
  { intros sn. induction cs as [|c cs IH]; intros m; cbn [fold_left]; [reflexivity|]. rewrite IH.
    destruct (mem c (idle_of prev (sn_token sn))); reflexivity. }
  induction l as [|sn l IH]; intros m; cbn [fold_left]; [reflexivity|]. rewrite IH. unfold track_idle_stamp. rewrite A. reflexivity.
Qed.

Lemma tv_track m o s' : tv_of (track cfg m o (observe s')) = curT (track_op cfg m o (observe s')) s'.
Proof.
  unfold track. cbv zeta. cbn [o_events o_snap observe].
  match goal with |- tv_of (set_m_prev _ (set_m_i _ ?x)) = _ => change (tv_of (set_m_prev (observe s') (set_m_i (S (m_i x)) x))) with (tv_of x) end.
  rewrite tv_stamp, tv_offer. reflexivity.
Qed.

Lemma Inv_next m s o : Inv m s -> Inv (track cfg m o (observe (step cfg s o))) (step cfg s o).
Proof.
  intros HI. pose proof (step_G m s o HI) as (_ & HR & HS). destruct HI as [_ _ HIS HL _].
  set (s' := step cfg s o) in *.
  constructor.
  - rewrite tv_track. exact HR.
  - exact HS.
  - apply IS_step. exact HIS.
  - unfold track. cbv zeta. cbn [m_reqs set_m_prev set_m_i]. rewrite mreqs_len_stamp, mreqs_len_offer, mreqs_len_fold, mreqs_len_op. unfold s'. rewrite rlen_step. lia.
  - reflexivity.
Qed.

Lemma Inv_init : Inv m0 init.
Proof.
  constructor; [|apply SI_init|apply IS_init|reflexivity|reflexivity].
  constructor; cbn [tv_of m0 init t_cv t_rv t_ks t_tm m_conns m_reqs m_keys m_time conns dials reqs now tasks keys map List.length]; auto;
    unfold get_conn, get_req, get_dial; cbn [conns reqs dials init tasks].
  all: try (intros [|?]; cbn; intros; discriminate).
  all: try (intros; lia).
  - intros t c a H. destruct t as [|[|?]]; destruct H.
  - intros _ [|?]; cbn; intros; discriminate.
  - intros _ [|?]; cbn; intros; discriminate.
Qed.

Lemma cDropF_ext f g m e : (forall t, f t = g t) -> cDropF f cfg m e = cDropF g cfg m e.
Proof.
  intros H. destruct e; try reflexivity. cbn [cDropF]. destruct (nth_error (m_conns m) c) as [x|]; [|reflexivity].
  destruct (g_pool cfg && negb (ci_share x)); [|reflexivity]. destruct (ci_closed x); [reflexivity|]. rewrite H. reflexivity.
Qed.

Lemma step_checks m s o : Inv m s ->
  chk_S1 cfg m o (observe (step cfg s o)) = true /\ chk_Drop cfg m o (observe (step cfg s o)) = true.
Proof.
  intros HI. pose proof (step_G m s o HI) as (He & _ & _). set (s' := step cfg s o) in *.
  unfold ck1 in He. rewrite evs_ok_and in He. apply andb_true_iff in He as [H1 H2].
  split; [exact H1|]. unfold chk_Drop, cDrop. cbn [o_events o_snap observe]. rewrite <- H2.
  apply evs_ok_ext. intros m1 e. apply cDropF_ext. intros t. rewrite idle_of_snapshot, map_length. reflexivity.
Qed.

Theorem mon_S1_drop_trace_from : forall ops s m, Inv m s ->
  mon_steps chk_S1 cfg m ops (trace_from cfg s ops) = true /\ mon_steps chk_Drop cfg m ops (trace_from cfg s ops) = true.
Proof.
  induction ops as [|o ops IH]; intros s m HI; cbn [trace_from mon_steps]; [split; reflexivity|].
  destruct (step_checks m s o HI) as [A B]. destruct (IH _ _ (Inv_next m s o HI)) as [C D].
  rewrite A, B, C, D. split; reflexivity.
Qed.

End C04A.

Theorem mon_C04_S1_holds : forall cfg ops, mon_C04_S1 cfg ops (trace cfg ops) = true.
Proof. intros cfg ops. apply (mon_S1_drop_trace_from cfg ops init m0 (Inv_init cfg)). Qed.

Theorem mon_C04_drop_holds : forall cfg ops, mon_C04_drop cfg ops (trace cfg ops) = true.
Proof. intros cfg ops. apply (mon_S1_drop_trace_from cfg ops init m0 (Inv_init cfg)). Qed.

Print Assumptions mon_C04_S1_holds.
Print Assumptions mon_C04_drop_holds.

Theorem mon_C04_np_holds : forall cfg ops, mon_C04_np cfg ops (trace cfg ops) = true.
Proof. intros cfg ops. apply (mon_C04_np_trace_from cfg ops init m0 J_init). Qed.
Print Assumptions mon_C04_np_holds.
