(* C15, retention clause, part 5: the hand-back tasks.  Every hand-back task is scheduled or parked at
   its connection; connections are not more numerous than finished dials; which primitives leave the
   task table alone. *)
From HD Require Import common.Base http.Model pool.Model pool.Spec pool.Frames pool.ProofsLite pool.FramesC06 pool.FramesC03 pool.ProofsC03
  pool.LiveC03 pool.LiveC03b pool.LiveC03c.
Local Open Scope list_scope.

Definition waiters (s : state) (c : nat) : list nat := match get_conn s c with Some cn => c_waiters cn | None => [] end.
Definition rdy (s : state) (c : nat) : bool := match get_conn s c with Some cn => c_ready cn | None => true end.
Definition is_gone_d (d : dial) : bool := match d_stage d with DGone => true | _ => false end.
Definition gone (l : list dial) : nat := List.length (filter is_gone_d l).

(* quiet: nothing the scheduler looks at changes *)
Record Qt (s s' : state) : Prop := mkQt {
  q_tasks : tasks s' = tasks s;
  q_wait : forall c, waiters s' c = waiters s c;
  q_rdy : forall c, rdy s' c = rdy s c;
  q_runq : runq s' = runq s;
  q_cnt : List.length (conns s') + gone (dials s) <= List.length (conns s) + gone (dials s')
}.

Record Sd (rd : bool) (s s' : state) : Prop := mkSd {
  d_new : forall tid c t, nth tid (tasks s') None = Some (TWhenReady c t) ->
            nth tid (tasks s) None = Some (TWhenReady c t) \/ In tid (runq s');
  d_runq : forall tid, In tid (runq s) -> In tid (runq s');
  d_wait : forall c tid, In tid (waiters s c) -> In tid (waiters s' c) \/ In tid (runq s');
  d_cnt : List.length (conns s') + gone (dials s) <= List.length (conns s) + gone (dials s');
  d_rdy : rd = true -> forall c, rdy s c = true -> rdy s' c = true
}.

Lemma Qt_refl s : Qt s s. Proof. constructor; auto. Qed.
Lemma Qt_trans a b c : Qt a b -> Qt b c -> Qt a c.
Proof.
  intros [A1 A2 A3 A4 A5] [B1 B2 B3 B4 B5]. constructor; [congruence| | |congruence|lia].
  - intros k. rewrite B2. apply A2.
  - intros k. rewrite B3. apply A3.
Qed.
Lemma Sd_refl rd s : Sd rd s s. Proof. constructor; auto. Qed.
Lemma Sd_trans rd a b c : Sd rd a b -> Sd rd b c -> Sd rd a c.
Proof.
  intros [A1 A2 A3 A4 A5] [B1 B2 B3 B4 B5]. constructor; auto; try lia.
  - intros tid k t H. destruct (B1 _ _ _ H) as [H1|H1]; [|right; exact H1]. destruct (A1 _ _ _ H1) as [H2|H2]; [left; exact H2|right; auto].
  - intros k tid H. destruct (A3 _ _ H) as [H1|H1]; [|right; auto]. apply B3. exact H1.
Qed.
Lemma Sd_of_Qt rd s s' : Qt s s' -> Sd rd s s'.
Proof.
  intros [A1 A2 A3 A4 A5]. constructor; auto.
  - intros tid c t H. left. rewrite <- A1. exact H.
  - intros tid H. rewrite A4. exact H.
  - intros c tid H. left. rewrite A2. exact H.
  - intros _ c H. rewrite A3. exact H.
Qed.
Lemma Sd_weaken s s' : Sd true s s' -> Sd false s s'.
Proof. intros [A1 A2 A3 A4 A5]. constructor; auto; intros E; discriminate. Qed.

Lemma Qt_same s s' : tasks s' = tasks s -> conns s' = conns s -> dials s' = dials s -> runq s' = runq s -> Qt s s'.
Proof.
  intros H1 H2 H3 H4. constructor; auto; try (intros c; unfold waiters, rdy, get_conn; rewrite H2; reflexivity). rewrite H2, H3. lia.
Qed.

Lemma gone_upd f : forall l r, (forall d, nth_error l r = Some d -> is_gone_d d = true -> is_gone_d (f d) = true) -> gone l <= gone (upd_nth r f l).
Proof.
  unfold gone. induction l as [|d l IH]; intros [|r] Hf; cbn [upd_nth filter]; auto.
  - destruct (is_gone_d d) eqn:E; [rewrite (Hf d eq_refl E); cbn; lia|destruct (is_gone_d (f d)); cbn; lia].
  - specialize (IH r (fun d0 H => Hf d0 H)). destruct (is_gone_d d); cbn; lia.
Qed.

Lemma Qt_upd_dial r f s : (forall d, get_dial s r = Some d -> is_gone_d d = true -> is_gone_d (f d) = true) -> Qt s (upd_dial r f s).
Proof. intros Hf. constructor; auto. cbn [conns dials upd_dial set_dials]. pose proof (gone_upd f (dials s) r Hf). lia. Qed.

Lemma get_conn_upd_conn c f s c' : get_conn (upd_conn c f s) c' = if Nat.eqb c c' then option_map f (get_conn s c') else get_conn s c'.
Proof. unfold get_conn, upd_conn. cbn [conns set_conns]. apply nth_error_upd_nth. Qed.

Lemma Qt_upd_conn c f s : (forall cn, c_waiters (f cn) = c_waiters cn /\ c_ready (f cn) = c_ready cn) -> Qt s (upd_conn c f s).
Proof.
  intros Hf. constructor; auto.
  - intros c'. unfold waiters. rewrite get_conn_upd_conn. destruct (Nat.eqb c c'); [|reflexivity]. destruct (get_conn s c'); cbn; [apply Hf|reflexivity].
  - intros c'. unfold rdy. rewrite get_conn_upd_conn. destruct (Nat.eqb c c'); [|reflexivity]. destruct (get_conn s c'); cbn; [apply Hf|reflexivity].
  - cbn [conns dials upd_conn set_conns]. rewrite upd_nth_length. lia.
Qed.

Ltac qs := apply Qt_same; reflexivity.
Lemma Qt_emit e s : Qt s (emit e s). Proof. qs. Qed.
Lemma Qt_set_req r v s : Qt s (set_req r v s). Proof. qs. Qed.
Lemma Qt_upd_tok t f s : Qt s (upd_tok t f s). Proof. destruct t; [apply Qt_refl|qs]. Qed.
Lemma Qt_wake_req r s : Qt s (wake_req r s). Proof. qs. Qed.
Lemma Qt_unwake_req r s : Qt s (unwake_req r s). Proof. qs. Qed.

Lemma Qt_drop_conn c s : Qt s (drop_conn c s).
Proof.
  unfold drop_conn. destruct (get_conn s c) as [cn|]; [|apply Qt_refl].
  assert (H : Qt s (upd_conn c (c_set_refs (pred (c_refs cn))) s)) by (apply Qt_upd_conn; intros x; split; reflexivity).
  destruct (Nat.eqb (pred (c_refs cn)) 0); [eapply Qt_trans; [exact H|apply Qt_emit]|exact H].
Qed.
Lemma Qt_clone_conn c s : Qt s (clone_conn c s).
Proof. apply Qt_upd_conn. intros x. split; reflexivity. Qed.
Lemma Qt_drop_all l : forall s, Qt s (drop_all l s).
Proof. induction l as [|[c a] l IH]; intros s; cbn [drop_all]; [apply Qt_refl|]. eapply Qt_trans; [apply Qt_drop_conn|apply IH]. Qed.
Lemma Qt_deliver w p s : Qt s (deliver w p s).
Proof.
  unfold deliver. destruct (get_req s w) as [[|ck|? ? ?| |]|]; try apply Qt_refl.
  destruct (k_rxpolled ck); [eapply Qt_trans; [apply Qt_set_req|apply Qt_wake_req]|apply Qt_set_req].
Qed.
Lemma Qt_drop_sender w s : Qt s (drop_sender w s).
Proof.
  unfold drop_sender. destruct (get_req s w) as [[|ck|? ? ?| |]|]; try apply Qt_refl.
  destruct (k_waiter ck); try apply Qt_refl; (destruct (k_rxpolled ck); [eapply Qt_trans; [apply Qt_set_req|apply Qt_wake_req]|apply Qt_set_req]).
Qed.
Lemma Qt_walk_waiters t c sh ws : forall s, Qt s (snd (walk_waiters t c sh ws s)).
Proof.
  induction ws as [|[w b] ws IH]; intros s; cbn [walk_waiters]; [apply Qt_refl|].
  destruct (rx_live s w); [destruct sh|].
  - eapply Qt_trans; [|apply IH]. eapply Qt_trans; [apply Qt_clone_conn|apply Qt_deliver].
  - cbn [snd]. apply Qt_deliver.
  - apply IH.
Qed.
Lemma Qt_pool_push n t c s : Qt s (pool_push n t c s).
Proof.
  unfold pool_push.
  set (s1 := if share_of s c then upd_tok t (set_marker None) s else s).
  assert (H1 : Qt s s1) by (subst s1; destruct (share_of s c); [apply Qt_upd_tok|apply Qt_refl]).
  pose proof (Qt_walk_waiters t c (share_of s1 c) (p_waiting (get_tok s1 t)) s1) as Hw.
  destruct (walk_waiters t c (share_of s1 c) (p_waiting (get_tok s1 t)) s1) as [[rest moved] s2]. cbn [snd] in Hw.
  eapply Qt_trans; [exact H1|]. eapply Qt_trans; [exact Hw|]. destruct moved; [apply Qt_upd_tok|].
  match goal with |- context [if ?b then _ else _] => destruct b end.
  - eapply Qt_trans; apply Qt_upd_tok.
  - eapply Qt_trans; [apply Qt_upd_tok|apply Qt_drop_conn].
Qed.
Lemma Qt_release_pending ws : forall s, Qt s (snd (release_pending ws s)).
Proof.
  induction ws as [|[w b] ws IH]; intros s; cbn [release_pending]; [apply Qt_refl|].
  destruct b; [eapply Qt_trans; [apply Qt_drop_sender|apply IH]|]. specialize (IH s). destruct (release_pending ws s). exact IH.
Qed.
Lemma Qt_pool_cancel t rid s : Qt s (pool_cancel t rid s).
Proof.
  unfold pool_cancel. destruct (p_marker (get_tok s t)) as [o|]; [|apply Qt_refl]. destruct (Nat.eqb o rid); [|apply Qt_refl].
  set (s1 := upd_tok t (set_marker None) s).
  pose proof (Qt_release_pending (p_waiting (get_tok s1 t)) s1) as H2.
  destruct (release_pending (p_waiting (get_tok s1 t)) s1) as [rest s2]. cbn [snd] in H2.
  eapply Qt_trans; [apply Qt_upd_tok|]. eapply Qt_trans; [exact H2|apply Qt_upd_tok].
Qed.
Lemma Qt_pop_loop thr rl : forall s, Qt s (snd (pop_loop thr rl s)).
Proof.
  induction rl as [|[c a] rl IH]; intros s; cbn [pop_loop]; [apply Qt_refl|].
  destruct (match thr with Some y => (a <? y)%N | None => false end).
  - cbn [snd]. eapply Qt_trans; [apply Qt_drop_conn|apply Qt_drop_all].
  - destruct (is_open s c); [apply Qt_refl|]. eapply Qt_trans; [apply Qt_drop_conn|apply IH].
Qed.
Lemma Qt_pool_pop to t s : Qt s (snd (pool_pop to t s)).
Proof.
  unfold pool_pop. pose proof (Qt_pop_loop (expiry_threshold to (now s)) (rev (p_idle (get_tok s t))) s) as H1.
  destruct (pop_loop _ _ s) as [[r rest] s1]. cbn [snd] in *. eapply Qt_trans; [exact H1|apply Qt_upd_tok].
Qed.
Lemma Qt_key_insert k s : Qt s (snd (key_insert k s)).
Proof. unfold key_insert. destruct (find_key k (keys s) 1); cbn [snd]; [apply Qt_refl|qs]. Qed.
Lemma Qt_register cfg t c s : Qt s (snd (register cfg t c s)).
Proof.
  unfold register. destruct (g_pool cfg && negb (t =? 0)); [destruct (share_of s c)|]; cbn [snd]; try apply Qt_refl.
  destruct (is_open s c); [|apply Qt_refl]. eapply Qt_trans; [apply Qt_clone_conn|apply Qt_pool_push].
Qed.

Lemma gone_app l1 l2 : gone (l1 ++ l2) = gone l1 + gone l2.
Proof. unfold gone. rewrite filter_app, app_length. reflexivity. Qed.

Lemma Qt_connector_poll rid by_ s : Qt s (snd (connector_poll rid by_ s)).
Proof.
  unfold connector_poll. destruct (get_dial s rid) as [d|] eqn:Hd; [|apply Qt_refl].
  destruct (d_stage d) as [| |[alpn| |]|] eqn:Hst; cbn [snd]; try apply Qt_refl.
  - eapply Qt_trans; [apply Qt_emit|]. apply Qt_upd_dial. intros d0 E0 E. change (get_dial s rid = Some d0) in E0. rewrite Hd in E0. inversion E0; subst d0.
    unfold is_gone_d in E. rewrite Hst in E. discriminate.
  - apply Qt_upd_dial. intros d0 _ E. exact E.
  - (* a new connection, paid by its dial becoming Gone *)
    set (cn := mkConn rid (match d_proto d with H2 => true | H1 => alpn end) true true 1 0 []).
    constructor; try reflexivity.
    + intros c. unfold waiters, get_conn. cbn [conns upd_dial set_dials emit set_out set_conns].
      destruct (Nat.lt_ge_cases c (List.length (conns s))) as [Hl|Hl]; [rewrite nth_error_app1 by exact Hl; reflexivity|].
      rewrite (proj2 (nth_error_None (conns s) c) Hl). destruct (nth_error (conns s ++ [cn]) c) as [x|] eqn:E; [|reflexivity].
      apply nth_error_app_inv in E. destruct E as [E|[_ ->]]; [rewrite (proj2 (nth_error_None _ _) Hl) in E; discriminate|reflexivity].
    + intros c. unfold rdy, get_conn. cbn [conns upd_dial set_dials emit set_out set_conns].
      destruct (Nat.lt_ge_cases c (List.length (conns s))) as [Hl|Hl]; [rewrite nth_error_app1 by exact Hl; reflexivity|].
      rewrite (proj2 (nth_error_None (conns s) c) Hl). destruct (nth_error (conns s ++ [cn]) c) as [x|] eqn:E; [|reflexivity].
      apply nth_error_app_inv in E. destruct E as [E|[_ ->]]; [rewrite (proj2 (nth_error_None _ _) Hl) in E; discriminate|reflexivity].
    + cbn [conns dials upd_dial set_dials emit set_out set_conns]. rewrite app_length. cbn [List.length].
      (* the dial was not Gone and is Gone now *)
      unfold get_dial in Hd. clear - Hd Hst. revert rid Hd. generalize (dials s). unfold gone.
      induction l as [|d0 l IH]; intros [|r] H; cbn in H; try discriminate.
      * inversion H; subst d0. assert (E1 : is_gone_d d = false) by (unfold is_gone_d; rewrite Hst; reflexivity).
        assert (E2 : is_gone_d (d_set_stage DGone d) = true) by reflexivity. cbn [upd_nth filter]. rewrite E1, E2. cbn [List.length]. lia.
      * specialize (IH r H). cbn [upd_nth filter]. destruct (is_gone_d d0); cbn [List.length]; lia.
  - apply Qt_upd_dial. intros d0 _ E. reflexivity.
  - apply Qt_upd_dial. intros d0 _ E. reflexivity.
Qed.

(* ---------------------------------------------------------------- the scheduler's own steps *)
Lemma Sd_spawn rd tk s : Sd rd s (spawn tk s).
Proof.
  constructor; unfold spawn; cbn [tasks runq conns dials set_tasks set_runq]; auto; try lia.
  - intros tid c t H. destruct (Nat.lt_ge_cases tid (List.length (tasks s))) as [Hl|Hl]; [left; rewrite app_nth1 in H by exact Hl; exact H|].
    right. rewrite app_nth2 in H by exact Hl. destruct (tid - List.length (tasks s)) as [|[|k]] eqn:E; cbn in H; try discriminate.
    apply in_or_app. right. left. lia.
  - intros tid H. apply in_or_app. left. exact H.
Qed.
Lemma Sd_finish_task rd tid s : Sd rd s (finish_task tid s).
Proof.
  constructor; unfold finish_task; cbn [tasks runq conns dials set_tasks]; auto; try lia.
  intros tid' c t H. left. destruct (Nat.eq_dec tid tid') as [<-|Hne]; [|rewrite nth_upd_nth_other in H by exact Hne; exact H].
  destruct (Nat.lt_ge_cases tid (List.length (tasks s))) as [Hl|Hl]; [rewrite nth_upd_nth_same in H by exact Hl; discriminate|].
  rewrite nth_overflow in H by (rewrite upd_nth_length; exact Hl). discriminate.
Qed.
Lemma Sd_wake_task rd t s : Sd rd s (wake_task t s).
Proof.
  unfold wake_task. destruct (existsb (Nat.eqb t) (runq s)); [apply Sd_refl|].
  constructor; cbn [tasks runq conns dials set_runq]; auto; try lia. intros tid H. apply in_or_app. left. exact H.
Qed.
Lemma Sd_wake_tasks rd l : forall s, Sd rd s (wake_tasks l s).
Proof. induction l as [|t l IH]; intros s; cbn [wake_tasks]; [apply Sd_refl|]. eapply Sd_trans; [apply Sd_wake_task|apply IH]. Qed.

Lemma In_wake_tasks l : forall s tid, In tid l -> In tid (runq (wake_tasks l s)).
Proof.
  induction l as [|t l IH]; intros s tid H; [destruct H|]. cbn [wake_tasks]. destruct H as [->|H]; [|apply IH; exact H].
  apply (d_runq _ _ _ (Sd_wake_tasks true l (wake_task tid s))). apply In_wake_task.
Qed.

Lemma Sd_upd_conn rd c f s :
  (forall cn, incl (c_waiters cn) (c_waiters (f cn)) /\ (rd = true -> c_ready cn = true -> c_ready (f cn) = true)) -> Sd rd s (upd_conn c f s).
Proof.
  intros Hf. constructor; auto.
  - intros c' tid H. left. unfold waiters in *. rewrite get_conn_upd_conn. destruct (Nat.eqb_spec c c') as [<-|]; [|exact H].
    destruct (get_conn s c) as [cn|]; cbn; [apply (proj1 (Hf cn)); exact H|exact H].
  - cbn [conns dials upd_conn set_conns]. rewrite upd_nth_length. lia.
  - intros E c' H. unfold rdy in *. rewrite get_conn_upd_conn. destruct (Nat.eqb_spec c c') as [<-|]; [|exact H].
    destruct (get_conn s c) as [cn|]; cbn; [apply (proj2 (Hf cn) E); exact H|exact H].
Qed.

Lemma Sd_drain_conn_waiters rd c s : Sd rd s (drain_conn_waiters c s).
Proof.
  unfold drain_conn_waiters. destruct (get_conn s c) as [cn|] eqn:Hc; [|apply Sd_refl].
  set (s1 := upd_conn c (c_set_waiters []) s).
  pose proof (Sd_wake_tasks rd (c_waiters cn) s1) as H2. destruct H2 as [B1 B2 B3 B4 B5].
  constructor.
  - intros tid c' t H. apply B1 in H. exact H.
  - intros tid H. apply B2. exact H.
  - intros c' tid H. destruct (Nat.eq_dec c c') as [<-|Hne].
    + right. apply In_wake_tasks. unfold waiters in H. rewrite Hc in H. exact H.
    + apply B3. unfold waiters, s1 in *. rewrite get_conn_upd_conn. destruct (Nat.eqb_spec c c'); [congruence|exact H].
  - unfold s1 in B4. cbn [conns dials upd_conn set_conns] in B4. rewrite upd_nth_length in B4. exact B4.
  - intros E c' H. apply (B5 E). unfold rdy, s1 in *. rewrite get_conn_upd_conn. destruct (Nat.eqb_spec c c') as [<-|]; [|exact H].
    rewrite Hc in *. exact H.
Qed.

(* ---------------------------------------------------------------- composites *)
Lemma Sd_Qt rd s s' s'' : Qt s s' -> Sd rd s' s'' -> Sd rd s s''.
Proof. intros H1 H2. eapply Sd_trans; [apply Sd_of_Qt; exact H1|exact H2]. Qed.

Lemma Sd_pooled_drop rd p s : Sd rd s (pooled_drop p s).
Proof. unfold pooled_drop. destruct p as [c t]. destruct (share_of s c); [apply Sd_of_Qt; apply Qt_drop_conn|apply Sd_spawn]. Qed.
Lemma Sd_rx_drop rd ck s : Sd rd s (snd (rx_drop ck s)).
Proof. unfold rx_drop. destruct (k_waiter ck), (k_slot ck); cbn [snd]; try apply Sd_refl; apply Sd_pooled_drop. Qed.

Lemma Sd_checkout_poll rd cfg rid ck s : Sd rd s (snd (checkout_poll cfg rid ck s)).
Proof.
  unfold checkout_poll. destruct (waiter_poll ck) as [w ck1]. destruct w as [|p|]; cbn [snd]; try apply Sd_refl.
  destruct (k_inner ck1); cbn [snd]; try apply Sd_refl.
  1: { destruct (k_conn ck1) as [c|]; cbn [snd]; [|apply Sd_refl].
       pose proof (Sd_rx_drop rd (k_set_conn None ck1) s) as H2. destruct (rx_drop (k_set_conn None ck1) s) as [ck2 s2]. cbn [snd] in H2.
       pose proof (Qt_register cfg (k_token ck2) c (set_req rid (RCheckout ck2) s2)) as H4.
       destruct (register cfg (k_token ck2) c (set_req rid (RCheckout ck2) s2)) as [p s3]. cbn [snd] in *.
       eapply Sd_trans; [exact H2|]. apply Sd_of_Qt. eapply Qt_trans; [apply Qt_set_req|exact H4]. }
  all: pose proof (Qt_connector_poll rid ByReq s) as H1; destruct (connector_poll rid ByReq s) as [r s1]; cbn [snd] in H1;
    (destruct r as [|res]; cbn [snd]; [apply Sd_of_Qt; exact H1|]);
    pose proof (Sd_rx_drop rd ck1 s1) as H2; destruct (rx_drop ck1 s1) as [ck2 s2]; cbn [snd] in H2;
    assert (H3 : Sd rd s (set_req rid (RCheckout (k_set_inner IConnected ck2)) s2))
      by (eapply Sd_Qt; [exact H1|]; eapply Sd_trans; [exact H2|apply Sd_of_Qt; apply Qt_set_req]);
    (destruct res as [c|e]; cbn [snd]; [|exact H3]);
    pose proof (Qt_register cfg (k_token (k_set_inner IConnected ck2)) c (set_req rid (RCheckout (k_set_inner IConnected ck2)) s2)) as H4;
    destruct (register cfg (k_token (k_set_inner IConnected ck2)) c (set_req rid (RCheckout (k_set_inner IConnected ck2)) s2)) as [p s3];
    cbn [snd] in *; eapply Sd_trans; [exact H3|apply Sd_of_Qt; exact H4].
Qed.

Lemma Sd_checkout_drop rd cfg rid ck s : Sd rd s (checkout_drop cfg rid ck s).
Proof.
  unfold checkout_drop.
  set (s1 := match k_conn ck with
             | Some c => if is_open s c && (g_pool cfg && negb (k_token ck =? 0)) then pool_push (g_max_idle cfg) (k_token ck) c s else drop_conn c s
             | None => s end).
  assert (H1 : Qt s s1).
  { subst s1. destruct (k_conn ck) as [c|]; [|apply Qt_refl].
    destruct (is_open s c && (g_pool cfg && negb (k_token ck =? 0))); [apply Qt_pool_push|apply Qt_drop_conn]. }
  set (started := match get_dial s1 rid with Some d => match d_stage d with DNew => false | _ => true end | None => false end).
  set (delayed := match k_inner ck with IDelayDrop => started | _ => false end).
  set (s2 := if delayed then spawn (TDelayed rid (k_token ck) (k_owner ck)) s1
             else if g_pool cfg && negb (k_token ck =? 0) && k_owner ck then pool_cancel (k_token ck) rid s1 else s1).
  assert (H2 : Sd rd s1 s2).
  { subst s2. destruct delayed; [apply Sd_spawn|].
    destruct (g_pool cfg && negb (k_token ck =? 0) && k_owner ck); [apply Sd_of_Qt; apply Qt_pool_cancel|apply Sd_refl]. }
  pose proof (Sd_rx_drop rd ck s2) as H3. destruct (rx_drop ck s2) as [ck' s3]. cbn [snd] in H3.
  assert (H4 : Sd rd s s3) by (eapply Sd_Qt; [exact H1|]; eapply Sd_trans; [exact H2|exact H3]).
  assert (H5 : Sd rd s (upd_dial rid (d_set_stage DGone) s3)).
  { eapply Sd_trans; [exact H4|]. apply Sd_of_Qt. apply Qt_upd_dial. intros d _ _. reflexivity. }
  destruct (k_inner ck); try exact H4; try exact H5. destruct delayed; [exact H4|exact H5].
Qed.

Lemma Sd_hold_release rd r p s : Sd rd s (hold_release r p s).
Proof.
  unfold hold_release.
  set (s1 := upd_conn (fst p) (fun cn => c_set_holders (pred (c_holders cn)) cn) s).
  assert (H1 : Qt s s1) by (apply Qt_upd_conn; intros cn; split; reflexivity).
  eapply Sd_Qt; [exact H1|]. eapply Sd_Qt; [apply (Qt_emit (ERel r (fst p)) s1)|apply Sd_pooled_drop].
Qed.

Lemma Sd_do_poll cfg r s : Sd false s (do_poll cfg r s).
Proof.
  unfold do_poll. destruct (get_req s r) as [[|ck|p fin pl| |]|]; try apply Sd_refl.
  - apply Sd_of_Qt. eapply Qt_trans; [apply Qt_unwake_req|]. eapply Qt_trans; [apply Qt_emit|apply Qt_set_req].
  - pose proof (Sd_checkout_poll false cfg r ck (unwake_req r s)) as H2.
    destruct (checkout_poll cfg r ck (unwake_req r s)) as [[res ck1] s2]. cbn [snd] in H2.
    assert (H2' : Sd false s s2) by (eapply Sd_Qt; [apply Qt_unwake_req|exact H2]).
    destruct res as [|[p|e]].
    + eapply Sd_trans; [exact H2'|]. apply Sd_of_Qt. eapply Qt_trans; [apply Qt_set_req|apply Qt_emit].
    + destruct (match get_conn s2 (fst p) with Some cn => (c_share cn, c_open cn, c_ready cn, c_holders cn) | None => (false, false, false, 0) end)
        as [[[sh op_] rd] hs].
      eapply Sd_trans; [exact H2'|]. eapply Sd_Qt; [apply Qt_emit|].
      eapply Sd_trans; [apply (Sd_upd_conn false (fst p) (fun cn => c_set_holders (S (c_holders cn)) (if sh then cn else c_set_ready false cn)));
                        intros cn; split; [destruct sh; apply incl_refl|intros E; discriminate]|].
      eapply Sd_Qt; [apply Qt_set_req|]. eapply Sd_trans; [apply Sd_checkout_drop|apply Sd_of_Qt; apply Qt_emit].
    + eapply Sd_trans; [exact H2'|]. eapply Sd_Qt; [apply Qt_set_req|]. eapply Sd_trans; [apply Sd_checkout_drop|apply Sd_of_Qt; apply Qt_emit].
  - eapply Sd_Qt; [apply Qt_unwake_req|]. destruct fin.
    + eapply Sd_Qt; [apply Qt_set_req|]. eapply Sd_trans; [apply Sd_hold_release|apply Sd_of_Qt; apply Qt_emit].
    + apply Sd_of_Qt. eapply Qt_trans; [apply Qt_set_req|apply Qt_emit].
Qed.

Lemma Sd_do_cancel rd cfg r s : Sd rd s (do_cancel cfg r s).
Proof.
  unfold do_cancel. destruct (get_req s r) as [[|ck|p fin pl| |]|]; try apply Sd_refl; try (apply Sd_of_Qt; apply Qt_unwake_req).
  - apply Sd_of_Qt. eapply Qt_trans; [apply Qt_set_req|apply Qt_unwake_req].
  - eapply Sd_Qt; [apply Qt_set_req|]. eapply Sd_trans; [apply Sd_checkout_drop|apply Sd_of_Qt; apply Qt_unwake_req].
  - eapply Sd_Qt; [apply Qt_set_req|]. eapply Sd_trans; [apply Sd_hold_release|apply Sd_of_Qt; apply Qt_unwake_req].
Qed.

Lemma Qt_do_finish r s : Qt s (do_finish r s).
Proof.
  unfold do_finish. destruct (get_req s r) as [[|ck|p fin pl| |]|]; try apply Qt_refl.
  destruct pl; [eapply Qt_trans; [apply Qt_set_req|apply Qt_wake_req]|apply Qt_set_req].
Qed.
Lemma Sd_do_upgrade rd r s : Sd rd s (do_upgrade r s).
Proof.
  unfold do_upgrade. destruct (get_req s r) as [[|ck|p fin pl| |]|]; try apply Sd_refl.
  eapply Sd_Qt; [apply (Qt_upd_conn (fst p) (c_set_open false) s); intros cn; split; reflexivity|apply Sd_drain_conn_waiters].
Qed.
Lemma Sd_do_conn_close rd c s : Sd rd s (do_conn_close c s).
Proof.
  unfold do_conn_close. destruct (get_conn s c); [|apply Sd_refl].
  eapply Sd_Qt; [apply (Qt_upd_conn c (c_set_open false) s); intros cn; split; reflexivity|apply Sd_drain_conn_waiters].
Qed.
Lemma Sd_do_conn_ready rd c s : Sd rd s (do_conn_ready c s).
Proof.
  unfold do_conn_ready. destruct (get_conn s c); [|apply Sd_refl].
  eapply Sd_trans; [apply (Sd_upd_conn rd c (c_set_ready true) s); intros cn; split; [apply incl_refl|reflexivity]|apply Sd_drain_conn_waiters].
Qed.
Lemma Sd_do_dial_done rd r y s : Sd rd s (do_dial_done r y s).
Proof.
  unfold do_dial_done. destruct (get_dial s r) as [d|] eqn:Hd; [|apply Sd_refl]. destruct (d_stage d) eqn:Hst; try apply Sd_refl.
  eapply Sd_Qt.
  - apply Qt_upd_dial. intros d0 E0 E. rewrite Hd in E0. inversion E0; subst d0.
    unfold is_gone_d in E. rewrite Hst in E. discriminate.
  - destruct (d_polled d) as [[|tid]|]; cbn [wake_poller]; [apply Sd_of_Qt; apply Qt_wake_req|apply Sd_wake_task|apply Sd_refl].
Qed.
Lemma Qt_do_issue cfg u p s : Qt s (do_issue cfg u p s).
Proof.
  unfold do_issue. cbv zeta.
  assert (Hadd : forall st rq d, Qt st (set_dials (dials st ++ [d]) (set_reqs (reqs st ++ [rq]) st))).
  { intros st rq d. constructor; try reflexivity. cbn [conns dials set_dials set_reqs]. rewrite gone_app. lia. }
  assert (H0 : Qt s (set_woken (woken s ++ [false]) s)) by qs.
  destruct (nth u (g_uris cfg) None) as [k|]; [|eapply Qt_trans; [exact H0|apply Hadd]].
  destruct (negb (g_pool cfg)); [eapply Qt_trans; [exact H0|apply Hadd]|].
  pose proof (Qt_key_insert k (set_woken (woken s ++ [false]) s)) as H1. destruct (key_insert k _) as [t s1]. cbn [snd] in H1.
  pose proof (Qt_pool_pop (g_timeout cfg) t s1) as H2. destruct (pool_pop (g_timeout cfg) t s1) as [found s2]. cbn [snd] in H2.
  assert (H2' : Qt s s2) by (eapply Qt_trans; [exact H0|]; eapply Qt_trans; [exact H1|exact H2]).
  destruct found as [c|]; [eapply Qt_trans; [exact H2'|apply Hadd]|].
  destruct (match p_marker (get_tok s2 t) with Some _ => true | None => false end).
  - eapply Qt_trans; [exact H2'|]. eapply Qt_trans; [apply Qt_upd_tok|apply Hadd].
  - eapply Qt_trans; [exact H2'|]. eapply Qt_trans; [apply Qt_upd_tok|].
    destruct p; [apply Hadd|eapply Qt_trans; [apply Qt_upd_tok|apply Hadd]].
Qed.

(* ---------------------------------------------------------------- the invariants *)
Definition TW (s : state) : Prop :=
  forall tid c t, nth tid (tasks s) None = Some (TWhenReady c t) -> In tid (runq s) \/ In tid (waiters s c).
Definition GN (s : state) : Prop := List.length (conns s) <= gone (dials s).

Lemma TW_Sd rd s s' : TW s -> Sd rd s s' -> TW s'.
Proof.
  intros H [A1 A2 A3 A4 A5] tid c t E. destruct (A1 _ _ _ E) as [E0|E0]; [|left; exact E0].
  destruct (H _ _ _ E0) as [H1|H1]; [left; auto|]. destruct (A3 _ _ H1); auto.
Qed.
Lemma GN_Sd rd s s' : GN s -> Sd rd s s' -> GN s'.
Proof. unfold GN. intros H [A1 A2 A3 A4 A5]. lia. Qed.

Lemma Sd_run_task rd cfg tid s : Sd rd s (run_task cfg tid s).
Proof.
  unfold run_task. destruct (nth tid (tasks s) None) as [[c t|rid t own]|]; [| |apply Sd_refl].
  - destruct (get_conn s c) as [cn|]; [|apply Sd_finish_task].
    assert (Hfin : forall e, Sd rd s (let s0 := finish_task tid (emit e s) in
               if is_open s0 c && negb (t =? 0) && g_pool cfg then pool_push (g_max_idle cfg) t c s0 else drop_conn c s0)).
    { intros e. cbv zeta. eapply Sd_Qt; [apply (Qt_emit e s)|]. eapply Sd_trans; [apply Sd_finish_task|].
      apply Sd_of_Qt. destruct (is_open _ c && negb (t =? 0) && g_pool cfg); [apply Qt_pool_push|apply Qt_drop_conn]. }
    destruct (negb (c_open cn)); [apply Hfin|]. destruct (c_share cn || c_ready cn); [apply Hfin|].
    apply (Sd_upd_conn rd c (fun cn0 => c_set_waiters (c_waiters cn0 ++ [tid]) cn0) s). intros cn0. split; [|auto].
    cbn. intros y Hy. apply in_or_app. left. exact Hy.
  - pose proof (Qt_connector_poll rid (ByTask tid) s) as H1. destruct (connector_poll rid (ByTask tid) s) as [r s1]. cbn [snd] in H1.
    destruct r as [|[c|e]]; [apply Sd_of_Qt; exact H1| |].
    + pose proof (Qt_register cfg t c s1) as H2. destruct (register cfg t c s1) as [p s2]. cbn [snd] in H2.
      eapply Sd_Qt; [exact H1|]. eapply Sd_Qt; [exact H2|].
      eapply Sd_Qt; [|eapply Sd_trans; [apply Sd_finish_task|apply Sd_pooled_drop]].
      destruct (g_pool cfg && negb (t =? 0) && own); [apply Qt_pool_cancel|apply Qt_refl].
    + eapply Sd_Qt; [exact H1|]. eapply Sd_Qt; [|apply Sd_finish_task].
      destruct (g_pool cfg && negb (t =? 0) && own); [apply Qt_pool_cancel|apply Qt_refl].
Qed.

(* a hand-back task that ran and is still there has parked itself at its connection *)
Lemma run_task_self cfg tid c t s :
  nth tid (tasks s) None = Some (TWhenReady c t) -> nth tid (tasks (run_task cfg tid s)) None = Some (TWhenReady c t) ->
  In tid (waiters (run_task cfg tid s) c).
Proof.
  intros Ht. unfold run_task. rewrite Ht.
  assert (Hgone : forall st, nth tid (tasks (finish_task tid st)) None = None).
  { intros st. unfold finish_task. cbn [tasks set_tasks]. destruct (Nat.lt_ge_cases tid (List.length (tasks st))) as [Hl|Hl].
    - rewrite nth_upd_nth_same by exact Hl. reflexivity.
    - rewrite nth_overflow by (rewrite upd_nth_length; exact Hl). reflexivity. }
  destruct (get_conn s c) as [cn|] eqn:Hc; [|rewrite Hgone; discriminate].
  assert (Hfin : forall e, nth tid (tasks (let s0 := finish_task tid (emit e s) in
               if is_open s0 c && negb (t =? 0) && g_pool cfg then pool_push (g_max_idle cfg) t c s0 else drop_conn c s0)) None = None).
  { intros e. cbv zeta. destruct (is_open _ c && negb (t =? 0) && g_pool cfg);
      [rewrite (q_tasks _ _ (Qt_pool_push _ _ _ _))|rewrite (q_tasks _ _ (Qt_drop_conn _ _))]; apply Hgone. }
  destruct (negb (c_open cn)); [rewrite Hfin; discriminate|]. destruct (c_share cn || c_ready cn); [rewrite Hfin; discriminate|].
  intros _. unfold waiters. rewrite get_conn_upd_conn, Nat.eqb_refl, Hc. cbn. apply in_or_app. right. left. reflexivity.
Qed.

Lemma TW_bg_step cfg tid rest s : TW s -> runq s = tid :: rest -> TW (run_task cfg tid (set_runq rest s)).
Proof.
  intros H Hq. set (s0 := set_runq rest s). pose proof (Sd_run_task true cfg tid s0) as HS.
  intros tid' c t E. destruct (d_new _ _ _ HS _ _ _ E) as [E0|E0]; [|left; exact E0].
  destruct (Nat.eq_dec tid' tid) as [->|Hne]; [right; apply (run_task_self cfg tid c t s0 E0 E)|].
  destruct (H tid' c t E0) as [H1|H1].
  - left. apply (d_runq _ _ _ HS). rewrite Hq in H1. destruct H1 as [H1|H1]; [congruence|exact H1].
  - destruct (d_wait _ _ _ HS c tid' H1); auto.
Qed.

Lemma TW_GN_bg_loop cfg fuel : forall s, TW s -> GN s -> TW (bg_loop cfg fuel s) /\ GN (bg_loop cfg fuel s).
Proof.
  induction fuel as [|f IH]; intros s H1 H2; cbn [bg_loop]; [auto|].
  destruct (runq s) as [|tid rest] eqn:Hq; [auto|]. apply IH; [apply TW_bg_step; assumption|].
  eapply GN_Sd; [|apply (Sd_run_task true cfg tid (set_runq rest s))]. exact H2.
Qed.

Lemma TW_GN_step cfg s o : TW s -> GN s -> TW (step cfg s o) /\ GN (step cfg s o).
Proof.
  intros H1 H2. unfold step.
  assert (H10 : TW (set_out [] s)) by exact H1. assert (H20 : GN (set_out [] s)) by exact H2.
  assert (Hs : forall rd s', Sd rd (set_out [] s) s' -> TW s' /\ GN s') by (intros rd s' HS; split; [eapply TW_Sd|eapply GN_Sd]; eauto).
  destruct o as [u p|r|r|r|r|r y|c|c| |dt].
  - apply (Hs true). apply Sd_of_Qt. apply Qt_do_issue.
  - apply (Hs false). apply Sd_do_poll.
  - apply (Hs true). apply Sd_do_cancel.
  - apply (Hs true). apply Sd_of_Qt. apply Qt_do_finish.
  - apply (Hs true). apply Sd_do_upgrade.
  - apply (Hs true). apply Sd_do_dial_done.
  - apply (Hs true). apply Sd_do_conn_ready.
  - apply (Hs true). apply Sd_do_conn_close.
  - unfold do_bg. apply TW_GN_bg_loop; assumption.
  - apply (Hs true). apply Sd_of_Qt. qs.
Qed.

Theorem TW_GN_run cfg ops : TW (run cfg ops) /\ GN (run cfg ops).
Proof.
  unfold run. assert (H : TW init /\ GN init) by (split; [intros [|tid] c t E; discriminate E|unfold GN; cbn; lia]).
  revert H. generalize init. induction ops as [|o ops IH]; intros s [H1 H2]; cbn [fold_left]; [auto|]. apply IH. apply TW_GN_step; assumption.
Qed.
