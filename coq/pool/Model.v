(* M-POOL: executable model of the client connection pool, as read off
     src/client/pool/mod.rs      Pool::checkout, PoolInner::{push, pop, cancel_connection}, Pooled::drop,
                                 WhenReady::{poll, drop}
     src/client/pool/checkout.rs Waiting::poll, Checkout::{new, detached, poll, as_delayed}, register_connected,
                                 PinnedDrop for Checkout
     src/client/pool/idle.rs     IdleConnections::{push, pop}
     src/client/pool/key.rs      TokenMap::insert, UriKey (scheme, authority)
     src/client/pool/service.rs  ConnectionPoolService::{call, connect_to}, ResponseFuture::poll
     src/client/conn/connector.rs Connector::poll_connector (staging; `shareable` is constantly false)
   after the repairs D3 (9e0bb9e), D5 (1bf31d6), D7 (9bebd46), D4 (ab48742), D15 (f10f40c), D16 (fecaf88), D17 (bca9b9b).  D6 is still in the code
   and therefore in the model.
   One [op] is one atomic step of a single-threaded schedule: the pool mutex makes
   checkout/push/pop/cancel atomic, and one poll of a request future is atomic on a current-thread
   runtime (DESIGN.md 3.1).  Environment: dials resolve, connections become ready / are closed by the
   peer, the inner service finishes, time passes, the runtime runs spawned tasks ([Bg]).
   Oracles: O1 (a non-multiplexed connection is open iff open && ready; a multiplexed one iff open),
   O2 (tokio oneshot), O3 (current-thread run queue is FIFO). *)
From HD Require Import common.Base http.Model.
Local Open Scope string_scope.

Definition key := (string * string)%type.          (* scheme, authority *)
Definition key_eqb (a b : key) : bool := eq_ci (fst a) (fst b) && eq_ci (snd a) (snd b).

Inductive proto := H1 | H2.
Inductive dres := DOk (alpn : bool) | DErrConnect | DErrHandshake.
Inductive dstage := DNew | DInFlight | DResolved (r : dres) | DGone.
Inductive poller := ByReq | ByTask (tid : nat).
(* [d_uri] is a ghost: the scheme/authority of the request's URI (None: no scheme), kept for the proofs *)
Record dial := mkDial { d_stage : dstage; d_proto : proto; d_key : key; d_uri : option key; d_polled : option poller }.

Inductive err := EConn | EHs | EUnavail | EUri.
Inductive rres := ROk | RErr (e : err).

Definition pooled := (nat * nat)%type.              (* connection id, token (0 = the zero token) *)

Inductive waiter := WIdle | WConnecting | WNoPool.
Inductive inner := IWaiting | IConnected | IConnecting | IDelayDrop | IDelayed.
Record checkout := mkCk {
  k_token : nat; k_waiter : waiter; k_inner : inner; k_conn : option nat;
  k_owner : bool;              (* it marked its attempt as in progress (Checkout::owns_attempt) *)
  k_slot : option pooled;      (* message sitting in the oneshot channel *)
  k_txdropped : bool;          (* sender dropped without sending *)
  k_rxpolled : bool            (* receiver has registered the request's waker *)
}.

Inductive req :=
| RError
| RCheckout (ck : checkout)
| RHolding (p : pooled) (fin : bool) (polled : bool)
| RDone | RCancelled.

Record conn := mkConn {
  c_origin : nat;              (* the dial (= request id) that created it *)
  c_share : bool; c_open : bool; c_ready : bool;
  c_refs : nat; c_holders : nat;
  c_waiters : list nat         (* tasks parked in poll_ready *)
}.

Inductive task := TWhenReady (c : nat) (tok : nat) | TDelayed (rid : nat) (tok : nat) (owner : bool).

(* a queued waiter: request id, and whether it waits for the attempt that was in progress when it was
   created (Waiter::pending_attempt) *)
(* [p_marker]: the in-progress mark of a multiplexed connection attempt, with the id of the attempt
   (= the request that set it) so that only its owner clears it (D17 repaired) *)
Record ptok := mkTok { p_idle : list (nat * N); p_waiting : list (nat * bool); p_marker : option nat }.
Definition empty_tok := mkTok [] [] None.

Record config := mkCfg { g_pool : bool; g_timeout : option N; g_max_idle : nat; g_cont : bool;
                         g_uris : list (option key) }.

Inductive ev :=
| EDial (r : nat) (k : key)
| ENew (c : nat) (share : bool) (r : nat)
| EHand (r c : nat) (reused open ready : bool) (holders : nat)
| EPend (r : nat)
| ERes (r : nat) (x : rres)
| ERel (r c : nat)
| EDrop (c : nat)
| ERdy (c : nat) (ok : bool).

Record state := mkSt {
  now : N;
  keys : list key;             (* token t (>= 1) is position t-1 *)
  toks : list ptok;            (* same indexing *)
  conns : list conn;
  reqs : list req;
  dials : list dial;           (* index = request id *)
  woken : list bool;           (* index = request id *)
  tasks : list (option task);  (* index = task id; None = finished *)
  runq : list nat;
  out : list ev                (* events of the current op, newest first *)
}.

Definition init : state := mkSt 1000000 [] [] [] [] [] [] [] [] [].

(* ---------------------------------------------------------------- setters *)
Definition set_now v s := mkSt v (keys s) (toks s) (conns s) (reqs s) (dials s) (woken s) (tasks s) (runq s) (out s).
Definition set_keys v s := mkSt (now s) v (toks s) (conns s) (reqs s) (dials s) (woken s) (tasks s) (runq s) (out s).
Definition set_toks v s := mkSt (now s) (keys s) v (conns s) (reqs s) (dials s) (woken s) (tasks s) (runq s) (out s).
Definition set_conns v s := mkSt (now s) (keys s) (toks s) v (reqs s) (dials s) (woken s) (tasks s) (runq s) (out s).
Definition set_reqs v s := mkSt (now s) (keys s) (toks s) (conns s) v (dials s) (woken s) (tasks s) (runq s) (out s).
Definition set_dials v s := mkSt (now s) (keys s) (toks s) (conns s) (reqs s) v (woken s) (tasks s) (runq s) (out s).
Definition set_woken v s := mkSt (now s) (keys s) (toks s) (conns s) (reqs s) (dials s) v (tasks s) (runq s) (out s).
Definition set_tasks v s := mkSt (now s) (keys s) (toks s) (conns s) (reqs s) (dials s) (woken s) v (runq s) (out s).
Definition set_runq v s := mkSt (now s) (keys s) (toks s) (conns s) (reqs s) (dials s) (woken s) (tasks s) v (out s).
Definition set_out v s := mkSt (now s) (keys s) (toks s) (conns s) (reqs s) (dials s) (woken s) (tasks s) (runq s) v.

Definition emit (e : ev) (s : state) : state := set_out (e :: out s) s.

Fixpoint upd_nth {A} (n : nat) (f : A -> A) (l : list A) : list A :=
  match l, n with
  | [], _ => []
  | x :: t, O => f x :: t
  | x :: t, S n' => x :: upd_nth n' f t
  end.

Definition get_conn s c := nth_error (conns s) c.
Definition upd_conn c f s := set_conns (upd_nth c f (conns s)) s.
Definition get_req s r := nth_error (reqs s) r.
Definition set_req r v s := set_reqs (upd_nth r (fun _ => v) (reqs s)) s.
Definition get_dial s r := nth_error (dials s) r.
Definition upd_dial r f s := set_dials (upd_nth r f (dials s)) s.
Definition get_tok s t : ptok := match t with O => empty_tok | S i => nth i (toks s) empty_tok end.
Definition upd_tok t f s := match t with O => s | S i => set_toks (upd_nth i f (toks s)) s end.

Definition set_idle v (p : ptok) := mkTok v (p_waiting p) (p_marker p).
Definition set_waiting v (p : ptok) := mkTok (p_idle p) v (p_marker p).
Definition set_marker v (p : ptok) := mkTok (p_idle p) (p_waiting p) v.

Definition c_set_refs v (c : conn) := mkConn (c_origin c) (c_share c) (c_open c) (c_ready c) v (c_holders c) (c_waiters c).
Definition c_set_open v (c : conn) := mkConn (c_origin c) (c_share c) v (c_ready c) (c_refs c) (c_holders c) (c_waiters c).
Definition c_set_ready v (c : conn) := mkConn (c_origin c) (c_share c) (c_open c) v (c_refs c) (c_holders c) (c_waiters c).
Definition c_set_holders v (c : conn) := mkConn (c_origin c) (c_share c) (c_open c) (c_ready c) (c_refs c) v (c_waiters c).
Definition c_set_waiters v (c : conn) := mkConn (c_origin c) (c_share c) (c_open c) (c_ready c) (c_refs c) (c_holders c) v.

Definition k_set_waiter v (k : checkout) := mkCk (k_token k) v (k_inner k) (k_conn k) (k_owner k) (k_slot k) (k_txdropped k) (k_rxpolled k).
Definition k_set_inner v (k : checkout) := mkCk (k_token k) (k_waiter k) v (k_conn k) (k_owner k) (k_slot k) (k_txdropped k) (k_rxpolled k).
Definition k_set_conn v (k : checkout) := mkCk (k_token k) (k_waiter k) (k_inner k) v (k_owner k) (k_slot k) (k_txdropped k) (k_rxpolled k).
Definition k_set_slot v (k : checkout) := mkCk (k_token k) (k_waiter k) (k_inner k) (k_conn k) (k_owner k) v (k_txdropped k) (k_rxpolled k).
Definition k_set_rxpolled v (k : checkout) := mkCk (k_token k) (k_waiter k) (k_inner k) (k_conn k) (k_owner k) (k_slot k) (k_txdropped k) v.

Definition k_set_txdropped v (k : checkout) := mkCk (k_token k) (k_waiter k) (k_inner k) (k_conn k) (k_owner k) (k_slot k) v (k_rxpolled k).

Definition d_set_stage v (d : dial) := mkDial v (d_proto d) (d_key d) (d_uri d) (d_polled d).
Definition d_set_polled v (d : dial) := mkDial (d_stage d) (d_proto d) (d_key d) (d_uri d) v.

(* ---------------------------------------------------------------- connections *)
Definition share_of s c := match get_conn s c with Some cn => c_share cn | None => false end.
(* PoolableConnection::is_open (O1) *)
Definition is_open s c :=
  match get_conn s c with
  | Some cn => if c_share cn then c_open cn else c_open cn && c_ready cn
  | None => false
  end.

(* a handle is dropped *)
Definition drop_conn c s :=
  match get_conn s c with
  | None => s
  | Some cn =>
      let s' := upd_conn c (c_set_refs (pred (c_refs cn))) s in
      if Nat.eqb (pred (c_refs cn)) 0 then emit (EDrop c) s' else s'
  end.

Definition clone_conn c s := upd_conn c (fun cn => c_set_refs (S (c_refs cn)) cn) s.

(* ---------------------------------------------------------------- tasks and wakers *)
Definition spawn (tk : task) s :=
  let id := List.length (tasks s) in
  set_runq (runq s ++ [id]) (set_tasks (tasks s ++ [Some tk]) s).

Definition wake_task tid s :=
  if existsb (Nat.eqb tid) (runq s) then s else set_runq (runq s ++ [tid]) s.

Definition wake_req r s := set_woken (upd_nth r (fun _ => true) (woken s)) s.
Definition unwake_req r s := set_woken (upd_nth r (fun _ => false) (woken s)) s.

Definition wake_poller (p : option poller) (r : nat) s :=
  match p with
  | Some ByReq => wake_req r s
  | Some (ByTask tid) => wake_task tid s
  | None => s
  end.

(* Pooled::drop *)
Definition pooled_drop (p : pooled) s :=
  let '(c, t) := p in
  if share_of s c then drop_conn c s else spawn (TWhenReady c t) s.

(* ---------------------------------------------------------------- the pool proper *)
(* is the receiver of request w's channel alive?  (Sender::is_closed = negation) *)
Definition rx_live s w :=
  match get_req s w with
  | Some (RCheckout ck) => match k_waiter ck with WNoPool => false | _ => true end
  | _ => false
  end.

Definition deliver w (p : pooled) s :=
  match get_req s w with
  | Some (RCheckout ck) =>
      let s' := set_req w (RCheckout (k_set_slot (Some p) ck)) s in
      if k_rxpolled ck then wake_req w s' else s'
  | _ => s
  end.

(* the waiter walk of PoolInner::push; returns the remaining queue, whether the connection was
   moved to a waiter, and the state *)
Fixpoint walk_waiters (t c : nat) (share : bool) (ws : list (nat * bool)) s : list (nat * bool) * bool * state :=
  match ws with
  | [] => ([], false, s)
  | (w, _) :: rest =>
      if rx_live s w then
        if share then walk_waiters t c share rest (deliver w (c, 0) (clone_conn c s))
        else (rest, true, deliver w (c, t) s)
      else walk_waiters t c share rest s
  end.

(* PoolInner::push (with the max_idle_per_host bound, D7 repaired) *)
Definition pool_push (max_idle : nat) (t c : nat) s :=
  let s := if share_of s c then upd_tok t (set_marker None) s else s in   (* only a shareable connection ends the attempt *)
  let '(rest, moved, s) := walk_waiters t c (share_of s c) (p_waiting (get_tok s t)) s in
  let s := upd_tok t (set_waiting rest) s in
  if moved then s
  else if Nat.ltb (List.length (p_idle (get_tok s t))) max_idle
       then upd_tok t (fun p => set_idle (p_idle p ++ [(c, now s)]) p) s
       else drop_conn c s.

(* the sender of request w's channel is dropped without a message *)
Definition drop_sender w s :=
  match get_req s w with
  | Some (RCheckout ck) =>
      match k_waiter ck with
      | WNoPool => s
      | _ => let s' := set_req w (RCheckout (k_set_txdropped true ck)) s in
             if k_rxpolled ck then wake_req w s' else s'
      end
  | _ => s
  end.
Fixpoint release_pending (ws : list (nat * bool)) s : list (nat * bool) * state :=
  match ws with
  | [] => ([], s)
  | (w, pending) :: rest =>
      if pending then release_pending rest (drop_sender w s)
      else let '(rest', s') := release_pending rest s in ((w, pending) :: rest', s')
  end.

(* PoolInner::cancel_connection (D4, D17 repaired): called by the owner [rid] of an attempt only; if
   its mark is still there the attempt ended without a shareable connection and the checkouts waiting
   for it are released; a mark set by a later attempt is left alone *)
Definition pool_cancel t rid s :=
  match p_marker (get_tok s t) with
  | Some o =>
      if Nat.eqb o rid then
        let s := upd_tok t (set_marker None) s in
        let '(rest, s) := release_pending (p_waiting (get_tok s t)) s in
        upd_tok t (set_waiting rest) s
      else s
  | None => s
  end.

Fixpoint drop_all (l : list (nat * N)) s :=
  match l with [] => s | (c, _) :: t => drop_all t (drop_conn c s) end.

(* IdleConnections::pop on the reversed (newest first) list; returns the connection, what is left
   (still reversed) and the state after the drops *)
Fixpoint pop_loop (thr : option N) (rl : list (nat * N)) s : option nat * list (nat * N) * state :=
  match rl with
  | [] => (None, [], s)
  | (c, at_) :: rest =>
      if match thr with Some y => N.ltb at_ y | None => false end
      then (None, [], drop_all (rev rest) (drop_conn c s))
      else if is_open s c then (Some c, rest, s)
      else pop_loop thr rest (drop_conn c s)
  end.

Definition expiry_threshold (timeout : option N) (nw : N) : option N :=
  match timeout with
  | Some d => if N.ltb 0 d && N.leb d nw then Some (nw - d)%N else None
  | None => None
  end.

(* PoolInner::pop *)
Definition pool_pop (timeout : option N) (t : nat) s : option nat * state :=
  let '(r, rest, s) := pop_loop (expiry_threshold timeout (now s)) (rev (p_idle (get_tok s t))) s in
  (r, upd_tok t (set_idle (rev rest)) s).

(* TokenMap::insert *)
Fixpoint find_key (k : key) (ks : list key) (i : nat) : option nat :=
  match ks with
  | [] => None
  | k' :: t => if key_eqb k k' then Some i else find_key k t (S i)
  end.
Definition key_insert (k : key) s : nat * state :=
  match find_key k (keys s) 1 with
  | Some t => (t, s)
  | None => (S (List.length (keys s)), set_toks (toks s ++ [empty_tok]) (set_keys (keys s ++ [k]) s))
  end.

(* ---------------------------------------------------------------- checkout *)
(* register_connected *)
Definition register (cfg : config) (t c : nat) s : pooled * state :=
  if g_pool cfg && negb (Nat.eqb t 0) then
    if share_of s c then
      (* D15 repaired: a handle that was closed while it sat in the checkout is not offered / kept *)
      ((c, 0), if is_open s c then pool_push (g_max_idle cfg) t c (clone_conn c s) else s)
    else ((c, t), s)
  else ((c, t), s).

Inductive cpoll := CPending | CReady (r : nat + err).

(* Connector::poll_connector, transport and handshake folded into one environment event *)
Definition connector_poll (rid : nat) (by_ : poller) s : cpoll * state :=
  match get_dial s rid with
  | None => (CPending, s)
  | Some d =>
      match d_stage d with
      | DNew => (CPending, upd_dial rid (fun d => d_set_polled (Some by_) (d_set_stage DInFlight d))
                                    (emit (EDial rid (d_key d)) s))
      | DInFlight => (CPending, upd_dial rid (d_set_polled (Some by_)) s)
      | DResolved (DOk alpn) =>
          let c := List.length (conns s) in
          let share := match d_proto d with H2 => true | H1 => alpn end in
          let s := set_conns (conns s ++ [mkConn rid share true true 1 0 []]) s in
          (CReady (inl c), upd_dial rid (d_set_stage DGone) (emit (ENew c share rid) s))
      | DResolved DErrConnect => (CReady (inr EConn), upd_dial rid (d_set_stage DGone) s)
      | DResolved DErrHandshake => (CReady (inr EHs), upd_dial rid (d_set_stage DGone) s)
      | DGone => (CPending, s)
      end
  end.

Inductive wpoll := WPending | WConnected (p : pooled) | WContinue.

(* Waiting::poll (D3 repaired: NotReady keeps the receiver) *)
Definition waiter_poll (ck : checkout) : wpoll * checkout :=
  match k_waiter ck with
  | WNoPool => (WContinue, ck)
  | WIdle =>
      match k_slot ck with
      | Some p => (WConnected p, k_set_waiter WNoPool (k_set_slot None ck))
      | None => if k_txdropped ck then (WContinue, k_set_waiter WNoPool ck)
                else (WContinue, k_set_rxpolled true ck)
      end
  | WConnecting =>
      match k_slot ck with
      | Some p => (WConnected p, k_set_waiter WNoPool (k_set_slot None ck))
      | None => if k_txdropped ck then (WContinue, k_set_waiter WNoPool ck)
                else (WPending, k_set_rxpolled true ck)
      end
  end.

(* dropping / closing the receiver: an undelivered message is dropped with it *)
Definition rx_drop (ck : checkout) s : checkout * state :=
  match k_waiter ck, k_slot ck with
  | WNoPool, _ => (ck, s)
  | _, Some p => (k_set_waiter WNoPool (k_set_slot None ck), pooled_drop p s)
  | _, None => (k_set_waiter WNoPool ck, s)
  end.

Inductive kpoll := KPending | KReady (r : pooled + err).

(* Checkout::poll for the checkout of request [rid] *)
Definition checkout_poll (cfg : config) (rid : nat) (ck : checkout) s : kpoll * checkout * state :=
  let '(w, ck) := waiter_poll ck in
  match w with
  | WPending => (KPending, ck, s)
  | WConnected p => (KReady (inl p), ck, s)
  | WContinue =>
      match k_inner ck with
      | IWaiting => (KReady (inr EUnavail), ck, s)
      | IConnected =>
          match k_conn ck with
          | None => (KPending, ck, s)                      (* "future was polled after completion" *)
          | Some c =>
              let '(ck, s) := rx_drop (k_set_conn None ck) s in
              let s := set_req rid (RCheckout ck) s in       (* the receiver is closed before the pool is touched *)
              let '(p, s) := register cfg (k_token ck) c s in
              (KReady (inl p), ck, s)
          end
      | IConnecting | IDelayDrop | IDelayed =>
          let '(r, s) := connector_poll rid ByReq s in
          match r with
          | CPending => (KPending, ck, s)
          | CReady res =>
              let '(ck, s) := rx_drop ck s in
              let ck := k_set_inner IConnected ck in
              let s := set_req rid (RCheckout ck) s in
              match res with
              | inl c => let '(p, s) := register cfg (k_token ck) c s in (KReady (inl p), ck, s)
              | inr e => (KReady (inr e), ck, s)
              end
          end
      end
  end.

(* PinnedDrop for Checkout followed by the drop of its fields (D5 repaired) *)
Definition checkout_drop (cfg : config) (rid : nat) (ck : checkout) s : state :=
  let t := k_token ck in
  let has_pool := g_pool cfg && negb (Nat.eqb t 0) in
  let s := match k_conn ck with
           | Some c => if is_open s c && has_pool then pool_push (g_max_idle cfg) t c s else drop_conn c s
           | None => s
           end in
  (* as_delayed: only an attempt that is in progress continues in the background (D16 repaired); a
     connector that never started is dropped like one created without continue_after_preemption *)
  let started := match get_dial s rid with Some d => match d_stage d with DNew => false | _ => true end | None => false end in
  let delayed := match k_inner ck with IDelayDrop => started | _ => false end in
  let s := if delayed then spawn (TDelayed rid t (k_owner ck)) s
           else if has_pool && k_owner ck then pool_cancel t rid s else s in
  let '(_, s) := rx_drop ck s in
  match k_inner ck with
  | IConnecting | IDelayed => upd_dial rid (d_set_stage DGone) s
  | IDelayDrop => if delayed then s else upd_dial rid (d_set_stage DGone) s
  | _ => s
  end.

(* ---------------------------------------------------------------- operations *)
Inductive op :=
| Issue (u : nat) (p : proto)
| Poll (r : nat) | Cancel (r : nat) | Finish (r : nat) | Upgrade (r : nat)
| DialDone (r : nat) (x : dres)
| ConnReady (c : nat) | ConnClose (c : nat)
| Bg | Tick (dt : N).

Definition new_ck t w i c own txd := mkCk t w i c own None txd false.

Definition do_issue (cfg : config) (u : nat) (p : proto) s :=
  let rid := List.length (reqs s) in
  let s := set_woken (woken s ++ [false]) s in
  let add r d s := set_dials (dials s ++ [d]) (set_reqs (reqs s ++ [r]) s) in
  match nth u (g_uris cfg) None with
  | None => add RError (mkDial DGone p ("", "") None None) s
  | Some k =>
      if negb (g_pool cfg) then
        add (RCheckout (new_ck 0 WNoPool IConnecting None false true)) (mkDial DNew p k (Some k) None) s
      else
        let '(t, s) := key_insert k s in
        let '(found, s) := pool_pop (g_timeout cfg) t s in
        match found with
        | Some c => add (RCheckout (new_ck t WIdle IConnected (Some c) false true)) (mkDial DGone p k (Some k) None) s
        | None =>
            let pending := match p_marker (get_tok s t) with Some _ => true | None => false end in
            let s := upd_tok t (fun q => set_waiting (p_waiting q ++ [(rid, pending)]) q) s in
            if pending then
              add (RCheckout (new_ck t WConnecting IWaiting None false false)) (mkDial DGone p k (Some k) None) s
            else
              let own := match p with H2 => true | H1 => false end in
              let s := if own then upd_tok t (set_marker (Some rid)) s else s in
              add (RCheckout (new_ck t WIdle (if g_cont cfg then IDelayDrop else IConnecting) None own false))
                  (mkDial DNew p k (Some k) None) s
        end
  end.

Definition hold_release (r : nat) (p : pooled) s :=
  let s := upd_conn (fst p) (fun cn => c_set_holders (pred (c_holders cn)) cn) s in
  pooled_drop p (emit (ERel r (fst p)) s).

Definition do_poll (cfg : config) (r : nat) s :=
  match get_req s r with
  | Some RError => let s := unwake_req r s in set_req r RDone (emit (ERes r (RErr EUri)) s)
  | Some (RCheckout ck) =>
      let s := unwake_req r s in
      let '(res, ck, s) := checkout_poll cfg r ck s in
      match res with
      | KPending => emit (EPend r) (set_req r (RCheckout ck) s)
      | KReady (inr e) =>
          let s := set_req r RDone s in
          emit (ERes r (RErr e)) (checkout_drop cfg r ck s)
      | KReady (inl p) =>
          let c := fst p in
          let '(sh, op_, rd, hs) := match get_conn s c with
                                    | Some cn => (c_share cn, c_open cn, c_ready cn, c_holders cn)
                                    | None => (false, false, false, 0) end in
          let s := emit (EHand r c (Nat.eqb (snd p) 0) op_ rd hs) s in
          let s := upd_conn c (fun cn => c_set_holders (S (c_holders cn)) (if sh then cn else c_set_ready false cn)) s in
          let s := set_req r (RHolding p false true) s in
          emit (EPend r) (checkout_drop cfg r ck s)
      end
  | Some (RHolding p fin _) =>
      let s := unwake_req r s in
      if fin then emit (ERes r ROk) (hold_release r p (set_req r RDone s))
      else emit (EPend r) (set_req r (RHolding p fin true) s)
  | _ => s
  end.

Definition do_cancel (cfg : config) (r : nat) s :=
  match get_req s r with
  | Some RError => unwake_req r (set_req r RCancelled s)
  | Some (RCheckout ck) => unwake_req r (checkout_drop cfg r ck (set_req r RCancelled s))
  | Some (RHolding p _ _) => unwake_req r (hold_release r p (set_req r RCancelled s))
  | Some _ => unwake_req r s
  | None => s
  end.

Definition do_finish (r : nat) s :=
  match get_req s r with
  | Some (RHolding p _ polled) =>
      let s := set_req r (RHolding p true false) s in
      if polled then wake_req r s else s
  | _ => s
  end.

Fixpoint wake_tasks (l : list nat) s := match l with [] => s | t :: r => wake_tasks r (wake_task t s) end.

Definition drain_conn_waiters c s :=
  match get_conn s c with
  | Some cn => wake_tasks (c_waiters cn) (upd_conn c (c_set_waiters []) s)
  | None => s
  end.

Definition do_upgrade (r : nat) s :=
  match get_req s r with
  | Some (RHolding p _ _) => drain_conn_waiters (fst p) (upd_conn (fst p) (c_set_open false) s)
  | _ => s
  end.

Definition do_dial_done (r : nat) (x : dres) s :=
  match get_dial s r with
  | Some d =>
      match d_stage d with
      | DInFlight => wake_poller (d_polled d) r (upd_dial r (fun d => d_set_polled None (d_set_stage (DResolved x) d)) s)
      | _ => s
      end
  | None => s
  end.

Definition do_conn_ready c s :=
  match get_conn s c with Some _ => drain_conn_waiters c (upd_conn c (c_set_ready true) s) | None => s end.
Definition do_conn_close c s :=
  match get_conn s c with Some _ => drain_conn_waiters c (upd_conn c (c_set_open false) s) | None => s end.

Definition finish_task tid s := set_tasks (upd_nth tid (fun _ => None) (tasks s)) s.

(* one poll of a spawned task *)
Definition run_task (cfg : config) (tid : nat) s :=
  match nth tid (tasks s) None with
  | None => s
  | Some (TWhenReady c t) =>
      match get_conn s c with
      | None => finish_task tid s
      | Some cn =>
          let finish s :=
            let s := finish_task tid s in
            if is_open s c && negb (Nat.eqb t 0) && g_pool cfg then pool_push (g_max_idle cfg) t c s else drop_conn c s in
          if negb (c_open cn) then finish (emit (ERdy c false) s)
          else if c_share cn || c_ready cn then finish (emit (ERdy c true) s)
          else upd_conn c (fun cn => c_set_waiters (c_waiters cn ++ [tid]) cn) s
      end
  | Some (TDelayed rid t own) =>
      let '(r, s) := connector_poll rid (ByTask tid) s in
      match r with
      | CPending => s
      | CReady (inl c) =>
          let '(p, s) := register cfg t c s in
          let s := if g_pool cfg && negb (Nat.eqb t 0) && own then pool_cancel t rid s else s in
          pooled_drop p (finish_task tid s)
      | CReady (inr _) =>
          let s := if g_pool cfg && negb (Nat.eqb t 0) && own then pool_cancel t rid s else s in
          finish_task tid s
      end
  end.

Fixpoint bg_loop (cfg : config) (fuel : nat) s :=
  match fuel with
  | O => s
  | S f => match runq s with
           | [] => s
           | tid :: rest => bg_loop cfg f (run_task cfg tid (set_runq rest s))
           end
  end.
(* every task in the queue runs once; a delayed checkout that completes spawns at most one
   hand-back task, which runs once more: 2 * |runq| polls suffice (Proofs: bg_drains) *)
Definition do_bg cfg s := bg_loop cfg (2 * List.length (runq s) + 1) s.

Definition step (cfg : config) (s : state) (o : op) : state :=
  let s := set_out [] s in
  match o with
  | Issue u p => do_issue cfg u p s
  | Poll r => do_poll cfg r s
  | Cancel r => do_cancel cfg r s
  | Finish r => do_finish r s
  | Upgrade r => do_upgrade r s
  | DialDone r x => do_dial_done r x s
  | ConnReady c => do_conn_ready c s
  | ConnClose c => do_conn_close c s
  | Bg => do_bg cfg s
  | Tick dt => set_now (now s + dt)%N s
  end.

Definition run (cfg : config) (ops : list op) : state := fold_left (step cfg) ops init.

(* ---------------------------------------------------------------- observations *)
Record snap := mkSnap { sn_token : nat; sn_idle : list nat; sn_live : nat; sn_closed : nat; sn_marker : bool }.

Definition count_live s (ws : list (nat * bool)) := List.length (filter (fun w => rx_live s (fst w)) ws).

Fixpoint snaps_from s (t : nat) (l : list ptok) : list snap :=
  match l with
  | [] => []
  | p :: rest =>
      let live := count_live s (p_waiting p) in
      let mk := match p_marker p with Some _ => true | None => false end in
      let sn := mkSnap t (map fst (p_idle p)) live (List.length (p_waiting p) - live) mk in
      let tail := snaps_from s (S t) rest in
      match p_idle p, p_waiting p, mk with
      | [], [], false => tail
      | _, _, _ => sn :: tail
      end
  end.
Definition snapshot s := snaps_from s 1 (toks s).

Fixpoint trues_from (i : nat) (l : list bool) : list nat :=
  match l with [] => [] | b :: t => if b then i :: trues_from (S i) t else trues_from (S i) t end.

(* what the harness prints after every op *)
Record opobs := mkObs { o_events : list ev; o_snap : list snap; o_woken : list nat }.
Definition observe s := mkObs (rev (out s)) (snapshot s) (trues_from 0 (woken s)).

Fixpoint trace_from (cfg : config) s (ops : list op) : list opobs :=
  match ops with
  | [] => []
  | o :: rest => let s' := step cfg s o in observe s' :: trace_from cfg s' rest
  end.
Definition trace cfg ops := trace_from cfg init ops.
