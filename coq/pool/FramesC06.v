(* C06 groundwork: the key environment of a pool state (which dial created which connection, the
   scheme+authority of every dial, the TokenMap), the "same origin" invariant [Good] that ties every
   stored occurrence of a connection to the key of the token / request it is stored under, the relation
   between the observable tracker of pool/Spec.v and the model state, and the preservation of [Good]
   by the elementary state updates of pool/Model.v. *)
From HD Require Import common.Base http.Model pool.Model pool.Spec pool.Frames.
Local Open Scope list_scope.

(* ---------------------------------------------------------------- keys: key_eqb is an equivalence *)
Lemma eq_ci_refl a : eq_ci a a = true.
Proof. unfold eq_ci. apply String.eqb_refl. Qed.
Lemma eq_ci_sym a b : eq_ci a b = eq_ci b a.
Proof. unfold eq_ci. apply String.eqb_sym. Qed.
Lemma eq_ci_trans a b c : eq_ci a b = true -> eq_ci b c = true -> eq_ci a c = true.
Proof. unfold eq_ci. intros H1 H2. apply String.eqb_eq in H1. apply String.eqb_eq in H2. apply String.eqb_eq. congruence. Qed.

Lemma key_eqb_refl k : key_eqb k k = true.
Proof. unfold key_eqb. rewrite !eq_ci_refl. reflexivity. Qed.
Lemma key_eqb_sym a b : key_eqb a b = key_eqb b a.
Proof. unfold key_eqb. rewrite (eq_ci_sym (fst a)), (eq_ci_sym (snd a)). reflexivity. Qed.
Lemma key_eqb_trans a b c : key_eqb a b = true -> key_eqb b c = true -> key_eqb a c = true.
Proof.
  unfold key_eqb. intros H1 H2. apply andb_true_iff in H1. apply andb_true_iff in H2.
  destruct H1 as [A1 A2]. destruct H2 as [B1 B2]. apply andb_true_iff. split; eapply eq_ci_trans; eassumption.
Qed.

(* [same_key] on optional keys is a partial equivalence: it holds only between two present keys *)
Lemma same_key_sym a b : same_key a b = true -> same_key b a = true.
Proof. destruct a, b; cbn; try discriminate. rewrite key_eqb_sym. auto. Qed.
Lemma same_key_trans a b c : same_key a b = true -> same_key b c = true -> same_key a c = true.
Proof. destruct a, b, c; cbn; try discriminate. apply key_eqb_trans. Qed.
Lemma same_key_refl k : same_key (Some k) (Some k) = true.
Proof. cbn. apply key_eqb_refl. Qed.
Lemma same_key_some_l a b : same_key a b = true -> exists k, a = Some k.
Proof. destruct a; [eauto|discriminate]. Qed.
Lemma same_key_some_r a b : same_key a b = true -> exists k, b = Some k.
Proof. destruct a, b; try discriminate; eauto. Qed.
Lemma same_key_mono a b a' b' :
  same_key a b = true -> (forall k, a = Some k -> a' = Some k) -> (forall k, b = Some k -> b' = Some k) ->
  same_key a' b' = true.
Proof.
  intros H Ha Hb. destruct a as [ka|]; [|discriminate]. destruct b as [kb|]; [|discriminate].
  rewrite (Ha ka eq_refl), (Hb kb eq_refl). exact H.
Qed.

(* ---------------------------------------------------------------- lists *)
Lemma upd_nth_length {A} (f : A -> A) : forall l n, List.length (upd_nth n f l) = List.length l.
Proof. induction l as [|x l IH]; intros [|n]; cbn; auto. Qed.

Lemma nth_error_upd_nth_inv {A} (f : A -> A) : forall l n m y,
  nth_error (upd_nth n f l) m = Some y ->
  (m = n /\ exists x, nth_error l n = Some x /\ y = f x) \/ (m <> n /\ nth_error l m = Some y).
Proof.
  induction l as [|x l IH]; intros n m y H.
  - destruct n, m; cbn in H; discriminate.
  - destruct n as [|n], m as [|m]; cbn in H |- *.
    + inversion H; subst. left. split; [reflexivity|]. eauto.
    + right. split; [discriminate|exact H].
    + right. split; [discriminate|exact H].
    + apply IH in H. destruct H as [[-> Hx]|[Hne Hx]]; [left|right]; split; auto.
Qed.

Lemma map_upd_nth {A B} (g : A -> B) (f : A -> A) : forall l n,
  (forall x, nth_error l n = Some x -> g (f x) = g x) -> map g (upd_nth n f l) = map g l.
Proof.
  induction l as [|x l IH]; intros [|n] H; cbn; auto.
  - rewrite (H x eq_refl). reflexivity.
  - rewrite IH; [reflexivity|]. intros y Hy. apply H. exact Hy.
Qed.

Lemma Forall_upd_nth {A} (P : A -> Prop) (f : A -> A) : forall l n,
  Forall P l -> (forall x, nth_error l n = Some x -> P x -> P (f x)) -> Forall P (upd_nth n f l).
Proof.
  induction l as [|x l IH]; intros [|n] H Hf; cbn; auto; inversion H; subst; constructor; auto.
Qed.

Lemma nth_error_app_some {A} (l l' : list A) n x : nth_error l n = Some x -> nth_error (l ++ l') n = Some x.
Proof.
  intros H. rewrite nth_error_app1; [exact H|]. apply nth_error_Some. congruence.
Qed.

Lemma nth_error_app_inv {A} (l : list A) a n x :
  nth_error (l ++ [a]) n = Some x -> nth_error l n = Some x \/ (n = List.length l /\ x = a).
Proof.
  intros H. destruct (Nat.lt_ge_cases n (List.length l)) as [Hlt|Hge].
  - rewrite nth_error_app1 in H by exact Hlt. left. exact H.
  - rewrite nth_error_app2 in H by exact Hge. right.
    destruct (n - List.length l) as [|j] eqn:Hj; cbn in H.
    + inversion H. split; [lia|reflexivity].
    + destruct j; discriminate.
Qed.

Lemma nth_error_app_last {A} (l : list A) a : nth_error (l ++ [a]) (List.length l) = Some a.
Proof. rewrite nth_error_app2 by lia. rewrite Nat.sub_diag. reflexivity. Qed.

Lemma nth_default_some {A} (l : list (option A)) n x : nth n l None = Some x -> In (Some x) l.
Proof.
  intros H. destruct (nth_in_or_default n l None) as [Hin|Hd]; [rewrite H in Hin; exact Hin|congruence].
Qed.

(* ---------------------------------------------------------------- the key environment *)
(* e_co: per connection the dial (= request) that created it;  e_du: per request the scheme+authority of
   its URI (None: the URI had no scheme);  e_ks: the TokenMap, token t >= 1 at position t-1.
   All three only ever grow at the end; nothing in them is ever overwritten. *)
Record kenv := mkE { e_co : list nat; e_du : list (option key); e_ks : list key }.

Definition rkl (du : list (option key)) (r : nat) : option key :=
  match nth_error du r with Some k => k | None => None end.
Definition rk (E : kenv) (r : nat) : option key := rkl (e_du E) r.                (* the key of request r *)
Definition okl (co : list nat) (du : list (option key)) (c : nat) : option key :=
  match nth_error co c with Some o => rkl du o | None => None end.
Definition ok (E : kenv) (c : nat) : option key := okl (e_co E) (e_du E) c.        (* the key c was dialled for *)
Definition tki (E : kenv) (i : nat) : option key := nth_error (e_ks E) i.          (* the key of token i+1 *)

(* connection c may be stored under token t / request r belongs to token t / connection c may be given to r *)
Definition ct (E : kenv) (c t : nat) : Prop := match t with O => True | S i => same_key (ok E c) (tki E i) = true end.
Definition rt (E : kenv) (r t : nat) : Prop := match t with O => True | S i => same_key (rk E r) (tki E i) = true end.
Definition cr (E : kenv) (c r : nat) : Prop := same_key (ok E c) (rk E r) = true.

Lemma cr_rt_ct E c r t : cr E c r -> rt E r t -> ct E c t.
Proof. unfold cr, rt, ct. destruct t; auto. apply same_key_trans. Qed.
Lemma ct_rt_cr E c r i : ct E c (S i) -> rt E r (S i) -> cr E c r.
Proof. unfold cr, rt, ct. intros H1 H2. eapply same_key_trans; [exact H1|]. apply same_key_sym. exact H2. Qed.

Definition IdleOK (E : kenv) (i : nat) (l : list (nat * N)) : Prop :=
  forall c a, In (c, a) l -> same_key (ok E c) (tki E i) = true.
Definition WaitOK (E : kenv) (i : nat) (l : list (nat * bool)) : Prop :=
  forall w b, In (w, b) l -> same_key (rk E w) (tki E i) = true.
Definition TokOK (E : kenv) (i : nat) (p : ptok) : Prop := IdleOK E i (p_idle p) /\ WaitOK E i (p_waiting p).

Definition PooledOK (E : kenv) (p : pooled) : Prop := ct E (fst p) (snd p).
Definition CkOK (E : kenv) (w : nat) (ck : checkout) : Prop :=
  rt E w (k_token ck)
  /\ (forall c, k_conn ck = Some c -> cr E c w)
  /\ (forall p, k_slot ck = Some p -> cr E (fst p) w /\ PooledOK E p).
Definition ReqOK (E : kenv) (w : nat) (rq : req) : Prop :=
  match rq with RCheckout ck => CkOK E w ck | RHolding p _ _ => PooledOK E p /\ cr E (fst p) w | _ => True end.
Definition TaskOK (E : kenv) (x : option task) : Prop :=
  match x with Some (TWhenReady c t) => ct E c t | Some (TDelayed rid t _) => rt E rid t | None => True end.
(* a dial either carries its request's own scheme+authority or was never usable *)
Definition DialOK (d : dial) : Prop := d_uri d = Some (d_key d) \/ d_stage d = DGone.

(* ---------------------------------------------------------------- growth of the environment *)
Definition kext (E E' : kenv) : Prop :=
  (exists l, e_co E' = e_co E ++ l) /\ (exists l, e_du E' = e_du E ++ l) /\ (exists l, e_ks E' = e_ks E ++ l).

Lemma kext_refl E : kext E E.
Proof. repeat split; exists []; rewrite app_nil_r; reflexivity. Qed.
Lemma kext_trans E1 E2 E3 : kext E1 E2 -> kext E2 E3 -> kext E1 E3.
Proof.
  intros [[a1 A1] [[b1 B1] [c1 C1]]] [[a2 A2] [[b2 B2] [c2 C2]]].
  repeat split; [exists (a1 ++ a2); rewrite A2, A1|exists (b1 ++ b2); rewrite B2, B1|exists (c1 ++ c2); rewrite C2, C1];
    rewrite app_assoc; reflexivity.
Qed.

Lemma rk_mono E E' r k : kext E E' -> rk E r = Some k -> rk E' r = Some k.
Proof.
  intros [_ [[l Hl] _]]. unfold rk, rkl. rewrite Hl. destruct (nth_error (e_du E) r) as [o|] eqn:Hn; [|discriminate].
  intros ->. rewrite (nth_error_app_some _ l _ _ Hn). reflexivity.
Qed.
Lemma ok_mono E E' c k : kext E E' -> ok E c = Some k -> ok E' c = Some k.
Proof.
  intros HX. pose proof HX as [[l Hl] _]. unfold ok, okl. rewrite Hl.
  destruct (nth_error (e_co E) c) as [o|] eqn:Hn; [|discriminate].
  rewrite (nth_error_app_some _ l _ _ Hn). apply (rk_mono E E' o k HX).
Qed.
Lemma tki_mono E E' i k : kext E E' -> tki E i = Some k -> tki E' i = Some k.
Proof. intros [_ [_ [l Hl]]]. unfold tki. rewrite Hl. apply nth_error_app_some. Qed.

Lemma ct_mono E E' c t : kext E E' -> ct E c t -> ct E' c t.
Proof.
  intros HX. destruct t; cbn; auto. intros H. eapply same_key_mono; [exact H| |]; intros k; [apply ok_mono|apply tki_mono]; exact HX.
Qed.
Lemma rt_mono E E' r t : kext E E' -> rt E r t -> rt E' r t.
Proof.
  intros HX. destruct t; cbn; auto. intros H. eapply same_key_mono; [exact H| |]; intros k; [apply rk_mono|apply tki_mono]; exact HX.
Qed.
Lemma cr_mono E E' c r : kext E E' -> cr E c r -> cr E' c r.
Proof.
  intros HX H. unfold cr in *. eapply same_key_mono; [exact H| |]; intros k; [apply ok_mono|apply rk_mono]; exact HX.
Qed.
Lemma IdleOK_mono E E' i l : kext E E' -> IdleOK E i l -> IdleOK E' i l.
Proof.
  intros HX H c a Hin. eapply same_key_mono; [exact (H c a Hin)| |]; intros k; [apply ok_mono|apply tki_mono]; exact HX.
Qed.
Lemma WaitOK_mono E E' i l : kext E E' -> WaitOK E i l -> WaitOK E' i l.
Proof.
  intros HX H w b Hin. eapply same_key_mono; [exact (H w b Hin)| |]; intros k; [apply rk_mono|apply tki_mono]; exact HX.
Qed.
Lemma TokOK_mono E E' i p : kext E E' -> TokOK E i p -> TokOK E' i p.
Proof. intros HX [H1 H2]. split; [eapply IdleOK_mono|eapply WaitOK_mono]; eauto. Qed.
Lemma PooledOK_mono E E' p : kext E E' -> PooledOK E p -> PooledOK E' p.
Proof. intros HX. apply ct_mono. exact HX. Qed.
Lemma CkOK_mono E E' w ck : kext E E' -> CkOK E w ck -> CkOK E' w ck.
Proof.
  intros HX [H1 [H2 H3]]. split; [eapply rt_mono; eauto|]. split.
  - intros c Hc. eapply cr_mono; eauto.
  - intros p Hp. destruct (H3 p Hp). split; [eapply cr_mono|eapply PooledOK_mono]; eauto.
Qed.
Lemma ReqOK_mono E E' w rq : kext E E' -> ReqOK E w rq -> ReqOK E' w rq.
Proof.
  intros HX. destruct rq; cbn; auto; [apply CkOK_mono; exact HX|].
  intros [H1 H2]. split; [eapply PooledOK_mono|eapply cr_mono]; eauto.
Qed.
Lemma TaskOK_mono E E' x : kext E E' -> TaskOK E x -> TaskOK E' x.
Proof. intros HX. destruct x as [[c t|rid t own]|]; cbn; auto; [apply ct_mono|apply rt_mono]; exact HX. Qed.

(* ---------------------------------------------------------------- the tracker side *)
Lemma evs_ok_app f : forall l m e, evs_ok f m (l ++ [e]) = evs_ok f m l && f (fold_left track_ev l m) e.
Proof.
  induction l as [|x l IH]; intros m e; cbn [evs_ok app fold_left].
  - rewrite andb_true_r. reflexivity.
  - rewrite IH. rewrite andb_assoc. reflexivity.
Qed.

Lemma req_key_map m r : req_key m r = rkl (map ri_key (m_reqs m)) r.
Proof. unfold req_key, rkl. rewrite nth_error_map. destruct (nth_error (m_reqs m) r); reflexivity. Qed.
Lemma conn_key_map m c : conn_key m c = okl (map ci_origin (m_conns m)) (map ri_key (m_reqs m)) c.
Proof. unfold conn_key, okl. rewrite nth_error_map. destruct (nth_error (m_conns m) c); cbn; [apply req_key_map|reflexivity]. Qed.

Definition not_new (e : ev) : Prop := match e with ENew _ _ _ => False | _ => True end.

Lemma ri_upd_keys f r m : (forall x, ri_key (f x) = ri_key x) ->
  map ri_key (m_reqs (ri_upd f r m)) = map ri_key (m_reqs m) /\ m_conns (ri_upd f r m) = m_conns m.
Proof. intros Hf. split; [|reflexivity]. cbn. apply map_upd_nth. intros x _. apply Hf. Qed.
Lemma ci_upd_keys f c m : (forall x, ci_origin (f x) = ci_origin x) ->
  m_reqs (ci_upd f c m) = m_reqs m /\ map ci_origin (m_conns (ci_upd f c m)) = map ci_origin (m_conns m).
Proof. intros Hf. split; [reflexivity|]. cbn. apply map_upd_nth. intros x _. apply Hf. Qed.

Definition mkeys (m : mst) := (map ri_key (m_reqs m), map ci_origin (m_conns m)).

Lemma mkeys_ri_upd f r m : (forall x, ri_key (f x) = ri_key x) -> mkeys (ri_upd f r m) = mkeys m.
Proof. intros Hf. unfold mkeys. destruct (ri_upd_keys f r m Hf) as [-> ->]. reflexivity. Qed.
Lemma mkeys_ci_upd f c m : (forall x, ci_origin (f x) = ci_origin x) -> mkeys (ci_upd f c m) = mkeys m.
Proof. intros Hf. unfold mkeys. destruct (ci_upd_keys f c m Hf) as [-> ->]. reflexivity. Qed.

Lemma mkeys_track_ev m e : not_new e -> mkeys (track_ev m e) = mkeys m.
Proof.
  intros Hn. destruct e as [r k|c sh r|r c a b d h|r|r x|r c|c|c okb]; cbn [track_ev not_new] in *; try contradiction.
  - apply mkeys_ri_upd. reflexivity.
  - rewrite mkeys_ci_upd by reflexivity. apply mkeys_ri_upd. intros x. cbn. dm; reflexivity.
  - apply mkeys_ri_upd. reflexivity.
  - destruct x as [|[| | |]]; rewrite ?mkeys_ri_upd; try reflexivity.
  - apply mkeys_ci_upd. reflexivity.
  - apply mkeys_ci_upd. reflexivity.
  - destruct okb; [|reflexivity]. apply mkeys_ci_upd. reflexivity.
Qed.

Lemma mkeys_track_new m c sh r :
  mkeys (track_ev m (ENew c sh r)) = (map ri_key (m_reqs m), map ci_origin (m_conns m) ++ [r]).
Proof.
  cbn [track_ev]. unfold mkeys. cbn [m_reqs m_conns set_m_conns]. rewrite map_app. cbn [map ci_origin].
  destruct (ri_upd_keys (set_ri_dial DsOver) r m) as [-> ->]; reflexivity.
Qed.

(* the events so far are accepted by the C06 check and the tracker's key tables agree with E *)
Definition TT (E : kenv) (m0 : mst) (evs : list ev) : Prop :=
  evs_ok chk_ev_C06 m0 (rev evs) = true /\ mkeys (fold_left track_ev (rev evs) m0) = (e_du E, e_co E).

Lemma TT_emit E m0 evs e :
  TT E m0 evs -> not_new e ->
  (forall m, mkeys m = (e_du E, e_co E) -> chk_ev_C06 m e = true) -> TT E m0 (e :: evs).
Proof.
  intros [H1 H2] Hn Hc. unfold TT. cbn [rev]. rewrite evs_ok_app, fold_left_app. cbn [fold_left].
  rewrite H1, (Hc _ H2), mkeys_track_ev by exact Hn. auto.
Qed.

Lemma mkeys_req_key m du co r : mkeys m = (du, co) -> req_key m r = rkl du r.
Proof. unfold mkeys. intros H. inversion H. apply req_key_map. Qed.
Lemma mkeys_conn_key m du co c : mkeys m = (du, co) -> conn_key m c = okl co du c.
Proof. unfold mkeys. intros H. inversion H. apply conn_key_map. Qed.

Definition triv_ev (e : ev) : Prop :=
  match e with EDial _ _ | ENew _ _ _ | EHand _ _ _ _ _ _ => False | _ => True end.

Lemma TT_emit_triv E m0 evs e : triv_ev e -> TT E m0 evs -> TT E m0 (e :: evs).
Proof. intros Ht H. apply TT_emit; auto; destruct e; cbn in *; auto. Qed.

Lemma TT_emit_dial E m0 evs r k : rk E r = Some k -> TT E m0 evs -> TT E m0 (EDial r k :: evs).
Proof.
  intros Hk H. apply TT_emit; cbn; auto. intros m Hm.
  rewrite (mkeys_req_key _ _ _ r Hm). unfold rk in Hk. rewrite Hk. rewrite !String.eqb_refl. reflexivity.
Qed.

Lemma TT_emit_hand E m0 evs r c a b d h : cr E c r -> TT E m0 evs -> TT E m0 (EHand r c a b d h :: evs).
Proof.
  intros Hk H. apply TT_emit; cbn; auto. intros m Hm.
  rewrite (mkeys_req_key _ _ _ r Hm), (mkeys_conn_key _ _ _ c Hm). exact Hk.
Qed.

Lemma TT_emit_new E m0 evs c sh r :
  TT E m0 evs -> TT (mkE (e_co E ++ [r]) (e_du E) (e_ks E)) m0 (ENew c sh r :: evs).
Proof.
  intros [H1 H2]. unfold TT. cbn [rev e_co e_du]. rewrite evs_ok_app, fold_left_app. cbn [fold_left chk_ev_C06].
  rewrite H1, mkeys_track_new. unfold mkeys in H2. inversion H2. auto.
Qed.

Lemma TT_env E E' m0 evs : e_co E' = e_co E -> e_du E' = e_du E -> TT E m0 evs -> TT E' m0 evs.
Proof. unfold TT. intros -> ->. auto. Qed.

(* ---------------------------------------------------------------- the invariant *)
(* [pre]: keys of requests the tracker already knows but whose dial record the model has not appended
   yet (one entry during [do_issue], empty otherwise) *)
Record Good (E : kenv) (m0 : mst) (pre : list (option key)) (s : state) : Prop := mkGood {
  g_co : e_co E = map c_origin (conns s);
  g_du : e_du E = map d_uri (dials s) ++ pre;
  g_ks : e_ks E = keys s;
  g_len : List.length (reqs s) = List.length (dials s);
  g_dial : Forall DialOK (dials s);
  g_req : forall w rq, nth_error (reqs s) w = Some rq -> ReqOK E w rq;
  g_task : Forall (TaskOK E) (tasks s);
  g_tok : forall i p, nth_error (toks s) i = Some p -> TokOK E i p;
  g_log : TT E m0 (out s)
}.

Section Basic.
Variables (E : kenv) (m0 : mst) (pre : list (option key)).
Notation G := (Good E m0 pre).

Lemma G_frame s s' :
  keys s' = keys s -> toks s' = toks s -> map c_origin (conns s') = map c_origin (conns s) ->
  reqs s' = reqs s -> dials s' = dials s -> tasks s' = tasks s -> out s' = out s -> G s -> G s'.
Proof.
  intros H1 H2 H3 H4 H5 H6 H7 [A1 A2 A3 A4 A5 A6 A7 A8 A9].
  constructor; rewrite ?H1, ?H2, ?H3, ?H4, ?H5, ?H6, ?H7; assumption.
Qed.

Lemma G_emit_triv e s : triv_ev e -> G s -> G (emit e s).
Proof. intros Ht [A1 A2 A3 A4 A5 A6 A7 A8 A9]. constructor; try assumption. cbn. apply TT_emit_triv; assumption. Qed.

Lemma G_emit_hand r c a b d h s : cr E c r -> G s -> G (emit (EHand r c a b d h) s).
Proof. intros Ht [A1 A2 A3 A4 A5 A6 A7 A8 A9]. constructor; try assumption. cbn. apply TT_emit_hand; assumption. Qed.

Lemma G_emit_dial r k s : rk E r = Some k -> G s -> G (emit (EDial r k) s).
Proof. intros Ht [A1 A2 A3 A4 A5 A6 A7 A8 A9]. constructor; try assumption. cbn. apply TT_emit_dial; assumption. Qed.

Lemma G_upd_conn c f s : (forall cn, c_origin (f cn) = c_origin cn) -> G s -> G (upd_conn c f s).
Proof.
  intros Hf [A1 A2 A3 A4 A5 A6 A7 A8 A9]. constructor; try assumption.
  cbn. rewrite map_upd_nth; [exact A1|]. intros x _. apply Hf.
Qed.

Lemma G_set_req r v s : ReqOK E r v -> G s -> G (set_req r v s).
Proof.
  intros Hv [A1 A2 A3 A4 A5 A6 A7 A8 A9]. constructor; try assumption.
  - cbn. rewrite upd_nth_length. exact A4.
  - cbn. intros w rq Hw. apply nth_error_upd_nth_inv in Hw. destruct Hw as [[-> [x [_ ->]]]|[_ Hw]]; [exact Hv|eauto].
Qed.

Lemma G_upd_dial r f s :
  (forall d, nth_error (dials s) r = Some d -> d_uri (f d) = d_uri d /\ (DialOK d -> DialOK (f d))) ->
  G s -> G (upd_dial r f s).
Proof.
  intros Hf [A1 A2 A3 A4 A5 A6 A7 A8 A9]. constructor; try assumption.
  - cbn. rewrite map_upd_nth; [exact A2|]. intros x Hx. apply (Hf x Hx).
  - cbn. rewrite upd_nth_length. exact A4.
  - cbn. apply Forall_upd_nth; [exact A5|]. intros x Hx. apply (Hf x Hx).
Qed.

Lemma G_upd_tok t f s :
  (forall i p, t = S i -> nth_error (toks s) i = Some p -> TokOK E i p -> TokOK E i (f p)) -> G s -> G (upd_tok t f s).
Proof.
  intros Hf H. destruct t as [|j]; [exact H|]. destruct H as [A1 A2 A3 A4 A5 A6 A7 A8 A9]. constructor; try assumption.
  cbn. intros i p Hp. apply nth_error_upd_nth_inv in Hp. destruct Hp as [[-> [x [Hx ->]]]|[_ Hp]]; [|eauto].
  apply Hf; auto.
Qed.

Lemma G_spawn tk s : TaskOK E (Some tk) -> G s -> G (spawn tk s).
Proof.
  intros Ht [A1 A2 A3 A4 A5 A6 A7 A8 A9]. constructor; try assumption.
  cbn. apply Forall_app. split; [exact A7|]. constructor; [exact Ht|constructor].
Qed.

Lemma G_finish_task tid s : G s -> G (finish_task tid s).
Proof.
  intros [A1 A2 A3 A4 A5 A6 A7 A8 A9]. constructor; try assumption.
  cbn. apply Forall_upd_nth; [exact A7|]. intros; exact I.
Qed.

Lemma G_wake_req r s : G s -> G (wake_req r s).
Proof. apply G_frame; reflexivity. Qed.
Lemma G_unwake_req r s : G s -> G (unwake_req r s).
Proof. apply G_frame; reflexivity. Qed.
Lemma G_wake_task t s : G s -> G (wake_task t s).
Proof. unfold wake_task. destruct (existsb (Nat.eqb t) (runq s)); [auto|]. apply G_frame; reflexivity. Qed.
Lemma G_set_runq v s : G s -> G (set_runq v s).
Proof. apply G_frame; reflexivity. Qed.
Lemma G_set_now v s : G s -> G (set_now v s).
Proof. apply G_frame; reflexivity. Qed.
Lemma G_set_woken v s : G s -> G (set_woken v s).
Proof. apply G_frame; reflexivity. Qed.
Lemma G_wake_poller p r s : G s -> G (wake_poller p r s).
Proof. unfold wake_poller. destruct p as [[|tid]|]; auto using G_wake_req, G_wake_task. Qed.
Lemma G_wake_tasks l : forall s, G s -> G (wake_tasks l s).
Proof. induction l as [|t l IH]; intros s H; cbn [wake_tasks]; [exact H|]. apply IH. apply G_wake_task. exact H. Qed.

(* reading the invariant *)
Lemma G_get_req s w rq : G s -> get_req s w = Some rq -> ReqOK E w rq.
Proof. intros H. apply (g_req _ _ _ _ H). Qed.

Lemma G_get_tok s i : G s -> TokOK E i (get_tok s (S i)).
Proof.
  intros H. cbn [get_tok]. destruct (nth_error (toks s) i) as [p|] eqn:Hp.
  - rewrite (nth_error_nth _ _ _ Hp). apply (g_tok _ _ _ _ H _ _ Hp).
  - rewrite nth_overflow by (apply nth_error_None; exact Hp). split; intros ? ? [].
Qed.

Lemma G_task s tid x : G s -> nth tid (tasks s) None = Some x -> TaskOK E (Some x).
Proof.
  intros H Hn. apply nth_default_some in Hn. pose proof (g_task _ _ _ _ H) as HF. rewrite Forall_forall in HF. apply HF. exact Hn.
Qed.

Lemma G_rk_dial s r d : G s -> get_dial s r = Some d -> rk E r = d_uri d.
Proof.
  intros H Hd. unfold rk, rkl. rewrite (g_du _ _ _ _ H).
  rewrite (nth_error_app_some _ pre _ _ (map_nth_error d_uri _ _ Hd)). reflexivity.
Qed.

Lemma G_dial_ok s r d : G s -> get_dial s r = Some d -> DialOK d.
Proof.
  intros H Hd. pose proof (g_dial _ _ _ _ H) as HF. rewrite Forall_forall in HF. apply HF. eapply nth_error_In. exact Hd.
Qed.

End Basic.
