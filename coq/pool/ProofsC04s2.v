(* C04, clause S2: no second HTTP/2 dial while an HTTP/2 attempt to the origin is in flight (outside
   the window of known finding D6).  Relation [R2] between the tracker and the model (in-progress marks,
   waiter queues, dial stages), carried through every primitive on top of the invariant [G] of
   pool/ProofsC04a.v. *)
From HD Require Import common.Base http.Model pool.Model pool.Spec pool.Frames pool.ProofsLite pool.FramesC05 pool.SortedC05 pool.FramesC04 pool.ProofsC04a.
From HD Require pool.CoreC05 pool.ProofsC04np.
Local Open Scope list_scope.

(* ------------------------------------------------------------------ existsb over an indexed list *)
Lemma existsb_ix {A} (f : nat * A -> bool) : forall l b,
  existsb f (combine (seq b (List.length l)) l) = true <-> exists i x, nth_error l i = Some x /\ f (b + i, x) = true.
Proof.
  induction l as [|a l IH]; intros b; cbn [List.length seq combine existsb].
  - split; [discriminate|]. intros (i & x & H & _). destruct i; discriminate.
  - rewrite orb_true_iff, IH. split.
    + intros [H|(i & x & H1 & H2)]; [exists 0, a; rewrite Nat.add_0_r; auto|exists (S i), x; rewrite Nat.add_succ_r; auto].
    + intros ([|i] & x & H1 & H2); cbn [nth_error] in H1.
      * inversion H1; subst. rewrite Nat.add_0_r in H2. auto.
      * right. exists i, x. rewrite Nat.add_succ_r in H2. auto.
Qed.

Lemma existsb_ix0 {A} (f : nat * A -> bool) l :
  existsb f (combine (seq 0 (List.length l)) l) = true <-> exists i x, nth_error l i = Some x /\ f (i, x) = true.
Proof. apply (existsb_ix f l 0). Qed.

Lemma existsb_ix0_false {A} (f : nat * A -> bool) l :
  (forall i x, nth_error l i = Some x -> f (i, x) = false) -> existsb f (combine (seq 0 (List.length l)) l) = false.
Proof.
  intros H. destruct (existsb f _) eqn:E; [|reflexivity]. apply existsb_ix0 in E as (i & x & H1 & H2). rewrite (H i x H1) in H2. discriminate.
Qed.

(* ------------------------------------------------------------------ tracker notions *)
Definition rtk (m : mst) (r : nat) : nat := key_tok m (req_key m r).
Definition SS (m : mst) (r : nat) : bool :=
  match nth_error (m_reqs m) r with Some y => share_conn_since m (ri_key y) (ri_at y) | None => false end.
Definition d6 (m : mst) (r : nat) : bool := match nth_error (m_reqs m) r with Some y => ri_d6 y | None => false end.
Definition mk (s : state) (t : nat) : option nat := p_marker (get_tok s t).

Lemma rtk_tv m r : rtk m r = rtok (tv_of m) r.
Proof. unfold rtk, rtok. rewrite req_key_tv. reflexivity. Qed.

Lemma share_since_intro m k i c y :
  nth_error (m_conns m) c = Some y -> ci_share y = true -> i <= ci_new_at y -> same_key (conn_key m c) k = true ->
  share_conn_since m k i = true.
Proof.
  intros Hc Hs Hi Hk. unfold share_conn_since. apply existsb_ix0. exists c, y. split; [exact Hc|].
  rewrite Hs, Hk. cbn. apply Nat.leb_le in Hi. rewrite Hi. reflexivity.
Qed.

(* ------------------------------------------------------------------ the tracker only learns *)
Definition rfix (y y' : rinfo) : Prop :=
  ri_key y' = ri_key y /\ ri_at y' = ri_at y /\ ri_d6 y' = ri_d6 y /\ ri_proto y' = ri_proto y /\ ri_poph y' = ri_poph y.
Definition cfix (y y' : cinfo) : Prop := ci_share y' = ci_share y /\ ci_new_at y' = ci_new_at y /\ ci_origin y' = ci_origin y.
Record mle (m m' : mst) : Prop := mkMle {
  ml_c : forall c y, nth_error (m_conns m) c = Some y -> exists y', nth_error (m_conns m') c = Some y' /\ cfix y y';
  ml_r : forall r y, nth_error (m_reqs m) r = Some y -> exists y', nth_error (m_reqs m') r = Some y' /\ rfix y y';
  ml_rl : List.length (m_reqs m') = List.length (m_reqs m);
  ml_k : m_keys m' = m_keys m;
  ml_i : m_i m <= m_i m'
}.
Lemma rfix_refl y : rfix y y. Proof. repeat split. Qed.
Lemma cfix_refl y : cfix y y. Proof. repeat split. Qed.
Lemma mle_refl m : mle m m.
Proof. constructor; eauto using rfix_refl, cfix_refl. Qed.
Lemma mle_trans a b c : mle a b -> mle b c -> mle a c.
Proof.
  intros [A1 A2 A3 A4 A5] [B1 B2 B3 B4 B5]. constructor; try congruence; try lia.
  - intros c0 y H. destruct (A1 c0 y H) as (y' & H' & (E1 & E2 & E3)). destruct (B1 c0 y' H') as (y'' & H'' & (F1 & F2 & F3)).
    exists y''. split; [exact H''|]. repeat split; congruence.
  - intros r y H. destruct (A2 r y H) as (y' & H' & (E1 & E2 & E3 & E4 & E5)). destruct (B2 r y' H') as (y'' & H'' & (F1 & F2 & F3 & F4 & F5)).
    exists y''. split; [exact H''|]. repeat split; congruence.
Qed.

Lemma upd_fix {A} (P : A -> A -> Prop) (f : A -> A) l n : (forall y, P y y) -> (forall y, P y (f y)) ->
  forall i y, nth_error l i = Some y -> exists y', nth_error (upd_nth n f l) i = Some y' /\ P y y'.
Proof.
  intros Hr Hf i y H. rewrite nth_error_upd_nth. destruct (Nat.eqb n i); rewrite H; cbn; eauto.
Qed.

Lemma mle_ri_upd f r m : (forall y, rfix y (f y)) -> mle m (ri_upd f r m).
Proof.
  intros Hf. constructor; unfold ri_upd; cbn [m_conns m_reqs m_keys m_i set_m_reqs]; eauto using cfix_refl.
  - intros i y H. apply (upd_fix rfix); auto using rfix_refl.
  - apply upd_len.
Qed.
Lemma mle_ci_upd f c m : (forall y, cfix y (f y)) -> mle m (ci_upd f c m).
Proof.
  intros Hf. constructor; unfold ci_upd; cbn [m_conns m_reqs m_keys m_i set_m_conns]; eauto using rfix_refl.
  intros i y H. apply (upd_fix cfix); auto using cfix_refl.
Qed.

Lemma mle_track_ev m e : mle m (track_ev m e).
Proof.
  destruct e; cbn [track_ev].
  - apply mle_ri_upd. intros y. repeat split.
  - eapply mle_trans; [apply (mle_ri_upd (set_ri_dial DsOver) r m); intros y; repeat split|].
    constructor; cbn [m_conns m_reqs m_keys m_i set_m_conns]; eauto using rfix_refl.
    intros c0 y H. exists y. split; [|apply cfix_refl]. rewrite nth_error_app1; [exact H|eapply nth_lt; eauto].
  - eapply mle_trans; [apply mle_ri_upd|apply mle_ci_upd]; intros y; cbv beta; [match goal with |- context [if ?b then _ else _] => destruct b end|]; repeat split.
  - apply mle_ri_upd. intros y. repeat split.
  - eapply mle_trans; [apply (mle_ri_upd (fun y => set_ri_pend false (set_ri_stat SDone y)) r m); intros y; repeat split|].
    destruct x as [|[]]; try apply mle_refl; apply mle_ri_upd; intros y; repeat split.
  - apply mle_ci_upd. intros y. repeat split.
  - apply mle_ci_upd. intros y. repeat split.
  - destruct ok; [apply mle_ci_upd; intros y; repeat split|apply mle_refl].
Qed.

Lemma req_key_mle m m' r : mle m m' -> req_key m' r = req_key m r.
Proof.
  intros H. unfold req_key. destruct (nth_error (m_reqs m) r) as [y|] eqn:E.
  - destruct (ml_r _ _ H r y E) as (y' & -> & (K & _)). exact K.
  - apply nth_error_None in E. rewrite <- (ml_rl _ _ H) in E. apply nth_error_None in E. rewrite E. reflexivity.
Qed.
Lemma conn_key_mle m m' c : mle m m' -> c < List.length (m_conns m) -> conn_key m' c = conn_key m c.
Proof.
  intros H Hc. unfold conn_key. destruct (nth_ex _ _ Hc) as [y E]. rewrite E.
  destruct (ml_c _ _ H c y E) as (y' & -> & (_ & _ & ->)). apply req_key_mle. exact H.
Qed.
Lemma rtk_mle m m' r : mle m m' -> rtk m' r = rtk m r.
Proof. intros H. unfold rtk, key_tok. rewrite (req_key_mle m m' r H), (ml_k _ _ H). reflexivity. Qed.
Lemma d6_mle m m' r : mle m m' -> d6 m' r = d6 m r.
Proof.
  intros H. unfold d6. destruct (nth_error (m_reqs m) r) as [y|] eqn:E.
  - destruct (ml_r _ _ H r y E) as (y' & -> & (_ & _ & K & _)). exact K.
  - apply nth_error_None in E. rewrite <- (ml_rl _ _ H) in E. apply nth_error_None in E. rewrite E. reflexivity.
Qed.
Lemma since_mle m m' k i : mle m m' -> share_conn_since m k i = true -> share_conn_since m' k i = true.
Proof.
  intros H S. unfold share_conn_since in S. apply existsb_ix0 in S as (c & y & Hc & Hf).
  apply andb_true_iff in Hf as [Hf Hk]. apply andb_true_iff in Hf as [Hs Hi].
  destruct (ml_c _ _ H c y Hc) as (y' & Hc' & (E1 & E2 & E3)).
  eapply share_since_intro; [exact Hc'|congruence|rewrite E2; apply Nat.leb_le; exact Hi|].
  rewrite (conn_key_mle m m' c H); [exact Hk|eapply nth_lt; eauto].
Qed.
Lemma SS_mle m m' r : mle m m' -> SS m r = true -> SS m' r = true.
Proof.
  intros H S. unfold SS in *. destruct (nth_error (m_reqs m) r) as [y|] eqn:E; [|discriminate].
  destruct (ml_r _ _ H r y E) as (y' & -> & (K & A & _)). rewrite K, A. eapply since_mle; eauto.
Qed.

Lemma mle_fold l : forall m, mle m (fold_left track_ev l m).
Proof. induction l as [|e l IH]; intros m; cbn [fold_left]; [apply mle_refl|]. eapply mle_trans; [apply mle_track_ev|apply IH]. Qed.

(* same origin <-> same token (for keys present in the table) *)
Lemma tok_same_key ks k1 k2 : tok_of ks k1 = tok_of ks k2 -> tok_of ks k1 <> 0 -> key_eqb k1 k2 = true.
Proof.
  unfold tok_of. destruct (find_key k1 ks 1) as [t1|] eqn:E1; [|congruence]. destruct (find_key k2 ks 1) as [t2|] eqn:E2; [|congruence].
  intros E _. subst t2. apply find_key_some in E1, E2.
  destruct E1 as (j1 & k1' & -> & Hn1 & He1 & _), E2 as (j2 & k2' & Ej & Hn2 & He2 & _).
  assert (j1 = j2) by lia. subst j2. rewrite Hn1 in Hn2. inversion Hn2; subst k2'.
  eapply key_eqb_trans; [exact He1|]. rewrite key_eqb_sym. exact He2.
Qed.
Lemma key_eqb_congr_l k1 k2 k : key_eqb k1 k2 = true -> key_eqb k1 k = key_eqb k2 k.
Proof.
  intros H. destruct (key_eqb k2 k) eqn:E.
  - eapply key_eqb_trans; eauto.
  - destruct (key_eqb k1 k) eqn:E'; [|reflexivity]. rewrite <- E. symmetry. eapply key_eqb_trans; [rewrite key_eqb_sym; exact H|exact E'].
Qed.
Lemma same_key_tok ks k1 k2 : key_eqb k1 k2 = true -> tok_of ks k1 = tok_of ks k2.
Proof.
  intros H. unfold tok_of. assert (E : forall l j, find_key k1 l j = find_key k2 l j).
  { induction l as [|k l IH]; intros j; cbn [find_key]; [reflexivity|]. rewrite (key_eqb_congr_l k1 k2 k H), IH. reflexivity. }
  rewrite E. reflexivity.
Qed.

Lemma mle_bwd m m' r y' : mle m m' -> nth_error (m_reqs m') r = Some y' -> exists y, nth_error (m_reqs m) r = Some y /\ rfix y y'.
Proof.
  intros H E. assert (L : r < List.length (m_reqs m)) by (rewrite <- (ml_rl _ _ H); eapply nth_lt; eauto).
  destruct (nth_ex _ _ L) as [y Hy]. destruct (ml_r _ _ H r y Hy) as (y2 & Hy2 & F). rewrite E in Hy2. inversion Hy2; subst. eauto.
Qed.

Section S2.
Variable cfg : config.

Definition InnerOK (s : state) (r : nat) (ck : checkout) : Prop :=
  k_inner ck <> IDelayed /\ (g_pool cfg = true -> k_inner ck = IConnecting -> g_cont cfg = false) /\
  ((k_inner ck = IWaiting \/ k_inner ck = IConnected) -> forall d, get_dial s r = Some d -> d_stage d = DGone) /\
  (forall c, k_conn ck = Some c -> k_inner ck = IConnected).

Record R2 (ex : option nat) (m : mst) (s : state) : Prop := mkR2 {
  z_proto : forall r y d, nth_error (m_reqs m) r = Some y -> get_dial s r = Some d -> ri_proto y = d_proto d;
  z_dnw : forall r y, nth_error (m_reqs m) r = Some y -> ri_dial y = DsFlying -> exists d, get_dial s r = Some d /\ d_stage d <> DNew;
  z_dial : forall r y d, nth_error (m_reqs m) r = Some y -> get_dial s r = Some d -> ri_dial y = DsFlying -> ri_resolved y = None ->
           (is_live y = true \/ (g_cont cfg = true /\ g_pool cfg = true)) -> d_stage d = DInFlight;
  z_live : forall r ck, get_req s r = Some (RCheckout ck) -> exists y, nth_error (m_reqs m) r = Some y /\ is_live y = true;
  z_inner : forall r ck, get_req s r = Some (RCheckout ck) -> InnerOK s r ck;
  z_at : forall r y, nth_error (m_reqs m) r = Some y -> ri_at y <= m_i m;
  z_A : g_pool cfg = true -> forall r ck d, get_req s r = Some (RCheckout ck) -> get_dial s r = Some d -> d_stage d = DNew ->
        k_waiter ck = WIdle /\
        (k_slot ck = None -> (d_proto d = H2 -> mk s (k_token ck) = Some r) /\ In (r, false) (p_waiting (get_tok s (k_token ck))));
  z_B : g_pool cfg = true -> forall x d, Some x <> ex -> get_dial s x = Some d -> d_proto d = H2 -> d_stage d <> DGone ->
        mk s (rtk m x) = Some x \/ SS m x = true \/ d6 m x = true;
  z_C : forall t x c a, mk s t = Some x -> In (c, a) (p_idle (get_tok s t)) -> share_of s c = false;
  z_D : forall y ck c x, get_req s y = Some (RCheckout ck) -> k_conn ck = Some c -> share_of s c = true ->
        mk s (k_token ck) = Some x -> y < x;
  z_E : g_pool cfg = true -> forall y ck c x, get_req s y = Some (RCheckout ck) -> k_conn ck = Some c -> share_of s c = true ->
        is_open s c = true -> y < x -> x < List.length (m_reqs m) -> rtk m x = k_token ck -> d6 m x = true;
  z_P : forall y ck c, get_req s y = Some (RCheckout ck) -> k_conn ck = Some c -> share_of s c = true -> is_open s c = true ->
        exists yi, nth_error (m_reqs m) y = Some yi /\ ri_poph yi <> None;
  z_F : forall tid rid t own, nth_error (tasks s) tid = Some (Some (TDelayed rid t own)) -> exists d, get_dial s rid = Some d /\ d_stage d <> DNew;
  z_mx : forall t x, mk s t = Some x -> x < List.length (m_reqs m) /\ (g_pool cfg = true -> rtk m x = t);
  z_bi : forall t c a, In (c, a) (p_idle (get_tok s t)) -> c < List.length (conns s);
  z_bk : forall y ck c, get_req s y = Some (RCheckout ck) -> k_conn ck = Some c -> c < List.length (conns s);
  z_tk : List.length (toks s) = List.length (keys s)
}.

(* the tracker moves by events that only weaken what it claims about dials and liveness *)
Lemma R2_weak ex m m' s :
  mle m m' ->
  (forall r y y', nth_error (m_reqs m) r = Some y -> nth_error (m_reqs m') r = Some y' ->
     (is_live y' = true -> is_live y = true) /\
     (((ri_dial y' = DsFlying -> ri_dial y = DsFlying) /\ (ri_resolved y' = None -> ri_resolved y = None)) \/
      (exists d, get_dial s r = Some d /\ d_stage d = DInFlight))) ->
  (forall r ck y', get_req s r = Some (RCheckout ck) -> nth_error (m_reqs m') r = Some y' -> is_live y' = true) ->
  R2 ex m s -> R2 ex m' s.
Proof.
  intros HM HW HL H. destruct H.
  assert (Bk : forall r y', nth_error (m_reqs m') r = Some y' -> exists y, nth_error (m_reqs m) r = Some y /\ rfix y y' /\
              (is_live y' = true -> is_live y = true) /\
              (((ri_dial y' = DsFlying -> ri_dial y = DsFlying) /\ (ri_resolved y' = None -> ri_resolved y = None)) \/
               (exists d, get_dial s r = Some d /\ d_stage d = DInFlight))).
  { intros r y' E. destruct (mle_bwd m m' r y' HM E) as (y & Hy & F). exists y. split; [exact Hy|]. split; [exact F|]. apply (HW r y y' Hy E). }
  constructor; auto.
  - intros r y' d Hy Hd. destruct (Bk r y' Hy) as (y & Hy0 & (_ & _ & _ & Ep & _) & _). rewrite Ep. eauto.
  - intros r y' Hy Hf. destruct (Bk r y' Hy) as (y & Hy0 & _ & _ & [[W1 _]|(d & Hd & Hs)]); [eauto|]. exists d. split; [exact Hd|]. rewrite Hs. discriminate.
  - intros r y' d Hy Hd Hf Hr Hl. destruct (Bk r y' Hy) as (y & Hy0 & _ & W3 & [[W1 W2]|(d0 & Hd0 & Hs)]).
    + eapply z_dial0; eauto. destruct Hl; auto.
    + rewrite Hd in Hd0. inversion Hd0; subst. exact Hs.
  - intros r ck Hq. destruct (z_live0 r ck Hq) as (y & Hy & _). destruct (ml_r _ _ HM r y Hy) as (y' & Hy' & _). exists y'. split; [exact Hy'|]. eapply HL; eauto.
  - intros r y' Hy. destruct (Bk r y' Hy) as (y & Hy0 & (_ & Ea & _) & _). rewrite Ea. pose proof (ml_i _ _ HM). pose proof (z_at0 r y Hy0). lia.
  - intros Hp x d Hx Hd Hpr Hst. rewrite (rtk_mle m m' x HM), (d6_mle m m' x HM). destruct (z_B0 Hp x d Hx Hd Hpr Hst) as [A|[A|A]]; auto.
    right. left. eapply SS_mle; eauto.
  - intros Hp y ck c x Hq Hc Hs Ho Hlt Hx Hr. rewrite (d6_mle m m' x HM). rewrite (rtk_mle m m' x HM) in Hr. rewrite (ml_rl _ _ HM) in Hx. eauto.
  - intros y ck c Hq Hc Hs Ho. destruct (z_P0 y ck c Hq Hc Hs Ho) as (yi & Hyi & Hp). destruct (ml_r _ _ HM y yi Hyi) as (yi' & Hyi' & (_ & _ & _ & _ & Ep)).
    exists yi'. split; [exact Hyi'|]. rewrite Ep. exact Hp.
  - intros t x Hm. destruct (z_mx0 t x Hm) as [A B]. split; [rewrite (ml_rl _ _ HM); exact A|]. intros Hp. rewrite (rtk_mle m m' x HM). auto.
Qed.

Definition wcond (y y' : rinfo) : Prop :=
  (ri_dial y' = DsFlying -> ri_dial y = DsFlying) /\ (ri_resolved y' = None -> ri_resolved y = None) /\ (is_live y' = true -> is_live y = true).
Definition Wk (m m' : mst) : Prop := forall r y y', nth_error (m_reqs m) r = Some y -> nth_error (m_reqs m') r = Some y' -> wcond y y'.
Lemma wcond_refl y : wcond y y. Proof. repeat split; auto. Qed.
Lemma Wk_refl m : Wk m m. Proof. intros r y y' H H'. rewrite H in H'. inversion H'. apply wcond_refl. Qed.
Lemma Wk_trans a b c : mle a b -> Wk a b -> Wk b c -> Wk a c.
Proof.
  intros M W1 W2 r y y'' Ha Hc. destruct (ml_r _ _ M r y Ha) as (y' & Hb & _).
  destruct (W1 r y y' Ha Hb) as (A1 & A2 & A3). destruct (W2 r y' y'' Hb Hc) as (B1 & B2 & B3). repeat split; auto.
Qed.
Lemma Wk_same m m' : m_reqs m' = m_reqs m -> Wk m m'.
Proof. intros E r y y' H H'. rewrite E, H in H'. inversion H'. apply wcond_refl. Qed.
Lemma Wk_ri_upd f r m : (forall y, wcond y (f y)) -> Wk m (ri_upd f r m).
Proof.
  intros Hf r' y y' H H'. unfold ri_upd in H'. cbn [m_reqs set_m_reqs] in H'. rewrite nth_error_upd_nth, H in H'.
  destruct (Nat.eqb r r'); cbn in H'; inversion H'; [apply Hf|apply wcond_refl].
Qed.

Lemma Wk_ci_upd a g c M : Wk a M -> Wk a (ci_upd g c M).
Proof. intros W r y y' H H'. exact (W r y y' H H'). Qed.

(* events other than EDial / ENew: the model is untouched *)
Definition plain_ev (e : ev) : Prop := match e with EDial _ _ => False | _ => True end.
Lemma Wk_track_ev m e : plain_ev e -> Wk m (track_ev m e).
Proof.
  destruct e; cbn [plain_ev track_ev]; intros He; try contradiction.
  - intros r' y y' H H'. cbn [m_reqs set_m_conns] in H'. revert r' y y' H H'. apply Wk_ri_upd. intros y. repeat split; auto. cbn. discriminate.
  - apply Wk_ci_upd. apply Wk_ri_upd. intros y. unfold wcond. match goal with |- context [if ?b then _ else _] => destruct b end; repeat split; auto; cbn; discriminate.
  - apply Wk_ri_upd. intros y. repeat split; auto.
  - eapply Wk_trans; [apply (mle_ri_upd (fun y => set_ri_pend false (set_ri_stat SDone y)) r m); intros y; repeat split| |].
    + apply Wk_ri_upd. intros y. repeat split; auto. cbn. discriminate.
    + destruct x as [|[]]; try apply Wk_refl; apply Wk_ri_upd; intros y; repeat split; auto; cbn; discriminate.
  - apply Wk_same. reflexivity.
  - apply Wk_same. reflexivity.
  - destruct ok; apply Wk_same; reflexivity.
Qed.

Lemma is_live_ev m e r y y' : plain_ev e -> nth_error (m_reqs m) r = Some y -> nth_error (m_reqs (track_ev m e)) r = Some y' ->
  is_live y = true -> (match e with EHand r' _ _ _ _ _ | ERes r' _ => r' <> r | _ => True end) -> is_live y' = true.
Proof.
  destruct e; cbn [plain_ev track_ev]; intros He H H' Hl Hne; try contradiction.
  - unfold ri_upd in H'. cbn [m_reqs set_m_reqs set_m_conns] in H'. rewrite nth_error_upd_nth, H in H'. destruct (Nat.eqb r0 r); cbn in H'; inversion H'; subst; exact Hl.
  - unfold ci_upd, ri_upd in H'. cbn [m_reqs set_m_reqs set_m_conns] in H'. rewrite nth_upd_ne, H in H' by exact Hne. inversion H'; subst. exact Hl.
  - unfold ri_upd in H'. cbn [m_reqs set_m_reqs] in H'. rewrite nth_error_upd_nth, H in H'. destruct (Nat.eqb r0 r); cbn in H'; inversion H'; subst; exact Hl.
  - assert (E : nth_error (m_reqs (ri_upd (fun y0 => set_ri_pend false (set_ri_stat SDone y0)) r0 m)) r = Some y)
      by (unfold ri_upd; cbn [m_reqs set_m_reqs]; rewrite nth_upd_ne by exact Hne; exact H).
    destruct x as [|[]]; try (rewrite E in H'; inversion H'; subst; exact Hl);
      (unfold ri_upd in H' at 1; cbn [m_reqs set_m_reqs] in H'; rewrite nth_upd_ne in H' by exact Hne; rewrite E in H'; inversion H'; subst; exact Hl).
  - unfold ci_upd in H'. cbn [m_reqs set_m_conns] in H'. rewrite H in H'. inversion H'; subst. exact Hl.
  - unfold ci_upd in H'. cbn [m_reqs set_m_conns] in H'. rewrite H in H'. inversion H'; subst. exact Hl.
  - destruct ok; [unfold ci_upd in H'; cbn [m_reqs set_m_conns] in H'|]; rewrite H in H'; inversion H'; subst; exact Hl.
Qed.

Lemma R2_ev ex m s e :
  plain_ev e -> (match e with EHand r _ _ _ _ _ | ERes r _ => forall ck, get_req s r <> Some (RCheckout ck) | _ => True end) ->
  R2 ex m s -> R2 ex (track_ev m e) s.
Proof.
  intros He Hn H. apply (R2_weak ex m); [apply mle_track_ev| | |exact H].
  { intros r y y' Hy Hy'. destruct (Wk_track_ev m e He r y y' Hy Hy') as (A & B & C). split; [exact C|left; split; assumption]. }
  intros r ck y' Hq Hy'. destruct (z_live _ _ _ H r ck Hq) as (y & Hy & Hl).
  eapply (is_live_ev m e r y y' He Hy Hy' Hl). destruct e; auto; intros ->; eapply Hn; eauto.
Qed.

(* ---------------------------------------------------------------- model moves, tracker fixed *)
Lemma mk_toks s s' t : toks s' = toks s -> mk s' t = mk s t.
Proof. intros E. unfold mk. destruct t; [reflexivity|]. cbn [get_tok]. rewrite E. reflexivity. Qed.

Lemma R2_frame ex m s s' :
  (forall c, share_of s' c = share_of s c) -> (forall c, share_of s c = true -> is_open s' c = true -> is_open s c = true) ->
  List.length (conns s') = List.length (conns s) ->
  dials s' = dials s -> reqs s' = reqs s -> (forall t, get_tok s' t = get_tok s t) -> tasks s' = tasks s ->
  (List.length (toks s) = List.length (keys s) -> List.length (toks s') = List.length (keys s')) -> R2 ex m s -> R2 ex m s'.
Proof.
  intros Es Eo El Ed Er Gt Ek Etk H. destruct H.
  assert (Mk : forall t, mk s' t = mk s t) by (intros; unfold mk; rewrite Gt; reflexivity).
  constructor; unfold get_dial, get_req in *; rewrite ?Ed, ?Er, ?Ek; auto.
  - intros r ck Hq. destruct (z_inner0 r ck Hq) as (A & B & C & D). split; [exact A|split; [exact B|split; [|exact D]]].
    intros Hi d Hd. unfold get_dial in *. rewrite Ed in Hd. eauto.
  - intros Hp r ck d Hq Hd Hs. rewrite Mk, Gt. eauto.
  - intros Hp x d Hx Hd Hpr Hst. rewrite Mk. eauto.
  - intros t x c a Hm Hin. rewrite Mk in Hm. rewrite Gt in Hin. rewrite Es. eauto.
  - intros y ck c x Hq Hc Hs Hm. rewrite Mk in Hm. rewrite Es in Hs. eauto.
  - intros Hp y ck c x Hq Hc Hs Ho. rewrite Es in Hs. apply (Eo c Hs) in Ho. eauto.
  - intros y ck c Hq Hc Hs Ho. rewrite Es in Hs. apply (Eo c Hs) in Ho. eauto.
  - intros t x Hm. rewrite Mk in Hm. eauto.
  - intros t c a Hin. rewrite Gt in Hin. rewrite El. eauto.
  - intros y ck c Hq Hc. rewrite El. eauto.
Qed.

Lemma is_open_upd_shared c f s c' :
  (forall cn, c_share (f cn) = c_share cn) -> (forall cn, c_open (f cn) = c_open cn) ->
  share_of s c' = true -> is_open (upd_conn c f s) c' = is_open s c'.
Proof.
  intros Hs Ho Hsh. unfold is_open, share_of in *. rewrite get_conn_upd. destruct (Nat.eqb c c'); [|reflexivity].
  destruct (get_conn s c') as [cn|]; cbn [option_map]; [|reflexivity]. rewrite Hs, Hsh, Ho. reflexivity.
Qed.

Lemma R2_conn ex m s c f :
  (forall cn, c_share (f cn) = c_share cn) -> (forall cn, c_open (f cn) = c_open cn) -> R2 ex m s -> R2 ex m (upd_conn c f s).
Proof.
  intros Hs Ho. apply R2_frame; try reflexivity.
  - intros c'. apply share_of_upd. exact Hs.
  - intros c' Hsh E. rewrite is_open_upd_shared in E; assumption.
  - unfold upd_conn. cbn [conns set_conns]. apply upd_len.
  - intros E; exact E.
Qed.

(* a request entry becomes a non-checkout *)
Lemma R2_set_req_gone ex m s w v : (forall ck, v <> RCheckout ck) -> R2 ex m s -> R2 ex m (set_req w v s).
Proof.
  intros Hv H. destruct H.
  assert (Gq : forall r ck, get_req (set_req w v s) r = Some (RCheckout ck) -> get_req s r = Some (RCheckout ck)).
  { intros r ck Hq. rewrite get_req_set in Hq. destruct (Nat.eqb w r); [|exact Hq].
    destruct (get_req s r); cbn in Hq; [|discriminate]. inversion Hq. exfalso. eapply Hv. eauto. }
  constructor; auto.
  - intros r ck Hq. eauto.
  - intros r ck Hq. apply (z_inner0 r ck). auto.
  - intros Hp r ck d Hq Hd Hs. apply (z_A0 Hp r ck d); auto.
  - intros y ck c x Hq. eauto.
  - intros Hp y ck c x Hq. eauto.
  - intros y ck c Hq. eauto.
  - intros y ck c Hq. eauto.
Qed.

(* a checkout entry is replaced by a checkout with the same token / inner state *)
Lemma R2_set_ck ex m s w ck ck' :
  get_req s w = Some (RCheckout ck) -> k_token ck' = k_token ck -> InnerOK s w ck' ->
  (k_conn ck' = k_conn ck \/ k_conn ck' = None) ->
  (g_pool cfg = true -> forall d, get_dial s w = Some d -> d_stage d = DNew -> k_waiter ck' = WIdle /\ (k_slot ck' = None -> k_slot ck = None)) ->
  R2 ex m s -> R2 ex m (set_req w (RCheckout ck') s).
Proof.
  intros Hq Et Ei Ec HA H. destruct H.
  assert (Gq : forall r ck1, get_req (set_req w (RCheckout ck') s) r = Some (RCheckout ck1) ->
            (r <> w /\ get_req s r = Some (RCheckout ck1)) \/ (r = w /\ ck1 = ck')).
  { intros r ck1 Hq1. rewrite get_req_set in Hq1. destruct (Nat.eqb_spec w r) as [<-|Hne]; [|left; auto].
    rewrite Hq in Hq1. cbn in Hq1. inversion Hq1. right. auto. }
  constructor; auto.
  - intros r ck1 Hq1. destruct (Gq r ck1 Hq1) as [[_ Hq0]|[-> ->]]; eauto.
  - intros r ck1 Hq1. destruct (Gq r ck1 Hq1) as [[_ Hq0]|[-> ->]]; [apply (z_inner0 r ck1 Hq0)|exact Ei].
  - intros Hp r ck1 d Hq1 Hd Hs. destruct (Gq r ck1 Hq1) as [[_ Hq0]|[-> ->]]; [apply (z_A0 Hp r ck1 d); auto|].
    destruct (HA Hp d Hd Hs) as [W S0]. destruct (z_A0 Hp w ck d Hq Hd Hs) as [_ B]. split; [exact W|]. intros Hn. rewrite Et. apply B, S0, Hn.
  - intros y ck1 c x Hq1 Hc. destruct (Gq y ck1 Hq1) as [[_ Hq0]|[-> ->]]; [eauto|].
    destruct Ec as [Ec|Ec]; rewrite Ec in Hc; [|discriminate]. rewrite Et. eauto.
  - intros Hp y ck1 c x Hq1 Hc. destruct (Gq y ck1 Hq1) as [[_ Hq0]|[-> ->]]; [eauto|].
    destruct Ec as [Ec|Ec]; rewrite Ec in Hc; [|discriminate]. rewrite Et. eauto.
  - intros y ck1 c Hq1 Hc. destruct (Gq y ck1 Hq1) as [[_ Hq0]|[-> ->]]; [eauto|].
    destruct Ec as [Ec|Ec]; rewrite Ec in Hc; [|discriminate]. eauto.
  - intros y ck1 c Hq1 Hc. destruct (Gq y ck1 Hq1) as [[_ Hq0]|[-> ->]]; [eauto|].
    destruct Ec as [Ec|Ec]; rewrite Ec in Hc; [|discriminate]. eauto.
Qed.

Lemma R2_upd_dial ex m s r f :
  (forall d, get_dial s r = Some d -> d_proto (f d) = d_proto d) ->
  (forall d, get_dial s r = Some d -> d_stage (f d) = DNew -> d_stage d = DNew) ->
  (forall d, get_dial s r = Some d -> d_stage d = DGone -> d_stage (f d) = DGone) ->
  (forall y d, nth_error (m_reqs m) r = Some y -> get_dial s r = Some d -> ri_dial y = DsFlying -> ri_resolved y = None ->
     (is_live y = true \/ (g_cont cfg = true /\ g_pool cfg = true)) -> d_stage (f d) = DInFlight) ->
  R2 ex m s -> R2 ex m (upd_dial r f s).
Proof.
  intros P1 P2 P3 P4 H. destruct H.
  assert (Gd : forall r' d', get_dial (upd_dial r f s) r' = Some d' ->
            (r' <> r /\ get_dial s r' = Some d') \/ (r' = r /\ exists d, get_dial s r = Some d /\ d' = f d)).
  { intros r' d' Hd. rewrite get_dial_upd in Hd. destruct (Nat.eqb_spec r r') as [<-|Hne]; [|left; auto].
    destruct (get_dial s r) as [d|]; cbn in Hd; [|discriminate]. inversion Hd. right. eauto. }
  constructor; auto.
  - intros r' y d' Hy Hd. destruct (Gd r' d' Hd) as [[_ Hd0]|[-> (d & Hd0 & ->)]]; [eauto|]. rewrite (P1 d Hd0). eauto.
  - intros r' y Hy Hf. destruct (z_dnw0 r' y Hy Hf) as (d & Hd & Hn). rewrite get_dial_upd. destruct (Nat.eqb_spec r r') as [<-|]; rewrite Hd; cbn [option_map]; [|eauto].
    exists (f d). split; [reflexivity|]. intros E. apply Hn. eapply P2; eauto.
  - intros r' y d' Hy Hd Hf Hr Hl. destruct (Gd r' d' Hd) as [[_ Hd0]|[-> (d & Hd0 & ->)]]; [eauto|]. eapply P4; eauto.
  - intros r' ck Hq. destruct (z_inner0 r' ck Hq) as (A & B & C & D). split; [exact A|split; [exact B|split; [|exact D]]].
    intros Hi d' Hd. destruct (Gd r' d' Hd) as [[_ Hd0]|[-> (d & Hd0 & ->)]]; [eauto|]. apply (P3 d Hd0). eauto.
  - intros Hp r' ck d' Hq Hd Hs. destruct (Gd r' d' Hd) as [[_ Hd0]|[-> (d & Hd0 & ->)]]; [apply (z_A0 Hp r' ck d'); auto|].
    rewrite (P1 d Hd0). apply (z_A0 Hp r ck d); auto; eapply P2; eauto.
  - intros Hp x d' Hx Hd Hpr Hst. destruct (Gd x d' Hd) as [[_ Hd0]|[-> (d & Hd0 & ->)]]; [eauto|].
    rewrite (P1 d Hd0) in Hpr. apply (z_B0 Hp r d Hx Hd0 Hpr). intros E. apply Hst. apply (P3 d Hd0 E).
  - intros tid rid t own Ht. destruct (z_F0 tid rid t own Ht) as (d & Hd & Hn). rewrite get_dial_upd. destruct (Nat.eqb_spec r rid) as [->|]; rewrite Hd; cbn [option_map]; [|eauto].
    exists (f d). split; [reflexivity|]. intros E. apply Hn. eapply P2; eauto.
Qed.

(* tasks *)
Lemma R2_spawn ex m s tk :
  (forall rid t own, tk = TDelayed rid t own -> exists d, get_dial s rid = Some d /\ d_stage d <> DNew) -> R2 ex m s -> R2 ex m (spawn tk s).
Proof.
  intros Hd H. destruct H. constructor; auto.
  intros tid rid t own Ht. unfold spawn in Ht. cbn [tasks set_runq set_tasks] in Ht. rewrite nth_snoc in Ht.
  destruct (Nat.ltb tid (List.length (tasks s))); [eapply z_F0; exact Ht|].
  destruct (Nat.eqb tid (List.length (tasks s))); [|discriminate]. inversion Ht; subst. eapply Hd. reflexivity.
Qed.
Lemma R2_finish_task ex m s tid : R2 ex m s -> R2 ex m (finish_task tid s).
Proof.
  intros H. destruct H. constructor; auto.
  intros tid' rid t own Ht. unfold finish_task in Ht. cbn [tasks set_tasks] in Ht. rewrite nth_error_upd_nth in Ht.
  destruct (Nat.eqb tid tid'); [destruct (nth_error (tasks s) tid'); discriminate|]. eapply z_F0; exact Ht.
Qed.

(* a new connection *)
Lemma is_open_app s cn c : c <> List.length (conns s) -> is_open (set_conns (conns s ++ [cn]) s) c = is_open s c.
Proof. intros H. unfold is_open. rewrite get_conn_app by exact H. reflexivity. Qed.

Lemma share_of_app_lt s cn c : c < List.length (conns s) -> share_of (set_conns (conns s ++ [cn]) s) c = share_of s c.
Proof. intros H. unfold share_of. rewrite get_conn_app by lia. reflexivity. Qed.

Lemma R2_new_conn ex m s cn : R2 ex m s -> R2 ex m (set_conns (conns s ++ [cn]) s).
Proof.
  intros H. destruct H. set (s' := set_conns (conns s ++ [cn]) s).
  assert (Ll : List.length (conns s') = S (List.length (conns s))) by (unfold s'; cbn [conns set_conns]; rewrite app_length; cbn; lia).
  constructor; auto.
  - intros t x c a Hm Hin. unfold s'. rewrite share_of_app_lt by (eapply z_bi0; eauto). eauto.
  - intros y ck c x Hq Hc Hs Hm. unfold s' in Hs. rewrite share_of_app_lt in Hs by (eapply z_bk0; eauto). eauto.
  - intros Hp y ck c x Hq Hc Hs Ho. pose proof (z_bk0 y ck c Hq Hc) as Hb. unfold s' in Hs, Ho.
    rewrite share_of_app_lt in Hs by exact Hb. rewrite is_open_app in Ho by lia. eauto.
  - intros y ck c Hq Hc Hs Ho. pose proof (z_bk0 y ck c Hq Hc) as Hb. unfold s' in Hs, Ho.
    rewrite share_of_app_lt in Hs by exact Hb. rewrite is_open_app in Ho by lia. eauto.
  - intros t c a Hin. rewrite Ll. pose proof (z_bi0 t c a Hin). lia.
  - intros y ck c Hq Hc. rewrite Ll. pose proof (z_bk0 y ck c Hq Hc). lia.
Qed.

(* ---------------------------------------------------------------- tokens *)
(* the waiter walk does not look at the token table *)
Lemma deliver_upd_tok w p t f s : deliver w p (upd_tok t f s) = upd_tok t f (deliver w p s).
Proof.
  unfold deliver. destruct t as [|i]; [reflexivity|]. change (get_req (upd_tok (S i) f s) w) with (get_req s w).
  destruct (get_req s w) as [[|ck| | |]|]; try reflexivity. destruct (k_rxpolled ck); reflexivity.
Qed.
Lemma walk_upd_tok t c sh t' f : forall ws s,
  walk_waiters t c sh ws (upd_tok t' f s) =
  (fst (fst (walk_waiters t c sh ws s)), snd (fst (walk_waiters t c sh ws s)), upd_tok t' f (snd (walk_waiters t c sh ws s))).
Proof.
  induction ws as [|[w b] ws IH]; intros s; cbn [walk_waiters fst snd]; [reflexivity|].
  assert (E : rx_live (upd_tok t' f s) w = rx_live s w) by (destruct t'; reflexivity). rewrite E.
  destruct (rx_live s w); [destruct sh|].
  - assert (E2 : clone_conn c (upd_tok t' f s) = upd_tok t' f (clone_conn c s)) by (destruct t'; reflexivity).
    rewrite E2, deliver_upd_tok. apply IH.
  - cbn [fst snd]. rewrite deliver_upd_tok. reflexivity.
  - apply IH.
Qed.

Lemma R2_tok ex m s t f :
  (g_pool cfg = true -> forall r ck d, get_req s r = Some (RCheckout ck) -> k_token ck = t -> get_dial s r = Some d -> d_stage d = DNew ->
     k_slot ck = None -> (d_proto d = H2 -> p_marker (f (get_tok s t)) = Some r) /\ In (r, false) (p_waiting (f (get_tok s t)))) ->
  (g_pool cfg = true -> forall x d, Some x <> ex -> get_dial s x = Some d -> d_proto d = H2 -> d_stage d <> DGone -> rtk m x = t ->
     p_marker (f (get_tok s t)) = Some x \/ SS m x = true \/ d6 m x = true) ->
  (forall x c a, p_marker (f (get_tok s t)) = Some x -> In (c, a) (p_idle (f (get_tok s t))) -> share_of s c = false) ->
  (forall y ck c x, get_req s y = Some (RCheckout ck) -> k_conn ck = Some c -> share_of s c = true -> k_token ck = t ->
     p_marker (f (get_tok s t)) = Some x -> y < x) ->
  (forall x, p_marker (f (get_tok s t)) = Some x -> x < List.length (m_reqs m) /\ (g_pool cfg = true -> rtk m x = t)) ->
  (forall c a, In (c, a) (p_idle (f (get_tok s t))) -> c < List.length (conns s)) ->
  R2 ex m s -> R2 ex m (upd_tok t f s).
Proof.
  intros HA HB HC HD HM HI H.
  assert (Gt : forall t0, get_tok (upd_tok t f s) t0 = get_tok s t0 \/ (t0 = t /\ get_tok (upd_tok t f s) t0 = f (get_tok s t))).
  { intros t0. destruct (Nat.eq_dec t t0) as [<-|Hne]; [|left; apply get_tok_upd_ne; exact Hne].
    destruct (get_tok_upd_eq t f s) as [E|E]; [left; exact E|right; auto]. }
  assert (Fq : forall r, get_req (upd_tok t f s) r = get_req s r) by (intros; destruct t; reflexivity).
  assert (Fd : forall r, get_dial (upd_tok t f s) r = get_dial s r) by (intros; destruct t; reflexivity).
  assert (Fs : forall c, share_of (upd_tok t f s) c = share_of s c) by (intros; apply share_of_upd_tok).
  assert (Fo : forall c, is_open (upd_tok t f s) c = is_open s c) by (intros; destruct t; reflexivity).
  assert (Fk : tasks (upd_tok t f s) = tasks s) by (destruct t; reflexivity).
  assert (Fr : reqs (upd_tok t f s) = reqs s) by (destruct t; reflexivity).
  assert (Fc : conns (upd_tok t f s) = conns s) by (destruct t; reflexivity).
  destruct H. constructor; unfold mk in *.
  - intros r y d Hy Hd. rewrite Fd in Hd. eauto.
  - intros r y Hy Hf. rewrite Fd. eauto.
  - intros r y d Hy Hd. rewrite Fd in Hd. eauto.
  - intros r ck Hq. rewrite Fq in Hq. eauto.
  - intros r ck Hq. rewrite Fq in Hq. destruct (z_inner0 r ck Hq) as (A & B & C & D). split; [exact A|split; [exact B|split; [|exact D]]]. intros Hi d Hd. rewrite Fd in Hd. eauto.
  - exact z_at0.
  - intros Hp r ck d Hq Hd Hs. rewrite Fq in Hq. rewrite Fd in Hd. destruct (z_A0 Hp r ck d Hq Hd Hs) as [W B]. split; [exact W|]. intros Hn.
    destruct (Gt (k_token ck)) as [E|[Et E]]; rewrite E; [apply B, Hn|]. eapply HA; eauto.
  - intros Hp x d Hx Hd Hpr Hst. rewrite Fd in Hd. destruct (Gt (rtk m x)) as [E|[Et E]]; rewrite E; [eauto|]. eapply HB; eauto.
  - intros t0 x c a Hm Hin. rewrite Fs. destruct (Gt t0) as [E|[Et E]]; rewrite E in Hm, Hin; [eauto|]. eapply HC; eauto.
  - intros y ck c x Hq Hc Hs Hm. rewrite Fq in Hq. rewrite Fs in Hs. destruct (Gt (k_token ck)) as [E|[Et E]]; rewrite E in Hm; [eauto|]. eapply HD; eauto.
  - intros Hp y ck c x Hq Hc Hs Ho. rewrite Fq in Hq. rewrite Fs in Hs. rewrite Fo in Ho. eauto.
  - intros y ck c Hq Hc Hs Ho. rewrite Fq in Hq. rewrite Fs in Hs. rewrite Fo in Ho. eauto.
  - intros tid rid t0 own Ht. rewrite Fk in Ht. rewrite Fd. eauto.
  - intros t0 x Hm. destruct (Gt t0) as [E|[Et E]]; rewrite E in Hm; [eauto|]. subst t0. eapply HM; eauto.
  - intros t0 c a Hin. rewrite Fc. destruct (Gt t0) as [E|[Et E]]; rewrite E in Hin; [eauto|]. eapply HI; eauto.
  - intros y ck c Hq Hc. rewrite Fq in Hq. rewrite Fc. eauto.
  - destruct t as [|i]; [exact z_tk0|]. cbn [upd_tok toks keys set_toks]. rewrite upd_len. exact z_tk0.
Qed.

(* ---------------------------------------------------------------- the S2 part of the invariant over the event log *)
Definition K2 (ex : option nat) (m0 : mst) (s : state) : Prop :=
  evs_ok (cS2 cfg) m0 (rev (out s)) = true /\ R2 ex (cur m0 s) s.

Lemma K2_R ex m0 s : K2 ex m0 s -> R2 ex (cur m0 s) s. Proof. intros H; apply H. Qed.

Lemma K2_state ex ex' m0 s s' : out s' = out s -> R2 ex' (cur m0 s) s' -> K2 ex m0 s -> K2 ex' m0 s'.
Proof. intros Eo HR (H1 & _). unfold K2, cur in *. rewrite Eo. auto. Qed.

Lemma cS2_plain m e : plain_ev e -> cS2 cfg m e = true.
Proof. destruct e; cbn; auto; contradiction. Qed.

Lemma K2_emit ex m0 e s :
  plain_ev e -> (match e with EHand r _ _ _ _ _ | ERes r _ => forall ck, get_req s r <> Some (RCheckout ck) | _ => True end) ->
  K2 ex m0 s -> K2 ex m0 (emit e s).
Proof.
  intros He Hn (H1 & H2). unfold K2. rewrite cur_emit. split.
  - unfold emit. cbn [out set_out rev]. rewrite evs_ok_snoc. fold (cur m0 s). rewrite H1, (cS2_plain _ e He). reflexivity.
  - eapply R2_frame; [| | | | | | | |apply (R2_ev ex (cur m0 s) s e He Hn H2)]; try reflexivity; [intros c _ E; exact E|intros E; exact E].
Qed.

Lemma K2_same ex m0 s s' :
  out s' = out s -> conns s' = conns s -> dials s' = dials s -> reqs s' = reqs s -> toks s' = toks s -> tasks s' = tasks s -> keys s' = keys s ->
  K2 ex m0 s -> K2 ex m0 s'.
Proof.
  intros Eo Ec Ed Er Et Ek Ey H. eapply (K2_state ex ex m0 s); [exact Eo| |exact H].
  assert (Gt : forall t, get_tok s' t = get_tok s t) by (intros t; destruct t; [reflexivity|]; cbn [get_tok]; rewrite Et; reflexivity).
  eapply R2_frame; [| | | | |exact Gt| | |apply (K2_R _ _ _ H)]; auto.
  - intros c. apply share_of_conns, Ec.
  - intros c _. unfold is_open, get_conn. rewrite Ec. auto.
  - rewrite Ec. reflexivity.
  - rewrite Et, Ey. auto.
Qed.

Lemma K2_upd_conn ex m0 s c f :
  (forall cn, c_share (f cn) = c_share cn) -> (forall cn, c_open (f cn) = c_open cn) -> K2 ex m0 s -> K2 ex m0 (upd_conn c f s).
Proof. intros Hs Ho H. eapply (K2_state ex ex m0 s); [reflexivity| |exact H]. apply R2_conn; [exact Hs|exact Ho|apply (K2_R _ _ _ H)]. Qed.

Lemma K2_drop_conn ex m0 c s : K2 ex m0 s -> K2 ex m0 (drop_conn c s).
Proof.
  intros H. unfold drop_conn. destruct (get_conn s c) as [cn|]; [|exact H].
  assert (H1 : K2 ex m0 (upd_conn c (c_set_refs (pred (c_refs cn))) s)) by (apply K2_upd_conn; [reflexivity|reflexivity|exact H]).
  destruct (Nat.eqb _ _); [apply K2_emit; [exact I|exact I|exact H1]|exact H1].
Qed.

Lemma K2_clone_conn ex m0 c s : K2 ex m0 s -> K2 ex m0 (clone_conn c s).
Proof. apply K2_upd_conn; reflexivity. Qed.

Lemma K2_spawn ex m0 s tk :
  (forall rid t own, tk = TDelayed rid t own -> exists d, get_dial s rid = Some d /\ d_stage d <> DNew) -> K2 ex m0 s -> K2 ex m0 (spawn tk s).
Proof. intros Hd H. eapply (K2_state ex ex m0 s); [reflexivity| |exact H]. apply R2_spawn; [exact Hd|apply (K2_R _ _ _ H)]. Qed.

Lemma K2_pooled_drop ex m0 p s : K2 ex m0 s -> K2 ex m0 (pooled_drop p s).
Proof.
  intros H. destruct p as [c t]. unfold pooled_drop. destruct (share_of s c); [apply K2_drop_conn, H|].
  apply K2_spawn; [discriminate|exact H].
Qed.

Lemma K2_set_ck ex m0 s w ck ck' :
  get_req s w = Some (RCheckout ck) -> k_token ck' = k_token ck -> InnerOK s w ck' ->
  (k_conn ck' = k_conn ck \/ k_conn ck' = None) ->
  (g_pool cfg = true -> forall d, get_dial s w = Some d -> d_stage d = DNew -> k_waiter ck' = WIdle /\ (k_slot ck' = None -> k_slot ck = None)) ->
  K2 ex m0 s -> K2 ex m0 (set_req w (RCheckout ck') s).
Proof. intros A B C D E H. eapply (K2_state ex ex m0 s); [reflexivity| |exact H]. eapply R2_set_ck; eauto. apply (K2_R _ _ _ H). Qed.

Lemma K2_deliver ex m0 w p s : K2 ex m0 s -> K2 ex m0 (deliver w p s).
Proof.
  intros H. unfold deliver. destruct (get_req s w) as [[|ck| | |]|] eqn:Hq; try exact H.
  assert (H1 : K2 ex m0 (set_req w (RCheckout (k_set_slot (Some p) ck)) s)).
  { eapply K2_set_ck; [exact Hq|reflexivity|apply (z_inner _ _ _ (K2_R _ _ _ H) w ck Hq)|left; reflexivity| |exact H].
    intros Hp d Hd Hs. split; [|cbn; discriminate]. apply (z_A _ _ _ (K2_R _ _ _ H) Hp w ck d Hq Hd Hs). }
  destruct (k_rxpolled ck); [|exact H1]. eapply K2_same; [| | | | | | |exact H1]; reflexivity.
Qed.

(* ---------------------------------------------------------------- the waiter walk delivers *)
Definition hasslot (s : state) (w : nat) : Prop := exists ck, get_req s w = Some (RCheckout ck) /\ k_slot ck <> None.

Lemma rx_live_deliver w p s w' : rx_live (deliver w p s) w' = rx_live s w'.
Proof.
  unfold deliver. destruct (get_req s w) as [[|ck| | |]|] eqn:Hq; try reflexivity.
  assert (E : rx_live (set_req w (RCheckout (k_set_slot (Some p) ck)) s) w' = rx_live s w').
  { unfold rx_live. rewrite get_req_set. destruct (Nat.eqb_spec w w') as [<-|]; [|reflexivity]. rewrite Hq. reflexivity. }
  destruct (k_rxpolled ck); exact E.
Qed.
Lemma hasslot_deliver_same w p s : rx_live s w = true -> hasslot (deliver w p s) w.
Proof.
  intros Hl. unfold rx_live in Hl. unfold deliver, hasslot. destruct (get_req s w) as [[|ck| | |]|] eqn:Hq; try discriminate.
  exists (k_set_slot (Some p) ck). split; [|cbn; discriminate].
  destruct (k_rxpolled ck); unfold get_req, wake_req, set_req; cbn [reqs set_woken set_reqs]; rewrite nth_upd_eq; unfold get_req in Hq; rewrite Hq; reflexivity.
Qed.
Lemma hasslot_deliver_other w p s w' : hasslot s w' -> hasslot (deliver w p s) w'.
Proof.
  intros (ck' & Hq' & Hs). destruct (Nat.eq_dec w w') as [<-|Hne].
  - unfold deliver, hasslot. rewrite Hq'. exists (k_set_slot (Some p) ck'). split; [|cbn; discriminate].
    destruct (k_rxpolled ck'); unfold get_req, wake_req, set_req; cbn [reqs set_woken set_reqs]; rewrite nth_upd_eq; unfold get_req in Hq'; rewrite Hq'; reflexivity.
  - exists ck'. split; [|exact Hs]. unfold deliver. destruct (get_req s w) as [[|ck| | |]|]; try exact Hq'.
    destruct (k_rxpolled ck); unfold get_req, wake_req, set_req in *; cbn [reqs set_woken set_reqs]; rewrite nth_upd_ne by exact Hne; exact Hq'.
Qed.

Lemma walk_shared_slots t c : forall ws s w b,
  In (w, b) ws -> rx_live s w = true -> hasslot (snd (walk_waiters t c true ws s)) w.
Proof.
  assert (Keep : forall ws s w, hasslot s w -> hasslot (snd (walk_waiters t c true ws s)) w).
  { induction ws as [|[w0 b0] ws IH]; intros s w H; cbn [walk_waiters]; [exact H|].
    destruct (rx_live s w0); [|apply IH, H]. apply IH. apply hasslot_deliver_other. exact H. }
  induction ws as [|[w0 b0] ws IH]; intros s w b Hin Hl; [destruct Hin|]. cbn [walk_waiters].
  destruct Hin as [E|Hin].
  - inversion E; subst. rewrite Hl. apply Keep. apply hasslot_deliver_same. exact Hl.
  - destruct (rx_live s w0); [|eapply IH; eauto]. eapply IH; [exact Hin|]. rewrite rx_live_deliver. exact Hl.
Qed.

Lemma walk_single_slots t c : forall ws s w b,
  In (w, b) ws -> rx_live s w = true ->
  hasslot (snd (walk_waiters t c false ws s)) w \/ In (w, b) (fst (fst (walk_waiters t c false ws s))).
Proof.
  induction ws as [|[w0 b0] ws IH]; intros s w b Hin Hl; [destruct Hin|]. cbn [walk_waiters].
  destruct Hin as [E|Hin].
  - inversion E; subst. rewrite Hl. cbn [fst snd]. left. apply hasslot_deliver_same. exact Hl.
  - destruct (rx_live s w0); cbn [fst snd]; [right; exact Hin|eapply IH; eauto].
Qed.

Lemma rx_live_walk t c sh ws : forall s w, rx_live (snd (walk_waiters t c sh ws s)) w = rx_live s w.
Proof.
  induction ws as [|[w0 b0] ws IH]; intros s w; cbn [walk_waiters]; [reflexivity|].
  destruct (rx_live s w0); [destruct sh|]; cbn [snd]; [rewrite IH, rx_live_deliver; reflexivity|apply rx_live_deliver|apply IH].
Qed.

Lemma K2_walk ex m0 t c sh ws : forall s, K2 ex m0 s -> K2 ex m0 (snd (walk_waiters t c sh ws s)).
Proof.
  induction ws as [|[w b] ws IH]; intros s H; cbn [walk_waiters]; [exact H|].
  destruct (rx_live s w); [destruct sh|]; cbn [snd].
  - apply IH, K2_deliver, K2_clone_conn, H.
  - apply K2_deliver, H.
  - apply IH, H.
Qed.

Lemma upd_tok_comp t g f s : upd_tok t g (upd_tok t f s) = upd_tok t (fun p => g (f p)) s.
Proof. destruct t as [|i]; [reflexivity|]. cbn [upd_tok toks set_toks]. unfold set_toks. cbn. rewrite upd_upd. reflexivity. Qed.

Lemma waiting_unmark t s : p_waiting (get_tok (upd_tok t (set_marker None) s) t) = p_waiting (get_tok s t).
Proof. destruct (get_tok_upd_eq t (set_marker None) s) as [E|E]; rewrite E; reflexivity. Qed.

Lemma walk_shared_res t c : forall ws s, fst (walk_waiters t c true ws s) = ([], false).
Proof.
  induction ws as [|[w b] ws IH]; intros s; cbn [walk_waiters fst]; [reflexivity|]. destruct (rx_live s w); apply IH.
Qed.

Lemma cur_out m0 s s' : out s' = out s -> cur m0 s' = cur m0 s.
Proof. intros E. unfold cur. rewrite E. reflexivity. Qed.

Lemma K2_tok ex m0 s t f :
  (g_pool cfg = true -> forall r ck d, get_req s r = Some (RCheckout ck) -> k_token ck = t -> get_dial s r = Some d -> d_stage d = DNew ->
     k_slot ck = None -> (d_proto d = H2 -> p_marker (f (get_tok s t)) = Some r) /\ In (r, false) (p_waiting (f (get_tok s t)))) ->
  (g_pool cfg = true -> forall x d, Some x <> ex -> get_dial s x = Some d -> d_proto d = H2 -> d_stage d <> DGone -> rtk (cur m0 s) x = t ->
     p_marker (f (get_tok s t)) = Some x \/ SS (cur m0 s) x = true \/ d6 (cur m0 s) x = true) ->
  (forall x c a, p_marker (f (get_tok s t)) = Some x -> In (c, a) (p_idle (f (get_tok s t))) -> share_of s c = false) ->
  (forall y ck c x, get_req s y = Some (RCheckout ck) -> k_conn ck = Some c -> share_of s c = true -> k_token ck = t ->
     p_marker (f (get_tok s t)) = Some x -> y < x) ->
  (forall x, p_marker (f (get_tok s t)) = Some x -> x < List.length (m_reqs (cur m0 s)) /\ (g_pool cfg = true -> rtk (cur m0 s) x = t)) ->
  (forall c a, In (c, a) (p_idle (f (get_tok s t))) -> c < List.length (conns s)) ->
  K2 ex m0 s -> K2 ex m0 (upd_tok t f s).
Proof.
  intros HA HB HC HD HM HI H. eapply (K2_state ex ex m0 s); [apply out_upd_tok| |exact H].
  apply R2_tok; auto. apply (K2_R _ _ _ H).
Qed.

Lemma noslot_false s r ck : get_req s r = Some (RCheckout ck) -> k_slot ck = None -> hasslot s r -> False.
Proof. intros Hq Hn (ck' & Hq' & Hs). rewrite Hq in Hq'. inversion Hq'; subst. contradiction. Qed.

Lemma rx_live_idle s r ck : get_req s r = Some (RCheckout ck) -> k_waiter ck = WIdle -> rx_live s r = true.
Proof. intros Hq Hw. unfold rx_live. rewrite Hq, Hw. reflexivity. Qed.

Lemma K2_pool_push ex m0 n t c s :
  K2 ex m0 s -> c < List.length (conns s) ->
  (g_pool cfg = true -> share_of s c = true -> forall x, mk s t = Some x -> SS (cur m0 s) x = true \/ d6 (cur m0 s) x = true) ->
  K2 ex m0 (pool_push n t c s).
Proof.
  intros H Hb Hcl. unfold pool_push.
  destruct (share_of s c) eqn:Es.
  - (* multiplexed: the mark is cleared, every live waiter gets a handle *)
    set (s1 := upd_tok t (set_marker None) s).
    assert (Es1 : share_of s1 c = true) by (unfold s1; rewrite share_of_upd_tok; exact Es). rewrite Es1.
    assert (Ews : p_waiting (get_tok s1 t) = p_waiting (get_tok s t)) by apply waiting_unmark. rewrite Ews.
    unfold s1. rewrite walk_upd_tok. set (ws := p_waiting (get_tok s t)).
    pose proof (K2_walk ex m0 t c true ws s H) as HW. pose proof (walk_shared_slots t c ws s) as Hsl.
    pose proof (toks_walk_waiters t c true ws s) as Tk. pose proof (out_walk t c true ws s) as Ow.
    pose proof (rx_live_walk t c true ws s) as Lw. pose proof (xt_walk t c true ws s) as [_ Cl]. unfold clen in Cl.
    pose proof (walk_shared_res t c ws s) as Er.
    destruct (walk_waiters t c true ws s) as [[rest moved] s2]. cbn [fst snd] in *. inversion Er; subst rest moved. clear Er.
    assert (Gt2 : get_tok s2 t = get_tok s t) by (destruct t; [reflexivity|cbn [get_tok]; rewrite Tk; reflexivity]).
    assert (Cu : cur m0 s2 = cur m0 s) by (apply cur_out, Ow).
    assert (Nd : forall r ck d, g_pool cfg = true -> get_req s2 r = Some (RCheckout ck) -> k_token ck = t -> get_dial s2 r = Some d -> d_stage d = DNew -> k_slot ck = None -> False).
    { intros r ck d Hp Hq Ht Hd Hs Hn. destruct (z_A _ _ _ (K2_R _ _ _ HW) Hp r ck d Hq Hd Hs) as [Hw B]. destruct (B Hn) as [_ Hin].
      rewrite Ht, Gt2 in Hin. eapply (noslot_false s2 r ck Hq Hn). eapply Hsl; [exact Hin|]. rewrite <- Lw. eapply rx_live_idle; eauto. }
    rewrite upd_tok_comp.
    set (S3 := upd_tok t (fun p => set_waiting [] (set_marker None p)) s2).
    assert (H3 : K2 ex m0 S3).
    { apply K2_tok; [| | | | | |exact HW]; cbn [set_waiting set_marker p_marker p_idle p_waiting].
      - intros Hp r ck d Hq Ht Hd Hs Hn. exfalso. eapply Nd; eauto.
      - intros Hp x d Hx Hd Hpr Hst Hr. right. destruct (z_B _ _ _ (K2_R _ _ _ HW) Hp x d Hx Hd Hpr Hst) as [A|A]; [|exact A].
        rewrite Hr in A. unfold mk in A. rewrite Gt2 in A. rewrite Cu. apply (Hcl Hp eq_refl x). exact A.
      - discriminate.
      - discriminate.
      - discriminate.
      - intros c0 a Hin. eapply (z_bi _ _ _ (K2_R _ _ _ HW)). exact Hin. }
    destruct (Nat.ltb _ _); [|apply K2_drop_conn, H3].
    unfold S3. rewrite upd_tok_comp. change (now (upd_tok t (fun p => set_waiting [] (set_marker None p)) s2)) with (now S3).
    apply K2_tok; [| | | | | |exact HW]; cbn [set_idle set_waiting set_marker p_marker p_idle p_waiting].
    + intros Hp r ck d Hq Ht Hd Hs Hn. exfalso. eapply Nd; eauto.
    + intros Hp x d Hx Hd Hpr Hst Hr. right. destruct (z_B _ _ _ (K2_R _ _ _ HW) Hp x d Hx Hd Hpr Hst) as [A|A]; [|exact A].
      rewrite Hr in A. unfold mk in A. rewrite Gt2 in A. rewrite Cu. apply (Hcl Hp eq_refl x). exact A.
    + discriminate.
    + discriminate.
    + discriminate.
    + intros c0 a Hin. apply in_app_or in Hin as [Hin|[E|[]]]; [eapply (z_bi _ _ _ (K2_R _ _ _ HW)); exact Hin|]. inversion E; subst. lia.
  - (* not multiplexed: the first live waiter gets it, or it is parked *)
    rewrite Es. set (ws := p_waiting (get_tok s t)).
    pose proof (K2_walk ex m0 t c false ws s H) as HW. pose proof (walk_single_slots t c ws s) as Hsl.
    pose proof (toks_walk_waiters t c false ws s) as Tk. pose proof (rx_live_walk t c false ws s) as Lw.
    pose proof (xt_walk t c false ws s) as [_ Cl]. unfold clen in Cl. pose proof (conns_walk_sh t c false ws s c) as Sh2.
    destruct (walk_waiters t c false ws s) as [[rest moved] s2]. cbn [fst snd] in *.
    assert (Gt2 : get_tok s2 t = get_tok s t) by (destruct t; [reflexivity|cbn [get_tok]; rewrite Tk; reflexivity]).
    assert (Kp : forall r ck d, g_pool cfg = true -> get_req s2 r = Some (RCheckout ck) -> k_token ck = t -> get_dial s2 r = Some d -> d_stage d = DNew ->
              k_slot ck = None -> (d_proto d = H2 -> p_marker (get_tok s2 t) = Some r) /\ In (r, false) rest).
    { intros r ck d Hp Hq Ht Hd Hs Hn. destruct (z_A _ _ _ (K2_R _ _ _ HW) Hp r ck d Hq Hd Hs) as [Hw B]. destruct (B Hn) as [Hm Hin].
      rewrite Ht in Hm, Hin. split; [exact Hm|]. rewrite Gt2 in Hin.
      destruct (Hsl r false Hin) as [Hh|Hr]; [rewrite <- Lw; eapply rx_live_idle; eauto| |exact Hr]. exfalso. eapply noslot_false; eauto. }
    assert (H3 : K2 ex m0 (upd_tok t (set_waiting rest) s2)).
    { apply K2_tok; [| | | | | |exact HW]; cbn [set_waiting p_marker p_idle p_waiting].
      - intros Hp r ck d Hq Ht Hd Hs Hn. eapply Kp; eauto.
      - intros Hp x d Hx Hd Hpr Hst Hr. destruct (z_B _ _ _ (K2_R _ _ _ HW) Hp x d Hx Hd Hpr Hst) as [A|A]; [left; unfold mk in A; rewrite Hr in A; exact A|right; exact A].
      - intros x c0 a Hm Hin. eapply (z_C _ _ _ (K2_R _ _ _ HW)); eauto.
      - intros y ck c0 x Hq Hc Hs Ht Hm. eapply (z_D _ _ _ (K2_R _ _ _ HW)); eauto. unfold mk. rewrite Ht. exact Hm.
      - intros x Hm. apply (z_mx _ _ _ (K2_R _ _ _ HW) t x Hm).
      - intros c0 a Hin. eapply (z_bi _ _ _ (K2_R _ _ _ HW)). exact Hin. }
    destruct moved; [exact H3|]. destruct (Nat.ltb _ _); [|apply K2_drop_conn, H3].
    rewrite (now_upd_tok t (set_waiting rest) s2), upd_tok_comp.
    apply K2_tok; [| | | | | |exact HW]; cbn [set_idle set_waiting p_marker p_idle p_waiting].
    + intros Hp r ck d Hq Ht Hd Hs Hn. eapply Kp; eauto.
    + intros Hp x d Hx Hd Hpr Hst Hr. destruct (z_B _ _ _ (K2_R _ _ _ HW) Hp x d Hx Hd Hpr Hst) as [A|A]; [left; unfold mk in A; rewrite Hr in A; exact A|right; exact A].
    + intros x c0 a Hm Hin. apply in_app_or in Hin as [Hin|[E|[]]]; [eapply (z_C _ _ _ (K2_R _ _ _ HW)); eauto|]. inversion E; subst. rewrite Sh2. exact Es.
    + intros y ck c0 x Hq Hc Hs Ht Hm. eapply (z_D _ _ _ (K2_R _ _ _ HW)); eauto. unfold mk. rewrite Ht. exact Hm.
    + intros x Hm. apply (z_mx _ _ _ (K2_R _ _ _ HW) t x Hm).
    + intros c0 a Hin. apply in_app_or in Hin as [Hin|[E|[]]]; [eapply (z_bi _ _ _ (K2_R _ _ _ HW)); exact Hin|]. inversion E; subst. lia.
Qed.

Lemma K2_drop_sender ex m0 w s : K2 ex m0 s -> K2 ex m0 (drop_sender w s).
Proof.
  intros H. unfold drop_sender. destruct (get_req s w) as [[|ck| | |]|] eqn:Hq; try exact H.
  assert (H1 : K2 ex m0 (set_req w (RCheckout (k_set_txdropped true ck)) s)).
  { eapply K2_set_ck; [exact Hq|reflexivity|apply (z_inner _ _ _ (K2_R _ _ _ H) w ck Hq)|left; reflexivity| |exact H].
    intros Hp d Hd Hs. split; [|cbn; auto]. apply (z_A _ _ _ (K2_R _ _ _ H) Hp w ck d Hq Hd Hs). }
  destruct (k_waiter ck); try exact H; (destruct (k_rxpolled ck); [eapply K2_same; [| | | | | | |exact H1]; reflexivity|exact H1]).
Qed.

Lemma release_keeps ws : forall s r, In (r, false) ws -> In (r, false) (fst (release_pending ws s)).
Proof.
  induction ws as [|[w b] ws IH]; intros s r Hin; [destruct Hin|]. cbn [release_pending]. destruct b.
  - destruct Hin as [E|Hin]; [discriminate|]. apply IH. exact Hin.
  - specialize (IH s r). destruct (release_pending ws s) as [rest' s']. cbn [fst] in *. destruct Hin as [E|Hin]; [left; exact E|right; auto].
Qed.

Lemma K2_release_pending ex m0 ws : forall s, K2 ex m0 s -> K2 ex m0 (snd (release_pending ws s)).
Proof.
  induction ws as [|[w b] ws IH]; intros s H; cbn [release_pending]; [exact H|]. destruct b.
  - apply IH, K2_drop_sender, H.
  - specialize (IH s H). destruct (release_pending ws s). exact IH.
Qed.

Lemma frame_drop_sender w s :
  toks (drop_sender w s) = toks s /\ out (drop_sender w s) = out s /\ dials (drop_sender w s) = dials s /\ conns (drop_sender w s) = conns s /\
  List.length (reqs (drop_sender w s)) = List.length (reqs s).
Proof.
  unfold drop_sender. destruct (get_req s w) as [[|ck| | |]|]; auto. destruct (k_waiter ck); auto;
    destruct (k_rxpolled ck); cbn [toks out dials conns reqs wake_req set_woken set_req set_reqs]; rewrite upd_len; auto.
Qed.
Lemma frame_release ws : forall s,
  toks (snd (release_pending ws s)) = toks s /\ out (snd (release_pending ws s)) = out s /\ dials (snd (release_pending ws s)) = dials s /\
  conns (snd (release_pending ws s)) = conns s /\ List.length (reqs (snd (release_pending ws s))) = List.length (reqs s).
Proof.
  induction ws as [|[w b] ws IH]; intros s; cbn [release_pending]; [auto|]. destruct b.
  - destruct (IH (drop_sender w s)) as (A & B & C & D & E). destruct (frame_drop_sender w s) as (A' & B' & C' & D' & E'). repeat split; congruence.
  - specialize (IH s). destruct (release_pending ws s). exact IH.
Qed.

Lemma kp_bwd_ck s s' r ck' : kp s s' -> get_req s' r = Some (RCheckout ck') -> exists ck, get_req s r = Some (RCheckout ck).
Proof.
  intros K Hq. specialize (K r). unfold rkind in K. destruct (get_req s r) as [[|ck| | |]|]; try (rewrite K in Hq; discriminate). eauto.
Qed.

(* the owner [rid] ends its attempt: its mark (if still there) goes, the pending waiters are released *)
Lemma K2_pool_cancel ex m0 t rid s :
  (ex = Some rid \/ forall d, get_dial s rid = Some d -> d_stage d = DGone) ->
  (forall ck d, get_req s rid = Some (RCheckout ck) -> get_dial s rid = Some d -> d_stage d = DNew -> False) ->
  K2 ex m0 s -> K2 ex m0 (pool_cancel t rid s).
Proof.
  intros Hex Hnew H. unfold pool_cancel. destruct (p_marker (get_tok s t)) as [o|] eqn:Em; [|exact H].
  destruct (Nat.eqb_spec o rid) as [->|]; [|exact H].
  set (s1 := upd_tok t (set_marker None) s).
  assert (Ew : p_waiting (get_tok s1 t) = p_waiting (get_tok s t)) by apply waiting_unmark. rewrite Ew.
  set (ws := p_waiting (get_tok s t)).
  (* release first (it does not read the token table), then update the token *)
  assert (Comm : forall ws0 s0, release_pending ws0 (upd_tok t (set_marker None) s0) =
            (fst (release_pending ws0 s0), upd_tok t (set_marker None) (snd (release_pending ws0 s0)))).
  { induction ws0 as [|[w b] ws0 IH]; intros s0; cbn [release_pending fst snd]; [reflexivity|]. destruct b.
    - assert (E : drop_sender w (upd_tok t (set_marker None) s0) = upd_tok t (set_marker None) (drop_sender w s0)).
      { unfold drop_sender. destruct t as [|i]; [reflexivity|]. change (get_req (upd_tok (S i) (set_marker None) s0) w) with (get_req s0 w).
        destruct (get_req s0 w) as [[|ck| | |]|]; try reflexivity. destruct (k_waiter ck); try reflexivity; destruct (k_rxpolled ck); reflexivity. }
      rewrite E. apply IH.
    - rewrite IH. destruct (release_pending ws0 s0). reflexivity. }
  unfold s1. rewrite Comm.
  pose proof (K2_release_pending ex m0 ws s H) as H2. pose proof (release_keeps ws s) as Hk. pose proof (kp_release_pending ws s) as Kp2. destruct (frame_release ws s) as (Tk & Ow & Dw & Cw & Lw).
  destruct (release_pending ws s) as [rest s2]. cbn [fst snd] in *. rewrite upd_tok_comp.
  assert (Gt2 : get_tok s2 t = get_tok s t) by (destruct t; [reflexivity|cbn [get_tok]; rewrite Tk; reflexivity]).
  assert (Cu : cur m0 s2 = cur m0 s) by (apply cur_out, Ow).
  apply K2_tok; [| | | | | |exact H2]; cbn [set_waiting set_marker p_marker p_idle p_waiting].
  - intros Hp r ck d Hq Ht Hd Hs Hn. destruct (z_A _ _ _ (K2_R _ _ _ H2) Hp r ck d Hq Hd Hs) as [Hw B]. destruct (B Hn) as [Hm Hin].
    rewrite Ht in Hm, Hin. rewrite Gt2 in Hin. split; [|apply Hk, Hin].
    intros Hpr. specialize (Hm Hpr). unfold mk in Hm. rewrite Gt2, Em in Hm. inversion Hm; subst r. exfalso.
    destruct (kp_bwd_ck s s2 rid ck Kp2 Hq) as [ck0 Hq0]. unfold get_dial in Hd. rewrite Dw in Hd. eapply Hnew; eauto.
  - intros Hp x d Hx Hd Hpr Hst Hr. right. destruct (z_B _ _ _ (K2_R _ _ _ H2) Hp x d Hx Hd Hpr Hst) as [A|A]; [|exact A].
    exfalso. rewrite Hr in A. unfold mk in A. rewrite Gt2, Em in A. inversion A; subst x. destruct Hex as [->|Hg]; [apply Hx; reflexivity|].
    unfold get_dial in Hd. rewrite Dw in Hd. apply Hst. apply (Hg d Hd).
  - discriminate.
  - discriminate.
  - discriminate.
  - intros c0 a Hin. eapply (z_bi _ _ _ (K2_R _ _ _ H2)). exact Hin.
Qed.

Lemma K2_drop_all ex m0 l : forall s, K2 ex m0 s -> K2 ex m0 (drop_all l s).
Proof. induction l as [|[c a] l IH]; intros s H; cbn [drop_all]; [exact H|]. apply IH, K2_drop_conn, H. Qed.

Lemma K2_pop_loop ex m0 thr rl : forall s, K2 ex m0 s -> K2 ex m0 (snd (pop_loop thr rl s)).
Proof.
  induction rl as [|[c a] rl IH]; intros s H; cbn [pop_loop]; [exact H|].
  destruct (match thr with Some y => (a <? y)%N | None => false end); cbn [snd]; [apply K2_drop_all, K2_drop_conn, H|].
  destruct (is_open s c); cbn [snd]; [exact H|apply IH, K2_drop_conn, H].
Qed.

Lemma K2_pool_pop ex m0 to t s : K2 ex m0 s -> K2 ex m0 (snd (pool_pop to t s)).
Proof.
  intros H. unfold pool_pop. set (thr := expiry_threshold to (now s)). set (rl := rev (p_idle (get_tok s t))).
  pose proof (K2_pop_loop ex m0 thr rl s H) as H1. pose proof (toks_pop_loop thr rl s) as Tk.
  destruct (pop_loop thr rl s) as [[r rest] s1] eqn:Ep. cbn [snd] in *.
  destruct (pop_loop_shape thr rl s r rest s1 Ep) as (pre & Hrl & _).
  assert (Gt1 : get_tok s1 t = get_tok s t) by (destruct t; [reflexivity|cbn [get_tok]; rewrite Tk; reflexivity]).
  assert (Sub : forall e, In e (rev rest) -> In e (p_idle (get_tok s1 t))).
  { intros e He. rewrite Gt1. apply in_rev. apply in_rev in He. fold rl. rewrite Hrl. apply in_or_app. right. apply in_rev in He. apply in_rev. exact He. }
  apply K2_tok; [| | | | | |exact H1]; cbn [set_idle p_marker p_idle p_waiting].
  - intros Hp r0 ck d Hq Ht Hd Hs Hn. destruct (z_A _ _ _ (K2_R _ _ _ H1) Hp r0 ck d Hq Hd Hs) as [_ B]. rewrite Ht in B. apply B, Hn.
  - intros Hp x d Hx Hd Hpr Hst Hr. destruct (z_B _ _ _ (K2_R _ _ _ H1) Hp x d Hx Hd Hpr Hst) as [A|A]; [left; unfold mk in A; rewrite Hr in A; exact A|right; exact A].
  - intros x c a Hm Hin. eapply (z_C _ _ _ (K2_R _ _ _ H1) t x c a Hm). apply Sub, Hin.
  - intros y ck c x Hq Hc Hs Ht Hm. eapply (z_D _ _ _ (K2_R _ _ _ H1)); eauto. unfold mk. rewrite Ht. exact Hm.
  - intros x Hm. apply (z_mx _ _ _ (K2_R _ _ _ H1) t x Hm).
  - intros c a Hin. eapply (z_bi _ _ _ (K2_R _ _ _ H1) t c a). apply Sub, Hin.
Qed.

Lemma K2_register ex m0 t c s :
  K2 ex m0 s -> c < List.length (conns s) ->
  (g_pool cfg = true -> share_of s c = true -> is_open s c = true -> forall x, mk s t = Some x -> SS (cur m0 s) x = true \/ d6 (cur m0 s) x = true) ->
  K2 ex m0 (snd (register cfg t c s)).
Proof.
  intros H Hb Hcl. unfold register. destruct (g_pool cfg && negb (t =? 0)); [|exact H].
  destruct (share_of s c) eqn:Es; cbn [snd]; [|exact H]. destruct (is_open s c) eqn:Eo; [|exact H].
  apply K2_pool_push; [apply K2_clone_conn, H|unfold clone_conn, upd_conn; cbn [conns set_conns]; rewrite upd_len; exact Hb|].
  intros Hp _ x Hm. apply (Hcl Hp eq_refl eq_refl x Hm).
Qed.

Lemma same_key_r k k1 k2 : same_key k1 k2 = true -> same_key k k1 = same_key k k2.
Proof.
  intros H. destruct k as [k0|], k1 as [a|], k2 as [b|]; cbn in *; try reflexivity; try discriminate.
  destruct (key_eqb k0 b) eqn:E2.
  - eapply key_eqb_trans; [exact E2|]. rewrite key_eqb_sym. exact H.
  - destruct (key_eqb k0 a) eqn:E1; [|reflexivity]. rewrite <- E2. symmetry. eapply key_eqb_trans; eauto.
Qed.
Lemma same_key_since m k1 k2 i : same_key k1 k2 = true -> share_conn_since m k1 i = share_conn_since m k2 i.
Proof.
  intros H. unfold share_conn_since. apply existsb_ext'. intros [c y]. rewrite (same_key_r (conn_key m c) k1 k2 H). reflexivity.
Qed.

Lemma rtk_same_key m r1 r2 y1 y2 :
  nth_error (m_reqs m) r1 = Some y1 -> nth_error (m_reqs m) r2 = Some y2 -> same_key (ri_key y1) (ri_key y2) = true -> rtk m r1 = rtk m r2.
Proof.
  intros H1 H2 Hk. unfold rtk, req_key. rewrite H1, H2. destruct (ri_key y1) as [k1|], (ri_key y2) as [k2|]; cbn in Hk; try discriminate.
  cbn [key_tok]. apply same_key_tok. exact Hk.
Qed.

(* the heart of S2: a request that is about to dial holds the mark, every other in-flight HTTP/2 attempt of
   the origin would hold it too *)
Lemma cS2_dial ex m s rid k d ck0 x :
  R2 ex m s -> (ex = None \/ ex = Some rid) -> nth_error (m_reqs m) rid = Some x ->
  get_dial s rid = Some d -> d_stage d = DNew -> get_req s rid = Some (RCheckout ck0) -> (g_pool cfg = true -> k_slot ck0 = None) ->
  (g_pool cfg = true -> rtk m rid = k_token ck0) ->
  cS2 cfg m (EDial rid k) = true.
Proof.
  intros HR Hex Hx Hd Hs Hq Hn Ht. cbn [cS2]. rewrite Hx.
  destruct (g_pool cfg) eqn:Ep; [|reflexivity]. destruct (ri_d6 x) eqn:E6; [reflexivity|]. cbn [negb andb].
  destruct (ri_proto x) eqn:Epr; [reflexivity|]. apply negb_true_iff. unfold h2_flying. apply existsb_ix0_false.
  intros i y Hy. destruct (negb (i =? rid) && same_key (ri_key y) (ri_key x) && match ri_proto y with H1 => false | H2 => true end
                           && match ri_dial y, ri_resolved y with DsFlying, None => true | _, _ => false end
                           && (is_live y || g_cont cfg) && negb (share_conn_since m (ri_key x) (ri_at y)) && (false || negb (ri_d6 y))) eqn:Eb; [|reflexivity].
  exfalso. apply andb_true_iff in Eb as [Eb C7]. apply andb_true_iff in Eb as [Eb C6]. apply andb_true_iff in Eb as [Eb C5].
  apply andb_true_iff in Eb as [Eb C4]. apply andb_true_iff in Eb as [Eb C3]. apply andb_true_iff in Eb as [Eb C2].
  assert (Hne : i <> rid) by (apply negb_true_iff, Nat.eqb_neq in Eb; exact Eb).
  assert (Hfl : ri_dial y = DsFlying /\ ri_resolved y = None) by (destruct (ri_dial y), (ri_resolved y); try discriminate C4; auto).
  destruct Hfl as [Hf Hu].
  destruct (z_dnw _ _ _ HR i y Hy Hf) as (di & Hdi & _).
  assert (Hst : d_stage di = DInFlight).
  { eapply (z_dial _ _ _ HR i y di Hy Hdi Hf Hu). destruct (is_live y); [left; reflexivity|right]. cbn in C5. split; [exact C5|exact Ep]. }
  assert (Hpi : d_proto di = H2) by (rewrite <- (z_proto _ _ _ HR i y di Hy Hdi); destruct (ri_proto y); [discriminate C3|reflexivity]).
  assert (Hxi : Some i <> ex) by (destruct Hex as [->| ->]; congruence).
  assert (Hrt : rtk m i = rtk m rid) by (eapply rtk_same_key; eauto).
  destruct (z_B _ _ _ HR Ep i di Hxi Hdi Hpi ltac:(rewrite Hst; discriminate)) as [A|[A|A]].
  - rewrite Hrt, (Ht eq_refl) in A.
    assert (Hpd : d_proto d = H2) by (rewrite <- (z_proto _ _ _ HR rid x d Hx Hd); exact Epr).
    destruct (z_A _ _ _ HR Ep rid ck0 d Hq Hd Hs) as [_ B]. destruct (B (Hn eq_refl)) as [Hm _]. rewrite (Hm Hpd) in A. inversion A. congruence.
  - unfold SS in A. rewrite Hy in A. rewrite (same_key_since m _ _ (ri_at y) C2) in A. rewrite A in C6. discriminate.
  - unfold d6 in A. rewrite Hy in A. rewrite A in C7. discriminate.
Qed.

Lemma K2_upd_dial ex m0 s r f :
  (forall d, get_dial s r = Some d -> d_proto (f d) = d_proto d) ->
  (forall d, get_dial s r = Some d -> d_stage (f d) = DNew -> d_stage d = DNew) ->
  (forall d, get_dial s r = Some d -> d_stage d = DGone -> d_stage (f d) = DGone) ->
  (forall y d, nth_error (m_reqs (cur m0 s)) r = Some y -> get_dial s r = Some d -> ri_dial y = DsFlying -> ri_resolved y = None ->
     (is_live y = true \/ (g_cont cfg = true /\ g_pool cfg = true)) -> d_stage (f d) = DInFlight) ->
  K2 ex m0 s -> K2 ex m0 (upd_dial r f s).
Proof. intros P1 P2 P3 P4 H. eapply (K2_state ex ex m0 s); [reflexivity| |exact H]. apply R2_upd_dial; auto. apply (K2_R _ _ _ H). Qed.

(* a dial that is DGone-bound: the tracker cannot claim it in flight and unresolved *)
Lemma K2_dial_gone ex m0 s r :
  (forall y d, nth_error (m_reqs (cur m0 s)) r = Some y -> get_dial s r = Some d -> ri_dial y = DsFlying -> ri_resolved y = None ->
     (is_live y = true \/ (g_cont cfg = true /\ g_pool cfg = true)) -> False) ->
  K2 ex m0 s -> K2 ex m0 (upd_dial r (d_set_stage DGone) s).
Proof.
  intros Hno H. apply K2_upd_dial; [reflexivity|intros d _ E; cbn in E; discriminate|reflexivity| |exact H].
  intros y d Hy Hd Hf Hu Hl. exfalso. eapply Hno; eauto.
Qed.

(* the EDial event together with the stage change *)
Lemma R2_dial ex m s rid k d f :
  get_dial s rid = Some d -> d_stage d = DNew -> (forall d0, d_proto (f d0) = d_proto d0) -> (forall d0, d_stage (f d0) = DInFlight) ->
  R2 ex m s -> R2 ex (track_ev m (EDial rid k)) (upd_dial rid f s).
Proof.
  intros Hd Hs Fp Fs H.
  assert (H1 : R2 ex m (upd_dial rid f s)).
  { apply R2_upd_dial; [intros; apply Fp|intros d0 _ E; rewrite Fs in E; discriminate| |intros; apply Fs|exact H].
    intros d0 Hd0 E. rewrite Hd in Hd0. inversion Hd0; subst. rewrite Hs in E. discriminate. }
  apply (R2_weak ex m); [apply mle_track_ev| | |exact H1].
  - intros r y y' Hy Hy'. cbn [track_ev] in Hy'. unfold ri_upd in Hy'. cbn [m_reqs set_m_reqs] in Hy'. rewrite nth_error_upd_nth, Hy in Hy'.
    destruct (Nat.eqb_spec rid r) as [<-|]; cbn in Hy'; inversion Hy'; subst.
    + split; [auto|]. right. exists (f d). split; [|apply Fs]. rewrite get_dial_upd, Nat.eqb_refl, Hd. reflexivity.
    + split; [auto|left; auto].
  - intros r ck y' Hq Hy'. destruct (z_live _ _ _ H1 r ck Hq) as (y & Hy & Hl). cbn [track_ev] in Hy'. unfold ri_upd in Hy'. cbn [m_reqs set_m_reqs] in Hy'.
    rewrite nth_error_upd_nth, Hy in Hy'. destruct (Nat.eqb rid r); cbn in Hy'; inversion Hy'; subst; exact Hl.
Qed.

Lemma connector_stage rid by_ s :
  (forall r, fst (connector_poll rid by_ s) = CReady r -> forall d, get_dial (snd (connector_poll rid by_ s)) rid = Some d -> d_stage d = DGone) /\
  (forall d, get_dial (snd (connector_poll rid by_ s)) rid = Some d -> d_stage d <> DNew).
Proof.
  unfold connector_poll. destruct (get_dial s rid) as [d0|] eqn:Hd0.
  2:{ cbn [fst snd]. split; [discriminate|]. intros d E. rewrite Hd0 in E. discriminate. }
  assert (U : forall f s0 d, get_dial s0 rid = Some d0 -> get_dial (upd_dial rid f s0) rid = Some d -> d = f d0).
  { intros f s0 d E0 E. rewrite get_dial_upd, Nat.eqb_refl, E0 in E. cbn in E. inversion E. reflexivity. }
  destruct (d_stage d0) as [| |[alpn| |]|] eqn:Es0; cbn [fst snd]; (split; [try discriminate|]).
  - intros d E. apply (U _ _ _ Hd0) in E. subst. cbn. discriminate.
  - intros d E. apply (U _ _ _ Hd0) in E. subst. cbn. rewrite Es0. discriminate.
  - intros r _ d E. apply (U _ _ _ Hd0) in E. subst. reflexivity.
  - intros d E. apply (U _ _ _ Hd0) in E. subst. cbn. discriminate.
  - intros r _ d E. apply (U _ _ _ Hd0) in E. subst. reflexivity.
  - intros d E. apply (U _ _ _ Hd0) in E. subst. cbn. discriminate.
  - intros r _ d E. apply (U _ _ _ Hd0) in E. subst. reflexivity.
  - intros d E. apply (U _ _ _ Hd0) in E. subst. cbn. discriminate.
  - intros d E. rewrite Hd0 in E. inversion E; subst. rewrite Es0. discriminate.
Qed.

Lemma K2_connector_poll ex m0 rid by_ s :
  K2 ex m0 s -> (ex = None \/ ex = Some rid) ->
  (forall d, get_dial s rid = Some d -> exists x, nth_error (m_reqs (cur m0 s)) rid = Some x) ->
  (forall d, get_dial s rid = Some d -> d_stage d = DNew ->
     exists ck0, get_req s rid = Some (RCheckout ck0) /\ (g_pool cfg = true -> k_slot ck0 = None) /\ (g_pool cfg = true -> rtk (cur m0 s) rid = k_token ck0)) ->
  K2 ex m0 (snd (connector_poll rid by_ s)).
Proof.
  intros H Hex Hx Hnew. pose proof (K2_R _ _ _ H) as HR. unfold connector_poll.
  destruct (get_dial s rid) as [d|] eqn:Hd; [|cbn [fst snd]; exact H].
  destruct (d_stage d) as [| |[alpn| |]|] eqn:Es; cbn [fst snd].
  - (* the dial starts *)
    destruct (Hx d eq_refl) as [x Hxx]. destruct (Hnew d eq_refl Es) as (ck0 & Hq & Hn & Ht).
    destruct H as (He & _). split.
    + cbn [upd_dial set_dials emit set_out out rev]. rewrite evs_ok_snoc. fold (cur m0 s). rewrite He. cbn [andb].
      eapply cS2_dial; eauto.
    + change (cur m0 (upd_dial rid (fun d0 => d_set_polled (Some by_) (d_set_stage DInFlight d0)) (emit (EDial rid (d_key d)) s)))
        with (cur m0 (emit (EDial rid (d_key d)) s)). rewrite cur_emit.
      eapply R2_frame; [| | | | | | | |apply (R2_dial ex (cur m0 s) s rid (d_key d) d (fun d0 => d_set_polled (Some by_) (d_set_stage DInFlight d0)) Hd Es); [reflexivity|reflexivity|exact HR]]; try reflexivity; [intros c _ E; exact E|intros E; exact E].
  - apply K2_upd_dial; [reflexivity|intros d0 _ E; exact E|intros d0 _ E; exact E| |exact H].
    intros y d0 Hy Hd0 Hf Hu Hl. cbn. eapply (z_dial _ _ _ HR); eauto.
  - (* a connection is established *)
    set (sh := match d_proto d with H1 => alpn | H2 => true end). set (cn := mkConn rid sh true true 1 0 []).
    assert (H1 : K2 ex m0 (set_conns (conns s ++ [cn]) s)) by (eapply (K2_state ex ex m0 s); [reflexivity|apply R2_new_conn; exact HR|exact H]).
    assert (H2' : K2 ex m0 (emit (ENew (List.length (conns s)) sh rid) (set_conns (conns s ++ [cn]) s))) by (apply K2_emit; [exact I|exact I|exact H1]).
    apply K2_dial_gone; [|exact H2']. intros y d0 Hy _ Hf _ _. rewrite cur_emit in Hy. cbn [track_ev] in Hy.
    cbn [m_reqs set_m_conns] in Hy. unfold ri_upd in Hy. cbn [m_reqs set_m_reqs] in Hy. rewrite nth_upd_eq in Hy.
    destruct (nth_error (m_reqs (cur m0 (set_conns (conns s ++ [cn]) s))) rid); cbn in Hy; inversion Hy; subst. cbn in Hf. discriminate.
  - apply K2_dial_gone; [|exact H]. intros y d0 Hy Hd0 Hf Hu Hl.
    pose proof (z_dial _ _ _ HR rid y d0 Hy Hd0 Hf Hu Hl) as E. rewrite Hd in Hd0. inversion Hd0; subst. rewrite Es in E. discriminate.
  - apply K2_dial_gone; [|exact H]. intros y d0 Hy Hd0 Hf Hu Hl.
    pose proof (z_dial _ _ _ HR rid y d0 Hy Hd0 Hf Hu Hl) as E. rewrite Hd in Hd0. inversion Hd0; subst. rewrite Es in E. discriminate.
  - exact H.
Qed.

Lemma K2_rx_drop ex m0 ck s : K2 ex m0 s -> K2 ex m0 (snd (rx_drop ck s)).
Proof. intros H. unfold rx_drop. destruct (k_waiter ck), (k_slot ck); cbn [snd]; try exact H; apply K2_pooled_drop, H. Qed.

Lemma rtk_eq_same_key m r1 r2 : rtk m r1 = rtk m r2 -> rtk m r1 <> 0 -> same_key (req_key m r1) (req_key m r2) = true.
Proof.
  unfold rtk, key_tok. destruct (req_key m r1) as [k1|], (req_key m r2) as [k2|]; cbn [same_key]; intros E Hn; try congruence.
  eapply tok_same_key; eauto.
Qed.

(* the tracker entry of a connection that has just been established *)
Lemma SS_new_conn m s c sh rid x :
  List.length (m_conns m) = c -> sh = true -> R2 None m s ->
  rtk m rid = rtk m x -> rtk m x <> 0 -> x < List.length (m_reqs m) ->
  SS (track_ev m (ENew c sh rid)) x = true.
Proof.
  intros Hc Hs HR Et Hn Hx. destruct (nth_ex _ _ Hx) as [y Hy].
  pose proof (mle_track_ev m (ENew c sh rid)) as M. destruct (ml_r _ _ M x y Hy) as (y' & Hy' & (K & A & _)).
  unfold SS. rewrite Hy'. rewrite K, A.
  eapply (share_since_intro _ _ _ c).
  - cbn [track_ev m_conns set_m_conns]. rewrite nth_error_app2 by (cbn [m_conns ri_upd set_m_reqs]; lia). cbn [m_conns ri_upd set_m_reqs]. rewrite Hc, Nat.sub_diag. reflexivity.
  - exact Hs.
  - cbn [ci_new_at m_i ri_upd set_m_reqs]. apply (z_at _ _ _ HR x y Hy).
  - assert (Ck : conn_key (track_ev m (ENew c sh rid)) c = req_key m rid).
    { unfold conn_key. cbn [track_ev m_conns set_m_conns]. rewrite nth_error_app2 by (cbn [m_conns ri_upd set_m_reqs]; lia). cbn [m_conns ri_upd set_m_reqs]. rewrite Hc, Nat.sub_diag. cbn [nth_error ci_origin].
      change (req_key (set_m_conns _ (ri_upd (set_ri_dial DsOver) rid m)) rid) with (req_key (ri_upd (set_ri_dial DsOver) rid m) rid).
      apply (req_key_mle m). apply mle_ri_upd. intros y0. repeat split. }
    rewrite Ck. assert (Ex : ri_key y = req_key m x) by (unfold req_key; rewrite Hy; reflexivity). rewrite Ex.
    apply rtk_eq_same_key; [exact Et|congruence].
Qed.

(* ---------------------------------------------------------------- small frames *)
Lemma cur_mle m0 s s' : (exists l, out s' = l ++ out s) -> mle (cur m0 s) (cur m0 s').
Proof. intros [l E]. unfold cur. rewrite E, rev_app_distr, fold_left_app. apply mle_fold. Qed.
Lemma cur_mle_xt m0 s s' : xt s s' -> mle (cur m0 s) (cur m0 s').
Proof. intros [(A & _) _]. apply cur_mle, A. Qed.

Lemma dials_drop_conn c s : dials (drop_conn c s) = dials s.
Proof. unfold drop_conn. destruct (get_conn s c); [|reflexivity]. destruct (Nat.eqb _ _); reflexivity. Qed.
Lemma dials_pooled_drop p s : dials (pooled_drop p s) = dials s.
Proof. destruct p as [c t]. unfold pooled_drop. destruct (share_of s c); [apply dials_drop_conn|reflexivity]. Qed.
Lemma dials_rx_drop ck s : dials (snd (rx_drop ck s)) = dials s.
Proof. unfold rx_drop. destruct (k_waiter ck), (k_slot ck); cbn [snd]; try reflexivity; apply dials_pooled_drop. Qed.
Lemma dials_deliver w p s : dials (deliver w p s) = dials s.
Proof. unfold deliver. destruct (get_req s w) as [[|ck| | |]|]; try reflexivity. destruct (k_rxpolled ck); reflexivity. Qed.
Lemma dials_walk t c sh ws : forall s, dials (snd (walk_waiters t c sh ws s)) = dials s.
Proof.
  induction ws as [|[w b] ws IH]; intros s; cbn [walk_waiters]; [reflexivity|].
  destruct (rx_live s w); [destruct sh|]; cbn [snd]; [rewrite IH, dials_deliver; reflexivity|apply dials_deliver|apply IH].
Qed.
Lemma dials_upd_tok t f s : dials (upd_tok t f s) = dials s. Proof. destruct t; reflexivity. Qed.
Lemma dials_pool_push n t c s : dials (pool_push n t c s) = dials s.
Proof.
  unfold pool_push. set (s1 := if share_of s c then upd_tok t (set_marker None) s else s).
  assert (E1 : dials s1 = dials s) by (subst s1; destruct (share_of s c); [apply dials_upd_tok|reflexivity]).
  pose proof (dials_walk t c (share_of s1 c) (p_waiting (get_tok s1 t)) s1) as E2.
  destruct (walk_waiters t c (share_of s1 c) (p_waiting (get_tok s1 t)) s1) as [[rest moved] s2]. cbn [snd] in E2.
  destruct moved; [rewrite dials_upd_tok; congruence|]. destruct (Nat.ltb _ _); [rewrite !dials_upd_tok|rewrite dials_drop_conn, dials_upd_tok]; congruence.
Qed.
Lemma dials_register t c s : dials (snd (register cfg t c s)) = dials s.
Proof.
  unfold register. destruct (g_pool cfg && negb (t =? 0)); [|reflexivity]. destruct (share_of s c); cbn [snd]; [|reflexivity].
  destruct (is_open s c); [|reflexivity]. rewrite dials_pool_push. reflexivity.
Qed.

Lemma reqs_pooled_drop p s : reqs (pooled_drop p s) = reqs s.
Proof. destruct p as [c t]. unfold pooled_drop. destruct (share_of s c); [apply reqs_drop_conn|reflexivity]. Qed.
Lemma reqs_rx_drop ck s : reqs (snd (rx_drop ck s)) = reqs s.
Proof. unfold rx_drop. destruct (k_waiter ck), (k_slot ck); cbn [snd]; try reflexivity; apply reqs_pooled_drop. Qed.
Lemma toks_rx_drop' ck s : toks (snd (rx_drop ck s)) = toks s. Proof. apply toks_rx_drop. Qed.

Lemma conn_frame_rx_drop ck s c :
  share_of (snd (rx_drop ck s)) c = share_of s c /\ is_open (snd (rx_drop ck s)) c = is_open s c /\
  List.length (conns (snd (rx_drop ck s))) = List.length (conns s).
Proof.
  assert (D : forall c0 s0, share_of (drop_conn c0 s0) c = share_of s0 c /\ is_open (drop_conn c0 s0) c = is_open s0 c /\
              List.length (conns (drop_conn c0 s0)) = List.length (conns s0)).
  { intros c0 s0. split; [apply (conns_frame_drop c0 s0 c)|]. split; [apply is_open_drop_conn|].
    unfold drop_conn. destruct (get_conn s0 c0); [|reflexivity]. destruct (Nat.eqb _ _); cbn [conns emit set_out upd_conn set_conns]; apply upd_len. }
  unfold rx_drop. destruct (k_waiter ck), (k_slot ck) as [[c0 t0]|]; cbn [snd]; auto; unfold pooled_drop; destruct (share_of s c0); auto.
Qed.

Lemma reqs_connector_poll rid by_ s : reqs (snd (connector_poll rid by_ s)) = reqs s.
Proof. unfold connector_poll. destruct (get_dial s rid) as [d|]; [|reflexivity]. destruct (d_stage d) as [| |[| |]|]; reflexivity. Qed.

(* what a completed dial leaves behind *)
Lemma connector_new rid by_ s m0 c :
  fst (connector_poll rid by_ s) = CReady (inl c) ->
  c = List.length (conns s) /\ List.length (conns (snd (connector_poll rid by_ s))) = S (List.length (conns s)) /\
  exists sh, cur m0 (snd (connector_poll rid by_ s)) = track_ev (cur m0 s) (ENew c sh rid) /\ share_of (snd (connector_poll rid by_ s)) c = sh.
Proof.
  unfold connector_poll. destruct (get_dial s rid) as [d|]; [|discriminate]. destruct (d_stage d) as [| |[alpn| |]|]; cbn [fst snd]; try discriminate.
  intros E. inversion E; subst c. split; [reflexivity|]. split; [cbn [conns upd_dial set_dials emit set_out set_conns]; rewrite app_length; cbn; lia|].
  eexists. split.
  - change (cur m0 (upd_dial rid (d_set_stage DGone) (emit (ENew (List.length (conns s)) match d_proto d with H1 => alpn | H2 => true end rid)
              (set_conns (conns s ++ [mkConn rid match d_proto d with H1 => alpn | H2 => true end true true 1 0 []]) s))))
      with (cur m0 (emit (ENew (List.length (conns s)) match d_proto d with H1 => alpn | H2 => true end rid)
              (set_conns (conns s ++ [mkConn rid match d_proto d with H1 => alpn | H2 => true end true true 1 0 []]) s))).
    rewrite cur_emit. reflexivity.
  - unfold share_of, get_conn. cbn [conns upd_dial set_dials emit set_out set_conns]. rewrite nth_error_app2, Nat.sub_diag by lia. reflexivity.
Qed.

Definition ClearOK (m0 : mst) (s : state) (t : nat) (ck : checkout) : Prop :=
  g_pool cfg = true -> forall c, k_conn ck = Some c -> share_of s c = true -> is_open s c = true ->
  forall x, mk s t = Some x -> SS (cur m0 s) x = true \/ d6 (cur m0 s) x = true.

Lemma ClearOK_state ex m0 s r ck :
  K2 ex m0 s -> get_req s r = Some (RCheckout ck) -> List.length (reqs s) <= List.length (m_reqs (cur m0 s)) ->
  ClearOK m0 s (k_token ck) ck.
Proof.
  intros H Hq Hl Hp c Hc Hs Ho x Hm. pose proof (K2_R _ _ _ H) as HR. right.
  pose proof (z_D _ _ _ HR r ck c x Hq Hc Hs Hm) as Hlt. destruct (z_mx _ _ _ HR _ x Hm) as [Hx Hr].
  eapply (z_E _ _ _ HR Hp r ck c x); eauto.
Qed.

Lemma ClearOK_none m0 s t ck : k_conn ck = None -> ClearOK m0 s t ck.
Proof. intros E Hp c Hc. rewrite E in Hc. discriminate. Qed.

Definition KPost (m0 : mst) (rid : nat) (ck : checkout) (s0 : state) (res : kpoll * checkout * state) : Prop :=
  K2 None m0 (snd res) /\ k_token (snd (fst res)) = k_token ck /\ k_owner (snd (fst res)) = k_owner ck /\
  InnerOK (snd res) rid (snd (fst res)) /\
  (forall e, fst (fst res) = KReady (inr e) -> k_inner (snd (fst res)) = IWaiting \/ k_inner (snd (fst res)) = IConnected) /\
  ClearOK m0 (snd res) (k_token ck) (snd (fst res)) /\
  (fst (fst res) = KPending -> g_pool cfg = true -> forall d, get_dial (snd res) rid = Some d -> d_stage d <> DNew) /\
  (k_conn (snd (fst res)) = None \/ (snd res = s0 /\ k_conn (snd (fst res)) = k_conn ck)).

Lemma InnerOK_eq s r ck ck' : k_inner ck' = k_inner ck -> k_conn ck' = k_conn ck \/ k_conn ck' = None -> InnerOK s r ck -> InnerOK s r ck'.
Proof.
  intros Ei Ec (A & B & C & D). unfold InnerOK. rewrite Ei. split; [exact A|split; [exact B|split; [exact C|]]].
  intros c Hc. destruct Ec as [Ec|Ec]; rewrite Ec in Hc; [eauto|discriminate].
Qed.

Lemma waiter_continue ck : fst (waiter_poll ck) = WContinue -> k_waiter ck = WIdle -> k_slot ck = None.
Proof. unfold waiter_poll. intros H Hw. rewrite Hw in H. destruct (k_slot ck); [discriminate|reflexivity]. Qed.

Lemma waiter_pending ck : fst (waiter_poll ck) = WPending -> k_waiter ck = WConnecting.
Proof. unfold waiter_poll. destruct (k_waiter ck), (k_slot ck); try destruct (k_txdropped ck); cbn; intros E; try discriminate; reflexivity. Qed.

Lemma KPost_same m0 rid ck ck1 r s :
  K2 None m0 s -> get_req s rid = Some (RCheckout ck) -> List.length (reqs s) <= List.length (m_reqs (cur m0 s)) ->
  sameK ck ck1 -> (forall e, r = KReady (inr e) -> k_inner ck1 = IWaiting \/ k_inner ck1 = IConnected) ->
  (r = KPending -> g_pool cfg = true -> forall d, get_dial s rid = Some d -> d_stage d <> DNew) ->
  KPost m0 rid ck s (r, ck1, s).
Proof.
  intros H Hq Hl (E1 & E2 & E3 & E4) He Hpd. unfold KPost. cbn [fst snd]. split; [exact H|]. split; [exact E1|]. split; [exact E3|].
  split; [eapply InnerOK_eq; [exact E4|left; exact E2|apply (z_inner _ _ _ (K2_R _ _ _ H) rid ck Hq)]|]. split; [exact He|].
  split; [|split; [exact Hpd|right; split; [reflexivity|exact E2]]].
  intros Hp c Hc. rewrite E2 in Hc. apply (ClearOK_state None m0 s rid ck H Hq Hl Hp c Hc).
Qed.

Lemma InnerOK_dials s s' r ck : dials s' = dials s -> InnerOK s r ck -> InnerOK s' r ck.
Proof. intros E (A & B & C & D). split; [exact A|split; [exact B|split; [|exact D]]]. intros Hi d Hd. unfold get_dial in *. rewrite E in Hd. eauto. Qed.

Lemma k2_reg_tail m0 rid ck cks ck2 c s0 s2 :
  K2 None m0 s2 -> get_req s2 rid = Some (RCheckout cks) -> k_token cks = k_token ck -> k_token ck2 = k_token ck -> k_owner ck2 = k_owner ck ->
  InnerOK s2 rid ck2 -> k_conn ck2 = None ->
  (forall d, get_dial s2 rid = Some d -> d_stage d <> DNew) -> c < List.length (conns s2) ->
  (g_pool cfg = true -> share_of s2 c = true -> is_open s2 c = true ->
     forall x, mk s2 (k_token ck) = Some x -> SS (cur m0 s2) x = true \/ d6 (cur m0 s2) x = true) ->
  KPost m0 rid ck s0 (let '(p, s4) := register cfg (k_token ck2) c (set_req rid (RCheckout ck2) s2) in (KReady (inl p), ck2, s4)).
Proof.
  intros H Hq Ets Et Eo Hi Hc Hnn Hb Hcl. set (s3 := set_req rid (RCheckout ck2) s2).
  assert (H3 : K2 None m0 s3).
  { eapply K2_set_ck; [exact Hq|congruence|exact Hi|right; exact Hc| |exact H]. intros _ d Hd Hs. exfalso. eapply Hnn; eauto. }
  pose proof (K2_register None m0 (k_token ck2) c s3 H3 Hb) as H4. pose proof (dials_register (k_token ck2) c s3) as D4.
  destruct (register cfg (k_token ck2) c s3) as [p s4]. cbn [snd] in *.
  unfold KPost. cbn [fst snd]. split; [|split; [exact Et|split; [exact Eo|split; [|split; [discriminate|split; [apply ClearOK_none; exact Hc|split; [discriminate|left; exact Hc]]]]]]].
  - apply H4. rewrite Et. exact Hcl.
  - eapply InnerOK_dials; [|exact Hi]. rewrite D4. reflexivity.
Qed.

Lemma k2_conn_tail m0 rid ck ck1 s :
  K2 None m0 s -> get_req s rid = Some (RCheckout ck) -> sameK ck ck1 -> k_slot ck1 = k_slot ck ->
  (k_inner ck1 = IConnecting \/ k_inner ck1 = IDelayDrop \/ k_inner ck1 = IDelayed) ->
  (g_pool cfg = true -> forall d, get_dial s rid = Some d -> d_stage d = DNew -> k_waiter ck = WIdle -> k_slot ck = None) ->
  (exists x, nth_error (m_reqs (cur m0 s)) rid = Some x) -> (g_pool cfg = true -> rtk (cur m0 s) rid = k_token ck /\ k_token ck <> 0) ->
  List.length (m_conns (cur m0 s)) = List.length (conns s) -> List.length (reqs s) <= List.length (m_reqs (cur m0 s)) ->
  forall res,
  res = (let '(r, s) := connector_poll rid ByReq s in
     match r with
     | CPending => (KPending, ck1, s)
     | CReady res =>
         let '(ck, s) := rx_drop ck1 s in
         let ck := k_set_inner IConnected ck in
         let s := set_req rid (RCheckout ck) s in
         match res with
         | inl c => let '(p, s) := register cfg (k_token ck) c s in (KReady (inl p), ck, s)
         | inr e => (KReady (inr e), ck, s)
         end
     end) ->
  KPost m0 rid ck s res.
Proof.
  intros H Hq SK Esl Hin Hsl [x Hx] Ht Hlc Hrl res Eres. pose proof SK as (E1 & E2 & E3 & E4). pose proof (K2_R _ _ _ H) as HR.
  pose proof (z_inner _ _ _ HR rid ck Hq) as (I1 & I2 & I3 & I4).
  assert (Hkc : k_conn ck = None).
  { destruct (k_conn ck) as [c0|] eqn:Ec; [|reflexivity]. specialize (I4 c0 eq_refl). rewrite <- E4 in I4. destruct Hin as [Hin|[Hin|Hin]]; congruence. }
  destruct (connector_stage rid ByReq s) as [Hg Hnn1].
  assert (H1 : K2 None m0 (snd (connector_poll rid ByReq s))).
  { apply (K2_connector_poll None m0 rid ByReq s H (or_introl eq_refl)).
  { intros d _. eauto. }
  { intros d Hd Hs. exists ck. split; [exact Hq|]. split; [|intros Hp; apply (Ht Hp)].
    intros Hp. destruct (z_A _ _ _ HR Hp rid ck d Hq Hd Hs) as [Hw _]. eapply Hsl; eauto. } }
  pose proof (reqs_connector_poll rid ByReq s) as R1. pose proof (connector_new rid ByReq s m0) as Hn.
  pose proof (xt_connector_poll rid ByReq s) as X1.
  destruct (connector_poll rid ByReq s) as [r s1]. cbn [fst snd] in *.
  assert (Hq1 : get_req s1 rid = Some (RCheckout ck)) by (unfold get_req; rewrite R1; exact Hq).
  destruct r as [|rs].
  - subst res. unfold KPost. cbn [fst snd]. split; [exact H1|]. split; [exact E1|]. split; [exact E3|]. split; [|split; [discriminate|split; [apply ClearOK_none; congruence|split; [intros _ _; exact Hnn1|left; congruence]]]].
    split; [rewrite E4; exact I1|]. split; [rewrite E4; exact I2|]. split; [|intros c0 Hc0; congruence].
    intros [Hw|Hw]; destruct Hin as [Hin|[Hin|Hin]]; congruence.
  - assert (Hgone : forall d, get_dial s1 rid = Some d -> d_stage d = DGone) by (apply (Hg rs eq_refl)).
    pose proof (K2_rx_drop None m0 ck1 s1 H1) as H2. pose proof (dials_rx_drop ck1 s1) as D2. pose proof (reqs_rx_drop ck1 s1) as R2'.
    pose proof (xt_rx_drop ck1 s1) as X2. pose proof (fun c0 => conn_frame_rx_drop ck1 s1 c0) as C2.
    destruct (rx_drop_spec ck1 s1) as ((F1 & F2 & F3 & F4) & _ & _).
    destruct (rx_drop ck1 s1) as [ck2 s2]. cbn [fst snd] in *.
    set (ck3 := k_set_inner IConnected ck2) in *.
    assert (Hq2 : get_req s2 rid = Some (RCheckout ck)) by (unfold get_req; rewrite R2'; exact Hq1).
    assert (Hg2 : forall d, get_dial s2 rid = Some d -> d_stage d = DGone) by (intros d Hd; unfold get_dial in Hd; rewrite D2 in Hd; eauto).
    assert (I3' : InnerOK s2 rid ck3).
    { split; [cbn; discriminate|]. split; [intros _; cbn; discriminate|]. split; [intros _; exact Hg2|reflexivity]. }
    assert (Et3 : k_token ck3 = k_token ck) by (change (k_token ck3) with (k_token ck2); congruence).
    assert (Eo3 : k_owner ck3 = k_owner ck) by (change (k_owner ck3) with (k_owner ck2); congruence).
    assert (Ec3 : k_conn ck3 = None) by (change (k_conn ck3) with (k_conn ck2); congruence).
    destruct rs as [c|e].
    + subst res. destruct (Hn c eq_refl) as (Ec & Ll & sh & Ecur & Esh).
      apply (k2_reg_tail m0 rid ck ck ck3 c s s2); auto.
      * intros d Hd E. rewrite (Hg2 d Hd) in E. discriminate.
      * destruct (C2 c) as (_ & _ & L2). rewrite L2, Ll, Ec. lia.
      * intros Hp Hs Ho x0 Hm. left. destruct (Ht Hp) as [Hrt Hnz].
        destruct (C2 c) as (S2 & _ & _). rewrite S2, Esh in Hs. 
        pose proof (cur_mle_xt m0 s1 s2 X2) as M2. pose proof (cur_mle_xt m0 s s1 X1) as M1.
        destruct (z_mx _ _ _ (K2_R _ _ _ H2) _ x0 Hm) as [Hxl Hxr].
        eapply SS_mle; [exact M2|]. rewrite Ecur. apply (SS_new_conn (cur m0 s) s c sh rid x0); [rewrite Hlc; symmetry; exact Ec|exact Hs|exact HR| | |].
        -- rewrite Hrt. rewrite <- (Hxr Hp). rewrite (rtk_mle _ _ x0 M2), (rtk_mle _ _ x0 M1). reflexivity.
        -- rewrite <- (rtk_mle _ _ x0 M1), <- (rtk_mle _ _ x0 M2), (Hxr Hp). exact Hnz.
        -- rewrite (ml_rl _ _ M2), (ml_rl _ _ M1) in Hxl. exact Hxl.
    + subst res. unfold KPost. cbn [fst snd].
      assert (H3 : K2 None m0 (set_req rid (RCheckout ck3) s2)).
      { eapply K2_set_ck; [exact Hq2|exact Et3|exact I3'|right; exact Ec3| |exact H2]. intros _ d Hd Hs. rewrite (Hg2 d Hd) in Hs. discriminate. }
      split; [exact H3|]. split; [exact Et3|]. split; [exact Eo3|]. split; [eapply InnerOK_dials; [|exact I3']; reflexivity|].
      split; [intros _ _; right; reflexivity|]. split; [apply ClearOK_none; exact Ec3|split; [discriminate|left; exact Ec3]].
Qed.

Lemma K2_checkout_poll m0 rid ck s :
  K2 None m0 s -> get_req s rid = Some (RCheckout ck) ->
  (exists x, nth_error (m_reqs (cur m0 s)) rid = Some x) -> (g_pool cfg = true -> rtk (cur m0 s) rid = k_token ck /\ k_token ck <> 0) ->
  List.length (m_conns (cur m0 s)) = List.length (conns s) -> List.length (reqs s) <= List.length (m_reqs (cur m0 s)) ->
  KPost m0 rid ck s (checkout_poll cfg rid ck s).
Proof.
  intros H Hq Hx Ht Hlc Hrl. pose proof (K2_R _ _ _ H) as HR.
  destruct (waiter_poll_spec ck) as [SK Hsl]. pose proof SK as (E1 & E2 & E3 & E4).
  pose proof (waiter_continue ck) as Hwc. pose proof (waiter_pending ck) as Hwp.
  unfold checkout_poll. destruct (waiter_poll ck) as [w ck1]. cbn [fst snd] in *.
  destruct w as [|p|].
  - apply KPost_same; auto; try discriminate. intros _ Hp d Hd Es. destruct (z_A _ _ _ HR Hp rid ck d Hq Hd Es) as [Hw _]. rewrite (Hwp eq_refl) in Hw. discriminate.
  - apply KPost_same; auto; try discriminate.
  - assert (Es1 : k_slot ck1 = k_slot ck) by (destruct Hsl as [(p & Hp & _)|[_ Es]]; [discriminate|exact Es]).
    destruct (k_inner ck1) eqn:Ei.
    + apply KPost_same; auto; try (intros e _; left; exact Ei); try discriminate.
    + destruct (k_conn ck1) as [c|] eqn:Ec.
      2:{ apply KPost_same; auto; try discriminate. intros _ _ d Hd Es. destruct (z_inner _ _ _ HR rid ck Hq) as (_ & _ & I3 & _). assert (Eic : k_inner ck = IConnected) by (symmetry; exact E4). rewrite (I3 (or_intror Eic) d Hd) in Es. discriminate. }
      (* the popped connection is registered *)
      set (ck1' := k_set_conn None ck1).
      pose proof (K2_rx_drop None m0 ck1' s H) as H2. pose proof (dials_rx_drop ck1' s) as D2. pose proof (reqs_rx_drop ck1' s) as R2'.
      pose proof (toks_rx_drop ck1' s) as T2. pose proof (xt_rx_drop ck1' s) as X2. pose proof (fun c0 => conn_frame_rx_drop ck1' s c0) as C2.
      destruct (rx_drop_spec ck1' s) as ((F1 & F2 & F3 & F4) & _ & _).
      destruct (rx_drop ck1' s) as [ck2 s2]. cbn [fst snd] in *.
      pose proof (z_inner _ _ _ HR rid ck Hq) as (I1 & I2 & I3 & I4).
      assert (Hg : forall d, get_dial s rid = Some d -> d_stage d = DGone) by (apply I3; right; congruence).
      assert (Hg2 : forall d, get_dial s2 rid = Some d -> d_stage d = DGone) by (intros d Hd; unfold get_dial in Hd; rewrite D2 in Hd; eauto).
      apply (k2_reg_tail m0 rid ck ck ck2 c s s2); auto.
      * unfold get_req. rewrite R2'. exact Hq.
      * change (k_token ck1') with (k_token ck1) in F1. congruence.
      * change (k_owner ck1') with (k_owner ck1) in F3. congruence.
      * split; [change (k_inner ck1') with (k_inner ck1) in F4; congruence|]. split; [change (k_inner ck1') with (k_inner ck1) in F4; congruence|].
        split; [intros _; exact Hg2|]. intros c0 Hc0. change (k_conn ck1') with (@None nat) in F2. congruence.
      * intros d Hd E. rewrite (Hg2 d Hd) in E. discriminate.
      * destruct (C2 c) as (_ & _ & L2). rewrite L2. eapply (z_bk _ _ _ HR rid ck c Hq). congruence.
      * intros Hp Hs Ho x0 Hm. destruct (C2 c) as (S2 & O2 & _). rewrite S2 in Hs. rewrite O2 in Ho.
        assert (Hm0 : mk s (k_token ck) = Some x0) by (rewrite <- (mk_toks s s2 _ T2); exact Hm).
        pose proof (cur_mle_xt m0 s s2 X2) as M2.
        destruct (ClearOK_state None m0 s rid ck H Hq Hrl Hp c ltac:(congruence) Hs Ho x0 Hm0) as [A|A].
        -- left. eapply SS_mle; eauto.
        -- right. rewrite (d6_mle _ _ x0 M2). exact A.
    + eapply (k2_conn_tail m0 rid ck ck1 s); eauto.
    + eapply (k2_conn_tail m0 rid ck ck1 s); eauto.
    + eapply (k2_conn_tail m0 rid ck ck1 s); eauto.
Qed.

(* liveness is never regained *)
Definition WkL (m m' : mst) : Prop :=
  forall r y y', nth_error (m_reqs m) r = Some y -> nth_error (m_reqs m') r = Some y' -> is_live y' = true -> is_live y = true.
Lemma WkL_refl m : WkL m m. Proof. intros r y y' H H'. rewrite H in H'. inversion H'. auto. Qed.
Lemma WkL_trans a b c : mle a b -> WkL a b -> WkL b c -> WkL a c.
Proof. intros M W1 W2 r y y'' Ha Hc Hl. destruct (ml_r _ _ M r y Ha) as (y' & Hb & _). eapply W1; eauto. Qed.
Lemma WkL_plain m e : plain_ev e -> WkL m (track_ev m e).
Proof. intros He r' y y' H H' Hl. destruct (Wk_track_ev m e He r' y y' H H') as (_ & _ & C). exact (C Hl). Qed.
Lemma WkL_track_ev m e : WkL m (track_ev m e).
Proof.
  destruct e as [r k|c sh r|r c b1 b2 b3 n|r|r x|r c|c|c ok].
  - intros r' y y' H H' Hl. cbn [track_ev] in H'. unfold ri_upd in H'. cbn [m_reqs set_m_reqs] in H'. rewrite nth_error_upd_nth, H in H'.
    destruct (Nat.eqb r r'); cbn in H'; inversion H'; subst; exact Hl.
  - apply WkL_plain. exact I.
  - apply WkL_plain. exact I.
  - apply WkL_plain. exact I.
  - apply WkL_plain. exact I.
  - apply WkL_plain. exact I.
  - apply WkL_plain. exact I.
  - apply WkL_plain. exact I.
Qed.
Lemma WkL_fold l : forall m, WkL m (fold_left track_ev l m).
Proof. induction l as [|e l IH]; intros m; cbn [fold_left]; [apply WkL_refl|]. eapply WkL_trans; [apply mle_track_ev|apply WkL_track_ev|apply IH]. Qed.
Lemma WkL_xt m0 s s' : xt s s' -> WkL (cur m0 s) (cur m0 s').
Proof. intros [([l E] & _) _]. unfold cur. rewrite E, rev_app_distr, fold_left_app. apply WkL_fold. Qed.

Lemma K2_ex_weaken r m0 s : K2 None m0 s -> K2 (Some r) m0 s.
Proof. intros (A & B). split; [exact A|]. destruct B. constructor; auto. intros Hp x d _ Hd Hpr Hst. apply (z_B0 Hp x d); auto. discriminate. Qed.

Lemma K2_ex_restore r m0 s : (forall d, get_dial s r = Some d -> d_stage d = DGone) -> K2 (Some r) m0 s -> K2 None m0 s.
Proof.
  intros Hg (A & B). split; [exact A|]. destruct B. constructor; auto. intros Hp x d _ Hd Hpr Hst.
  destruct (Nat.eq_dec x r) as [->|Hne]; [exfalso; apply Hst, Hg, Hd|]. apply (z_B0 Hp x d); auto. congruence.
Qed.

Lemma xt_checkout_drop_head n t c hp s : xt s (if is_open s c && hp then pool_push n t c s else drop_conn c s).
Proof. destruct (is_open s c && hp); [apply xt_pool_push|apply xt_drop_conn]. Qed.

Lemma kp_not_ck s s' r : kp s s' -> (forall ck, get_req s r <> Some (RCheckout ck)) -> forall ck, get_req s' r <> Some (RCheckout ck).
Proof. intros K Hn ck Hq. destruct (kp_bwd_ck s s' r ck K Hq) as [ck0 Hq0]. eapply Hn; eauto. Qed.

Lemma K2_checkout_drop m0 rid ck s :
  K2 None m0 s -> (forall ck0, get_req s rid <> Some (RCheckout ck0)) -> InnerOK s rid ck -> ClearOK m0 s (k_token ck) ck ->
  (forall c, k_conn ck = Some c -> c < List.length (conns s)) ->
  (forall y d, nth_error (m_reqs (cur m0 s)) rid = Some y -> get_dial s rid = Some d -> d_stage d = DInFlight -> is_live y = false) ->
  K2 None m0 (checkout_drop cfg rid ck s).
Proof.
  intros H Hnc (I1 & I2 & I3 & I4) Hcl Hbk Hnl. unfold checkout_drop.
  set (t := k_token ck). remember (g_pool cfg && negb (t =? 0)) as hp eqn:Ehp.
  set (s1 := match k_conn ck with Some c => if is_open s c && hp then pool_push (g_max_idle cfg) t c s else drop_conn c s | None => s end).
  assert (H1 : K2 None m0 s1).
  { subst s1. destruct (k_conn ck) as [c|] eqn:Ec; [|exact H]. destruct (is_open s c) eqn:Eo; cbn [andb]; [|apply K2_drop_conn, H].
    clear Ehp. destruct hp; [|apply K2_drop_conn, H]. apply K2_pool_push; [exact H|apply Hbk; reflexivity|]. intros Hp Hs x Hm. apply (Hcl Hp c Ec Hs Eo x Hm). }
  assert (X1 : xt s s1) by (subst s1; destruct (k_conn ck) as [c|]; [apply xt_checkout_drop_head|apply xt_refl]).
  assert (K1 : kp s s1) by (subst s1; destruct (k_conn ck) as [c|]; [destruct (is_open s c && hp); [apply kp_pool_push|apply kp_drop_conn]|apply kp_refl]).
  assert (D1 : dials s1 = dials s) by (subst s1; destruct (k_conn ck) as [c|]; [destruct (is_open s c && hp); [apply dials_pool_push|apply dials_drop_conn]|reflexivity]).
  clearbody s1.
  set (started := match get_dial s1 rid with Some d => match d_stage d with DNew => false | _ => true end | None => false end).
  set (delayed := match k_inner ck with IDelayDrop => started | _ => false end).
  destruct delayed eqn:Edl.
  - (* the attempt continues in the background *)
    assert (Ei : k_inner ck = IDelayDrop) by (unfold delayed in Edl; destruct (k_inner ck); try discriminate; reflexivity).
    assert (Est : started = true) by (unfold delayed in Edl; rewrite Ei in Edl; exact Edl).
    assert (H2 : K2 None m0 (spawn (TDelayed rid t (k_owner ck)) s1)).
    { apply K2_spawn; [|exact H1]. intros rid' t' own E. inversion E; subst. unfold started in Est. destruct (get_dial s1 rid') as [d|]; [|discriminate]. exists d. split; [reflexivity|]. destruct (d_stage d); discriminate. }
    pose proof (K2_rx_drop None m0 ck _ H2) as H3. destruct (rx_drop ck (spawn (TDelayed rid t (k_owner ck)) s1)) as [ck' s3]. cbn [snd] in H3.
    rewrite Ei. exact H3.
  - set (s2 := if hp && k_owner ck then pool_cancel t rid s1 else s1).
    assert (Hnc1 : forall ck0, get_req s1 rid <> Some (RCheckout ck0)) by (apply (kp_not_ck s s1 rid K1 Hnc)).
    assert (H2 : K2 (Some rid) m0 s2).
    { subst s2. destruct (hp && k_owner ck); [|apply K2_ex_weaken, H1].
      apply K2_pool_cancel; [left; reflexivity| |apply K2_ex_weaken, H1]. intros ck0 d Hq. exfalso. eapply Hnc1; eauto. }
    assert (X2 : xt s1 s2) by (subst s2; destruct (hp && k_owner ck); [apply xt_pool_cancel|apply xt_refl]).
    assert (D2 : dials s2 = dials s1).
    { subst s2. destruct (hp && k_owner ck); [|reflexivity]. unfold pool_cancel. destruct (p_marker (get_tok s1 t)) as [o|]; [|reflexivity].
      destruct (Nat.eqb o rid); [|reflexivity]. destruct (frame_release (p_waiting (get_tok (upd_tok t (set_marker None) s1) t)) (upd_tok t (set_marker None) s1)) as (_ & _ & Dd & _).
      destruct (release_pending _ _) as [rest sx]. cbn [snd] in Dd. rewrite dials_upd_tok, Dd, dials_upd_tok. reflexivity. }
    clearbody s2.
    pose proof (K2_rx_drop (Some rid) m0 ck s2 H2) as H3. pose proof (dials_rx_drop ck s2) as D3. pose proof (xt_rx_drop ck s2) as X3.
    destruct (rx_drop ck s2) as [ck' s3]. cbn [snd] in *.
    assert (D03 : dials s3 = dials s) by congruence.
    assert (X03 : xt s s3) by exact (xt_trans _ _ _ X1 (xt_trans _ _ _ X2 X3)).
    assert (Fin : K2 None m0 (upd_dial rid (d_set_stage DGone) s3)).
    { apply (K2_ex_restore rid); [intros d Hd; rewrite get_dial_upd, Nat.eqb_refl in Hd; destruct (get_dial s3 rid); cbn in Hd; inversion Hd; reflexivity|].
      apply K2_dial_gone; [|exact H3]. intros y d Hy Hd Hf Hu Hl.
      pose proof (z_dial _ _ _ (K2_R _ _ _ H3) rid y d Hy Hd Hf Hu Hl) as Es.
      assert (Hd0 : get_dial s rid = Some d) by (unfold get_dial in *; rewrite <- D03; exact Hd).
      destruct (k_inner ck) eqn:Ei.
      - pose proof (I3 (or_introl eq_refl) d Hd0). congruence.
      - pose proof (I3 (or_intror eq_refl) d Hd0). congruence.
      - destruct Hl as [Hl|[Hl Hp]]; [|specialize (I2 Hp eq_refl); congruence].
        destruct (mle_bwd _ _ rid y (cur_mle_xt m0 s s3 X03) Hy) as (y0 & Hy0 & _).
        pose proof (Hnl y0 d Hy0 Hd0 Es) as Hf0. pose proof (WkL_xt m0 s s3 X03 rid y0 y Hy0 Hy Hl). congruence.
      - unfold delayed in Edl. unfold started in Edl. assert (Hd1 : get_dial s1 rid = Some d) by (unfold get_dial in *; rewrite D1; exact Hd0).
        rewrite Hd1, Es in Edl. discriminate.
      - contradiction. }
    assert (Keep : (forall d, get_dial s3 rid = Some d -> d_stage d = DGone) -> K2 None m0 s3) by (intros Hg; apply (K2_ex_restore rid); assumption).
    assert (Hg3 : k_inner ck = IWaiting \/ k_inner ck = IConnected -> forall d, get_dial s3 rid = Some d -> d_stage d = DGone).
    { intros Hi d Hd. unfold get_dial in Hd. rewrite D03 in Hd. eapply I3; eauto. }
    destruct (k_inner ck); try exact Fin; try (apply Keep, Hg3; auto; fail).
Qed.

(* a checkout without a popped connection and whose dial has started is written back *)
Lemma R2_set_ck_plain ex m s w cks ck' :
  get_req s w = Some (RCheckout cks) -> k_conn ck' = None -> InnerOK s w ck' ->
  (g_pool cfg = true -> forall d, get_dial s w = Some d -> d_stage d <> DNew) ->
  R2 ex m s -> R2 ex m (set_req w (RCheckout ck') s).
Proof.
  intros Hq Ec Ei Hn H. destruct H.
  assert (Gq : forall r ck1, get_req (set_req w (RCheckout ck') s) r = Some (RCheckout ck1) ->
            (r <> w /\ get_req s r = Some (RCheckout ck1)) \/ (r = w /\ ck1 = ck')).
  { intros r ck1 Hq1. rewrite get_req_set in Hq1. destruct (Nat.eqb_spec w r) as [<-|Hne]; [|left; auto].
    rewrite Hq in Hq1. cbn in Hq1. inversion Hq1. right. auto. }
  constructor; auto.
  - intros r ck1 Hq1. destruct (Gq r ck1 Hq1) as [[_ Hq0]|[-> ->]]; eauto.
  - intros r ck1 Hq1. destruct (Gq r ck1 Hq1) as [[_ Hq0]|[-> ->]]; [apply (z_inner0 r ck1 Hq0)|exact Ei].
  - intros Hp r ck1 d Hq1 Hd Hs. destruct (Gq r ck1 Hq1) as [[_ Hq0]|[-> ->]]; [apply (z_A0 Hp r ck1 d); auto|]. exfalso. eapply Hn; eauto.
  - intros y ck1 c x Hq1 Hc. destruct (Gq y ck1 Hq1) as [[_ Hq0]|[-> ->]]; [eauto|congruence].
  - intros Hp y ck1 c x Hq1 Hc. destruct (Gq y ck1 Hq1) as [[_ Hq0]|[-> ->]]; [eauto|congruence].
  - intros y ck1 c Hq1 Hc. destruct (Gq y ck1 Hq1) as [[_ Hq0]|[-> ->]]; [eauto|congruence].
  - intros y ck1 c Hq1 Hc. destruct (Gq y ck1 Hq1) as [[_ Hq0]|[-> ->]]; [eauto|congruence].
Qed.

Lemma K2_set_req_gone ex m0 s w v : (forall ck, v <> RCheckout ck) -> K2 ex m0 s -> K2 ex m0 (set_req w v s).
Proof. intros Hv H. eapply (K2_state ex ex m0 s); [reflexivity| |exact H]. apply R2_set_req_gone; [exact Hv|apply (K2_R _ _ _ H)]. Qed.

Lemma K2_unwake ex m0 r s : K2 ex m0 s -> K2 ex m0 (unwake_req r s).
Proof. intros H. eapply K2_same; [| | | | | | |exact H]; reflexivity. Qed.
Lemma K2_wake ex m0 r s : K2 ex m0 s -> K2 ex m0 (wake_req r s).
Proof. intros H. eapply K2_same; [| | | | | | |exact H]; reflexivity. Qed.

Lemma K2_hold_release ex m0 r p s : K2 ex m0 s -> K2 ex m0 (hold_release r p s).
Proof.
  intros H. unfold hold_release. apply K2_pooled_drop. apply K2_emit; [exact I|exact I|]. apply K2_upd_conn; [reflexivity|reflexivity|exact H].
Qed.

(* the hand-off: EHand, the connection record, the request entry *)
Lemma K2_hand_off m0 r p b1 b2 b3 n g s :
  (forall cn, c_share (g cn) = c_share cn) -> (forall cn, c_open (g cn) = c_open cn) ->
  K2 None m0 s -> K2 None m0 (set_req r (RHolding p false true) (upd_conn (fst p) g (emit (EHand r (fst p) b1 b2 b3 n) s))).
Proof.
  intros Gs Go (He & HR). split.
  - cbn [out set_req set_reqs upd_conn set_conns emit set_out rev]. rewrite evs_ok_snoc. fold (cur m0 s). rewrite He. reflexivity.
  - change (cur m0 (set_req r (RHolding p false true) (upd_conn (fst p) g (emit (EHand r (fst p) b1 b2 b3 n) s))))
      with (cur m0 (emit (EHand r (fst p) b1 b2 b3 n) s)). rewrite cur_emit.
    assert (H1 : R2 None (cur m0 s) (set_req r (RHolding p false true) (upd_conn (fst p) g s))).
    { apply R2_set_req_gone; [discriminate|]. apply R2_conn; assumption. }
    eapply R2_frame; [| | | | | | | |apply (R2_ev None (cur m0 s) _ (EHand r (fst p) b1 b2 b3 n) I); [|exact H1]]; try reflexivity; [intros c _ E; exact E|intros E; exact E|].
    intros ck. rewrite get_req_set, Nat.eqb_refl. destruct (get_req (upd_conn (fst p) g s) r); cbn; discriminate.
Qed.

(* what S2 takes from the relation R1 of pool/ProofsC04a.v *)
Definition Facts (m0 : mst) (s : state) : Prop :=
  (forall r d, get_dial s r = Some d -> exists x, nth_error (m_reqs (cur m0 s)) r = Some x) /\
  (forall r ck, get_req s r = Some (RCheckout ck) -> g_pool cfg = true -> rtk (cur m0 s) r = k_token ck /\ k_token ck <> 0) /\
  List.length (m_conns (cur m0 s)) = List.length (conns s) /\ List.length (reqs s) <= List.length (m_reqs (cur m0 s)) /\
  (forall tid rid t own, nth_error (tasks s) tid = Some (Some (TDelayed rid t own)) -> g_pool cfg = true -> rtk (cur m0 s) rid = t /\ t <> 0).

Lemma facts_of_R1 m0 s : R1 cfg (curT m0 s) s -> Facts m0 s.
Proof.
  intros HR. unfold curT in HR. unfold Facts. set (m := cur m0 s) in *.
  assert (Lr : List.length (t_rv (tv_of m)) = List.length (m_reqs m)) by (unfold tv_of; cbn [t_rv]; apply map_length).
  assert (Lc : List.length (t_cv (tv_of m)) = List.length (m_conns m)) by (unfold tv_of; cbn [t_cv]; apply map_length).
  split; [|split; [|split; [|split]]].
  - intros r d Hd. apply nth_ex. rewrite <- Lr. pose proof (q_lr _ _ _ HR). pose proof (q_ld _ _ _ HR). apply nth_lt in Hd. lia.
  - intros r ck Hq Hp. destruct (q_ck _ _ _ HR r ck Hq) as (A & _). destruct (A Hp) as [A1 A2]. rewrite rtk_tv. auto.
  - rewrite <- Lc. apply (q_lc _ _ _ HR).
  - rewrite <- Lr. apply (q_lr _ _ _ HR).
  - intros tid rid t own Ht Hp. destruct (q_td _ _ _ HR tid rid t own Ht Hp) as [A B]. rewrite rtk_tv. auto.
Qed.

Lemma ClearOK_tr m0 s s' t ck :
  xt0 s s' -> toks s' = toks s -> (forall c, share_of s c = true -> is_open s' c = is_open s c) -> (forall c, share_of s' c = share_of s c) ->
  ClearOK m0 s t ck -> ClearOK m0 s' t ck.
Proof.
  intros [X _] Tk Eo Es H Hp c Hc Hs Ho x Hm. rewrite Es in Hs. rewrite (Eo c Hs) in Ho. rewrite (mk_toks s s' t Tk) in Hm.
  pose proof (cur_mle m0 s s' X) as M. destruct (H Hp c Hc Hs Ho x Hm) as [A|A]; [left; eapply SS_mle; eauto|right; rewrite (d6_mle _ _ x M); exact A].
Qed.

Lemma live_after_hand m r c b1 b2 b3 n y : nth_error (m_reqs (track_ev m (EHand r c b1 b2 b3 n))) r = Some y -> is_live y = false.
Proof.
  cbn [track_ev]. unfold ci_upd, ri_upd. cbn [m_reqs set_m_conns set_m_reqs]. rewrite nth_upd_eq.
  destruct (nth_error (m_reqs m) r) as [y0|]; cbn; intros E; inversion E. match goal with |- context [if ?b then _ else _] => destruct b end; reflexivity.
Qed.

Lemma K2_do_poll m0 r s : K2 None m0 s -> Facts m0 s -> K2 None m0 (do_poll cfg r s).
Proof.
  intros H (Fx & Ft & Flc & Frl & _). unfold do_poll. destruct (get_req s r) as [[|ck|p fn pl| |]|] eqn:Hq; try exact H.
  - apply K2_set_req_gone; [discriminate|]. apply K2_emit; [exact I| |apply K2_unwake, H].
    intros ck. change (get_req (unwake_req r s) r) with (get_req s r). rewrite Hq. discriminate.
  - set (s1 := unwake_req r s). assert (H1 : K2 None m0 s1) by apply K2_unwake, H.
    assert (Hq1 : get_req s1 r = Some (RCheckout ck)) by exact Hq.
    assert (Hx1 : exists x, nth_error (m_reqs (cur m0 s1)) r = Some x).
    { apply nth_ex. change (cur m0 s1) with (cur m0 s). apply nth_lt in Hq. lia. }
    pose proof (K2_checkout_poll m0 r ck s1 H1 Hq1 Hx1 (Ft r ck Hq) Flc Frl) as HP.
    pose proof (kp_checkout_poll cfg r ck ck s1 Hq1) as Kp. pose proof (kp_ck _ _ _ _ Kp Hq1) as [cks Hqs].
    destruct (checkout_poll cfg r ck s1) as [[res ck'] s2]. unfold KPost in HP. cbn [fst snd] in *.
    destruct HP as (HK & Et & Eo & Hi & Herr & Hcl & Hpd & Hsc).
    assert (Hbk : forall c, k_conn ck' = Some c -> c < List.length (conns s2)).
    { intros c Hc. destruct Hsc as [Hn|[Es Ec]]; [congruence|]. subst s2. rewrite Ec in Hc. apply (z_bk _ _ _ (K2_R _ _ _ H1) r ck c Hq1 Hc). }
    destruct res as [|[p|e]].
    + (* pending *)
      apply K2_emit; [exact I|exact I|]. eapply (K2_state None None m0 s2); [reflexivity| |exact HK].
      destruct Hsc as [Hn|[Es Ec]].
      * eapply R2_set_ck_plain; [exact Hqs|exact Hn|exact Hi|intros Hp; apply (Hpd eq_refl Hp)|apply (K2_R _ _ _ HK)].
      * subst s2. eapply R2_set_ck; [exact Hq1|exact Et|exact Hi|left; exact Ec| |apply (K2_R _ _ _ HK)].
        intros Hp d Hd Es. exfalso. eapply (Hpd eq_refl Hp); eauto.
    + (* hand-off *)
      destruct (match get_conn s2 (fst p) with Some cn => (c_share cn, c_open cn, c_ready cn, c_holders cn) | None => (false, false, false, 0) end) as [[[sh op_] rd] hs].
      set (g := fun cn => c_set_holders (S (c_holders cn)) (if sh then cn else c_set_ready false cn)).
      assert (Gs : forall cn, c_share (g cn) = c_share cn) by (intros cn; unfold g; destruct sh; reflexivity).
      assert (Go : forall cn, c_open (g cn) = c_open cn) by (intros cn; unfold g; destruct sh; reflexivity).
      set (s5 := set_req r (RHolding p false true) (upd_conn (fst p) g (emit (EHand r (fst p) (snd p =? 0) op_ rd hs) s2))).
      assert (H5 : K2 None m0 s5) by (apply K2_hand_off; assumption).
      apply K2_emit; [exact I|exact I|]. apply K2_checkout_drop; [exact H5| | | | |].
      * intros ck0. unfold s5. rewrite get_req_set, Nat.eqb_refl. destruct (get_req (upd_conn (fst p) g (emit (EHand r (fst p) (snd p =? 0) op_ rd hs) s2)) r); cbn; discriminate.
      * eapply InnerOK_dials; [|exact Hi]. reflexivity.
      * rewrite Et. eapply (ClearOK_tr m0 s2 s5); [| | | |exact Hcl].
        -- split; [exists [EHand r (fst p) (snd p =? 0) op_ rd hs]; reflexivity|]. intros c. unfold s5, share_of. change (get_conn (set_req r (RHolding p false true) ?x) c) with (get_conn x c).
           fold (share_of (upd_conn (fst p) g (emit (EHand r (fst p) (snd p =? 0) op_ rd hs) s2)) c). rewrite share_of_upd by exact Gs. auto.
        -- reflexivity.
        -- intros c Hs. unfold s5. change (is_open (set_req r (RHolding p false true) ?x) c) with (is_open x c). rewrite is_open_upd_shared; auto.
        -- intros c. unfold s5. change (share_of (set_req r (RHolding p false true) ?x) c) with (share_of x c). rewrite share_of_upd by exact Gs. reflexivity.
      * intros c Hc. unfold s5, set_req, upd_conn. cbn [conns set_reqs set_conns emit set_out]. rewrite upd_len. apply Hbk. exact Hc.
      * intros y d Hy _ _. change (cur m0 s5) with (cur m0 (emit (EHand r (fst p) (snd p =? 0) op_ rd hs) s2)) in Hy. rewrite cur_emit in Hy.
        eapply live_after_hand. exact Hy.
    + (* error *)
      set (s3 := set_req r RDone s2). assert (H3 : K2 None m0 s3) by (apply K2_set_req_gone; [discriminate|exact HK]).
      assert (Hn3 : forall ck0, get_req s3 r <> Some (RCheckout ck0)).
      { intros ck0. unfold s3. rewrite get_req_set, Nat.eqb_refl, Hqs. discriminate. }
      apply K2_emit; [exact I| |].
      * apply (kp_not_ck s3 _ r (kp_checkout_drop cfg r ck' s3) Hn3).
      * apply K2_checkout_drop; [exact H3|exact Hn3|eapply InnerOK_dials; [|exact Hi]; reflexivity| |intros c Hc; apply (Hbk c Hc)|].
        -- rewrite Et. eapply (ClearOK_tr m0 s2 s3); [split; [exists []; reflexivity|auto]|reflexivity|reflexivity|reflexivity|exact Hcl].
        -- intros y d _ Hd Es. exfalso. destruct Hi as (_ & _ & I3 & _). rewrite (I3 (Herr e eq_refl) d Hd) in Es. discriminate.
  - set (s1 := unwake_req r s). assert (H1 : K2 None m0 s1) by apply K2_unwake, H.
    destruct fn.
    + apply K2_emit; [exact I| |apply K2_hold_release, K2_set_req_gone; [discriminate|exact H1]].
      intros ck. unfold get_req. rewrite reqs_hold_release. fold (get_req (set_req r RDone s1) r). rewrite get_req_set, Nat.eqb_refl.
      change (get_req s1 r) with (get_req s r). rewrite Hq. discriminate.
    + apply K2_emit; [exact I|exact I|]. apply K2_set_req_gone; [discriminate|exact H1].
Qed.

Lemma K2_do_finish m0 r s : K2 None m0 s -> K2 None m0 (do_finish r s).
Proof.
  intros H. unfold do_finish. destruct (get_req s r) as [[|ck|p fn pl| |]|]; try exact H.
  assert (H1 : K2 None m0 (set_req r (RHolding p true false) s)) by (apply K2_set_req_gone; [discriminate|exact H]).
  destruct pl; [apply K2_wake|]; exact H1.
Qed.

Lemma K2_finish_task ex m0 tid s : K2 ex m0 s -> K2 ex m0 (finish_task tid s).
Proof. intros H. eapply (K2_state ex ex m0 s); [reflexivity| |exact H]. apply R2_finish_task, (K2_R _ _ _ H). Qed.

Lemma K2_run_task m0 tid s : K2 None m0 s -> Facts m0 s -> SI None [] s -> K2 None m0 (run_task cfg tid s).
Proof.
  intros H (Fx & Ft & Flc & Frl & Ftd) HS. unfold run_task. destruct (nth tid (tasks s) None) as [[c t|rid t own]|] eqn:Et; [| |exact H].
  - apply nth_opt_error in Et. destruct (get_conn s c) as [cn|] eqn:Ec; [|apply K2_finish_task, H].
    pose proof (si_tsk _ _ _ HS tid c t Et) as Hns.
    assert (Fin : forall s0, K2 None m0 s0 -> conns s0 = conns s ->
              K2 None m0 (if is_open (finish_task tid s0) c && negb (t =? 0) && g_pool cfg
                          then pool_push (g_max_idle cfg) t c (finish_task tid s0) else drop_conn c (finish_task tid s0))).
    { intros s0 H0 E0. destruct (_ && _); [|apply K2_drop_conn, K2_finish_task, H0].
      apply K2_pool_push; [apply K2_finish_task, H0| |].
      - cbn [finish_task set_tasks conns]. rewrite E0. eapply nth_lt. exact Ec.
      - intros _ Hs. exfalso. change (share_of (finish_task tid s0) c) with (share_of s0 c) in Hs. rewrite (share_of_conns _ _ c E0) in Hs. congruence. }
    destruct (negb (c_open cn)); [apply Fin; [apply K2_emit; [exact I|exact I|exact H]|reflexivity]|].
    destruct (c_share cn || c_ready cn); [apply Fin; [apply K2_emit; [exact I|exact I|exact H]|reflexivity]|].
    apply K2_upd_conn; [reflexivity|reflexivity|exact H].
  - apply nth_opt_error in Et. pose proof (K2_R _ _ _ H) as HR.
    assert (H1 : K2 None m0 (snd (connector_poll rid (ByTask tid) s))).
    { apply K2_connector_poll; [exact H|left; reflexivity|intros d Hd; eauto|]. intros d Hd Es. exfalso. destruct (z_F _ _ _ HR tid rid t own Et) as (d1 & Hd1 & Hn1). rewrite Hd in Hd1. inversion Hd1; subst. contradiction. }
    destruct (connector_stage rid (ByTask tid) s) as [Hg _]. pose proof (connector_new rid (ByTask tid) s m0) as Hn.
    pose proof (reqs_connector_poll rid (ByTask tid) s) as R1. pose proof (xt_connector_poll rid (ByTask tid) s) as X1.
    destruct (connector_poll rid (ByTask tid) s) as [r s1]. cbn [fst snd] in *.
    set (b := g_pool cfg && negb (t =? 0) && own).
    assert (Canc : forall s2, K2 None m0 s2 -> dials s2 = dials s1 -> (exists rr, r = CReady rr) -> K2 None m0 (if b then pool_cancel t rid s2 else s2)).
    { intros s2 H2 D2 [rr Er]. destruct b; [|exact H2]. apply K2_pool_cancel; [right|intros ck d _ Hd Es|exact H2].
      - intros d Hd. unfold get_dial in Hd. rewrite D2 in Hd. eapply Hg; eauto.
      - unfold get_dial in Hd. rewrite D2 in Hd. rewrite (Hg rr Er d Hd) in Es. discriminate. }
    destruct r as [|[c|e]]; [exact H1| |].
    + destruct (Hn c eq_refl) as (Ec & Ll & sh & Ecur & Esh).
      pose proof (K2_register None m0 t c s1 H1) as H2. pose proof (dials_register t c s1) as D2.
      destruct (register cfg t c s1) as [p s2]. cbn [snd] in *.
      apply K2_pooled_drop, K2_finish_task. apply Canc; [|exact D2|eauto].
      apply H2; [rewrite Ll, Ec; lia|]. intros Hp Hs Ho x Hm. left.
      destruct (Ftd tid rid t own Et Hp) as [Hrt Hnz]. pose proof (cur_mle_xt m0 s s1 X1) as M1.
      destruct (z_mx _ _ _ (K2_R _ _ _ H1) _ x Hm) as [Hxl Hxr].
      rewrite Ecur. apply (SS_new_conn (cur m0 s) s c sh rid x); [rewrite Flc; symmetry; exact Ec|rewrite <- Esh; exact Hs|exact HR| | |].
      * rewrite Hrt. rewrite <- (Hxr Hp). rewrite (rtk_mle _ _ x M1). reflexivity.
      * rewrite <- (rtk_mle _ _ x M1), (Hxr Hp). exact Hnz.
      * rewrite (ml_rl _ _ M1) in Hxl. exact Hxl.
    + apply K2_finish_task. apply Canc; [exact H1|reflexivity|eauto].
Qed.

Lemma K2_set_runq ex m0 v s : K2 ex m0 s -> K2 ex m0 (set_runq v s).
Proof. intros H. eapply K2_same; [| | | | | | |exact H]; reflexivity. Qed.

(* ---------------------------------------------------------------- both invariants together *)
Definition G2 (fin : nat -> nat) (m0 : mst) (s : state) : Prop := G cfg fin None [] m0 s /\ K2 None m0 s.

Lemma G2_facts fin m0 s : G2 fin m0 s -> Facts m0 s /\ SI None [] s.
Proof. intros [HG _]. split; [apply facts_of_R1, (G_R1 _ _ _ _ _ _ HG)|apply (G_SI _ _ _ _ _ _ HG)]. Qed.

Lemma G2_do_poll fin m0 r s : G2 fin m0 s -> Le fin (do_poll cfg r s) -> G2 fin m0 (do_poll cfg r s).
Proof. intros H HLe. destruct (G2_facts _ _ _ H) as [F _]. destruct H as [HG HK]. split; [apply G_do_poll; assumption|apply K2_do_poll; assumption]. Qed.

Lemma G2_do_finish fin m0 r s : G2 fin m0 s -> G2 fin m0 (do_finish r s).
Proof. intros [HG HK]. split; [apply G_do_finish; assumption|apply K2_do_finish; assumption]. Qed.

Lemma G2_run_task fin m0 tid s : G2 fin m0 s -> Le fin (run_task cfg tid s) -> G2 fin m0 (run_task cfg tid s).
Proof. intros H HLe. destruct (G2_facts _ _ _ H) as [F S]. destruct H as [HG HK]. split; [apply G_run_task; assumption|apply K2_run_task; assumption]. Qed.

Lemma G2_bg_loop fin m0 fuel : forall s, G2 fin m0 s -> Le fin (bg_loop cfg fuel s) -> G2 fin m0 (bg_loop cfg fuel s).
Proof.
  induction fuel as [|f IH]; intros s H HLe; cbn [bg_loop] in *; [exact H|].
  destruct (runq s) as [|tid rest]; [exact H|].
  apply IH; [|exact HLe]. apply G2_run_task.
  - destruct H as [HG HK]. split; [eapply G_eq; [| | | | | | | |exact HG]; reflexivity|apply K2_set_runq, HK].
  - eapply Le_Mono; [apply Mono_bg_loop|exact HLe].
Qed.

(* ---------------------------------------------------------------- the tracker's reading of an operation *)
Lemma mle_set_time v m : mle m (set_m_time v m).
Proof. constructor; cbn; eauto using rfix_refl, cfix_refl. Qed.

(* Cancel: the tracker first notes the hand-back on the popped conn (ci_back only), then marks the request *)
Definition cpre (m : mst) (x : rinfo) : mst :=
  match ri_stat x, ri_popx x with
  | SLive, Some c => match nth_error (m_conns m) c with
                     | Some y => if ci_share y then m else ci_upd (set_ci_back (m_i m)) c m
                     | None => m end
  | _, _ => m end.
Definition cmark (y : rinfo) : rinfo :=
  set_ri_pend false (set_ri_stat SCancelled (match ri_stat y, ri_dial y with SLive, DsFlying => set_ri_aband true y | _, _ => y end)).
Lemma track_cancel_some m r ob x : nth_error (m_reqs m) r = Some x ->
  track_op cfg m (Cancel r) ob = match ri_stat x with SDone | SCancelled => m | _ => ri_upd cmark r (cpre m x) end.
Proof. intros H. cbn [track_op]. rewrite H. reflexivity. Qed.
Lemma track_cancel_none m r ob : nth_error (m_reqs m) r = None -> track_op cfg m (Cancel r) ob = m.
Proof. intros H. cbn [track_op]. rewrite H. reflexivity. Qed.
Lemma cpre_reqs m x : m_reqs (cpre m x) = m_reqs m.
Proof.
  unfold cpre. destruct (ri_stat x); try reflexivity. destruct (ri_popx x) as [c|]; [|reflexivity].
  destruct (nth_error (m_conns m) c) as [y|]; [|reflexivity]. destruct (ci_share y); reflexivity.
Qed.
Lemma cpre_mle m x : mle m (cpre m x).
Proof.
  unfold cpre. destruct (ri_stat x); try apply mle_refl. destruct (ri_popx x) as [c|]; [|apply mle_refl].
  destruct (nth_error (m_conns m) c) as [y|]; [|apply mle_refl]. destruct (ci_share y); [apply mle_refl|].
  apply mle_ci_upd. intros z. repeat split.
Qed.
Lemma cmark_rfix y : rfix y (cmark y).
Proof. unfold cmark. destruct (ri_stat y), (ri_dial y); repeat split. Qed.

Lemma mle_track_op m o ob : (forall u p, o <> Issue u p) -> mle m (track_op cfg m o ob).
Proof.
  intros Hi. destruct o; try (cbn [track_op]; apply mle_refl).
  - exfalso. eapply Hi. reflexivity.
  - destruct (nth_error (m_reqs m) r) as [x|] eqn:Hx; [|rewrite track_cancel_none by exact Hx; apply mle_refl].
    rewrite (track_cancel_some _ _ _ _ Hx). destruct (ri_stat x); try apply mle_refl;
      (eapply mle_trans; [apply cpre_mle|apply mle_ri_upd; exact cmark_rfix]).
  - cbn [track_op]. destruct (holder_conn m r); [|apply mle_refl]. apply mle_ci_upd. intros y. repeat split.
  - cbn [track_op]. apply mle_ri_upd. intros y. destruct (ri_dial y), (ri_resolved y); repeat split.
  - cbn [track_op]. apply mle_ci_upd. intros y. repeat split.
  - cbn [track_op]. apply mle_set_time.
Qed.

Lemma wcond_cancel y :
  wcond y (set_ri_pend false (set_ri_stat SCancelled (match ri_stat y, ri_dial y with SLive, DsFlying => set_ri_aband true y | _, _ => y end))).
Proof.
  unfold wcond. destruct (ri_stat y) eqn:S1, (ri_dial y) eqn:S2; cbn; rewrite ?S1, ?S2; repeat split; auto; try (intros E; discriminate E).
Qed.

Lemma wcond_dialdone b y :
  wcond y (match ri_dial y, ri_resolved y with DsFlying, None => set_ri_resolved (Some b) y | _, _ => y end).
Proof.
  unfold wcond. destruct (ri_dial y) eqn:S1, (ri_resolved y) eqn:S2; cbn; rewrite ?S1, ?S2; repeat split; auto; try (intros E; discriminate E).
Qed.

Lemma Wk_track_op m o ob : (forall u p, o <> Issue u p) -> Wk m (track_op cfg m o ob).
Proof.
  intros Hi. destruct o; try (cbn [track_op]; apply Wk_refl).
  - exfalso. eapply Hi. reflexivity.
  - destruct (nth_error (m_reqs m) r) as [x|] eqn:Hx; [|rewrite track_cancel_none by exact Hx; apply Wk_refl].
    rewrite (track_cancel_some _ _ _ _ Hx). destruct (ri_stat x); try apply Wk_refl;
      (apply (Wk_trans m (cpre m x)); [apply cpre_mle|apply Wk_same; apply cpre_reqs|apply Wk_ri_upd; intros y; apply wcond_cancel]).
  - cbn [track_op]. destruct (holder_conn m r); [|apply Wk_refl]. apply Wk_same. reflexivity.
  - cbn [track_op]. apply Wk_ri_upd. intros y. apply wcond_dialdone.
  - cbn [track_op]. apply Wk_same. reflexivity.
  - cbn [track_op]. apply Wk_same. reflexivity.
Qed.

(* the tracker's move at the start of an operation that is neither Issue nor Cancel keeps R2 *)
Lemma R2_op_start m s o ob :
  (forall u p, o <> Issue u p) -> (forall r, o <> Cancel r) -> R2 None m s -> R2 None (track_op cfg m o ob) s.
Proof.
  intros Hi Hc H. apply (R2_weak None m); [apply mle_track_op; exact Hi| | |exact H].
  - intros r y y' Hy Hy'. destruct (Wk_track_op m o ob Hi r y y' Hy Hy') as (A & B & C). split; [exact C|left; split; assumption].
  - intros r ck y' Hq Hy'. destruct (z_live _ _ _ H r ck Hq) as (y & Hy & Hl).
    destruct o; cbn [track_op] in Hy'; try (rewrite Hy in Hy'; inversion Hy'; subst; exact Hl).
    + exfalso. eapply Hi. reflexivity.
    + exfalso. eapply Hc. reflexivity.
    + destruct (holder_conn m r0); [unfold ci_upd in Hy'; cbn [m_reqs set_m_conns] in Hy'|]; rewrite Hy in Hy'; inversion Hy'; subst; exact Hl.
    + unfold ri_upd in Hy'. cbn [m_reqs set_m_reqs] in Hy'. rewrite nth_error_upd_nth, Hy in Hy'.
      destruct (Nat.eqb r0 r); cbn in Hy'; inversion Hy'; subst; [destruct (ri_dial y), (ri_resolved y); exact Hl|exact Hl].
    + unfold ci_upd in Hy'. cbn [m_reqs set_m_conns] in Hy'. rewrite Hy in Hy'. inversion Hy'; subst. exact Hl.
    + cbn [m_reqs set_m_time] in Hy'. rewrite Hy in Hy'. inversion Hy'; subst. exact Hl.
Qed.

Lemma K2_of ex m0 s : out s = [] -> R2 ex m0 s -> K2 ex m0 s.
Proof. intros Ho HR. unfold K2, cur. rewrite Ho. cbn. auto. Qed.

Lemma R2_out ex m s v : R2 ex m s -> R2 ex m (set_out v s).
Proof. intros H. eapply R2_frame; [| | | | | | | |exact H]; try reflexivity; [intros c _ E; exact E|intros E; exact E]. Qed.

Lemma cancel_other m r ob r' : r' <> r -> nth_error (m_reqs (track_op cfg m (Cancel r) ob)) r' = nth_error (m_reqs m) r'.
Proof.
  intros Hne. destruct (nth_error (m_reqs m) r) as [x|] eqn:Hx; [|rewrite track_cancel_none by exact Hx; reflexivity].
  rewrite (track_cancel_some _ _ _ _ Hx).
  destruct (ri_stat x); try reflexivity; unfold ri_upd; cbn [m_reqs set_m_reqs]; rewrite cpre_reqs; apply nth_upd_ne; congruence.
Qed.

Lemma cancel_self_dead m r ob y y' :
  nth_error (m_reqs m) r = Some y -> is_live y = true -> nth_error (m_reqs (track_op cfg m (Cancel r) ob)) r = Some y' -> is_live y' = false.
Proof.
  intros Hy Hl. rewrite (track_cancel_some _ _ _ _ Hy). unfold is_live in Hl. destruct (ri_stat y) eqn:Es; try discriminate.
  unfold ri_upd. cbn [m_reqs set_m_reqs]. rewrite cpre_reqs, nth_upd_eq, Hy. cbn. intros E. inversion E. reflexivity.
Qed.

Lemma K2_do_cancel m r ob s :
  out s = [] -> R2 None m s -> List.length (reqs s) <= List.length (m_reqs m) ->
  K2 None (track_op cfg m (Cancel r) ob) (do_cancel cfg r s).
Proof.
  intros Ho HR Hrl. set (m' := track_op cfg m (Cancel r) ob).
  assert (M : mle m m') by (apply mle_track_op; discriminate).
  assert (W : Wk m m') by (apply Wk_track_op; discriminate).
  assert (Tr : forall s', (forall ck, get_req s' r <> Some (RCheckout ck)) -> R2 None m s' -> R2 None m' s').
  { intros s' Hn H'. apply (R2_weak None m); [exact M| | |exact H'].
    - intros r0 y y' Hy Hy'. destruct (W r0 y y' Hy Hy') as (A & B & C). split; [exact C|left; split; assumption].
    - intros r0 ck y' Hq Hy'. destruct (z_live _ _ _ H' r0 ck Hq) as (y & Hy & Hl).
      assert (Hne : r0 <> r) by (intros ->; eapply Hn; eauto). unfold m' in Hy'. rewrite (cancel_other m r ob r0 Hne), Hy in Hy'. inversion Hy'; subst. exact Hl. }
  unfold do_cancel. destruct (get_req s r) as [q|] eqn:Hq.
  2:{ apply K2_of; [exact Ho|]. apply Tr; [intros ck; rewrite Hq; discriminate|exact HR]. }
  set (s1 := set_req r RCancelled s).
  assert (Hn1 : forall ck, get_req s1 r <> Some (RCheckout ck)) by (intros ck; unfold s1; rewrite get_req_set, Nat.eqb_refl, Hq; discriminate).
  assert (H1 : K2 None m' s1) by (apply K2_of; [exact Ho|apply Tr; [exact Hn1|apply R2_set_req_gone; [discriminate|exact HR]]]).
  assert (Cu : cur m' s1 = m') by (unfold cur; cbn [out s1 set_req set_reqs]; rewrite Ho; reflexivity).
  destruct q as [|ck|p fn pl| |].
  - apply K2_unwake, H1.
  - apply K2_unwake. apply K2_checkout_drop; [exact H1|exact Hn1| | | |].
    + eapply InnerOK_dials; [|apply (z_inner _ _ _ HR r ck Hq)]. reflexivity.
    + intros Hp c Hc Hs Ho' x Hm. rewrite Cu. right. rewrite (d6_mle m m' x M).
      change (mk s1 (k_token ck)) with (mk s (k_token ck)) in Hm. change (share_of s1 c) with (share_of s c) in Hs. change (is_open s1 c) with (is_open s c) in Ho'.
      pose proof (z_D _ _ _ HR r ck c x Hq Hc Hs Hm) as Hlt. destruct (z_mx _ _ _ HR _ x Hm) as [Hx Hr].
      eapply (z_E _ _ _ HR Hp r ck c x); eauto.
    + intros c Hc. apply (z_bk _ _ _ HR r ck c Hq Hc).
    + intros y' d Hy' _ _. rewrite Cu in Hy'. destruct (z_live _ _ _ HR r ck Hq) as (y & Hy & Hl). apply (cancel_self_dead m r ob y y' Hy Hl Hy').
  - apply K2_unwake, K2_hold_release, H1.
  - apply K2_unwake. apply K2_of; [exact Ho|]. apply Tr; [intros ck; rewrite Hq; discriminate|exact HR].
  - apply K2_unwake. apply K2_of; [exact Ho|]. apply Tr; [intros ck; rewrite Hq; discriminate|exact HR].
Qed.

Lemma K2_wake_task ex m0 t s : K2 ex m0 s -> K2 ex m0 (wake_task t s).
Proof. intros H. destruct (wake_task_frame t s) as (A & B & C & D & E & F0 & G0 & H0). eapply K2_same; eauto. Qed.
Lemma K2_wake_tasks ex m0 l : forall s, K2 ex m0 s -> K2 ex m0 (wake_tasks l s).
Proof. induction l as [|t l IH]; intros s H; cbn [wake_tasks]; [exact H|]. apply IH, K2_wake_task, H. Qed.
Lemma K2_drain ex m0 c s : K2 ex m0 s -> K2 ex m0 (drain_conn_waiters c s).
Proof.
  intros H. unfold drain_conn_waiters. destruct (get_conn s c) as [cn|]; [|exact H].
  apply K2_wake_tasks. apply K2_upd_conn; [reflexivity|reflexivity|exact H].
Qed.

Lemma K2_close ex m0 c s : K2 ex m0 s -> K2 ex m0 (drain_conn_waiters c (upd_conn c (c_set_open false) s)).
Proof.
  intros H. apply K2_drain. eapply (K2_state ex ex m0 s); [reflexivity| |exact H].
  eapply R2_frame; [| | | | | | | |apply (K2_R _ _ _ H)]; try reflexivity.
  - intros c'. apply share_of_upd. reflexivity.
  - intros c' Hs E. unfold is_open in *. rewrite get_conn_upd in E. destruct (Nat.eqb c c'); [|exact E].
    destruct (get_conn s c') as [cn|]; cbn in *; [|discriminate]. destruct (c_share cn); discriminate.
  - unfold upd_conn. cbn [conns set_conns]. apply upd_len.
  - intros E; exact E.
Qed.

Lemma dialdone_resolved m r x ob y' :
  nth_error (m_reqs (track_op cfg m (DialDone r x) ob)) r = Some y' -> ri_dial y' = DsFlying -> ri_resolved y' = None -> False.
Proof.
  cbn [track_op]. unfold ri_upd. cbn [m_reqs set_m_reqs]. rewrite nth_upd_eq. destruct (nth_error (m_reqs m) r) as [y|]; cbn; [|discriminate].
  intros E. inversion E; subst. destruct (ri_dial y) eqn:S1, (ri_resolved y) eqn:S2; cbn; rewrite ?S1, ?S2; intros A B; try discriminate.
Qed.

(* ---------------------------------------------------------------- Issue: the tracker gets a new entry *)
Lemma R2_issue_tr m m' s ni :
  R2 None m s -> List.length (m_reqs m) = List.length (reqs s) -> List.length (dials s) = List.length (reqs s) ->
  m_reqs m' = m_reqs m ++ [ni] -> m_i m' = m_i m ->
  (forall r, r < List.length (m_reqs m) -> rtk m' r = rtk m r) ->
  (forall r, SS m r = true -> SS m' r = true) ->
  ri_dial ni = DsNone -> ri_at ni = m_i m -> is_live ni = true ->
  (g_pool cfg = true -> forall y ck c, get_req s y = Some (RCheckout ck) -> k_conn ck = Some c -> share_of s c = true -> is_open s c = true ->
     rtk m' (List.length (m_reqs m)) = k_token ck -> ri_d6 ni = true) ->
  R2 None m' s.
Proof.
  intros H Hl Hld Er Ei Kt Ks Nd Na Nl Ke. set (n := List.length (m_reqs m)) in *.
  assert (Old : forall r y, nth_error (m_reqs m') r = Some y -> (r < n /\ nth_error (m_reqs m) r = Some y) \/ (r = n /\ y = ni)).
  { intros r y Hy. rewrite Er, nth_snoc in Hy. fold n in Hy. destruct (Nat.ltb_spec r n); [left; auto|].
    destruct (Nat.eqb_spec r n); [|discriminate]. inversion Hy. right. auto. }
  assert (Fw : forall r y, nth_error (m_reqs m) r = Some y -> nth_error (m_reqs m') r = Some y).
  { intros r y Hy. rewrite Er. rewrite nth_error_app1; [exact Hy|eapply nth_lt; eauto]. }
  assert (Nodial : forall d, get_dial s n = Some d -> False) by (intros d Hd; apply nth_lt in Hd; unfold n in Hd; lia).
  assert (Kd : forall r, r < n -> d6 m' r = d6 m r).
  { intros r Hr. unfold d6. destruct (nth_ex _ _ Hr) as [y Hy]. rewrite Hy, (Fw r y Hy). reflexivity. }
  destruct H. constructor; auto.
  - intros r y d Hy Hd. destruct (Old r y Hy) as [[_ Hy0]|[-> _]]; [eauto|exfalso; eauto].
  - intros r y Hy Hf. destruct (Old r y Hy) as [[_ Hy0]|[_ ->]]; [eauto|congruence].
  - intros r y d Hy Hd. destruct (Old r y Hy) as [[_ Hy0]|[-> _]]; [eauto|exfalso; eauto].
  - intros r ck Hq. destruct (z_live0 r ck Hq) as (y & Hy & Hlv). exists y. split; [apply Fw, Hy|exact Hlv].
  - intros r y Hy. rewrite Ei. destruct (Old r y Hy) as [[_ Hy0]|[_ ->]]; [eauto|lia].
  - intros Hp x d Hx Hd Hpr Hst. assert (Hxn : x < n) by (apply nth_lt in Hd; unfold n; lia).
    rewrite (Kt x Hxn), (Kd x Hxn). destruct (z_B0 Hp x d Hx Hd Hpr Hst) as [A|[A|A]]; auto.
  - intros Hp y ck c x Hq Hc Hs Ho Hlt Hx Hr. rewrite Er, app_length in Hx. cbn [List.length] in Hx. fold n in Hx.
    destruct (Nat.eq_dec x n) as [->|Hne].
    + unfold d6. rewrite Er, nth_error_app2, Nat.sub_diag by (fold n; lia). cbn [nth_error]. eapply Ke; eauto.
    + assert (Hxn : x < n) by lia. rewrite (Kd x Hxn). rewrite (Kt x Hxn) in Hr. eapply z_E0; eauto.
  - intros y ck c Hq Hc Hs Ho. destruct (z_P0 y ck c Hq Hc Hs Ho) as (yi & Hyi & Hp). exists yi. split; [apply Fw, Hyi|exact Hp].
  - intros t x Hm. destruct (z_mx0 t x Hm) as [A B]. split; [rewrite Er, app_length; cbn; lia|]. intros Hp. rewrite (Kt x); [auto|exact A].
Qed.

Lemma R2_add_req m s q d ni :
  R2 None m s -> List.length (dials s) = List.length (reqs s) ->
  nth_error (m_reqs m) (List.length (reqs s)) = Some ni -> List.length (m_reqs m) = S (List.length (reqs s)) ->
  ri_proto ni = d_proto d -> ri_dial ni = DsNone -> is_live ni = true ->
  (forall p f pl, q <> RHolding p f pl) ->
  (forall ck, q = RCheckout ck ->
     (k_inner ck <> IDelayed /\ (g_pool cfg = true -> k_inner ck = IConnecting -> g_cont cfg = false) /\
      ((k_inner ck = IWaiting \/ k_inner ck = IConnected) -> d_stage d = DGone) /\ (forall c, k_conn ck = Some c -> k_inner ck = IConnected)) /\
     (g_pool cfg = true -> d_stage d = DNew -> k_waiter ck = WIdle /\
        (k_slot ck = None -> (d_proto d = H2 -> mk s (k_token ck) = Some (List.length (reqs s))) /\
                             In (List.length (reqs s), false) (p_waiting (get_tok s (k_token ck))))) /\
     (forall c, k_conn ck = Some c -> c < List.length (conns s) /\
        (share_of s c = true -> (forall x, mk s (k_token ck) <> Some x) /\ (is_open s c = true -> ri_poph ni <> None)))) ->
  (g_pool cfg = true -> d_proto d = H2 -> d_stage d <> DGone ->
     mk s (rtk m (List.length (reqs s))) = Some (List.length (reqs s)) \/ SS m (List.length (reqs s)) = true \/ d6 m (List.length (reqs s)) = true) ->
  R2 None m (set_dials (dials s ++ [d]) (set_reqs (reqs s ++ [q]) s)).
Proof.
  intros H Hld Hni Hlm Hpr Hdn Hlv Hnh Hck HB. set (n := List.length (reqs s)) in *. set (s' := set_dials (dials s ++ [d]) (set_reqs (reqs s ++ [q]) s)).
  assert (Gq : forall r q', get_req s' r = Some q' -> (r < n /\ get_req s r = Some q') \/ (r = n /\ q' = q)).
  { intros r q' Hq. unfold get_req, s' in Hq. cbn [reqs set_dials set_reqs] in Hq. rewrite nth_snoc in Hq. fold n in Hq.
    destruct (Nat.ltb_spec r n); [left; auto|]. destruct (Nat.eqb_spec r n); [|discriminate]. inversion Hq. right. auto. }
  assert (Gd : forall r d', get_dial s' r = Some d' -> (r < n /\ get_dial s r = Some d') \/ (r = n /\ d' = d)).
  { intros r d' Hd. unfold get_dial, s' in Hd. cbn [dials set_dials] in Hd. rewrite nth_snoc, Hld in Hd. fold n in Hd.
    destruct (Nat.ltb_spec r n); [left; auto|]. destruct (Nat.eqb_spec r n); [|discriminate]. inversion Hd. right. auto. }
  assert (Fd : forall r d', get_dial s r = Some d' -> get_dial s' r = Some d').
  { intros r d' Hd. unfold get_dial, s'. cbn [dials set_dials]. rewrite nth_error_app1; [exact Hd|eapply nth_lt; eauto]. }
  assert (Ndl : forall d', get_dial s n = Some d' -> False) by (intros d' Hd; apply nth_lt in Hd; unfold n in Hd; lia).
  assert (Nrq : forall q', get_req s n = Some q' -> False) by (intros q' Hq; apply nth_lt in Hq; unfold n in Hq; lia).
  destruct H. constructor; auto.
  - intros r y d' Hy Hd. destruct (Gd r d' Hd) as [[_ Hd0]|[-> ->]]; [eauto|]. rewrite Hni in Hy. inversion Hy; subst. exact Hpr.
  - intros r y Hy Hf. destruct (z_dnw0 r y Hy Hf) as (d' & Hd & Hn). exists d'. split; [apply Fd, Hd|exact Hn].
  - intros r y d' Hy Hd Hf Hu Hl. destruct (Gd r d' Hd) as [[_ Hd0]|[-> ->]]; [eauto|]. rewrite Hni in Hy. inversion Hy; subst. congruence.
  - intros r ck Hq. destruct (Gq r _ Hq) as [[_ Hq0]|[-> E]]; [eauto|]. exists ni. auto.
  - intros r ck Hq. destruct (Gq r _ Hq) as [[Hr Hq0]|[-> E]].
    + destruct (z_inner0 r ck Hq0) as (A & B & C & D). split; [exact A|split; [exact B|split; [|exact D]]].
      intros Hi d' Hd. destruct (Gd r d' Hd) as [[_ Hd0]|[-> _]]; [eauto|lia].
    + symmetry in E. destruct (Hck ck E) as ((A & B & C & D) & _). split; [exact A|split; [exact B|split; [|exact D]]].
      intros Hi d' Hd. destruct (Gd n d' Hd) as [[_ Hd0]|[_ ->]]; [exfalso; eauto|auto].
  - intros Hp r ck d' Hq Hd Hs. destruct (Gq r _ Hq) as [[Hr Hq0]|[-> E]].
    + destruct (Gd r d' Hd) as [[_ Hd0]|[-> _]]; [|lia]. apply (z_A0 Hp r ck d'); auto.
    + symmetry in E. destruct (Gd n d' Hd) as [[_ Hd0]|[_ ->]]; [exfalso; eauto|]. destruct (Hck ck E) as (_ & A & _). apply A; auto.
  - intros Hp x d' Hx Hd Hpp Hst. destruct (Gd x d' Hd) as [[_ Hd0]|[-> ->]]; [eauto|]. apply HB; auto.
  - intros y ck c x Hq Hc Hs Hm. destruct (Gq y _ Hq) as [[_ Hq0]|[-> E]]; [eauto|]. symmetry in E. destruct (Hck ck E) as (_ & _ & A).
    destruct (A c Hc) as [_ B]. destruct (B Hs) as [Nm _]. exfalso. eapply Nm; eauto.
  - intros Hp y ck c x Hq Hc Hs Ho Hlt Hx Hr. destruct (Gq y _ Hq) as [[_ Hq0]|[-> E]]; [eauto|]. rewrite Hlm in Hx. fold n in Hx. lia.
  - intros y ck c Hq Hc Hs Ho. destruct (Gq y _ Hq) as [[_ Hq0]|[-> E]]; [eauto|]. symmetry in E. destruct (Hck ck E) as (_ & _ & A).
    destruct (A c Hc) as [_ B]. destruct (B Hs) as [_ Pp]. exists ni. split; [exact Hni|apply Pp, Ho].
  - intros tid rid t own Ht. destruct (z_F0 tid rid t own Ht) as (d' & Hd & Hn). exists d'. split; [apply Fd, Hd|exact Hn].
  - intros y ck c Hq Hc. destruct (Gq y _ Hq) as [[_ Hq0]|[-> E]]; [eauto|]. symmetry in E. destruct (Hck ck E) as (_ & _ & A). apply (A c Hc).
Qed.

(* the pop only emits EDrop: the tracker's request entries are untouched *)
Lemma mreqs_cur_drop_conn m0 c s : m_reqs (cur m0 (drop_conn c s)) = m_reqs (cur m0 s).
Proof.
  unfold drop_conn. destruct (get_conn s c) as [cn|]; [|reflexivity]. destruct (Nat.eqb _ _); [|reflexivity].
  rewrite cur_emit. reflexivity.
Qed.
Lemma mreqs_cur_drop_all m0 l : forall s, m_reqs (cur m0 (drop_all l s)) = m_reqs (cur m0 s).
Proof. induction l as [|[c a] l IH]; intros s; cbn [drop_all]; [reflexivity|]. rewrite IH. apply mreqs_cur_drop_conn. Qed.
Lemma mreqs_cur_pop_loop m0 thr rl : forall s, m_reqs (cur m0 (snd (pop_loop thr rl s))) = m_reqs (cur m0 s).
Proof.
  induction rl as [|[c a] rl IH]; intros s; cbn [pop_loop]; [reflexivity|].
  destruct (match thr with Some y => (a <? y)%N | None => false end); cbn [snd]; [rewrite mreqs_cur_drop_all; apply mreqs_cur_drop_conn|].
  destruct (is_open s c); cbn [snd]; [reflexivity|]. rewrite IH. apply mreqs_cur_drop_conn.
Qed.
Lemma mreqs_cur_pool_pop m0 to t s : m_reqs (cur m0 (snd (pool_pop to t s))) = m_reqs (cur m0 s).
Proof.
  unfold pool_pop. pose proof (mreqs_cur_pop_loop m0 (expiry_threshold to (now s)) (rev (p_idle (get_tok s t))) s) as E.
  destruct (pop_loop _ _ s) as [[r rest] s1]. cbn [snd] in *. rewrite <- E. rewrite (cur_out m0 s1 _ (out_upd_tok _ _ _)). reflexivity.
Qed.

Lemma pop_loop_shape2 thr rl : forall s c rest s', pop_loop thr rl s = (Some c, rest, s') -> exists pre a, rl = pre ++ (c, a) :: rest.
Proof.
  induction rl as [|[c0 a0] rl IH]; intros s c rest s' H; cbn [pop_loop] in H; [discriminate|].
  destruct (match thr with Some y => (a0 <? y)%N | None => false end); [discriminate|].
  destruct (is_open s c0).
  - inversion H; subst. exists [], a0. reflexivity.
  - destruct (IH _ _ _ _ H) as (pre & a & ->). exists ((c0, a0) :: pre), a. reflexivity.
Qed.

(* the removed suffix of the idle list starts with the connection the pop returned *)
Lemma pool_pop_removed to t s c :
  fst (pool_pop to t s) = Some c ->
  exists l, skipn (List.length (p_idle (get_tok (snd (pool_pop to t s)) t))) (map fst (p_idle (get_tok s t))) = c :: l.
Proof.
  unfold pool_pop. pose proof (toks_pop_loop (expiry_threshold to (now s)) (rev (p_idle (get_tok s t))) s) as Tk.
  destruct (pop_loop (expiry_threshold to (now s)) (rev (p_idle (get_tok s t))) s) as [[r rest] s1] eqn:Ep. cbn [fst snd] in *.
  intros ->. destruct (pop_loop_shape2 _ _ _ _ _ _ Ep) as (pre & a & Hrl).
  assert (Hid : p_idle (get_tok s t) = rev rest ++ (c, a) :: rev pre).
  { rewrite <- (rev_involutive (p_idle (get_tok s t))), Hrl, rev_app_distr. cbn [rev]. rewrite <- app_assoc. reflexivity. }
  assert (Hnew : p_idle (get_tok (upd_tok t (set_idle (rev rest)) s1) t) = rev rest).
  { destruct t as [|i]; [cbn in Hid; destruct (rev rest); discriminate|].
    destruct (get_tok_upd_eq (S i) (set_idle (rev rest)) s1) as [E|E]; rewrite E; [|reflexivity].
    exfalso. assert (Ei : nth_error (toks s1) i = None \/ exists p, nth_error (toks s1) i = Some p) by (destruct (nth_error (toks s1) i); eauto).
    destruct Ei as [Ei|[p Ei]].
    - assert (G0 : get_tok s (S i) = empty_tok) by (cbn [get_tok]; rewrite <- Tk; apply nth_overflow, nth_error_None, Ei). rewrite G0 in Hid. cbn in Hid. destruct (rev rest); discriminate.
    - cbn [get_tok upd_tok toks set_toks] in E. rewrite (nth_default_error empty_tok _ _ _ Ei) in E.
      assert (E2 : nth i (upd_nth i (set_idle (rev rest)) (toks s1)) empty_tok = set_idle (rev rest) p).
      { apply nth_default_error. rewrite nth_upd_eq, Ei. reflexivity. }
      rewrite E2 in E. assert (Hp : p_idle p = rev rest) by (rewrite <- E; reflexivity).
      assert (G0 : get_tok s (S i) = p) by (cbn [get_tok]; rewrite <- Tk; apply nth_default_error; exact Ei). rewrite G0, Hp in Hid.
      apply (f_equal (@List.length _)) in Hid. rewrite app_length in Hid. cbn in Hid. lia. }
  rewrite Hnew, Hid, map_app. exists (map fst (rev pre)).
  replace (List.length (rev rest)) with (List.length (map fst (rev rest))) by apply map_length.
  rewrite skipn_app, Nat.sub_diag, skipn_all. reflexivity.
Qed.



Lemma key_insert_range k s : List.length (toks s) = List.length (keys s) ->
  1 <= fst (key_insert k s) <= List.length (toks (snd (key_insert k s))) /\
  List.length (toks (snd (key_insert k s))) = List.length (keys (snd (key_insert k s))).
Proof.
  intros E. unfold key_insert. destruct (find_key k (keys s) 1) as [t|] eqn:Ef; cbn [fst snd].
  - apply find_key_some in Ef. destruct Ef as (j & k' & -> & Hn & _). apply nth_lt in Hn. split; [lia|exact E].
  - cbn [toks keys set_toks set_keys]. rewrite !app_length. cbn. split; lia.
Qed.

Lemma get_tok_upd_in t f s : 1 <= t <= List.length (toks s) -> get_tok (upd_tok t f s) t = f (get_tok s t).
Proof.
  intros [H1 H2]. destruct t as [|i]; [lia|]. cbn [get_tok upd_tok toks set_toks].
  assert (Hi : i < List.length (toks s)) by lia. clear H1 H2. revert i Hi. generalize (toks s).
  induction l as [|q l IH]; intros [|i] Hi; cbn in *; try lia; auto. apply IH. lia.
Qed.

Lemma toks_len_upd_tok t f s : List.length (toks (upd_tok t f s)) = List.length (toks s).
Proof. destruct t; [reflexivity|]. cbn [upd_tok toks set_toks]. apply upd_len. Qed.

Lemma frame_pool_pop to t s :
  dials (snd (pool_pop to t s)) = dials s /\ List.length (conns (snd (pool_pop to t s))) = List.length (conns s) /\
  List.length (toks (snd (pool_pop to t s))) = List.length (toks s) /\ keys (snd (pool_pop to t s)) = keys s /\
  (forall c, share_of (snd (pool_pop to t s)) c = share_of s c /\ is_open (snd (pool_pop to t s)) c = is_open s c) /\
  (forall t', p_marker (get_tok (snd (pool_pop to t s)) t') = p_marker (get_tok s t') /\ p_waiting (get_tok (snd (pool_pop to t s)) t') = p_waiting (get_tok s t')).
Proof.
  assert (D : forall c s0, dials (drop_conn c s0) = dials s0 /\ List.length (conns (drop_conn c s0)) = List.length (conns s0) /\ toks (drop_conn c s0) = toks s0 /\
              keys (drop_conn c s0) = keys s0 /\ (forall c', share_of (drop_conn c s0) c' = share_of s0 c' /\ is_open (drop_conn c s0) c' = is_open s0 c')).
  { intros c s0. split; [apply dials_drop_conn|]. split; [|split; [apply toks_drop_conn|split]].
    - unfold drop_conn. destruct (get_conn s0 c); [|reflexivity]. destruct (Nat.eqb _ _); cbn [conns emit set_out upd_conn set_conns]; apply upd_len.
    - unfold drop_conn. destruct (get_conn s0 c); [|reflexivity]. destruct (Nat.eqb _ _); reflexivity.
    - intros c'. split; [apply (conns_frame_drop c s0 c')|apply is_open_drop_conn]. }
  assert (DA : forall l s0, dials (drop_all l s0) = dials s0 /\ List.length (conns (drop_all l s0)) = List.length (conns s0) /\ toks (drop_all l s0) = toks s0 /\
              keys (drop_all l s0) = keys s0 /\ (forall c', share_of (drop_all l s0) c' = share_of s0 c' /\ is_open (drop_all l s0) c' = is_open s0 c')).
  { induction l as [|[c a] l IH]; intros s0; cbn [drop_all]; [repeat split|]. destruct (IH (drop_conn c s0)) as (A1 & A2 & A3 & A4 & A5). destruct (D c s0) as (B1 & B2 & B3 & B4 & B5).
    repeat split; try congruence; intros; destruct (A5 c'), (B5 c'); congruence. }
  assert (PL : forall rl s0 thr, dials (snd (pop_loop thr rl s0)) = dials s0 /\ List.length (conns (snd (pop_loop thr rl s0))) = List.length (conns s0) /\ toks (snd (pop_loop thr rl s0)) = toks s0 /\
              keys (snd (pop_loop thr rl s0)) = keys s0 /\ (forall c', share_of (snd (pop_loop thr rl s0)) c' = share_of s0 c' /\ is_open (snd (pop_loop thr rl s0)) c' = is_open s0 c')).
  { induction rl as [|[c a] rl IH]; intros s0 thr; cbn [pop_loop]; [repeat split|].
    destruct (match thr with Some y => (a <? y)%N | None => false end); cbn [snd].
    - destruct (DA (rev rl) (drop_conn c s0)) as (A1 & A2 & A3 & A4 & A5). destruct (D c s0) as (B1 & B2 & B3 & B4 & B5).
      repeat split; try congruence; intros; destruct (A5 c'), (B5 c'); congruence.
    - destruct (is_open s0 c); cbn [snd]; [repeat split|]. destruct (IH (drop_conn c s0) thr) as (A1 & A2 & A3 & A4 & A5). destruct (D c s0) as (B1 & B2 & B3 & B4 & B5).
      repeat split; try congruence; intros; destruct (A5 c'), (B5 c'); congruence. }
  unfold pool_pop. destruct (PL (rev (p_idle (get_tok s t))) s (expiry_threshold to (now s))) as (A1 & A2 & A3 & A4 & A5).
  destruct (pop_loop _ _ s) as [[r rest] s1]. cbn [snd] in *.
  split; [rewrite dials_upd_tok; exact A1|]. split; [rewrite conns_upd_tok; exact A2|]. split; [rewrite toks_len_upd_tok, A3; reflexivity|].
  split; [destruct t; exact A4|]. split.
  - intros c. rewrite share_of_upd_tok. destruct (A5 c) as [B1 B2]. split; [exact B1|]. rewrite <- B2. destruct t; reflexivity.
  - intros t'. assert (G1 : get_tok s1 t' = get_tok s t') by (destruct t'; [reflexivity|cbn [get_tok]; rewrite A3; reflexivity]).
    destruct (Nat.eq_dec t t') as [<-|Hne]; [|rewrite get_tok_upd_ne by exact Hne; rewrite G1; auto].
    destruct (get_tok_upd_eq t (set_idle (rev rest)) s1) as [E|E]; rewrite E, ?G1; auto.
Qed.

Lemma pool_pop_some to t s c : fst (pool_pop to t s) = Some c -> exists a, In (c, a) (p_idle (get_tok s t)).
Proof.
  unfold pool_pop. destruct (pop_loop (expiry_threshold to (now s)) (rev (p_idle (get_tok s t))) s) as [[r rest] s1] eqn:Ep. cbn [fst].
  intros ->. destruct (pop_loop_shape2 _ _ _ _ _ _ Ep) as (pre & a & Hrl). exists a. apply in_rev. rewrite Hrl. apply in_or_app. right. left. reflexivity.
Qed.

Lemma pool_pop_none_idle to t s : 1 <= t <= List.length (toks s) -> fst (pool_pop to t s) = None -> p_idle (get_tok (snd (pool_pop to t s)) t) = [].
Proof.
  intros Ht. unfold pool_pop. pose proof (toks_pop_loop (expiry_threshold to (now s)) (rev (p_idle (get_tok s t))) s) as Tk.
  destruct (pop_loop (expiry_threshold to (now s)) (rev (p_idle (get_tok s t))) s) as [[r rest] s1] eqn:Ep. cbn [fst snd] in *. intros ->.
  assert (Hr : rest = []) by (eapply HD.pool.ProofsC04np.pop_loop_none_rest; exact Ep).
  subst rest. rewrite get_tok_upd_in by (rewrite Tk; exact Ht). reflexivity.
Qed.

Lemma xt_drop_all l : forall s, xt s (drop_all l s).
Proof. induction l as [|[c a] l IH]; intros s; cbn [drop_all]; [apply xt_refl|]. eapply xt_trans; [apply xt_drop_conn|apply IH]. Qed.
Lemma xt_pop_loop thr rl : forall s, xt s (snd (pop_loop thr rl s)).
Proof.
  induction rl as [|[c a] rl IH]; intros s; cbn [pop_loop]; [apply xt_refl|].
  destruct (match thr with Some y => (a <? y)%N | None => false end); cbn [snd]; [eapply xt_trans; [apply xt_drop_conn|apply xt_drop_all]|].
  destruct (is_open s c); cbn [snd]; [apply xt_refl|]. eapply xt_trans; [apply xt_drop_conn|apply IH].
Qed.
Lemma fe_pool_pop_ext to t s : exists l, out (snd (pool_pop to t s)) = l ++ out s.
Proof.
  unfold pool_pop. pose proof (xt_pop_loop (expiry_threshold to (now s)) (rev (p_idle (get_tok s t))) s) as [((l & E) & _) _].
  destruct (pop_loop _ _ s) as [[r rest] s1]. cbn [snd] in *. exists l. rewrite out_upd_tok. exact E.
Qed.

Lemma K2_do_issue m' u p s ni :
  out s = [] -> R2 None m' s -> List.length (dials s) = List.length (reqs s) ->
  nth_error (m_reqs m') (List.length (reqs s)) = Some ni -> List.length (m_reqs m') = S (List.length (reqs s)) ->
  ri_proto ni = p -> ri_dial ni = DsNone -> is_live ni = true ->
  (g_pool cfg = true -> forall k, nth u (g_uris cfg) None = Some k -> rtk m' (List.length (reqs s)) = tok_of (keys_after (keys s) k) k) ->
  (g_pool cfg = true -> forall k c, nth u (g_uris cfg) None = Some k ->
     let s1 := snd (key_insert k (set_woken (woken s ++ [false]) s)) in let t := fst (key_insert k (set_woken (woken s ++ [false]) s)) in
     fst (pool_pop (g_timeout cfg) t s1) = Some c -> share_of s c = true -> is_open s c = true -> ri_poph ni <> None) ->
  K2 None m' (do_issue cfg u p s).
Proof.
  intros Ho HR Hld Hni Hlm Hpr Hdn Hlv Hrt Hph. unfold do_issue. set (n := List.length (reqs s)) in *.
  set (s0 := set_woken (woken s ++ [false]) s).
  assert (H0 : K2 None m' s0) by (apply K2_of; [exact Ho|]; eapply R2_frame; [| | | | | | | |exact HR]; try reflexivity; [intros c _ E; exact E|intros E; exact E]).
  assert (Cu0 : cur m' s0 = m') by (unfold cur; cbn [out s0 set_woken]; rewrite Ho; reflexivity).
  destruct (nth u (g_uris cfg) None) as [k|] eqn:Eu.
  2:{ eapply (K2_state None None m' s0); [reflexivity| |exact H0]. rewrite Cu0.
      apply (R2_add_req m' s0 RError _ ni); auto; try discriminate; try (rewrite <- Cu0; apply (K2_R _ _ _ H0)); try (cbn; intros _ _ E; exfalso; apply E; reflexivity). }
  destruct (g_pool cfg) eqn:Ep; cbn [negb].
  2:{ eapply (K2_state None None m' s0); [reflexivity| |exact H0]. rewrite Cu0.
      apply (R2_add_req m' s0 _ _ ni); auto; try discriminate; [rewrite <- Cu0; apply (K2_R _ _ _ H0)| |intros Hp; congruence].
      intros ck E. inversion E; subst ck. cbn [new_ck k_inner k_conn k_waiter k_slot k_token]. split; [|split; [intros Hp; congruence|discriminate]].
      split; [discriminate|]. split; [intros Hp; congruence|]. split; [intros [A|A]; discriminate|discriminate]. }
  (* pooled *)
  assert (Etk : List.length (toks s0) = List.length (keys s0)) by (apply (z_tk _ _ _ HR)).
  destruct (key_insert_spec k s0) as (Ek & Et & Etnz & Ef). destruct (key_insert_frame k s0) as (F1 & F2 & F3 & F4 & F5 & F6 & F7).
  destruct (key_insert_range k s0 Etk) as (Rg & Etk1). pose proof (get_tok_key_insert k s0) as Gt.
  specialize (Hph eq_refl k). cbv zeta in Hph. fold s0 in Hph.
  destruct (key_insert k s0) as [t s1]. cbn [fst snd] in *. change (keys s0) with (keys s) in *.
  assert (Ett : rtk m' n = t) by (rewrite (Hrt eq_refl k eq_refl); symmetry; exact Et).
  assert (H1 : K2 None m' s1).
  { assert (HR0 : R2 None m' s0) by (rewrite <- Cu0; apply (K2_R _ _ _ H0)).
    apply K2_of; [rewrite F1; exact Ho|]. eapply R2_frame; [| | | | | | | |exact HR0]; auto.
    - intros c. apply share_of_conns, F2. - intros c _. unfold is_open, get_conn. rewrite F2. auto. - rewrite F2. reflexivity. }
  assert (Cu1 : cur m' s1 = m') by (unfold cur; rewrite F1; change (out s0) with (out s); rewrite Ho; reflexivity).
  pose proof (K2_pool_pop None m' (g_timeout cfg) t s1 H1) as HP2. destruct (frame_pool_pop (g_timeout cfg) t s1) as (D2 & L2 & T2 & K2' & C2 & M2).
  destruct (pool_pop_frame (g_timeout cfg) t s1) as [R2' _]. pose proof (mreqs_cur_pool_pop m' (g_timeout cfg) t s1) as Mr2.
  pose proof (pool_pop_some (g_timeout cfg) t s1) as Hsome. pose proof (pool_pop_none_idle (g_timeout cfg) t s1 Rg) as Hnone.
  pose proof (xt_trans _ _ _ (xt_refl s1) (xt_refl s1)) as _.
  assert (X2 : exists l, out (snd (pool_pop (g_timeout cfg) t s1)) = l ++ out s1).
  { destruct (fe_pool_pop_ext (g_timeout cfg) t s1) as [l E]. eauto. }
  destruct (pool_pop (g_timeout cfg) t s1) as [found s2]. cbn [fst snd] in *.
  pose proof (cur_mle m' s1 s2 X2) as Mle2. rewrite Cu1 in Mle2.
  assert (Rn2 : List.length (reqs s2) = n) by (rewrite R2', F4; reflexivity).
  assert (Hni2 : nth_error (m_reqs (cur m' s2)) (List.length (reqs s2)) = Some ni) by (rewrite Mr2, Cu1, Rn2; exact Hni).
  assert (Hlm2 : List.length (m_reqs (cur m' s2)) = S (List.length (reqs s2))) by (rewrite Mr2, Cu1, Rn2; exact Hlm).
  assert (Hld2 : List.length (dials s2) = List.length (reqs s2)) by (rewrite D2, F3, R2', F4; exact Hld).
  assert (Ert2 : rtk (cur m' s2) n = t) by (rewrite (rtk_mle _ _ n Mle2); exact Ett).
  destruct found as [c|].
  - (* an idle connection is taken *)
    destruct (Hsome c eq_refl) as [a Hin]. destruct (C2 c) as [Sc Oc].
    eapply (K2_state None None m' s2); [reflexivity| |exact HP2].
    apply (R2_add_req (cur m' s2) s2 _ _ ni); auto; try discriminate; [apply (K2_R _ _ _ HP2)|].
    intros ck E. inversion E; subst ck. cbn [new_ck k_inner k_conn k_waiter k_slot k_token].
    split; [split; [discriminate|split; [intros _; discriminate|split; [reflexivity|reflexivity]]]|]. split; [intros _ E0; discriminate E0|].
    intros c0 E0. inversion E0; subst c0. split; [rewrite L2; apply (z_bi _ _ _ (K2_R _ _ _ H1) t c a Hin)|].
    intros Hs. split.
    + intros x Hm. destruct (M2 t) as [Em _]. unfold mk in Hm. rewrite Em in Hm.
      pose proof (z_C _ _ _ (K2_R _ _ _ H1) t x c a Hm Hin) as Hns. rewrite Sc in Hs. congruence.
    + intros Hop. apply (Hph c eq_refl eq_refl); [change (share_of s c) with (share_of s0 c); rewrite <- (share_of_conns s0 s1 c F2), <- Sc; exact Hs|].
      rewrite Oc in Hop. unfold is_open, get_conn in *. rewrite F2 in Hop. exact Hop.
  - (* nothing usable: queue up *)
    specialize (Hnone eq_refl). destruct (M2 t) as [Em Ew].
    set (pend := match p_marker (get_tok s2 t) with Some _ => true | None => false end).
    assert (Rg2 : 1 <= t <= List.length (toks s2)) by (rewrite T2; exact Rg).
    set (f3 := fun q => set_waiting (p_waiting q ++ [(n, pend)]) q).
    set (s3 := upd_tok t f3 s2).
    assert (G3 : get_tok s3 t = f3 (get_tok s2 t)) by (apply get_tok_upd_in; exact Rg2).
    assert (H3 : K2 None m' s3).
    { apply K2_tok; [| | | | | |exact HP2]; cbn [f3 set_waiting p_marker p_idle p_waiting].
      - intros Hp r ck d Hq Ht Hd Hs Hn. destruct (z_A _ _ _ (K2_R _ _ _ HP2) Hp r ck d Hq Hd Hs) as [_ B]. rewrite Ht in B. destruct (B Hn) as [B1 B2]. split; [exact B1|apply in_or_app; left; exact B2].
      - intros Hp x d Hx Hd Hpp Hst Hr. destruct (z_B _ _ _ (K2_R _ _ _ HP2) Hp x d Hx Hd Hpp Hst) as [A|A]; [left; unfold mk in A; rewrite Hr in A; exact A|right; exact A].
      - intros x c a Hm Hin. eapply (z_C _ _ _ (K2_R _ _ _ HP2)); eauto.
      - intros y ck c x Hq Hc Hs Ht Hm. eapply (z_D _ _ _ (K2_R _ _ _ HP2)); eauto. unfold mk. rewrite Ht. exact Hm.
      - intros x Hm. apply (z_mx _ _ _ (K2_R _ _ _ HP2) t x Hm).
      - intros c a Hin. eapply (z_bi _ _ _ (K2_R _ _ _ HP2)). exact Hin. }
    assert (C3 : cur m' s3 = cur m' s2) by (apply cur_out, out_upd_tok).
    assert (R3 : reqs s3 = reqs s2) by (unfold s3; apply reqs_upd_tok). assert (D3 : dials s3 = dials s2) by (unfold s3; apply dials_upd_tok).
    destruct pend eqn:Epd.
    + eapply (K2_state None None m' s3); [reflexivity| |exact H3].
      apply (R2_add_req (cur m' s3) s3 _ _ ni); rewrite ?C3, ?R3, ?D3; auto; try discriminate; [rewrite <- C3; apply (K2_R _ _ _ H3)|].
      intros ck E. inversion E; subst ck. cbn [new_ck k_inner k_conn k_waiter k_slot k_token].
      split; [split; [discriminate|split; [intros _; discriminate|split; [reflexivity|discriminate]]]|]. split; [intros _ E0; discriminate E0|discriminate].
    + assert (Emk : p_marker (get_tok s2 t) = None) by (unfold pend in Epd; destruct (p_marker (get_tok s2 t)); [discriminate|reflexivity]).
      set (own := match p with H1 => false | H2 => true end).
      set (s4 := if own then upd_tok t (set_marker (Some n)) s3 else s3).
      assert (Gm3 : p_marker (get_tok s3 t) = None /\ p_idle (get_tok s3 t) = [] /\ In (n, false) (p_waiting (get_tok s3 t))).
      { rewrite G3. cbn [f3 set_waiting p_marker p_idle p_waiting]. split; [exact Emk|split; [exact Hnone|apply in_or_app; right; left; reflexivity]]. }
      destruct Gm3 as (Gm & Gi & Gw).
      assert (H4 : K2 None m' s4 /\ (own = true -> mk s4 t = Some n) /\ In (n, false) (p_waiting (get_tok s4 t)) /\ cur m' s4 = cur m' s2 /\ reqs s4 = reqs s2 /\ dials s4 = dials s2).
      { unfold s4. destruct own eqn:Eown.
        2:{ split; [exact H3|]. split; [discriminate|]. split; [exact Gw|]. split; [exact C3|split; [exact R3|exact D3]]. }
        assert (Rg3 : 1 <= t <= List.length (toks s3)) by (unfold s3; rewrite toks_len_upd_tok; exact Rg2).
        assert (G4 : get_tok (upd_tok t (set_marker (Some n)) s3) t = set_marker (Some n) (get_tok s3 t)) by (apply get_tok_upd_in; exact Rg3).
        split; [|split; [intros _; unfold mk; rewrite G4; reflexivity|split; [rewrite G4; exact Gw|split; [rewrite (cur_out m' s3 _ (out_upd_tok _ _ _)); exact C3|split; [rewrite reqs_upd_tok; exact R3|rewrite dials_upd_tok; exact D3]]]]].
        apply K2_tok; [| | | | | |exact H3]; cbn [set_marker p_marker p_idle p_waiting].
        - intros Hp r ck d Hq Ht Hd Hs Hn. destruct (z_A _ _ _ (K2_R _ _ _ H3) Hp r ck d Hq Hd Hs) as [_ B]. rewrite Ht in B. destruct (B Hn) as [B1 B2]. split; [|exact B2].
          intros Hpp. specialize (B1 Hpp). unfold mk in B1. rewrite Gm in B1. discriminate.
        - intros Hp x d Hx Hd Hpp Hst Hr. right. destruct (z_B _ _ _ (K2_R _ _ _ H3) Hp x d Hx Hd Hpp Hst) as [A|A]; [|exact A].
          exfalso. rewrite Hr in A. unfold mk in A. rewrite Gm in A. discriminate.
        - intros x c a _ Hin. rewrite Gi in Hin. destruct Hin.
        - intros y ck c x Hq Hc Hs Ht Hm. inversion Hm; subst x. apply nth_lt in Hq. rewrite R3, Rn2 in Hq. exact Hq.
        - intros x Hm. inversion Hm; subst x. split; [rewrite C3, Hlm2, Rn2; lia|]. intros _. rewrite C3. exact Ert2.
        - intros c a Hin. rewrite Gi in Hin. destruct Hin. }
      destruct H4 as (H4 & Mk4 & W4 & C4 & R4 & D4).
      eapply (K2_state None None m' s4); [reflexivity| |exact H4].
      apply (R2_add_req (cur m' s4) s4 _ _ ni); rewrite ?C4, ?R4, ?D4; auto; try discriminate; [rewrite <- C4; apply (K2_R _ _ _ H4)| |].
      * intros ck E. inversion E; subst ck. cbn [new_ck k_inner k_conn k_waiter k_slot k_token].
        split; [split; [destruct (g_cont cfg); discriminate|split; [intros _; destruct (g_cont cfg) eqn:Ec; [discriminate|reflexivity]|split; [intros [A|A]; destruct (g_cont cfg); discriminate|discriminate]]]|].
        split; [|discriminate]. intros _ _. split; [reflexivity|]. intros _. rewrite Rn2. split; [|exact W4].
        cbn [d_proto]. intros Epp. apply Mk4. unfold own. rewrite Epp. reflexivity.
      * intros _ Epp _. left. cbn [d_proto] in Epp. rewrite Rn2, Ert2. apply Mk4. unfold own. rewrite Epp. reflexivity.
Qed.

(* ---------------------------------------------------------------- the invariant between operations *)
Definition OC (m : mst) (s : state) : Prop :=
  forall c cn x, get_conn s c = Some cn -> c_open cn = true -> nth_error (m_conns m) c = Some x -> ci_closed x = None.

Lemma OC_of_core m s : HD.pool.CoreC05.Inv cfg m s -> OC m s.
Proof.
  intros [_ HR] c cn x Hc Ho Hx.
  apply (HD.pool.CoreC05.rm_open _ _ _ HR c (HD.pool.CoreC05.cv_of x)).
  - unfold HD.pool.CoreC05.copen. rewrite nth_map. unfold get_conn in Hc. rewrite Hc. cbn. rewrite Ho. reflexivity.
  - unfold HD.pool.CoreC05.cv. rewrite nth_map, Hx. reflexivity.
Qed.

Record Inv2 (m : mst) (s : state) : Prop := mkInv2 {
  i2_a : Inv cfg m s;
  i2_r : R2 None m s;
  i2_c : HD.pool.CoreC05.Inv cfg m s
}.

(* the tracker after [track]: only the op counter, the stamps and the previous observation differ *)
Lemma R2_post m m2 s :
  m_reqs m2 = m_reqs m -> m_keys m2 = m_keys m -> m_i m <= m_i m2 ->
  (forall c y, nth_error (m_conns m) c = Some y -> exists y', nth_error (m_conns m2) c = Some y' /\ cfix y y') ->
  R2 None m s -> R2 None m2 s.
Proof.
  intros Er Ek Ei Ec H. apply (R2_weak None m); [| | |exact H].
  - constructor; auto. + intros r y Hy. exists y. rewrite Er. split; [exact Hy|apply rfix_refl]. + rewrite Er. reflexivity.
  - intros r y y' Hy Hy'. rewrite Er, Hy in Hy'. inversion Hy'; subst. split; [auto|left; auto].
  - intros r ck y' Hq Hy'. destruct (z_live _ _ _ H r ck Hq) as (y & Hy & Hl). rewrite Er, Hy in Hy'. inversion Hy'; subst. exact Hl.
Qed.

Lemma conns_fix_offer ob : forall l m c y, nth_error (m_conns m) c = Some y ->
  exists y', nth_error (m_conns (fold_left (track_offer ob) l m)) c = Some y' /\ cfix y y'.
Proof.
  induction l as [|e l IH]; intros m c y Hy; cbn [fold_left]; [exists y; split; [exact Hy|apply cfix_refl]|].
  assert (H1 : exists y1, nth_error (m_conns (track_offer ob m e)) c = Some y1 /\ cfix y y1).
  { destruct e; try (exists y; split; [exact Hy|apply cfix_refl]). destruct ok; [|exists y; split; [exact Hy|apply cfix_refl]].
    cbn [track_offer]. destruct (nth_error (m_conns m) c0); [|exists y; split; [exact Hy|apply cfix_refl]].
    unfold ci_upd. cbn [m_conns set_m_conns]. apply (upd_fix cfix); auto using cfix_refl. intros y0. repeat split. }
  destruct H1 as (y1 & Hy1 & F1). destruct (IH _ c y1 Hy1) as (y2 & Hy2 & F2). exists y2. split; [exact Hy2|].
  destruct F1 as (A1 & A2 & A3), F2 as (B1 & B2 & B3). repeat split; congruence.
Qed.

Lemma conns_fix_stamp prev : forall l m c y, nth_error (m_conns m) c = Some y ->
  exists y', nth_error (m_conns (fold_left (track_idle_stamp prev) l m)) c = Some y' /\ cfix y y'.
Proof.
  assert (A : forall sn cs m c y, nth_error (m_conns m) c = Some y ->
            exists y', nth_error (m_conns (fold_left (fun m c0 => if mem c0 (idle_of prev (sn_token sn)) then m else ci_upd (set_ci_idle_time (m_time m)) c0 m) cs m)) c = Some y' /\ cfix y y').
  { intros sn. induction cs as [|c0 cs IH]; intros m c y Hy; cbn [fold_left]; [exists y; split; [exact Hy|apply cfix_refl]|].
    assert (H1 : exists y1, nth_error (m_conns (if mem c0 (idle_of prev (sn_token sn)) then m else ci_upd (set_ci_idle_time (m_time m)) c0 m)) c = Some y1 /\ cfix y y1).
    { destruct (mem c0 _); [exists y; split; [exact Hy|apply cfix_refl]|]. unfold ci_upd. cbn [m_conns set_m_conns]. apply (upd_fix cfix); auto using cfix_refl. intros y0. repeat split. }
    destruct H1 as (y1 & Hy1 & F1). destruct (IH _ c y1 Hy1) as (y2 & Hy2 & F2). exists y2. split; [exact Hy2|].
    destruct F1 as (A1 & A2 & A3), F2 as (B1 & B2 & B3). repeat split; congruence. }
  induction l as [|sn l IH]; intros m c y Hy; cbn [fold_left]; [exists y; split; [exact Hy|apply cfix_refl]|].
  destruct (A sn (sn_idle sn) m c y Hy) as (y1 & Hy1 & F1). destruct (IH _ c y1 Hy1) as (y2 & Hy2 & F2). exists y2. split; [exact Hy2|].
  destruct F1 as (A1 & A2 & A3), F2 as (B1 & B2 & B3). repeat split; congruence.
Qed.

Lemma G_start_R1 m' m s : Inv cfg m s -> tv_of m' = tv_of m -> Facts m' (set_out [] s).
Proof. intros HI E. apply facts_of_R1. apply (G_R1 _ _ _ _ _ _ (G_start cfg (fun _ => 0) m' m s HI E)). Qed.

(* every operation but Issue *)
Lemma step_K2_plain m s o :
  (forall u p, o <> Issue u p) -> Inv2 m s -> K2 None (track_op cfg m o (observe (step cfg s o))) (step cfg s o).
Proof.
  intros Hi [HI HR HC]. set (ob := observe (step cfg s o)). clearbody ob.
  assert (St : forall m', R2 None m' s -> K2 None m' (set_out [] s)) by (intros m' H'; apply K2_of; [reflexivity|apply R2_out, H']).
  unfold step. destruct o.
  - exfalso. eapply Hi. reflexivity.
  - apply K2_do_poll; [apply St; apply R2_op_start; [discriminate|discriminate|exact HR]|]. apply (G_start_R1 _ m s HI). reflexivity.
  - apply K2_do_cancel; [reflexivity|apply R2_out, HR|]. cbn [reqs set_out]. rewrite <- (iv_l _ _ _ HI). lia.
  - apply K2_do_finish. apply St. apply R2_op_start; [discriminate|discriminate|exact HR].
  - assert (H0 : K2 None (track_op cfg m (Upgrade r) ob) (set_out [] s)) by (apply St; apply R2_op_start; [discriminate|discriminate|exact HR]).
    unfold do_upgrade. destruct (get_req (set_out [] s) r) as [[|ck|p fn pl| |]|]; try exact H0. apply K2_close, H0.
  - assert (H0 : K2 None (track_op cfg m (DialDone r x) ob) (set_out [] s)) by (apply St; apply R2_op_start; [discriminate|discriminate|exact HR]).
    unfold do_dial_done. destruct (get_dial (set_out [] s) r) as [d|] eqn:Hd; [|exact H0]. destruct (d_stage d) eqn:Es; try exact H0.
    assert (H1 : K2 None (track_op cfg m (DialDone r x) ob) (upd_dial r (fun d0 => d_set_polled None (d_set_stage (DResolved x) d0)) (set_out [] s))).
    { apply K2_upd_dial; [reflexivity|intros d0 _ E; cbn in E; discriminate| | |exact H0].
      - intros d0 Hd0 E. rewrite Hd in Hd0. inversion Hd0; subst. rewrite Es in E. discriminate.
      - intros y d0 Hy _ Hf Hu _. exfalso. exact (dialdone_resolved m r x ob y Hy Hf Hu). }
    destruct (d_polled d) as [[|tid]|]; cbn [wake_poller]; [apply K2_wake, H1|apply K2_wake_task, H1|exact H1].
  - assert (H0 : K2 None (track_op cfg m (ConnReady c) ob) (set_out [] s)) by (apply St; apply R2_op_start; [discriminate|discriminate|exact HR]).
    unfold do_conn_ready. destruct (get_conn (set_out [] s) c); [|exact H0]. apply K2_drain. apply K2_upd_conn; [reflexivity|reflexivity|exact H0].
  - assert (H0 : K2 None (track_op cfg m (ConnClose c) ob) (set_out [] s)) by (apply St; apply R2_op_start; [discriminate|discriminate|exact HR]).
    unfold do_conn_close. destruct (get_conn (set_out [] s) c); [|exact H0]. apply K2_close, H0.
  - assert (HG : G2 (ilen (step cfg s Bg)) (track_op cfg m Bg ob) (set_out [] s)).
    { split; [apply (G_start cfg _ _ m s HI); reflexivity|apply St; apply R2_op_start; [discriminate|discriminate|exact HR]]. }
    unfold do_bg. apply (G2_bg_loop (ilen (step cfg s Bg)) _ _ (set_out [] s) HG). apply Le_refl.
  - apply K2_of; [reflexivity|]. eapply R2_frame; [| | | | | | | |apply (R2_op_start m s (Tick dt) ob); [discriminate|discriminate|exact HR]]; try reflexivity; [intros c _ E; exact E|intros E; exact E].
Qed.

(* ---------------------------------------------------------------- Issue *)
Definition issue_keys (m : mst) (u : nat) : list key :=
  match nth u (g_uris cfg) None with Some k' => if g_pool cfg then keys_after (m_keys m) k' else m_keys m | None => m_keys m end.
Definition issue_tok (m : mst) (u : nat) : nat :=
  match nth u (g_uris cfg) None with Some k' => if g_pool cfg then tok_of (issue_keys m u) k' else 0 | None => 0 end.

Lemma issue_tracker m u p ob :
  exists ni, m_reqs (track_op cfg m (Issue u p) ob) = m_reqs m ++ [ni] /\ m_conns (track_op cfg m (Issue u p) ob) = m_conns m /\
    m_i (track_op cfg m (Issue u p) ob) = m_i m /\ m_keys (track_op cfg m (Issue u p) ob) = issue_keys m u /\
    ri_key ni = nth u (g_uris cfg) None /\ ri_proto ni = p /\ ri_dial ni = DsNone /\ ri_at ni = m_i m /\ is_live ni = true /\
    ri_d6 ni = h2_handle_out m (List.length (m_reqs m)) (nth u (g_uris cfg) None) /\
    ri_poph ni = match skipn (List.length (idle_of (o_snap ob) (issue_tok m u))) (idle_of (o_snap (m_prev m)) (issue_tok m u)) with
                 | c :: _ => match nth_error (m_conns m) c with
                             | Some y => if ci_share y && match ci_closed y with None => true | _ => false end then Some c else None
                             | None => None end
                 | [] => None end.
Proof.
  cbn [track_op]. cbv zeta. eexists. cbn [m_reqs m_conns m_i m_keys set_m_keys set_m_reqs].
  split; [reflexivity|]. split; [reflexivity|]. split; [reflexivity|]. split.
  - unfold issue_keys, keys_after. destruct (nth u (g_uris cfg) None); [destruct (g_pool cfg)|]; reflexivity.
  - cbn [ri_key ri_proto ri_dial ri_at ri_d6 ri_poph is_live ri_stat]. repeat (split; [reflexivity|]).
    unfold issue_tok, issue_keys, keys_after. destruct (nth u (g_uris cfg) None); [destruct (g_pool cfg)|]; reflexivity.
Qed.

Lemma step_K2_issue m s u p :
  Inv2 m s -> K2 None (track_op cfg m (Issue u p) (observe (step cfg s (Issue u p)))) (step cfg s (Issue u p)).
Proof.
  intros [HI HR HC]. set (ob := observe (step cfg s (Issue u p))). pose proof (iv_r _ _ _ HI) as H1. pose proof (iv_l _ _ _ HI) as Hl.
  pose proof (OC_of_core m s HC) as Hoc.
  destruct (issue_tracker m u p ob) as (ni & Er & Ec & Ei & Ek & Nk & Np & Nd & Na & Nl & N6 & Nph).
  set (m' := track_op cfg m (Issue u p) ob) in *. set (n := List.length (m_reqs m)) in *. set (k := nth u (g_uris cfg) None) in *.
  assert (Rv : forall r y, nth_error (m_reqs m) r = Some y -> nth_error (t_rv (tv_of m)) r = Some (rv_of y)) by (intros r y Hy; unfold tv_of; cbn [t_rv]; rewrite nth_map, Hy; reflexivity).
  assert (Cv : forall c y, nth_error (m_conns m) c = Some y -> nth_error (t_cv (tv_of m)) c = Some (cv_of y)) by (intros c y Hy; unfold tv_of; cbn [t_cv]; rewrite nth_map, Hy; reflexivity).
  assert (Lrv : List.length (t_rv (tv_of m)) = n) by (unfold tv_of; cbn [t_rv]; apply map_length).
  (* request keys and tokens of the old entries are unchanged *)
  assert (Krq : forall r, r < n -> req_key m' r = req_key m r).
  { intros r Hr. unfold req_key. rewrite Er, nth_error_app1 by exact Hr. reflexivity. }
  assert (Kt : forall r, r < n -> rtk m' r = rtk m r).
  { intros r Hr. unfold rtk. rewrite (Krq r Hr). unfold key_tok. rewrite Ek. destruct (req_key m r) as [k0|] eqn:Erk; [|reflexivity].
    unfold issue_keys. fold k. destruct k as [k'|]; [|reflexivity]. destruct (g_pool cfg) eqn:Ep; [|reflexivity]. apply tok_of_after.
    unfold req_key in Erk. destruct (nth_error (m_reqs m) r) as [y|] eqn:Ey; [|discriminate].
    apply (q_kf _ _ _ H1 Ep r (rv_of y) k0 (Rv r y Ey) Erk). }
  assert (Kc : forall c, conn_key m' c = conn_key m c).
  { intros c. unfold conn_key. rewrite Ec. destruct (nth_error (m_conns m) c) as [x|] eqn:Ex; [|reflexivity]. apply Krq.
    pose proof (q_ob _ _ _ H1 c (cv_of x) (Cv c x Ex)) as Ho. rewrite Lrv in Ho. exact Ho. }
  assert (Ks : forall r, SS m r = true -> SS m' r = true).
  { intros r S. unfold SS in *. destruct (nth_error (m_reqs m) r) as [y|] eqn:Ey; [|discriminate].
    rewrite Er, nth_error_app1 by (eapply nth_lt; eauto). rewrite Ey. unfold share_conn_since in *. rewrite Ec.
    erewrite existsb_ext'; [exact S|]. intros [c x]. rewrite Kc. reflexivity. }
  assert (Hld : List.length (dials s) = List.length (reqs s)) by (apply (q_ld _ _ _ H1)).
  assert (Ke : g_pool cfg = true -> forall y ck c, get_req s y = Some (RCheckout ck) -> k_conn ck = Some c -> share_of s c = true -> is_open s c = true ->
            rtk m' n = k_token ck -> ri_d6 ni = true).
  { intros Hp y ck c Hq Hc Hs Ho Hr. rewrite N6. unfold h2_handle_out. apply existsb_ix0.
    destruct (z_live _ _ _ HR y ck Hq) as (yi & Hyi & Hlv). destruct (z_P _ _ _ HR y ck c Hq Hc Hs Ho) as (yi' & Hyi' & Hpp). rewrite Hyi in Hyi'. inversion Hyi'; subst yi'.
    exists y, yi. split; [exact Hyi|]. assert (Hyn : y < n) by (eapply nth_lt; eauto).
    destruct (q_ck _ _ _ H1 y ck Hq) as (A & _). destruct (A Hp) as [Anz Art]. rewrite <- rtk_tv in Art.
    assert (Esk : same_key (ri_key yi) k = true).
    { assert (E1 : ri_key yi = req_key m' y) by (rewrite (Krq y Hyn); unfold req_key; rewrite Hyi; reflexivity).
      assert (E2 : k = req_key m' n) by (unfold req_key; rewrite Er, nth_error_app2, Nat.sub_diag by (fold n; lia); cbn [nth_error]; symmetry; exact Nk).
      rewrite E1, E2. apply rtk_eq_same_key; [rewrite (Kt y Hyn), Art, Hr; reflexivity|rewrite (Kt y Hyn), Art; exact Anz]. }
    rewrite Esk, Hlv. destruct (ri_poph yi); [|contradiction]. destruct (Nat.eqb_spec y n); [lia|reflexivity]. }
  assert (HR' : R2 None m' s) by exact (R2_issue_tr m m' s ni HR Hl Hld Er Ei Kt Ks Nd Na Nl Ke).
  assert (Hkeys : g_pool cfg = true -> m_keys m = keys s) by (intros Hp; apply (q_keys _ _ _ H1 Hp)).
  assert (Hn : List.length (reqs (set_out [] s)) = n) by (cbn [reqs set_out]; unfold n; symmetry; exact Hl).
  unfold step. apply (K2_do_issue m' u p (set_out [] s) ni); rewrite ?Hn; auto.
  - apply R2_out, HR'.
  - cbn [dials set_out]. rewrite Hld. unfold n. symmetry. exact Hl.
  - rewrite Er, nth_error_app2, Nat.sub_diag by (fold n; lia). reflexivity.
  - rewrite Er, app_length. cbn [List.length]. fold n. lia.
  - intros Hp k0 Ek0. unfold rtk, req_key. rewrite Er, nth_error_app2, Nat.sub_diag by (fold n; lia). cbn [nth_error]. rewrite Nk. fold k.
    change (nth u (g_uris cfg) None) with k in Ek0. rewrite Ek0. cbn [key_tok]. rewrite Ek. unfold issue_keys. fold k. rewrite Ek0, Hp, (Hkeys Hp). reflexivity.
  - intros Hp k0 c Ek0. cbv zeta. change (nth u (g_uris cfg) None) with k in Ek0. set (s0 := set_woken (woken (set_out [] s) ++ [false]) (set_out [] s)).
    intros Hpop Hs Ho. rewrite Nph.
    destruct (key_insert_spec k0 s0) as (_ & Et & _ & _). pose proof (get_tok_key_insert k0 s0) as Gt.
    assert (Etok : issue_tok m u = fst (key_insert k0 s0)).
    { unfold issue_tok, issue_keys. fold k. rewrite Ek0, Hp, (Hkeys Hp). rewrite Et. reflexivity. }
    rewrite Etok. destruct (key_insert k0 s0) as [t s1] eqn:Eki. cbn [fst snd] in *.
    destruct (pool_pop_removed (g_timeout cfg) t s1 c Hpop) as [l Hsk].
    assert (Ebef : idle_of (o_snap (m_prev m)) t = map fst (p_idle (get_tok s1 t))).
    { rewrite (iv_p _ _ _ HI), idle_of_snapshot. rewrite Gt. reflexivity. }
    assert (Eaft : List.length (idle_of (o_snap ob) t) = List.length (p_idle (get_tok (snd (pool_pop (g_timeout cfg) t s1)) t))).
    { unfold ob, observe. cbn [o_snap]. rewrite idle_of_snapshot, map_length. f_equal. f_equal.
      unfold step, do_issue. fold s0. fold k. rewrite Ek0, Hp. cbn [negb]. rewrite Eki.
      destruct (pool_pop (g_timeout cfg) t s1) as [found s2] eqn:Epp. cbn [fst snd] in *. subst found. reflexivity. }
    rewrite Ebef, Eaft, Hsk.
    destruct (share_of_get _ _ Hs) as (cn & Hc & Hsh). assert (Hlt : c < List.length (m_conns m)).
    { pose proof (q_lc _ _ _ H1) as Lc. unfold tv_of in Lc. cbn [t_cv] in Lc. rewrite map_length in Lc. rewrite Lc. eapply nth_lt. exact Hc. }
    destruct (nth_ex _ _ Hlt) as [y Hy]. rewrite Hy.
    assert (Esh : ci_share y = true) by (rewrite <- Hsh; apply (q_share _ _ _ H1 c (cv_of y) cn (Cv c y Hy) Hc)).
    assert (Ecl : ci_closed y = None). { apply (Hoc c cn y Hc); [|exact Hy]. unfold is_open in Ho. rewrite Hc, Hsh in Ho. exact Ho. }
    rewrite Esh, Ecl. discriminate.
Qed.

Lemma step_K2 m s o : Inv2 m s -> K2 None (track_op cfg m o (observe (step cfg s o))) (step cfg s o).
Proof.
  intros HI. destruct o; try (apply step_K2_plain; [discriminate|exact HI]). apply step_K2_issue, HI.
Qed.

Lemma offer_keep ob : forall l m, m_reqs (fold_left (track_offer ob) l m) = m_reqs m /\ m_keys (fold_left (track_offer ob) l m) = m_keys m /\ m_i (fold_left (track_offer ob) l m) = m_i m.
Proof.
  induction l as [|e l IH]; intros m; cbn [fold_left]; [auto|]. destruct (IH (track_offer ob m e)) as (A & B & C). rewrite A, B, C.
  destruct e; auto. destruct ok; auto. cbn [track_offer]. destruct (nth_error (m_conns m) c); auto.
Qed.
Lemma stamp_keep prev : forall l m, m_reqs (fold_left (track_idle_stamp prev) l m) = m_reqs m /\ m_keys (fold_left (track_idle_stamp prev) l m) = m_keys m /\ m_i (fold_left (track_idle_stamp prev) l m) = m_i m.
Proof.
  assert (A : forall sn cs m, let m2 := fold_left (fun m c => if mem c (idle_of prev (sn_token sn)) then m else ci_upd (set_ci_idle_time (m_time m)) c m) cs m in
            m_reqs m2 = m_reqs m /\ m_keys m2 = m_keys m /\ m_i m2 = m_i m).
  { intros sn. induction cs as [|c cs IH]; intros m; cbn [fold_left]; [auto|]. cbv zeta in *.
    destruct (IH (if mem c (idle_of prev (sn_token sn)) then m else ci_upd (set_ci_idle_time (m_time m)) c m)) as (X & Y & Z). rewrite X, Y, Z.
    destruct (mem c _); auto. }
  induction l as [|sn l IH]; intros m; cbn [fold_left]; [auto|]. destruct (IH (track_idle_stamp prev m sn)) as (X & Y & Z). rewrite X, Y, Z. apply (A sn (sn_idle sn) m).
Qed.

Lemma Inv2_next m s o : Inv2 m s -> Inv2 (track cfg m o (observe (step cfg s o))) (step cfg s o).
Proof.
  intros HI. pose proof (step_K2 m s o HI) as (_ & HR). destruct HI as [HA HR0 HC]. set (s' := step cfg s o) in *. set (ob := observe s') in *.
  constructor.
  - apply Inv_next, HA.
  - unfold track. cbv zeta.
    assert (Eev : o_events ob = rev (out s')) by reflexivity. assert (Esn : o_snap ob = snapshot s') by reflexivity. rewrite Eev, Esn.
    set (m1 := fold_left track_ev (rev (out s')) (track_op cfg m o ob)) in *.
    set (m2 := fold_left (track_offer ob) (rev (out s')) m1). set (m3 := fold_left (track_idle_stamp (o_snap (m_prev m))) (snapshot s') m2).
    destruct (offer_keep ob (rev (out s')) m1) as (O1 & O2 & O3). destruct (stamp_keep (o_snap (m_prev m)) (snapshot s') m2) as (S1 & S2' & S3).
    fold m2 in O1, O2, O3. fold m3 in S1, S2', S3.
    apply (R2_post m1); cbn [m_reqs m_keys m_i m_conns set_m_prev set_m_i].
    + congruence.
    + congruence.
    + rewrite S3, O3. lia.
    + intros c y Hy. destruct (conns_fix_offer ob (rev (out s')) m1 c y Hy) as (y1 & Hy1 & F1). fold m2 in Hy1.
      destruct (conns_fix_stamp (o_snap (m_prev m)) (snapshot s') m2 c y1 Hy1) as (y2 & Hy2 & F2). exists y2. split; [exact Hy2|].
      destruct F1 as (A1 & A2 & A3), F2 as (B1 & B2 & B3). repeat split; congruence.
    + exact HR.
  - eapply HD.pool.CoreC05.Inv_track; [apply HD.pool.CoreC05.G_step; exact HC|reflexivity].
Qed.

Lemma Inv2_init : Inv2 m0 init.
Proof.
  constructor; [apply Inv_init| |apply HD.pool.CoreC05.Inv_init].
  assert (Gt : forall t, get_tok init t = empty_tok) by (intros [|[|?]]; reflexivity).
  constructor; cbn; unfold get_req, get_dial, get_conn, mk; cbn; auto; try (intros [|?]; cbn; intros; discriminate); try (intros; lia).
  - intros _ [|?] ck d E; discriminate E.
  - intros _ [|?] d _ E; discriminate E.
  - intros t x c a E. rewrite Gt in E. discriminate E.
  - intros t x E. rewrite Gt in E. discriminate E.
  - intros t c a E. rewrite Gt in E. destruct E.
Qed.

Lemma step_chk_S2 m s o : Inv2 m s -> chk_S2 cfg m o (observe (step cfg s o)) = true.
Proof. intros HI. destruct (step_K2 m s o HI) as (He & _). unfold chk_S2. cbn [o_events observe]. exact He. Qed.

Theorem mon_S2_trace_from : forall ops s m, Inv2 m s -> mon_steps chk_S2 cfg m ops (trace_from cfg s ops) = true.
Proof.
  induction ops as [|o ops IH]; intros s m HI; cbn [trace_from mon_steps]; [reflexivity|].
  rewrite (step_chk_S2 m s o HI), (IH _ _ (Inv2_next m s o HI)). reflexivity.
Qed.

End S2.

Theorem mon_C04_S2_holds : forall cfg ops, mon_C04_S2 cfg ops (trace cfg ops) = true.
Proof. intros cfg ops. apply (mon_S2_trace_from cfg ops init m0 (Inv2_init cfg)). Qed.
Print Assumptions mon_C04_S2_holds.
